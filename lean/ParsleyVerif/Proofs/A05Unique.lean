/-
  C05 (full value theorem), UNAMBIGUITY of the arithmetic grammar — on every input.

  `T P f k q x`: "`x` is a tree of nonterminal `k` (0 = expr, 1 = term, 2 = factor) started at `q`", with the
  trims read exactly (the leaf's end is moved past the whitespace).  The trees started at one position are
  not a chain ("1+2" and "1+2*3" both start at the `1`), but they are all CUTS of each other (`Cut`): a tree
  that ends no later than another one is obtained from it by going down left spines and cutting right
  operands.  Two trees with the same start and the same end are equal (`T_unique`).
-/
import ParsleyVerif.Proofs.A05Lex
import ParsleyVerif.Proofs.ArithEval
namespace PV.A05
open PV PV.Text

section
variable (P : Params) (f : File)

/-- `Trim(Integer())` started at `q` gives `x` -/
def LitAt (q : Nat) (x : Node) : Prop := ∃ n, Terminal.parse P f .integer (sk f q) = .node n ∧ x = mv f n
/-- `Trim(Rune(c))` started at `q` gives `x` -/
def RuneAtQ (c q : Nat) (x : Node) : Prop :=
  ∃ n, Terminal.parse P f (.rune c [34, c, 34]) (sk f q) = .node n ∧ x = mv f n
/-- an operator of level `j` started at `q` gives `x` -/
def OpAt (j q : Nat) (x : Node) : Prop := ∃ c o, Op.ofRune c = some o ∧ o.level = j ∧ RuneAtQ P f c q x

/-- the node of `X → X op Y` -/
def binN (l op r : Node) : Node := .nt seqTok [l, op, r] l.pos r.rpos (.custom 0)
/-- the node of `factor → ( expr )` -/
def parN (lp e rp : Node) : Node := .nt seqTok [lp, e, rp] lp.pos rp.rpos (.select 1)

inductive T : Nat → Nat → Node → Prop
  | lit {k q x} : LitAt P f q x → T k q x
  | paren {k q lp e rp} : RuneAtQ P f 40 q lp → T 0 lp.rpos e → RuneAtQ P f 41 e.rpos rp → T k q (parN lp e rp)
  | bin {k j q l op r} : k ≤ j → j ≤ 1 → T j q l → OpAt P f j l.rpos op → T (j + 1) op.rpos r → T k q (binN l op r)
end

theorem binN_inj {l op r l' op' r' : Node} (h : binN l op r = binN l' op' r') : l = l' ∧ op = op' ∧ r = r' := by
  simp only [binN, Node.nt.injEq, List.cons.injEq, and_true, true_and] at h
  exact ⟨h.1.1, h.1.2.1, h.1.2.2⟩

theorem binN_ne_parN {l op r lp e rp : Node} : binN l op r ≠ parN lp e rp := by
  intro h; simp [binN, parN] at h

theorem binN_rpos (l op r : Node) : (binN l op r).rpos = r.rpos := rfl
theorem parN_rpos (lp e rp : Node) : (parN lp e rp).rpos = rp.rpos := rfl

theorem binN_depth (l op r : Node) : (binN l op r).depth = max l.depth (max op.depth r.depth) + 1 := depth_nt3 ..
theorem parN_depth (lp e rp : Node) : (parN lp e rp).depth = max lp.depth (max e.depth rp.depth) + 1 := depth_nt3 ..

theorem ofRune_ascii {c : Nat} {o : Op} (h : Op.ofRune c = some o) : c < 0x80 := by
  unfold Op.ofRune at h
  split at h <;> first | omega | cases h

section
variable {P : Params} {f : File} (hoff : 1 ≤ f.offset)
include hoff

/-! ### the leaves -/

theorem RuneAtQ.form {c q : Nat} {x : Node} (h : RuneAtQ P f c q x) (hq : InFile f q) (hc : c < 0x80) :
    (rest f (sk f q)).head? = some c ∧
    x = .term (Utf8.encodeRune c) (.rune c) (sk f q) (sk f (sk f q + 1)) := by
  obtain ⟨n, hn, rfl⟩ := h
  obtain ⟨hh, rfl⟩ := (rune_node_iff P f _ c _ n (sk_inFile f q hq hoff) hc).mp hn
  exact ⟨hh, mv_term ..⟩

theorem RuneAtQ.pos {c q : Nat} {x : Node} (h : RuneAtQ P f c q x) (hq : InFile f q) (hc : c < 0x80) :
    q < x.rpos ∧ InFile f x.rpos := by
  obtain ⟨hh, rfl⟩ := h.form hoff hq hc
  have h1 := sk_inFile f q hq hoff
  have h2 : InFile f (sk f q + 1) := by
    refine inFile_add f _ 1 h1 ?_
    cases hr : rest f (sk f q) with
    | nil => rw [hr] at hh; cases hh
    | cons b t => simp
  have h3 := sk_ge f q hq hoff
  have h4 := sk_ge f _ h2 hoff
  exact ⟨by simp only [Node.rpos]; omega, sk_inFile f _ h2 hoff⟩

/-- which rune is found at a position is decided by the byte there -/
theorem RuneAtQ.det {c c' q : Nat} {x x' : Node} (h : RuneAtQ P f c q x) (h' : RuneAtQ P f c' q x')
    (hq : InFile f q) (hc : c < 0x80) (hc' : c' < 0x80) : c = c' ∧ x = x' := by
  obtain ⟨h1, rfl⟩ := h.form hoff hq hc
  obtain ⟨h2, rfl⟩ := h'.form hoff hq hc'
  rw [h1] at h2
  cases h2
  exact ⟨rfl, rfl⟩

theorem LitAt.form {q : Nat} {x : Node} (h : LitAt P f q x) (hq : InFile f q) :
    ∃ b v k, (rest f (sk f q)).head? = some b ∧ (b = 43 ∨ b = 45 ∨ (48 ≤ b ∧ b ≤ 57)) ∧ 0 < k ∧
      k ≤ (rest f (sk f q)).length ∧
      x = .term (tokOf "INTEGER") (.int v) (sk f q) (sk f (sk f q + k)) := by
  obtain ⟨n, hn, rfl⟩ := h
  obtain ⟨b, hb, hb2, v, k, hk, hk2, rfl⟩ := integer_node_head P f _ n (sk_inFile f q hq hoff) hn
  exact ⟨b, v, k, hb, hb2, hk, hk2, mv_term ..⟩

theorem LitAt.pos {q : Nat} {x : Node} (h : LitAt P f q x) (hq : InFile f q) : q < x.rpos ∧ InFile f x.rpos := by
  obtain ⟨b, v, k, _, _, hk, hk2, rfl⟩ := h.form hoff hq
  have h1 := sk_inFile f q hq hoff
  have h2 : InFile f (sk f q + k) := inFile_add f _ k h1 hk2
  have h3 := sk_ge f q hq hoff
  have h4 := sk_ge f _ h2 hoff
  exact ⟨by simp only [Node.rpos]; omega, sk_inFile f _ h2 hoff⟩

omit hoff in
theorem LitAt.det {q : Nat} {x x' : Node} (h : LitAt P f q x) (h' : LitAt P f q x') : x = x' := by
  obtain ⟨n, hn, rfl⟩ := h
  obtain ⟨n', hn', rfl⟩ := h'
  rw [hn] at hn'
  cases hn'
  rfl

theorem LitAt.not_rune {q c : Nat} {x y : Node} (h : LitAt P f q x) (h' : RuneAtQ P f c q y) (hq : InFile f q)
    (hc : c = 40 ∨ c = 41) : False := by
  obtain ⟨b, _, _, hb, hb2, _⟩ := h.form hoff hq
  obtain ⟨h1, _⟩ := h'.form hoff hq (by omega)
  rw [hb] at h1
  cases h1
  omega

theorem OpAt.pos {j q : Nat} {x : Node} (h : OpAt P f j q x) (hq : InFile f q) : q < x.rpos ∧ InFile f x.rpos := by
  obtain ⟨c, o, ho, _, hr⟩ := h
  exact hr.pos hoff hq (ofRune_ascii ho)

theorem OpAt.det {j j' q : Nat} {x x' : Node} (h : OpAt P f j q x) (h' : OpAt P f j' q x') (hq : InFile f q) :
    j = j' ∧ x = x' := by
  obtain ⟨c, o, ho, hl, hr⟩ := h
  obtain ⟨c', o', ho', hl', hr'⟩ := h'
  obtain ⟨rfl, rfl⟩ := hr.det hoff hr' hq (ofRune_ascii ho) (ofRune_ascii ho')
  rw [ho] at ho'
  cases ho'
  exact ⟨by rw [← hl, ← hl'], rfl⟩

theorem OpAt.not_close {j q : Nat} {x y : Node} (h : OpAt P f j q x) (h' : RuneAtQ P f 41 q y) (hq : InFile f q) :
    False := by
  obtain ⟨c, o, ho, _, hr⟩ := h
  obtain ⟨rfl, _⟩ := hr.det hoff h' hq (ofRune_ascii ho) (by omega)
  simp [Op.ofRune] at ho

theorem LitAt.isTerm {q : Nat} {x : Node} (h : LitAt P f q x) (hq : InFile f q) : ∃ t v p r, x = .term t v p r := by
  obtain ⟨_, _, _, _, _, _, _, rfl⟩ := h.form hoff hq
  exact ⟨_, _, _, _, rfl⟩

/-! ### positions -/

theorem T.pos {k q : Nat} {x : Node} (h : T P f k q x) : InFile f q → q < x.rpos ∧ InFile f x.rpos := by
  induction h with
  | lit h => intro hq; exact h.pos hoff hq
  | paren h1 _ h3 ih =>
    intro hq
    obtain ⟨a1, a2⟩ := h1.pos hoff hq (by omega)
    obtain ⟨b1, b2⟩ := ih a2
    obtain ⟨c1, c2⟩ := h3.pos hoff b2 (by omega)
    exact ⟨by rw [parN_rpos]; omega, by rw [parN_rpos]; exact c2⟩
  | bin _ _ _ h2 _ ih1 ih2 =>
    intro hq
    obtain ⟨a1, a2⟩ := ih1 hq
    obtain ⟨b1, b2⟩ := h2.pos hoff a2
    obtain ⟨c1, c2⟩ := ih2 b2
    exact ⟨by rw [binN_rpos]; omega, by rw [binN_rpos]; exact c2⟩

/-! ### inversion -/

theorem T.inv_bin {k q : Nat} {l op r : Node} (h : T P f k q (binN l op r)) (hq : InFile f q) :
    ∃ j, k ≤ j ∧ j ≤ 1 ∧ T P f j q l ∧ OpAt P f j l.rpos op ∧ T P f (j + 1) op.rpos r := by
  generalize hy : binN l op r = y at h
  cases h with
  | lit h =>
    obtain ⟨_, _, _, _, rfl⟩ := h.isTerm hoff hq
    simp [binN] at hy
  | paren _ _ _ => exact absurd hy binN_ne_parN
  | bin h1 h2 h3 h4 h5 =>
    obtain ⟨rfl, rfl, rfl⟩ := binN_inj hy
    exact ⟨_, h1, h2, h3, h4, h5⟩

end

/-! ### cuts -/

inductive Cut : Node → Node → Prop
  | refl (a : Node) : Cut a a
  | left {a l op r : Node} : Cut a l → Cut a (binN l op r)
  | right {c l op r : Node} : Cut c r → Cut (binN l op c) (binN l op r)

theorem Cut.inv_bin {x l op r : Node} (h : Cut x (binN l op r)) :
    x = binN l op r ∨ Cut x l ∨ ∃ c, x = binN l op c ∧ Cut c r := by
  generalize hy : binN l op r = y at h
  cases h with
  | refl => exact .inl rfl
  | left h =>
    obtain ⟨rfl, rfl, rfl⟩ := binN_inj hy
    exact .inr (.inl h)
  | right h =>
    obtain ⟨rfl, rfl, rfl⟩ := binN_inj hy
    exact .inr (.inr ⟨_, rfl, h⟩)

theorem Cut.inv_other {x y : Node} (h : Cut x y) (hy : ∀ l op r, y ≠ binN l op r) : x = y := by
  cases h with
  | refl => rfl
  | left _ => exact absurd rfl (hy _ _ _)
  | right _ => exact absurd rfl (hy _ _ _)

section
variable {P : Params} {f : File} (hoff : 1 ≤ f.offset)
include hoff

/-- a cut ends no later -/
theorem Cut.le {a b : Node} (h : Cut a b) : ∀ {k q : Nat}, InFile f q → T P f k q b → a.rpos ≤ b.rpos := by
  induction h with
  | refl => intro _ _ _ _; exact Nat.le_refl _
  | left _ ih =>
    intro k q hq hb
    obtain ⟨j, _, _, h3, h4, h5⟩ := hb.inv_bin hoff hq
    have a1 := ih hq h3
    obtain ⟨b1, b2⟩ := h3.pos hoff hq
    obtain ⟨c1, c2⟩ := h4.pos hoff b2
    obtain ⟨d1, _⟩ := h5.pos hoff c2
    rw [binN_rpos]; omega
  | right _ ih =>
    intro k q hq hb
    obtain ⟨j, _, _, h3, h4, h5⟩ := hb.inv_bin hoff hq
    obtain ⟨b1, b2⟩ := h3.pos hoff hq
    obtain ⟨c1, c2⟩ := h4.pos hoff b2
    have := ih c2 h5
    rw [binN_rpos, binN_rpos]; exact this

/-- a cut with the same end is the tree itself -/
theorem Cut.eq_of_rpos {a b : Node} (h : Cut a b) :
    ∀ {k q : Nat}, InFile f q → T P f k q b → a.rpos = b.rpos → a = b := by
  induction h with
  | refl => intro _ _ _ _ _; rfl
  | left hc _ =>
    intro k q hq hb he
    obtain ⟨j, _, _, h3, h4, h5⟩ := hb.inv_bin hoff hq
    have a1 := hc.le hoff hq h3
    obtain ⟨b1, b2⟩ := h3.pos hoff hq
    obtain ⟨c1, c2⟩ := h4.pos hoff b2
    obtain ⟨d1, _⟩ := h5.pos hoff c2
    rw [binN_rpos] at he; omega
  | right _ ih =>
    intro k q hq hb he
    obtain ⟨j, _, _, h3, h4, h5⟩ := hb.inv_bin hoff hq
    obtain ⟨b1, b2⟩ := h3.pos hoff hq
    obtain ⟨c1, c2⟩ := h4.pos hoff b2
    rw [binN_rpos, binN_rpos] at he
    rw [ih c2 h5 he]

/-- a proper cut of a tree of level `k` is followed by an operator of level at least `k` -/
theorem Cut.follow {c r : Node} (h : Cut c r) :
    ∀ {k q : Nat}, InFile f q → T P f k q r → c.rpos < r.rpos → ∃ j op, k ≤ j ∧ OpAt P f j c.rpos op := by
  induction h with
  | refl => intro _ _ _ _ hlt; omega
  | left hc ih =>
    intro k q hq hb _
    obtain ⟨j, h1, _, h3, h4, _⟩ := hb.inv_bin hoff hq
    have a1 := hc.le hoff hq h3
    rcases Nat.lt_or_ge _ _ with hlt | hge
    · obtain ⟨j', op', hj', ho'⟩ := ih hq h3 hlt
      exact ⟨j', op', by omega, ho'⟩
    · have := hc.eq_of_rpos hoff hq h3 (by omega)
      subst this
      exact ⟨j, _, h1, h4⟩
  | right _ ih =>
    intro k q hq hb hlt
    obtain ⟨j, h1, _, h3, h4, h5⟩ := hb.inv_bin hoff hq
    obtain ⟨b1, b2⟩ := h3.pos hoff hq
    obtain ⟨c1, c2⟩ := h4.pos hoff b2
    rw [binN_rpos, binN_rpos] at hlt
    obtain ⟨j', op', hj', ho'⟩ := ih c2 h5 hlt
    exact ⟨j', op', by omega, by rw [binN_rpos]; exact ho'⟩

/-! ### the comparison theorem -/

theorem T.cut : ∀ (n : Nat) {a b : Node} {ka kb q : Nat}, a.depth + b.depth ≤ n → InFile f q →
    T P f ka q a → T P f kb q b → a.rpos ≤ b.rpos → Cut a b := by
  intro n
  induction n using Nat.strongRecOn with
  | ind n IH =>
  intro a b ka kb q hn hq ha hb hle
  -- a bin node that ends no later than a leaf / a parenthesis started at the same place: impossible
  have notbin : ∀ {la opa ra : Node} {ja : Nat}, a = binN la opa ra → T P f ja q la → OpAt P f ja la.rpos opa →
      T P f (ja + 1) opa.rpos ra → (∀ l op r, b ≠ binN l op r) → False := by
    intro la opa ra ja hae h3 h4 h5 hnb
    subst hae
    obtain ⟨b1, b2⟩ := h3.pos hoff hq
    obtain ⟨c1, c2⟩ := h4.pos hoff b2
    obtain ⟨d1, _⟩ := h5.pos hoff c2
    rw [binN_rpos] at hle
    rw [binN_depth] at hn
    have hc := IH (la.depth + b.depth) (by omega) (Nat.le_refl _) hq h3 hb (by omega)
    have := hc.inv_other hnb
    subst this
    omega
  cases hb with
  | lit hbl =>
    obtain ⟨tb, vb, pb, rb, rfl⟩ := hbl.isTerm hoff hq
    cases ha with
    | lit hal => rw [hal.det hbl]; exact .refl _
    | paren h1 _ _ => exact (hbl.not_rune hoff h1 hq (.inl rfl)).elim
    | bin _ _ h3 h4 h5 => exact (notbin rfl h3 h4 h5 (by intro l op r h; simp [binN] at h)).elim
  | paren hb1 hb2 hb3 =>
    rename_i lp e rp
    cases ha with
    | lit hal => exact (hal.not_rune hoff hb1 hq (.inl rfl)).elim
    | paren ha1 ha2 ha3 =>
      rename_i lp' e' rp'
      obtain ⟨_, rfl⟩ := ha1.det hoff hb1 hq (by omega) (by omega)
      obtain ⟨_, hlp⟩ := hb1.pos hoff hq (by omega)
      rw [parN_depth, parN_depth] at hn
      have hee : e' = e := by
        rcases Nat.le_total e'.rpos e.rpos with hle' | hle'
        · have hc := IH (e'.depth + e.depth) (by omega) (Nat.le_refl _) hlp ha2 hb2 hle'
          rcases Nat.lt_or_ge e'.rpos e.rpos with hlt | hge
          · obtain ⟨j, op, _, ho⟩ := hc.follow hoff hlp hb2 hlt
            exact (ho.not_close hoff ha3 (ha2.pos hoff hlp).2).elim
          · exact hc.eq_of_rpos hoff hlp hb2 (by omega)
        · have hc := IH (e.depth + e'.depth) (by omega) (Nat.le_refl _) hlp hb2 ha2 hle'
          rcases Nat.lt_or_ge e.rpos e'.rpos with hlt | hge
          · obtain ⟨j, op, _, ho⟩ := hc.follow hoff hlp ha2 hlt
            exact (ho.not_close hoff hb3 (hb2.pos hoff hlp).2).elim
          · exact (hc.eq_of_rpos hoff hlp ha2 (by omega)).symm
      subst hee
      obtain ⟨_, rfl⟩ := ha3.det hoff hb3 (hb2.pos hoff hlp).2 (by omega) (by omega)
      exact .refl _
    | bin _ _ h3 h4 h5 => exact (notbin rfl h3 h4 h5 (fun l op r h => binN_ne_parN h.symm)).elim
  | bin hb1 hb2 hb3 hb4 hb5 =>
    rename_i j l op r
    obtain ⟨l1, l2⟩ := hb3.pos hoff hq
    obtain ⟨o1, o2⟩ := hb4.pos hoff l2
    obtain ⟨r1, _⟩ := hb5.pos hoff o2
    have hbT : T P f kb q (binN l op r) := .bin hb1 hb2 hb3 hb4 hb5
    rw [binN_depth] at hn
    rw [binN_rpos] at hle
    rcases Nat.lt_or_ge l.rpos a.rpos with hal | hal
    rotate_left
    · exact .left (IH (a.depth + l.depth) (by omega) (Nat.le_refl _) hq ha hb3 hal)
    · -- `a` ends after the left operand of `b`
      have hla : Cut l a := IH (l.depth + a.depth) (by omega) (Nat.le_refl _) hq hb3 ha (by omega)
      cases ha with
      | lit hal' =>
        obtain ⟨_, _, _, _, rfl⟩ := hal'.isTerm hoff hq
        have := hla.inv_other (by intro l op r h; simp [binN] at h)
        subst this; omega
      | paren _ _ _ =>
        have := hla.inv_other (fun l op r h => binN_ne_parN h.symm)
        subst this; omega
      | bin ha1 ha2 ha3 ha4 ha5 =>
        rename_i ja la opa ra
        obtain ⟨m1, m2⟩ := ha3.pos hoff hq
        obtain ⟨p1, p2⟩ := ha4.pos hoff m2
        obtain ⟨s1, _⟩ := ha5.pos hoff p2
        have haT : T P f ka q (binN la opa ra) := .bin ha1 ha2 ha3 ha4 ha5
        rw [binN_depth] at hn
        rw [binN_rpos] at hle hal
        rcases Nat.lt_trichotomy la.rpos l.rpos with hlt | heq | hgt
        · -- the left operand of `a` ends before the left operand of `b`
          rcases hla.inv_bin with h | h | ⟨c, hlc, hcr⟩
          · rw [h, binN_rpos] at hal; omega
          · have := h.le hoff hq ha3; omega
          · subst hlc
            rw [binN_rpos] at hal
            obtain ⟨j', op', hj', ho'⟩ := hcr.follow hoff p2 ha5 hal
            rw [binN_rpos] at hb4
            obtain ⟨rfl, _⟩ := ho'.det hoff hb4 (by have := (hb3.pos hoff hq).2; rwa [binN_rpos] at this)
            obtain ⟨j2, hj2, _, _, hop2, _⟩ := hb3.inv_bin hoff hq
            obtain ⟨rfl, _⟩ := hop2.det hoff ha4 m2
            omega
        · -- the same left operand
          have hll : la = l := by
            have hc := IH (la.depth + l.depth) (by omega) (Nat.le_refl _) hq ha3 hb3 (by omega)
            exact hc.eq_of_rpos hoff hq hb3 heq
          subst hll
          obtain ⟨rfl, rfl⟩ := ha4.det hoff hb4 l2
          have hc := IH (ra.depth + r.depth) (by omega) (Nat.le_refl _) o2 ha5 hb5 hle
          exact .right hc
        · -- the left operand of `a` ends inside the right operand of `b`
          have hc := IH (la.depth + (binN l op r).depth) (by rw [binN_depth]; omega) (Nat.le_refl _) hq ha3 hbT
            (by rw [binN_rpos]; omega)
          rcases hc.inv_bin with h | h | ⟨c, hlc, hcr⟩
          · rw [h, binN_rpos] at m1 p1; omega
          · have := h.le hoff hq hb3; omega
          · subst hlc
            rw [binN_rpos] at p1 ha4 m2
            obtain ⟨j', op', hj', ho'⟩ := hcr.follow hoff o2 hb5 (by omega)
            obtain ⟨rfl, _⟩ := ho'.det hoff ha4 m2
            obtain ⟨j2, hj2, _, _, hop2, _⟩ := ha3.inv_bin hoff hq
            obtain ⟨rfl, _⟩ := hop2.det hoff hb4 l2
            omega

/-- **unambiguity**: two trees of the arithmetic nonterminals with the same start and the same end are equal -/
theorem T_unique {a b : Node} {ka kb q : Nat} (hq : InFile f q) (ha : T P f ka q a) (hb : T P f kb q b)
    (he : a.rpos = b.rpos) : a = b :=
  (T.cut hoff _ (Nat.le_refl _) hq ha hb (by omega)).eq_of_rpos hoff hq hb he

end

end PV.A05
