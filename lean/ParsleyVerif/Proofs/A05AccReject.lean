/-
  C05, the CONVERSE, step 2: from an accepting parse to a rendering, and a small toolkit to show that a
  CONCRETE text has no exact tree that reaches the end of the input (hence is not a rendering, hence is rejected).
  Everything lives in `PV.A05Acc`.
-/
import ParsleyVerif.Proofs.A05AccInv
namespace PV.A05Acc
open PV PV.Text PV.A05

/-! ### an exact tree over the whole input is the tree of a rendering -/

theorem pos0_inFile (f : File) : InFile f (f.pos 0) := by
  unfold InFile File.pos; omega

theorem rest_pos0 (f : File) : rest f (f.pos 0) = f.data := by
  unfold rest File.pos; simp

theorem rest_eof (f : File) (q : Nat) (_hq : InFile f q) (he : isEOF f q = true) : rest f q = [] := by
  simp only [isEOF, ge_iff_le, decide_eq_true_eq] at he
  unfold rest
  unfold File.len at *
  exact List.drop_eq_nil_of_le (by omega)

/-- **tree ⟹ input**: an exact expression tree from the first byte to the end of the file makes the file an
    `Input` — `ws0 ++ e.render` for a well-formed `e` — and the tree is the tree of `e` -/
theorem input_of_tree (cfg : Cfg) (henv : cfg.env = Garith.env) (hoff : 1 ≤ cfg.file.offset) (y : Node)
    (hT : T cfg.params cfg.file 0 (cfg.file.pos 0) y) (heof : isEOF cfg.file y.rpos = true) :
    ∃ ws0 e, Input cfg ws0 e ∧ y = e.tree (start cfg ws0) := by
  have hq := pos0_inFile cfg.file
  obtain ⟨e, hwf, hr, hy, _, hi⟩ := T_toCst hoff hT hq
  have hsplit := rest_split hoff _ hq
  rw [rest_pos0, hr, rest_eof _ _ hi heof, List.append_nil] at hsplit
  refine ⟨wsAt cfg.file (cfg.file.pos 0), e, ⟨henv, hoff, hsplit, wsAt_ok _ _, hwf⟩, ?_⟩
  rw [hy, sk_len hoff _ hq]
  rfl

/-- **input ⟹ tree** (Proofs/A05Arith.lean), restated: a rendering has an exact tree over the whole input -/
theorem tree_of_input {cfg : Cfg} {ws0 : Bytes} {e : Cst} (hin : Input cfg ws0 e) :
    ∃ y, T cfg.params cfg.file 0 (cfg.file.pos 0) y ∧ isEOF cfg.file y.rpos = true :=
  ⟨_, hin.treeT, hin.tree_eof⟩

/-- an accepting parse returned an exact tree over the whole input -/
theorem tree_of_accept (cfg : Cfg) (henv : cfg.env = Garith.env) (fuel : Nat) (p : ParseOut)
    (h : parse cfg fuel Garith.root = some p) (herr : p.err = none) :
    ∃ y, T cfg.params cfg.file 0 (cfg.file.pos 0) y ∧ isEOF cfg.file y.rpos = true ∧
      p.res = .one (sentenceNode y) := by
  cases hr : run cfg fuel Garith.root [] (cfg.file.pos 0) {} with
  | none => simp [parse, hr] at h
  | some r =>
    obtain ⟨o, st1⟩ := r
    have hex := c05_returned_exact cfg henv fuel o st1 hr
    have hone := sentence_res_one cfg fuel (.ref 0) [] _ {} o st1 hr
    rcases c04_xor cfg fuel Garith.root {} p h with ⟨hnn, _, _⟩ | ⟨_, hsome, _⟩
    · -- the result of `parse` is the result of `run`
      have hres : p.res = o.res := by
        simp only [parse, hr] at h
        split at h
        · cases h; simp [Res.isNil] at hnn
        · cases h; rfl
      rw [hres] at hnn ⊢
      rcases hone with hnil | ⟨x, hx⟩
      · rw [hnil] at hnn; cases hnn
      · obtain ⟨y, hy, he, rfl⟩ := hex x (by rw [hx]; simp [Res.alts])
        exact ⟨y, hy, he, hx⟩
    · rw [herr] at hsome; cases hsome

/-! ### the rendering behind an `Input` -/

/-- the class of accepted texts: renderings of stratified expressions with int64 literals under admissible
    whitespace -/
def Rendering (data : Bytes) : Prop := ∃ (e : PExpr) (ws : Nat → Bytes), e.WF 0 ∧ Admissible ws ∧ data = render e ws

theorem rendering_of_input {cfg : Cfg} {ws0 : Bytes} {e : Cst} (hin : Input cfg ws0 e) :
    ∃ (pe : PExpr) (ws : Nat → Bytes), pe.WF 0 ∧ Admissible ws ∧ cfg.file.data = render pe ws ∧
      ws 0 = ws0 ∧ (pe.layout ws 1).1 = e := by
  obtain ⟨pe, ws, h1, h2, h3, h4, h5⟩ := render_of_cst ws0 e hin.ws0 hin.wf
  exact ⟨pe, ws, h1, h2, by rw [hin.data, h5], h3, h4⟩

theorem input_of_rendering (cfg : Cfg) (henv : cfg.env = Garith.env) (hoff : 1 ≤ cfg.file.offset)
    (e : PExpr) (ws : Nat → Bytes) (he : e.WF 0) (hws : Admissible ws) (hd : cfg.file.data = render e ws) :
    Input cfg (ws 0) (e.layout ws 1).1 :=
  ⟨henv, hoff, hd, hws 0, e.layout_WF ws hws 0 1 he⟩

/-- **a text is a rendering iff it has an exact tree from the first byte to the end** (no parser involved:
    `T` speaks about the two terminals and the whitespace skip only) -/
theorem rendering_iff_tree (cfg : Cfg) (henv : cfg.env = Garith.env) (hoff : 1 ≤ cfg.file.offset) :
    Rendering cfg.file.data ↔ ∃ y, T cfg.params cfg.file 0 (cfg.file.pos 0) y ∧ isEOF cfg.file y.rpos = true := by
  constructor
  · rintro ⟨e, ws, he, hws, hd⟩
    exact tree_of_input (input_of_rendering cfg henv hoff e ws he hws hd)
  · rintro ⟨y, hy, heof⟩
    obtain ⟨ws0, e, hin, _⟩ := input_of_tree cfg henv hoff y hy heof
    obtain ⟨pe, ws, h1, h2, h3, _⟩ := rendering_of_input hin
    exact ⟨pe, ws, h1, h2, h3⟩

/-! ### toolkit: which exact trees start at a position of a concrete file -/

section
variable {P : Params} {f : File} (hoff : 1 ≤ f.offset)
include hoff

omit hoff in
/-- no exact tree starts at `q` when no integer literal does and no parenthesised expression does -/
theorem T_none {q : Nat} (hq : InFile f q)
    (hint : ∀ n, Terminal.parse P f .integer (sk f q) ≠ .node n)
    (hpar : ∀ lp e rp, RuneAtQ P f 40 q lp → T P f 0 lp.rpos e → RuneAtQ P f 41 e.rpos rp → False) :
    ∀ k x, ¬ T P f k q x := by
  intro k x h
  revert hq hint hpar
  induction h with
  | lit h =>
    intro _ hint _
    obtain ⟨n, hn, _⟩ := h
    exact hint n hn
  | paren h1 h2 h3 _ =>
    intro _ _ hpar
    exact hpar _ _ _ h1 h2 h3
  | bin _ _ _ _ _ ih1 _ =>
    intro hq hint hpar
    exact ih1 hq hint hpar

/-- no `(` at `q`: the byte after the whitespace is something else -/
theorem no_paren {q : Nat} (hq : InFile f q) (hh : (rest f (sk f q)).head? ≠ some 40) :
    ∀ lp e rp, RuneAtQ P f 40 q lp → T P f 0 lp.rpos e → RuneAtQ P f 41 e.rpos rp → False := by
  intro lp e rp h1 _ _
  exact hh (h1.form hoff hq (by omega)).1

/-- every exact tree that starts at `q` is the literal there, when no operator with a right operand follows it -/
theorem T_only_lit {q : Nat} {x0 : Node} (hq : InFile f q) (h0 : LitAt P f q x0)
    (hop : ∀ j op r, OpAt P f j x0.rpos op → T P f (j + 1) op.rpos r → False) :
    ∀ k x, T P f k q x → x = x0 := by
  intro k x h
  revert hq h0 hop
  induction h with
  | lit h => intro _ h0 _; exact h.det h0
  | paren h1 _ _ _ => intro hq h0 _; exact (h0.not_rune hoff h1 hq (.inl rfl)).elim
  | bin _ _ _ h2 h3 ih1 _ =>
    intro hq h0 hop
    have := ih1 hq h0 hop
    subst this
    exact (hop _ _ _ h2 h3).elim

/-- what an operator leaf says about the text -/
theorem OpAt.concrete {j q : Nat} {op : Node} (h : OpAt P f j q op) (hq : InFile f q) :
    ∃ c o, Op.ofRune c = some o ∧ (rest f (sk f q)).head? = some c ∧ op.rpos = sk f (sk f q + 1) := by
  obtain ⟨c, o, hco, _, hr⟩ := h
  obtain ⟨hh, rfl⟩ := hr.form hoff hq (ofRune_ascii hco)
  exact ⟨c, o, hco, hh, rfl⟩

theorem RuneAtQ.concrete {c q : Nat} {x : Node} (h : RuneAtQ P f c q x) (hq : InFile f q) (hc : c < 0x80) :
    (rest f (sk f q)).head? = some c ∧ x.rpos = sk f (sk f q + 1) := by
  obtain ⟨hh, rfl⟩ := h.form hoff hq hc
  exact ⟨hh, rfl⟩

end

end PV.A05Acc
