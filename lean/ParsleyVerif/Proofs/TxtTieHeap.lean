/-
  Heap reasoning for the translated unquoteString (and anything else that appends to a slice it allocated): states in
  which everything below a base index is untouched, well-formed slice headers, `append(s, vs...)`, `make`.
  Hand-written sides only.
-/
import ParsleyVerif.Proofs.TxtTieBasics
namespace PV.TxtTie
open PV.ProgPrelude PV.ProgTie

/-- every array below index `n` is untouched, no array disappeared, maps and growth policy are the same -/
structure Keeps (n : Nat) (st st' : St) : Prop where
  frame : Data.Frame n st.arrays st'.arrays
  maps : st'.maps = st.maps
  grow : st'.grow = st.grow

theorem Keeps.refl (n : Nat) (st : St) : Keeps n st st := ⟨Data.Frame.refl _ _, rfl, rfl⟩

theorem Keeps.trans {n : Nat} {a b c : St} (h1 : Keeps n a b) (h2 : Keeps n b c) : Keeps n a c :=
  ⟨h1.frame.trans h2.frame, by rw [h2.maps, h1.maps], by rw [h2.grow, h1.grow]⟩

theorem Keeps.cells {n : Nat} {st st' : St} (k : Keeps n st st') {a : Nat} (ha : a < n) : cells st' a = cells st a :=
  k.frame.2 a ha

theorem Keeps.view {n : Nat} {st st' : St} (k : Keeps n st st') (s : Sl) (ha : s.arr < n) : view st' s = view st s := by
  unfold ProgPrelude.view
  rw [k.cells ha]

theorem Keeps.len {n : Nat} {st st' : St} (k : Keeps n st st') : st.arrays.length ≤ st'.arrays.length := k.frame.1

/-- what is kept below the old length is a state that only grew -/
theorem Keeps.grows {st st' : St} (k : Keeps st.arrays.length st st') : Grows st st' := by
  refine ⟨⟨st'.arrays.drop st.arrays.length, ?_⟩, k.maps, k.grow⟩
  have hl := k.len
  apply List.ext_getElem?
  intro a
  by_cases ha : a < st.arrays.length
  · rw [List.getElem?_append_left ha]
    have hc := k.cells ha
    simp only [ProgPrelude.cells, List.getD_eq_getElem?_getD] at hc
    rw [List.getElem?_eq_getElem ha, List.getElem?_eq_getElem (by omega)] at hc ⊢
    simp only [Option.getD_some] at hc
    rw [hc]
  · rw [List.getElem?_append_right (by omega), List.getElem?_drop]
    congr 1; omega

theorem Grows.keeps {st st' : St} (g : Grows st st') : Keeps st.arrays.length st st' := by
  obtain ⟨e, he⟩ := g.arrays
  refine ⟨⟨by rw [he]; simp, fun a ha => cells_grows g ha⟩, g.maps, g.grow⟩

/-- a slice header that lies inside its array -/
structure SWFs (st : St) (s : Sl) : Prop where
  arr : s.arr < st.arrays.length
  cap : s.len ≤ s.cap
  fits : s.off + s.cap ≤ (cells st s.arr).length

theorem SWFs.view_length {st : St} {s : Sl} (w : SWFs st s) : (view st s).length = s.len := by
  have := w.cap; have := w.fits
  simp only [view, List.length_take, List.length_drop]; omega

theorem cells_modify_same (st : St) (a : Nat) (f : List Int → List Int) (ha : a < st.arrays.length) :
    cells { st with arrays := st.arrays.modify a f } a = f (cells st a) :=
  Data.cells_modify_same st.arrays a f ha

theorem cells_modify_ne (st : St) (a b : Nat) (f : List Int → List Int) (hne : a ≠ b) :
    cells { st with arrays := st.arrays.modify a f } b = cells st b :=
  Data.cells_modify_ne st.arrays a b f hne

/-- `append(s, vs...)` on a well-formed slice that lives at or above `base`: the result shows the old view followed by
    `vs`, is well formed, lives at or above `base`; nothing below `base` is touched -/
theorem appendList_spec (st : St) (s : Sl) (vs : List Int) (base : Nat) (w : SWFs st s) (hb : base ≤ s.arr)
    (hn : s.isNil = false) :
    ∃ s' st', Go.appendList s vs st = .ok s' st' ∧ Keeps base st st' ∧ view st' s' = view st s ++ vs ∧ SWFs st' s' ∧
      base ≤ s'.arr ∧ s'.len = s.len + vs.length ∧ s'.isNil = false := by
  have hvl := w.view_length
  by_cases h0 : vs = []
  · subst h0
    exact ⟨s, st, by simp [Go.appendList], Keeps.refl _ _, by simp, w, hb, by simp, hn⟩
  by_cases h1 : s.len + vs.length ≤ s.cap
  · have hfit := w.fits
    have hc := cells_modify_same st s.arr (fun c => c.take (s.off + s.len) ++ vs ++ c.drop (s.off + s.len + vs.length)) w.arr
    refine ⟨{ s with len := s.len + vs.length, isNil := false },
      { st with arrays := st.arrays.modify s.arr (fun c => c.take (s.off + s.len) ++ vs ++ c.drop (s.off + s.len + vs.length)) },
      ?_, ?_, ?_, ?_, hb, rfl, rfl⟩
    · simp only [Go.appendList, if_neg h0, if_pos h1]
    · exact ⟨⟨by simp, fun a ha => cells_modify_ne st s.arr a _ (by omega)⟩, rfl, rfl⟩
    · unfold ProgPrelude.view
      rw [hc]
      generalize cells st s.arr = c at hfit ⊢
      have e1 : ((c.take (s.off + s.len) ++ vs ++ c.drop (s.off + s.len + vs.length)).drop s.off) =
          (c.drop s.off).take s.len ++ (vs ++ c.drop (s.off + s.len + vs.length)) := by
        rw [List.append_assoc, List.drop_append_of_le_length (by rw [List.length_take]; omega), List.drop_take]
        congr 2; omega
      have e2 : ((c.drop s.off).take s.len).length = s.len := by
        rw [List.length_take, List.length_drop]; omega
      show List.take (s.len + vs.length) _ = _
      rw [e1, ← List.append_assoc, List.take_append_of_le_length (by rw [List.length_append, e2]; omega)]
      rw [List.take_of_length_le (by rw [List.length_append, e2]; omega)]
    · refine ⟨by simpa using w.arr, h1, ?_⟩
      rw [hc]
      show s.off + s.cap ≤ _
      simp only [List.length_append, List.length_take, List.length_drop]
      omega
  · have hc : cells { st with arrays := st.arrays ++ [view st s ++ vs ++ List.replicate (max (st.grow s.cap) (s.len + vs.length) - (s.len + vs.length)) 0] } st.arrays.length
          = view st s ++ vs ++ List.replicate (max (st.grow s.cap) (s.len + vs.length) - (s.len + vs.length)) 0 :=
        Data.cells_append_eq st.arrays _
    refine ⟨{ arr := st.arrays.length, off := 0, len := s.len + vs.length, cap := max (st.grow s.cap) (s.len + vs.length) },
      { st with arrays := st.arrays ++ [view st s ++ vs ++ List.replicate (max (st.grow s.cap) (s.len + vs.length) - (s.len + vs.length)) 0] },
      ?_, ?_, ?_, ?_, ?_, rfl, rfl⟩
    · simp only [Go.appendList, if_neg h0, if_neg h1]
    · refine ⟨⟨by simp, fun a ha => ?_⟩, rfl, rfl⟩
      have := w.arr
      exact Data.cells_append_lt st.arrays _ a (by omega)
    · show List.take (s.len + vs.length) (List.drop 0 (cells _ st.arrays.length)) = _
      rw [hc, List.drop_zero]
      rw [List.take_append_of_le_length (by rw [List.length_append, hvl]; omega)]
      rw [List.take_of_length_le (by rw [List.length_append, hvl]; omega)]
    · refine ⟨by simp, Nat.le_max_right _ _, ?_⟩
      rw [hc]
      simp only [List.length_append, List.length_replicate, hvl]
      omega
    · have := w.arr; show base ≤ st.arrays.length; omega

end PV.TxtTie
