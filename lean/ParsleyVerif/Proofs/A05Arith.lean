/-
  C05 (full value theorem): the arithmetic grammar is in the fragment; its exact derivations are the trees `T`
  of Proofs/A05Unique.lean; what `run` / `parse` return on the text of a well-formed expression.
-/
import ParsleyVerif.Proofs.A05Derive
import ParsleyVerif.Proofs.A05Sentence
import ParsleyVerif.Props.C05
namespace PV.A05
open PV PV.Text

/-! ### conversions between the relations -/

/-- a curtailed derivation is a derivation (the monotone relation of Spec/Derives.lean) -/
theorem DC.toDerives {cfg : Cfg} {c : Nat → Nat} {g : G} {pos : Nat} {x : Node} (h : DC cfg c g pos x) :
    Derives cfg g pos x := by
  refine @DC.rec cfg (fun _ g pos x _ => Derives cfg g pos x) (fun _ sh d pos nodes _ => DerivesSeq cfg sh d pos nodes)
    ?_ ?_ ?_ ?_ ?_ ?_ ?_ c g pos x h
  · intro c t pos n hp
    exact Derives.rtrimMove (Derives.ltrim (Derives.term hp))
  · intro c k g pos x hk _ ih; exact .ref hk ih
  · intro c i g pos x _ _ ih; exact .memo ih
  · intro c gs g pos x hm _ ih; exact .any hm ih
  · intro c gs o sh pos nodes hs _ hl ih; exact .seqfam hs ih hl
  · intro c sh d pos; exact .nil
  · intro c sh d pos g n rest hl _ _ ih1 ih2; exact .cons hl ih1 ih2

/-- a curtailed derivation is an exact derivation, for every `R` closed under the rule bodies -/
theorem DC.toDSR {cfg : Cfg} {R : Nat → Nat → Node → Prop} (hR : Closed cfg R) {c : Nat → Nat} {g : G} {pos : Nat}
    {x : Node} (h : DC cfg c g pos x) : DSR cfg R g pos x := by
  refine @DC.rec cfg (fun _ g pos x _ => DSR cfg R g pos x) (fun _ sh d pos nodes _ => DSRSeq cfg R sh d pos nodes)
    ?_ ?_ ?_ ?_ ?_ ?_ ?_ c g pos x h
  · intro c t pos n hp; exact .trim hp
  · intro c k g pos x hk _ ih; exact .ref (hR k g pos x hk ih)
  · intro c i g pos x _ _ ih; exact .memo ih
  · intro c gs g pos x hm _ ih; exact .any hm ih
  · intro c gs o sh pos nodes hs _ hl ih; exact .seqOf hs ih hl
  · intro c sh d pos; exact .nil
  · intro c sh d pos g n rest hl _ _ ih1 ih2; exact .cons hl ih1 ih2

/-! ### inversion of exact derivations -/
section
variable {cfg : Cfg} {R : Nat → Nat → Node → Prop}

theorem DSR.ref_inv {k pos x} (h : DSR cfg R (.ref k) pos x) : R k pos x := by
  cases h with
  | ref h => exact h

theorem DSR.memo_inv {i g pos x} (h : DSR cfg R (.memo i g) pos x) : DSR cfg R g pos x := by
  cases h with
  | memo h => exact h

theorem DSR.any_inv {gs pos x} (h : DSR cfg R (.any gs) pos x) : ∃ g ∈ gs, DSR cfg R g pos x := by
  cases h with
  | any hm h => exact ⟨_, hm, h⟩

theorem DSR.eof_inv {pos x} (h : DSR cfg R .eof pos x) : isEOF cfg.file pos = true ∧ x = .eof pos := by
  cases h with
  | eof he => exact ⟨he, rfl⟩

theorem DSR.trim_inv {t pos x} (h : DSR cfg R (trimT t) pos x) :
    ∃ n, t.parse cfg.params cfg.file (sk cfg.file pos) = .node n ∧ x = mv cfg.file n := by
  generalize hg : trimT t = g at h
  cases h with
  | trim hp =>
    simp only [trimT, G.rtrim.injEq, G.ltrim.injEq, G.term.injEq, and_true] at hg
    subst hg
    exact ⟨_, hp, rfl⟩
  | _ => simp [trimT] at hg

theorem DSR.seqOf3_inv {a b c : G} {o : SeqOpts} {pos x}
    (h : DSR cfg R (.seq .seqOf [a, b, c] o) pos x) :
    ∃ x1 x2 x3, DSR cfg R a pos x1 ∧ DSR cfg R b x1.rpos x2 ∧ DSR cfg R c x2.rpos x3 ∧
      x = .nt (o.token.getD seqTok) [x1, x2, x3] x1.pos x3.rpos o.interp := by
  cases h with
  | seqOf hs hd hl =>
    simp only [G.shape, Option.some.injEq] at hs
    subst hs
    simp only [List.length_cons, List.length_nil, beq_iff_eq] at hl
    cases hd with
    | nil => simp at hl
    | cons l1 h1 hr1 =>
      cases hr1 with
      | nil => simp at hl
      | cons l2 h2 hr2 =>
        cases hr2 with
        | nil => simp at hl
        | cons l3 h3 hr3 =>
          cases hr3 with
          | cons _ _ _ => simp at hl
          | nil =>
            simp only [List.getElem?_cons_zero, Option.some.injEq, Nat.zero_add, List.getElem?_cons_succ] at l1 l2 l3
            subst l1 l2 l3
            exact ⟨_, _, _, h1, h2, h3, by simp [handleResult]⟩

theorem DSR.seqOf2_inv {a b : G} {o : SeqOpts} {pos x}
    (h : DSR cfg R (.seq .seqOf [a, b] o) pos x) :
    ∃ x1 x2, DSR cfg R a pos x1 ∧ DSR cfg R b x1.rpos x2 ∧
      x = .nt (o.token.getD seqTok) [x1, x2] x1.pos x2.rpos o.interp := by
  cases h with
  | seqOf hs hd hl =>
    simp only [G.shape, Option.some.injEq] at hs
    subst hs
    simp only [List.length_cons, List.length_nil, beq_iff_eq] at hl
    cases hd with
    | nil => simp at hl
    | cons l1 h1 hr1 =>
      cases hr1 with
      | nil => simp at hl
      | cons l2 h2 hr2 =>
        cases hr2 with
        | cons _ _ _ => simp at hl
        | nil =>
          simp only [List.getElem?_cons_zero, Option.some.injEq, Nat.zero_add, List.getElem?_cons_succ] at l1 l2
          subst l1 l2
          exact ⟨_, _, h1, h2, by simp [handleResult]⟩

end

/-! ### the exact derivations of the arithmetic grammar are the trees `T` -/

/-- what the three rules derive -/
def arithRT (P : Params) (f : File) : Nat → Nat → Node → Prop
  | 0, q, x => T P f 0 q x
  | 1, q, x => T P f 1 q x
  | 2, q, x => T P f 2 q x
  | _, _, _ => True

theorem T.mono {P : Params} {f : File} {k k' q : Nat} {x : Node} (h : T P f k q x) (hk : k' ≤ k) : T P f k' q x := by
  cases h with
  | lit h => exact .lit h
  | paren h1 h2 h3 => exact .paren h1 h2 h3
  | bin h1 h2 h3 h4 h5 => exact .bin (by omega) h2 h3 h4 h5

theorem trim_rune_at {cfg : Cfg} {R : Nat → Nat → Node → Prop} {c pos x}
    (h : DSR cfg R (Garith.trim (Garith.rn c)) pos x) : RuneAtQ cfg.params cfg.file c pos x := by
  have h' : DSR cfg R (trimT (.rune c [34, c, 34])) pos x := h
  obtain ⟨n, hn, rfl⟩ := h'.trim_inv
  exact ⟨n, hn, rfl⟩

theorem arith_closedT (cfg : Cfg) (henv : cfg.env = Garith.env) : Closed cfg (arithRT cfg.params cfg.file) := by
  intro k g pos x hk h
  rw [henv] at hk
  have bin : ∀ (j : Nat) (ops : G) (c1 c2 : Nat) (o1 o2 : Op), j ≤ 1 →
      ops = .any [Garith.trim (Garith.rn c1), Garith.trim (Garith.rn c2)] →
      Op.ofRune c1 = some o1 → Op.ofRune c2 = some o2 → o1.level = j → o2.level = j →
      (∀ p y, arithRT cfg.params cfg.file j p y → T cfg.params cfg.file j p y) →
      (∀ p y, arithRT cfg.params cfg.file (j + 1) p y → T cfg.params cfg.file (j + 1) p y) →
      DSR cfg (arithRT cfg.params cfg.file) (.seq .seqOf [.ref j, ops, .ref (j + 1)] Garith.bin) pos x →
      T cfg.params cfg.file j pos x := by
    intro j ops c1 c2 o1 o2 hj hops h1 h2 l1 l2 ha hb hd
    subst hops
    obtain ⟨x1, x2, x3, d1, d2, d3, rfl⟩ := hd.seqOf3_inv
    obtain ⟨g, hm, dg⟩ := d2.any_inv
    simp only [List.mem_cons, List.not_mem_nil, or_false] at hm
    have hop : OpAt cfg.params cfg.file j x1.rpos x2 := by
      rcases hm with rfl | rfl
      · exact ⟨c1, o1, h1, l1, trim_rune_at dg⟩
      · exact ⟨c2, o2, h2, l2, trim_rune_at dg⟩
    exact T.bin (Nat.le_refl _) hj (ha _ _ d1.ref_inv) hop (hb _ _ d3.ref_inv)
  match k, hk with
  | 0, hk =>
    simp only [Garith.env, List.getElem?_cons_zero, Option.some.injEq] at hk
    subst hk
    obtain ⟨g, hm, dg⟩ := h.memo_inv.any_inv
    simp only [List.mem_cons, List.not_mem_nil, or_false] at hm
    rcases hm with rfl | rfl
    · exact bin 0 _ 43 45 .add .sub (by omega) rfl rfl rfl rfl rfl (fun _ _ d => d) (fun _ _ d => d) dg
    · exact T.mono (k := 1) dg.ref_inv (by omega)
  | 1, hk =>
    simp only [Garith.env, List.getElem?_cons_succ, List.getElem?_cons_zero, Option.some.injEq] at hk
    subst hk
    obtain ⟨g, hm, dg⟩ := h.memo_inv.any_inv
    simp only [List.mem_cons, List.not_mem_nil, or_false] at hm
    rcases hm with rfl | rfl
    · exact bin 1 _ 42 47 .mul .div (by omega) rfl rfl rfl rfl rfl (fun _ _ d => d) (fun _ _ d => d) dg
    · exact T.mono (k := 2) dg.ref_inv (by omega)
  | 2, hk =>
    simp only [Garith.env, List.getElem?_cons_succ, List.getElem?_cons_zero, Option.some.injEq] at hk
    subst hk
    obtain ⟨g, hm, dg⟩ := h.any_inv
    simp only [List.mem_cons, List.not_mem_nil, or_false] at hm
    rcases hm with rfl | rfl
    · have dg' : DSR cfg _ (trimT .integer) pos x := dg
      obtain ⟨n, hn, rfl⟩ := dg'.trim_inv
      exact .lit ⟨n, hn, rfl⟩
    · obtain ⟨x1, x2, x3, d1, d2, d3, rfl⟩ := dg.seqOf3_inv
      exact T.paren (trim_rune_at d1) d2.ref_inv (trim_rune_at d3)
  | k + 3, hk => trivial

/-! ### the grammar is in the fragment -/

theorem termNoEOF_rune (cfg : Cfg) (ch : Nat) (nm : Bytes) (h : Utf8.encodeRune ch ≠ eofTok) :
    TermNoEOF cfg (.rune ch nm) := by
  intro pos n hn
  simp only [Terminal.parse] at hn
  split at hn
  · cases hn
  · injection hn with hn; subst hn; exact h
  · simp [nf] at hn

theorem termNoEOF_integer (cfg : Cfg) : TermNoEOF cfg .integer := by
  intro pos n hn
  simp only [Terminal.parse] at hn
  split at hn
  · cases hn
  · split at hn
    · cases hn
    · simp [nf] at hn
    · split at hn
      · simp [other] at hn
      · injection hn with hn; subst hn; simp only [Node.token]; decide +kernel
  · simp [nf] at hn

theorem arith_frag (cfg : Cfg) : ∀ g' ∈ Garith.env, Frag cfg false g' := by
  have r : ∀ c, Utf8.encodeRune c ≠ eofTok → Frag cfg false (Garith.trim (Garith.rn c)) := by
    intro c hc
    show Frag cfg false (.rtrim (.ltrim (.term (.rune c [34, c, 34])) .spacesNl) .spacesNl)
    simp only [Frag]
    exact termNoEOF_rune cfg c _ hc
  have hi : Frag cfg false (Garith.trim (.term .integer)) := by
    show Frag cfg false (.rtrim (.ltrim (.term .integer) .spacesNl) .spacesNl)
    simp only [Frag]
    exact termNoEOF_integer cfg
  have tok : (none : Option Bytes).getD seqTok ≠ eofTok := by decide
  intro g' hg'
  simp only [Garith.env, List.mem_cons, List.not_mem_nil, or_false] at hg'
  rcases hg' with rfl | rfl | rfl
  · simp only [Garith.expr, Garith.exprBody, Garith.exprSeq, Garith.addop, Garith.bin, Frag, FragL, and_true, true_and]
    exact ⟨tok, r 43 (by decide), r 45 (by decide)⟩
  · simp only [Garith.term, Garith.termBody, Garith.termSeq, Garith.mulop, Garith.bin, Frag, FragL, and_true, true_and]
    exact ⟨tok, r 42 (by decide), r 47 (by decide)⟩
  · simp only [Garith.factor, Garith.parenSeq, Garith.sel1, Frag, FragL, and_true, true_and]
    exact ⟨hi, tok, r 40 (by decide), r 41 (by decide)⟩

theorem arith_henv (cfg : Cfg) (henv : cfg.env = Garith.env) (b : Bool) :
    ∀ g' ∈ cfg.env, Frag cfg b g' ∧ GOK Garith.bodyOf g' := by
  intro g' hg'
  rw [henv] at hg'
  refine ⟨?_, c05_grammar_ok.1 g' hg'⟩
  cases b with
  | false => exact arith_frag cfg g' hg'
  | true => exact Frag_mono g' (arith_frag cfg g' hg')

/-! ### the input -/

/-- the parsed file holds `ws0 ++ render e`: leading whitespace, then the text of a well-formed expression -/
structure Input (cfg : Cfg) (ws0 : Bytes) (e : Cst) : Prop where
  env : cfg.env = Garith.env
  off : 1 ≤ cfg.file.offset
  data : cfg.file.data = ws0 ++ e.render
  ws0 : WsOK ws0
  wf : e.WF 0

section
variable {cfg : Cfg} {ws0 : Bytes} {e : Cst} (hin : Input cfg ws0 e)
include hin

/-- where the first token starts -/
def start (cfg : Cfg) (ws0 : Bytes) : Nat := cfg.file.offset + ws0.length

omit hin in
theorem Input.pos0 (_ : Input cfg ws0 e) : InFile cfg.file (cfg.file.pos 0) := by
  unfold InFile File.pos; omega

theorem Input.rest0 : rest cfg.file (cfg.file.pos 0) = ws0 ++ e.render := by
  unfold rest File.pos
  simp [hin.data]

theorem Input.sk0 : sk cfg.file (cfg.file.pos 0) = start cfg ws0 := by
  obtain ⟨b, t, hbt, hb⟩ := e.render_head 0 hin.wf
  rw [sk_ws cfg.file hin.off _ ws0 e.render hin.pos0 hin.rest0 hin.ws0]
  · rfl
  · intro b' hb'
    rw [hbt] at hb'
    simp only [List.head?_cons, Option.some.injEq] at hb'
    subst hb'
    exact head_not_ws hb

theorem Input.restStart : rest cfg.file (start cfg ws0) = e.render ++ [] := by
  have := (rest_drop cfg.file (cfg.file.pos 0) ws0.length ws0 e.render hin.pos0 hin.rest0 rfl).2
  simpa [start, File.pos] using this

/-- **existence**: the tree of `e` has a curtailed derivation from the empty context -/
theorem Input.dc : DC cfg zeroC (.ref 0) (cfg.file.pos 0) (e.tree (start cfg ws0)) :=
  dc_tree cfg hin.env hin.off e 0 zeroC _ _ [] (by omega) hin.wf hin.pos0 hin.sk0 hin.restStart Stop_nil
    (hc_zero cfg hin.off 0 e _ _ [] hin.pos0 hin.sk0 hin.restStart)

theorem Input.tree_end : (e.tree (start cfg ws0)).rpos = cfg.file.offset + cfg.file.len := by
  rw [Cst.tree_rpos]
  simp [start, File.len, hin.data]; omega

theorem Input.tree_eof : isEOF cfg.file (e.tree (start cfg ws0)).rpos = true := by
  rw [hin.tree_end]; simp [isEOF]

/-- the tree is an exact tree of `expr` -/
theorem Input.treeT : T cfg.params cfg.file 0 (cfg.file.pos 0) (e.tree (start cfg ws0)) :=
  (hin.dc.toDSR (arith_closedT cfg hin.env)).ref_inv

/-- **what `run` returns on the root**: exactly the sentence node around the tree of `e` -/
theorem Input.run_root (fuel : Nat) (o : Out) (st' : St)
    (h : run cfg fuel Garith.root [] (cfg.file.pos 0) {} = some (o, st')) :
    o.res = .one (sentenceNode (e.tree (start cfg ws0))) ∧ o.err = none := by
  have hroot : Garith.root = G.sentence (.ref 0) := rfl
  -- a result is returned
  obtain ⟨hne, herr⟩ := sentence_completeT cfg Garith.bodyOf (arith_henv cfg hin.env false) (.ref 0) (by simp [Frag])
    (by simp [GOK, G.All, LocalOK]) fuel _ {} (by intro e he; cases he) o st' (by rw [← hroot]; exact h)
    _ hin.dc hin.tree_eof
  -- it is a single tree
  rcases sentence_res_one cfg fuel (.ref 0) [] _ {} o st' (by rw [← hroot]; exact h) with hnil | ⟨x, hx⟩
  · rw [hnil] at hne; exact absurd rfl hne
  -- which is an exact derivation
  have hfr : Frag cfg true Garith.root := by
    simp only [Garith.root, G.sentence, Frag, FragL, and_true]
    decide
  obtain ⟨hs, _⟩ := run_soundT cfg (arithRT cfg.params cfg.file) (arith_closedT cfg hin.env) Garith.bodyOf
    (arith_henv cfg hin.env true) fuel Garith.root [] _ {} o st' hfr c05_grammar_ok.2 (by intro e he; cases he) h
  have hd := hs x (by rw [hx]; simp [Res.alts])
  obtain ⟨y, z, dy, dz, rfl⟩ := DSR.seqOf2_inv (a := .ref 0) (b := .eof) hd
  obtain ⟨heof, rfl⟩ := dz.eof_inv
  have hy : T cfg.params cfg.file 0 (cfg.file.pos 0) y := dy.ref_inv
  -- unambiguity
  have hyend : y.rpos = cfg.file.offset + cfg.file.len := by
    have := (hy.pos hin.off hin.pos0).2
    unfold InFile at this
    simp only [isEOF, ge_iff_le, decide_eq_true_eq] at heof
    omega
  have : y = e.tree (start cfg ws0) := T_unique hin.off hin.pos0 hy hin.treeT (by rw [hyend, hin.tree_end])
  subst this
  exact ⟨by rw [hx]; rfl, herr⟩

/-- **what `parse` returns**: for every fuel at which it answers, the sentence node around the tree of `e`,
    and no error -/
theorem Input.parse_root (fuel : Nat) (p : ParseOut) (h : parse cfg fuel Garith.root = some p) :
    p.res = .one (sentenceNode (e.tree (start cfg ws0))) ∧ p.err = none ∧ p.msg = none := by
  cases hr : run cfg fuel Garith.root [] (cfg.file.pos 0) {} with
  | none => simp [parse, hr] at h
  | some r =>
    obtain ⟨o, st1⟩ := r
    obtain ⟨h1, h2⟩ := hin.run_root fuel o st1 hr
    simp only [parse, hr, h1, h2, Res.isNil, Bool.false_and, Bool.false_eq_true, ↓reduceIte] at h
    cases h
    exact ⟨rfl, rfl, rfl⟩

end

end PV.A05
