/-
  The tie of the TERMINAL PARSERS, part 6: the CONSTRUCTORS.

  A constructor `func X(params) parser.Func { pre…; return func(ctx, leftRecCtx, pos) {…} }` runs `pre` once, when the
  grammar is built, and the closure captures the variables `pre` defines (`notFoundErr`, Word's `token`).  `factgen
  -out-term` translates `pre` as `X_new` (answers those variables) and the literal as `X_parse` (takes them as parameters).
  `termNew` is the constructor as a whole: `X_new`, then the closure over what it answered.  `tie_new`: for a terminal of
  the model whose recorded name is the one the constructor computes (`NamesOK`: strconv.Quote of the rune / operator /
  word — the model takes the quoted name as a construction parameter —) and whose word is ASCII, the constructor RETURNS
  the closure `termClosure` that `tie_terminal` is about; the messages "boolean", "integer value", "float value",
  "string literal", "char literal", "time duration" are the source's.  `new_panics`: the documented panics of the
  constructors (the empty operator, word, true / false string, nil string).
-/
import ParsleyVerif.Proofs.TermTieRegexp
namespace PV.TermTie
open PV.CoreTie PV.Text PV.TermPrelude PV.FactsTerm

variable {σ : Type}

/-- the Go constructor of a terminal: the statements before the `return`, then the function literal over the variables
    they defined -/
def termNew (T : TWorld) (X : RxNames) (schema : CorePrelude.Opaque) :
    Terminal → TM σ (IntMap → Int → TM σ (CNode × IntSet × CErr))
  | .rune ch _ => do let nf ← Rune_new T (ch : Int); pure (Rune_parse T (ch : Int) nf)
  | .op op _ => do let nf ← Op_new T op; pure (Op_parse T op nf)
  | .word w valId _ => do
    let r ← Word_new T schema w (eVal (.opaque valId))
    pure (Word_parse T schema w (eVal (.opaque valId)) r.1 r.2)
  | .bool ts fs => do let nf ← Bool_new T schema ts fs; pure (Bool_parse T schema ts fs nf)
  | .nil w => do let nf ← Nil_new T schema w; pure (Nil_parse T schema w nf)
  | .integer => do let nf ← Integer_new T schema; pure (Integer_parse T schema nf)
  | .float => do let nf ← Float_new T schema; pure (Float_parse T schema nf)
  | .string bq => do let nf ← String_new T schema bq; pure (String_parse T schema bq nf)
  | .char => do let nf ← Char_new T schema; pure (Char_parse T schema nf)
  | .duration => do let nf ← TimeDuration_new T schema; pure (TimeDuration_parse T schema nf)
  | .regexp id tok name hasGroup => do
    let nf ← Regexp_new T schema tok name (X.text id) (X.group id hasGroup)
    pure (Regexp_parse T schema tok (X.text id) (X.group id hasGroup) nf)

/-- the name the model's terminal records is the one the constructor computes with strconv.Quote -/
def NamesOK (T : TWorld) : Terminal → Prop
  | .rune ch name => name = T.strconv_Quote (Utf8.encodeRune ch)
  | .op op name => name = T.strconv_Quote op
  | .word w _ name => name = T.strconv_Quote w
  | _ => True

/-- **the constructor returns the closure of the tie** -/
theorem tie_new (T : TWorld) (cfg : Cfg) (hT : TWorldRel T cfg) (X : RxNames) (schema : CorePrelude.Opaque)
    (t : Terminal) (wf : t.WF) (hn : NamesOK T t) (s : σ) :
    termNew T X schema t s = .ok (termClosure T X schema t) s := by
  cases t with
  | rune ch name =>
    simp only [NamesOK] at hn
    simp [termNew, termClosure, Rune_new, bindT, pureT, stringOfRune_nat, hn]
  | op op name =>
    simp only [NamesOK] at hn
    simp only [Terminal.WF] at wf
    simp [termNew, termClosure, Op_new, bindT, pureT, iteT, goStr_eq_tokOf, tokOf_empty, wf, hn]
  | word w valId name =>
    simp only [NamesOK] at hn
    simp only [Terminal.WF] at wf
    simp [termNew, termClosure, Word_new, bindT, pureT, iteT, goStr_eq_tokOf, tokOf_empty, wf.1, hn, hT.toUpper w wf.2]
  | bool ts fs =>
    simp only [Terminal.WF] at wf
    simp [termNew, termClosure, Bool_new, bindT, pureT, iteT, goStr_eq_tokOf, tokOf_empty, wf.1.1, wf.2.1]
  | nil w =>
    simp only [Terminal.WF] at wf
    simp [termNew, termClosure, Nil_new, bindT, pureT, iteT, goStr_eq_tokOf, tokOf_empty, wf.1]
  | integer => simp [termNew, termClosure, Integer_new, bindT, pureT]
  | float => simp [termNew, termClosure, Float_new, bindT, pureT]
  | string bq => simp [termNew, termClosure, String_new, bindT, pureT]
  | char => simp [termNew, termClosure, Char_new, bindT, pureT]
  | duration => simp [termNew, termClosure, TimeDuration_new, bindT, pureT]
  | regexp id tok name hasGroup => simp [termNew, termClosure, Regexp_new, bindT, pureT]

/-- **the documented panics of the constructors**: Op(""), Word(·, "", ·), Bool with an empty true / false string,
    Nil(·, "") -/
theorem new_panics (T : TWorld) (schema : CorePrelude.Opaque) (s : σ) :
    Op_new T [] s = .panic ∧ (∀ v, Word_new T schema [] v s = .panic) ∧
    (∀ fs, Bool_new T schema [] fs s = .panic) ∧ (∀ ts, Bool_new T schema ts [] s = .panic) ∧
    Nil_new T schema [] s = .panic := by
  refine ⟨?_, fun v => ?_, fun fs => ?_, fun ts => ?_, ?_⟩
  · simp [Op_new, bindT, iteT, panicT, goStr_eq_tokOf, tokOf_empty]
  · simp [Word_new, bindT, iteT, panicT, goStr_eq_tokOf, tokOf_empty]
  · cases fs <;> simp [Bool_new, bindT, iteT, panicT, pureT, goStr_eq_tokOf, tokOf_empty]
  · cases ts <;> simp [Bool_new, bindT, iteT, panicT, pureT, goStr_eq_tokOf, tokOf_empty]
  · simp [Nil_new, bindT, iteT, panicT, goStr_eq_tokOf, tokOf_empty]

end PV.TermTie
