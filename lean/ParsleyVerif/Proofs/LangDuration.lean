/-
  C08: `durationMatch` computes the longest prefix in the documented duration syntax (Spec/Lang.lean
  `isDuration`).
-/
import ParsleyVerif.Proofs.LangFloat
namespace PV
open PV.Text PV.Lang

/-! ### units -/
theorem isUnit_iff (w : Bytes) : isUnit w = true ↔ w ∈ units := by
  unfold isUnit; simp

theorem isUnit_cases (w : Bytes) (h : isUnit w = true) :
    w = [110, 115] ∨ w = [117, 115] ∨ w = [0xC2, 0xB5, 115] ∨ w = [0xCE, 0xBC, 115] ∨ w = [109, 115] ∨ w = [115] ∨
      w = [109] ∨ w = [104] := by
  rw [isUnit_iff] at h
  simpa [units] using h

/-- leftmost-first on `ns|us|µs|μs|ms|s|m|h`: the first unit of the list, in the order written, that is a
    prefix of the input -/
theorem unitLen_eq_firstSome (l : Bytes) :
    unitLen l = (firstSome (units.map (fun u => if u <+: l then some u.length else none))).getD 0 := by
  simp only [units, List.map, firstSome_ite, List.length_cons, List.length_nil]
  unfold unitLen
  split
  · simp
  · simp
  · simp
  · simp
  · simp
  · simp
  · rename_i t h
    have : ¬ [115] <+: t := by
      rintro ⟨t', ht⟩; exact h t' ht.symm
    simp [this]
  · simp
  · rename_i h1 h2 h3 h4 h5 h6 h7 h8
    rw [if_neg, if_neg, if_neg, if_neg, if_neg, if_neg, if_neg, if_neg]; rfl
    · rintro ⟨t', ht⟩; exact h8 t' ht.symm
    · rintro ⟨t', ht⟩; exact h7 t' ht.symm
    · rintro ⟨t', ht⟩; exact h6 t' ht.symm
    · rintro ⟨t', ht⟩; exact h5 t' ht.symm
    · rintro ⟨t', ht⟩; exact h4 t' ht.symm
    · rintro ⟨t', ht⟩; exact h3 t' ht.symm
    · rintro ⟨t', ht⟩; exact h2 t' ht.symm
    · rintro ⟨t', ht⟩; exact h1 t' ht.symm

/-- what `unitLen` reports is a unit -/
theorem unitLen_sound (l : Bytes) (h : unitLen l > 0) : isUnit (l.take (unitLen l)) = true := by
  unfold unitLen at h ⊢
  split
  · show isUnit [110, 115] = true; decide
  · show isUnit [117, 115] = true; decide
  · show isUnit [0xC2, 0xB5, 115] = true; decide
  · show isUnit [0xCE, 0xBC, 115] = true; decide
  · show isUnit [109, 115] = true; decide
  · show isUnit [115] = true; decide
  · show isUnit [109] = true; decide
  · show isUnit [104] = true; decide
  · rename_i h1 h2 h3 h4 h5 h6 h7 h8
    split at h
    · exact absurd rfl (h1 _)
    · exact absurd rfl (h2 _)
    · exact absurd rfl (h3 _)
    · exact absurd rfl (h4 _)
    · exact absurd rfl (h5 _)
    · exact absurd rfl (h6 _)
    · exact absurd rfl (h7 _)
    · exact absurd rfl (h8 _)
    · omega

/-- every unit that is a prefix of the input is what `unitLen` reports, except `m` in front of `s` -/
theorem unitLen_of_isUnit (u t : Bytes) (h : isUnit u = true) :
    unitLen (u ++ t) = u.length ∨ (u = [109] ∧ unitLen (u ++ t) = 2 ∧ ∃ t', t = 115 :: t') := by
  rcases isUnit_cases u h with rfl | rfl | rfl | rfl | rfl | rfl | rfl | rfl
  · left; rfl
  · left; rfl
  · left; rfl
  · left; rfl
  · left; rfl
  · left; rfl
  · cases t with
    | nil => left; rfl
    | cons x t' =>
      by_cases hx : x = 115
      · subst hx; right; exact ⟨rfl, rfl, t', rfl⟩
      · left; simp [unitLen, hx]
  · left; rfl

theorem isUnit_length (u : Bytes) (h : isUnit u = true) : 1 ≤ u.length := by
  rcases isUnit_cases u h with rfl | rfl | rfl | rfl | rfl | rfl | rfl | rfl <;> simp

/-- a unit starts with a byte that is neither a digit nor the point -/
theorem isUnit_head (u : Bytes) (h : isUnit u = true) : ∃ c t, u = c :: t ∧ digit c = false ∧ c ≠ 46 := by
  rcases isUnit_cases u h with rfl | rfl | rfl | rfl | rfl | rfl | rfl | rfl <;>
    exact ⟨_, _, rfl, by decide, by decide⟩

/-- the first unit that matches is also the longest unit that is a prefix of the input -/
theorem longestPrefix_isUnit (l : Bytes) :
    longestPrefix isUnit l = if unitLen l > 0 then some (unitLen l) else none := by
  have key : ∀ j, j ≤ l.length → isUnit (l.take j) = true → 1 ≤ j ∧ j ≤ unitLen l := by
    intro j hj h
    have h1 := isUnit_length _ h
    have h2 := unitLen_of_isUnit _ (l.drop j) h
    rw [List.take_append_drop, List.length_take] at h2
    rw [List.length_take] at h1
    rcases h2 with h2 | ⟨h3, h2, _⟩
    · omega
    · have : (l.take j).length = 1 := by rw [h3]; rfl
      rw [List.length_take] at this
      omega
  by_cases hk : unitLen l > 0
  · rw [if_pos hk]
    apply longestPrefix_eq_some (unitLen_le l) (unitLen_sound l hk)
    intro j hj1 hj2
    cases hu : isUnit (l.take j) with
    | false => rfl
    | true => have := key j hj2 hu; omega
  · rw [if_neg hk, longestPrefix_none]
    intro j hj
    cases hu : isUnit (l.take j) with
    | false => rfl
    | true => have := key j hj hu; omega


/-! ### one item -/
/-- the optional `\.[0-9]+` of `durItemLen` -/
def frLen : Bytes → Nat
  | 46 :: r => if spanLen digit r > 0 then 1 + spanLen digit r else 0
  | _ => 0

theorem durItemLen_eq (l : Bytes) :
    durItemLen l =
      if spanLen digit l = 0 then 0
      else if unitLen (l.drop (spanLen digit l + frLen (l.drop (spanLen digit l)))) > 0 then
        spanLen digit l + frLen (l.drop (spanLen digit l)) +
          unitLen (l.drop (spanLen digit l + frLen (l.drop (spanLen digit l))))
      else 0 := by
  unfold durItemLen frLen
  simp only [isDigit_eq_digit]
  rfl

theorem frLen_cons_ne (c : Nat) (r : Bytes) (h : c ≠ 46) : frLen (c :: r) = 0 := by
  simp [frLen, h]

theorem take_spanLen (p : Nat → Bool) (l : Bytes) : l.take (spanLen p l) = l.takeWhile p := by
  induction l with
  | nil => rfl
  | cons c r ih =>
    cases hc : p c
    · rw [spanLen_cons_neg p c r hc]; simp [hc]
    · rw [spanLen_cons_pos p c r hc, Nat.add_comm]; simp [hc, ih]

theorem plus1_take_spanLen (p : Nat → Bool) (l : Bytes) (h : spanLen p l > 0) :
    plus1 p (l.take (spanLen p l)) = true := by
  rw [plus1_iff, take_spanLen]
  constructor
  · intro h0
    unfold spanLen at h; rw [h0] at h; simp at h
  · intro b hb
    have := @List.all_takeWhile _ p l
    rw [List.all_eq_true] at this
    exact this b hb

theorem spanLen_append_cons (p : Nat → Bool) (ds : Bytes) (c : Nat) (t : Bytes) (hds : ∀ b ∈ ds, p b = true)
    (hc : p c = false) : spanLen p (ds ++ c :: t) = ds.length := by
  induction ds with
  | nil => exact spanLen_cons_neg p c t hc
  | cons d ds ih =>
    rw [List.cons_append, spanLen_cons_pos p d _ (hds d (by simp)), ih (fun b hb => hds b (by simp [hb]))]
    simp [Nat.add_comm]

theorem isDotDigits_iff (fr : Bytes) : isDotDigits fr = true ↔ ∃ fd, fr = 46 :: fd ∧ plus1 digit fd = true := by
  unfold isDotDigits
  split
  · rename_i r; simp
  · rename_i h
    constructor
    · intro h'; cases h'
    · rintro ⟨fd, rfl, _⟩; exact absurd rfl (h fd)

theorem frLen_sound (t : Bytes) : opt isDotDigits (t.take (frLen t)) = true := by
  unfold frLen
  split
  · rename_i r
    by_cases hm : spanLen digit r > 0
    · rw [if_pos hm, Nat.add_comm, List.take_succ_cons, opt_iff]
      right
      exact plus1_take_spanLen digit r hm
    · rw [if_neg hm]; rfl
  · rfl

/-- the item `durItemLen` reports is in the item language -/
theorem durItemLen_sound (l : Bytes) (h : durItemLen l > 0) : isDurItem (l.take (durItemLen l)) = true := by
  rw [durItemLen_eq] at h ⊢
  by_cases hn : spanLen digit l = 0
  · rw [if_pos hn] at h; omega
  · rw [if_neg hn] at h ⊢
    by_cases hu : unitLen (l.drop (spanLen digit l + frLen (l.drop (spanLen digit l)))) > 0
    · rw [if_pos hu]
      rw [List.take_add, List.take_add, List.append_assoc]
      unfold isDurItem
      rw [cat_iff]
      refine ⟨_, _, rfl, plus1_take_spanLen digit l (by omega), ?_⟩
      rw [cat_iff]
      exact ⟨_, _, rfl, frLen_sound _, unitLen_sound _ hu⟩
    · rw [if_neg hu] at h; omega

theorem frLen_build (fr u t : Bytes) (hfr : fr = [] ∨ isDotDigits fr = true) (hu : isUnit u = true) :
    frLen (fr ++ (u ++ t)) = fr.length := by
  obtain ⟨c, tu, rfl, hcd, hc46⟩ := isUnit_head u hu
  rcases hfr with rfl | hfr
  · exact frLen_cons_ne c _ hc46
  · rw [isDotDigits_iff] at hfr
    obtain ⟨fd, rfl, hfd⟩ := hfr
    rw [plus1_iff] at hfd
    have hs : spanLen digit (fd ++ (c :: tu ++ t)) = fd.length :=
      spanLen_append_cons digit fd c (tu ++ t) hfd.2 hcd
    have hpos : fd.length > 0 := by
      cases fd with
      | nil => exact absurd rfl hfd.1
      | cons _ _ => simp
    show (if spanLen digit (fd ++ (c :: tu ++ t)) > 0 then 1 + spanLen digit (fd ++ (c :: tu ++ t)) else 0) = _
    rw [hs, if_pos hpos]
    simp [Nat.add_comm]

theorem spanLen_build (ds fr u t : Bytes) (hds : plus1 digit ds = true) (hfr : fr = [] ∨ isDotDigits fr = true)
    (hu : isUnit u = true) : spanLen digit (ds ++ (fr ++ (u ++ t))) = ds.length := by
  obtain ⟨c, tu, rfl, hcd, hc46⟩ := isUnit_head u hu
  rw [plus1_iff] at hds
  rcases hfr with rfl | hfr
  · exact spanLen_append_cons digit ds c (tu ++ t) hds.2 hcd
  · rw [isDotDigits_iff] at hfr
    obtain ⟨fd, rfl, hfd⟩ := hfr
    exact spanLen_append_cons digit ds 46 _ hds.2 (by decide)

/-- `durItemLen` on an input that starts with an item: digits, fraction and unit are found where they are -/
theorem durItemLen_build (ds fr u t : Bytes) (hds : plus1 digit ds = true) (hfr : fr = [] ∨ isDotDigits fr = true)
    (hu : isUnit u = true) :
    durItemLen (ds ++ (fr ++ (u ++ t))) = ds.length + fr.length + unitLen (u ++ t) := by
  rw [durItemLen_eq, spanLen_build ds fr u t hds hfr hu, List.drop_left, frLen_build fr u t hfr hu,
    ← List.drop_drop, List.drop_left, List.drop_left]
  have h1 : ds.length ≠ 0 := by
    rw [plus1_iff] at hds
    cases ds with
    | nil => exact absurd rfl hds.1
    | cons _ _ => simp
  have h2 : unitLen (u ++ t) > 0 := by
    have := isUnit_length u hu
    rcases unitLen_of_isUnit u t hu with h | ⟨_, h, _⟩ <;> omega
  rw [if_neg h1, if_pos h2]

/-- every item that is a prefix of the input is the one `durItemLen` reports, except `…m` in front of `s` -/
theorem durItemLen_of_isDurItem (a t : Bytes) (h : isDurItem a = true) :
    durItemLen (a ++ t) = a.length ∨ (durItemLen (a ++ t) = a.length + 1 ∧ ∃ t', t = 115 :: t') := by
  unfold isDurItem at h
  rw [cat_iff] at h
  obtain ⟨ds, rest, rfl, hds, hrest⟩ := h
  rw [cat_iff] at hrest
  obtain ⟨fr, u, rfl, hfr, hu⟩ := hrest
  rw [opt_iff] at hfr
  rw [List.append_assoc, List.append_assoc, durItemLen_build ds fr u t hds hfr hu]
  simp only [List.length_append]
  rcases unitLen_of_isUnit u t hu with h | ⟨_, h, ht⟩
  · left; omega
  · right
    have := isUnit_length u hu
    subst_vars
    exact ⟨by simp at h ⊢; omega, ht⟩

theorem isDurItem_head (a : Bytes) (h : isDurItem a = true) : ∃ d a', a = d :: a' ∧ digit d = true := by
  unfold isDurItem at h
  cases a with
  | nil => rw [cat_plus1_nil] at h; cases h
  | cons d a' =>
    rw [cat_plus1_cons, Bool.and_eq_true] at h
    exact ⟨d, a', rfl, h.1⟩


/-! ### `A+` -/
theorem plus_zero (A : Bytes → Bool) (w : Bytes) : plus A 0 w = false := rfl

theorem plus_succ_iff (A : Bytes → Bool) (n : Nat) (w : Bytes) :
    plus A (n + 1) w = true ↔
      A w = true ∨ ∃ a c, w = a ++ c ∧ a ≠ [] ∧ A a = true ∧ plus A n c = true := by
  simp only [plus, Bool.or_eq_true, List.any_eq_true, Bool.and_eq_true, decide_eq_true_eq, List.mem_range]
  constructor
  · rintro (h | ⟨i, hi, ⟨h0, h1⟩, h2⟩)
    · exact Or.inl h
    · refine Or.inr ⟨w.take i, w.drop i, (List.take_append_drop i w).symm, ?_, h1, h2⟩
      intro h
      have : (w.take i).length = 0 := by rw [h]; rfl
      rw [List.length_take] at this
      omega
  · rintro (h | ⟨a, c, rfl, ha, h1, h2⟩)
    · exact Or.inl h
    · refine Or.inr ⟨a.length, by simp; omega, ⟨?_, by simpa using h1⟩, by simpa using h2⟩
      cases a with
      | nil => exact absurd rfl ha
      | cons _ _ => simp

theorem plus_mono (A : Bytes → Bool) (n : Nat) : ∀ w, plus A n w = true → plus A (n + 1) w = true := by
  induction n with
  | zero => intro w h; cases h
  | succ n ih =>
    intro w h
    rw [plus_succ_iff] at h ⊢
    rcases h with h | ⟨a, c, hw, ha, h1, h2⟩
    · exact Or.inl h
    · exact Or.inr ⟨a, c, hw, ha, h1, ih c h2⟩

theorem plus_mono_le (A : Bytes → Bool) (n m : Nat) (h : n ≤ m) (w : Bytes) (hw : plus A n w = true) :
    plus A m w = true := by
  induction h with
  | refl => exact hw
  | step _ ih => exact plus_mono A _ w ih

/-- the words of `A` are not empty, so `w.length` pieces are enough -/
theorem plus_fuel (A : Bytes → Bool) (hA : A [] = false) (n : Nat) :
    ∀ w, plus A n w = true → plus A w.length w = true := by
  induction n with
  | zero => intro w h; cases h
  | succ n ih =>
    intro w h
    rw [plus_succ_iff] at h
    rcases h with h | ⟨a, c, rfl, ha, h1, h2⟩
    · cases w with
      | nil => rw [hA] at h; cases h
      | cons x w => rw [List.length_cons, plus_succ_iff]; exact Or.inl h
    · have hlen : (a ++ c).length = (a.length - 1 + c.length) + 1 := by
        cases a with
        | nil => exact absurd rfl ha
        | cons _ _ => simp
      rw [hlen, plus_succ_iff]
      exact Or.inr ⟨a, c, rfl, ha, h1, plus_mono_le A _ _ (by omega) c (ih c h2)⟩

theorem isDurItem_nil : isDurItem [] = false := cat_plus1_nil _ _

theorem isDurBody_iff (w : Bytes) : isDurBody w = true ↔ ∃ n, plus isDurItem n w = true :=
  ⟨fun h => ⟨_, h⟩, fun ⟨n, h⟩ => plus_fuel isDurItem isDurItem_nil n w h⟩

theorem plus_isDurItem_head (n : Nat) (w : Bytes) (h : plus isDurItem n w = true) :
    ∃ d w', w = d :: w' ∧ digit d = true := by
  cases n with
  | zero => cases h
  | succ n =>
    rw [plus_succ_iff] at h
    rcases h with h | ⟨a, c, rfl, _, h1, _⟩
    · exact isDurItem_head w h
    · obtain ⟨d, a', rfl, hd⟩ := isDurItem_head a h1
      exact ⟨d, a' ++ c, rfl, hd⟩

/-! ### the item loop -/
theorem durItems_succ (fuel : Nat) (l : Bytes) :
    durItems (fuel + 1) l = if durItemLen l = 0 then 0 else durItemLen l + durItems fuel (l.drop (durItemLen l)) := rfl

/-- every item consumes at least one byte, so the fuel `l.length` of `durationMatch` is never the reason to stop -/
theorem durItems_fuel : ∀ (f1 f2 : Nat) (l : Bytes), l.length ≤ f1 → l.length ≤ f2 → durItems f1 l = durItems f2 l := by
  intro f1
  induction f1 with
  | zero =>
    intro f2 l h1 _
    have : l = [] := by cases l with | nil => rfl | cons _ _ => simp at h1
    subst this
    cases f2 <;> rfl
  | succ f1 ih =>
    intro f2 l h1 h2
    cases f2 with
    | zero =>
      have : l = [] := by cases l with | nil => rfl | cons _ _ => simp at h2
      subst this; rfl
    | succ f2 =>
      rw [durItems_succ, durItems_succ]
      by_cases hk : durItemLen l = 0
      · rw [if_pos hk, if_pos hk]
      · rw [if_neg hk, if_neg hk, ih f2 _ (by rw [List.length_drop]; omega) (by rw [List.length_drop]; omega)]

/-- the items `durItems` reports form a word of the body language -/
theorem durItems_sound : ∀ (fuel : Nat) (l : Bytes), durItems fuel l > 0 →
    ∃ n, plus isDurItem n (l.take (durItems fuel l)) = true := by
  intro fuel
  induction fuel with
  | zero => intro l h; simp [durItems] at h
  | succ fuel ih =>
    intro l h
    rw [durItems_succ] at h ⊢
    by_cases hk : durItemLen l = 0
    · rw [if_pos hk] at h; omega
    · rw [if_neg hk]
      have h1 := durItemLen_sound l (by omega)
      by_cases hr : durItems fuel (l.drop (durItemLen l)) > 0
      · obtain ⟨n, hn⟩ := ih _ hr
        refine ⟨n + 1, ?_⟩
        rw [List.take_add, plus_succ_iff]
        refine Or.inr ⟨_, _, rfl, ?_, h1, hn⟩
        intro h0; rw [h0, isDurItem_nil] at h1; cases h1
      · have : durItems fuel (l.drop (durItemLen l)) = 0 := by omega
        rw [this, Nat.add_zero]
        exact ⟨1, (plus_succ_iff _ _ _).2 (Or.inl h1)⟩

/-- no word of the body language that is a prefix of the input is longer than what `durItems` reports -/
theorem durItems_max : ∀ (n : Nat) (w t : Bytes) (fuel : Nat), (w ++ t).length ≤ fuel →
    plus isDurItem n w = true → w.length ≤ durItems fuel (w ++ t) := by
  intro n
  induction n with
  | zero => intro w t fuel _ h; cases h
  | succ n ih =>
    intro w t fuel hf h
    rw [plus_succ_iff] at h
    rcases h with h | ⟨a, c, rfl, ha, h1, h2⟩
    · obtain ⟨d, w', rfl, _⟩ := isDurItem_head w h
      cases fuel with
      | zero => simp at hf
      | succ fuel =>
        rw [durItems_succ]
        rcases durItemLen_of_isDurItem _ t h with hk | ⟨hk, _⟩
        · rw [if_neg (by rw [hk]; simp)]; omega
        · rw [if_neg (by rw [hk]; simp)]; omega
    · obtain ⟨d, a', rfl, _⟩ := isDurItem_head a h1
      obtain ⟨d2, c', rfl, hd2⟩ := plus_isDurItem_head n c h2
      cases fuel with
      | zero => simp at hf
      | succ fuel =>
        rw [durItems_succ, List.append_assoc]
        rcases durItemLen_of_isDurItem _ (d2 :: c' ++ t) h1 with hk | ⟨_, t', ht'⟩
        · rw [if_neg (by rw [hk]; simp), hk, List.drop_left]
          have := ih (d2 :: c') t fuel (by simp at hf ⊢; omega) h2
          simp only [List.length_append]
          omega
        · simp only [List.cons_append, List.cons.injEq] at ht'
          rw [ht'.1] at hd2
          exact absurd hd2 (by decide)


/-! ### duration -/
/-- `(?:item)+`: item after item, each one greedy -/
theorem longestPrefix_isDurBody (b : Bytes) (fuel : Nat) (hf : b.length ≤ fuel) :
    longestPrefix isDurBody b = if durItems fuel b > 0 then some (durItems fuel b) else none := by
  have key : ∀ j, j ≤ b.length → isDurBody (b.take j) = true → 1 ≤ j ∧ j ≤ durItems fuel b := by
    intro j hj h
    rw [isDurBody_iff] at h
    obtain ⟨n, hn⟩ := h
    have h1 := durItems_max n (b.take j) (b.drop j) fuel (by rw [List.take_append_drop]; exact hf) hn
    rw [List.take_append_drop, List.length_take] at h1
    obtain ⟨d, w', hw, _⟩ := plus_isDurItem_head n _ hn
    have h2 : (b.take j).length = w'.length + 1 := by rw [hw]; rfl
    rw [List.length_take] at h2
    omega
  by_cases hk : durItems fuel b > 0
  · rw [if_pos hk]
    apply longestPrefix_eq_some (durItems_le fuel b) ((isDurBody_iff _).2 (durItems_sound fuel b hk))
    intro j hj1 hj2
    cases hu : isDurBody (b.take j) with
    | false => rfl
    | true => have := key j hj2 hu; omega
  · rw [if_neg hk, longestPrefix_none]
    intro j hj
    cases hu : isDurBody (b.take j) with
    | false => rfl
    | true => have := key j hj hu; omega

theorem isDurBody_nil : isDurBody [] = false := rfl
theorem isDurBody_sign (c : Nat) (w : Bytes) (h : sign c = true) : isDurBody (c :: w) = false := by
  cases hb : isDurBody (c :: w) with
  | false => rfl
  | true =>
    obtain ⟨d, w', hw, hd⟩ := plus_isDurItem_head _ _ hb
    simp only [List.cons.injEq] at hw
    rw [← hw.1] at hd
    rw [sign_iff] at h
    rcases h with rfl | rfl <;> cases hd

theorem durationMatch_eq_longest (l : Bytes) : durationMatch l = longestPrefix isDuration l := by
  unfold isDuration
  rw [longestPrefix_optSign isDurBody isDurBody_nil isDurBody_sign,
    longestPrefix_isDurBody (l.drop (signLen l)) l.length (by rw [List.length_drop]; omega)]
  unfold durationMatch
  simp only []
  by_cases hk : durItems l.length (l.drop (signLen l)) > 0
  · rw [if_pos hk, if_pos hk]; rfl
  · rw [if_neg hk, if_neg hk]; rfl

theorem durationMatch_sound (l : Bytes) (k : Nat) (h : durationMatch l = some k) : isDuration (l.take k) = true :=
  longestPrefix_mem (durationMatch_eq_longest l ▸ h)
theorem durationMatch_maximal (l : Bytes) (k : Nat) (h : durationMatch l = some k) :
    ∀ j, k < j → j ≤ l.length → isDuration (l.take j) = false :=
  longestPrefix_max (durationMatch_eq_longest l ▸ h)
theorem durationMatch_none (l : Bytes) (h : durationMatch l = none) :
    ∀ j, j ≤ l.length → isDuration (l.take j) = false :=
  longestPrefix_none.1 (durationMatch_eq_longest l ▸ h)

/-! ### not vacuous -/
-- `1ms`: item language has the two prefixes `1m` and `1ms`; `ms` first is also the longest
example : longestPrefix isDuration [49, 109, 115] = some 3 ∧ durationMatch [49, 109, 115] = some 3 := by decide
example : isDurItem [49, 109] = true ∧ isDurItem [49, 109, 115] = true := by decide
-- `-1.5h3m`, `1m2`, `1.s`, `5`
example : longestPrefix isDuration [45, 49, 46, 53, 104, 51, 109] = some 7 := by decide
example : durationMatch [45, 49, 46, 53, 104, 51, 109] = some 7 := by decide
example : longestPrefix isDuration [49, 109, 50] = some 2 ∧ durationMatch [49, 109, 50] = some 2 := by decide
example : longestPrefix isDuration [49, 46, 115] = none ∧ durationMatch [49, 46, 115] = none := by decide
example : longestPrefix isDuration [53] = none ∧ durationMatch [53] = none := by decide
-- `2µs`
example : longestPrefix isDuration [50, 0xC2, 0xB5, 115] = some 4 ∧ durationMatch [50, 0xC2, 0xB5, 115] = some 4 := by decide
example : unitLen [109, 115, 49] = 2 ∧ longestPrefix isUnit [109, 115, 49] = some 2 := by decide

end PV
