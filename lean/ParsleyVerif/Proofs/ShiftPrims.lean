/-
  C12, step 1: every reader primitive and every terminal commutes with the shift of the file.
-/
import ParsleyVerif.Spec.Shift
namespace PV
open PV.Text

@[simp] theorem shiftFile_offset (b : Nat) (f : File) : (shiftFile b f).offset = f.offset + b := rfl
@[simp] theorem shiftFile_data (b : Nat) (f : File) : (shiftFile b f).data = f.data := rfl
@[simp] theorem shiftFile_name (b : Nat) (f : File) : (shiftFile b f).name = f.name := rfl
@[simp] theorem shiftFile_len (b : Nat) (f : File) : (shiftFile b f).len = f.len := rfl
@[simp] theorem shiftFile_pos (b : Nat) (f : File) (c : Nat) : (shiftFile b f).pos c = f.pos c + b := by
  simp [File.pos]; omega

theorem readRune_shift (b : Nat) (f : File) (pos ch : Nat) :
    readRune (shiftFile b f) (pos + b) ch = (readRune f pos ch).map (shiftP b) := by
  unfold readRune
  simp only [shiftFile_offset, shiftFile_data, shiftFile_len, shiftFile_pos, Nat.add_lt_add_iff_right,
    Nat.add_sub_add_right]
  repeat' split
  all_goals simp_all [shiftP]

theorem matchString_shift (b : Nat) (f : File) (pos : Nat) (str : Bytes) :
    matchString (shiftFile b f) (pos + b) str = (matchString f pos str).map (shiftP b) := by
  unfold matchString
  simp only [shiftFile_offset, shiftFile_data, shiftFile_pos, Nat.add_lt_add_iff_right,
    Nat.add_sub_add_right]
  repeat' split
  all_goals simp_all [shiftP]

theorem matchWord_shift (b : Nat) (f : File) (pos : Nat) (w : Bytes) :
    matchWord (shiftFile b f) (pos + b) w = (matchWord f pos w).map (shiftP b) := by
  unfold matchWord
  simp only [shiftFile_offset, shiftFile_data, shiftFile_pos, Nat.add_lt_add_iff_right,
    Nat.add_sub_add_right]
  repeat' split
  all_goals simp_all [shiftP]

theorem readRegexp_shift (engine : Bytes → Option Nat) (b : Nat) (f : File) (pos : Nat) :
    readRegexp engine (shiftFile b f) (pos + b) = (readRegexp engine f pos).map (shiftP b) := by
  unfold readRegexp
  simp only [shiftFile_offset, shiftFile_data, shiftFile_len, shiftFile_pos, Nat.add_lt_add_iff_right,
    Nat.add_sub_add_right]
  repeat' split
  all_goals simp_all [shiftP]

theorem readf_shift (fn : Bytes → Option Bytes × Nat) (b : Nat) (f : File) (pos : Nat) :
    readf fn (shiftFile b f) (pos + b) = (readf fn f pos).map (shiftP b) := by
  unfold readf
  simp only [shiftFile_offset, shiftFile_data, shiftFile_len, shiftFile_pos, Nat.add_lt_add_iff_right,
    Nat.add_sub_add_right]
  repeat' split
  all_goals simp_all [shiftP]

theorem remaining_shift (b : Nat) (f : File) (pos : Nat) :
    remaining (shiftFile b f) (pos + b) = remaining f pos := by
  simp [remaining, Nat.add_sub_add_right]

theorem isEOF_shift (b : Nat) (f : File) (pos : Nat) :
    isEOF (shiftFile b f) (pos + b) = isEOF f pos := by
  simp [isEOF, Nat.add_sub_add_right]

/-- the `nlPos` variable of SkipWhitespaces on the shifted file: 0 stays the "no line break yet" sentinel -/
def shiftNl (b nl : Nat) : Nat := if nl = 0 then 0 else nl + b

theorem skipLoop_shift (b : Nat) (f : File) (hoff : 1 ≤ f.offset) : ∀ (l : Bytes) (cur nl : Nat),
    skipLoop (shiftFile b f) l cur (shiftNl b nl) = ((skipLoop f l cur nl).1, shiftNl b (skipLoop f l cur nl).2) := by
  intro l
  induction l with
  | nil => intro cur nl; simp [skipLoop]
  | cons x r ih =>
    intro cur nl
    unfold skipLoop
    by_cases hw : isWs x = true
    · simp only [hw, if_true]
      rw [← ih]
      congr 1
      by_cases hnl : nl = 0
      · subst hnl
        by_cases hb : isBreak x = true
        · have : f.pos cur ≠ 0 := by unfold File.pos; omega
          simp [shiftNl, hb, this]
        · simp [shiftNl, hb]
      · have : nl + b ≠ 0 := by omega
        simp [shiftNl, hnl]
    · simp [hw]

theorem skipWhitespaces_shift (b : Nat) (f : File) (pos : Nat) (m : WsMode) (hoff : 1 ≤ f.offset) :
    skipWhitespaces (shiftFile b f) (pos + b) m = shiftWs b (skipWhitespaces f pos m) := by
  unfold skipWhitespaces
  have h0 := skipLoop_shift b f hoff (List.drop (pos - f.offset) f.data) (pos - f.offset) 0
  rw [show shiftNl b 0 = 0 from rfl] at h0
  simp only [shiftFile_offset, shiftFile_data, Nat.add_sub_add_right]
  rw [h0]
  clear h0
  rcases skipLoop f (List.drop (pos - f.offset) f.data) (pos - f.offset) 0 with ⟨cur, nl⟩
  simp only [shiftFile_pos]
  by_cases hnl : nl = 0
  · subst hnl
    simp only [shiftNl, if_true]
    repeat' split
    all_goals simp_all [shiftWs, shiftP]
  · have : nl + b ≠ 0 := by omega
    have h1 : nl > 0 := by omega
    have h2 : nl + b > 0 := by omega
    simp only [shiftNl, hnl, if_false]
    repeat' split
    all_goals simp_all [shiftWs, shiftP]

/-! ### terminals -/

local macro "tshift" : tactic =>
  `(tactic| (simp [shiftP, TermOut.shift, Node.shift, nf, other, Err.shift, readRune_shift, readRegexp_shift,
      readf_shift, matchWord_shift, matchString_shift]; done))

local macro "tstep" : tactic =>
  `(tactic| simp only [Option.map_some, Option.map_none, shiftP, readRune_shift, readRegexp_shift,
      readf_shift, matchWord_shift, matchString_shift])

theorem Terminal.parse_shift (P : Params) (b : Nat) (f : File) (t : Terminal) (pos : Nat) :
    Terminal.parse P (shiftFile b f) t (pos + b) = (Terminal.parse P f t pos).shift b := by
  cases t with
  | rune ch name =>
    simp only [Terminal.parse, readRune_shift]
    rcases readRune f pos ch with _ | ⟨rp, _ | _⟩ <;> tshift
  | op s name =>
    simp only [Terminal.parse, matchString_shift]
    rcases matchString f pos s with _ | ⟨rp, _ | _⟩ <;> tshift
  | word w v name =>
    simp only [Terminal.parse, matchWord_shift]
    rcases matchWord f pos w with _ | ⟨rp, _ | _⟩ <;> tshift
  | bool ts fs =>
    simp only [Terminal.parse, matchWord_shift]
    rcases matchWord f pos ts with _ | ⟨rp, _ | _⟩ <;> first | tshift | tstep
    rcases matchWord f pos fs with _ | ⟨rp, _ | _⟩ <;> tshift
  | nil s =>
    simp only [Terminal.parse, matchWord_shift]
    rcases matchWord f pos s with _ | ⟨rp, _ | _⟩ <;> tshift
  | integer =>
    simp only [Terminal.parse, readRegexp_shift]
    rcases readRegexp integerMatch f pos with _ | ⟨rp, _ | lex⟩ <;> first | tshift | tstep
    rcases readRune f rp 46 with _ | ⟨rp2, _ | _⟩ <;> first | tshift | tstep
    cases parseInt0 lex <;> tshift
  | float =>
    simp only [Terminal.parse, readRegexp_shift]
    rcases readRegexp floatMatch f pos with _ | ⟨rp, _ | lex⟩ <;> first | tshift | tstep
    split <;> tshift
  | duration =>
    simp only [Terminal.parse, readRegexp_shift]
    rcases readRegexp durationMatch f pos with _ | ⟨rp, _ | lex⟩ <;> first | tshift | tstep
    cases P.durErr lex <;> tshift
  | char =>
    simp only [Terminal.parse, readRune_shift]
    rcases readRune f pos 39 with _ | ⟨rp1, _ | _⟩ <;> first | tshift | tstep
    rcases readRegexp charMatch f rp1 with _ | ⟨rp2, _ | res⟩ <;> first | tshift | tstep
    rcases readRune f rp2 39 with _ | ⟨rp3, _ | _⟩ <;> first | tshift | tstep
    split <;> tshift
  | string bq =>
    have tail : ∀ quote rp1, quote ≠ 0 →
        (match readRune (shiftFile b f) (rp1 + b) quote with
          | none => TermOut.panic "ReadRune"
          | some (rp2, true) => .node (.term (tokOf "STRING") (.str []) (pos + b) rp2)
          | some (rp2, false) =>
            match (if quote = 96 then readRegexp backquoteMatch (shiftFile b f) rp2 else readf unquoteString (shiftFile b f) rp2) with
            | none => .panic "Readf"
            | some (rp3, value) =>
              match readRune (shiftFile b f) rp3 quote with
              | none => .panic "ReadRune"
              | some (rp4, false) => .err ⟨rp4, .other (tokOf "was expecting '" ++ [quote] ++ tokOf "'")⟩
              | some (rp4, true) => .node (.term (tokOf "STRING") (.str (value.getD [])) (pos + b) rp4)) =
        TermOut.shift b (match readRune f rp1 quote with
          | none => TermOut.panic "ReadRune"
          | some (rp2, true) => .node (.term (tokOf "STRING") (.str []) pos rp2)
          | some (rp2, false) =>
            match (if quote = 96 then readRegexp backquoteMatch f rp2 else readf unquoteString f rp2) with
            | none => .panic "Readf"
            | some (rp3, value) =>
              match readRune f rp3 quote with
              | none => .panic "ReadRune"
              | some (rp4, false) => .err ⟨rp4, .other (tokOf "was expecting '" ++ [quote] ++ tokOf "'")⟩
              | some (rp4, true) => .node (.term (tokOf "STRING") (.str (value.getD [])) pos rp4)) := by
      intro quote rp1 _
      simp only [readRune_shift]
      rcases readRune f rp1 quote with _ | ⟨rp2, _ | _⟩ <;> first | tshift | tstep
      have hb : (if quote = 96 then (readRegexp backquoteMatch f rp2).map (shiftP b) else (readf unquoteString f rp2).map (shiftP b))
          = (if quote = 96 then readRegexp backquoteMatch f rp2 else readf unquoteString f rp2).map (shiftP b) := by
        split <;> rfl
      rw [hb]
      generalize (if quote = 96 then readRegexp backquoteMatch f rp2 else readf unquoteString f rp2) = body
      rcases body with _ | ⟨rp3, value⟩ <;> first | tshift | tstep
      rcases readRune f rp3 quote with _ | ⟨rp4, _ | _⟩ <;> tshift
    simp only [Terminal.parse, readRune_shift]
    rcases readRune f pos 34 with _ | ⟨rp, _ | _⟩
    · tshift
    · cases bq
      · tshift
      · simp only [if_true]
        rcases readRune f pos 96 with _ | ⟨rp', _ | _⟩
        · tshift
        · tshift
        · simp only [Option.map_some, shiftP]
          exact tail 96 rp' (by decide)
    · simp only [Option.map_some, shiftP]
      exact tail 34 rp (by decide)
  | regexp id tok name hasGroup =>
    simp only [Terminal.parse, readRegexp_shift, shiftFile_data, shiftFile_offset, Nat.add_sub_add_right]
    generalize readRegexp _ f pos = r
    rcases r with _ | ⟨rp, _ | m⟩ <;> first | tshift | tstep
    cases hasGroup
    · tshift
    · simp only [if_true]
      generalize P.regexp id _ = r
      rcases r with _ | ⟨a, _ | g⟩ <;> tshift

end PV
