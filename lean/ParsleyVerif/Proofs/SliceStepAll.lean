import ParsleyVerif.Proofs.SliceStep
/-
  Every operation of the append family (everything except SetReaderPos) keeps the invariant and is framed.
-/
namespace PV.Slice

theorem setCells_append (arrs : Arrs) (x c : List Handle) : setCells (arrs ++ [x]) arrs.length c = arrs ++ [c] := by
  unfold setCells
  apply List.ext_getElem?
  intro i
  rw [List.getElem?_modify]
  by_cases hi : arrs.length = i
  · subst hi; simp
  · simp only [if_neg hi]
    by_cases hlt : i < arrs.length
    · simp [List.getElem?_append_left hlt]
    · rw [List.getElem?_eq_none (by simp; omega), List.getElem?_eq_none (by simp; omega)]; rfl

/-- give a bound to an array nobody refers to yet -/
theorem Inv.raise_at {s : St} {top : Nat → Nat} (inv : Inv s top) (A v : Nat) (hA : A < s.arrs.length)
    (hfree : top A = 0) (nobuf : ∀ b ∈ s.bufs, b.cap ≠ 0 → b.arr ≠ A) :
    Inv s (fun a => if a = A then v else top a) := by
  have hge : ∀ a, top a ≤ (fun a => if a = A then v else top a) a := by
    intro a; simp only; split
    · rename_i h; rw [h, hfree]; omega
    · omega
  have hmono : ∀ {h : Handle}, HWF s top h → HWF s (fun a => if a = A then v else top a) h := by
    intro h hw
    cases h with
    | ptr m => exact hw
    | list sl => exact ⟨hw.1, hw.2.1, Nat.le_trans hw.2.2.1 (hge _), hw.2.2.2⟩
    | _ => trivial
  have hlist : ∀ {sl : Slice}, HWF s top (Handle.list sl) → sl.arr ≠ A := by
    intro sl hw heq
    have h1 := hw.2.1; have h2 := hw.2.2.1
    rw [heq, hfree] at h2; omega
  refine ⟨?_, inv.cellok, fun e he => hmono (inv.pool e he), fun kv hkv => ⟨hmono (inv.memo kv hkv).1, (inv.memo kv hkv).2⟩,
    ?_, ?_, inv.uniq, ?_⟩
  · intro a ha
    have : a ≠ A := by omega
    simp only [if_neg this]; exact inv.topz a ha
  · intro n tok sl p rp hn
    exact ⟨(inv.nodes n tok sl p rp hn).1, Nat.le_trans (inv.nodes n tok sl p rp hn).2 (hge _)⟩
  · intro i e sl hi hl
    have hw := inv.pool e (List.mem_of_getElem? hi)
    rw [hl.2.1] at hw
    intro hlt
    simp only [if_neg (hlist hw)]
    exact inv.own i e sl hi hl hlt
  · intro b hb
    refine ⟨(inv.bufs b hb).1, fun hc => ?_⟩
    simp only [if_neg (nobuf b hb hc)]
    exact (inv.bufs b hb).2 hc

theorem HWF.ptr_new {s : St} {top : Nat → Nat} (o : NodeObj) : HWF (allocNode s o) top (Handle.ptr s.nodes.length) := by
  simp [HWF, allocNode]

theorem stepOK_alloc_push {top top' : Nat → Nat} {s : St} (arrs' : Arrs) (o : NodeObj)
    (fa : FrameA top s.arrs arrs') (inv' : Inv ({ s with arrs := arrs' } : St) top')
    (ow : ∀ tok sl pos rpos, o = NodeObj.nt tok sl pos rpos → SWF arrs' sl ∧ sl.len ≤ top' sl.arr) :
    StepOK top s ((allocNode ({ s with arrs := arrs' } : St) o).push (Handle.ptr s.nodes.length)) := by
  refine ⟨⟨top', (inv'.alloc o ow).push_flat _ (HWF.ptr_new o) (by intro sl; simp)⟩, ⟨⟨[o], rfl⟩, fa⟩, ?_⟩
  exact (Ext.of_eq (s := s) (s' := allocNode ({ s with arrs := arrs' } : St) o) rfl rfl).trans (Ext.push _ _)

theorem Inv.same_arrs {s : St} {top : Nat → Nat} (inv : Inv s top) : Inv ({ s with arrs := s.arrs } : St) top := inv

theorem step_seqBufWrite_ok (grow : Nat → Nat) {s : St} {top : Nat → Nat} (inv : Inv s top) (f depth : Nat)
    (b : Slice) (h : Handle) (hb : s.bufs[f]? = some b) (hw : HWF s top h) (nl : ∀ sl, h ≠ Handle.list sl) :
    StepOK top s (if b.len < depth + 1 then
        ({ s with arrs := (sliceAppend grow s.arrs b h).1, bufs := s.bufs.set f (sliceAppend grow s.arrs b h).2 } : St)
      else ({ s with arrs := writeCell s.arrs b.arr depth h } : St)) := by
  have hbm : b ∈ s.bufs := List.mem_of_getElem? hb
  obtain ⟨bw, bt⟩ := inv.bufs b hbm
  have hc : CellOK s.nodes.length h := hw.cellOK nl
  split
  · have sfb : Safe top b := by
      intro hlt
      rw [bt (by omega)]; omega
    obtain ⟨r, _⟩ := sliceAppend_spec grow top s.nodes.length s.arrs b h bw sfb inv.topz inv.cellok hc
    refine ⟨⟨top, ?_⟩, ⟨⟨[], by simp⟩, r.frame⟩, Ext.of_eq rfl rfl⟩
    apply (inv.setArrs _ r.frame r.ok).setBufs
    intro b' hb'
    rcases List.mem_or_eq_of_mem_set hb' with h1 | h1
    · exact ⟨r.frame.swf (inv.bufs b' h1).1, (inv.bufs b' h1).2⟩
    · subst h1
      refine ⟨r.swf, fun hc' => ?_⟩
      rcases r.placed with ⟨p1, p2, _⟩ | p3
      · rw [p1]; exact bt (by rw [← p2]; exact hc')
      · exact inv.topz _ p3
  · rename_i hlt
    have hcap : b.cap ≠ 0 := by have := bw.1; omega
    have fa := frameA_write top s.arrs b.arr depth h (by rw [bt hcap]; omega)
    exact ⟨⟨top, inv.setArrs _ fa (cellsOK_write inv.cellok _ _ _ hc)⟩, ⟨⟨[], by simp⟩, fa⟩, Ext.of_eq rfl rfl⟩

theorem doAppend_list (grow : Nat → Nat) (s : St) (i j : Nat) (sl : Slice) (h2 : Handle) (hne : h2 ≠ Handle.nil) :
    doAppend grow s i (Handle.list sl) (some j) h2 =
      ({ (s.consume i (Handle.list sl)) with arrs := (nlAppend grow s.arrs sl h2).1 } : St).push
        (Handle.list (nlAppend grow s.arrs sl h2).2) := by
  simp [doAppend, appendNodeCore, hne]

theorem clip_hwf {s : St} {top : Nat → Nat} {h : Handle} (hw : HWF s top h) : HWF s top h.clip ∧ Sealed h.clip := by
  cases h with
  | list sl =>
    obtain ⟨w, pos, ht, nn⟩ := hw
    refine ⟨⟨⟨Nat.le_refl _, ?_⟩, pos, ht, nn⟩, rfl⟩
    rcases w.2 with h0 | ⟨h1, h2⟩
    · exact Or.inl (by show sl.len = 0; have := w.1; omega)
    · exact Or.inr ⟨h1, by show sl.len ≤ (cells s.arrs sl.arr).length; have := w.1; omega⟩
  | nil => exact ⟨trivial, trivial⟩
  | ptr m => exact ⟨hw, trivial⟩
  | empty p => exact ⟨trivial, trivial⟩
  | eof p => exact ⟨trivial, trivial⟩

theorem doMemoStore_ok {s : St} {top : Nat → Nat} (inv : Inv s top) (key i : Nat) :
    StepOK top s (doMemoStore true s key i).1 := by
  unfold doMemoStore
  split
  · rename_i h hg
    split
    · exact StepOK.refl inv
    · rename_i hany
      simp only [if_true]
      have hw := inv.get_hwf hg
      have inv1 := inv.consume i h
      have hw1 : HWF (s.consume i h) top h.clip ∧ Sealed h.clip :=
        clip_hwf (hw.frame _ (by simp [consume_nodes]) (by rw [consume_arrs]; exact FrameA.refl _ _))
      have inv2 := inv1.memo_cons key h.clip hw1.1 hw1.2
      refine ⟨inv2.push_memo (key, h.clip) (by simp), StFrame.of_eq (by simp [St.push, consume_nodes]) (by simp [St.push, consume_arrs]), ?_⟩
      refine (Ext.consume s i h).trans (Ext.trans (s2 := ({ (s.consume i h) with memo := (key, h.clip) :: (s.consume i h).memo } : St)) ?_ (Ext.push _ _))
      refine ⟨fun k e he => ⟨e, he, rfl, id⟩, ⟨[(key, h.clip)], rfl, ?_⟩⟩
      intro kv hkv kv' hkv'
      simp only [List.mem_singleton] at hkv
      subst hkv
      rw [consume_memo] at hkv'
      intro heq
      apply hany
      rw [List.any_eq_true]
      exact ⟨kv', hkv', by simpa using heq.symm⟩
  · exact StepOK.refl inv

theorem step_seqResult_ok {s : St} {top : Nat → Nat} (inv : Inv s top) (b : Slice) (hb : b ∈ s.bufs)
    (depth tok p rp : Nat) (hd : depth ≤ b.len) (hd0 : depth ≠ 0) :
    StepOK top s ((allocNode ({ s with arrs := setCells (s.arrs ++ [List.replicate depth Handle.nil]) s.arrs.length (view (s.arrs ++ [List.replicate depth Handle.nil]) { b with len := depth } ++ (cells (s.arrs ++ [List.replicate depth Handle.nil]) s.arrs.length).drop depth) } : St)
      (NodeObj.nt tok ⟨s.arrs.length, depth, depth⟩ p rp)).push (Handle.ptr s.nodes.length)) := by
  rw [setCells_append]
  obtain ⟨bw, _⟩ := inv.bufs b hb
  have hcap : b.cap ≠ 0 := by have := bw.1; omega
  have harr : b.arr < s.arrs.length ∧ b.cap ≤ (cells s.arrs b.arr).length := by
    rcases bw.2 with h0 | h1
    · exact absurd h0 hcap
    · exact h1
  have ok1 : CellsOK s.nodes.length (s.arrs ++ [List.replicate depth Handle.nil]) :=
    cellsOK_append inv.cellok _ (by intro x hx; rw [(List.mem_replicate.mp hx).2]; trivial)
  generalize hc : view (s.arrs ++ [List.replicate depth Handle.nil]) { b with len := depth } ++
      (cells (s.arrs ++ [List.replicate depth Handle.nil]) s.arrs.length).drop depth = c
  have hclen : depth ≤ c.length := by
    rw [← hc]
    simp only [List.length_append, view, List.length_take]
    rw [cells_append_lt _ _ _ harr.1]
    have := bw.1
    omega
  have okc : ∀ x ∈ c, CellOK s.nodes.length x := by
    intro x hx
    rw [← hc] at hx
    rcases List.mem_append.mp hx with h | h
    · exact view_cellOK ok1 _ x h
    · exact ok1 _ x (List.mem_of_mem_drop h)
  have fa := frameA_append top s.arrs c inv.topz
  have inv1 := inv.setArrs (s.arrs ++ [c]) fa (cellsOK_append inv.cellok c okc)
  have inv2 := inv1.raise_at s.arrs.length depth (by simp) (inv.topz _ (Nat.le_refl _)) (by
    intro b' hb' hc'
    rcases (inv.bufs b' hb').1.2 with h0 | ⟨h1, _⟩
    · exact absurd h0 hc'
    · omega)
  apply stepOK_alloc_push (s.arrs ++ [c]) _ fa inv2
  intro tok' sl' pos' rpos' ho
  cases ho
  refine ⟨⟨Nat.le_refl _, Or.inr ⟨by simp, ?_⟩⟩, by simp⟩
  show depth ≤ (cells (s.arrs ++ [c]) s.arrs.length).length
  rw [cells_append_eq]; exact hclen

theorem step_ok (grow : Nat → Nat) {s : St} {top : Nat → Nat} (inv : Inv s top) (op : Op) (hop : op.isTrim = false) :
    StepOK top s (step grow s op).1 := by
  cases op with
  | newNil => exact ⟨⟨top, inv.push_flat _ trivial (by intro sl; simp)⟩, StFrame.of_eq rfl rfl, Ext.push _ _⟩
  | newEmpty p => exact ⟨⟨top, inv.push_flat _ trivial (by intro sl; simp)⟩, StFrame.of_eq rfl rfl, Ext.push _ _⟩
  | newEOF p => exact ⟨⟨top, inv.push_flat _ trivial (by intro sl; simp)⟩, StFrame.of_eq rfl rfl, Ext.push _ _⟩
  | newTerm tok val pos rpos =>
    exact stepOK_alloc_push s.arrs _ (FrameA.refl _ _) inv.same_arrs (by intro tok sl pos rpos h; cases h)
  | seqNew =>
    refine ⟨⟨top, inv.setBufs _ ?_⟩, StFrame.of_eq rfl rfl, Ext.of_eq rfl rfl⟩
    intro b hb
    simp only [List.mem_append, List.mem_singleton] at hb
    rcases hb with hb | hb
    · exact inv.bufs b hb
    · subst hb; exact ⟨⟨Nat.le_refl _, Or.inl rfl⟩, fun h => absurd rfl h⟩
  | seqBufWrite f depth i =>
    simp only [step]
    split
    · rename_i b h hb hg
      have hw := inv.get_hwf hg
      split
      · exact StepOK.refl inv
      · exact StepOK.refl inv
      · rename_i hn1 hn2
        rw [apply_ite Prod.fst]
        exact step_seqBufWrite_ok grow inv f depth b h hb hw (fun sl e => hn2 sl e)
    · exact StepOK.refl inv
  | seqResult f depth tok pos single =>
    simp only [step]
    split
    · rename_i b hb
      split
      · rename_i hd
        split
        · exact stepOK_alloc_push s.arrs _ (FrameA.refl _ _) inv.same_arrs (by
            intro tok' sl' pos' rpos' ho
            cases ho
            exact ⟨⟨Nat.le_refl _, Or.inl rfl⟩, Nat.zero_le _⟩)
        · rename_i hd0
          split
          · obtain ⟨hw, nl⟩ := cell_getD_ok inv b.arr 0
            exact ⟨⟨top, inv.push_flat _ hw nl⟩, StFrame.of_eq rfl rfl, Ext.push _ _⟩
          · split
            · exact StepOK.refl inv
            · exact step_seqResult_ok inv b (List.mem_of_getElem? hb) depth tok _ _ hd hd0
      · exact StepOK.refl inv
    · exact StepOK.refl inv
  | appendNode i j =>
    simp only [step]
    split
    · rename_i h1 h2 hg1 hg2
      exact doAppend_ok grow inv i h1 hg1 (some j) h2 (inv.get_hwf hg2) (fun j' e => by cases e; exact hg2) (fun e => by cases e)
    · exact StepOK.refl inv
  | nlAppend i j =>
    simp only [step]
    split
    · rename_i sl h2 hg1 hg2
      split
      · exact StepOK.refl inv
      · rename_i hne
        have := doAppend_ok grow inv i _ hg1 (some j) h2 (inv.get_hwf hg2) (fun j' e => by cases e; exact hg2) (fun e => by cases e)
        rw [doAppend_list grow s i j sl h2 hne] at this
        exact this
    · exact StepOK.refl inv
  | optionalAppend i pos =>
    simp only [step]
    split
    · rename_i h1 hg1
      exact doAppend_ok grow inv i h1 hg1 none _ trivial (fun j' e => by cases e) (fun _ sl => by simp)
    · exact StepOK.refl inv
  | listElem i k =>
    simp only [step]
    split
    · split
      · obtain ⟨hw, nl⟩ := cell_getD_ok inv _ k
        exact ⟨⟨top, inv.push_flat _ hw nl⟩, StFrame.of_eq rfl rfl, Ext.push _ _⟩
      · exact StepOK.refl inv
    · exact StepOK.refl inv
  | memoStore key i => exact doMemoStore_ok inv key i
  | memoHit key =>
    simp only [step]
    split
    · rename_i kv hf
      exact ⟨inv.push_memo kv (List.mem_of_find?_eq_some hf), StFrame.of_eq rfl rfl, Ext.push _ _⟩
    · exact StepOK.refl inv
  | setReaderPos i d => simp [Op.isTrim] at hop
  | drop i =>
    simp only [step]
    split
    · exact ⟨⟨top, inv.kill i⟩, StFrame.of_eq rfl rfl, Ext.kill _ _⟩
    · exact StepOK.refl inv
  | render i =>
    simp only [step]
    split <;> exact StepOK.refl inv

end PV.Slice
