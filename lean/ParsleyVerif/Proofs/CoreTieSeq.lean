/-
  Stage 4 of the core tie, part 2: the Sequence machinery of combinator/seq.go — the mutually recursive
  `sequence.parse` / `sequence.parseNext` (translated with fuel) vs. the model's `seqParse` / `seqAlts`.

  The translated struct `sequence` is read as: static fields (token, look-up, length check, interpreter, result handler) +
  the model's `SeqSt` (curtailing parsers, result, furthest error) + the node BUFFER `s.nodes`, whose first `depth`
  entries are the model's `nodes` argument (what lies beyond is left over from deeper calls and never read).
  Fuel: one level of the model's `seqParse` is two levels of the translation (parse → parseNext → parse):
  model fuel f ↦ translated fuel 2·f − 1.
-/
import ParsleyVerif.Proofs.CoreTieSeqBasics
import ParsleyVerif.Proofs.RunEqns
namespace PV.CoreTie
open PV.FactsCore

/-- the translated `sequence` struct showing the model's `SeqSt`, with node buffer `buf` -/
def mkS (s0 : sequence) (ss : SeqSt) (buf : List CNode) : sequence :=
  { s0 with curtailingParsers := eSet ss.cp, result := eRes ss.result, err := eErr ss.err, nodes := buf }

/-- the static fields of the translated `sequence` are the model's `SeqShape` -/
structure Static (W : World Context) (cfg : Cfg) (fuel : Nat) (sh : SeqShape) (s0 : sequence) : Prop where
  tok : s0.token = sh.token
  interp : s0.interpreter = eInterp sh.interp
  look : ∀ d : Nat, ∃ h : Parser, (∀ s : Context, s0.parserLookUp (d : Int) s = .ok h s) ∧
    (match sh.lookup d with
      | none => h = .nil
      | some g => h.isNil = false ∧ Agrees W cfg fuel h g)
  len : ∀ (d : Nat) (s : Context), s0.lenCheck (d : Int) s = .ok (sh.lenCheck d) s
  hand : ∃ hd, s0.resultHandler = some hd ∧ ∀ (pos : Nat) (nodes : List PV.Node) (s : Context),
    hd pos sh.token (nodes.map eNode) (eInterp sh.interp) s = .ok (eNode (handleResult sh pos nodes)) s

/-- the simulation statement for one call working on a buffer whose first `depth` entries are `nodes` -/
def SimB (s0 : sequence) (depth : Nat) (nodes : List PV.Node) (x : CRes Context (sequence × Bool))
    (y : Option (Bool × SeqSt × St)) : Prop :=
  match y with
  | none => x = .nofuel
  | some (b, ss', st') => ∃ s' buf', x = .ok (mkS s0 ss' buf', b) s' ∧ StRel s' st' ∧ buf'.take depth = nodes.map eNode

theorem seq_loop (W : World Context) (s0 : sequence) (depth : Nat) (m : IntMap) (pos : Int) (merge : Bool)
    (recP : sequence → Int → IntMap → Int → Bool → CM (sequence × Bool))
    (recN : sequence → Int → CNode → Int → IntMap → Int → Bool → CM (sequence × Bool))
    (K : PV.Node → SeqSt → St → Option (Bool × SeqSt × St)) (nodes : List PV.Node)
    (HK : ∀ n ss buf i s st, buf.take depth = nodes.map eNode → StRel s st →
      SimB s0 depth nodes (recN (mkS s0 ss buf) i (eNode n) depth m pos merge s) (K n ss st)) :
    ∀ (alts : List PV.Node) (ss : SeqSt) (buf : List CNode) (i : Int) (s : Context) (st : St),
      buf.take depth = nodes.map eNode → StRel s st →
      match seqAlts K alts ss st with
      | none => sequence_parse_loop1 W depth m pos merge recP recN (alts.map eNode) (mkS s0 ss buf) i s = .nofuel
      | some (true, ss', st') => ∃ s' buf', sequence_parse_loop1 W depth m pos merge recP recN (alts.map eNode) (mkS s0 ss buf) i s =
          .ok (.ret (mkS s0 ss' buf', true)) s' ∧ StRel s' st' ∧ buf'.take depth = nodes.map eNode
      | some (false, ss', st') => ∃ s' buf' i', sequence_parse_loop1 W depth m pos merge recP recN (alts.map eNode) (mkS s0 ss buf) i s =
          .ok (.done (mkS s0 ss' buf', i')) s' ∧ StRel s' st' ∧ buf'.take depth = nodes.map eNode := by
  intro alts
  induction alts with
  | nil =>
    intro ss buf i s st hb hs
    exact ⟨s, buf, i, by simp [sequence_parse_loop1], hs, hb⟩
  | cons n rest ih =>
    intro ss buf i s st hb hs
    have hk := HK n ss buf i s st hb hs
    simp only [seqAlts]
    cases hK : K n ss st with
    | none =>
      rw [hK] at hk
      simp only [SimB] at hk
      simp [sequence_parse_loop1, hk]
    | some r =>
      obtain ⟨b, ss1, st1⟩ := r
      rw [hK] at hk
      obtain ⟨s1, buf1, e1, r1, hb1⟩ := hk
      cases b with
      | true => exact ⟨s1, buf1, by simp [sequence_parse_loop1, e1], r1, hb1⟩
      | false =>
        dsimp only
        have := ih ss1 buf1 (i + 1) s1 st1 hb1 r1
        have step : ∀ X, sequence_parse_loop1 W depth m pos merge recP recN (rest.map eNode) (mkS s0 ss1 buf1) (i + 1) s1 = X →
            sequence_parse_loop1 W depth m pos merge recP recN ((n :: rest).map eNode) (mkS s0 ss buf) i s = X := by
          intro X hX
          simp [sequence_parse_loop1, e1, hX]
        cases hl : seqAlts K rest ss1 st1 with
        | none => rw [hl] at this; exact step _ this
        | some r' =>
          obtain ⟨b', ss', st'⟩ := r'
          rw [hl] at this
          cases b' with
          | true => obtain ⟨s', buf', e2, r2, hb2⟩ := this; exact ⟨s', buf', step _ e2, r2, hb2⟩
          | false => obtain ⟨s', buf', i', e2, r2, hb2⟩ := this; exact ⟨s', buf', i', step _ e2, r2, hb2⟩

/-- `sequence.parse` at translated fuel `F` simulates `seqParse` at model fuel `f` -/
def PSim (W : World Context) (cfg : Cfg) (fuel : Nat) (sh : SeqShape) (s0 : sequence) (F f : Nat) : Prop :=
  ∀ (depth : Nat) (nodes : List PV.Node) (m : IntMap) (c : Ctx) (pos : Nat) (merge : Bool) (ss : SeqSt) (buf : List CNode)
    (s : Context) (st : St), nodes.length = depth → CtxRel m c → buf.take depth = nodes.map eNode → StRel s st →
    SimB s0 depth nodes (sequence_parse W F (mkS s0 ss buf) depth m pos merge s)
      (seqParse (run cfg fuel) sh f depth nodes c pos merge ss st)

theorem take_succ_of (buf' : List CNode) (nodes : List PV.Node) (n : PV.Node) (depth : Nat) (hlen : nodes.length = depth)
    (h : buf'.take (depth + 1) = (nodes ++ [n]).map eNode) : buf'.take depth = nodes.map eNode := by
  have h1 : buf'.take depth = (buf'.take (depth + 1)).take depth := by
    rw [List.take_take]; congr 1; omega
  rw [h1, h, List.map_append, List.take_append_of_le_length (by simp [hlen]), List.take_of_length_le (by simp [hlen])]

/-- the buffer after `parseNext` stored the node at `depth` -/
theorem buf_store (buf : List CNode) (nodes : List PV.Node) (n : PV.Node) (depth : Nat) (hlen : nodes.length = depth)
    (hb : buf.take depth = nodes.map eNode) :
    depth ≤ buf.length ∧
    (buf.length = depth → (buf ++ [eNode n]).take (depth + 1) = (nodes ++ [n]).map eNode) ∧
    (depth < buf.length → (buf.set depth (eNode n)).take (depth + 1) = (nodes ++ [n]).map eNode) := by
  have hl : depth ≤ buf.length := by
    have := congrArg List.length hb
    simp [hlen] at this
    omega
  refine ⟨hl, ?_, ?_⟩
  · intro he
    have : buf = nodes.map eNode := by rw [← hb, List.take_of_length_le (by omega)]
    subst this
    rw [List.take_of_length_le (by simp; omega)]
    simp
  · intro hlt
    rw [List.take_add_one, List.take_set_of_le (Nat.le_refl depth), hb]
    simp [List.getElem?_set_self hlt]

theorem seq_next (W : World Context) (cfg : Cfg) (fuel : Nat) (sh : SeqShape) (s0 : sequence) (F f : Nat)
    (IH : PSim W cfg fuel sh s0 F f)
    (depth : Nat) (nodes : List PV.Node) (hlen : nodes.length = depth) (m : IntMap) (c : Ctx) (hm : CtxRel m c) (pos : Nat)
    (merge : Bool) (n : PV.Node) (ss : SeqSt) (buf : List CNode) (i : Int) (s : Context) (st : St)
    (hb : buf.take depth = nodes.map eNode) (hs : StRel s st) :
    SimB s0 depth nodes (sequence_parseNext W (F + 1) (mkS s0 ss buf) i (eNode n) depth m pos merge s)
      (seqParse (run cfg fuel) sh f (depth + 1) (nodes ++ [n]) (if n.rpos > pos then [] else c) n.rpos
        (merge && !(decide (n.rpos > pos))) ss st) := by
  obtain ⟨hl, happ, hset⟩ := buf_store buf nodes n depth hlen hb
  have hd1 : ((depth + 1 : Nat) : Int) = (depth : Int) + 1 := by omega
  have hlen1 : (nodes ++ [n]).length = depth + 1 := by simp [hlen]
  have hmc : CtxRel (if n.rpos > pos then CorePrelude.Data.EmptyIntMap else m) (if n.rpos > pos then [] else c) := by
    split
    · exact CtxRel.nil
    · exact hm
  -- for either way of storing the node: the recursive call on the new buffer, then the answer is handed on
  have fin : ∀ buf1 : List CNode, buf1.take (depth + 1) = (nodes ++ [n]).map eNode →
      (∀ X, sequence_parse W F (mkS s0 ss buf1) ((depth : Int) + 1)
            (if n.rpos > pos then CorePrelude.Data.EmptyIntMap else m) n.rpos (merge && !(decide (n.rpos > pos))) s = X →
          sequence_parseNext W (F + 1) (mkS s0 ss buf) i (eNode n) depth m pos merge s =
            (match X with
              | .ok a s' => .ok a s'
              | .panic => .panic
              | .nofuel => .nofuel)) →
      SimB s0 depth nodes (sequence_parseNext W (F + 1) (mkS s0 ss buf) i (eNode n) depth m pos merge s)
        (seqParse (run cfg fuel) sh f (depth + 1) (nodes ++ [n]) (if n.rpos > pos then [] else c) n.rpos
          (merge && !(decide (n.rpos > pos))) ss st) := by
    intro buf1 hb1 hcall
    have ih := IH (depth + 1) (nodes ++ [n]) _ _ n.rpos (merge && !(decide (n.rpos > pos))) ss buf1 s st hlen1 hmc hb1 hs
    rw [hd1] at ih
    cases hr : seqParse (run cfg fuel) sh f (depth + 1) (nodes ++ [n]) (if n.rpos > pos then [] else c) n.rpos
        (merge && !(decide (n.rpos > pos))) ss st with
    | none => rw [hr] at ih; simp only [SimB] at ih ⊢; rw [hcall _ ih]
    | some r =>
      obtain ⟨b, ss', st'⟩ := r
      rw [hr] at ih
      obtain ⟨s', buf', e1, r1, hb'⟩ := ih
      exact ⟨s', buf', by rw [hcall _ e1], r1, take_succ_of buf' nodes n depth hlen hb'⟩
  by_cases he : buf.length = depth
  · refine fin (buf ++ [eNode n]) (happ he) (fun X hX => ?_)
    have h1 : decide (CorePrelude.Go.len (mkS s0 ss buf).nodes < (depth : Int) + 1) = true := by
      show decide (((buf.length : Nat) : Int) < (depth : Int) + 1) = true
      exact decide_eq_true (by omega)
    rw [sequence_parseNext]
    simp only [h1]
    simp only [mkS] at hX
    by_cases hgt : n.rpos > pos
    · have : (n.rpos : Int) > pos := by omega
      simp only [hgt, if_true, decide_true, Bool.not_true, Bool.and_false] at hX
      cases X with
      | ok a s' => obtain ⟨x, b⟩ := a; cases b <;> core_simp [mkS, CorePrelude.Go.append, hgt, sequence_parseNext_k1, hX]
      | panic => core_simp [mkS, CorePrelude.Go.append, hgt, sequence_parseNext_k1, hX]
      | nofuel => core_simp [mkS, CorePrelude.Go.append, hgt, sequence_parseNext_k1, hX]
    · have : ¬ (n.rpos : Int) > pos := by omega
      simp only [hgt, if_false, decide_false, Bool.not_false, Bool.and_true] at hX
      cases X with
      | ok a s' => obtain ⟨x, b⟩ := a; cases b <;> core_simp [mkS, CorePrelude.Go.append, hgt, sequence_parseNext_k1, hX]
      | panic => core_simp [mkS, CorePrelude.Go.append, hgt, sequence_parseNext_k1, hX]
      | nofuel => core_simp [mkS, CorePrelude.Go.append, hgt, sequence_parseNext_k1, hX]
  · have hlt : depth < buf.length := by omega
    refine fin (buf.set depth (eNode n)) (hset hlt) (fun X hX => ?_)
    have h1 : decide (CorePrelude.Go.len (mkS s0 ss buf).nodes < (depth : Int) + 1) = false := by
      show decide (((buf.length : Nat) : Int) < (depth : Int) + 1) = false
      exact decide_eq_false (by omega)
    rw [sequence_parseNext]
    simp only [h1]
    simp only [mkS] at hX
    by_cases hgt : n.rpos > pos
    · have : (n.rpos : Int) > pos := by omega
      simp only [hgt, if_true, decide_true, Bool.not_true, Bool.and_false] at hX
      cases X with
      | ok a s' => obtain ⟨x, b⟩ := a; cases b <;> core_simp [mkS, CorePrelude.Go.setNth, hgt, hlt, sequence_parseNext_k1, hX]
      | panic => core_simp [mkS, CorePrelude.Go.setNth, hgt, hlt, sequence_parseNext_k1, hX]
      | nofuel => core_simp [mkS, CorePrelude.Go.setNth, hgt, hlt, sequence_parseNext_k1, hX]
    · have : ¬ (n.rpos : Int) > pos := by omega
      simp only [hgt, if_false, decide_false, Bool.not_false, Bool.and_true] at hX
      cases X with
      | ok a s' => obtain ⟨x, b⟩ := a; cases b <;> core_simp [mkS, CorePrelude.Go.setNth, hgt, hlt, sequence_parseNext_k1, hX]
      | panic => core_simp [mkS, CorePrelude.Go.setNth, hgt, hlt, sequence_parseNext_k1, hX]
      | nofuel => core_simp [mkS, CorePrelude.Go.setNth, hgt, hlt, sequence_parseNext_k1, hX]

/-- the part of the translated `sequence.parse` after the operand was called and `s.err` / `s.curtailingParsers` were
    updated: the generated continuation function `sequence_parse_k1`, with the recursion tied at fuel `F` -/
def seqTail (W : World Context) (F : Nat) (depth : Int) (m : IntMap) (pos : Int) (merge : Bool) (s : sequence) (res : CNode) :
    CM (sequence × Bool) :=
  sequence_parse_k1 W s depth m pos merge res (sequence_parse W F) (sequence_parseNext W F)

/-- what `seqParse` does after the operand answered `res` and `ss` was updated -/
def seqTailM (cfg : Cfg) (fuel : Nat) (sh : SeqShape) (f depth : Nat) (nodes : List PV.Node) (c : Ctx) (pos : Nat) (merge : Bool)
    (res : PV.Res) (ss : SeqSt) (st : St) : Option (Bool × SeqSt × St) :=
  match res with
  | .nil =>
    if sh.lenCheck depth then
      if depth > 0 then
        some ((match nodes.getLast? with | some l => l.token == eofTok | none => false),
              { ss with result := appendNode ss.result (.one (handleResult sh pos nodes)) }, st)
      else
        some (false, { ss with result := appendNode ss.result (.one (handleResult sh pos [])) }, st)
    else some (false, ss, st)
  | res =>
    seqAlts (fun n ss st =>
        seqParse (run cfg fuel) sh f (depth + 1) (nodes ++ [n]) (if n.rpos > pos then [] else c) n.rpos
          (merge && !(decide (n.rpos > pos))) ss st)
      res.alts ss st

theorem seq_tail_sim (W : World Context) (cfg : Cfg) (fuel : Nat) (sh : SeqShape) (s0 : sequence)
    (S : Static W cfg fuel sh s0) (F f : Nat) (depth : Nat) (nodes : List PV.Node) (hlen : nodes.length = depth)
    (m : IntMap) (c : Ctx) (pos : Nat) (merge : Bool)
    (HK : ∀ n ss buf i s st, buf.take depth = nodes.map eNode → StRel s st →
      SimB s0 depth nodes (sequence_parseNext W F (mkS s0 ss buf) i (eNode n) depth m pos merge s)
        (seqParse (run cfg fuel) sh f (depth + 1) (nodes ++ [n]) (if n.rpos > pos then [] else c) n.rpos
          (merge && !(decide (n.rpos > pos))) ss st))
    (res : PV.Res) (ss : SeqSt) (buf : List CNode) (hb : buf.take depth = nodes.map eNode) (s : Context) (st : St)
    (hs : StRel s st) :
    SimB s0 depth nodes (seqTail W F depth m pos merge (mkS s0 ss buf) (eRes res) s)
      (seqTailM cfg fuel sh f depth nodes c pos merge res ss st) := by
  obtain ⟨hd, hhd, hhand⟩ := S.hand
  have hbl : depth ≤ buf.length := by
    have := congrArg List.length hb
    simp [hlen] at this
    omega
  cases res with
  | nil =>
    have hlc := S.len depth s
    have htok := S.tok
    have hint := S.interp
    unfold seqTailM
    cases hl : sh.lenCheck depth
    · exact ⟨s, buf, by simp [seqTail, sequence_parse_k1, mkS, hlc, hl], hs, hb⟩
    · by_cases hd0 : depth > 0
      · -- the last node
        obtain ⟨last, hlast⟩ : ∃ last, nodes.getLast? = some last := by
          cases hn : nodes.getLast? with
          | some l => exact ⟨l, rfl⟩
          | none => have := List.getLast?_eq_none_iff.mp hn; subst this; simp at hlen; omega
        have hidx : buf[depth - 1]? = some (eNode last) := by
          have h1 : (buf.take depth)[depth - 1]? = buf[depth - 1]? := by
            rw [List.getElem?_take]; simp; omega
          rw [← h1, hb, List.getElem?_map]
          have : nodes[depth - 1]? = nodes.getLast? := by rw [List.getLast?_eq_getElem?, hlen]
          rw [this, hlast]; rfl
        have hnth : ∀ x : Context, (CorePrelude.Go.nth buf ((depth : Int) - 1) : CM CNode) x = .ok (eNode last) x := by
          intro x
          have : ((depth : Int) - 1) = ((depth - 1 : Nat) : Int) := by omega
          rw [this]; exact nth_ok buf _ _ hidx x
        have hsl := slice_take buf depth hbl s
        rw [hb] at hsl
        have hh := hhand pos nodes s
        have happ := tie_AppendNode W ss.result (.one (handleResult sh pos nodes)) s
        simp only [eRes_one] at happ
        have hd0' : decide ((depth : Int) > 0) = true := decide_eq_true (by omega)
        simp only [hl, hd0, if_true, hlast]
        refine ⟨s, buf, ?_, hs, hb⟩
        have heof : decide (last.token = CorePrelude.Go.str "EOF") = (last.token == eofTok) := by
          rw [eofTok_str]; by_cases h : last.token = eofTok <;> simp [h]
        -- (the tests on `depth` are decided by omega from `hd0`, whichever way round the source writes them)
        cases hE : (last.token == eofTok) <;>
          core_simp [seqTail, sequence_parse_k1, mkS, hlc, hl, hsl, hhd, htok, hint, hh, happ, hnth, heof, hE]
      · have hd0' : depth = 0 := by omega
        subst hd0'
        have hn : nodes = [] := List.length_eq_zero_iff.mp hlen
        subst hn
        have hh := hhand pos [] s
        have happ := tie_AppendNode W ss.result (.one (handleResult sh pos [])) s
        simp only [eRes_one] at happ
        simp only [hl, if_true]
        refine ⟨s, buf, ?_, hs, hb⟩
        simp only [List.map_nil] at hh
        simp only [Int.natCast_zero] at hlc ⊢
        simp [seqTail, sequence_parse_k1, mkS, hlc, hl, hhd, htok, hint, hh, happ]
  | one n =>
    unfold seqTailM
    have hk := HK n ss buf 0 s st hb hs
    simp only [PV.Res.alts, seqAlts]
    have hnl : (CorePrelude.Node.asNodeList (eNode n)).2 = false := by simp
    cases hK : seqParse (run cfg fuel) sh f (depth + 1) (nodes ++ [n]) (if n.rpos > pos then [] else c) n.rpos
        (merge && !(decide (n.rpos > pos))) ss st with
    | none =>
      rw [hK] at hk
      simp only [SimB] at hk ⊢
      simp [seqTail, sequence_parse_k1, hk]
    | some r =>
      obtain ⟨b, ss', st'⟩ := r
      rw [hK] at hk
      obtain ⟨s', buf', e1, r1, hb'⟩ := hk
      cases b with
      | true => exact ⟨s', buf', by simp [seqTail, sequence_parse_k1, e1], r1, hb'⟩
      | false => exact ⟨s', buf', by simp [seqTail, sequence_parse_k1, e1], r1, hb'⟩
  | list l =>
    unfold seqTailM
    have hloop := seq_loop W s0 depth m pos merge (sequence_parse W F) (sequence_parseNext W F) _ nodes HK l ss buf 0 s st hb hs
    simp only [PV.Res.alts]
    cases hL : seqAlts (fun n ss st =>
        seqParse (run cfg fuel) sh f (depth + 1) (nodes ++ [n]) (if n.rpos > pos then [] else c) n.rpos
          (merge && !(decide (n.rpos > pos))) ss st) l ss st with
    | none =>
      rw [hL] at hloop
      simp only [SimB]
      simp [seqTail, sequence_parse_k1, hloop]
    | some r =>
      obtain ⟨b, ss', st'⟩ := r
      rw [hL] at hloop
      cases b with
      | true =>
        obtain ⟨s', buf', e1, r1, hb'⟩ := hloop
        exact ⟨s', buf', by simp [seqTail, sequence_parse_k1, e1], r1, hb'⟩
      | false =>
        obtain ⟨s', buf', i', e1, r1, hb'⟩ := hloop
        exact ⟨s', buf', by simp [seqTail, sequence_parse_k1, e1], r1, hb'⟩

/-- the model's `SeqSt` after the operand answered `o` -/
def ssStep (merge : Bool) (ss : SeqSt) (o : Out) : SeqSt :=
  let ss := { ss with err := pickErr ss.err o.err }
  if merge then { ss with cp := cpUnion ss.cp o.cp } else ss

theorem seqParse_eq (cfg : Cfg) (fuel : Nat) (sh : SeqShape) (f depth : Nat) (nodes : List PV.Node) (c : Ctx) (pos : Nat)
    (merge : Bool) (ss : SeqSt) (st : St) :
    seqParse (run cfg fuel) sh (f + 1) depth nodes c pos merge ss st =
      match (match sh.lookup depth with
          | some g => run cfg fuel g c pos st.regCall
          | none => some (⟨.nil, [], none⟩, st)) with
      | none => none
      | some (o, st1) => seqTailM cfg fuel sh f depth nodes c pos merge o.res (ssStep merge ss o) st1 := by
  rw [seqParse]
  cases sh.lookup depth with
  | none => cases merge <;> simp [seqTailM, ssStep] <;> (cases nodes.getLast? <;> rfl)
  | some g =>
    simp only
    cases run cfg fuel g c pos st.regCall with
    | none => rfl
    | some r =>
      obtain ⟨o, st1⟩ := r
      obtain ⟨res, cp, err⟩ := o
      cases res <;> cases merge <;> simp [seqTailM, ssStep]
      all_goals (cases nodes.getLast? <;> rfl)

theorem cpUnion_nil_right' (a : List Nat) : cpUnion a [] = a := by cases a <;> simp [cpUnion]

theorem union_nil_right (a : IntSet) : CorePrelude.Data.IntSet_Union a [] = a := by
  cases a <;> simp [CorePrelude.Data.IntSet_Union]

/-- the operand call and the two updates of `sequence.parse`, evaluated -/
theorem seq_prefix_some (W : World Context) (s0 : sequence) (F : Nat) (depth : Int) (m : IntMap) (pos : Int) (merge : Bool)
    (ss : SeqSt) (buf : List CNode) (h : Parser) (hnn : h.isNil = false) (s s1' s1 : Context) (o : Out)
    (hlook : s0.parserLookUp depth s = .ok h s)
    (e1 : Context_RegisterCall W s = .ok () s1') (e2 : W.parse h m pos s1' = .ok (eOut o) s1) :
    sequence_parse W (F + 1) (mkS s0 ss buf) depth m pos merge s =
      seqTail W F depth m pos merge (mkS s0 (ssStep merge ss o) buf) (eRes o.res) s1 := by
  rw [sequence_parse]
  simp only [seqTail]
  obtain ⟨res, cp, err⟩ := o
  have hlook' : (mkS s0 ss buf).parserLookUp depth s = .ok h s := hlook
  simp only [bind_apply, hlook', hnn, Bool.not_false, if_true, e1, e2, eOut, ite_apply]
  cases merge <;> cases err with
  | none => simp [mkS, ssStep, pickErr, eSet_union]
  | some e =>
    cases hse : ss.err with
    | none => simp [mkS, ssStep, pickErr, hse, eSet_union]
    | some ce =>
      by_cases hge : e.pos ≥ ce.pos
      · core_simp [mkS, ssStep, pickErr, hse, hge, eSet_union]
      · core_simp [mkS, ssStep, pickErr, hse, hge, eSet_union]

theorem seq_prefix_none (W : World Context) (s0 : sequence) (F : Nat) (depth : Int) (m : IntMap) (pos : Int) (merge : Bool)
    (ss : SeqSt) (buf : List CNode) (s : Context)
    (hlook : s0.parserLookUp depth s = .ok .nil s) :
    sequence_parse W (F + 1) (mkS s0 ss buf) depth m pos merge s =
      seqTail W F depth m pos merge (mkS s0 (ssStep merge ss ⟨.nil, [], none⟩) buf) (eRes .nil) s := by
  rw [sequence_parse]
  simp only [seqTail]
  have hlook' : (mkS s0 ss buf).parserLookUp depth s = .ok .nil s := hlook
  simp only [bind_apply, hlook', CorePrelude.Parser.isNil, Bool.not_true, Bool.false_eq_true, if_false, pure_apply, ite_apply]
  cases merge <;> simp [mkS, ssStep, pickErr, cpUnion_nil_right', union_nil_right]

theorem seq_prefix_nofuel (W : World Context) (s0 : sequence) (F : Nat) (depth : Int) (m : IntMap) (pos : Int) (merge : Bool)
    (ss : SeqSt) (buf : List CNode) (h : Parser) (hnn : h.isNil = false) (s s1' : Context)
    (hlook : s0.parserLookUp depth s = .ok h s)
    (e1 : Context_RegisterCall W s = .ok () s1') (e2 : W.parse h m pos s1' = .nofuel) :
    sequence_parse W (F + 1) (mkS s0 ss buf) depth m pos merge s = .nofuel := by
  rw [sequence_parse]
  simp only [seqTail]
  have hlook' : (mkS s0 ss buf).parserLookUp depth s = .ok h s := hlook
  simp only [bind_apply, hlook', hnn, Bool.not_false, if_true, e1, e2]

/-- **`sequence.parse`**, translated with fuel 2·f − 1, simulates the model's `seqParse` with fuel f -/
theorem seq_parse_sim (W : World Context) (cfg : Cfg) (fuel : Nat) (sh : SeqShape) (s0 : sequence)
    (S : Static W cfg fuel sh s0) : ∀ f, PSim W cfg fuel sh s0 (2 * f - 1) f
  | 0 => by
    intro depth nodes m c pos merge ss buf s st _ _ _ _
    simp [sequence_parse, seqParse, SimB]
  | f + 1 => by
    have IH := seq_parse_sim W cfg fuel sh s0 S f
    intro depth nodes m c pos merge ss buf s st hlen hm hb hs
    have e2 : 2 * (f + 1) - 1 = 2 * f + 1 := by omega
    rw [e2, seqParse_eq]
    have HK : ∀ n ss buf i s st, buf.take depth = nodes.map eNode → StRel s st →
        SimB s0 depth nodes (sequence_parseNext W (2 * f) (mkS s0 ss buf) i (eNode n) depth m pos merge s)
          (seqParse (run cfg fuel) sh f (depth + 1) (nodes ++ [n]) (if n.rpos > pos then [] else c) n.rpos
            (merge && !(decide (n.rpos > pos))) ss st) := by
      intro n ss buf i s st hb hs
      cases f with
      | zero => simp [sequence_parseNext, seqParse, SimB]
      | succ f' =>
        have : 2 * (f' + 1) = (2 * (f' + 1) - 1) + 1 := by omega
        rw [this]
        exact seq_next W cfg fuel sh s0 _ _ IH depth nodes hlen m c hm pos merge n ss buf i s st hb hs
    obtain ⟨h, hlook, hspec⟩ := S.look depth
    cases hlk : sh.lookup depth with
    | none =>
      rw [hlk] at hspec
      subst hspec
      dsimp only
      rw [seq_prefix_none W s0 (2 * f) depth m pos merge ss buf s (hlook s)]
      exact seq_tail_sim W cfg fuel sh s0 S (2 * f) f depth nodes hlen m c pos merge HK .nil _ buf hb s st hs
    | some g =>
      rw [hlk] at hspec
      obtain ⟨hnn, hag⟩ := hspec
      obtain ⟨s1', e1, r1'⟩ := tie_RegisterCall W s st hs
      have hp := hag m c pos s1' st.regCall hm r1'
      dsimp only
      cases hr : run cfg fuel g c pos st.regCall with
      | none =>
        rw [hr] at hp
        simp only [SimB]
        exact seq_prefix_nofuel W s0 (2 * f) depth m pos merge ss buf h hnn s s1' (hlook s) e1 (corr_none hp)
      | some r =>
        obtain ⟨o, st1⟩ := r
        rw [hr] at hp
        obtain ⟨s1, e2', r1⟩ := corr_some hp
        dsimp only
        rw [seq_prefix_some W s0 (2 * f) depth m pos merge ss buf h hnn s s1' s1 o (hlook s) e1 e2']
        exact seq_tail_sim W cfg fuel sh s0 S (2 * f) f depth nodes hlen m c pos merge HK o.res _ buf hb s1 st1 r1

end PV.CoreTie
