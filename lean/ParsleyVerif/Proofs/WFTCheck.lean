/-
  C02 (extended certificate): from the decidable check `wfT rx cert env root = true` to the hypotheses of the
  descent (`EnvT`, `GWFT`).  No scope condition on the grammar is left: every combinator, every terminal.
-/
import ParsleyVerif.Proofs.WFTHalts
namespace PV.WFT
open PV PV.Text

mutual
theorem wfLocalT_all (rx : Nat → Bool) (c : WFCert) : ∀ g : G, wfLocalT rx c g = true → g.All (LocalT rx c)
  | .term _, _ => by simp only [G.All, LocalT]
  | .empty, _ => by simp only [G.All, LocalT]
  | .eof, _ => by simp only [G.All, LocalT]
  | .ref _, _ => by simp only [G.All, LocalT]
  | .memo i g, hw => by
    simp only [wfLocalT, Bool.and_eq_true, Bool.or_eq_true, Bool.not_eq_true', List.contains_eq_mem,
      decide_eq_true_eq] at hw
    simp only [G.All, LocalT]
    refine ⟨⟨hw.1.1, fun hm => ?_⟩, wfLocalT_all rx c g hw.2⟩
    cases hw.1.2 with
    | inl h => rw [h] at hm; cases hm
    | inr h => exact h
  | .any gs, hw => by
    simp only [wfLocalT] at hw
    simp only [G.All, LocalT]; exact ⟨trivial, wfLocalListT_all rx c gs hw⟩
  | .choice gs, hw => by
    simp only [wfLocalT] at hw
    simp only [G.All, LocalT]; exact ⟨trivial, wfLocalListT_all rx c gs hw⟩
  | .seq _ gs _, hw => by
    simp only [wfLocalT] at hw
    simp only [G.All, LocalT]; exact ⟨trivial, wfLocalListT_all rx c gs hw⟩
  | .many g _ _, hw => by
    simp only [wfLocalT, Bool.and_eq_true, Bool.not_eq_true'] at hw
    simp only [G.All, LocalT]; exact ⟨hw.1, wfLocalT_all rx c g hw.2⟩
  | .sepBy v s _ _, hw => by
    simp only [wfLocalT, Bool.and_eq_true, Bool.not_eq_true', Bool.and_eq_false_iff] at hw
    simp only [G.All, LocalT]
    refine ⟨fun hvs => ?_, wfLocalT_all rx c v hw.1.2, wfLocalT_all rx c s hw.2⟩
    cases hw.1.1 with
    | inl h => rw [h] at hvs; cases hvs.1
    | inr h => rw [h] at hvs; cases hvs.2
  | .optional g, hw => by
    simp only [wfLocalT] at hw
    simp only [G.All, LocalT]; exact ⟨trivial, wfLocalT_all rx c g hw⟩
  | .name g _, hw => by
    simp only [wfLocalT] at hw
    simp only [G.All, LocalT]; exact ⟨trivial, wfLocalT_all rx c g hw⟩
  | .single g, hw => by
    simp only [wfLocalT] at hw
    simp only [G.All, LocalT]; exact ⟨trivial, wfLocalT_all rx c g hw⟩
  | .suppress g, hw => by
    simp only [wfLocalT] at hw
    simp only [G.All, LocalT]; exact ⟨trivial, wfLocalT_all rx c g hw⟩
  | .ltrim g _, hw => by
    simp only [wfLocalT] at hw
    simp only [G.All, LocalT]; exact ⟨trivial, wfLocalT_all rx c g hw⟩
  | .rtrim g _, hw => by
    simp only [wfLocalT] at hw
    simp only [G.All, LocalT]; exact ⟨trivial, wfLocalT_all rx c g hw⟩
theorem wfLocalListT_all (rx : Nat → Bool) (c : WFCert) : ∀ gs : List G, wfLocalListT rx c gs = true →
    AllList (LocalT rx c) gs
  | [], _ => by simp only [AllList]
  | g :: gs, hw => by
    simp only [wfLocalListT, Bool.and_eq_true] at hw
    simp only [AllList]; exact ⟨wfLocalT_all rx c g hw.1, wfLocalListT_all rx c gs hw.2⟩
end

/-- what the check says about rule `k` -/
theorem wfT_rule (rx : Nat → Bool) (c : WFCert) (env : List G) (root : G) (h : wfT rx c env root = true) (k : Nat) (g : G)
    (hk : env[k]? = some g) : wfRuleT rx c k g = true := by
  simp only [wfT, Bool.and_eq_true, List.all_eq_true, List.mem_range] at h
  have := h.2 k (List.getElem?_eq_some_iff.mp hk).1
  simpa [hk] using this

theorem EnvT_of_wfT (rx : Nat → Bool) (c : WFCert) (cfg : Cfg) (g : G) (hwf : wfT rx c cfg.env g = true)
    (hb : cfg.maxCalls = 0) (hrx : RxSound rx cfg.params) : EnvT rx c cfg ∧ GWFT rx c g := by
  have hroot : wfLocalT rx c g = true := by
    simp only [wfT, Bool.and_eq_true] at hwf; exact hwf.1
  have hrule : ∀ k g', cfg.env[k]? = some g' →
      (wfLocalT rx c g' = true ∧ (mayBeEmptyT rx c g' = false ∨ c.nullable k = true)) ∧
        ∀ k' ∈ leftRefsT rx c g', c.rank k' < c.rank k := by
    intro k g' hk
    have := wfT_rule rx c cfg.env g hwf k g' hk
    simpa [wfRuleT] using this
  refine ⟨⟨hb, hrx, ?_, ?_, ?_⟩, wfLocalT_all rx c g hroot⟩
  · intro g' hg'
    obtain ⟨k, hk, hkg⟩ := List.getElem_of_mem hg'
    have hk' : cfg.env[k]? = some g' := by rw [List.getElem?_eq_getElem hk, hkg]
    exact wfLocalT_all rx c g' (hrule k g' hk').1.1
  · intro k g' hk hm
    cases (hrule k g' hk).1.2 with
    | inl h => rw [h] at hm; cases hm
    | inr h => exact h
  · intro k g' hk
    exact (hrule k g' hk).2

/-- the fresh context is a state a parse can be in -/
theorem GoodT_initial (c : WFCert) (cfg : Cfg) : GoodT c cfg [] (cfg.file.pos 0) {} := by
  refine ⟨⟨by simp [File.pos], by simp [File.pos]⟩, ⟨(by intro a ha; cases ha), (by intro k; simp [actCount, Ctx.get])⟩,
    ⟨(by intro i p d hm; cases hm), (by intro e he; cases he)⟩⟩

end PV.WFT
