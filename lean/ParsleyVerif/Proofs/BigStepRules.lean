/-
  What the big-step semantics says about the trees of a Sequence-family parser (the longest-path rule,
  made visible), and its link to the monotone reading `Derives`: every exact result is a derivation.
-/
import ParsleyVerif.Spec.BigStep
import ParsleyVerif.Spec.Derives
import ParsleyVerif.Proofs.RunBasics
import ParsleyVerif.Proofs.RunSound
namespace PV
open PV.Text

namespace Big

/-- `ext` is a chain of results of the elements `d, d+1, …` of the sequence, each an alternative of the
    EXACT result of its element at the position where the previous one ended -/
def Chain (cfg : Cfg) (sh : SeqShape) : Nat → Nat → List Node → Prop
  | _, _, [] => True
  | d, p, n :: rest => (∃ g R e, sh.lookup d = some g ∧ Big cfg g p R e ∧ n ∈ R.alts) ∧ Chain cfg sh (d + 1) n.rpos rest

/-- a chain of length `d` that ends at `p` cannot be extended: there is no element `d`, or it yields nothing -/
def Blocked (cfg : Cfg) (sh : SeqShape) (d p : Nat) : Prop :=
  sh.lookup d = none ∨ ∃ g e, sh.lookup d = some g ∧ Big cfg g p .nil e

/-- `x` is the tree of a chain that extends `nodes`, has an accepted length and cannot be extended -/
def Maximal (cfg : Cfg) (sh : SeqShape) (depth : Nat) (nodes : List Node) (pos : Nat) (x : Node) : Prop :=
  ∃ ext, x = handleResult sh (endOf pos ext) (nodes ++ ext) ∧ Chain cfg sh depth pos ext ∧
    sh.lenCheck (depth + ext.length) = true ∧ Blocked cfg sh (depth + ext.length) (endOf pos ext)

theorem Maximal.cons {cfg : Cfg} {sh : SeqShape} {depth : Nat} {nodes : List Node} {pos : Nat} {x n : Node}
    {g : G} {R : Res} {e : Bool} (hl : sh.lookup depth = some g) (hb : Big cfg g pos R e) (hn : n ∈ R.alts)
    (h : Maximal cfg sh (depth + 1) (nodes ++ [n]) n.rpos x) : Maximal cfg sh depth nodes pos x := by
  obtain ⟨ext, hx, hch, hlc, hbl⟩ := h
  refine ⟨n :: ext, ?_, ⟨⟨g, R, e, hl, hb, hn⟩, hch⟩, ?_, ?_⟩
  · rw [endOf_cons, hx]; simp
  · rw [List.length_cons]; rw [← hlc]; congr 1; omega
  · rw [List.length_cons, endOf_cons]
    have : depth + (ext.length + 1) = depth + 1 + ext.length := by omega
    rw [this]; exact hbl

theorem mem_ite_singleton {b : Bool} {x y : Node} (h : x ∈ (if b = true then [y] else [])) : b = true ∧ x = y := by
  cases b with
  | true => simpa using h
  | false => simp at h

mutual
theorem seq_emitted {cfg : Cfg} : ∀ {sh : SeqShape} {depth : Nat} {nodes : List Node} {pos : Nat} {em : List Node}
    {stop e : Bool}, BigSeq cfg sh depth nodes pos em stop e → ∀ x ∈ em, Maximal cfg sh depth nodes pos x
  | _, _, _, _, _, _, _, .last hl, x, hx => by
    obtain ⟨hlc, rfl⟩ := mem_ite_singleton hx
    exact ⟨[], by simp [endOf], trivial, by simpa using hlc, .inl (by simpa using hl)⟩
  | _, _, _, _, _, _, _, .fail hl hb, x, hx => by
    obtain ⟨hlc, rfl⟩ := mem_ite_singleton hx
    exact ⟨[], by simp [endOf], trivial, by simpa using hlc, .inr ⟨_, _, by simpa using hl, by simpa [endOf] using hb⟩⟩
  | _, _, _, _, _, _, _, .step hl hb _ ha, x, hx => alts_emitted ha hl hb (fun _ h => h) x hx
termination_by structural _ _ _ _ _ _ _ h => h

theorem alts_emitted {cfg : Cfg} : ∀ {sh : SeqShape} {depth : Nat} {nodes alts : List Node} {em : List Node}
    {stop e : Bool}, BigAlts cfg sh depth nodes alts em stop e →
    ∀ {pos : Nat} {g : G} {R : Res} {e' : Bool}, sh.lookup depth = some g → Big cfg g pos R e' →
      (∀ n ∈ alts, n ∈ R.alts) → ∀ x ∈ em, Maximal cfg sh depth nodes pos x
  | _, _, _, _, _, _, _, .nil, _, _, _, _, _, _, _, x, hx => by cases hx
  | _, _, _, _, _, _, _, .stop h, _, _, _, _, hl, hb, hsub, x, hx =>
    Maximal.cons hl hb (hsub _ (List.mem_cons_self ..)) (seq_emitted h x hx)
  | _, _, _, _, _, _, _, .next h ht, _, _, _, _, hl, hb, hsub, x, hx => by
    cases List.mem_append.mp hx with
    | inl h1 => exact Maximal.cons hl hb (hsub _ (List.mem_cons_self ..)) (seq_emitted h x h1)
    | inr h1 => exact alts_emitted ht hl hb (fun n hn => hsub n (List.mem_cons_of_mem _ hn)) x h1
termination_by structural _ _ _ _ _ _ _ h => h
end

theorem mem_foldEmit (em : List Node) : ∀ (acc : Res) (x : Node), x ∈ (foldEmit acc em).alts → x ∈ acc.alts ∨ x ∈ em := by
  induction em with
  | nil => intro acc x h; exact .inl h
  | cons y em ih =>
    intro acc x h
    simp only [foldEmit, List.foldl_cons] at h
    cases ih _ _ h with
    | inl h1 =>
      cases mem_appendNode _ _ _ h1 with
      | inl h2 => exact .inl h2
      | inr h2 =>
        simp only [Res.alts, List.mem_singleton] at h2
        exact .inr (h2 ▸ List.mem_cons_self ..)
    | inr h1 => exact .inr (List.mem_cons_of_mem _ h1)

/-- **the longest-path rule**: every tree a Sequence-family parser returns is the tree of a chain of exact
    element results whose length `lenCheck` accepts and which cannot be extended -/
theorem seqfam_maximal {cfg : Cfg} {g : G} {sh : SeqShape} {pos : Nat} {R : Res} {e : Bool}
    (h : Big cfg g pos R e) (hs : g.shape = some sh) :
    ∀ x ∈ R.alts, ∃ chain, x = handleResult sh (endOf pos chain) chain ∧ Chain cfg sh 0 pos chain ∧
      sh.lenCheck chain.length = true ∧ Blocked cfg sh chain.length (endOf pos chain) := by
  intro x hx
  cases h with
  | seqfam hs' hb hR _ =>
    rw [hs] at hs'; cases hs'
    subst hR
    cases mem_foldEmit _ _ _ hx with
    | inl h1 => cases h1
    | inr h1 =>
      obtain ⟨ext, h1, h2, h3, h4⟩ := seq_emitted hb x h1
      exact ⟨ext, by simpa using h1, h2, by simpa using h3, by simpa using h4⟩
  | _ => simp [G.shape] at hs

/-! ### exact results are derivations -/

theorem mem_unwrapSingle {R : Res} {x : Node} (h : x ∈ (unwrapSingle R).alts) :
    x ∈ R.alts ∨ ∃ tk p r i, R = .one (.nt tk [x] p r i) := by
  unfold unwrapSingle at h
  split at h
  · simp only [Res.alts, List.mem_singleton] at h
    subst h
    exact .inr ⟨_, _, _, _, rfl⟩
  · exact .inl h

/-- what the enumeration emits from a derived prefix are trees of full derivations -/
def DerTree (cfg : Cfg) (sh : SeqShape) (pos0 : Nat) (x : Node) : Prop :=
  ∃ chain, x = handleResult sh pos0 chain ∧ DerivesSeq cfg sh 0 pos0 chain ∧ sh.lenCheck chain.length = true

theorem derTree_emit {cfg : Cfg} {sh : SeqShape} {pos0 pos depth : Nat} {nodes : List Node}
    (hd : DerivesSeq cfg sh 0 pos0 nodes) (he : endOf pos0 nodes = pos) (hdep : depth = nodes.length)
    (hlc : sh.lenCheck depth = true) : DerTree cfg sh pos0 (handleResult sh pos nodes) := by
  refine ⟨nodes, ?_, hd, by rw [← hdep]; exact hlc⟩
  cases hnn : nodes with
  | nil => rw [hnn] at he; simp only [endOf_nil] at he; rw [he]
  | cons a b => exact handleResult_pos_irrel sh _ _ _ (by simp)

mutual
theorem big_derives {cfg : Cfg} : ∀ {g : G} {pos : Nat} {R : Res} {e : Bool}, Big cfg g pos R e →
    ∀ x ∈ R.alts, Derives cfg g pos x
  | _, _, _, _, .termOk h, x, hx => by
    simp only [Res.alts, List.mem_singleton] at hx
    subst hx; exact .term h
  | _, _, _, _, .termFail _, x, hx => by cases hx
  | _, _, _, _, .empty, x, hx => by
    simp only [Res.alts, List.mem_singleton] at hx
    subst hx; exact .empty
  | _, _, _, _, .eofOk h, x, hx => by
    simp only [Res.alts, List.mem_singleton] at hx
    subst hx; exact .eof h
  | _, _, _, _, .eofFail _, x, hx => by cases hx
  | _, _, _, _, .ref hk h, x, hx => .ref hk (big_derives h x hx)
  | _, _, _, _, .refNone _, x, hx => by cases hx
  | _, _, _, _, .memo h, x, hx => .memo (big_derives h x hx)
  | _, _, _, _, .any h _, x, hx => by
    cases any_derives h x hx with
    | inl h1 => cases h1
    | inr h1 => obtain ⟨g, hg, hd⟩ := h1; exact .any hg hd
  | _, _, _, _, .choice h, x, hx => by
    obtain ⟨g, hg, hd⟩ := choice_derives h x hx
    exact .choice hg hd
  | _, _, _, _, .optional h, x, hx => by
    cases mem_appendNode _ _ _ hx with
    | inl h1 => exact .optSome (big_derives h x h1)
    | inr h1 =>
      simp only [Res.alts, List.mem_singleton] at h1
      subst h1; exact .optNone
  | _, _, _, _, .name (e' := e') h _ hR, x, hx => by
    subst hR
    by_cases he : e' = true
    · simp [he, Res.alts] at hx
    · simp only [he] at hx
      exact .name (big_derives h x hx)
  | _, _, _, _, .single (e := e) h hR, x, hx => by
    subst hR
    by_cases he : e = true
    · simp [he, Res.alts] at hx
    · simp only [he] at hx
      cases mem_unwrapSingle hx with
      | inl h1 => exact .singleKeep (big_derives h x h1)
      | inr h1 =>
        obtain ⟨tk, p, r, i, hRR⟩ := h1
        exact .singleUnwrap (big_derives h (.nt tk [x] p r i) (by rw [hRR]; simp [Res.alts]))
  | _, _, _, _, .suppress h, x, hx => .suppress (big_derives h x hx)
  | _, _, _, _, .ltrimOk _ h, x, hx => .ltrim (big_derives h x hx)
  | _, _, _, _, .ltrimWs _ _ _, x, hx => by cases hx
  | _, _, _, _, .rtrim (e := e) (m := m) (R := R) h hR _, x, hx => by
    subst hR
    unfold rtrimRes at hx
    by_cases he : e = true
    · simp only [he, ↓reduceIte] at hx
      exact .rtrimKeep (big_derives h x hx)
    · simp only [he] at hx
      cases hws : (setRposRes cfg.file m R).2 with
      | some w => simp [hws, Res.alts] at hx
      | none =>
        simp only [hws] at hx
        obtain ⟨n, hn, hxe⟩ := mem_setRposRes cfg.file m R x hx
        rw [hxe]; exact .rtrimMove (big_derives h n hn)
  | _, _, _, _, .seqfam hs h hR _, x, hx => by
    subst hR
    cases mem_foldEmit _ _ _ hx with
    | inl h1 => cases h1
    | inr h1 =>
      obtain ⟨chain, rfl, hd, hl⟩ := seq_derives h .nil rfl rfl x h1
      exact .seqfam hs hd hl
termination_by structural _ _ _ _ h => h

theorem any_derives {cfg : Cfg} : ∀ {gs : List G} {pos : Nat} {acc R : Res} {e : Bool}, BigAny cfg gs pos acc R e →
    ∀ x ∈ R.alts, x ∈ acc.alts ∨ ∃ g ∈ gs, Derives cfg g pos x
  | _, _, _, _, _, .nil, x, hx => .inl hx
  | _, _, _, _, _, .cons h ht, x, hx => by
    cases any_derives ht x hx with
    | inl h1 =>
      cases mem_appendNode _ _ _ h1 with
      | inl h2 => exact .inl h2
      | inr h2 => exact .inr ⟨_, List.mem_cons_self .., big_derives h x h2⟩
    | inr h1 =>
      obtain ⟨g, hg, hd⟩ := h1
      exact .inr ⟨g, List.mem_cons_of_mem _ hg, hd⟩
termination_by structural _ _ _ _ _ h => h

theorem choice_derives {cfg : Cfg} : ∀ {gs : List G} {pos : Nat} {R : Res} {e : Bool}, BigChoice cfg gs pos R e →
    ∀ x ∈ R.alts, ∃ g ∈ gs, Derives cfg g pos x
  | _, _, _, _, .nil, x, hx => by cases hx
  | _, _, _, _, .hit h _, x, hx => ⟨_, List.mem_cons_self .., big_derives h x hx⟩
  | _, _, _, _, .skip _ ht, x, hx => by
    obtain ⟨g, hg, hd⟩ := choice_derives ht x hx
    exact ⟨g, List.mem_cons_of_mem _ hg, hd⟩
termination_by structural _ _ _ _ h => h

theorem seq_derives {cfg : Cfg} : ∀ {sh : SeqShape} {depth : Nat} {nodes : List Node} {pos : Nat} {em : List Node}
    {stop e : Bool}, BigSeq cfg sh depth nodes pos em stop e →
    ∀ {pos0 : Nat}, DerivesSeq cfg sh 0 pos0 nodes → endOf pos0 nodes = pos → depth = nodes.length →
      ∀ x ∈ em, DerTree cfg sh pos0 x
  | _, _, _, _, _, _, _, .last _, _, hd, he, hdep, x, hx => by
    obtain ⟨hlc, rfl⟩ := mem_ite_singleton hx
    exact derTree_emit hd he hdep hlc
  | _, _, _, _, _, _, _, .fail _ _, _, hd, he, hdep, x, hx => by
    obtain ⟨hlc, rfl⟩ := mem_ite_singleton hx
    exact derTree_emit hd he hdep hlc
  | _, _, _, _, _, _, _, .step hl hb _ ha, _, hd, he, hdep, x, hx =>
    alts_derives ha hd he hdep hl (fun n hn => big_derives hb n hn) x hx
termination_by structural _ _ _ _ _ _ _ h => h

theorem alts_derives {cfg : Cfg} : ∀ {sh : SeqShape} {depth : Nat} {nodes alts : List Node} {em : List Node}
    {stop e : Bool}, BigAlts cfg sh depth nodes alts em stop e →
    ∀ {pos0 pos : Nat} {g : G}, DerivesSeq cfg sh 0 pos0 nodes → endOf pos0 nodes = pos → depth = nodes.length →
      sh.lookup depth = some g → (∀ n ∈ alts, Derives cfg g pos n) → ∀ x ∈ em, DerTree cfg sh pos0 x
  | _, _, _, _, _, _, _, .nil, _, _, _, _, _, _, _, _, x, hx => by cases hx
  | _, _, _, _, _, _, _, .stop (n := n) h, _, _, _, hd, he, hdep, hl, hall, x, hx =>
    seq_derives h
      (DerivesSeq.snoc hd (by rw [Nat.zero_add, ← hdep]; exact hl) (by rw [he]; exact hall n (List.mem_cons_self ..)))
      (endOf_snoc _ _ _) (by simp [hdep]) x hx
  | _, _, _, _, _, _, _, .next (n := n) h ht, _, _, _, hd, he, hdep, hl, hall, x, hx => by
    cases List.mem_append.mp hx with
    | inl h1 =>
      exact seq_derives h
        (DerivesSeq.snoc hd (by rw [Nat.zero_add, ← hdep]; exact hl) (by rw [he]; exact hall n (List.mem_cons_self ..)))
        (endOf_snoc _ _ _) (by simp [hdep]) x h1
    | inr h1 => exact alts_derives ht hd he hdep hl (fun m hm => hall m (List.mem_cons_of_mem _ hm)) x h1
termination_by structural _ _ _ _ _ _ _ h => h
end

end Big

end PV
