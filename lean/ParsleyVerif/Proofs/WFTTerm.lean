/-
  C02 (extended certificate), terminals: EVERY built-in terminal of Model/Terminal.lean, for ALL construction
  parameters, every `strconv.ParseFloat` / `time.ParseDuration` answer and every regexp engine, returns — when
  it returns a node at a position of the file — a terminal LEAF that starts at the call position, ends inside
  the file, and is at least one byte wide unless the terminal is a Regexp whose expression the certificate
  declares nullable (`termNullable`).

  Rune, Integer, Float, String, Char, TimeDuration: from the byte-level specification of C08 (`c08_spec`,
  `c08_node_span`, the `c08_*_node` characterisations).  Op, Word, Bool, Nil: directly from MatchString /
  MatchWord, so that NO hypothesis on the word is needed (outside `Terminal.WF` — empty operator / word,
  non-ASCII word byte — they never return a node: the documented panics, `c08_outside_wf_panics`).
  Regexp: directly from ReadRegexp (an engine that reports a length beyond the input is the slice-bounds
  panic, not a node), and `RxSound` for the expressions the certificate declares non-nullable.
-/
import ParsleyVerif.Spec.WFTrim
import ParsleyVerif.Spec.Core
import ParsleyVerif.Props.C08
namespace PV.WFT
open PV PV.Text

/-- the certificate's claim about the regexp engine: an expression declared non-nullable never reports
    an empty match on a non-empty rest (at the end of input ReadRegexp does not consult the engine) -/
def RxSound (rx : Nat → Bool) (P : Params) : Prop :=
  ∀ id r m g, rx id = false → r ≠ [] → P.regexp id r = some (m, g) → 0 < m

theorem rxSound_all (P : Params) : RxSound rxAll P := by
  intro id r m g h; simp [rxAll] at h

/-- what `run` needs of a terminal -/
def TermLeaf (rx : Nat → Bool) (cfg : Cfg) (t : Terminal) : Prop :=
  ∀ pos n, InFile cfg.file pos → t.parse cfg.params cfg.file pos = .node n →
    ∃ tok v r, n = .term tok v pos r ∧ pos ≤ r ∧ r ≤ cfg.hi ∧ (termNullable rx t = false → pos < r)

/-! ### the matchers of the literal expressions never match the empty string -/

theorem integerMatch_pos (l : Bytes) (k : Nat) (h : integerMatch l = some k) : 0 < k := by
  unfold integerMatch at h
  simp only at h
  split at h
  · split at h
    · cases h; omega
    · split at h
      · split at h
        · split at h <;> (cases h; omega)
        · cases h; omega
      · cases h
  · cases h

theorem floatMatch_pos (l : Bytes) (k : Nat) (h : floatMatch l = some k) : 0 < k := by
  unfold floatMatch at h
  simp only at h
  split at h
  · split at h
    · cases h; omega
    · cases h
  · cases h

theorem durationMatch_pos (l : Bytes) (k : Nat) (h : durationMatch l = some k) : 0 < k := by
  unfold durationMatch at h
  simp only at h
  split at h
  · cases h; omega
  · cases h

/-! ### MatchString / MatchWord / ReadRegexp -/

theorem matchString_true (f : File) (pos : Nat) (s : Bytes) (rp : Nat) (hin : InFile f pos)
    (h : matchString f pos s = some (rp, true)) : 0 < s.length ∧ rp = pos + s.length ∧ rp ≤ f.offset + f.len := by
  obtain ⟨h1, h2⟩ := hin
  unfold matchString at h
  split at h
  · cases h
  · rename_i hs
    have hl : 0 < s.length := List.length_pos_iff.mpr hs
    split at h
    · cases h
    · simp only at h
      split at h
      · cases h
      · rename_i hle
        split at h
        · cases h
          unfold File.pos File.len
          refine ⟨hl, by omega, by omega⟩
        · cases h

theorem matchWord_true (f : File) (pos : Nat) (w : Bytes) (rp : Nat) (hin : InFile f pos)
    (h : matchWord f pos w = some (rp, true)) : 0 < w.length ∧ rp = pos + w.length ∧ rp ≤ f.offset + f.len := by
  obtain ⟨h1, h2⟩ := hin
  unfold matchWord at h
  split at h
  · cases h
  · rename_i hs
    have hl : 0 < w.length := List.length_pos_iff.mpr hs
    split at h
    · cases h
    · simp only at h
      split at h
      · cases h
      · rename_i hle
        split at h
        · cases h
        · cases h
        · split at h
          · cases h
            unfold File.pos File.len
            refine ⟨hl, by omega, by omega⟩
          · split at h
            · cases h
            · split at h
              · cases h
                unfold File.pos File.len
                refine ⟨hl, by omega, by omega⟩
              · cases h

theorem readRegexp_some (engine : Bytes → Option Nat) (f : File) (pos rp : Nat) (m : Bytes) (hin : InFile f pos)
    (h : readRegexp engine f pos = some (rp, some m)) :
    ∃ k, engine (rest f pos) = some k ∧ rest f pos ≠ [] ∧ rp = pos + k ∧ rp ≤ f.offset + f.len := by
  obtain ⟨h1, h2⟩ := hin
  unfold readRegexp at h
  split at h
  · cases h
  · simp only at h
    split at h
    · cases h
    · rename_i hlt
      split at h
      · cases h
      · rename_i k hk
        split at h
        · cases h
        · rename_i hle
          cases h
          refine ⟨k, hk, ?_, by unfold File.pos; omega, by unfold File.pos File.len; omega⟩
          intro he
          have : (rest f pos).length = 0 := by rw [he]; rfl
          unfold rest at this
          rw [List.length_drop] at this
          unfold File.len at hlt
          omega

/-! ### every terminal -/

theorem termLeaf_of_c08 (rx : Nat → Bool) (cfg : Cfg) (t : Terminal) (wf : t.WF) (hl : cfg.params.LenOk t)
    (hcons : ∀ pos n, InFile cfg.file pos → t.parse cfg.params cfg.file pos = .node n → pos < n.rpos) :
    TermLeaf rx cfg t := by
  intro pos n hin hn
  have hspan := c08_node_span cfg.params cfg.file t pos n hin wf hl hn
  have hr := spec_ranged cfg.params (rest cfg.file pos) pos t hl
  rw [← c08_spec cfg.params cfg.file t pos hin wf hl, hn] at hr
  obtain ⟨_, tok, v, p, r, rfl⟩ := hr
  have hc := hcons pos _ hin hn
  simp only [Node.pos, Node.rpos] at hspan hc
  obtain ⟨e1, e2, e3⟩ := hspan
  subst e1
  exact ⟨tok, v, r, rfl, e2, by unfold Cfg.hi; exact e3, fun _ => hc⟩

theorem termLeaf_rune (rx : Nat → Bool) (cfg : Cfg) (ch : Nat) (name : Bytes) : TermLeaf rx cfg (.rune ch name) := by
  refine termLeaf_of_c08 rx cfg _ True.intro True.intro ?_
  intro pos n hin hn
  obtain ⟨w, hw, rfl⟩ := (c08_rune_node cfg.params cfg.file pos ch name n hin).mp hn
  have := (runeW_bounds ch _ w hw).1
  simp only [Node.rpos]; omega

theorem termLeaf_integer (rx : Nat → Bool) (cfg : Cfg) : TermLeaf rx cfg .integer := by
  refine termLeaf_of_c08 rx cfg _ True.intro True.intro ?_
  intro pos n hin hn
  obtain ⟨k, v, hk, _, _, rfl⟩ := (c08_integer_node cfg.params cfg.file pos n hin).mp hn
  have := integerMatch_pos _ k hk
  simp only [Node.rpos]; omega

theorem termLeaf_float (rx : Nat → Bool) (cfg : Cfg) : TermLeaf rx cfg .float := by
  refine termLeaf_of_c08 rx cfg _ True.intro True.intro ?_
  intro pos n hin hn
  obtain ⟨k, hk, _, rfl⟩ := (c08_float_node cfg.params cfg.file pos n hin).mp hn
  have := floatMatch_pos _ k hk
  simp only [Node.rpos]; omega

theorem termLeaf_duration (rx : Nat → Bool) (cfg : Cfg) : TermLeaf rx cfg .duration := by
  refine termLeaf_of_c08 rx cfg _ True.intro True.intro ?_
  intro pos n hin hn
  obtain ⟨k, hk, _, rfl⟩ := (c08_duration_node cfg.params cfg.file pos n hin).mp hn
  have := durationMatch_pos _ k hk
  simp only [Node.rpos]; omega

theorem termLeaf_char (rx : Nat → Bool) (cfg : Cfg) : TermLeaf rx cfg .char := by
  refine termLeaf_of_c08 rx cfg _ True.intro True.intro ?_
  intro pos n hin hn
  obtain ⟨r, k, v, _, _, _, _, rfl⟩ := (c08_char_node cfg.params cfg.file pos n hin).mp hn
  simp only [Node.rpos]; omega

theorem termLeaf_string (rx : Nat → Bool) (cfg : Cfg) (bq : Bool) : TermLeaf rx cfg (.string bq) := by
  refine termLeaf_of_c08 rx cfg _ True.intro True.intro ?_
  intro pos n hin hn
  obtain ⟨q, r, _, _, h⟩ := (c08_string_node cfg.params cfg.file pos bq n hin).mp hn
  rcases h with ⟨_, rfl⟩ | ⟨_, _, v, k, _, _, rfl⟩
  · simp only [Node.rpos]; omega
  · simp only [Node.rpos]; omega

theorem termLeaf_op (rx : Nat → Bool) (cfg : Cfg) (s name : Bytes) : TermLeaf rx cfg (.op s name) := by
  intro pos n hin hn
  simp only [Terminal.parse] at hn
  split at hn
  · cases hn
  · rename_i rp hm
    cases hn
    obtain ⟨h1, h2, h3⟩ := matchString_true cfg.file pos s rp hin hm
    exact ⟨_, _, rp, rfl, by omega, by unfold Cfg.hi; exact h3, fun _ => by omega⟩
  · simp [nf] at hn

theorem termLeaf_word (rx : Nat → Bool) (cfg : Cfg) (w : Bytes) (v : Nat) (name : Bytes) :
    TermLeaf rx cfg (.word w v name) := by
  intro pos n hin hn
  simp only [Terminal.parse] at hn
  split at hn
  · cases hn
  · rename_i rp hm
    cases hn
    obtain ⟨h1, h2, h3⟩ := matchWord_true cfg.file pos w rp hin hm
    exact ⟨_, _, rp, rfl, by omega, by unfold Cfg.hi; exact h3, fun _ => by omega⟩
  · simp [nf] at hn

theorem termLeaf_nil (rx : Nat → Bool) (cfg : Cfg) (w : Bytes) : TermLeaf rx cfg (.nil w) := by
  intro pos n hin hn
  simp only [Terminal.parse] at hn
  split at hn
  · cases hn
  · rename_i rp hm
    cases hn
    obtain ⟨h1, h2, h3⟩ := matchWord_true cfg.file pos w rp hin hm
    exact ⟨_, _, rp, rfl, by omega, by unfold Cfg.hi; exact h3, fun _ => by omega⟩
  · simp [nf] at hn

theorem termLeaf_bool (rx : Nat → Bool) (cfg : Cfg) (ts fs : Bytes) : TermLeaf rx cfg (.bool ts fs) := by
  intro pos n hin hn
  simp only [Terminal.parse] at hn
  split at hn
  · cases hn
  · rename_i rp hm
    cases hn
    obtain ⟨h1, h2, h3⟩ := matchWord_true cfg.file pos ts rp hin hm
    exact ⟨_, _, rp, rfl, by omega, by unfold Cfg.hi; exact h3, fun _ => by omega⟩
  · split at hn
    · cases hn
    · rename_i rp hm
      cases hn
      obtain ⟨h1, h2, h3⟩ := matchWord_true cfg.file pos fs rp hin hm
      exact ⟨_, _, rp, rfl, by omega, by unfold Cfg.hi; exact h3, fun _ => by omega⟩
    · simp [nf] at hn

theorem termLeaf_regexp (rx : Nat → Bool) (cfg : Cfg) (hrx : RxSound rx cfg.params) (id : Nat) (tok name : Bytes)
    (hasGroup : Bool) : TermLeaf rx cfg (.regexp id tok name hasGroup) := by
  intro pos n hin hn
  simp only [Terminal.parse] at hn
  split at hn
  · cases hn
  · rename_i rp m hm
    obtain ⟨k, hk, hne, h2, h3⟩ := readRegexp_some _ cfg.file pos rp m hin hm
    have hstrict : termNullable rx (.regexp id tok name hasGroup) = false → pos < rp := by
      intro hnl
      simp only [termNullable] at hnl
      cases hp : cfg.params.regexp id (rest cfg.file pos) with
      | none => simp [hp] at hk
      | some mg =>
        obtain ⟨m', g'⟩ := mg
        simp only [hp, Option.map_some, Option.some.injEq] at hk
        subst hk
        have := hrx id _ _ _ hnl hne hp
        omega
    split at hn
    · split at hn
      · cases hn
        exact ⟨_, _, rp, rfl, by omega, by unfold Cfg.hi; exact h3, hstrict⟩
      · cases hn
    · cases hn
      exact ⟨_, _, rp, rfl, by omega, by unfold Cfg.hi; exact h3, hstrict⟩
  · simp [nf] at hn

/-- **every built-in terminal**, all construction parameters, every ParseFloat / ParseDuration, every engine -/
theorem termLeaf_all (rx : Nat → Bool) (cfg : Cfg) (hrx : RxSound rx cfg.params) (t : Terminal) : TermLeaf rx cfg t := by
  cases t with
  | rune ch name => exact termLeaf_rune rx cfg ch name
  | op s name => exact termLeaf_op rx cfg s name
  | word w v name => exact termLeaf_word rx cfg w v name
  | bool ts fs => exact termLeaf_bool rx cfg ts fs
  | nil s => exact termLeaf_nil rx cfg s
  | integer => exact termLeaf_integer rx cfg
  | float => exact termLeaf_float rx cfg
  | string bq => exact termLeaf_string rx cfg bq
  | char => exact termLeaf_char rx cfg
  | duration => exact termLeaf_duration rx cfg
  | regexp id tok name g => exact termLeaf_regexp rx cfg hrx id tok name g

end PV.WFT
