/-
  C08 helper lemmas, part 2: strconv.UnquoteChar as modelled consumes a non-empty prefix and the UTF-8
  encoding of the rune it returns is never longer than what it consumed (except the (RuneError, 1)
  answer, which unquoteString refuses); hence unquoteString respects the contract of Readf.
-/
import ParsleyVerif.Proofs.Terminal
import ParsleyVerif.Proofs.Utf8Inv
namespace PV
open PV.Text

/-! ### UnquoteChar cut into named pieces (definitionally the model: `unquoteChar_cons` is `rfl`) -/

def hexEsc (e : Nat) (r2 : Bytes) : Option (Nat × Bytes) :=
  let n := if e = 120 then 2 else if e = 117 then 4 else 8
  if r2.length < n then none
  else if !allHex (r2.take n) then none
  else
    let v := natOfDigits 16 (r2.take n)
    if e = 120 then some (v, r2.drop n)
    else if !Utf8.validRune v then none
    else some (v, r2.drop n)

def octEsc (e : Nat) (r2 : Bytes) : Option (Nat × Bytes) :=
  if r2.length < 2 then none
  else if !(r2.take 2).all isOct then none
  else
    let v := natOfDigits 8 (e :: r2.take 2)
    if v > 255 then none else some (v, r2.drop 2)

def escTail (quote e : Nat) (r2 : Bytes) : Option (Nat × Bytes) :=
  if e = 97 then some (7, r2) else if e = 98 then some (8, r2) else if e = 102 then some (12, r2)
  else if e = 110 then some (10, r2) else if e = 114 then some (13, r2) else if e = 116 then some (9, r2)
  else if e = 118 then some (11, r2)
  else if e = 120 || e = 117 || e = 85 then hexEsc e r2
  else if 48 ≤ e && e ≤ 55 then octEsc e r2
  else if e = 92 then some (92, r2)
  else if e = 39 || e = 34 then (if e ≠ quote then none else some (e, r2))
  else none

theorem unquoteChar_cons (c : Nat) (r : Bytes) (q : Nat) : unquoteChar (c :: r) q =
    if c = q && (q = 39 || q = 34) then none
    else if c ≥ 0x80 then some ((Utf8.decodeRune (c :: r)).1, (c :: r).drop (Utf8.decodeRune (c :: r)).2)
    else if c ≠ 92 then some (c, r)
    else match r with
      | [] => none
      | e :: r2 => escTail q e r2 := by
  cases r <;> rfl
theorem enc_ascii (c : Nat) (h : c < 0x80) : (Utf8.encodeRune c).length = 1 :=
  (Utf8.encodeRune_length_le c).2.2.1 h

theorem hexEsc_step (e : Nat) (r2 : Bytes) (ch : Nat) (tail : Bytes) (h : hexEsc e r2 = some (ch, tail)) :
    ∃ n, 2 ≤ n ∧ n ≤ r2.length ∧ tail = r2.drop n := by
  unfold hexEsc at h
  simp only [] at h
  have hn : 2 ≤ (if e = 120 then 2 else if e = 117 then 4 else 8) := by
    split
    · omega
    · split <;> omega
  generalize (if e = 120 then 2 else if e = 117 then 4 else 8) = n at h hn
  refine ⟨n, hn, ?_, ?_⟩
  · split at h
    · cases h
    · omega
  · split at h
    · cases h
    · split at h
      · cases h
      · split at h
        · simp only [Option.some.injEq, Prod.mk.injEq] at h; exact h.2.symm
        · split at h
          · cases h
          · simp only [Option.some.injEq, Prod.mk.injEq] at h; exact h.2.symm

theorem octEsc_step (e : Nat) (r2 : Bytes) (ch : Nat) (tail : Bytes) (h : octEsc e r2 = some (ch, tail)) :
    2 ≤ r2.length ∧ tail = r2.drop 2 := by
  unfold octEsc at h
  split at h
  · cases h
  · split at h
    · cases h
    · simp only [] at h
      split at h
      · cases h
      · simp only [Option.some.injEq, Prod.mk.injEq] at h; exact ⟨by omega, h.2.symm⟩

theorem escTail_step (q e : Nat) (r2 : Bytes) (ch : Nat) (tail : Bytes) (h : escTail q e r2 = some (ch, tail)) :
    ∃ n, n ≤ r2.length ∧ tail = r2.drop n ∧ (Utf8.encodeRune ch).length ≤ 2 + n := by
  have two : ∀ v, v < 0x80 → some (v, r2) = some (ch, tail) →
      ∃ n, n ≤ r2.length ∧ tail = r2.drop n ∧ (Utf8.encodeRune ch).length ≤ 2 + n := by
    intro v hv hh
    simp only [Option.some.injEq, Prod.mk.injEq] at hh
    obtain ⟨h1, h2⟩ := hh
    exact ⟨0, by omega, by simp [h2], by rw [← h1, enc_ascii v hv]; omega⟩
  have four := (Utf8.encodeRune_length_le ch).2.1
  unfold escTail at h
  by_cases c1 : e = 97
  · rw [if_pos c1] at h; exact two _ (by omega) h
  rw [if_neg c1] at h
  by_cases c2 : e = 98
  · rw [if_pos c2] at h; exact two _ (by omega) h
  rw [if_neg c2] at h
  by_cases c3 : e = 102
  · rw [if_pos c3] at h; exact two _ (by omega) h
  rw [if_neg c3] at h
  by_cases c4 : e = 110
  · rw [if_pos c4] at h; exact two _ (by omega) h
  rw [if_neg c4] at h
  by_cases c5 : e = 114
  · rw [if_pos c5] at h; exact two _ (by omega) h
  rw [if_neg c5] at h
  by_cases c6 : e = 116
  · rw [if_pos c6] at h; exact two _ (by omega) h
  rw [if_neg c6] at h
  by_cases c7 : e = 118
  · rw [if_pos c7] at h; exact two _ (by omega) h
  rw [if_neg c7] at h
  by_cases c8 : (e = 120 || e = 117 || e = 85) = true
  · rw [if_pos c8] at h
    obtain ⟨n, h0, h1, h2⟩ := hexEsc_step e r2 ch tail h
    exact ⟨n, h1, h2, by omega⟩
  rw [if_neg c8] at h
  by_cases c9 : (decide (48 ≤ e) && decide (e ≤ 55)) = true
  · rw [if_pos c9] at h
    obtain ⟨h1, h2⟩ := octEsc_step e r2 ch tail h
    exact ⟨2, h1, h2, by omega⟩
  rw [if_neg c9] at h
  by_cases c10 : e = 92
  · rw [if_pos c10] at h; exact two _ (by omega) h
  rw [if_neg c10] at h
  by_cases c11 : (e = 39 || e = 34) = true
  · rw [if_pos c11] at h
    by_cases c12 : e ≠ q
    · rw [if_pos c12] at h; cases h
    · rw [if_neg c12] at h
      exact two _ (by simp at c11; omega) h
  · rw [if_neg c11] at h; cases h

/-- one step of UnquoteChar: `k` bytes consumed -/
structure UStep (s : Bytes) (ch : Nat) (tail : Bytes) (k : Nat) : Prop where
  pos : 1 ≤ k
  le : k ≤ s.length
  tail_eq : tail = s.drop k
  enc : (Utf8.encodeRune ch).length ≤ k ∨ (ch = Utf8.runeError ∧ k = 1)

theorem unquoteChar_step (s : Bytes) (q ch : Nat) (tail : Bytes) (h : unquoteChar s q = some (ch, tail)) :
    ∃ k, UStep s ch tail k := by
  cases s with
  | nil => simp [unquoteChar] at h
  | cons c r =>
    rw [unquoteChar_cons] at h
    by_cases c1 : (c = q && (q = 39 || q = 34)) = true
    · rw [if_pos c1] at h; cases h
    rw [if_neg c1] at h
    by_cases c2 : c ≥ 0x80
    · rw [if_pos c2] at h
      simp only [Option.some.injEq, Prod.mk.injEq] at h
      obtain ⟨h1, h2⟩ := h
      have hw := Utf8.decodeRune_width (c :: r) (by simp)
      refine ⟨(Utf8.decodeRune (c :: r)).2, hw.1, hw.2, h2.symm, ?_⟩
      rcases Utf8.decodeRune_encode_le (c :: r) (by simp) with he | he
      · right; rw [← h1, he]; exact ⟨rfl, rfl⟩
      · left; rw [← h1, he]; exact Nat.le_refl _
    rw [if_neg c2] at h
    by_cases c3 : c ≠ 92
    · rw [if_pos c3] at h
      simp only [Option.some.injEq, Prod.mk.injEq] at h
      obtain ⟨h1, h2⟩ := h
      exact ⟨1, Nat.le_refl _, by simp, by simp [h2], Or.inl (by rw [← h1, enc_ascii c (by omega)]; omega)⟩
    rw [if_neg c3] at h
    cases r with
    | nil => cases h
    | cons e r2 =>
      obtain ⟨n, h1, h2, h3⟩ := escTail_step q e r2 ch tail h
      exact ⟨2 + n, by omega, by simp; omega, by rw [h2]; simp [Nat.add_comm], Or.inl h3⟩

/-! ### the loops of unquoteString -/
theorem unquoteLoop_inv : ∀ (fuel : Nat) (str res : Bytes),
    ∃ k, k ≤ str.length ∧ (unquoteLoop fuel str res).2 = str.drop k ∧
      (unquoteLoop fuel str res).1.length ≤ res.length + k := by
  intro fuel
  induction fuel with
  | zero => intro str res; exact ⟨0, by omega, by simp [unquoteLoop], by simp [unquoteLoop]⟩
  | succ n ih =>
    intro str res
    unfold unquoteLoop
    by_cases hs : str = []
    · rw [if_pos hs]; exact ⟨0, by omega, by simp, by simp⟩
    rw [if_neg hs]
    by_cases hnl : (str.head? = some 13 || str.head? = some 10) = true
    · rw [if_pos hnl]; exact ⟨0, by omega, by simp, by simp⟩
    rw [if_neg hnl]
    cases hu : unquoteChar str 34 with
    | none => exact ⟨0, by omega, by simp, by simp⟩
    | some p =>
      obtain ⟨ch, tail⟩ := p
      obtain ⟨k, hk⟩ := unquoteChar_step str 34 ch tail hu
      simp only []
      have hlen : str.length - tail.length = k := by rw [hk.tail_eq, List.length_drop]; have := hk.le; omega
      by_cases hb : ch = Utf8.runeError ∧ str.length - tail.length = 1
      · rw [if_pos (by simpa using hb)]; exact ⟨0, by omega, by simp, by simp⟩
      · rw [if_neg (by simpa using hb)]
        obtain ⟨k2, h1, h2, h3⟩ := ih tail (res ++ Utf8.encodeRune ch)
        have htl : tail.length = str.length - k := by rw [hk.tail_eq, List.length_drop]
        refine ⟨k + k2, by have := hk.le; omega, ?_, ?_⟩
        · rw [h2, hk.tail_eq, List.drop_drop]
        · have henc : (Utf8.encodeRune ch).length ≤ k := by
            rcases hk.enc with he | he
            · exact he
            · exact absurd ⟨he.1, by omega⟩ hb
          rw [List.length_append] at h3
          omega

theorem unquoteScan_spec : ∀ (r : Bytes) (i : Nat),
    i ≤ (unquoteScan r i).1 ∧ (unquoteScan r i).1 ≤ i + r.length ∧ (unquoteScan r i).2 ≤ 2 ∧
    ((unquoteScan r i).2 = 0 → (unquoteScan r i).1 = i + r.length) := by
  intro r
  induction r with
  | nil => intro i; simp [unquoteScan]
  | cons b r ih =>
    intro i
    unfold unquoteScan
    split
    · simp
    · split
      · simp
      · have := ih (i + 1)
        simp only [List.length_cons]
        omega

/-- **unquoteString respects the contract of Readf** on every non-empty input: it consumes at most the
    input, returns a value no longer than what it consumed, and answers either (nil, 0) or (value, > 0) -/
theorem unquoteString_contract (b : Bytes) (hb : b ≠ []) :
    (unquoteString b).2 ≤ b.length ∧ ((unquoteString b).1.getD []).length ≤ (unquoteString b).2 ∧
    (((unquoteString b).1 = none ∧ (unquoteString b).2 = 0) ∨ ((unquoteString b).1.isSome = true ∧ 0 < (unquoteString b).2)) := by
  have hlen : 0 < b.length := List.length_pos_iff.mpr hb
  have hs := unquoteScan_spec b 0
  unfold unquoteString
  rcases hsc : unquoteScan b 0 with ⟨i, c⟩
  rw [hsc] at hs
  simp only [Nat.zero_add] at hs
  obtain ⟨_, h2, h3, h4⟩ := hs
  match c, h3, h4 with
  | 0, _, h4 =>
    have : i = b.length := h4 rfl
    simp only []
    exact ⟨by omega, by simp; omega, Or.inr ⟨rfl, by omega⟩⟩
  | 1, _, _ =>
    simp only []
    by_cases hi : i = 0
    · rw [if_pos hi]; exact ⟨by omega, by simp, Or.inl ⟨rfl, rfl⟩⟩
    · rw [if_neg hi]
      exact ⟨h2, by simp [List.length_take]; omega, Or.inr ⟨rfl, by omega⟩⟩
  | 2, _, _ =>
    simp only []
    obtain ⟨k, h5, h6, h7⟩ := unquoteLoop_inv b.length (b.drop i) (b.take i)
    rcases hl : unquoteLoop b.length (b.drop i) (b.take i) with ⟨res, str⟩
    rw [hl] at h6 h7
    simp only [] at h6 h7 ⊢
    rw [List.length_drop] at h5
    have hstr : str.length = b.length - i - k := by rw [h6]; simp [List.length_drop]; omega
    rw [List.length_take] at h7
    by_cases he : str.length = b.length
    · rw [if_pos he]; exact ⟨by omega, by simp, Or.inl ⟨rfl, rfl⟩⟩
    · rw [if_neg he]
      exact ⟨by omega, by simp; omega, Or.inr ⟨rfl, by omega⟩⟩

end PV
