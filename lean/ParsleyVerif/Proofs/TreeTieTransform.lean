/-
  parsley.Transform / (*NonTerminalNode).Transform, translated, against the model's `transform`.

  Transform rebuilds the tree in place: the children slice of every non-terminal is overwritten, child by child, with what
  the transformation of the child returns; a user-defined NodeTransformer may allocate new nodes.  `TrOut` is the contract
  that user transformers are assumed to satisfy and that the translated Transform is proved to satisfy: the result is a
  tree-shaped part of the new heap showing the model's result, made of addresses of the old tree or of fresh ones, and
  every other allocated cell is left alone (`Frame`).
-/
import ParsleyVerif.Proofs.TreeTieCheck
namespace PV.TreeTie
open PV.CorePrelude hiding Node World
open PV.TreePrelude PV.FactsTree
open PV.Walk (T ICap Transformer transform transformList)

/-- cells allocated in `h` outside `old` are unchanged in `h'` and are not among `new` -/
def Frame (h h' : Heap) (old new : List Ptr) : Prop := ∀ b, h b ≠ none → b ∉ old → h' b = h b ∧ b ∉ new

/-- the outcome `x` of a translated transformation of the tree `sk` in the state `s` against the model's outcome -/
def TrOut (E : Enc) (s : TSt) (sk : Sk) (x : TRes TSt (TN × TErr)) : Except Nat T → Prop
  | .error e => ∃ n' s', x = .ok (n', encErr e) s' ∧ Frame s.heap s'.heap sk.addrs []
  | .ok t' => ∃ s' sk', x = .ok (sk'.node, PV.CorePrelude.Err.nil) s' ∧ Shaped s'.heap sk' ∧ absT E s'.heap sk' = t' ∧
      sk'.addrs.Nodup ∧ Frame s.heap s'.heap sk.addrs sk'.addrs

/-- is the interpreter value a parsley.NodeTransformer -/
def isTransformer (W : TW) : TInterp → Bool
  | .custom id => W.implements id (Go.str "parsley.NodeTransformer")
  | _ => false

/-- the hypotheses of the Transform tie -/
structure TransformWorld (W : TW) (E : Enc) (uctx : TValue) (caps : Nat → ICap) (tr : Transformer) : Prop where
  nilCode : ∀ i, E.icode i = none ↔ i = PV.TreePrelude.Interp.nil
  caps : ∀ i k, E.icode i = some k → (caps k).transformer = isTransformer W i
  custom : ∀ (id : Nat) (k : Nat) (a : Ptr) (kids : List Sk) (s : TSt) (c : TCell),
    E.icode (.custom id) = some k → W.implements id (Go.str "parsley.NodeTransformer") = true →
    s.heap a = some c → c.interpreter = .custom id → Shaped s.heap (.nt a kids) → (Sk.nt a kids).addrs.Nodup →
    TrOut E s (.nt a kids) (W.TransformNode id uctx (.ref a) s) (tr k (absT E s.heap (.nt a kids)))

/-! the model's `transform` on a non-terminal, case by case -/

theorem transform_nt_tr (caps : Nat → ICap) (tr : Transformer) (i k : Nat) (sc : Option Nat) (cs : List T)
    (h : (caps k).transformer = true) : transform caps tr (.nt i (some k) sc cs) = tr k (.nt i (some k) sc cs) := by
  simp [transform, h]

theorem transform_nt_kids (caps : Nat → ICap) (tr : Transformer) (i : Nat) (ip sc : Option Nat) (cs : List T)
    (h : ∀ k, ip = some k → (caps k).transformer = false) :
    transform caps tr (.nt i ip sc cs) = match transformList caps tr cs with
      | .ok cs' => .ok (.nt i ip sc cs')
      | .error e => .error e := by
  cases h2 : transformList caps tr cs <;> cases ip with
  | none => simp [transform, h2]
  | some k => simp [transform, h k rfl, h2]

theorem transformList_cons (caps : Nat → ICap) (tr : Transformer) (c : T) (rest : List T) :
    transformList caps tr (c :: rest) = match transform caps tr c with
      | .error e => .error e
      | .ok c' => match transformList caps tr rest with
        | .error e => .error e
        | .ok rest' => .ok (c' :: rest') := by
  cases h1 : transform caps tr c with
  | error e => simp [transformList, h1]
  | ok c' => cases h2 : transformList caps tr rest <;> simp [transformList, h1, h2]

/-- the outcome of the translated loop over the children -/
def LoopOut (E : Enc) (s : TSt) (a : Ptr) (c : TCell) (pre : List TN) (todo : List Sk)
    (x : TRes TSt (Brk (TN × TErr) (TErr × Int))) : Except Nat (List T) → Prop
  | .error e => ∃ s', x = .ok (.ret (PV.TreePrelude.Node.nil, encErr e)) s' ∧ Frame s.heap s'.heap (a :: addrsL todo) []
  | .ok ts' => ∃ s' res i', x = .ok (.done (PV.CorePrelude.Err.nil, i')) s' ∧
      s'.heap a = some { c with children := pre ++ nodes res } ∧ ShapedL s'.heap res ∧ absL E s'.heap res = ts' ∧
      (addrsL res).Nodup ∧ a ∉ addrsL res ∧ Frame s.heap s'.heap (a :: addrsL todo) (addrsL res)

theorem frame_agree {h h' : Heap} {old new l : List Ptr} (f : Frame h h' old new) (hal : ∀ b ∈ l, h b ≠ none)
    (hd : ∀ b ∈ l, b ∉ old) : Agree h h' l := fun b hb => (f b (hal b hb) (hd b hb)).1

theorem setNth_mid {α : Type} (pre : List α) (x y : α) (rest : List α) (s : TSt) :
    (CorePrelude.Go.setNth (pre ++ x :: rest) (pre.length : Int) y : TM (List α)) s = .ok (pre ++ y :: rest) s := by
  unfold CorePrelude.Go.setNth
  have : pre.length < (pre ++ x :: rest).length := by simp
  simp only [Int.natCast_nonneg, Int.toNat_natCast, this, and_self, ↓reduceIte, pure_apply]
  congr 1
  simp

/-- how (*NonTerminalNode).Transform finishes after the loop -/
def finishT (a : Ptr) : TRes TSt (Brk (TN × TErr) (TErr × Int)) → TRes TSt (TN × TErr)
  | .ok (.ret t) s' => .ok t s'
  | .ok (.done _) s' => .ok (PV.TreePrelude.Node.ref a, PV.CorePrelude.Err.nil) s'
  | .panic => .panic
  | .nofuel => .nofuel

/-- (*NonTerminalNode).Transform, translated, in one equation -/
theorem ntTransform_eq (W : TW) (g : Nat) (a : Ptr) (uctx : TValue) (s : TSt) (c : TCell) (hc : s.heap a = some c) :
    NonTerminalNode_Transform W (g + 1) a uctx s =
      if isTransformer W c.interpreter then
        (match c.interpreter with
          | .custom id => W.TransformNode id uctx (.ref a)
          | _ => TreePrelude.Go.noMethod : TM (TN × TErr)) s
      else finishT a (NonTerminalNode_Transform_loop1 W a uctx (Transform W g) (NonTerminalNode_Transform W g) c.children
        PV.CorePrelude.Err.nil 0 s) := by
  cases hi : c.interpreter with
  | nil =>
    simp [NonTerminalNode_Transform, hc, hi, isTransformer, TreePrelude.Interp.isNil]
    generalize NonTerminalNode_Transform_loop1 W a uctx (Transform W g) (NonTerminalNode_Transform W g) c.children PV.CorePrelude.Err.nil 0 s = x
    cases x with
    | ok b s' => cases b with
      | ret t => rfl
      | done st => obtain ⟨e, i⟩ := st; rfl
    | panic => rfl
    | nofuel => rfl
  | select sel =>
    simp [NonTerminalNode_Transform, hc, hi, isTransformer, TreePrelude.Interp.isNil, TreePrelude.Interp.asIface]
    generalize NonTerminalNode_Transform_loop1 W a uctx (Transform W g) (NonTerminalNode_Transform W g) c.children PV.CorePrelude.Err.nil 0 s = x
    cases x with
    | ok b s' => cases b with
      | ret t => rfl
      | done st => obtain ⟨e, i⟩ := st; rfl
    | panic => rfl
    | nofuel => rfl
  | fn f =>
    simp [NonTerminalNode_Transform, hc, hi, isTransformer, TreePrelude.Interp.isNil, TreePrelude.Interp.asIface]
    generalize NonTerminalNode_Transform_loop1 W a uctx (Transform W g) (NonTerminalNode_Transform W g) c.children PV.CorePrelude.Err.nil 0 s = x
    cases x with
    | ok b s' => cases b with
      | ret t => rfl
      | done st => obtain ⟨e, i⟩ := st; rfl
    | panic => rfl
    | nofuel => rfl
  | custom id =>
    cases hw : W.implements id (Go.str "parsley.NodeTransformer")
    · simp [NonTerminalNode_Transform, hc, hi, isTransformer, TreePrelude.Interp.isNil, TreePrelude.Interp.asIface, hw]
      generalize NonTerminalNode_Transform_loop1 W a uctx (Transform W g) (NonTerminalNode_Transform W g) c.children PV.CorePrelude.Err.nil 0 s = x
      cases x with
      | ok b s' => cases b with
        | ret t => rfl
        | done st => obtain ⟨e, i⟩ := st; rfl
      | panic => rfl
      | nofuel => rfl
    · simp [NonTerminalNode_Transform, hc, hi, isTransformer, TreePrelude.Interp.isNil, TreePrelude.Interp.asIface, hw]

theorem frame_refl (h : Heap) (l : List Ptr) : Frame h h l l := fun _ _ hb => ⟨rfl, hb⟩

set_option maxHeartbeats 4000000 in
mutual
/-- **parsley.Transform, translated, against the model's `transform`** -/
theorem transform_tie (W : TW) (E : Enc) (uctx : TValue) (caps : Nat → ICap) (tr : Transformer)
    (tw : TransformWorld W E uctx caps tr) :
    ∀ (sk : Sk) (fuel : Nat) (s : TSt), Shaped s.heap sk → sk.addrs.Nodup → 2 * sk.fuel ≤ fuel →
      TrOut E s sk (Transform W fuel uctx sk.node s) (transform caps tr (absT E s.heap sk))
  | .leaf n, fuel, s, hs, _, hfu => by
    obtain ⟨fuel, rfl⟩ : ∃ k, fuel = k + 1 := ⟨fuel - 1, by simp [Sk.fuel] at hfu; omega⟩
    simp only [absT, transform, TrOut]
    refine ⟨s, .leaf n, ?_, hs, rfl, by simp [Sk.addrs], fun _ _ hb => ⟨rfl, hb⟩⟩
    cases n <;> simp [LeafNode, Shaped] at hs <;> simp [Transform, Sk.node]
  | .list items, fuel, s, hs, hnd, hfu => by
    obtain ⟨fuel, rfl⟩ : ∃ k, fuel = k + 1 := ⟨fuel - 1, by simp [Sk.fuel] at hfu; omega⟩
    simp only [absT, transform, TrOut]
    exact ⟨s, .list items, by simp [Transform, Sk.node], hs, rfl, hnd, frame_refl _ _⟩
  | .nt a kids, fuel, s, hs, hnd, hfu => by
    obtain ⟨g, rfl⟩ : ∃ k, fuel = k + 2 := ⟨fuel - 2, by simp [Sk.fuel] at hfu; omega⟩
    obtain ⟨⟨c, hc, hch⟩, hl⟩ := hs
    have hfl : 2 * fuelL kids ≤ g := by simp [Sk.fuel] at hfu; omega
    have hstart : Transform W (g + 2) uctx (Sk.nt a kids).node s = NonTerminalNode_Transform W (g + 1) a uctx s := by
      simp [Transform, Sk.node]
    have habs0 : absT E s.heap (.nt a kids) =
        .nt (E.key (.ref a)) (E.icode c.interpreter) (decS c.schema) (absL E s.heap kids) := by
      simp only [absT, hc]
    rw [hstart, ntTransform_eq W g a uctx s c hc, habs0]
    cases htrf : isTransformer W c.interpreter with
    | true =>
      cases hi : c.interpreter with
      | custom id =>
        rw [hi] at htrf
        obtain ⟨k, hk⟩ : ∃ k, E.icode (.custom id) = some k := by
          cases hk : E.icode (.custom id) with
          | some k => exact ⟨k, rfl⟩
          | none => have := (tw.nilCode _).mp hk; cases this
        have hcap : (caps k).transformer = true := by rw [tw.caps _ k hk, htrf]
        have := tw.custom id k a kids s c hk (by simpa [isTransformer] using htrf) hc hi ⟨⟨c, hc, hch⟩, hl⟩ hnd
        rw [habs0, hi, hk] at this
        simp only [↓reduceIte, hk]
        rw [transform_nt_tr caps tr _ k _ _ hcap]
        exact this
      | nil => rw [hi] at htrf; simp [isTransformer] at htrf
      | select sel => rw [hi] at htrf; simp [isTransformer] at htrf
      | fn f => rw [hi] at htrf; simp [isTransformer] at htrf
    | false =>
      simp only [Bool.false_eq_true, ↓reduceIte]
      rw [transform_nt_kids caps tr _ _ _ _ (fun k hk => by rw [tw.caps _ k hk, htrf])]
      have hloop := transform_loop W E uctx caps tr tw a kids g s c [] hc (by simpa using hch) hl hnd hfl
      rw [hch]
      rw [show ((([] : List TN).length : Nat) : Int) = 0 from rfl] at hloop
      cases htl : transformList caps tr (absL E s.heap kids) with
      | error e =>
        rw [htl] at hloop
        obtain ⟨s', hx, hfr⟩ := hloop
        simp only [TrOut]
        exact ⟨_, s', by rw [hx]; rfl, hfr⟩
      | ok ts' =>
        rw [htl] at hloop
        obtain ⟨s', res, i', hx, hca, hsh, habs, hndr, har, hfr⟩ := hloop
        simp only [TrOut]
        refine ⟨s', .nt a res, by rw [hx]; rfl, ⟨⟨_, hca, by simp⟩, hsh⟩, ?_, ?_, ?_⟩
        · simp only [absT, hca, habs]
        · simp only [Sk.addrs]; exact List.nodup_cons.mpr ⟨har, hndr⟩
        · intro b hb hbo
          have := hfr b hb hbo
          refine ⟨this.1, ?_⟩
          simp only [Sk.addrs, List.mem_cons, not_or] at hbo ⊢
          exact ⟨hbo.1, this.2⟩
/-- the loop over the children -/
theorem transform_loop (W : TW) (E : Enc) (uctx : TValue) (caps : Nat → ICap) (tr : Transformer)
    (tw : TransformWorld W E uctx caps tr) (a : Ptr) :
    ∀ (todo : List Sk) (g : Nat) (s : TSt) (c : TCell) (pre : List TN), s.heap a = some c →
      c.children = pre ++ nodes todo → ShapedL s.heap todo → (a :: addrsL todo).Nodup → 2 * fuelL todo ≤ g →
      LoopOut E s a c pre todo
        (NonTerminalNode_Transform_loop1 W a uctx (Transform W g) (NonTerminalNode_Transform W g) (nodes todo)
          PV.CorePrelude.Err.nil (pre.length : Int) s)
        (transformList caps tr (absL E s.heap todo))
  | [], g, s, c, pre, hc, hch, _, _, _ => by
    simp only [nodes, NonTerminalNode_Transform_loop1, absL, transformList, LoopOut, pure_apply]
    refine ⟨s, [], _, rfl, ?_, trivial, rfl, by simp [addrsL], by simp [addrsL], fun _ _ _ => ⟨rfl, by simp [addrsL]⟩⟩
    rw [hc]; congr 1
    cases c; simp_all [nodes]
  | k :: rest, g, s, c, pre, hc, hch, hs, hnd, hfu => by
    have hkf : 2 * k.fuel ≤ g := by simp [fuelL] at hfu; omega
    have hrf : 2 * fuelL rest ≤ g := by simp [fuelL] at hfu; omega
    have hnd0 := List.nodup_cons.mp hnd
    have hnd1 := List.nodup_append.mp (by simpa only [addrsL] using hnd0.2)
    have hak : a ∉ k.addrs := fun h => hnd0.1 (by simp [addrsL, h])
    have har : a ∉ addrsL rest := fun h => hnd0.1 (by simp [addrsL, h])
    have haal : s.heap a ≠ none := by rw [hc]; simp
    have hih := transform_tie W E uctx caps tr tw k g s hs.1 hnd1.1 hkf
    simp only [nodes, NonTerminalNode_Transform_loop1, absL, bind_apply]
    rw [transformList_cons]
    have hch' : c.children = pre ++ k.node :: nodes rest := by rw [hch]; simp [nodes]
    cases htr : transform caps tr (absT E s.heap k) with
    | error e =>
      rw [htr] at hih
      obtain ⟨n', s1, hx, hfr⟩ := hih
      have hc1 : s1.heap a = some c := by rw [(hfr a haal hak).1]; exact hc
      simp only [hx, load_some hc1, hch', setNth_mid, store_some _ hc1, encErr_isNil, Bool.not_false, ↓reduceIte,
        pure_apply, LoopOut]
      refine ⟨_, rfl, ?_⟩
      intro b hb hbo
      simp only [List.mem_cons, addrsL, List.mem_append, not_or] at hbo
      refine ⟨?_, by simp⟩
      show hset s1.heap a _ b = s.heap b
      rw [hset_other _ _ _ _ hbo.1]
      exact (hfr b hb hbo.2.1).1
    | ok t' =>
      rw [htr] at hih
      obtain ⟨s1, k', hx, hsh1, habs1, hnd', hfr⟩ := hih
      have hc1 : s1.heap a = some c := by rw [(hfr a haal hak).1]; exact hc
      have hak' : a ∉ k'.addrs := (hfr a haal hak).2
      have hrest_alloc : ∀ b ∈ addrsL rest, s.heap b ≠ none := shapedL_alloc rest hs.2
      have hrk : ∀ b ∈ addrsL rest, b ∉ k.addrs := fun b hb hb' => hnd1.2.2 b hb' b hb rfl
      have hrk' : ∀ b ∈ addrsL rest, b ∉ k'.addrs := fun b hb => (hfr b (hrest_alloc b hb) (hrk b hb)).2
      -- the state after the store
      let c2 : TCell := { c with children := pre ++ k'.node :: nodes rest }
      let s2 : TSt := { s1 with heap := hset s1.heap a c2 }
      have hc2 : s2.heap a = some c2 := hset_same _ _ _
      have hag12 : ∀ b, b ≠ a → s2.heap b = s1.heap b := fun b hb => hset_other _ _ _ _ hb
      have hrest2 : ShapedL s2.heap rest := by
        apply shapedL_agree rest _ hs.2
        intro b hb
        rw [hag12 b (fun e => har (e ▸ hb))]
        exact (hfr b (hrest_alloc b hb) (hrk b hb)).1
      have habsrest : absL E s2.heap rest = absL E s.heap rest := by
        apply absL_agree
        intro b hb
        rw [hag12 b (fun e => har (e ▸ hb))]
        exact (hfr b (hrest_alloc b hb) (hrk b hb)).1
      have hloop := transform_loop W E uctx caps tr tw a rest g s2 c2 (pre ++ [k'.node]) hc2
        (by simp [c2]) hrest2 (List.nodup_cons.mpr ⟨har, hnd1.2.1⟩) hrf
      have hi2 : ((pre.length : Int) + 1) = ((pre ++ [k'.node]).length : Int) := by simp
      simp only [hx, load_some hc1, hch', setNth_mid, store_some _ hc1, CorePrelude.Err.isNil, Bool.not_true,
        Bool.false_eq_true, ↓reduceIte, pure_apply, hi2]
      rw [habsrest] at hloop
      change LoopOut E s a c pre (k :: rest)
        (NonTerminalNode_Transform_loop1 W a uctx (Transform W g) (NonTerminalNode_Transform W g) (nodes rest)
          PV.CorePrelude.Err.nil ((pre ++ [k'.node]).length : Int) s2) _
      -- facts about k' in the later states
      have hk'alloc1 : ∀ b ∈ k'.addrs, s1.heap b ≠ none := shaped_alloc k' hsh1
      have hk'alloc2 : ∀ b ∈ k'.addrs, s2.heap b ≠ none := fun b hb => by
        rw [hag12 b (fun e => hak' (e ▸ hb))]; exact hk'alloc1 b hb
      have hk'old : ∀ b ∈ k'.addrs, b ∉ a :: addrsL rest := fun b hb hb' => by
        rcases List.mem_cons.mp hb' with e | hb'
        · exact hak' (e ▸ hb)
        · exact hrk' b hb' hb
      cases htl : transformList caps tr (absL E s.heap rest) with
      | error e =>
        rw [htl] at hloop
        obtain ⟨s', hx', hfr'⟩ := hloop
        simp only [LoopOut]
        refine ⟨s', hx', ?_⟩
        intro b hb hbo
        simp only [List.mem_cons, addrsL, List.mem_append, not_or] at hbo
        refine ⟨?_, by simp⟩
        have h1 := (hfr b hb hbo.2.1).1
        have h2 : s2.heap b = s1.heap b := hag12 b hbo.1
        have h3 := (hfr' b (by rw [h2, h1]; exact hb) (by simp [hbo.1, hbo.2.2])).1
        rw [h3, h2, h1]
      | ok ts =>
        rw [htl] at hloop
        obtain ⟨s', res, i', hx', hca', hsh', habs', hndr, har', hfr'⟩ := hloop
        have hagk' : Agree s1.heap s'.heap k'.addrs := by
          intro b hb
          rw [(hfr' b (hk'alloc2 b hb) (hk'old b hb)).1]
          exact hag12 b (fun e => hak' (e ▸ hb))
        simp only [LoopOut]
        refine ⟨s', k' :: res, i', hx', ?_, ⟨shaped_agree k' hagk' hsh1, hsh'⟩, ?_, ?_, ?_, ?_⟩
        · rw [hca']; simp [c2, nodes]
        · simp only [absL, abs_agree E k' hagk', habs1, habs']
        · simp only [addrsL]
          refine List.nodup_append.mpr ⟨hnd', hndr, ?_⟩
          intro b hb b' hb' e
          subst e
          exact (hfr' b (hk'alloc2 b hb) (hk'old b hb)).2 hb'
        · simp only [addrsL, List.mem_append, not_or]; exact ⟨hak', har'⟩
        · intro b hb hbo
          simp only [List.mem_cons, addrsL, List.mem_append, not_or] at hbo
          have h1 := hfr b hb hbo.2.1
          have h2 : s2.heap b = s1.heap b := hag12 b hbo.1
          have h3 := hfr' b (by rw [h2, h1.1]; exact hb) (by simp [hbo.1, hbo.2.2])
          refine ⟨by rw [h3.1, h2, h1.1], ?_⟩
          simp only [addrsL, List.mem_append, not_or]
          exact ⟨h1.2, h3.2⟩
end

end PV.TreeTie
