/-
  C08 helper lemmas, part 9: when exactly each literal specification answers a node / an error, and with
  which lexeme and value.
-/
import ParsleyVerif.Proofs.TerminalRune
import ParsleyVerif.Proofs.TerminalStrBody
namespace PV
open PV.Text

theorem integerSpec_node (l : Bytes) (pos : Nat) (n : Node) :
    integerSpec l pos = .node n ↔
      ∃ k v, integerMatch l = some k ∧ (l.drop k).head? ≠ some 46 ∧ parseInt0 (l.take k) = some v ∧
        n = .term (tokOf "INTEGER") (.int v) pos (pos + k) := by
  unfold integerSpec
  constructor
  · intro h
    split at h
    · simp only [nf, reduceCtorEq] at h
    · rename_i k hm
      split at h
      · simp only [nf, reduceCtorEq] at h
      · rename_i hd
        split at h
        · simp only [other, reduceCtorEq] at h
        · rename_i v hp
          simp only [TermOut.node.injEq] at h
          exact ⟨k, v, hm, hd, hp, h.symm⟩
  · rintro ⟨k, v, hm, hd, hp, hn⟩
    rw [hm]
    simp only []
    rw [if_neg hd, hp, hn]

theorem integerSpec_err (l : Bytes) (pos : Nat) (e : Err) :
    integerSpec l pos = .err e ↔
      (e = ⟨pos, .notFound (tokOf "integer value")⟩ ∧
        (integerMatch l = none ∨ ∃ k, integerMatch l = some k ∧ (l.drop k).head? = some 46)) ∨
      (e = ⟨pos, .other (tokOf "invalid integer value")⟩ ∧
        ∃ k, integerMatch l = some k ∧ (l.drop k).head? ≠ some 46 ∧ parseInt0 (l.take k) = none) := by
  unfold integerSpec
  constructor
  · intro h
    split at h
    · rename_i hm
      simp only [nf, TermOut.err.injEq] at h
      exact Or.inl ⟨h.symm, Or.inl hm⟩
    · rename_i k hm
      split at h
      · rename_i hd
        simp only [nf, TermOut.err.injEq] at h
        exact Or.inl ⟨h.symm, Or.inr ⟨k, hm, hd⟩⟩
      · rename_i hd
        split at h
        · rename_i hp
          simp only [other, TermOut.err.injEq] at h
          exact Or.inr ⟨h.symm, k, hm, hd, hp⟩
        · simp only [reduceCtorEq] at h
  · rintro (⟨he, hm | ⟨k, hm, hd⟩⟩ | ⟨he, k, hm, hd, hp⟩)
    · rw [hm, he]; rfl
    · rw [hm]; simp only []; rw [if_pos hd, he]; rfl
    · rw [hm]; simp only []; rw [if_neg hd, hp, he]; rfl

theorem floatSpec_node (P : Params) (l : Bytes) (pos : Nat) (n : Node) :
    floatSpec P l pos = .node n ↔
      ∃ k, floatMatch l = some k ∧ P.floatOk (l.take k) = true ∧
        n = .term (tokOf "FLOAT") (.float (l.take k)) pos (pos + k) := by
  unfold floatSpec
  constructor
  · intro h
    split at h
    · simp only [nf, reduceCtorEq] at h
    · rename_i k hm
      split at h
      · rename_i hd
        simp only [TermOut.node.injEq] at h
        exact ⟨k, hm, hd, h.symm⟩
      · simp only [other, reduceCtorEq] at h
  · rintro ⟨k, hm, hd, hn⟩
    rw [hm]; simp only []; rw [if_pos hd, hn]

theorem floatSpec_err (P : Params) (l : Bytes) (pos : Nat) (e : Err) :
    floatSpec P l pos = .err e ↔
      (e = ⟨pos, .notFound (tokOf "float value")⟩ ∧ floatMatch l = none) ∨
      (e = ⟨pos, .other (tokOf "invalid float value")⟩ ∧ ∃ k, floatMatch l = some k ∧ P.floatOk (l.take k) = false) := by
  unfold floatSpec
  constructor
  · intro h
    split at h
    · rename_i hm
      simp only [nf, TermOut.err.injEq] at h
      exact Or.inl ⟨h.symm, hm⟩
    · rename_i k hm
      split at h
      · simp only [reduceCtorEq] at h
      · rename_i hd
        simp only [other, TermOut.err.injEq] at h
        exact Or.inr ⟨h.symm, k, hm, by simpa using hd⟩
  · rintro (⟨he, hm⟩ | ⟨he, k, hm, hd⟩)
    · rw [hm, he]; rfl
    · rw [hm]; simp only []; rw [if_neg (by simp [hd]), he]; rfl

theorem durationSpec_node (P : Params) (l : Bytes) (pos : Nat) (n : Node) :
    durationSpec P l pos = .node n ↔
      ∃ k, durationMatch l = some k ∧ P.durErr (l.take k) = none ∧
        n = .term (tokOf "TIME_DURATION") (.dur (l.take k)) pos (pos + k) := by
  unfold durationSpec
  constructor
  · intro h
    split at h
    · simp only [nf, reduceCtorEq] at h
    · rename_i k hm
      split at h
      · rename_i hd
        simp only [TermOut.node.injEq] at h
        exact ⟨k, hm, hd, h.symm⟩
      · simp only [reduceCtorEq] at h
  · rintro ⟨k, hm, hd, hn⟩
    rw [hm]; simp only []; rw [hd, hn]

theorem durationSpec_err (P : Params) (l : Bytes) (pos : Nat) (e : Err) :
    durationSpec P l pos = .err e ↔
      (e = ⟨pos, .notFound (tokOf "time duration")⟩ ∧ durationMatch l = none) ∨
      (∃ k msg, durationMatch l = some k ∧ P.durErr (l.take k) = some msg ∧ e = ⟨pos, .other msg⟩) := by
  unfold durationSpec
  constructor
  · intro h
    split at h
    · rename_i hm
      simp only [nf, TermOut.err.injEq] at h
      exact Or.inl ⟨h.symm, hm⟩
    · rename_i k hm
      split at h
      · simp only [reduceCtorEq] at h
      · rename_i msg hd
        simp only [TermOut.err.injEq] at h
        exact Or.inr ⟨k, msg, hm, hd, h.symm⟩
  · rintro (⟨he, hm⟩ | ⟨k, msg, hm, hd, he⟩)
    · rw [hm, he]; rfl
    · rw [hm]; simp only []; rw [hd, he]

theorem charSpec_node (l : Bytes) (pos : Nat) (n : Node) :
    charSpec l pos = .node n ↔
      ∃ r k v, l = 39 :: r ∧ charMatch r = some k ∧ (r.drop k).head? = some 39 ∧ Lang.charValue (r.take k) = some v ∧
        n = .term (tokOf "CHAR") (.rune v) pos (pos + 1 + k + 1) := by
  unfold charSpec
  constructor
  · intro h
    split at h
    · rename_i r
      split at h
      · simp only [other, reduceCtorEq] at h
      · rename_i k hm
        split at h
        · rename_i hd
          split at h
          · rename_i v hu
            simp only [TermOut.node.injEq] at h
            exact ⟨r, k, v, rfl, hm, hd, (unquoteChar_charValue _ v).mp hu, h.symm⟩
          · simp only [other, reduceCtorEq] at h
        · simp only [other, reduceCtorEq] at h
    · simp only [nf, reduceCtorEq] at h
  · rintro ⟨r, k, v, hl, hm, hd, hv, hn⟩
    subst hl
    simp only []
    rw [hm]
    simp only []
    rw [if_pos hd, (unquoteChar_charValue _ v).mpr hv, hn]

/-- node of a quoted string: empty, or body then closing quote -/
theorem quotedSpec_node (q : Nat) (body : Bytes → Option Bytes × Nat) (r : Bytes) (pos : Nat) (n : Node) :
    quotedSpec q body r pos = .node n ↔
      (r.head? = some q ∧ n = .term (tokOf "STRING") (.str []) pos (pos + 2)) ∨
      (r.head? ≠ some q ∧ r ≠ [] ∧ ((r.drop (body r).2).head? = some q) ∧
        n = .term (tokOf "STRING") (.str ((body r).1.getD [])) pos (pos + 1 + (body r).2 + 1)) := by
  unfold quotedSpec
  by_cases hd : r.head? = some q
  · rw [if_pos hd]
    constructor
    · intro h
      simp only [TermOut.node.injEq] at h
      exact Or.inl ⟨hd, h.symm⟩
    · rintro (⟨_, hn⟩ | ⟨hne, _⟩)
      · rw [hn]
      · exact absurd hd hne
  · rw [if_neg hd]
    by_cases hr : r = []
    · subst hr
      simp only [if_true, List.drop_nil, List.head?_nil]
      constructor
      · intro h; simp only [reduceCtorEq, if_false] at h
      · rintro (⟨h1, _⟩ | ⟨_, h2, _⟩)
        · exact absurd h1 hd
        · exact absurd rfl h2
    · rw [if_neg hr]
      simp only []
      by_cases h2 : (r.drop (body r).2).head? = some q
      · rw [if_pos h2]
        constructor
        · intro h
          simp only [TermOut.node.injEq] at h
          exact Or.inr ⟨hd, hr, h2, h.symm⟩
        · rintro (⟨h1, _⟩ | ⟨_, _, _, hn⟩)
          · exact absurd h1 hd
          · rw [hn]
      · rw [if_neg h2]
        constructor
        · intro h; simp only [reduceCtorEq] at h
        · rintro (⟨h1, _⟩ | ⟨_, _, h3, _⟩)
          · exact absurd h1 hd
          · exact absurd h3 h2


theorem ite_node_iff (c : Prop) [Decidable c] (a : Node) (name : Bytes) (pos : Nat) (n : Node) :
    (if c then TermOut.node a else nf pos name) = .node n ↔ c ∧ n = a := by
  by_cases hc : c
  · rw [if_pos hc]; simp only [TermOut.node.injEq]; exact ⟨fun h => ⟨hc, h.symm⟩, fun h => h.2.symm⟩
  · rw [if_neg hc]; simp only [nf, reduceCtorEq, false_iff]; exact fun h => hc h.1

theorem spec_rune_node (P : Params) (l : Bytes) (pos ch : Nat) (name : Bytes) (n : Node) :
    Terminal.spec P l pos (.rune ch name) = .node n ↔
      ∃ w, runeW ch l = some w ∧ n = .term (Utf8.encodeRune ch) (.rune ch) pos (pos + w) := by
  simp only [Terminal.spec]
  cases hw : runeW ch l with
  | none => simp only [nf, reduceCtorEq, false_and, exists_false]
  | some w =>
    simp only [TermOut.node.injEq, Option.some.injEq]
    exact ⟨fun h => ⟨w, rfl, h.symm⟩, fun ⟨w', h1, h2⟩ => by subst h1; exact h2.symm⟩

theorem spec_op_node (P : Params) (l : Bytes) (pos : Nat) (s name : Bytes) (n : Node) :
    Terminal.spec P l pos (.op s name) = .node n ↔ s <+: l ∧ n = .term s (.str s) pos (pos + s.length) := by
  simp only [Terminal.spec]; exact ite_node_iff _ _ _ _ _

theorem spec_word_node (P : Params) (l : Bytes) (pos : Nat) (w : Bytes) (v : Nat) (name : Bytes) (n : Node) :
    Terminal.spec P l pos (.word w v name) = .node n ↔
      wordAt w l = true ∧ n = .term (upperAscii w) (.opaque v) pos (pos + w.length) := by
  simp only [Terminal.spec]; exact ite_node_iff _ _ _ _ _

theorem spec_nil_node (P : Params) (l : Bytes) (pos : Nat) (w : Bytes) (n : Node) :
    Terminal.spec P l pos (.nil w) = .node n ↔ wordAt w l = true ∧ n = .term (tokOf "NIL") .nil pos (pos + w.length) := by
  simp only [Terminal.spec]; exact ite_node_iff _ _ _ _ _

theorem spec_bool_node (P : Params) (l : Bytes) (pos : Nat) (t e : Bytes) (n : Node) :
    Terminal.spec P l pos (.bool t e) = .node n ↔
      (wordAt t l = true ∧ n = .term (tokOf "BOOL") (.bool true) pos (pos + t.length)) ∨
      (wordAt t l = false ∧ wordAt e l = true ∧ n = .term (tokOf "BOOL") (.bool false) pos (pos + e.length)) := by
  simp only [Terminal.spec]
  by_cases ht : wordAt t l = true
  · rw [if_pos ht]
    simp only [TermOut.node.injEq]
    constructor
    · intro h; exact Or.inl ⟨ht, h.symm⟩
    · rintro (⟨_, h⟩ | ⟨h, _⟩)
      · exact h.symm
      · rw [ht] at h; cases h
  · rw [if_neg ht]
    rw [ite_node_iff]
    constructor
    · intro h; exact Or.inr ⟨bool_not_true ht, h⟩
    · rintro (⟨h, _⟩ | ⟨_, h⟩)
      · exact absurd h ht
      · exact h

theorem regexpSpec_node (P : Params) (id : Nat) (tok name : Bytes) (g : Bool) (l : Bytes) (pos : Nat) (n : Node) :
    regexpSpec P id tok name g l pos = .node n ↔
      l ≠ [] ∧ ∃ m gv, P.regexp id l = some (m, gv) ∧
        ((g = false ∧ n = .term tok (.str (l.take m)) pos (pos + m)) ∨
         (g = true ∧ ∃ gb, gv = some gb ∧ n = .term tok (.str gb) pos (pos + m))) := by
  unfold regexpSpec
  by_cases hl : l = []
  · rw [if_pos hl]; simp only [nf, reduceCtorEq, false_iff]; exact fun h => h.1 hl
  · rw [if_neg hl]
    cases hp : P.regexp id l with
    | none =>
      simp only [nf, reduceCtorEq, false_iff]
      rintro ⟨_, m, gv, h, _⟩; cases h
    | some p =>
      obtain ⟨m, gv⟩ := p
      simp only []
      cases g with
      | false =>
        simp only [Bool.false_eq_true, if_false, TermOut.node.injEq]
        constructor
        · intro h; exact ⟨hl, m, gv, rfl, Or.inl ⟨trivial, h.symm⟩⟩
        · rintro ⟨_, m', gv', h1, (⟨_, h2⟩ | ⟨h2, _⟩)⟩
          · cases h1; exact h2.symm
          · cases h2
      | true =>
        simp only [if_true]
        cases gv with
        | none =>
          simp only [reduceCtorEq, false_iff]
          rintro ⟨_, m', gv', h1, (⟨h2, _⟩ | ⟨_, gb, h2, _⟩)⟩
          · cases h2
          · cases h1; cases h2
        | some gb =>
          simp only [TermOut.node.injEq]
          constructor
          · intro h; exact ⟨hl, m, some gb, rfl, Or.inr ⟨trivial, gb, rfl, h.symm⟩⟩
          · rintro ⟨_, m', gv', h1, (⟨h2, _⟩ | ⟨_, gb', h2, h3⟩)⟩
            · cases h2
            · cases h1; cases h2; exact h3.symm

theorem stringSpec_node (bq : Bool) (l : Bytes) (pos : Nat) (n : Node) :
    stringSpec bq l pos = .node n ↔
      ∃ q r, l = q :: r ∧ (q = 34 ∨ (q = 96 ∧ bq = true)) ∧
        ((r.head? = some q ∧ n = .term (tokOf "STRING") (.str []) pos (pos + 2)) ∨
         (r.head? ≠ some q ∧ r ≠ [] ∧
          ∃ v k, (if q = 34 then Lang.strBody r else backquoteBody r) = (v, k) ∧ (r.drop k).head? = some q ∧
            n = .term (tokOf "STRING") (.str (v.getD [])) pos (pos + 1 + k + 1))) := by
  unfold stringSpec
  split
  · rename_i r
    rw [quotedSpec_node, unquoteString_eq]
    constructor
    · rintro (h | ⟨h1, h2, h3, h4⟩)
      · exact ⟨34, r, rfl, Or.inl rfl, Or.inl h⟩
      · exact ⟨34, r, rfl, Or.inl rfl, Or.inr ⟨h1, h2, _, _, rfl, h3, h4⟩⟩
    · rintro ⟨q, r', hl, _, h⟩
      cases hl
      rcases h with h | ⟨h1, h2, v, k, he, h3, h4⟩
      · exact Or.inl h
      · simp only [if_true] at he
        rw [he]; exact Or.inr ⟨h1, h2, h3, h4⟩
  · rename_i r
    by_cases hb : bq = true
    · rw [if_pos hb, quotedSpec_node]
      constructor
      · rintro (h | ⟨h1, h2, h3, h4⟩)
        · exact ⟨96, r, rfl, Or.inr ⟨rfl, hb⟩, Or.inl h⟩
        · exact ⟨96, r, rfl, Or.inr ⟨rfl, hb⟩, Or.inr ⟨h1, h2, _, _, rfl, h3, h4⟩⟩
      · rintro ⟨q, r', hl, _, h⟩
        cases hl
        rcases h with h | ⟨h1, h2, v, k, he, h3, h4⟩
        · exact Or.inl h
        · simp only [show ¬ (96 = 34) by omega, if_false] at he
          rw [he]; exact Or.inr ⟨h1, h2, h3, h4⟩
    · rw [if_neg hb]
      simp only [nf, reduceCtorEq, false_iff]
      rintro ⟨q, r', hl, hq, _⟩
      cases hl
      rcases hq with hq | ⟨_, hq⟩
      · omega
      · exact hb hq
  · rename_i h1 h2
    simp only [nf, reduceCtorEq, false_iff]
    rintro ⟨q, r', hl, hq, _⟩
    rcases hq with hq | ⟨hq, _⟩
    · subst hq; exact h1 r' hl
    · subst hq; exact h2 r' hl

end PV
