/-
  Lemmas for property C13.  `T` is a nested inductive (children are a `List T`), so every induction is a
  mutual structural recursion over trees and lists of trees.
-/
import ParsleyVerif.Spec.Postorder

namespace PV.Walk

/-! ### takeThrough -/

theorem takeThrough_append {α} (p : α → Bool) (l₁ l₂ : List α) :
    takeThrough p (l₁ ++ l₂) = if l₁.any p then takeThrough p l₁ else l₁ ++ takeThrough p l₂ := by
  induction l₁ with
  | nil => simp
  | cons a l ih =>
    by_cases h : p a <;> simp [takeThrough, h, ih]
    split <;> simp

theorem takeThrough_of_none {α} (p : α → Bool) (l : List α) (h : l.any p = false) : takeThrough p l = l := by
  induction l with
  | nil => rfl
  | cons a l ih =>
    simp only [List.any_cons, Bool.or_eq_false_iff] at h
    simp [takeThrough, h.1, ih h.2]

/-- the shape of `takeThrough` when some element satisfies `p` -/
theorem takeThrough_of_some {α} (p : α → Bool) (l : List α) (h : l.any p = true) :
    ∃ pre x post, l = pre ++ x :: post ∧ (∀ y ∈ pre, p y = false) ∧ p x = true ∧ takeThrough p l = pre ++ [x] := by
  induction l with
  | nil => simp at h
  | cons a l ih =>
    by_cases ha : p a
    · exact ⟨[], a, l, rfl, by simp, ha, by simp [takeThrough, ha]⟩
    · simp only [List.any_cons, ha, Bool.false_or] at h
      obtain ⟨pre, x, post, h1, h2, h3, h4⟩ := ih h
      refine ⟨a :: pre, x, post, by simp [h1], ?_, h3, by simp [takeThrough, ha, h4]⟩
      intro y hy
      rcases List.mem_cons.mp hy with rfl | hy
      · simpa using ha
      · exact h2 y hy

theorem takeThrough_prefix {α} (p : α → Bool) (l : List α) : takeThrough p l <+: l := by
  induction l with
  | nil => simp [takeThrough]
  | cons a l ih =>
    unfold takeThrough
    split
    · simp
    · exact (List.prefix_cons_inj a).mpr ih

/-- `takeThrough` in terms of library functions -/
theorem takeThrough_eq {α} (p : α → Bool) (l : List α) :
    takeThrough p l = l.takeWhile (fun a => !p a) ++ (l.dropWhile (fun a => !p a)).head?.toList := by
  induction l with
  | nil => rfl
  | cons a l ih => by_cases h : p a <;> simp [takeThrough, h, ih]

/-! ### Walk -/

mutual
theorem walk_spec (stop : Nat → Bool) : ∀ t, walk stop t = (takeThrough stop (postorder t), (postorder t).any stop)
  | .leaf i => by
    simp only [walk, postorder, takeThrough, List.any_cons, List.any_nil, Bool.or_false]
    split <;> rfl
  | .nt i _ _ cs => by
    rw [walk, walkList_spec stop cs, postorder, takeThrough_append]
    cases h : (postorderAll cs).any stop <;> simp [h, takeThrough, takeThrough_of_none]
  | .list i [] => by
    simp only [walk, postorder, takeThrough, List.any_cons, List.any_nil, Bool.or_false]
    split <;> rfl
  | .list i (first :: _) => by
    rw [walk, walk_spec stop first, postorder, takeThrough_append]
    cases h : (postorder first).any stop <;> simp [h, takeThrough, takeThrough_of_none]
theorem walkList_spec (stop : Nat → Bool) :
    ∀ cs, walkList stop cs = (takeThrough stop (postorderAll cs), (postorderAll cs).any stop)
  | [] => by simp [walkList, postorderAll, takeThrough]
  | c :: cs => by
    rw [walkList, walk_spec stop c, walkList_spec stop cs, postorderAll, takeThrough_append]
    cases h : (postorder c).any stop <;> simp [h, takeThrough_of_none]
end

/-! ### induction over trees -/

mutual
private theorem T.ind_go {P : T → Prop} (leaf : ∀ i, P (.leaf i))
    (nt : ∀ i interp s cs, (∀ c ∈ cs, P c) → P (.nt i interp s cs))
    (list : ∀ i items, (∀ c ∈ items, P c) → P (.list i items)) : ∀ t, P t
  | .leaf i => leaf i
  | .nt i interp s cs => nt i interp s cs (T.ind_all leaf nt list cs)
  | .list i items => list i items (T.ind_all leaf nt list items)
private theorem T.ind_all {P : T → Prop} (leaf : ∀ i, P (.leaf i))
    (nt : ∀ i interp s cs, (∀ c ∈ cs, P c) → P (.nt i interp s cs))
    (list : ∀ i items, (∀ c ∈ items, P c) → P (.list i items)) : ∀ l : List T, ∀ c ∈ l, P c
  | [] => by simp
  | c :: cs => by
    intro x hx
    rcases List.mem_cons.mp hx with h | hx
    · exact h ▸ T.ind_go leaf nt list c
    · exact T.ind_all leaf nt list cs x hx
end

/-- structural induction on trees -/
theorem T.ind {P : T → Prop} (leaf : ∀ i, P (.leaf i))
    (nt : ∀ i interp s cs, (∀ c ∈ cs, P c) → P (.nt i interp s cs))
    (list : ∀ i items, (∀ c ∈ items, P c) → P (.list i items)) (t : T) : P t :=
  T.ind_go leaf nt list t

/-! ### the nodes reached -/

theorem postorderAll_eq_flatMap (cs : List T) : postorderAll cs = cs.flatMap postorder := by
  induction cs with
  | nil => rfl
  | cons c cs ih => simp [postorderAll, ih]

theorem idsAll_eq_flatMap (cs : List T) : idsAll cs = cs.flatMap T.ids := by
  induction cs with
  | nil => rfl
  | cons c cs ih => simp [idsAll, ih]

/-- `postorder` in one equation -/
theorem postorder_eq (t : T) : postorder t = t.kids.flatMap postorder ++ [t.id] := by
  cases t with
  | leaf i => simp [postorder, T.kids, T.id]
  | nt i a b cs => simp [postorder, T.kids, T.id, postorderAll_eq_flatMap]
  | list i items => cases items <;> simp [postorder, T.kids, T.id]

mutual
theorem postorder_perm : ∀ t : T, (postorder t).Perm t.ids
  | .leaf i => by simp [postorder, T.ids]
  | .nt i _ _ cs => by
    rw [postorder, T.ids]
    exact (List.perm_append_singleton _ _).trans ((postorderAll_perm cs).cons i)
  | .list i [] => by simp [postorder, T.ids]
  | .list i (first :: _) => by
    rw [postorder, T.ids]
    exact (List.perm_append_singleton _ _).trans ((postorder_perm first).cons i)
theorem postorderAll_perm : ∀ cs : List T, (postorderAll cs).Perm (idsAll cs)
  | [] => by simp [postorderAll, idsAll]
  | c :: cs => by
    rw [postorderAll, idsAll]
    exact (postorder_perm c).append (postorderAll_perm cs)
end

theorem id_mem_postorder (t : T) : t.id ∈ postorder t := by
  rw [postorder_eq]; simp

theorem mem_postorder_of_sub {n t : T} (h : Sub n t) : n.id ∈ postorder t := by
  induction h with
  | self => exact id_mem_postorder n
  | @under c t hc _ ih =>
    rw [postorder_eq]
    exact List.mem_append_left _ (List.mem_flatMap.mpr ⟨c, hc, ih⟩)

theorem sub_of_mem_postorder (i : Nat) (t : T) : i ∈ postorder t → ∃ n, Sub n t ∧ n.id = i := by
  induction t using T.ind with
  | leaf j => intro h; exact ⟨.leaf j, .self _, by simpa [postorder, T.id, eq_comm] using h⟩
  | nt j a b cs ih =>
    intro h
    rw [postorder_eq] at h
    rcases List.mem_append.mp h with h | h
    · obtain ⟨c, hc, hi⟩ := List.mem_flatMap.mp h
      obtain ⟨n, hn, hid⟩ := ih c hc hi
      exact ⟨n, .under hc hn, hid⟩
    · exact ⟨_, .self _, by simpa [eq_comm] using h⟩
  | list j items ih =>
    intro h
    rw [postorder_eq] at h
    rcases List.mem_append.mp h with h | h
    · obtain ⟨c, hc, hi⟩ := List.mem_flatMap.mp h
      have hc' : c ∈ items := by
        cases items with
        | nil => simp [T.kids] at hc
        | cons f r => simp [T.kids] at hc; simp [hc]
      obtain ⟨n, hn, hid⟩ := ih c hc' hi
      exact ⟨n, .under hc hn, hid⟩
    · exact ⟨_, .self _, by simpa [eq_comm] using h⟩

/-! ### StaticCheck: the bottom-up specification -/

/-- the model's (tree, error) pair read as success / failure -/
def outcome {α} : α × Option Nat → Except Nat α
  | (a, none) => .ok a
  | (_, some e) => .error e

@[simp] theorem outcome_none {α} (a : α) : outcome (a, none) = .ok a := rfl
@[simp] theorem outcome_some {α} (a : α) (e : Nat) : outcome (a, some e) = .error e := rfl

@[simp] theorem except_bind_ok {ε α β} (a : α) (f : α → Except ε β) : ((Except.ok a : Except ε α) >>= f) = f a := rfl
@[simp] theorem except_bind_error {ε α β} (e : ε) (f : α → Except ε β) : ((Except.error e : Except ε α) >>= f) = .error e := rfl
@[simp] theorem except_pure {ε α} (a : α) : (pure a : Except ε α) = .ok a := rfl
@[simp] theorem except_map_ok {ε α β} (a : α) (f : α → β) : (f <$> (Except.ok a : Except ε α)) = .ok (f a) := rfl
@[simp] theorem except_map_error {ε α β} (e : ε) (f : α → β) : (f <$> (Except.error e : Except ε α)) = .error e := rfl

theorem capable_some (has : ICap → Bool) (caps : Nat → ICap) (k : Nat) :
    capable has caps (some k) = if has (caps k) then some k else none := by
  simp [capable, Option.filter]

@[simp] theorem capable_none (has : ICap → Bool) (caps : Nat → ICap) : capable has caps none = none := rfl

mutual
theorem checkSpec_eq (caps : Nat → ICap) (chk : Checker) : ∀ t, checkSpec caps chk t = outcome (check caps chk t)
  | .leaf i => by simp [checkSpec, check]
  | .nt i interp schema cs => by
    rw [checkSpec, check, checkSpecAll_eq caps chk cs]
    rcases checkList caps chk cs with ⟨cs', _ | e⟩
    · cases interp with
      | none => simp
      | some k =>
        simp only [outcome_none, except_bind_ok, capable_some]
        cases (caps k).checker
        · simp
        · simp only [if_true]
          cases chk k (.nt i (some k) schema cs') <;> simp
    · simp
  | .list i [] => by simp [checkSpec, check]
  | .list i (first :: rest) => by
    rw [checkSpec, check, checkSpec_eq caps chk first]
    rcases check caps chk first with ⟨f', _ | e⟩ <;> simp
theorem checkSpecAll_eq (caps : Nat → ICap) (chk : Checker) :
    ∀ cs, checkSpecAll caps chk cs = outcome (checkList caps chk cs)
  | [] => by simp [checkSpecAll, checkList]
  | c :: cs => by
    rw [checkSpecAll, checkList, checkSpec_eq caps chk c, checkSpecAll_eq caps chk cs]
    rcases check caps chk c with ⟨c', _ | e⟩
    · rcases checkList caps chk cs with ⟨cs', _ | e⟩ <;> simp
    · simp
end

mutual
theorem recorded_of_checkSpec (caps : Nat → ICap) (chk : Checker) :
    ∀ t t', checkSpec caps chk t = .ok t' → Recorded caps chk t t'
  | .leaf i, t' => by simp [checkSpec, Recorded, eq_comm]
  | .nt i interp schema cs, t' => by
    rw [checkSpec, Recorded]
    cases h : checkSpecAll caps chk cs with
    | error e => simp
    | ok cs' =>
      have ih := recordedAll_of_checkSpecAll caps chk cs cs' h
      simp only [except_bind_ok]
      cases hc : capable (·.checker) caps interp with
      | none => simp only [except_pure, Except.ok.injEq]; rintro rfl; exact ⟨schema, cs', rfl, ih, rfl⟩
      | some k =>
        simp only []
        cases hk : chk k (.nt i interp schema cs') with
        | error e => simp
        | ok s => simp only [except_bind_ok, except_pure, Except.ok.injEq]; rintro rfl; exact ⟨s, cs', rfl, ih, hk⟩
  | .list i [], t' => by simp [checkSpec, Recorded, eq_comm]
  | .list i (first :: rest), t' => by
    rw [checkSpec, Recorded]
    cases h : checkSpec caps chk first with
    | error e => simp
    | ok f' =>
      simp only [except_bind_ok, except_pure, Except.ok.injEq]
      rintro rfl
      exact ⟨f', rfl, recorded_of_checkSpec caps chk first f' h⟩
theorem recordedAll_of_checkSpecAll (caps : Nat → ICap) (chk : Checker) :
    ∀ cs cs', checkSpecAll caps chk cs = .ok cs' → RecordedAll caps chk cs cs'
  | [], cs' => by simp [checkSpecAll, RecordedAll, eq_comm]
  | c :: cs, l' => by
    rw [checkSpecAll, RecordedAll]
    cases h : checkSpec caps chk c with
    | error e => simp
    | ok c' =>
      cases h2 : checkSpecAll caps chk cs with
      | error e => simp
      | ok cs' =>
        simp only [except_bind_ok, except_pure, Except.ok.injEq]
        rintro rfl
        exact ⟨c', cs', rfl, recorded_of_checkSpec caps chk c c' h, recordedAll_of_checkSpecAll caps chk cs cs' h2⟩
end

/-- `RecordedAll` is `Recorded` child by child -/
theorem recordedAll_iff (caps : Nat → ICap) (chk : Checker) (cs cs' : List T) :
    RecordedAll caps chk cs cs' ↔ cs.length = cs'.length ∧ ∀ p ∈ cs.zip cs', Recorded caps chk p.1 p.2 := by
  induction cs generalizing cs' with
  | nil => cases cs' <;> simp [RecordedAll]
  | cons c cs ih =>
    cases cs' with
    | nil => simp [RecordedAll]
    | cons c' cs' =>
      simp only [RecordedAll, List.cons.injEq, ih, List.length_cons, List.zip_cons_cons, List.mem_cons]
      constructor
      · rintro ⟨_, _, ⟨rfl, rfl⟩, h1, h2, h3⟩
        refine ⟨by omega, ?_⟩
        rintro p (rfl | hp)
        · exact h1
        · exact h3 p hp
      · rintro ⟨h1, h2⟩
        exact ⟨c', cs', ⟨rfl, rfl⟩, h2 _ (.inl rfl), by omega, fun p hp => h2 p (.inr hp)⟩

/-! ### StaticCheck by position -/

/-- position of the first failing check (the length if there is none) -/
def firstBad (l : List (Option Nat)) : Nat := l.findIdx Option.isSome
/-- the error of the first failing check -/
def firstErr (l : List (Option Nat)) : Option Nat := l.findSome? id

@[simp] theorem firstBad_nil : firstBad [] = 0 := rfl
@[simp] theorem firstErr_nil : firstErr [] = none := rfl
@[simp] theorem firstBad_none (l : List (Option Nat)) : firstBad (none :: l) = firstBad l + 1 := by
  simp [firstBad, List.findIdx_cons]
@[simp] theorem firstBad_some (e : Nat) (l : List (Option Nat)) : firstBad (some e :: l) = 0 := by
  simp [firstBad, List.findIdx_cons]
@[simp] theorem firstErr_none (l : List (Option Nat)) : firstErr (none :: l) = firstErr l := by
  simp [firstErr]
@[simp] theorem firstErr_some (e : Nat) (l : List (Option Nat)) : firstErr (some e :: l) = some e := by
  simp [firstErr]

theorem firstBad_of_none (l : List (Option Nat)) (h : firstErr l = none) : firstBad l = l.length := by
  induction l with
  | nil => rfl
  | cons a l ih =>
    cases a with
    | none => simp at h; simp [ih h]
    | some e => simp at h

theorem firstBad_of_some (l : List (Option Nat)) (e : Nat) (h : firstErr l = some e) : firstBad l < l.length := by
  induction l with
  | nil => simp at h
  | cons a l ih =>
    cases a with
    | none => simp at h; simp [ih h]
    | some e => simp

theorem first_append_some (l₁ l₂ : List (Option Nat)) (e : Nat) (h : firstErr l₁ = some e) :
    firstBad (l₁ ++ l₂) = firstBad l₁ ∧ firstErr (l₁ ++ l₂) = some e := by
  induction l₁ with
  | nil => simp at h
  | cons a l ih =>
    cases a with
    | none => simp at h; simpa using ih h
    | some e' => simp at h; simp [h]

theorem first_append_none (l₁ l₂ : List (Option Nat)) (h : firstErr l₁ = none) :
    firstBad (l₁ ++ l₂) = l₁.length + firstBad l₂ ∧ firstErr (l₁ ++ l₂) = firstErr l₂ := by
  induction l₁ with
  | nil => simp
  | cons a l ih =>
    cases a with
    | none =>
      simp at h
      have := ih h
      simp [this]
      omega
    | some e' => simp at h

/-- the first failing position holds the returned error, every position before it holds a success -/
theorem first_spec (l : List (Option Nat)) (e : Nat) (h : firstErr l = some e) :
    l[firstBad l]? = some (some e) ∧ ∀ j, j < firstBad l → l[j]? = some none := by
  induction l with
  | nil => simp at h
  | cons a l ih =>
    cases a with
    | none =>
      simp at h
      obtain ⟨h1, h2⟩ := ih h
      refine ⟨by simpa using h1, ?_⟩
      intro j hj
      cases j with
      | zero => simp
      | succ j => simp at hj; simpa using h2 j hj
    | some e' => simp at h; simp [h]

theorem sizeAll_cons (c : T) (cs : List T) : sizeAll (c :: cs) = c.size + sizeAll cs := by
  simp [sizeAll, T.size, postorderAll]

@[simp] theorem sizeAll_nil : sizeAll [] = 0 := rfl

theorem size_nt (i : Nat) (a b : Option Nat) (cs : List T) : (T.nt i a b cs).size = sizeAll cs + 1 := by
  simp [sizeAll, T.size, postorder]

theorem size_list_cons (i : Nat) (f : T) (r : List T) : (T.list i (f :: r)).size = f.size + 1 := by
  simp [T.size, postorder]

mutual
theorem verdicts_length (caps : Nat → ICap) (chk : Checker) : ∀ t, (verdicts caps chk t).length = t.size
  | .leaf i => by simp [verdicts, T.size, postorder]
  | .nt i a b cs => by rw [verdicts, size_nt, List.length_append, verdictsAll_length caps chk cs]; rfl
  | .list i [] => by simp [verdicts, T.size, postorder]
  | .list i (f :: r) => by rw [verdicts, size_list_cons, List.length_append, verdicts_length caps chk f]; rfl
theorem verdictsAll_length (caps : Nat → ICap) (chk : Checker) : ∀ cs, (verdictsAll caps chk cs).length = sizeAll cs
  | [] => by simp [verdictsAll]
  | c :: cs => by
    rw [verdictsAll, sizeAll_cons, List.length_append, verdicts_length caps chk c, verdictsAll_length caps chk cs]
end

mutual
/-- nothing checked: nothing changed -/
theorem checkedPrefix_zero (caps : Nat → ICap) (chk : Checker) : ∀ t, checkedPrefix caps chk 0 t = t
  | .leaf i => by simp [checkedPrefix]
  | .nt i a b cs => by simp [checkedPrefix, checkedPrefixAll_zero caps chk cs]
  | .list i [] => by simp [checkedPrefix]
  | .list i (f :: r) => by simp [checkedPrefix, checkedPrefix_zero caps chk f]
theorem checkedPrefixAll_zero (caps : Nat → ICap) (chk : Checker) : ∀ cs, checkedPrefixAll caps chk 0 cs = cs
  | [] => by simp [checkedPrefixAll]
  | c :: cs => by simp [checkedPrefixAll, checkedPrefix_zero caps chk c, checkedPrefixAll_zero caps chk cs]
end

mutual
/-- a tree has only `size` nodes to check -/
theorem checkedPrefix_sat (caps : Nat → ICap) (chk : Checker) :
    ∀ t n, t.size ≤ n → checkedPrefix caps chk n t = checkedPrefix caps chk t.size t
  | .leaf i, n, _ => by simp [checkedPrefix]
  | .nt i a b cs, n, h => by
    rw [size_nt] at h
    rw [checkedPrefix, checkedPrefix, size_nt, checkedPrefixAll_sat caps chk cs n (by omega),
      checkedPrefixAll_sat caps chk cs (sizeAll cs + 1) (by omega)]
    have h1 : sizeAll cs < n := by omega
    simp [h1]
  | .list i [], n, _ => by simp [checkedPrefix]
  | .list i (f :: r), n, h => by
    rw [size_list_cons] at h
    rw [checkedPrefix, checkedPrefix, size_list_cons, checkedPrefix_sat caps chk f n (by omega),
      checkedPrefix_sat caps chk f (f.size + 1) (by omega)]
theorem checkedPrefixAll_sat (caps : Nat → ICap) (chk : Checker) :
    ∀ cs n, sizeAll cs ≤ n → checkedPrefixAll caps chk n cs = checkedPrefixAll caps chk (sizeAll cs) cs
  | [], n, _ => by simp [checkedPrefixAll]
  | c :: cs, n, h => by
    rw [sizeAll_cons] at h
    rw [checkedPrefixAll, checkedPrefixAll, sizeAll_cons, checkedPrefix_sat caps chk c n (by omega),
      checkedPrefix_sat caps chk c (c.size + sizeAll cs) (by omega),
      checkedPrefixAll_sat caps chk cs (n - c.size) (by omega),
      checkedPrefixAll_sat caps chk cs (c.size + sizeAll cs - c.size) (by omega)]
end

mutual
theorem check_pos (caps : Nat → ICap) (chk : Checker) : ∀ t,
    check caps chk t = (checkedPrefix caps chk (firstBad (verdicts caps chk t)) t, firstErr (verdicts caps chk t))
  | .leaf i => by simp [check, checkedPrefix, verdicts, verdictAt]
  | .nt i interp schema cs => by
    have hlen := verdictsAll_length caps chk cs
    rw [check, checkList_pos caps chk cs, verdicts]
    cases hE : firstErr (verdictsAll caps chk cs) with
    | some e =>
      obtain ⟨h1, h2⟩ := first_append_some _ [verdictAt caps chk (.nt i interp schema cs)] e hE
      have h3 := firstBad_of_some _ e hE
      rw [h1, h2, checkedPrefix]
      have : ¬ sizeAll cs < firstBad (verdictsAll caps chk cs) := by omega
      simp [this]
    | none =>
      obtain ⟨h1, h2⟩ := first_append_none _ [verdictAt caps chk (.nt i interp schema cs)] hE
      have h3 := firstBad_of_none _ hE
      rw [h1, h2, h3, hlen, checkedPrefix]
      simp only []
      cases interp with
      | none =>
        simp [verdictAt]
        exact (checkedPrefixAll_sat caps chk cs _ (by omega)).symm
      | some k =>
        simp only [verdictAt, capable_some, checkedAll]
        cases (caps k).checker with
        | false =>
          simp
          exact (checkedPrefixAll_sat caps chk cs _ (by omega)).symm
        | true =>
          simp only [if_true]
          cases hk : chk k (.nt i (some k) schema (checkedPrefixAll caps chk (sizeAll cs) cs)) with
          | ok s =>
            simp
            rw [checkedPrefixAll_sat caps chk cs _ (by omega : sizeAll cs ≤ sizeAll cs + 1), hk]
          | error e => simp
  | .list i [] => by simp [check, checkedPrefix, verdicts]
  | .list i (f :: r) => by
    rw [check, check_pos caps chk f, verdicts, checkedPrefix]
    cases hE : firstErr (verdicts caps chk f) with
    | some e =>
      obtain ⟨h1, h2⟩ := first_append_some _ [none] e hE
      rw [h1, h2]
    | none =>
      obtain ⟨h1, h2⟩ := first_append_none _ [none] hE
      have h3 := firstBad_of_none _ hE
      rw [h1, h2, h3, verdicts_length]
      simp
      exact (checkedPrefix_sat caps chk f _ (by omega)).symm
theorem checkList_pos (caps : Nat → ICap) (chk : Checker) : ∀ cs,
    checkList caps chk cs =
      (checkedPrefixAll caps chk (firstBad (verdictsAll caps chk cs)) cs, firstErr (verdictsAll caps chk cs))
  | [] => by simp [checkList, checkedPrefixAll, verdictsAll]
  | c :: cs => by
    have hlen := verdicts_length caps chk c
    rw [checkList, check_pos caps chk c, checkList_pos caps chk cs, verdictsAll, checkedPrefixAll]
    cases hE : firstErr (verdicts caps chk c) with
    | some e =>
      obtain ⟨h1, h2⟩ := first_append_some _ (verdictsAll caps chk cs) e hE
      have h3 := firstBad_of_some _ e hE
      rw [h1, h2]
      simp only []
      rw [show firstBad (verdicts caps chk c) - c.size = 0 by omega, checkedPrefixAll_zero]
    | none =>
      obtain ⟨h1, h2⟩ := first_append_none _ (verdictsAll caps chk cs) hE
      have h3 := firstBad_of_none _ hE
      rw [h1, h2, h3, hlen]
      simp only []
      rw [show c.size + firstBad (verdictsAll caps chk cs) - c.size = firstBad (verdictsAll caps chk cs) by omega,
        checkedPrefix_sat caps chk c (c.size + _) (by omega)]
end

/-! ### Transform -/

mutual
theorem transform_spec (caps : Nat → ICap) (tr : Transformer) : ∀ t, transform caps tr t = transformSpec caps tr t
  | .leaf i => by simp [transform, transformSpec]
  | .list i items => by simp [transform, transformSpec]
  | .nt i interp schema cs => by
    have ih := transformList_spec caps tr cs
    cases interp with
    | none =>
      rw [transform, transformSpec, ih]
      cases transformSpecAll caps tr cs <;> simp
    | some k =>
      rw [transform, transformSpec, ih, capable_some]
      cases (caps k).transformer
      · cases transformSpecAll caps tr cs <;> simp
      · simp
theorem transformList_spec (caps : Nat → ICap) (tr : Transformer) :
    ∀ cs, transformList caps tr cs = transformSpecAll caps tr cs
  | [] => by simp [transformList, transformSpecAll]
  | c :: cs => by
    rw [transformList, transformSpecAll, transform_spec caps tr c, transformList_spec caps tr cs]
    cases transformSpec caps tr c with
    | error e => simp
    | ok c' => cases transformSpecAll caps tr cs <;> simp
end

theorem transformSpecAll_eq_mapM (caps : Nat → ICap) (tr : Transformer) (cs : List T) :
    transformSpecAll caps tr cs = cs.mapM (transformSpec caps tr) := by
  induction cs with
  | nil => simp [transformSpecAll]
  | cons c cs ih => simp [transformSpecAll, ih]

theorem checkSpecAll_eq_mapM (caps : Nat → ICap) (chk : Checker) (cs : List T) :
    checkSpecAll caps chk cs = cs.mapM (checkSpec caps chk) := by
  induction cs with
  | nil => simp [checkSpecAll]
  | cons c cs ih => simp [checkSpecAll, ih]

end PV.Walk

/-! ### evaluation -/
namespace PV
open PV.Text

theorem everySecond_length {α} : ∀ l : List α, (everySecond l).length = (l.length + 1) / 2
  | [] => by simp [everySecond]
  | [_] => by simp [everySecond]
  | _ :: _ :: r => by simp [everySecond, everySecond_length r]; omega

/-- `everySecond` takes the elements at the even indices -/
theorem everySecond_getElem? {α} : ∀ (l : List α) (j : Nat), (everySecond l)[j]? = l[2 * j]?
  | [], j => by simp [everySecond]
  | [a], j => by cases j <;> simp [everySecond, Nat.mul_add]
  | a :: b :: r, j => by
    cases j with
    | zero => simp [everySecond]
    | succ j => simp [everySecond, everySecond_getElem? r j, Nat.mul_add]

theorem everySecond_subset {α} : ∀ (l : List α) (x : α), x ∈ everySecond l → x ∈ l
  | [], x => by simp [everySecond]
  | [a], x => by simp [everySecond]
  | a :: b :: r, x => by
    simp only [everySecond, List.mem_cons]
    rintro (h | h)
    · exact .inl h
    · exact .inr (.inr (everySecond_subset r x h))

theorem evalArray_spec (ev : Node → EvalOut) : ∀ cs acc,
    evalArray ev cs acc = EvalOut.ofExcept (fun vs => .arr (acc ++ vs)) (evalSeq ev (everySecond cs))
  | [], acc => by simp [evalArray, everySecond, evalSeq, EvalOut.ofExcept]
  | [c], acc => by
    simp only [evalArray, everySecond, evalSeq]
    cases ev c <;> simp [EvalOut.toExcept, EvalOut.ofExcept]
  | c :: _ :: rest, acc => by
    simp only [evalArray, everySecond, evalSeq]
    cases ev c with
    | ok v =>
      simp only [EvalOut.toExcept, Walk.except_bind_ok, evalArray_spec ev rest]
      cases evalSeq ev (everySecond rest) <;> simp [EvalOut.ofExcept]
    | err p m => simp [EvalOut.toExcept, EvalOut.ofExcept]
    | panic s => simp [EvalOut.toExcept, EvalOut.ofExcept]

theorem evalKeyValue_spec (ev : Node → EvalOut) (kv : Node) (acc : List (Bytes × V)) :
    evalKeyValue ev kv acc = (fun p => objSet acc p.1 p.2) <$> kvOf ev kv := by
  cases kv with
  | nt tok kcs pos rpos interp =>
    simp only [evalKeyValue, kvOf]
    cases kcs[0]? with
    | none => simp [Option.elim]
    | some kn =>
      cases kcs[2]? with
      | none => cases h1 : ev kn <;> simp [Option.elim, EvalOut.toExcept, h1]
      | some vn =>
        cases h1 : ev kn with
        | ok key =>
          cases h2 : ev vn with
          | ok v => cases key <;> simp [Option.elim, EvalOut.toExcept, h1, h2]
          | err p m => simp [Option.elim, EvalOut.toExcept, h1, h2]
          | panic s => simp [Option.elim, EvalOut.toExcept, h1, h2]
        | err p m => simp [Option.elim, EvalOut.toExcept, h1]
        | panic s => simp [Option.elim, EvalOut.toExcept, h1]
  | term _ _ _ _ => simp [evalKeyValue, kvOf]
  | empty _ => simp [evalKeyValue, kvOf]
  | eof _ => simp [evalKeyValue, kvOf]

theorem evalObject_spec (ev : Node → EvalOut) : ∀ cs acc,
    evalObject ev cs acc =
      EvalOut.ofExcept (fun kvs => .obj (kvs.foldl (fun m kv => objSet m kv.1 kv.2) acc)) (kvSeq ev (everySecond cs))
  | [], acc => by simp [evalObject, everySecond, kvSeq, EvalOut.ofExcept]
  | [c], acc => by
    simp only [evalObject, everySecond, kvSeq, evalKeyValue_spec]
    cases kvOf ev c <;> simp [EvalOut.ofExcept]
  | c :: _ :: rest, acc => by
    simp only [evalObject, everySecond, kvSeq, evalKeyValue_spec]
    cases kvOf ev c with
    | error e => simp [EvalOut.ofExcept]
    | ok kv =>
      simp only [Walk.except_map_ok, Walk.except_bind_ok, evalObject_spec ev rest]
      cases kvSeq ev (everySecond rest) <;> simp [EvalOut.ofExcept]

/-! a map: assignment, lookup -/

theorem mapGet_objSet (m : List (Bytes × V)) (k' : Bytes) (v : V) (k : Bytes) :
    mapGet (objSet m k' v) k = if k = k' then some v else mapGet m k := by
  induction m with
  | nil => by_cases h : k = k' <;> simp [objSet, mapGet, h, eq_comm]
  | cons a m ih =>
    obtain ⟨ka, va⟩ := a
    unfold objSet
    by_cases h1 : k' = ka
    · subst h1
      by_cases h : k = k' <;> simp [mapGet, h, eq_comm]
    · simp only [h1, if_false]
      by_cases h2 : ka = k
      · subst h2
        have : ¬ ka = k' := fun h => h1 h.symm
        simp [mapGet, this]
      · have ih' := ih
        simp only [mapGet] at ih' ⊢
        simp [h2, ih']

/-- the last pair with key `k` decides (later duplicates overwrite earlier ones) -/
theorem mapGet_foldl (kvs : List (Bytes × V)) (m : List (Bytes × V)) (k : Bytes) :
    mapGet (kvs.foldl (fun m kv => objSet m kv.1 kv.2) m) k =
      match kvs.reverse.find? (fun kv => kv.1 = k) with
      | some kv => some kv.2
      | none => mapGet m k := by
  induction kvs generalizing m with
  | nil => simp
  | cons kv kvs ih =>
    rw [List.foldl_cons, ih, List.reverse_cons, List.find?_append]
    cases kvs.reverse.find? (fun kv => decide (kv.1 = k)) with
    | some x => simp
    | none =>
      simp only [Option.none_or, mapGet_objSet, List.find?_cons]
      by_cases h : kv.1 = k
      · simp [h]
      · have : ¬ k = kv.1 := fun h' => h h'.symm
        simp [h, this]

theorem objSet_keys (m : List (Bytes × V)) (k : Bytes) (v : V) :
    (objSet m k v).map (·.1) = if k ∈ m.map (·.1) then m.map (·.1) else m.map (·.1) ++ [k] := by
  induction m with
  | nil => simp [objSet]
  | cons a m ih =>
    obtain ⟨ka, va⟩ := a
    unfold objSet
    by_cases h : k = ka
    · simp [h]
    · simp only [h, if_false, List.map_cons, ih, List.mem_cons, false_or]
      split <;> simp

/-- a map holds every key once -/
theorem objSet_nodup (m : List (Bytes × V)) (k : Bytes) (v : V) (h : (m.map (·.1)).Nodup) :
    ((objSet m k v).map (·.1)).Nodup := by
  rw [objSet_keys]
  split
  · exact h
  · rename_i hk
    rw [List.nodup_append]
    exact ⟨h, by simp, by intro a ha b hb; simp at hb; subst hb; intro hab; subst hab; exact hk ha⟩

theorem foldl_objSet_nodup (kvs m : List (Bytes × V)) (h : (m.map (·.1)).Nodup) :
    ((kvs.foldl (fun m kv => objSet m kv.1 kv.2) m).map (·.1)).Nodup := by
  induction kvs generalizing m with
  | nil => exact h
  | cons kv kvs ih => exact ih _ (objSet_nodup m kv.1 kv.2 h)

/-! fuel -/

theorem depth_le_depthAll {c : Node} : ∀ {cs : List Node}, c ∈ cs → c.depth ≤ depthAll cs
  | [], h => by simp at h
  | x :: xs, h => by
    simp only [depthAll]
    rcases List.mem_cons.mp h with h | h
    · subst h; omega
    · have := depth_le_depthAll h; omega

theorem evalArray_congr (ev ev' : Node → EvalOut) : ∀ cs acc, (∀ c ∈ cs, ev c = ev' c) →
    evalArray ev cs acc = evalArray ev' cs acc
  | [], acc, _ => by simp [evalArray]
  | [c], acc, h => by simp [evalArray, h c]
  | c :: x :: rest, acc, h => by
    simp only [evalArray, h c (by simp)]
    cases ev' c <;> simp
    exact evalArray_congr ev ev' rest _ (fun y hy => h y (by simp [hy]))

theorem evalKeyValue_congr (ev ev' : Node → EvalOut) (d : Nat) (h : ∀ c, c.depth < d → ev c = ev' c)
    (kv : Node) (hd : kv.depth ≤ d) (acc : List (Bytes × V)) : evalKeyValue ev kv acc = evalKeyValue ev' kv acc := by
  cases kv with
  | nt tok kcs pos rpos interp =>
    simp only [Node.depth] at hd
    simp only [evalKeyValue]
    cases h0 : kcs[0]? with
    | none => rfl
    | some kn =>
      have hk := depth_le_depthAll (List.mem_of_getElem? h0)
      simp only [h kn (by omega)]
      cases h2 : kcs[2]? with
      | none => rfl
      | some vn =>
        have hv := depth_le_depthAll (List.mem_of_getElem? h2)
        simp only [h vn (by omega)]
  | term _ _ _ _ => rfl
  | empty _ => rfl
  | eof _ => rfl

theorem evalObject_congr (ev ev' : Node → EvalOut) (d : Nat) (h : ∀ c, c.depth < d → ev c = ev' c) :
    ∀ cs acc, depthAll cs ≤ d → evalObject ev cs acc = evalObject ev' cs acc
  | [], acc, _ => by simp [evalObject]
  | [c], acc, hd => by
    simp only [depthAll] at hd
    simp [evalObject, evalKeyValue_congr ev ev' d h c (by omega)]
  | c :: x :: rest, acc, hd => by
    simp only [depthAll] at hd
    simp only [evalObject, evalKeyValue_congr ev ev' d h c (by omega)]
    cases evalKeyValue ev' c acc <;> simp
    exact evalObject_congr ev ev' d h rest _ (by omega)

theorem evalNode_fuel (ce : CustomEval) (hce : CustomLocal ce) :
    ∀ (f f' : Nat) (t : Node), t.depth < f → t.depth < f' → evalNode ce f t = evalNode ce f' t := by
  intro f
  induction f with
  | zero => intro f' t h; omega
  | succ a ih =>
    intro f' t h h'
    cases f' with
    | zero => omega
    | succ b =>
      cases t with
      | term _ _ _ _ => simp [evalNode]
      | empty _ => simp [evalNode]
      | eof _ => simp [evalNode]
      | nt tok cs pos rpos interp =>
        simp only [Node.depth] at h h'
        have agree : ∀ c, c.depth ≤ depthAll cs → evalNode ce a c = evalNode ce b c :=
          fun c hc => ih b c (by omega) (by omega)
        cases interp with
        | none => simp [evalNode]
        | nilI => simp [evalNode]
        | select i =>
          simp only [evalNode]
          cases hi : cs[i]? with
          | none => rfl
          | some c => exact agree c (depth_le_depthAll (List.mem_of_getElem? hi))
        | array =>
          simp only [evalNode]
          exact evalArray_congr _ _ cs [] (fun c hc => agree c (depth_le_depthAll hc))
        | object =>
          simp only [evalNode]
          exact evalObject_congr _ _ (depthAll cs) (fun c hc => agree c (by omega)) cs [] (Nat.le_refl _)
        | custom id =>
          simp only [evalNode]
          exact hce id cs pos _ _ agree

end PV
