/-
  C17, part 12: the arithmetic family — counting.

  The input `1 o₁ 1 … o_k 1` is described by its terms: term `i` (i ≤ s) starts at the odd position
  `q_i = 2·pre i + 1` and has `r_i` stars, `pre i = Σ_{i' < i} (r_{i'} + 1)`, `pre (s+1) = k + 1`  (`ArTerms`).
  * `T` at `q_i`: level `j` returns the ends `q_i + 1 + 2t`, t < min(j, r_i + 1)                     (`TN_rpos`).
  * `E` at 1: level `j` returns the ends of the first min(j, s+1) terms, last term first                (`EN_rpos`).
  * every `T` behind a `+` starts a term; with the potential `phi K = Σ_i (cost of the first run of `T` at `q_i` if `K`
    has no entry for it)` the calls of the loops do not depend on the order of the look-ups          (`pot_pCache`):
        EC J + phi (EK J) = Σ_{j<J} (3 + |EN j| + #{x ∈ EN j followed by +}) + phi []              (`EC_pot`)
    and `phi (EK J) = 0` once `J > s`                                                                (`phi_EK_zero`).
-/
import ParsleyVerif.Proofs.CallsArith
namespace PV.C17b
open PV.Text PV.C17

/-- the ends `q + 1 + 2t`, t < m, last first -/
def tl (q : Nat) : Nat → List Nat
  | 0 => []
  | m + 1 => (q + 2 * m + 1) :: tl q m

theorem tl_length (q : Nat) : ∀ m, (tl q m).length = m := by
  intro m; induction m with
  | zero => rfl
  | succ m ih => simp [tl, ih]

theorem tl_mem (q : Nat) : ∀ m p, p ∈ tl q m ↔ ∃ t, t < m ∧ p = q + 1 + 2 * t := by
  intro m
  induction m with
  | zero => intro p; simp [tl]
  | succ m ih =>
    intro p
    simp only [tl, List.mem_cons, ih]
    constructor
    · rintro (rfl | ⟨t, ht, rfl⟩)
      · exact ⟨m, by omega, by omega⟩
      · exact ⟨t, by omega, rfl⟩
    · rintro ⟨t, ht, rfl⟩
      by_cases h : t = m
      · left; omega
      · right; exact ⟨t, by omega, rfl⟩

theorem tl_map_succ (q : Nat) : ∀ m, (tl q m).map (· + 2) ++ [q + 1] = tl q (m + 1) := by
  intro m; induction m with
  | zero => rfl
  | succ m ih =>
    show (q + 2 * m + 1 + 2) :: ((tl q m).map (· + 2) ++ [q + 1]) = _
    rw [ih]; rfl

/-- the filter of `tl q m` by a predicate that holds exactly for t < r -/
theorem tl_filter_lt (q r : Nat) (p : Nat → Bool) : ∀ m, m ≤ r + 1 →
    (∀ t, t ≤ r → p (q + 1 + 2 * t) = decide (t < r)) → (tl q m).filter p = tl q (min m r) := by
  intro m
  induction m with
  | zero => intro _ _; simp [tl]
  | succ m ih =>
    intro hm hp
    have h1 := hp m (by omega)
    have e : q + 2 * m + 1 = q + 1 + 2 * m := by omega
    rw [tl, List.filter_cons, e, h1, ih (by omega) hp]
    by_cases h : m < r
    · have e1 : min m r = m := by omega
      have e2 : min (m + 1) r = m + 1 := by omega
      simp only [h, decide_true, ↓reduceIte, e1, e2, tl, e]
    · have e1 : min (m + 1) r = min m r := by omega
      simp only [h, decide_false, Bool.false_eq_true, ↓reduceIte, e1]

theorem filter_star_rpos (data : Bytes) (l : List Node) :
    ((l.filter (isStar data)).map starExt).map Node.rpos = ((l.map Node.rpos).filter (fol data 42)).map (· + 2) := by
  induction l with
  | nil => rfl
  | cons x l ih =>
    simp only [List.filter_cons, List.map_cons]
    by_cases h : isStar data x = true
    · have h' : fol data 42 x.rpos = true := h
      simp only [h, h', ↓reduceIte, List.map_cons, starExt_rpos, ih]
    · have h2 : isStar data x = false := by simpa using h
      have h' : fol data 42 x.rpos = false := h2
      simp only [h2, h', Bool.false_eq_true, ↓reduceIte, ih]

theorem filter_star_length (data : Bytes) (l : List Node) :
    (l.filter (isStar data)).length = ((l.map Node.rpos).filter (fol data 42)).length := by
  have := congrArg List.length (filter_star_rpos data l)
  simpa using this

/-- `T` at `q` with `r` stars behind it -/
theorem TN_rpos (data : Bytes) (q r : Nat) (hp : ∀ t, t ≤ r → fol data 42 (q + 1 + 2 * t) = decide (t < r)) :
    ∀ j, (TN data q j).map Node.rpos = tl q (min j (r + 1)) := by
  intro j
  induction j with
  | zero => simp [TN, tl]
  | succ j ih =>
    rw [TN, List.map_append, filter_star_rpos, ih, tl_filter_lt q r _ _ (Nat.min_le_right _ _) hp]
    have e : min (min j (r + 1)) r + 1 = min (j + 1) (r + 1) := by omega
    rw [← e, ← tl_map_succ]
    rfl

theorem TC_step (data : Bytes) (q r : Nat) (hp : ∀ t, t ≤ r → fol data 42 (q + 1 + 2 * t) = decide (t < r)) (j : Nat) :
    TC data q (j + 1) = TC data q j + 6 + min j (r + 1) + 4 * min (min j (r + 1)) r := by
  have h1 : (TN data q j).length = min j (r + 1) := by
    rw [← List.length_map (f := Node.rpos), TN_rpos data q r hp, tl_length]
  have h2 : ((TN data q j).filter (isStar data)).length = min (min j (r + 1)) r := by
    rw [filter_star_length, TN_rpos data q r hp, tl_filter_lt q r _ _ (Nat.min_le_right _ _) hp, tl_length]
  rw [TC, h1, h2]

theorem TC_le (data : Bytes) (q r : Nat) (hp : ∀ t, t ≤ r → fol data 42 (q + 1 + 2 * t) = decide (t < r)) :
    ∀ j, TC data q j ≤ j * (5 * r + 7) := by
  intro j
  induction j with
  | zero => simp [TC]
  | succ j ih =>
    rw [TC_step data q r hp, Nat.add_mul, Nat.one_mul]
    omega

/-! ### the terms of the input -/

/-- the number of `1`s before term `i` -/
def pre (rf : Nat → Nat) : Nat → Nat
  | 0 => 0
  | i + 1 => pre rf i + rf i + 1

/-- the start of term `i` -/
def qf (rf : Nat → Nat) (i : Nat) : Nat := 2 * pre rf i + 1

/-- the input consists of the terms 0 … s, term `i` with `rf i` stars; a `+` between consecutive terms -/
structure ArTerms (data : Bytes) (k : Nat) (rf : Nat → Nat) (s : Nat) : Prop where
  total : pre rf (s + 1) = k + 1
  star : ∀ i, i ≤ s → ∀ t, t ≤ rf i → fol data 42 (qf rf i + 1 + 2 * t) = decide (t < rf i)
  plus : ∀ i, i ≤ s → ∀ t, t ≤ rf i → fol data 43 (qf rf i + 1 + 2 * t) = decide (t = rf i ∧ i < s)

theorem pre_mono (rf : Nat → Nat) : ∀ i j, i ≤ j → pre rf i ≤ pre rf j := by
  intro i j h
  induction j with
  | zero => have : i = 0 := by omega
            subst this; exact Nat.le_refl _
  | succ j ih =>
    by_cases h' : i = j + 1
    · subst h'; exact Nat.le_refl _
    · have := ih (by omega); rw [pre]; omega

variable {data : Bytes} {k s : Nat} {rf : Nat → Nat}

theorem qf_bound (ht : ArTerms data k rf s) (i : Nat) (hi : i ≤ s) : qf rf i + 2 * rf i ≤ 2 * k + 1 := by
  have h1 := pre_mono rf (i + 1) (s + 1) (by omega)
  rw [ht.total, pre] at h1
  unfold qf; omega

theorem qf_succ (rf : Nat → Nat) (i : Nat) : qf rf (i + 1) = qf rf i + 2 * rf i + 2 := by
  unfold qf; rw [pre]; omega

theorem qf_lt (rf : Nat → Nat) : ∀ i j, i < j → qf rf i < qf rf j := by
  intro i j h
  have := pre_mono rf (i + 1) j h
  rw [pre] at this
  unfold qf; omega

/-- the ends of term `i` -/
def blk (rf : Nat → Nat) (i : Nat) : List Nat := tl (qf rf i) (rf i + 1)

theorem TNf_rpos (ht : ArTerms data k rf s) (i : Nat) (hi : i ≤ s) :
    (TNf data k (qf rf i)).map Node.rpos = blk rf i := by
  have := qf_bound ht i hi
  rw [TNf, TN_rpos data (qf rf i) (rf i) (ht.star i hi), blk]
  congr 1
  omega

theorem pRes_rpos (data : Bytes) (k : Nat) (l : List Node) :
    (pRes data k l).map Node.rpos =
      (l.map Node.rpos).flatMap (fun p => if fol data 43 p then (TNf data k (p + 1)).map Node.rpos else []) := by
  induction l with
  | nil => rfl
  | cons x l ih =>
    simp only [pRes, List.flatMap_cons, List.map_append, List.map_cons] at ih ⊢
    rw [ih]
    congr 1
    by_cases h : isPlus data x = true
    · have h' : fol data 43 x.rpos = true := h
      simp only [h, h', ↓reduceIte, List.map_map]
      apply List.map_congr_left
      intro y _
      rfl
    · have h2 : isPlus data x = false := by simpa using h
      have h' : fol data 43 x.rpos = false := h2
      simp [h2, h']

/-- what the loop of `E + T` makes of the ends of term `i`: the ends of term `i+1` -/
theorem blk_flat (ht : ArTerms data k rf s) (i : Nat) (hi : i ≤ s) :
    (blk rf i).flatMap (fun p => if fol data 43 p then (TNf data k (p + 1)).map Node.rpos else []) =
      if i < s then blk rf (i + 1) else [] := by
  have hrest : (tl (qf rf i) (rf i)).flatMap
      (fun p => if fol data 43 p then (TNf data k (p + 1)).map Node.rpos else []) = [] := by
    apply List.flatMap_eq_nil_iff.mpr
    intro p hp
    obtain ⟨t, ht', rfl⟩ := (tl_mem _ _ _).mp hp
    have := ht.plus i hi t (by omega)
    have hne : ¬ (t = rf i ∧ i < s) := by omega
    rw [this]
    simp [hne]
  have hhead := ht.plus i hi (rf i) (Nat.le_refl _)
  have e : qf rf i + 2 * rf i + 1 = qf rf i + 1 + 2 * rf i := by omega
  rw [blk, tl, List.flatMap_cons, hrest, List.append_nil, e, hhead]
  by_cases h : i < s
  · have e2 : qf rf i + 1 + 2 * rf i + 1 = qf rf (i + 1) := by rw [qf_succ]; omega
    simp only [h, and_self, decide_true, ↓reduceIte, e2]
    exact TNf_rpos ht (i + 1) (by omega)
  · simp [h]

/-- the ends at level `j` of `E`: the first min(j, s+1) terms, last term first -/
def BL (rf : Nat → Nat) (s : Nat) : Nat → List Nat
  | 0 => []
  | j + 1 => (if j ≤ s then blk rf j else []) ++ BL rf s j

theorem BL_flat (ht : ArTerms data k rf s) : ∀ j,
    (BL rf s j).flatMap (fun p => if fol data 43 p then (TNf data k (p + 1)).map Node.rpos else []) ++ blk rf 0 =
      BL rf s (j + 1) := by
  intro j
  induction j with
  | zero => simp [BL]
  | succ j ih =>
    conv => lhs; rw [BL]
    rw [List.flatMap_append, List.append_assoc, ih]
    by_cases h : j ≤ s
    · simp only [h, ↓reduceIte]
      rw [blk_flat ht j h]
      conv => rhs; rw [BL]
      by_cases h' : j < s
      · have : j + 1 ≤ s := h'
        simp only [h', this, ↓reduceIte]
      · have : ¬ j + 1 ≤ s := by omega
        simp only [h', this, ↓reduceIte]
    · have : ¬ j + 1 ≤ s := by omega
      simp only [h, ↓reduceIte, List.flatMap_nil, List.nil_append]
      conv => rhs; rw [BL]
      simp only [this, ↓reduceIte, List.nil_append]

theorem EN_rpos (ht : ArTerms data k rf s) : ∀ j, (EN data k j).map Node.rpos = BL rf s j := by
  intro j
  induction j with
  | zero => rfl
  | succ j ih =>
    rw [EN, List.map_append, pRes_rpos, ih, ← BL_flat ht j]
    congr 1
    exact TNf_rpos ht 0 (Nat.zero_le _)

theorem BL_length (rf : Nat → Nat) (s : Nat) : ∀ j, (BL rf s j).length = pre rf (min j (s + 1)) := by
  intro j
  induction j with
  | zero => rfl
  | succ j ih =>
    rw [BL, List.length_append, ih]
    by_cases h : j ≤ s
    · have e1 : min j (s + 1) = j := by omega
      have e2 : min (j + 1) (s + 1) = j + 1 := by omega
      simp only [h, ↓reduceIte, blk, tl_length, e1, e2, pre]
      omega
    · have e1 : min j (s + 1) = s + 1 := by omega
      have e2 : min (j + 1) (s + 1) = s + 1 := by omega
      simp only [h, ↓reduceIte, e1, e2, List.length_nil]
      omega

/-- the ends that `+` follows: the last end of every term but the last -/
theorem blk_plus (ht : ArTerms data k rf s) (i : Nat) (hi : i ≤ s) :
    ((blk rf i).filter (fol data 43)).length = if i < s then 1 else 0 := by
  have hrest : (tl (qf rf i) (rf i)).filter (fol data 43) = [] := by
    apply List.filter_eq_nil_iff.mpr
    intro p hp
    obtain ⟨t, ht', rfl⟩ := (tl_mem _ _ _).mp hp
    have := ht.plus i hi t (by omega)
    have hne : ¬ (t = rf i ∧ i < s) := by omega
    rw [this]
    simp [hne]
  have hhead := ht.plus i hi (rf i) (Nat.le_refl _)
  have e : qf rf i + 2 * rf i + 1 = qf rf i + 1 + 2 * rf i := by omega
  rw [blk, tl, List.filter_cons, hrest, e, hhead]
  by_cases h : i < s <;> simp [h]

theorem BL_plus (ht : ArTerms data k rf s) : ∀ j, ((BL rf s j).filter (fol data 43)).length = min j s := by
  intro j
  induction j with
  | zero => simp [BL]
  | succ j ih =>
    rw [BL, List.filter_append, List.length_append, ih]
    by_cases h : j ≤ s
    · simp only [h, ↓reduceIte]
      rw [blk_plus ht j h]
      split <;> omega
    · simp only [h, ↓reduceIte, List.filter_nil, List.length_nil]
      omega

/-- an end that `+` follows is followed by the start of a term -/
theorem BL_plus_next (ht : ArTerms data k rf s) : ∀ j p, p ∈ BL rf s j → fol data 43 p = true →
    ∃ i, i < min j s ∧ p + 1 = qf rf (i + 1) := by
  intro j
  induction j with
  | zero => intro p hp; cases hp
  | succ j ih =>
    intro p hp h43
    rw [BL, List.mem_append] at hp
    rcases hp with hp | hp
    · by_cases h : j ≤ s
      · simp only [h, ↓reduceIte, blk] at hp
        obtain ⟨t, ht', rfl⟩ := (tl_mem _ _ _).mp hp
        have := ht.plus j h t (by omega)
        rw [this] at h43
        simp only [decide_eq_true_eq] at h43
        refine ⟨j, by omega, ?_⟩
        rw [qf_succ, h43.1]; omega
      · simp [h] at hp
    · obtain ⟨i, hi, e⟩ := ih p hp h43
      exact ⟨i, by omega, e⟩

/-- the last end of term `i` is among the ends of level `j > i` -/
theorem BL_head_mem (rf : Nat → Nat) (s : Nat) : ∀ j i, i < min j (s + 1) → qf rf i + 1 + 2 * rf i ∈ BL rf s j := by
  intro j
  induction j with
  | zero => intro i hi; omega
  | succ j ih =>
    intro i hi
    rw [BL, List.mem_append]
    by_cases h : i = j
    · subst h
      left
      have : i ≤ s := by omega
      simp only [this, ↓reduceIte, blk]
      exact (tl_mem _ _ _).mpr ⟨rf i, by omega, rfl⟩
    · right
      exact ih i (by omega)

/-! ### the potential: the first runs of `T` that have not happened yet -/

def phi (data : Bytes) (k : Nat) (K : List CacheEntry) (qs : List Nat) : Nat :=
  (qs.map (tCost data k K)).sum

theorem tCost_tCache_other (data : Bytes) (k : Nat) (K : List CacheEntry) (q q' : Nat) (hq : q ≤ 2 * k + 1)
    (h : q' ≠ q) : tCost data k (tCache data k K q) q' = tCost data k K q' := by
  unfold tCost
  rw [look_tCache_other data k K q hq 1 q' (fun x => h x.2)]

theorem tCost_tCache_self (data : Bytes) (k : Nat) (K : List CacheEntry) (q : Nat) (hq : q ≤ 2 * k + 1) :
    tCost data k (tCache data k K q) q = 0 := by
  cases hl : look K 1 q with
  | some e => simp [tCost, tCache, hl]
  | none =>
    have : look (tCache data k K q) 1 q = some (TEnt q [] (TNf data k q)) := by
      simp only [tCache, hl]
      rw [look_TKf data k q hq]; simp
    simp [tCost, this]

theorem tCost_cacheSave_E (data : Bytes) (k : Nat) (K : List CacheEntry) (e : CacheEntry) (he : e.idx = 0) (q : Nat) :
    tCost data k (cacheSave K e) q = tCost data k K q := by
  unfold tCost
  rw [look_cacheSave, if_neg (by rw [he]; omega)]

theorem phi_tCache_notin (data : Bytes) (k : Nat) (K : List CacheEntry) (q : Nat) (hq : q ≤ 2 * k + 1) :
    ∀ qs, q ∉ qs → phi data k (tCache data k K q) qs = phi data k K qs := by
  intro qs
  induction qs with
  | nil => intro _; rfl
  | cons q' qs ih =>
    intro h
    simp only [List.mem_cons, not_or] at h
    simp only [phi, List.map_cons, List.sum_cons] at ih ⊢
    rw [tCost_tCache_other data k K q q' hq (fun x => h.1 x.symm), ih h.2]

/-- a call of `T` at a term start: what it costs is what the potential loses -/
theorem phi_tCache (data : Bytes) (k : Nat) (K : List CacheEntry) (q : Nat) (hq : q ≤ 2 * k + 1) :
    ∀ qs, qs.Nodup → q ∈ qs → tCost data k K q + phi data k (tCache data k K q) qs = phi data k K qs := by
  intro qs
  induction qs with
  | nil => intro _ h; cases h
  | cons q' qs ih =>
    intro hnd hm
    obtain ⟨hn1, hn2⟩ := List.nodup_cons.mp hnd
    by_cases h : q = q'
    · subst h
      have := phi_tCache_notin data k K q hq qs hn1
      simp only [phi, List.map_cons, List.sum_cons] at this ⊢
      rw [tCost_tCache_self data k K q hq, this]
      omega
    · have hm' : q ∈ qs := by
        rcases List.mem_cons.mp hm with h' | h'
        · exact absurd h' h
        · exact h'
      have := ih hn2 hm'
      simp only [phi, List.map_cons, List.sum_cons] at this ⊢
      rw [tCost_tCache_other data k K q q' hq (fun x => h x.symm)]
      omega

theorem phi_cacheSave_E (data : Bytes) (k : Nat) (K : List CacheEntry) (e : CacheEntry) (he : e.idx = 0) (qs : List Nat) :
    phi data k (cacheSave K e) qs = phi data k K qs := by
  unfold phi
  congr 1
  apply List.map_congr_left
  intro q _
  exact tCost_cacheSave_E data k K e he q

/-- **the loop of `E + T`**: its calls plus the potential afterwards = one per alternative + one per `+` + the
    potential before — provided every `T` it calls starts a term of `qs` -/
theorem pot_pCache (data : Bytes) (k : Nat) (qs : List Nat) (hnd : qs.Nodup) (hqs : ∀ q ∈ qs, q ≤ 2 * k + 1) :
    ∀ (l : List Node), (∀ x ∈ l, isPlus data x = true → x.rpos + 1 ∈ qs) → ∀ K,
      pCost data k K l + phi data k (pCache data k K l) qs =
        l.length + (l.filter (isPlus data)).length + phi data k K qs := by
  intro l
  induction l with
  | nil => intro _ K; simp [pCost, pCache]
  | cons x l ih =>
    intro hl K
    by_cases hp : isPlus data x = true
    · have hm := hl x (List.mem_cons_self ..) hp
      have := ih (fun y hy => hl y (List.mem_cons_of_mem _ hy)) (tCache data k K (x.rpos + 1))
      have h2 := phi_tCache data k K (x.rpos + 1) (hqs _ hm) qs hnd hm
      simp only [pCost, pCache, hp, ↓reduceIte, List.filter_cons, List.length_cons]
      omega
    · have hp2 : isPlus data x = false := by simpa using hp
      have := ih (fun y hy => hl y (List.mem_cons_of_mem _ hy)) K
      simp only [pCost, pCache, hp2, Bool.false_eq_true, ↓reduceIte, List.filter_cons, List.length_cons]
      omega

/-- the term starts -/
def starts (rf : Nat → Nat) : Nat → List Nat
  | 0 => []
  | m + 1 => qf rf m :: starts rf m

theorem starts_mem (rf : Nat → Nat) : ∀ m q, q ∈ starts rf m ↔ ∃ i, i < m ∧ q = qf rf i := by
  intro m
  induction m with
  | zero => intro q; simp [starts]
  | succ m ih =>
    intro q
    simp only [starts, List.mem_cons, ih]
    constructor
    · rintro (rfl | ⟨i, hi, rfl⟩)
      · exact ⟨m, by omega, rfl⟩
      · exact ⟨i, by omega, rfl⟩
    · rintro ⟨i, hi, rfl⟩
      by_cases h : i = m
      · left; rw [h]
      · right; exact ⟨i, by omega, rfl⟩

theorem starts_nodup (rf : Nat → Nat) : ∀ m, (starts rf m).Nodup := by
  intro m
  induction m with
  | zero => exact List.nodup_nil
  | succ m ih =>
    rw [starts, List.nodup_cons]
    refine ⟨?_, ih⟩
    intro h
    obtain ⟨i, hi, e⟩ := (starts_mem rf m _).mp h
    have := qf_lt rf i m hi
    omega

theorem starts_le (ht : ArTerms data k rf s) : ∀ q ∈ starts rf (s + 1), q ≤ 2 * k + 1 := by
  intro q hq
  obtain ⟨i, hi, rfl⟩ := (starts_mem rf _ _).mp hq
  have := qf_bound ht i (by omega)
  omega

theorem filter_isPlus_length (data : Bytes) (l : List Node) :
    (l.filter (isPlus data)).length = ((l.map Node.rpos).filter (fol data 43)).length := by
  induction l with
  | nil => rfl
  | cons x l ih =>
    simp only [List.filter_cons, List.map_cons]
    by_cases h : isPlus data x = true
    · have h' : fol data 43 x.rpos = true := h
      simp only [h, h', ↓reduceIte, List.length_cons, ih]
    · have h2 : isPlus data x = false := by simpa using h
      have h' : fol data 43 x.rpos = false := h2
      simp only [h2, h', Bool.false_eq_true, ↓reduceIte, ih]

theorem EN_plus_next (ht : ArTerms data k rf s) (j : Nat) :
    ∀ x ∈ EN data k j, isPlus data x = true → x.rpos + 1 ∈ starts rf (s + 1) := by
  intro x hx hp
  have hm : x.rpos ∈ BL rf s j := by rw [← EN_rpos ht j]; exact List.mem_map_of_mem hx
  obtain ⟨i, hi, e⟩ := BL_plus_next ht j x.rpos hm hp
  exact (starts_mem rf _ _).mpr ⟨i + 1, by omega, e⟩

/-- **the levels of `E`**: calls + potential -/
theorem EC_pot (ht : ArTerms data k rf s) : ∀ J,
    EC data k J + phi data k (EK data k J) (starts rf (s + 1)) =
      ((List.range J).map (fun j => 3 + pre rf (min j (s + 1)) + min j s)).sum +
        phi data k [] (starts rf (s + 1)) := by
  intro J
  induction J with
  | zero => simp [EC, EK]
  | succ J ih =>
    have h1 := pot_pCache data k (starts rf (s + 1)) (starts_nodup rf _) (starts_le ht) (EN data k J)
      (EN_plus_next ht J) (EK data k J)
    have h2 := phi_tCache data k (pCache data k (EK data k J) (EN data k J)) 1 (by omega) (starts rf (s + 1))
      (starts_nodup rf _) ((starts_mem rf _ _).mpr ⟨0, by omega, rfl⟩)
    have h3 : (EN data k J).length = pre rf (min J (s + 1)) := by
      rw [← List.length_map (f := Node.rpos), EN_rpos ht, BL_length]
    have h4 : ((EN data k J).filter (isPlus data)).length = min J s := by
      rw [filter_isPlus_length, EN_rpos ht, BL_plus ht]
    rw [EC, EK, phi_cacheSave_E _ _ _ _ rfl, List.range_succ, List.map_append, List.sum_append]
    simp only [List.map_cons, List.map_nil, List.sum_cons, List.sum_nil]
    omega

/-! ### after level s+1 every term's `T` is in the cache -/

def hasT (K : List CacheEntry) (q : Nat) : Prop := (look K 1 q).isSome = true

theorem tCost_of_has (data : Bytes) (k : Nat) (K : List CacheEntry) (q : Nat) (h : hasT K q) : tCost data k K q = 0 := by
  unfold hasT at h
  unfold tCost
  cases hl : look K 1 q with
  | some e => rfl
  | none => rw [hl] at h; cases h

theorem has_tCache (data : Bytes) (k : Nat) (K : List CacheEntry) (q q' : Nat) (hq : q ≤ 2 * k + 1)
    (h : hasT K q' ∨ q' = q) : hasT (tCache data k K q) q' := by
  by_cases e : q' = q
  · subst e
    unfold hasT
    cases hl : look K 1 q' with
    | some x => simp [tCache, hl]
    | none =>
      simp only [tCache, hl]
      rw [look_TKf data k q' hq]; simp
  · rcases h with h | h
    · unfold hasT
      rw [look_tCache_other data k K q hq 1 q' (fun x => e x.2)]
      exact h
    · exact absurd h e

theorem has_pCache (data : Bytes) (k : Nat) : ∀ (l : List Node),
    (∀ x ∈ l, isPlus data x = true → x.rpos + 1 ≤ 2 * k + 1) → ∀ K q,
    (hasT K q ∨ ∃ x ∈ l, isPlus data x = true ∧ q = x.rpos + 1) → hasT (pCache data k K l) q := by
  intro l
  induction l with
  | nil =>
    intro _ K q h
    rcases h with h | ⟨x, hx, _⟩
    · exact h
    · cases hx
  | cons x l ih =>
    intro hl K q h
    by_cases hp : isPlus data x = true
    · simp only [pCache, hp, ↓reduceIte]
      apply ih (fun y hy => hl y (List.mem_cons_of_mem _ hy))
      rcases h with h | ⟨y, hy, hy1, hy2⟩
      · exact .inl (has_tCache data k K _ q (hl x (List.mem_cons_self ..) hp) (.inl h))
      · rcases List.mem_cons.mp hy with rfl | hy
        · exact .inl (has_tCache data k K _ q (hl y (List.mem_cons_self ..) hp) (.inr hy2))
        · exact .inr ⟨y, hy, hy1, hy2⟩
    · have hp2 : isPlus data x = false := by simpa using hp
      simp only [pCache, hp2, Bool.false_eq_true, ↓reduceIte]
      apply ih (fun y hy => hl y (List.mem_cons_of_mem _ hy))
      rcases h with h | ⟨y, hy, hy1, hy2⟩
      · exact .inl h
      · rcases List.mem_cons.mp hy with rfl | hy
        · rw [hp2] at hy1; cases hy1
        · exact .inr ⟨y, hy, hy1, hy2⟩

theorem EK_has (ht : ArTerms data k rf s) (j i : Nat) (hi : i < min (j + 1) (s + 1)) :
    hasT (EK data k (j + 1)) (qf rf i) := by
  have hle : ∀ x ∈ EN data k j, isPlus data x = true → x.rpos + 1 ≤ 2 * k + 1 := by
    intro x hx hp
    exact starts_le ht _ (EN_plus_next ht j x hx hp)
  unfold hasT
  rw [EK, look_cacheSave, if_neg (by simp [EEnt])]
  apply has_tCache data k _ 1 (qf rf i) (by omega)
  cases i with
  | zero => exact .inr rfl
  | succ i =>
    left
    apply has_pCache data k _ hle
    right
    have hm := BL_head_mem rf s j i (by omega)
    rw [← EN_rpos ht j] at hm
    obtain ⟨x, hx, hxe⟩ := List.mem_map.mp hm
    refine ⟨x, hx, ?_, ?_⟩
    · show fol data 43 x.rpos = true
      rw [hxe, ht.plus i (by omega) (rf i) (Nat.le_refl _)]
      simp; omega
    · rw [hxe, qf_succ]; omega

theorem sum_zero_of : ∀ (l : List Nat), (∀ c ∈ l, c = 0) → l.sum = 0 := by
  intro l
  induction l with
  | nil => intro _; rfl
  | cons a l ih =>
    intro h
    rw [List.sum_cons, h a (List.mem_cons_self ..), ih (fun c hc => h c (List.mem_cons_of_mem _ hc))]

theorem phi_EK_zero (ht : ArTerms data k rf s) (J : Nat) (hJ : s + 1 ≤ J) :
    phi data k (EK data k J) (starts rf (s + 1)) = 0 := by
  obtain ⟨j, rfl⟩ : ∃ j, J = j + 1 := ⟨J - 1, by omega⟩
  unfold phi
  apply sum_zero_of
  intro c hc
  obtain ⟨q, hq, rfl⟩ := List.mem_map.mp hc
  obtain ⟨i, hi, rfl⟩ := (starts_mem rf _ _).mp hq
  exact tCost_of_has data k _ _ (EK_has ht j i (by omega))

/-- the first runs of `T`, one per term -/
def firstRuns (data : Bytes) (k : Nat) (rf : Nat → Nat) : Nat → Nat
  | 0 => 0
  | m + 1 => TCf data k (qf rf m) + firstRuns data k rf m

theorem phi_nil (data : Bytes) (k : Nat) (rf : Nat → Nat) : ∀ m, phi data k [] (starts rf m) = firstRuns data k rf m := by
  intro m
  induction m with
  | zero => rfl
  | succ m ih =>
    simp only [phi, starts, List.map_cons, List.sum_cons, firstRuns] at ih ⊢
    rw [ih]
    rfl

/-- **the calls of the spine of `E`** — exactly -/
theorem EC_exact (ht : ArTerms data k rf s) :
    EC data k (2 * k + 3) =
      ((List.range (2 * k + 3)).map (fun j => 3 + pre rf (min j (s + 1)) + min j s)).sum +
        firstRuns data k rf (s + 1) := by
  have h := EC_pot ht (2 * k + 3)
  have hs : s + 1 ≤ k + 1 := by
    have : ∀ m, m ≤ pre rf m := by
      intro m; induction m with
      | zero => exact Nat.le_refl _
      | succ m ih => rw [pre]; omega
    have := this (s + 1)
    rw [ht.total] at this
    exact this
  rw [phi_EK_zero ht _ (by omega), phi_nil] at h
  omega

/-! ### the quadratic bound -/

theorem sum_range_le (f : Nat → Nat) (B : Nat) : ∀ J, (∀ j, j < J → f j ≤ B) → ((List.range J).map f).sum ≤ J * B := by
  intro J
  induction J with
  | zero => intro _; simp
  | succ J ih =>
    intro h
    rw [List.range_succ, List.map_append, List.sum_append, Nat.add_mul, Nat.one_mul]
    have := ih (fun j hj => h j (by omega))
    have := h J (by omega)
    simp only [List.map_cons, List.map_nil, List.sum_cons, List.sum_nil]
    omega

theorem le_pre (rf : Nat → Nat) : ∀ m, m ≤ pre rf m := by
  intro m; induction m with
  | zero => exact Nat.le_refl _
  | succ m ih => rw [pre]; omega

theorem terms_le (ht : ArTerms data k rf s) : s ≤ k := by
  have := le_pre rf (s + 1)
  rw [ht.total] at this
  omega

theorem TCf_le (ht : ArTerms data k rf s) (i : Nat) (hi : i ≤ s) :
    TCf data k (qf rf i) ≤ (2 * k + 3) * (5 * rf i + 7) := by
  have h1 := TC_le data (qf rf i) (rf i) (ht.star i hi) (2 * k + 4 - qf rf i)
  have h2 : 2 * k + 4 - qf rf i ≤ 2 * k + 3 := by unfold qf; omega
  exact Nat.le_trans h1 (Nat.mul_le_mul_right _ h2)

theorem firstRuns_le (ht : ArTerms data k rf s) : ∀ m, m ≤ s + 1 →
    firstRuns data k rf m ≤ (2 * k + 3) * (5 * pre rf m + 2 * m) := by
  intro m
  induction m with
  | zero => intro _; simp [firstRuns]
  | succ m ih =>
    intro hm
    have h1 := ih (by omega)
    have h2 := TCf_le ht m (by omega)
    have e : 5 * pre rf (m + 1) + 2 * (m + 1) = (5 * rf m + 7) + (5 * pre rf m + 2 * m) := by
      rw [pre]; omega
    rw [firstRuns, e, Nat.mul_add]
    omega

/-- **at most (2k+3)(9k+11) calls in the spine of `E`** (k operators, n = 2k+1 characters) -/
theorem EC_le (ht : ArTerms data k rf s) : EC data k (2 * k + 3) ≤ (2 * k + 3) * (9 * k + 11) := by
  have hs := terms_le ht
  have h1 : ((List.range (2 * k + 3)).map (fun j => 3 + pre rf (min j (s + 1)) + min j s)).sum ≤
      (2 * k + 3) * (2 * k + 4) := by
    apply sum_range_le
    intro j _
    have := pre_mono rf (min j (s + 1)) (s + 1) (Nat.min_le_right _ _)
    rw [ht.total] at this
    omega
  have h2 := firstRuns_le ht (s + 1) (Nat.le_refl _)
  rw [ht.total] at h2
  have h3 : (2 * k + 3) * (5 * (k + 1) + 2 * (s + 1)) ≤ (2 * k + 3) * (7 * k + 7) :=
    Nat.mul_le_mul_left _ (by omega)
  have e : (2 * k + 3) * (9 * k + 11) = (2 * k + 3) * (2 * k + 4) + (2 * k + 3) * (7 * k + 7) := by
    rw [← Nat.mul_add]; congr 1; omega
  rw [EC_exact ht, e]
  omega

/-! ### the parse -/

theorem BL_sat (rf : Nat → Nat) (s : Nat) : ∀ d, BL rf s (s + 1 + d) = BL rf s (s + 1) := by
  intro d
  induction d with
  | zero => rfl
  | succ d ih =>
    rw [show s + 1 + (d + 1) = (s + 1 + d) + 1 by omega, BL, ih]
    have : ¬ s + 1 + d ≤ s := by omega
    simp [this]

variable {cfg : Cfg}

/-- **the arithmetic family on any input `1 o₁ 1 … o_k 1`**: the parse succeeds; its calls are those of the spine
    of `E` (`EC_exact`, `EC_le`) and 2 for Sentence -/
theorem ar_parse (hc : IsAr k cfg) (ht : ArTerms cfg.file.data k rf s) :
    ∃ p, parse cfg (24 * k + 44) (G.sentence (.ref 0)) = some p ∧ p.err = none ∧ p.res.isNil = false ∧
      p.st.calls = EC cfg.file.data k (2 * k + 3) + 2 := by
  have hpos : cfg.file.pos 0 = 1 := by simp [File.pos, hc.off]
  obtain ⟨s1, h1, h2, _⟩ := ar_E_level hc (2 * k + 3) 0 (by omega) ({} : St).regCall rfl
  have hne : 2 * k + 3 ≠ 0 := by omega
  simp only [hne, ↓reduceIte] at h1
  have href : run cfg (24 * k + 40 + 3) (.ref 0) [] 1 ({} : St).regCall =
      some (⟨resOf (EN cfg.file.data k (2 * k + 3)), [0, 1], none⟩, s1) := by
    rw [run_ref hc.max (24 * k + 40 + 2) 0 arE (by rw [hc.env]; rfl)]
    exact run_mono cfg (12 * k + 24 + 6 * (2 * k + 3)) (24 * k + 40 + 2) (by omega) _ _ _ _ _ h1
  have hs := terms_le ht
  have hLm := EN_rpos ht (2 * k + 3)
  rw [show 2 * k + 3 = s + 1 + (2 * k + 2 - s) by omega, BL_sat, BL] at hLm
  simp only [Nat.le_refl, ↓reduceIte, blk, tl, List.cons_append] at hLm
  obtain ⟨h, rest, hL, hh, _⟩ := List.map_eq_cons_iff.mp hLm
  rw [show s + 1 + (2 * k + 2 - s) = 2 * k + 3 by omega] at hL
  have hq := ht.total
  rw [pre] at hq
  have hh' : h.rpos = 2 * k + 2 := by rw [hh]; unfold qf; omega
  have heof : isEOF cfg.file h.rpos = true := by
    have : cfg.file.len = 2 * k + 1 := hc.len
    simp only [isEOF, hc.off, hh', this]
    simp
  obtain ⟨o, st', r1, r2, r3, r4⟩ := sentence_first hc.max (24 * k + 40) (.ref 0) 1 {} _ _ _ none h rest
    href (by rw [resOf_alts, hL]) (by omega) heof
  have := parse_of_run (cfg := cfg) (24 * k + 44) (G.sentence (.ref 0)) o st' (by rw [hpos]; exact r1) r2 r3
  refine ⟨_, this, rfl, r2, ?_⟩
  show st'.calls = _
  rw [r4, h2]
  simp [St.regCall]; omega
