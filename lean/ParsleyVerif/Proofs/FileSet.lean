/-
  Helper lemmas for property C11 (global positions ↔ file, line, column).

  1. sort.Search on a predicate that is false below `r` and true from `r` on returns `r`
  2. the line table of a file: shape, bounds, strictly increasing, membership, last entry
  3. File.Position never panics on its domain and equals the specification `lineCol`
  4. the state of a file set built by folding AddFile: closed form (`fsPlace`, `fsEndPos`), offsets,
     adjacency, disjointness, coverage
  5. FileSet.Position lands in the right file
  6. CRLF normalisation equals the index specification `dropCRbeforeLF`

  Everything that depends on a generated constant takes the needed inequality as a hypothesis
  (`1 ≤ Facts.fileSetGap`, `Facts.fileSetGap ≤ 1`, `1 ≤ Facts.fileSetFirstPos`, …); the hypotheses are
  discharged once, in Props/C11.lean.
-/
import ParsleyVerif.Spec.LineCol
import ParsleyVerif.Proofs.Search
namespace PV.Text

/-! ### 1. binary search -/

theorem goSearch_of_split (f : Nat → Bool) (n r : Nat) (hr : r ≤ n)
    (hlo : ∀ k, k < r → f k = false) (hhi : ∀ k, r ≤ k → k < n → f k = true) : goSearch n f = r := by
  apply goSearch_unique f n r _ hr hlo (fun h => hhi r (Nat.le_refl _) h)
  intro a b hab hb ha
  by_cases h : a < r
  · rw [hlo a h] at ha; cases ha
  · exact hhi b (by omega) hb

/-- the search both Position functions run: on `l₁ ++ l₂` with `l₁` entirely `≤ p` and `l₂` entirely `> p`
    it returns `l₁.length` -/
theorem goSearch_append (l₁ l₂ : List Nat) (p : Nat) (h₁ : ∀ x ∈ l₁, x ≤ p) (h₂ : ∀ x ∈ l₂, p < x) :
    goSearch (l₁ ++ l₂).length (fun i => decide ((l₁ ++ l₂).getD i 0 > p)) = l₁.length := by
  apply goSearch_of_split
  · simp
  · intro k hk
    have : (l₁ ++ l₂).getD k 0 = l₁[k] := by
      rw [List.getD_eq_getElem?_getD, List.getElem?_append_left hk, List.getElem?_eq_getElem hk]; rfl
    rw [this]
    have := h₁ l₁[k] (List.getElem_mem hk)
    simp; omega
  · intro k hk hn
    have hk2 : k - l₁.length < l₂.length := by simp at hn; omega
    have : (l₁ ++ l₂).getD k 0 = l₂[k - l₁.length] := by
      rw [List.getD_eq_getElem?_getD, List.getElem?_append_right hk, List.getElem?_eq_getElem hk2]; rfl
    rw [this]
    have := h₂ _ (List.getElem_mem hk2)
    simp; omega

/-! ### 2. the line table -/

theorem linesFrom_append (a b : Bytes) (off : Nat) :
    linesFrom (a ++ b) off = linesFrom a off ++ linesFrom b (off + a.length) := by
  induction a generalizing off with
  | nil => simp [linesFrom]
  | cons x a ih =>
    have e : off + 1 + a.length = off + (a.length + 1) := by omega
    simp only [List.cons_append, linesFrom, ih, List.length_cons, e]
    split <;> simp

theorem linesFrom_bounds (d : Bytes) (off x : Nat) (h : x ∈ linesFrom d off) : off < x ∧ x ≤ off + d.length := by
  induction d generalizing off with
  | nil => simp [linesFrom] at h
  | cons b d ih =>
    simp only [linesFrom] at h
    simp only [List.length_cons]
    split at h
    · rcases List.mem_cons.mp h with h | h
      · omega
      · have := ih _ h; omega
    · have := ih _ h; omega

theorem linesFrom_length (d : Bytes) (off : Nat) : (linesFrom d off).length = d.count 10 := by
  induction d generalizing off with
  | nil => rfl
  | cons b d ih =>
    simp only [linesFrom, List.count_cons]
    by_cases hb : b = 10
    · simp [hb, ih]
    · simp [hb, ih]

theorem linesFrom_pairwise (d : Bytes) (off : Nat) : (linesFrom d off).Pairwise (· < ·) := by
  induction d generalizing off with
  | nil => simp [linesFrom]
  | cons b d ih =>
    simp only [linesFrom]
    split
    · refine List.pairwise_cons.mpr ⟨?_, ih _⟩
      intro y hy
      have := linesFrom_bounds d (off + 1) y hy
      omega
    · exact ih _

/-- the table holds exactly the offsets just after a line feed -/
theorem mem_linesFrom (d : Bytes) (off x : Nat) :
    x ∈ linesFrom d off ↔ ∃ k, x = off + k + 1 ∧ d[k]? = some 10 := by
  induction d generalizing off with
  | nil => simp [linesFrom]
  | cons b d ih =>
    simp only [linesFrom]
    constructor
    · intro h
      split at h
      · rename_i hb
        rcases List.mem_cons.mp h with h | h
        · exact ⟨0, by omega, by simp [hb]⟩
        · obtain ⟨k, h1, h2⟩ := (ih _).mp h
          exact ⟨k + 1, by omega, by simpa using h2⟩
      · obtain ⟨k, h1, h2⟩ := (ih _).mp h
        exact ⟨k + 1, by omega, by simpa using h2⟩
    · rintro ⟨k, h1, h2⟩
      cases k with
      | zero =>
        have hb : b = 10 := by simpa using h2
        simp [hb, h1]
      | succ k =>
        have : x ∈ linesFrom d (off + 1) := (ih _).mpr ⟨k, by omega, by simpa using h2⟩
        split
        · exact List.mem_cons_of_mem _ this
        · exact this

theorem linesFrom_snoc (d : Bytes) (b off : Nat) :
    linesFrom (d ++ [b]) off = linesFrom d off ++ (if b = 10 then [off + d.length + 1] else []) := by
  rw [linesFrom_append]
  simp only [linesFrom]

/-- the last entry of the table of a prefix is the start of the line the prefix ends in -/
theorem linesFrom_getLast (d : Bytes) (off : Nat) :
    (off :: linesFrom d off).getLast? = some (off + (d.length - tailRun d)) := by
  generalize hn : d.length = n
  induction n generalizing d with
  | zero =>
    have : d = [] := List.length_eq_zero_iff.mp hn
    subst this
    simp [linesFrom]
  | succ n ih =>
    rcases List.eq_nil_or_concat d with h | ⟨d', b, h⟩
    · subst h; simp at hn
    · rw [List.concat_eq_append] at h
      subst h
      have hn' : d'.length = n := by simp at hn; omega
      have ih' := ih d' hn'
      have hle := tailRun_le d'
      rw [linesFrom_snoc]
      by_cases hb : b = 10
      · subst hb
        rw [if_pos rfl, tailRun_append_lf, ← List.cons_append, List.getLast?_append]
        simp
        omega
      · rw [if_neg hb, tailRun_append_other _ _ hb, List.append_nil, ih']
        congr 1
        omega

theorem File.lines_pairwise (f : File) : f.lines.Pairwise (· < ·) := by
  unfold File.lines
  refine List.pairwise_cons.mpr ⟨?_, linesFrom_pairwise _ _⟩
  intro y hy
  have := linesFrom_bounds _ _ _ hy
  omega

/-- `File.lines` = 0 and every offset just after a line feed -/
theorem File.mem_lines (f : File) (x : Nat) :
    x ∈ f.lines ↔ x = 0 ∨ ∃ k, x = k + 1 ∧ f.data[k]? = some 10 := by
  unfold File.lines
  rw [List.mem_cons, mem_linesFrom]
  simp

theorem File.lines_length (f : File) : f.lines.length = 1 + f.data.count 10 := by
  unfold File.lines
  simp [linesFrom_length]; omega

/-- the table split at an offset: entries `≤ pos` come from the first `pos` bytes, the others are `> pos` -/
theorem File.lines_split (f : File) (pos : Nat) (h : pos ≤ f.len) :
    f.lines = (0 :: linesFrom (f.data.take pos) 0) ++ linesFrom (f.data.drop pos) pos := by
  unfold File.len at h
  unfold File.lines
  have hl : (f.data.take pos).length = pos := by simp; omega
  conv => lhs; rw [← List.take_append_drop pos f.data]
  rw [linesFrom_append, hl]
  simp

/-! ### 3. File.Position -/

theorem File.position_search (f : File) (pos : Nat) (h : pos ≤ f.len) :
    goSearch f.lines.length (fun i => decide (f.lines.getD i 0 > pos)) = 1 + (f.data.take pos).count 10 := by
  have hl : (f.data.take pos).length = pos := by unfold File.len at h; simp; omega
  rw [File.lines_split f pos h, goSearch_append]
  · simp [linesFrom_length]; omega
  · intro x hx
    rcases List.mem_cons.mp hx with hx | hx
    · omega
    · have := linesFrom_bounds _ _ _ hx; omega
  · intro x hx
    have := linesFrom_bounds _ _ _ hx; omega

theorem File.position_eq (f : File) (pos : Nat) (h : pos ≤ f.len) :
    f.position pos = .at_ f.name (lineCol f.data pos).1 (lineCol f.data pos).2 := by
  have hl : (f.data.take pos).length = pos := by unfold File.len at h; simp; omega
  have hs := File.position_search f pos h
  have hidx : f.lines[1 + (f.data.take pos).count 10 - 1]? = some (lineStart f.data pos) := by
    rw [File.lines_split f pos h]
    have hlen : (0 :: linesFrom (f.data.take pos) 0).length = 1 + (f.data.take pos).count 10 := by
      simp [linesFrom_length]; omega
    rw [List.getElem?_append_left (by omega), ← hlen, ← List.getLast?_eq_getElem?, linesFrom_getLast]
    simp [lineStart]
  unfold File.position
  rw [if_neg (by omega)]
  simp only [hs]
  rw [if_neg (by omega), hidx]
  simp only [lineCol]
  congr 1
  omega

theorem File.position_unknown (f : File) (pos : Nat) (h : f.len < pos) : f.position pos = .unknown := by
  unfold File.position; rw [if_pos h]

theorem File.position_ne_panic (f : File) (pos : Nat) : f.position pos ≠ .panic := by
  by_cases h : pos ≤ f.len
  · rw [File.position_eq f pos h]; simp
  · rw [File.position_unknown f pos (by omega)]; simp

/-! ### 4. file sets built by AddFile -/

/-- every file set the API can build: NewFileSet(files...) = AddFile for each file, in order, on the empty set -/
def buildFS (files : List File) : FileSet := files.foldl (fun fs f => (fs.addFile f).1) {}

/-- closed form of the files after AddFile: each gets the running position as its offset -/
def fsPlace (p : Nat) : List File → List File
  | [] => []
  | f :: r => { f with offset := p } :: fsPlace (p + f.len + Facts.fileSetGap) r

/-- closed form of `fs.pos` after adding the files -/
def fsEndPos (p : Nat) : List File → Nat
  | [] => p
  | f :: r => fsEndPos (p + f.len + Facts.fileSetGap) r

theorem foldl_addFile (fs : FileSet) (files : List File) :
    files.foldl (fun fs f => (fs.addFile f).1) fs =
      { pos := fsEndPos fs.pos files, files := fs.files ++ fsPlace fs.pos files,
        offsets := fs.offsets ++ (fsPlace fs.pos files).map (·.offset) } := by
  induction files generalizing fs with
  | nil => simp [fsPlace, fsEndPos]
  | cons f r ih =>
    rw [List.foldl_cons, ih]
    simp [FileSet.addFile, fsPlace, fsEndPos]

theorem buildFS_eq (files : List File) :
    buildFS files =
      { pos := fsEndPos Facts.fileSetFirstPos files, files := fsPlace Facts.fileSetFirstPos files,
        offsets := (fsPlace Facts.fileSetFirstPos files).map (·.offset) } := by
  unfold buildFS
  rw [foldl_addFile]
  simp

theorem fsPlace_length (p : Nat) (files : List File) : (fsPlace p files).length = files.length := by
  induction files generalizing p with
  | nil => rfl
  | cons f r ih => simp [fsPlace, ih]

/-- AddFile changes nothing but the offset -/
theorem fsPlace_getElem?_some (p : Nat) (files : List File) (i : Nat) (f : File) (h : files[i]? = some f) :
    ∃ o, (fsPlace p files)[i]? = some { f with offset := o } := by
  induction files generalizing p i with
  | nil => simp at h
  | cons f' r ih =>
    cases i with
    | zero =>
      simp only [List.getElem?_cons_zero, Option.some.injEq] at h
      subst h
      exact ⟨p, by simp [fsPlace]⟩
    | succ i =>
      simp only [List.getElem?_cons_succ] at h
      obtain ⟨o, ho⟩ := ih (p + f'.len + Facts.fileSetGap) i h
      exact ⟨o, by simpa [fsPlace] using ho⟩

theorem fsPlace_content (p : Nat) (files : List File) :
    (fsPlace p files).map (fun f => (f.name, f.data)) = files.map (fun f => (f.name, f.data)) := by
  induction files generalizing p with
  | nil => rfl
  | cons f r ih => simp [fsPlace, ih]

theorem fsEndPos_ge (p : Nat) (files : List File) : p ≤ fsEndPos p files := by
  induction files generalizing p with
  | nil => exact Nat.le_refl _
  | cons f r ih => have := ih (p + f.len + Facts.fileSetGap); simp only [fsEndPos]; omega

/-- every placed file lies between the start position and the end position, gap included -/
theorem fsPlace_mem_bounds (p : Nat) (files : List File) (g : File) (h : g ∈ fsPlace p files) :
    p ≤ g.offset ∧ g.offset + g.len + Facts.fileSetGap ≤ fsEndPos p files := by
  induction files generalizing p with
  | nil => simp [fsPlace] at h
  | cons f r ih =>
    simp only [fsPlace] at h
    simp only [fsEndPos]
    rcases List.mem_cons.mp h with h | h
    · subst h
      have := fsEndPos_ge (p + f.len + Facts.fileSetGap) r
      simp only [File.len] at *
      exact ⟨Nat.le_refl _, this⟩
    · have := ih _ h
      omega

/-- an earlier file ends (gap included) no later than a later file starts -/
theorem fsPlace_pairwise (p : Nat) (files : List File) :
    (fsPlace p files).Pairwise (fun a b => a.offset + a.len + Facts.fileSetGap ≤ b.offset) := by
  induction files generalizing p with
  | nil => simp [fsPlace]
  | cons f r ih =>
    simp only [fsPlace]
    refine List.pairwise_cons.mpr ⟨?_, ih _⟩
    intro b hb
    have := (fsPlace_mem_bounds _ _ _ hb).1
    simp only [File.len] at *
    exact this

theorem fsPlace_lt (p : Nat) (files : List File) (i j : Nat) (a b : File)
    (ha : (fsPlace p files)[i]? = some a) (hb : (fsPlace p files)[j]? = some b) (hij : i < j) :
    a.offset + a.len + Facts.fileSetGap ≤ b.offset := by
  obtain ⟨hi, rfl⟩ := List.getElem?_eq_some_iff.mp ha
  obtain ⟨hj, rfl⟩ := List.getElem?_eq_some_iff.mp hb
  exact List.pairwise_iff_getElem.mp (fsPlace_pairwise p files) i j hi hj hij

/-- consecutive files: offsets[i] + len i + gap = offsets[i+1] -/
theorem fsPlace_adjacent (p : Nat) (files : List File) (i : Nat) (a b : File)
    (ha : (fsPlace p files)[i]? = some a) (hb : (fsPlace p files)[i + 1]? = some b) :
    a.offset + a.len + Facts.fileSetGap = b.offset := by
  induction files generalizing p i with
  | nil => simp [fsPlace] at ha
  | cons f r ih =>
    cases i with
    | zero =>
      cases r with
      | nil => simp [fsPlace] at hb
      | cons f' r' =>
        simp only [fsPlace, List.getElem?_cons_zero, List.getElem?_cons_succ, Option.some.injEq] at ha hb
        subst ha; subst hb
        rfl
    | succ i =>
      simp only [fsPlace, List.getElem?_cons_succ] at ha hb
      exact ih _ i ha hb

/-- the last file: offsets[n-1] + len (n-1) + gap = fs.pos -/
theorem fsPlace_last (p : Nat) (files : List File) (i : Nat) (a : File)
    (ha : (fsPlace p files)[i]? = some a) (hi : i + 1 = files.length) :
    a.offset + a.len + Facts.fileSetGap = fsEndPos p files := by
  induction files generalizing p i with
  | nil => simp [fsPlace] at ha
  | cons f r ih =>
    cases i with
    | zero =>
      have : r = [] := List.length_eq_zero_iff.mp (by simp only [List.length_cons] at hi; omega)
      subst this
      simp only [fsPlace, List.getElem?_cons_zero, Option.some.injEq] at ha
      subst ha
      rfl
    | succ i =>
      simp only [fsPlace, List.getElem?_cons_succ] at ha
      simp only [fsEndPos]
      exact ih _ i ha (by simp at hi; omega)

/-- the first file starts at the start position -/
theorem fsPlace_first (p : Nat) (files : List File) (a : File) (ha : (fsPlace p files)[0]? = some a) : a.offset = p := by
  cases files with
  | nil => simp [fsPlace] at ha
  | cons f r =>
    simp only [fsPlace, List.getElem?_cons_zero, Option.some.injEq] at ha
    subst ha; rfl

/-- every position from the start position up to the end position belongs to the slot of exactly one file
    (its bytes, its end-of-file position, and the gap after it) -/
theorem fsPlace_cover (p : Nat) (files : List File) (q : Nat) (h1 : p ≤ q) (h2 : q < fsEndPos p files) :
    ∃ i : Nat, ∃ g : File, (fsPlace p files)[i]? = some g ∧ g.offset ≤ q ∧ q < g.offset + g.len + Facts.fileSetGap := by
  induction files generalizing p with
  | nil => simp only [fsEndPos] at h2; omega
  | cons f r ih =>
    by_cases hq : q < p + f.len + Facts.fileSetGap
    · exact ⟨0, { f with offset := p }, by simp [fsPlace], h1, hq⟩
    · obtain ⟨i, g, hg, hb⟩ := ih (p + f.len + Facts.fileSetGap) (by omega) (by simpa [fsEndPos] using h2)
      exact ⟨i + 1, g, by simpa [fsPlace] using hg, hb⟩

/-! ### 5. FileSet.Position -/

/-- a position in the slot of file `i` is handed to file `i` with its local offset -/
theorem position_in_slot (files : List File) (i : Nat) (g : File) (q : Nat)
    (hg : (buildFS files).files[i]? = some g) (hq0 : q ≠ 0)
    (h1 : g.offset ≤ q) (h2 : q < g.offset + g.len + Facts.fileSetGap) :
    (buildFS files).position q = g.position (q - g.offset) := by
  rw [buildFS_eq] at hg ⊢
  simp only at hg
  generalize hp : Facts.fileSetFirstPos = p at hg ⊢
  have hmem : g ∈ fsPlace p files := List.mem_of_getElem? hg
  have hend := (fsPlace_mem_bounds p files g hmem).2
  have hi : i < (fsPlace p files).length := (List.getElem?_eq_some_iff.mp hg).1
  -- the offsets table split after entry i
  have hsplit : (fsPlace p files).map (·.offset) =
      ((fsPlace p files).take (i + 1)).map (·.offset) ++ ((fsPlace p files).drop (i + 1)).map (·.offset) := by
    rw [← List.map_append, List.take_append_drop]
  have hlen1 : (((fsPlace p files).take (i + 1)).map (·.offset)).length = i + 1 := by
    simp; omega
  have hs : goSearch ((fsPlace p files).map (·.offset)).length
      (fun k => decide (((fsPlace p files).map (·.offset)).getD k 0 > q)) = i + 1 := by
    rw [hsplit, goSearch_append, hlen1]
    · intro x hx
      obtain ⟨a, ha, rfl⟩ := List.mem_map.mp hx
      obtain ⟨k, hk, rfl⟩ := List.getElem_of_mem ha
      have hk' : k < i + 1 := by simp at hk; omega
      rw [List.getElem_take]
      by_cases hki : k = i
      · subst hki
        have : (fsPlace p files)[k] = g := by
          have := List.getElem?_eq_getElem hi; rw [hg] at this; exact (Option.some.inj this).symm
        rw [this]; exact h1
      · have := fsPlace_lt p files k i _ g (List.getElem?_eq_getElem (by omega)) hg (by omega)
        omega
    · intro x hx
      obtain ⟨b, hb, rfl⟩ := List.mem_map.mp hx
      obtain ⟨k, hk, rfl⟩ := List.getElem_of_mem hb
      rw [List.getElem_drop]
      have hk2 : i + 1 + k < (fsPlace p files).length := by simp at hk; omega
      have := fsPlace_lt p files i (i + 1 + k) g _ hg (List.getElem?_eq_getElem hk2) (by omega)
      omega
  unfold FileSet.position
  simp only
  rw [if_neg (by omega)]
  simp only [hs]
  rw [if_neg (by omega)]
  simp only [Nat.add_sub_cancel, hg, List.getElem?_map, Option.map_some]

/-! ### 5b. the C11 statements, parametric in the generated constants -/

theorem buildFS_files_length (files : List File) : (buildFS files).files.length = files.length := by
  rw [buildFS_eq]; simp [fsPlace_length]

theorem buildFS_offsets_length (files : List File) : (buildFS files).offsets.length = files.length := by
  rw [buildFS_eq]; simp [fsPlace_length]

/-- entry `i` of the file set is input file `i` with its offset replaced by `offsets[i]` -/
theorem buildFS_getElem? (files : List File) (i : Nat) (f : File) (h : files[i]? = some f) :
    ∃ o, (buildFS files).offsets[i]? = some o ∧ (buildFS files).files[i]? = some { f with offset := o } := by
  rw [buildFS_eq]
  obtain ⟨o, ho⟩ := fsPlace_getElem?_some Facts.fileSetFirstPos files i f h
  exact ⟨o, by simp [ho], ho⟩

theorem buildFS_mem_bounds (files : List File) (i : Nat) (g : File) (hg : (buildFS files).files[i]? = some g) :
    Facts.fileSetFirstPos ≤ g.offset ∧ g.offset + g.len + Facts.fileSetGap ≤ (buildFS files).pos := by
  rw [buildFS_eq] at hg ⊢
  exact fsPlace_mem_bounds _ _ _ (List.mem_of_getElem? hg)

theorem buildFS_lt (files : List File) (i j : Nat) (a b : File)
    (ha : (buildFS files).files[i]? = some a) (hb : (buildFS files).files[j]? = some b) (hij : i < j) :
    a.offset + a.len + Facts.fileSetGap ≤ b.offset := by
  rw [buildFS_eq] at ha hb
  exact fsPlace_lt _ _ i j a b ha hb hij

theorem buildFS_cover (files : List File) (q : Nat) (h1 : Facts.fileSetFirstPos ≤ q) (h2 : q < (buildFS files).pos) :
    ∃ i : Nat, ∃ g : File, (buildFS files).files[i]? = some g ∧ g.offset ≤ q ∧ q < g.offset + g.len + Facts.fileSetGap := by
  rw [buildFS_eq] at h2 ⊢
  exact fsPlace_cover _ _ q h1 h2

/-- offsets[0] = first position; offsets[i] + len i + gap = offsets[i+1]; the last one + len + gap = fs.pos;
    files[i].offset = offsets[i]; the empty set keeps the first position -/
theorem buildFS_layout (files : List File) :
    (∀ a : File, (buildFS files).files[0]? = some a → a.offset = Facts.fileSetFirstPos) ∧
    (∀ (i : Nat) (a b : File), (buildFS files).files[i]? = some a → (buildFS files).files[i + 1]? = some b →
        a.offset + a.len + Facts.fileSetGap = b.offset) ∧
    (∀ (i : Nat) (a : File), (buildFS files).files[i]? = some a → i + 1 = files.length →
        a.offset + a.len + Facts.fileSetGap = (buildFS files).pos) ∧
    (∀ i : Nat, (buildFS files).offsets[i]? = ((buildFS files).files[i]?).map File.offset) ∧
    (files = [] → (buildFS files).pos = Facts.fileSetFirstPos) := by
  rw [buildFS_eq]
  refine ⟨?_, ?_, ?_, ?_, ?_⟩
  · intro a ha; exact fsPlace_first _ _ a ha
  · intro i a b ha hb; exact fsPlace_adjacent _ _ i a b ha hb
  · intro i a ha hi; exact fsPlace_last _ _ i a ha hi
  · intro i; simp
  · intro h; subst h; rfl

theorem fileSet_roundtrip_of (hfirst : 1 ≤ Facts.fileSetFirstPos) (hgap : 1 ≤ Facts.fileSetGap)
    (files : List File) (i : Nat) (g : File) (off : Nat)
    (hg : (buildFS files).files[i]? = some g) (hoff : off ≤ g.len) :
    (buildFS files).position (g.pos off) = .at_ g.name (lineCol g.data off).1 (lineCol g.data off).2 := by
  have hb := buildFS_mem_bounds files i g hg
  unfold File.pos
  rw [position_in_slot files i g (g.offset + off) hg (by omega) (by omega) (by omega), Nat.add_sub_cancel_left,
    File.position_eq g off hoff]

theorem fileSet_inj_of (hgap : 1 ≤ Facts.fileSetGap) (files : List File) (i i' : Nat) (g g' : File) (off off' : Nat)
    (hg : (buildFS files).files[i]? = some g) (hg' : (buildFS files).files[i']? = some g')
    (hoff : off ≤ g.len) (hoff' : off' ≤ g'.len) (h : g.pos off = g'.pos off') : i = i' ∧ off = off' := by
  unfold File.pos at h
  rcases Nat.lt_trichotomy i i' with hlt | heq | hgt
  · have := buildFS_lt files i i' g g' hg hg' hlt; omega
  · subst heq
    rw [hg] at hg'
    cases hg'
    exact ⟨rfl, by omega⟩
  · have := buildFS_lt files i' i g' g hg' hg hgt; omega

theorem fileSet_disjoint_of (hgap : 1 ≤ Facts.fileSetGap) (files : List File) (i i' : Nat) (g g' : File)
    (hg : (buildFS files).files[i]? = some g) (hg' : (buildFS files).files[i']? = some g') (hlt : i < i') :
    g.pos g.len < g'.pos 0 := by
  have := buildFS_lt files i i' g g' hg hg' hlt
  unfold File.pos; omega

theorem fileSet_range_of (hfirst : 1 ≤ Facts.fileSetFirstPos) (hgap : 1 ≤ Facts.fileSetGap)
    (files : List File) (i : Nat) (g : File) (hg : (buildFS files).files[i]? = some g) :
    1 ≤ g.pos 0 ∧ g.pos g.len < (buildFS files).pos := by
  have := buildFS_mem_bounds files i g hg
  unfold File.pos; omega

theorem fileSet_cover_of (hfirst : Facts.fileSetFirstPos ≤ 1) (hgap : Facts.fileSetGap ≤ 1)
    (files : List File) (p : Nat) (h0 : p ≠ 0) (h1 : p < (buildFS files).pos) :
    ∃ i : Nat, ∃ g : File, ∃ off : Nat, (buildFS files).files[i]? = some g ∧ off ≤ g.len ∧ p = g.pos off := by
  obtain ⟨i, g, hg, ha, hb⟩ := buildFS_cover files p (by omega) h1
  exact ⟨i, g, p - g.offset, hg, by omega, by unfold File.pos; omega⟩

theorem fileSet_unknown_iff_of (hfirst : Facts.fileSetFirstPos = 1) (hgap : Facts.fileSetGap = 1)
    (files : List File) (p : Nat) :
    (buildFS files).position p = .unknown ↔ p = 0 ∨ (buildFS files).pos ≤ p := by
  constructor
  · intro h
    by_cases hc : p = 0 ∨ (buildFS files).pos ≤ p
    · exact hc
    · exfalso
      obtain ⟨i, g, off, hg, hoff, rfl⟩ := fileSet_cover_of (by omega) (by omega) files p (by omega) (by omega)
      rw [fileSet_roundtrip_of (by omega) (by omega) files i g off hg hoff] at h
      cases h
  · intro h
    unfold FileSet.position
    rw [if_pos h]

theorem fileSet_nopanic_of (hfirst : Facts.fileSetFirstPos ≤ 1) (files : List File) (p : Nat) :
    (buildFS files).position p ≠ .panic := by
  by_cases hc : p = 0 ∨ (buildFS files).pos ≤ p
  · unfold FileSet.position
    have hc' : p = 0 ∨ p ≥ (buildFS files).pos := hc
    rw [if_pos hc']; simp
  · obtain ⟨i, g, hg, ha, hb⟩ := buildFS_cover files p (by omega) (by omega)
    rw [position_in_slot files i g p hg (by omega) ha hb]
    exact File.position_ne_panic _ _

/-! ### 6. CRLF normalisation -/

theorem filterMap_range_succ {α} (g : Nat → Option α) (n : Nat) :
    (List.range (n + 1)).filterMap g = (g 0).toList ++ (List.range n).filterMap (fun i => g (i + 1)) := by
  rw [List.range_succ_eq_map, List.filterMap_cons, List.filterMap_map]
  cases g 0 <;> rfl

/-- bytes.Replace(data, "\r\n", "\n", -1) deletes exactly the CRs that stand immediately before an LF -/
theorem normCRLF_eq_dropCRbeforeLF (raw : Bytes) : normCRLF raw = dropCRbeforeLF raw := by
  induction raw using normCRLF.induct with
  | case1 r ih =>
    rw [normCRLF.eq_1, ih]
    unfold dropCRbeforeLF
    simp only [List.length_cons]
    rw [filterMap_range_succ, filterMap_range_succ]
    have h0 : isCRofCRLF (13 :: 10 :: r) 0 = true := by simp [isCRofCRLF]
    have h1 : isCRofCRLF (13 :: 10 :: r) (0 + 1) = false := by simp [isCRofCRLF]
    have hs : ∀ i, isCRofCRLF (13 :: 10 :: r) (i + 1 + 1) = isCRofCRLF r i := by intro i; simp [isCRofCRLF]
    simp [h0, h1, hs]
  | case2 b r hne ih =>
    rw [normCRLF.eq_2 b r hne, ih]
    unfold dropCRbeforeLF
    simp only [List.length_cons]
    rw [filterMap_range_succ]
    have h0 : isCRofCRLF (b :: r) 0 = false := by
      cases hc : isCRofCRLF (b :: r) 0 with
      | false => rfl
      | true =>
        exfalso
        simp only [isCRofCRLF, Bool.and_eq_true, beq_iff_eq] at hc
        obtain ⟨h1, h2⟩ := hc
        have hb : b = 13 := by simpa using h1
        cases r with
        | nil => simp at h2
        | cons c r' =>
          have hc : c = 10 := by simpa using h2
          exact hne r' hb (by rw [hc])
    have hs : ∀ i, isCRofCRLF (b :: r) (i + 1) = isCRofCRLF r i := by intro i; simp [isCRofCRLF]
    simp [h0, hs]
  | case3 => rfl

/-- replacement is compositional at every occurrence of CR LF (occurrences cannot overlap) -/
theorem normCRLF_split (a b : Bytes) : normCRLF (a ++ 13 :: 10 :: b) = normCRLF a ++ 10 :: normCRLF b := by
  induction a using normCRLF.induct with
  | case1 r ih => simp [normCRLF.eq_1, ih]
  | case2 x r hne ih =>
    rw [normCRLF.eq_2 x r hne, List.cons_append, normCRLF.eq_2, ih, List.cons_append]
    intro r1 hx hr
    cases r with
    | nil => simp at hr
    | cons c r' =>
      simp only [List.cons_append, List.cons.injEq] at hr
      exact hne r' hx (by rw [hr.1])
  | case3 => simp [normCRLF.eq_1, normCRLF.eq_3]

/-- content without a CR LF pair is unchanged: a lone CR, a lone LF and LF CR are kept as they are -/
theorem normCRLF_id (raw : Bytes) (h : ¬ [13, 10] <:+: raw) : normCRLF raw = raw := by
  induction raw using normCRLF.induct with
  | case1 r ih => exact absurd ⟨[], r, rfl⟩ h
  | case2 b r hne ih =>
    rw [normCRLF.eq_2 b r hne, ih]
    intro hr
    exact h (List.infix_cons hr)
  | case3 => rfl

/-- normalisation neither adds nor removes a line feed -/
theorem normCRLF_count_lf (raw : Bytes) : (normCRLF raw).count 10 = raw.count 10 := by
  induction raw using normCRLF.induct with
  | case1 r ih => rw [normCRLF.eq_1]; simp [ih]
  | case2 b r hne ih => rw [normCRLF.eq_2 b r hne]; simp [List.count_cons, ih]
  | case3 => rfl

/-- a CR that is not followed by LF survives normalisation together with its neighbours -/
theorem normCRLF_lone_cr (a b : Bytes) (hb : b.head? ≠ some 10) :
    normCRLF (a ++ 13 :: b) = normCRLF a ++ 13 :: normCRLF b := by
  induction a using normCRLF.induct with
  | case1 r ih => simp [normCRLF.eq_1, ih]
  | case2 x r hne ih =>
    rw [normCRLF.eq_2 x r hne, List.cons_append, normCRLF.eq_2, ih, List.cons_append]
    intro r1 hx hr
    cases r with
    | nil =>
      simp only [List.nil_append, List.cons.injEq] at hr
      omega
    | cons c r' =>
      simp only [List.cons_append, List.cons.injEq] at hr
      exact hne r' hx (by rw [hr.1])
  | case3 =>
    rw [List.nil_append, normCRLF.eq_2, normCRLF.eq_3, List.nil_append]
    intro r1 _ hr
    rw [hr] at hb
    simp at hb

end PV.Text
