/-
  The CLOSED WORLD of the translated parser core: `gWorld cfg root fuel` (Proofs/CoreWorld.lean) agrees with the model's
  `run cfg fuel` on every sub-parser of the root and of the rules — by induction on the fuel, the induction step being
  the per-combinator ties of Proofs/CoreTie*.lean (Props/C01P.lean).
-/
import ParsleyVerif.Proofs.CoreWorld
namespace PV.CW
open PV.CoreTie PV.FactsCore

/-! ### paths -/

theorem subAt_snoc : ∀ (π : List Nat) (g g' k : G) (i : Nat), subAt π g = some g' → (kids g')[i]? = some k →
    subAt (π ++ [i]) g = some k
  | [], g, g', k, i, h, hk => by
    simp only [subAt, Option.some.injEq] at h
    subst h
    simp [subAt, hk]
  | j :: π, g, g', k, i, h, hk => by
    simp only [subAt] at h
    cases hj : (kids g)[j]? with
    | none => simp [hj] at h
    | some kj =>
      rw [hj] at h
      simp only [List.cons_append, subAt, hj]
      exact subAt_snoc π kj g' k i h hk

theorem resolve_snoc (T : List G) (π : List Nat) (g k : G) (i : Nat) (h : resolve T π = some g)
    (hk : (kids g)[i]? = some k) : resolve T (π ++ [i]) = some k := by
  cases π with
  | nil => simp [resolve] at h
  | cons j π =>
    simp only [resolve] at h
    cases hj : T[j]? with
    | none => simp [hj] at h
    | some gj =>
      rw [hj] at h
      simp only [List.cons_append, resolve, hj]
      exact subAt_snoc π gj g k i h hk

theorem resolve_ref (cfg : Cfg) (root : G) (k : Nat) (g : G) (h : cfg.env[k]? = some g) :
    resolve (table cfg root) [k + 1] = some g := by
  simp [resolve, table, h, subAt]

theorem resolve_root (cfg : Cfg) (root : G) : resolve (table cfg root) [0] = some root := by
  simp [resolve, table, subAt]

/-! ### `RefsBelow` along paths -/

theorem kids_all {P : G → Prop} {g : G} (h : g.All P) : ∀ k ∈ kids g, k.All P := by
  intro k hk
  cases g with
  | term t => cases hk
  | empty => cases hk
  | eof => cases hk
  | ref j => cases hk
  | memo i b => simp only [kids, List.mem_singleton] at hk; subst hk; simp only [G.All] at h; exact h.2
  | any gs => simp only [G.All] at h; exact AllList_mem h.2 k hk
  | choice gs => simp only [G.All] at h; exact AllList_mem h.2 k hk
  | seq sk gs o => simp only [G.All] at h; exact AllList_mem h.2 k hk
  | many b ae o => simp only [kids, List.mem_singleton] at hk; subst hk; simp only [G.All] at h; exact h.2
  | sepBy v sp ae o =>
    simp only [kids, List.mem_cons, List.not_mem_nil, or_false] at hk
    simp only [G.All] at h
    rcases hk with rfl | rfl
    · exact h.2.1
    · exact h.2.2
  | optional b => simp only [kids, List.mem_singleton] at hk; subst hk; simp only [G.All] at h; exact h.2
  | name b nm => simp only [kids, List.mem_singleton] at hk; subst hk; simp only [G.All] at h; exact h.2
  | ltrim b m => simp only [kids, List.mem_singleton] at hk; subst hk; simp only [G.All] at h; exact h.2
  | rtrim b m => simp only [kids, List.mem_singleton] at hk; subst hk; simp only [G.All] at h; exact h.2
  | single b => simp only [kids, List.mem_singleton] at hk; subst hk; simp only [G.All] at h; exact h.2
  | suppress b => simp only [kids, List.mem_singleton] at hk; subst hk; simp only [G.All] at h; exact h.2

theorem subAt_all {P : G → Prop} : ∀ (π : List Nat) (g g' : G), g.All P → subAt π g = some g' → g'.All P
  | [], g, g', hg, h => by
    simp only [subAt, Option.some.injEq] at h
    subst h
    exact hg
  | j :: π, g, g', hg, h => by
    simp only [subAt] at h
    cases hj : (kids g)[j]? with
    | none => simp [hj] at h
    | some kj =>
      rw [hj] at h
      exact subAt_all π kj g' (kids_all hg kj (List.mem_of_getElem? hj)) h

theorem resolve_refsBelow (cfg : Cfg) (root : G) (hc : Closed cfg root) (π : List Nat) (g : G)
    (h : resolve (table cfg root) π = some g) : RefsBelow cfg.env.length g := by
  cases π with
  | nil => simp [resolve] at h
  | cons j π =>
    simp only [resolve] at h
    cases hj : (table cfg root)[j]? with
    | none => simp [hj] at h
    | some gj =>
      rw [hj] at h
      have hgj : RefsBelow cfg.env.length gj := by
        have hm := List.mem_of_getElem? hj
        simp only [table, List.mem_cons] at hm
        rcases hm with rfl | hm
        · exact hc.root
        · exact hc.env gj hm
      exact subAt_all π gj g hgj h

/-! ### the checker -/

mutual
theorem refsBelowB_sound (n : Nat) : ∀ g : G, refsBelowB n g = true → RefsBelow n g
  | .term t, _ => by simp [RefsBelow, G.All]
  | .empty, _ => by simp [RefsBelow, G.All]
  | .eof, _ => by simp [RefsBelow, G.All]
  | .ref k, h => by
    simp only [refsBelowB, decide_eq_true_eq] at h
    simp only [RefsBelow, G.All]
    intro k' hk'
    cases hk'
    exact h
  | .memo i g, h => by
    simp only [refsBelowB] at h
    exact ⟨by simp, refsBelowB_sound n g h⟩
  | .any gs, h => by
    simp only [refsBelowB] at h
    exact ⟨by simp, refsBelowAllB_sound n gs h⟩
  | .choice gs, h => by
    simp only [refsBelowB] at h
    exact ⟨by simp, refsBelowAllB_sound n gs h⟩
  | .seq k gs o, h => by
    simp only [refsBelowB] at h
    exact ⟨by simp, refsBelowAllB_sound n gs h⟩
  | .many g ae o, h => by
    simp only [refsBelowB] at h
    exact ⟨by simp, refsBelowB_sound n g h⟩
  | .sepBy v s ae o, h => by
    simp only [refsBelowB, Bool.and_eq_true] at h
    exact ⟨by simp, refsBelowB_sound n v h.1, refsBelowB_sound n s h.2⟩
  | .optional g, h => by
    simp only [refsBelowB] at h
    exact ⟨by simp, refsBelowB_sound n g h⟩
  | .name g nm, h => by
    simp only [refsBelowB] at h
    exact ⟨by simp, refsBelowB_sound n g h⟩
  | .ltrim g m, h => by
    simp only [refsBelowB] at h
    exact ⟨by simp, refsBelowB_sound n g h⟩
  | .rtrim g m, h => by
    simp only [refsBelowB] at h
    exact ⟨by simp, refsBelowB_sound n g h⟩
  | .single g, h => by
    simp only [refsBelowB] at h
    exact ⟨by simp, refsBelowB_sound n g h⟩
  | .suppress g, h => by
    simp only [refsBelowB] at h
    exact ⟨by simp, refsBelowB_sound n g h⟩
theorem refsBelowAllB_sound (n : Nat) : ∀ gs : List G, refsBelowAllB n gs = true →
    AllList (fun x => ∀ k, x = .ref k → k < n) gs
  | [], _ => trivial
  | g :: gs, h => by
    simp only [refsBelowAllB, Bool.and_eq_true] at h
    exact ⟨refsBelowB_sound n g h.1, refsBelowAllB_sound n gs h.2⟩
end

theorem closedB_sound (cfg : Cfg) (root : G) (h : closedB cfg.env root = true) : Closed cfg root := by
  simp only [closedB, Bool.and_eq_true] at h
  exact ⟨refsBelowB_sound _ root h.1, fun g hg => AllList_mem (refsBelowAllB_sound _ cfg.env h.2) g hg⟩

/-! ### the reader -/

theorem modeOf_code (m : Text.WsMode) : modeOf (modeCode m) = m := by
  cases m <;> simp [modeOf, modeCode]

theorem rdWorld_rel (cfg : Cfg) : WorldRel (rdWorld cfg) cfg :=
  ⟨fun p => by simp [rdWorld], fun p => by simp [rdWorld], by simp [rdWorld],
   fun p m => by simp [rdWorld, modeOf_code]⟩

/-- the reader of the closed world is the model's file, at every fuel -/
theorem gWorld_rel (cfg : Cfg) (root : G) (fuel : Nat) : WorldRel (gWorld cfg root fuel) cfg := by
  have h := rdWorld_rel cfg
  cases fuel <;> exact ⟨h.remaining, h.isEOF, h.pos0, h.skipWs⟩

/-! ### handles -/

@[simp] theorem hdl_isNil (π : List Nat) : (hdl π).isNil = false := rfl

theorem kidsH_notNil (π : List Nat) (n : Nat) : ∀ p ∈ kidsH π n, p.isNil = false := by
  intro p hp
  simp only [kidsH, List.mem_map] at hp
  obtain ⟨i, -, rfl⟩ := hp
  rfl

theorem agreesAll_range (W : World Context) (cfg : Cfg) (fuel : Nat) (π : List Nat) :
    ∀ (gs : List G) (off : Nat),
      (∀ i k, gs[i]? = some k → Agrees W cfg fuel (kidH π (off + i)) k) →
      AgreesAll W cfg fuel ((List.range' off gs.length).map (kidH π)) gs
  | [], off, _ => .nil
  | g :: gs, off, h => by
    simp only [List.length_cons, List.range'_succ, List.map_cons]
    refine .cons (by simpa using h 0 g rfl) (agreesAll_range W cfg fuel π gs (off + 1) fun i k hk => ?_)
    have := h (i + 1) k (by simpa using hk)
    rwa [show off + (i + 1) = off + 1 + i by omega] at this

theorem agreesAll_kids (W : World Context) (cfg : Cfg) (fuel : Nat) (π : List Nat) (gs : List G)
    (h : ∀ i k, gs[i]? = some k → Agrees W cfg fuel (kidH π i) k) : AgreesAll W cfg fuel (kidsH π gs.length) gs :=
  agreesAll_range W cfg fuel π gs 0 (fun i k hk => by simpa using h i k hk)

/-! ### the leaves -/

theorem tie_Terminal (cfg : Cfg) (h0 : cfg.maxCalls = 0) (fuel : Nat) (t : Terminal) :
    AgreesF (Terminal_parse cfg t) cfg (fuel + 1) (.term t) := by
  intro m c pos s st hm hs
  rw [run, if_neg (run_budget0 cfg h0 st)]
  have e : Terminal_parse cfg t m (pos : Int) s = .ok (eOut (termOut cfg t pos)) s := by
    simp [Terminal_parse]
  rw [e]
  unfold termOut
  cases t.parse cfg.params cfg.file pos with
  | node n => exact ⟨s, rfl, hs⟩
  | err er => exact ⟨s, rfl, hs.logEv cfg _⟩
  | panic site => exact ⟨s, rfl, hs⟩

/-- a parser variable: calling it is calling the rule it holds, with one unit of fuel less -/
theorem tie_Ref (W : World Context) (cfg : Cfg) (h0 : cfg.maxCalls = 0) (fuel : Nat) (k : Nat) (g : G) (p : Parser)
    (hk : cfg.env[k]? = some g) (hp : Agrees W cfg fuel p g) : AgreesF (W.parse p) cfg (fuel + 1) (.ref k) := by
  intro m c pos s st hm hs
  rw [run, if_neg (run_budget0 cfg h0 st)]
  simp only [hk]
  exact hp m c pos s st hm hs

/-! ### the Sequence family -/

/-- the shape after the setters of `applyOpts` -/
def optShape (sh : SeqShape) (o : SeqOpts) : SeqShape :=
  { sh with
    token := (match o.token with | some t => t | none => sh.token),
    name := (match o.name with | some nm => some nm | none => sh.name),
    single := (if o.single then true else sh.single),
    interp := o.interp }

theorem applyOpts_static (W : World Context) (cfg : Cfg) (fuel : Nat) (sh : SeqShape) (S : Sequence) (o : SeqOpts)
    (h : SeqStatic W cfg fuel sh S) (s : Context) :
    ∃ S', applyOpts W o S s = .ok S' s ∧ SeqStatic W cfg fuel (optShape sh o) S' := by
  -- Token
  obtain ⟨S1, e1, h1⟩ : ∃ S1, optToken W o S s = .ok S1 s ∧
      SeqStatic W cfg fuel { sh with token := (match o.token with | some t => t | none => sh.token) } S1 := by
    unfold optToken
    cases o.token with
    | none => exact ⟨S, rfl, h⟩
    | some t =>
      obtain ⟨-, ht, -, -⟩ := tie_setters W cfg fuel sh S h s
      obtain ⟨S1, e, hs⟩ := ht t
      exact ⟨S1, by simp [e], hs⟩
  -- Name
  obtain ⟨S2, e2, h2⟩ : ∃ S2, optName W o S1 s = .ok S2 s ∧
      SeqStatic W cfg fuel { sh with token := (match o.token with | some t => t | none => sh.token),
                                     name := (match o.name with | some nm => some nm | none => sh.name) } S2 := by
    unfold optName
    cases o.name with
    | none => exact ⟨S1, rfl, h1⟩
    | some nm =>
      obtain ⟨hn, -, -, -⟩ := tie_setters W cfg fuel _ S1 h1 s
      obtain ⟨S2, e, hs⟩ := hn nm
      exact ⟨S2, by simp [e], hs⟩
  -- HandleResult(ReturnSingle())
  obtain ⟨S3, e3, h3⟩ : ∃ S3, optSingle W o S2 s = .ok S3 s ∧
      SeqStatic W cfg fuel { sh with token := (match o.token with | some t => t | none => sh.token),
                                     name := (match o.name with | some nm => some nm | none => sh.name),
                                     single := (if o.single then true else sh.single) } S3 := by
    unfold optSingle
    cases o.single with
    | false => exact ⟨S2, rfl, h2⟩
    | true =>
      obtain ⟨-, -, -, S3, e, hs⟩ := tie_setters W cfg fuel _ S2 h2 s
      exact ⟨S3, by simp [ReturnSingle, e], hs⟩
  -- Bind
  obtain ⟨-, -, hb, -⟩ := tie_setters W cfg fuel _ S3 h3 s
  obtain ⟨S4, e4, h4⟩ := hb o.interp
  refine ⟨S4, ?_, h4⟩
  simp only [applyOpts, bind_apply, e1, e2, e3, e4, pure_apply]

/-- the translated constructor + setters + `(*Sequence).Parse`, over operands that agree with `run cfg fuel` -/
theorem tie_seqNode (W : World Context) (cfg : Cfg) (h0 : cfg.maxCalls = 0) (fuel : Nat) (g : G)
    (ctor : CM (Option Sequence)) (o : SeqOpts) (sh0 : SeqShape)
    (hctor : ∀ s, ∃ S, ctor s = .ok (some S) s ∧ SeqStatic W cfg fuel sh0 S)
    (hg : g.shape = some (optShape sh0 o)) : AgreesF (seqNode W fuel ctor o) cfg (fuel + 1) g := by
  intro m c pos s st hm hs
  obtain ⟨S, e1, h1⟩ := hctor s
  obtain ⟨S', e2, h2⟩ := applyOpts_static W cfg fuel sh0 S o h1 s
  have e : seqNode W fuel ctor o m (pos : Int) s = Sequence_Parse W (2 * fuel - 1) S' m (pos : Int) s := by
    simp only [seqNode, bind_apply, e1, deref_some, e2]
  rw [e]
  exact tie_Sequence_Parse W cfg h0 fuel g _ hg S' h2 m c pos s st hm hs

theorem shape_seq (k : SeqKind) (gs : List G) (o : SeqOpts) (sh0 : SeqShape) (h : (G.seq k gs {}).shape = some sh0) :
    (G.seq k gs o).shape = some (optShape sh0 o) := by
  simp only [G.shape, Option.some.injEq] at h
  subst h
  obtain ⟨i, nm, sg, tk⟩ := o
  cases nm <;> cases sg <;> cases tk <;> rfl

theorem shape_many (g : G) (ae : Bool) (o : SeqOpts) (sh0 : SeqShape) (h : (G.many g ae {}).shape = some sh0) :
    (G.many g ae o).shape = some (optShape sh0 o) := by
  simp only [G.shape, Option.some.injEq] at h
  subst h
  obtain ⟨i, nm, sg, tk⟩ := o
  cases nm <;> cases sg <;> cases tk <;> rfl

theorem shape_sepBy (v sp : G) (ae : Bool) (o : SeqOpts) (sh0 : SeqShape) (h : (G.sepBy v sp ae {}).shape = some sh0) :
    (G.sepBy v sp ae o).shape = some (optShape sh0 o) := by
  simp only [G.shape, Option.some.injEq] at h
  subst h
  obtain ⟨i, nm, sg, tk⟩ := o
  cases nm <;> cases sg <;> cases tk <;> rfl

theorem many_eq (W : World Context) (p : Parser) (ae : Bool) (s : Context) :
    (if ae then Many W p else Many1 W p) s = newMany W p ae s := by
  cases ae <;> simp [Many, Many1]

theorem sepBy_eq (W : World Context) (pv ps : Parser) (ae : Bool) (s : Context) :
    (if ae then SepBy W pv ps else SepBy1 W pv ps) s = newSepBy W pv ps ae s := by
  cases ae <;> simp [SepBy, SepBy1]

/-! ### one level: the translated closure of any combinator node, over operands that agree -/

/-- **the induction step, for every constructor of `G`**: in ANY world `W` whose reader is the model's file, if the
    handles of the operands of `g` agree with `run cfg fuel` (and, for `g = ref k`, the rule `k` exists and its handle
    agrees), the translated closure `node … g` agrees with `run cfg (fuel+1) g` -/
theorem node_agrees (W : World Context) (cfg : Cfg) (h0 : cfg.maxCalls = 0) (hw : WorldRel W cfg) (fuel : Nat)
    (π : List Nat) (g : G)
    (hkids : ∀ i k, (kids g)[i]? = some k → Agrees W cfg fuel (kidH π i) k)
    (href : ∀ k, g = .ref k → ∃ g', cfg.env[k]? = some g' ∧ Agrees W cfg fuel (refH k) g') :
    AgreesF (node cfg W fuel π g) cfg (fuel + 1) g := by
  cases g with
  | term t => exact tie_Terminal cfg h0 fuel t
  | empty => exact tie_Empty W cfg h0 fuel
  | eof => exact tie_End W cfg h0 hw fuel
  | ref k =>
    obtain ⟨g', hk, hp⟩ := href k rfl
    exact tie_Ref W cfg h0 fuel k g' (refH k) hk hp
  | memo idx b => exact tie_Memoize W cfg h0 hw fuel _ b idx (hkids 0 b rfl)
  | any gs => exact tie_Any W cfg h0 fuel _ gs (agreesAll_kids W cfg fuel π gs hkids)
  | choice gs => exact tie_Choice W cfg h0 fuel _ gs (agreesAll_kids W cfg fuel π gs hkids)
  | seq k gs o =>
    have hall := agreesAll_kids W cfg fuel π gs hkids
    have hnn := kidsH_notNil π gs.length
    cases k with
    | seqOf =>
      obtain ⟨⟨S, sh, e, hsh, hst⟩, -, -⟩ := tie_SeqOf W cfg fuel _ gs hall hnn default
      refine tie_seqNode W cfg h0 fuel _ _ o sh (fun s => ?_) (shape_seq _ gs o sh hsh)
      obtain ⟨⟨S', sh', e', hsh', hst'⟩, -, -⟩ := tie_SeqOf W cfg fuel _ gs hall hnn s
      rw [hsh] at hsh'
      cases hsh'
      exact ⟨S', e', hst'⟩
    | seqTry =>
      obtain ⟨-, ⟨S, sh, e, hsh, hst⟩, -⟩ := tie_SeqOf W cfg fuel _ gs hall hnn default
      refine tie_seqNode W cfg h0 fuel _ _ o sh (fun s => ?_) (shape_seq _ gs o sh hsh)
      obtain ⟨-, ⟨S', sh', e', hsh', hst'⟩, -⟩ := tie_SeqOf W cfg fuel _ gs hall hnn s
      rw [hsh] at hsh'
      cases hsh'
      exact ⟨S', e', hst'⟩
    | seqFirstOrAll =>
      obtain ⟨-, -, ⟨S, sh, e, hsh, hst⟩⟩ := tie_SeqOf W cfg fuel _ gs hall hnn default
      refine tie_seqNode W cfg h0 fuel _ _ o sh (fun s => ?_) (shape_seq _ gs o sh hsh)
      obtain ⟨-, -, ⟨S', sh', e', hsh', hst'⟩⟩ := tie_SeqOf W cfg fuel _ gs hall hnn s
      rw [hsh] at hsh'
      cases hsh'
      exact ⟨S', e', hst'⟩
  | many b ae o =>
    have hb := hkids 0 b rfl
    obtain ⟨S, sh, e, hsh, hst⟩ := tie_newMany W cfg fuel _ b ae hb (hdl_isNil _) default
    refine tie_seqNode W cfg h0 fuel _ _ o sh (fun s => ?_) (shape_many b ae o sh hsh)
    obtain ⟨S', sh', e', hsh', hst'⟩ := tie_newMany W cfg fuel _ b ae hb (hdl_isNil _) s
    rw [hsh] at hsh'
    cases hsh'
    exact ⟨S', by rw [many_eq]; exact e', hst'⟩
  | sepBy v sp ae o =>
    have hv := hkids 0 v rfl
    have hs := hkids 1 sp rfl
    obtain ⟨S, sh, e, hsh, hst⟩ := tie_newSepBy W cfg fuel _ _ v sp ae hv hs (hdl_isNil _) (hdl_isNil _) default
    refine tie_seqNode W cfg h0 fuel _ _ o sh (fun s => ?_) (shape_sepBy v sp ae o sh hsh)
    obtain ⟨S', sh', e', hsh', hst'⟩ := tie_newSepBy W cfg fuel _ _ v sp ae hv hs (hdl_isNil _) (hdl_isNil _) s
    rw [hsh] at hsh'
    cases hsh'
    exact ⟨S', by rw [sepBy_eq]; exact e', hst'⟩
  | optional b => exact tie_Optional W cfg h0 fuel _ b (hkids 0 b rfl)
  | name b nm => exact tie_ReturnError W cfg h0 fuel _ b nm (hkids 0 b rfl)
  | ltrim b mode => exact tie_LeftTrim W cfg h0 hw fuel _ b mode (hkids 0 b rfl)
  | rtrim b mode => exact tie_RightTrim W cfg h0 hw fuel _ b mode (hkids 0 b rfl)
  | single b => exact tie_Single W cfg h0 fuel _ b (hkids 0 b rfl)
  | suppress b => exact tie_SuppressError W cfg h0 fuel _ b (hkids 0 b rfl)

/-! ### the closed world -/

theorem gWorld_parse_succ (cfg : Cfg) (root : G) (fuel : Nat) (π : List Nat) (g : G)
    (h : resolve (table cfg root) π = some g) :
    (gWorld cfg root (fuel + 1)).parse (hdl π) = node cfg (gWorld cfg root fuel) fuel π g := by
  funext m pos
  show dispatch cfg root (gWorld cfg root fuel) fuel (hdl π) m pos = _
  simp only [dispatch, hdl, Encodable.encodek, h]

theorem gWorld_parse_zero (cfg : Cfg) (root : G) (p : Parser) (m : IntMap) (pos : Int) (s : Context) :
    (gWorld cfg root 0).parse p m pos s = .nofuel := rfl

/-- **the closed-world theorem, path form**: at every fuel the world built from the translated closures agrees with the
    model's `run` on every sub-parser of the table -/
theorem gWorld_agrees (cfg : Cfg) (h0 : cfg.maxCalls = 0) (root : G) (hc : Closed cfg root) :
    ∀ (fuel : Nat) (π : List Nat) (g : G), resolve (table cfg root) π = some g →
      Agrees (gWorld cfg root fuel) cfg fuel (hdl π) g := by
  intro fuel
  induction fuel with
  | zero =>
    intro π g _ m c pos s st _ _
    show Corr _ none
    exact gWorld_parse_zero cfg root _ _ _ _
  | succ fuel ih =>
    intro π g hπ
    rw [agrees_iff, gWorld_parse_succ cfg root fuel π g hπ]
    refine node_agrees (gWorld cfg root fuel) cfg h0 (gWorld_rel cfg root fuel) fuel π g
      (fun i k hk => ih (π ++ [i]) k (resolve_snoc _ π g k i hπ hk)) (fun k hk => ?_)
    subst hk
    have hlt : k < cfg.env.length := G.All_self (resolve_refsBelow cfg root hc π _ hπ) k rfl
    exact ⟨cfg.env[k], List.getElem?_eq_getElem hlt, ih [k + 1] _ (resolve_ref cfg root k _ (List.getElem?_eq_getElem hlt))⟩

end PV.CW
