import ParsleyVerif.Proofs.SliceInv
/-
  One step of the slice machine keeps the invariant; a step other than SetReaderPos is framed.
-/
namespace PV.Slice

theorem HWF.cellOK {s : St} {top : Nat → Nat} {h : Handle} (hw : HWF s top h) (nl : ∀ sl, h ≠ Handle.list sl) :
    CellOK s.nodes.length h := by
  cases h with
  | ptr m => exact hw
  | list sl => exact absurd rfl (nl sl)
  | _ => trivial

theorem Inv.get_hwf {s : St} {top : Nat → Nat} (inv : Inv s top) {i : Nat} {h : Handle} (hg : s.get i = some h) :
    HWF s top h := by
  obtain ⟨e, he, _, hh⟩ := get_some hg
  rw [← hh]; exact inv.pool e (List.mem_of_getElem? he)

/-- a live list handle is safe to append to in place: it is sealed (memo) or the owner of its array -/
theorem Inv.get_safe {s : St} {top : Nat → Nat} (inv : Inv s top) {i : Nat} {sl : Slice}
    (hg : s.get i = some (Handle.list sl)) : Safe top sl := by
  obtain ⟨e, he, hl, hh⟩ := get_some hg
  cases hm : inMemo s (Handle.list sl) with
  | true =>
    obtain ⟨kv, hkv, hkv2⟩ := inMemo_true hm
    have := (inv.memo kv hkv).2
    rw [hkv2] at this
    intro hlt
    have : sl.len = sl.cap := this
    omega
  | false => exact inv.own i e sl he ⟨hl, hh, hm⟩

theorem Inv.list_arr_lt {s : St} {top : Nat → Nat} {sl : Slice} (hw : HWF s top (Handle.list sl)) :
    sl.arr < s.arrs.length := by
  rcases hw.1.2 with h0 | ⟨h1, _⟩
  · have := hw.1.1; have := hw.2.1; omega
  · exact h1

theorem Inv.buf_ne {s : St} {top : Nat → Nat} (inv : Inv s top) {sl : Slice} (hw : HWF s top (Handle.list sl)) :
    ∀ b ∈ s.bufs, b.cap ≠ 0 → b.arr ≠ sl.arr := by
  intro b hb hc heq
  have := (inv.bufs b hb).2 hc
  have h1 := hw.2.1
  have h2 := hw.2.2.1
  rw [heq] at this
  omega

/-- the state between consuming and pushing -/
theorem Inv.mid {s : St} {top : Nat → Nat} (inv : Inv s top) (i : Nat) (h : Handle) (arrs' : Arrs)
    (fa : FrameA top s.arrs arrs') (ok : CellsOK s.nodes.length arrs') :
    Inv ({ (s.consume i h) with arrs := arrs' } : St) top := by
  apply (inv.consume i h).setArrs arrs'
  · rw [consume_arrs]; exact fa
  · rw [consume_nodes]; exact ok

/-- the variable holding pool value `i` is overwritten with the same value -/
theorem Inv.repush {s : St} {top : Nat → Nat} (inv : Inv s top) (i : Nat) (h : Handle) (hg : s.get i = some h)
    (arrs' : Arrs) (fa : FrameA top s.arrs arrs') (ok : CellsOK s.nodes.length arrs') :
    ∃ top', Inv (({ (s.consume i h) with arrs := arrs' } : St).push h) top' := by
  have mid := inv.mid i h arrs' fa ok
  have hw := inv.get_hwf hg
  have hw2 : HWF ({ (s.consume i h) with arrs := arrs' } : St) top h :=
    hw.frame _ (by simp [consume_nodes]) fa
  cases h with
  | list sl =>
    refine ⟨_, mid.push_list sl hw2.1 hw2.2.1 (inv.get_safe hg) hw2.2.2.2 ?_ ?_⟩
    · intro hm k e slk hk hl
      obtain ⟨h0, hl0, hne⟩ := linear_after_consume hk hl
      obtain ⟨ei, hei, hli, hhi⟩ := get_some hg
      have hm' : inMemo s (Handle.list sl) = false := by
        rw [← inMemo_congr (s := s) (s' := ({ (s.consume i (Handle.list sl)) with arrs := arrs' } : St)) (by simp [consume_memo])]
        exact hm
      intro heq
      have := inv.uniq k i e ei slk sl h0 hei hl0 ⟨hli, hhi, hm'⟩ heq
      exact hne (by rw [consumable_list, hm']; rfl) this
    · intro b hb hc
      have hb' : b ∈ s.bufs := by simpa [consume_bufs] using hb
      exact inv.buf_ne hw b hb' hc
  | nil => exact ⟨top, mid.push_flat _ hw2 (by intro sl; simp)⟩
  | ptr m => exact ⟨top, mid.push_flat _ hw2 (by intro sl; simp)⟩
  | empty p => exact ⟨top, mid.push_flat _ hw2 (by intro sl; simp)⟩
  | eof p => exact ⟨top, mid.push_flat _ hw2 (by intro sl; simp)⟩

/-- push a list that lives on an array allocated by the step -/
theorem Inv.push_fresh {s : St} {top : Nat → Nat} (inv : Inv s top) (i : Nat) (h : Handle)
    (arrs' : Arrs) (sl' : Slice) (fa : FrameA top s.arrs arrs') (ok : CellsOK s.nodes.length arrs')
    (w : SWF arrs' sl') (pos : 0 < sl'.len) (sf : Safe top sl') (nn : Handle.nil ∉ view arrs' sl')
    (hfresh : s.arrs.length ≤ sl'.arr) :
    ∃ top', Inv (({ (s.consume i h) with arrs := arrs' } : St).push (Handle.list sl')) top' := by
  have mid := inv.mid i h arrs' fa ok
  refine ⟨_, mid.push_list sl' w pos sf nn ?_ ?_⟩
  · intro _ k e slk hk hl
    obtain ⟨h0, hl0, _⟩ := linear_after_consume hk hl
    have hw := inv.pool e (List.mem_of_getElem? h0)
    rw [hl0.2.1] at hw
    have := Inv.list_arr_lt hw
    omega
  · intro b hb hc
    have hb' : b ∈ s.bufs := by simpa [consume_bufs] using hb
    rcases (inv.bufs b hb').1.2 with h0 | ⟨h1, _⟩
    · exact absurd h0 hc
    · omega

/-- push the result of an append-like operation on the list held by pool entry `i` -/
theorem Inv.push_result {s : St} {top : Nat → Nat} (inv : Inv s top) (i : Nat) (sl : Slice)
    (hg : s.get i = some (Handle.list sl)) (arrs' : Arrs) (sl' : Slice) (fa : FrameA top s.arrs arrs')
    (ok : CellsOK s.nodes.length arrs') (w : SWF arrs' sl') (pos : 0 < sl'.len) (sf : Safe top sl')
    (nn : Handle.nil ∉ view arrs' sl') (pl : Placed s.arrs sl sl') :
    ∃ top', Inv (({ (s.consume i (Handle.list sl)) with arrs := arrs' } : St).push (Handle.list sl')) top' := by
  rcases pl with ⟨p1, p2, p3⟩ | p4
  · rcases p3 with p3 | ⟨p3, p4⟩
    · subst p3
      exact inv.repush i _ hg arrs' fa ok
    · -- extended in place: the list was not sealed, hence linear, hence consumed
      have mid := inv.mid i (Handle.list sl) arrs' fa ok
      have hw := inv.get_hwf hg
      obtain ⟨ei, hei, hli, hhi⟩ := get_some hg
      have hm : inMemo s (Handle.list sl) = false := by
        cases hm : inMemo s (Handle.list sl) with
        | false => rfl
        | true =>
          obtain ⟨kv, hkv, hkv2⟩ := inMemo_true hm
          have := (inv.memo kv hkv).2
          rw [hkv2] at this
          have : sl.len = sl.cap := this
          omega
      refine ⟨_, mid.push_list sl' w pos sf nn ?_ ?_⟩
      · intro _ k e slk hk hl
        obtain ⟨h0, hl0, hne⟩ := linear_after_consume hk hl
        intro heq
        have := inv.uniq k i e ei slk sl h0 hei hl0 ⟨hli, hhi, hm⟩ (by rw [heq, p1])
        exact hne (by rw [consumable_list, hm]; rfl) this
      · intro b hb hc
        have hb' : b ∈ s.bufs := by simpa [consume_bufs] using hb
        rw [p1]
        exact inv.buf_ne hw b hb' hc
  · exact inv.push_fresh i _ arrs' sl' fa ok w pos sf nn p4

/-! ### AppendNode -/

/-- what `ast.AppendNode` returns: one of its arguments, or a list placed relative to its first argument -/
inductive AppOut (s : St) (top : Nat → Nat) (h1 h2 : Handle) (arrs' : Arrs) : Handle → Prop
  | left : h1 = Handle.nil → arrs' = s.arrs → AppOut s top h1 h2 arrs' h2
  | right : h1 ≠ Handle.nil → h2 = Handle.nil → arrs' = s.arrs → AppOut s top h1 h2 arrs' h1
  | ext (sl sl' : Slice) : h1 = Handle.list sl → SWF arrs' sl' → 0 < sl'.len → Safe top sl' →
      Handle.nil ∉ view arrs' sl' → Placed s.arrs sl sl' → AppOut s top h1 h2 arrs' (Handle.list sl')
  | fresh (sl' : Slice) : (∀ sl, h1 ≠ Handle.list sl) → h1 ≠ Handle.nil → SWF arrs' sl' → 0 < sl'.len → Safe top sl' →
      Handle.nil ∉ view arrs' sl' → s.arrs.length ≤ sl'.arr → AppOut s top h1 h2 arrs' (Handle.list sl')

theorem appendNodeCore_spec (grow : Nat → Nat) {s : St} {top : Nat → Nat} (inv : Inv s top) (h1 h2 : Handle)
    (hw1 : HWF s top h1) (hw2 : HWF s top h2) (sf1 : ∀ sl, h1 = Handle.list sl → Safe top sl) :
    FrameA top s.arrs (appendNodeCore grow s.arrs h1 h2).1 ∧
    CellsOK s.nodes.length (appendNodeCore grow s.arrs h1 h2).1 ∧
    AppOut s top h1 h2 (appendNodeCore grow s.arrs h1 h2).1 (appendNodeCore grow s.arrs h1 h2).2 := by
  unfold appendNodeCore
  by_cases hn1 : h1 = Handle.nil
  · rw [if_pos hn1]
    exact ⟨FrameA.refl _ _, inv.cellok, AppOut.left hn1 rfl⟩
  · rw [if_neg hn1]
    by_cases hn2 : h2 = Handle.nil
    · rw [if_pos hn2]
      exact ⟨FrameA.refl _ _, inv.cellok, AppOut.right hn1 hn2 rfl⟩
    · rw [if_neg hn2]
      have hv2 : (∀ sl, h2 ≠ Handle.list sl) → CellOK s.nodes.length h2 := fun nl => hw2.cellOK nl
      cases h1 with
      | list sl =>
        simp only
        have r := nlAppend_spec grow top s.nodes.length s.arrs sl h2 hw1.1 (sf1 sl rfl) inv.topz inv.cellok hv2
        have nn := nlAppend_nonnil grow top s.nodes.length s.arrs sl h2 hw1.1 (sf1 sl rfl) inv.topz inv.cellok hw1.2.2.2 hn2
          (fun src e => by subst e; exact ⟨hw2.1, hw2.2.2.1, hw2.2.2.2⟩)
        exact ⟨r.frame, r.ok, AppOut.ext sl _ rfl r.swf (r.pos hw1.2.1) r.safe nn r.placed⟩
      | nil => exact absurd rfl hn1
      | ptr m =>
        simp only
        have tz1 : ∀ a, (s.arrs ++ [[Handle.ptr m]]).length ≤ a → top a = 0 :=
          fun a ha => inv.topz a (by simp at ha; omega)
        have ok1 : CellsOK s.nodes.length (s.arrs ++ [[Handle.ptr m]]) :=
          cellsOK_append inv.cellok _ (by intro x hx; simp at hx; subst hx; exact hw1)
        have w0 : SWF (s.arrs ++ [[Handle.ptr m]]) ⟨s.arrs.length, 1, 1⟩ :=
          ⟨Nat.le_refl _, Or.inr ⟨by simp, by simp [cells_append_eq]⟩⟩
        have r := nlAppend_spec grow top s.nodes.length _ ⟨s.arrs.length, 1, 1⟩ h2 w0 (by intro h; simp at h) tz1 ok1 hv2
        have fa0 := frameA_append top s.arrs [Handle.ptr m] inv.topz
        have nn := nlAppend_nonnil grow top s.nodes.length _ ⟨s.arrs.length, 1, 1⟩ h2 w0 (by intro h; simp at h) tz1 ok1
          (by simp [view, cells_append_eq]) hn2
          (fun src e => by subst e; exact ⟨fa0.swf hw2.1, hw2.2.2.1, by rw [fa0.view_eq src hw2.2.2.1]; exact hw2.2.2.2⟩)
        refine ⟨(frameA_append top s.arrs _ inv.topz).trans r.frame, r.ok,
          AppOut.fresh _ (by intro sl; simp) (by simp) r.swf (r.pos (by simp)) r.safe nn ?_⟩
        rcases r.placed with ⟨p1, _, _⟩ | p2
        · rw [p1]; exact Nat.le_refl _
        · simp at p2; omega
      | empty p =>
        simp only
        have tz1 : ∀ a, (s.arrs ++ [[Handle.empty p]]).length ≤ a → top a = 0 :=
          fun a ha => inv.topz a (by simp at ha; omega)
        have ok1 : CellsOK s.nodes.length (s.arrs ++ [[Handle.empty p]]) :=
          cellsOK_append inv.cellok _ (by intro x hx; simp at hx; subst hx; trivial)
        have w0 : SWF (s.arrs ++ [[Handle.empty p]]) ⟨s.arrs.length, 1, 1⟩ :=
          ⟨Nat.le_refl _, Or.inr ⟨by simp, by simp [cells_append_eq]⟩⟩
        have r := nlAppend_spec grow top s.nodes.length _ ⟨s.arrs.length, 1, 1⟩ h2 w0 (by intro h; simp at h) tz1 ok1 hv2
        have fa0 := frameA_append top s.arrs [Handle.empty p] inv.topz
        have nn := nlAppend_nonnil grow top s.nodes.length _ ⟨s.arrs.length, 1, 1⟩ h2 w0 (by intro h; simp at h) tz1 ok1
          (by simp [view, cells_append_eq]) hn2
          (fun src e => by subst e; exact ⟨fa0.swf hw2.1, hw2.2.2.1, by rw [fa0.view_eq src hw2.2.2.1]; exact hw2.2.2.2⟩)
        refine ⟨(frameA_append top s.arrs _ inv.topz).trans r.frame, r.ok,
          AppOut.fresh _ (by intro sl; simp) (by simp) r.swf (r.pos (by simp)) r.safe nn ?_⟩
        rcases r.placed with ⟨p1, _, _⟩ | p2
        · rw [p1]; exact Nat.le_refl _
        · simp at p2; omega
      | eof p =>
        simp only
        have tz1 : ∀ a, (s.arrs ++ [[Handle.eof p]]).length ≤ a → top a = 0 :=
          fun a ha => inv.topz a (by simp at ha; omega)
        have ok1 : CellsOK s.nodes.length (s.arrs ++ [[Handle.eof p]]) :=
          cellsOK_append inv.cellok _ (by intro x hx; simp at hx; subst hx; trivial)
        have w0 : SWF (s.arrs ++ [[Handle.eof p]]) ⟨s.arrs.length, 1, 1⟩ :=
          ⟨Nat.le_refl _, Or.inr ⟨by simp, by simp [cells_append_eq]⟩⟩
        have r := nlAppend_spec grow top s.nodes.length _ ⟨s.arrs.length, 1, 1⟩ h2 w0 (by intro h; simp at h) tz1 ok1 hv2
        have fa0 := frameA_append top s.arrs [Handle.eof p] inv.topz
        have nn := nlAppend_nonnil grow top s.nodes.length _ ⟨s.arrs.length, 1, 1⟩ h2 w0 (by intro h; simp at h) tz1 ok1
          (by simp [view, cells_append_eq]) hn2
          (fun src e => by subst e; exact ⟨fa0.swf hw2.1, hw2.2.2.1, by rw [fa0.view_eq src hw2.2.2.1]; exact hw2.2.2.2⟩)
        refine ⟨(frameA_append top s.arrs _ inv.topz).trans r.frame, r.ok,
          AppOut.fresh _ (by intro sl; simp) (by simp) r.swf (r.pos (by simp)) r.safe nn ?_⟩
        rcases r.placed with ⟨p1, _, _⟩ | p2
        · rw [p1]; exact Nat.le_refl _
        · simp at p2; omega

/-! ### what every step preserves about the pool and the memo table -/

/-- pool entries keep their handle and are never revived; the memo table only gets entries with new keys -/
structure Ext (s s' : St) : Prop where
  pool : ∀ (k : Nat) (e : Entry), s.pool[k]? = some e →
    ∃ e', s'.pool[k]? = some e' ∧ e'.h = e.h ∧ (e'.live = true → e.live = true)
  memo : ∃ l, s'.memo = l ++ s.memo ∧ ∀ kv ∈ l, ∀ kv' ∈ s.memo, kv.1 ≠ kv'.1

theorem Ext.refl (s : St) : Ext s s :=
  ⟨fun _ e he => ⟨e, he, rfl, id⟩, ⟨[], rfl, fun _ h => by simp at h⟩⟩

theorem Ext.trans {s1 s2 s3 : St} (a : Ext s1 s2) (b : Ext s2 s3) : Ext s1 s3 := by
  refine ⟨fun k e he => ?_, ?_⟩
  · obtain ⟨e2, h2, hh2, hl2⟩ := a.pool k e he
    obtain ⟨e3, h3, hh3, hl3⟩ := b.pool k e2 h2
    exact ⟨e3, h3, by rw [hh3, hh2], fun h => hl2 (hl3 h)⟩
  · obtain ⟨l1, h1, f1⟩ := a.memo
    obtain ⟨l2, h2, f2⟩ := b.memo
    refine ⟨l2 ++ l1, by rw [h2, h1, List.append_assoc], ?_⟩
    intro kv hkv kv' hkv'
    rcases List.mem_append.mp hkv with h | h
    · exact f2 kv h kv' (by rw [h1]; exact List.mem_append_right _ hkv')
    · exact f1 kv h kv' hkv'

theorem Ext.of_eq {s s' : St} (hp : s'.pool = s.pool) (hm : s'.memo = s.memo) : Ext s s' :=
  ⟨fun _ e he => ⟨e, by rw [hp]; exact he, rfl, id⟩, ⟨[], by simp [hm], fun _ h => by simp at h⟩⟩

theorem Ext.kill (s : St) (i : Nat) : Ext s (s.kill i) := by
  refine ⟨fun k e he => ?_, ⟨[], rfl, fun _ h => by simp at h⟩⟩
  simp only [St.kill, List.getElem?_modify]
  by_cases hik : i = k
  · subst hik
    simp only [if_true, he]
    exact ⟨_, rfl, rfl, fun h => by simp at h⟩
  · simp only [if_neg hik]
    exact ⟨e, by simpa using he, rfl, id⟩

theorem Ext.consume (s : St) (i : Nat) (h : Handle) : Ext s (s.consume i h) := by
  unfold St.consume; split
  · exact Ext.kill s i
  · exact Ext.refl s

theorem Ext.push (s : St) (h : Handle) : Ext s (s.push h) := by
  refine ⟨fun k e he => ⟨e, ?_, rfl, id⟩, ⟨[], rfl, fun _ h => by simp at h⟩⟩
  simp only [St.push]
  rw [List.getElem?_append_left (old_lt he)]; exact he

theorem StFrame.of_eq {top : Nat → Nat} {s s' : St} (hn : s'.nodes = s.nodes) (ha : s'.arrs = s.arrs) :
    StFrame top s s' := ⟨⟨[], by simp [hn]⟩, by rw [ha]; exact FrameA.refl _ _⟩

/-- the summary of one step -/
structure StepOK (top : Nat → Nat) (s s' : St) : Prop where
  inv : ∃ top', Inv s' top'
  frame : StFrame top s s'
  ext : Ext s s'

theorem StepOK.refl {top : Nat → Nat} {s : St} (inv : Inv s top) : StepOK top s s :=
  ⟨⟨top, inv⟩, StFrame.refl _ _, Ext.refl _⟩

/-- consume entry `i`, replace the arrays by framed ones, push `h'` -/
theorem stepOK_mid {top : Nat → Nat} {s : St} (i : Nat) (h h' : Handle) (arrs' : Arrs)
    (fa : FrameA top s.arrs arrs')
    (hinv : ∃ top', Inv (({ (s.consume i h) with arrs := arrs' } : St).push h') top') :
    StepOK top s (({ (s.consume i h) with arrs := arrs' } : St).push h') :=
  ⟨hinv, ⟨⟨[], by simp [St.push, consume_nodes]⟩, fa⟩,
   (Ext.consume s i h).trans
     ((Ext.of_eq (s := s.consume i h) (s' := ({ (s.consume i h) with arrs := arrs' } : St)) rfl rfl).trans (Ext.push _ h'))⟩

theorem doAppend_ok (grow : Nat → Nat) {s : St} {top : Nat → Nat} (inv : Inv s top) (i : Nat) (h1 : Handle)
    (hg1 : s.get i = some h1) (j : Option Nat) (h2 : Handle) (hw2 : HWF s top h2)
    (hj : ∀ j', j = some j' → s.get j' = some h2) (hnone : j = none → ∀ sl, h2 ≠ Handle.list sl) :
    StepOK top s (doAppend grow s i h1 j h2) := by
  have hw1 := inv.get_hwf hg1
  have sf1 : ∀ sl, h1 = Handle.list sl → Safe top sl := fun sl e => inv.get_safe (by rw [← e]; exact hg1)
  obtain ⟨fa, ok, out⟩ := appendNodeCore_spec grow inv h1 h2 hw1 hw2 sf1
  unfold doAppend
  simp only
  generalize appendNodeCore grow s.arrs h1 h2 = r at fa ok out
  obtain ⟨arrs', res⟩ := r
  simp only at fa ok out ⊢
  cases out with
  | left hn ha =>
    subst ha
    rw [if_pos hn]
    cases j with
    | some j' =>
      simp only
      exact stepOK_mid j' h2 h2 s.arrs fa (inv.repush j' h2 (hj j' rfl) s.arrs fa ok)
    | none =>
      simp only
      exact ⟨⟨top, inv.push_flat h2 hw2 (hnone rfl)⟩, StFrame.of_eq rfl rfl, Ext.push s h2⟩
  | right hn1 hn2 ha =>
    subst ha
    rw [if_neg hn1]
    exact stepOK_mid i h1 h1 s.arrs fa (inv.repush i h1 hg1 s.arrs fa ok)
  | ext sl sl' he w pos sf nn pl =>
    subst he
    rw [if_neg (by simp)]
    exact stepOK_mid i _ _ arrs' fa (inv.push_result i sl hg1 arrs' sl' fa ok w pos sf nn pl)
  | fresh sl' nl hn1 w pos sf nn hf =>
    rw [if_neg hn1]
    exact stepOK_mid i _ _ arrs' fa (inv.push_fresh i h1 arrs' sl' fa ok w pos sf nn hf)

/-- hand out a handle held by the memo table -/
theorem Inv.push_memo {s : St} {top : Nat → Nat} (inv : Inv s top) (kv : Nat × Handle) (hkv : kv ∈ s.memo) :
    ∃ top', Inv (s.push kv.2) top' := by
  obtain ⟨hw, hs⟩ := inv.memo kv hkv
  have hm := inMemo_of_mem hkv
  generalize kv.2 = h at hw hs hm
  cases h with
  | list sl =>
    refine ⟨_, inv.push_list sl hw.1 hw.2.1 ?_ hw.2.2.2 ?_ (inv.buf_ne hw)⟩
    · intro hlt
      have : sl.len = sl.cap := hs
      omega
    · intro hf; rw [hm] at hf; cases hf
  | nil => exact ⟨top, inv.push_flat _ hw (by intro sl; simp)⟩
  | ptr m => exact ⟨top, inv.push_flat _ hw (by intro sl; simp)⟩
  | empty p => exact ⟨top, inv.push_flat _ hw (by intro sl; simp)⟩
  | eof p => exact ⟨top, inv.push_flat _ hw (by intro sl; simp)⟩

theorem cell_getD_ok {s : St} {top : Nat → Nat} (inv : Inv s top) (a k : Nat) :
    HWF s top ((cells s.arrs a).getD k Handle.nil) ∧ ∀ sl, (cells s.arrs a).getD k Handle.nil ≠ Handle.list sl := by
  rw [List.getD_eq_getElem?_getD]
  cases hk : (cells s.arrs a)[k]? with
  | none => exact ⟨trivial, by intro sl; simp⟩
  | some c =>
    have := inv.cellok a c (List.mem_of_getElem? hk)
    simp only [Option.getD_some]
    cases c with
    | ptr m => exact ⟨this, by intro sl; simp⟩
    | list sl => exact absurd this (by simp [CellOK])
    | _ => exact ⟨trivial, by intro sl; simp⟩

end PV.Slice
