/-
  Completeness THROUGH the `Sentence` wrapper (a corollary of C01 completeness, the "if" direction of C04):
  if the operand has a curtailed derivation that ends at the end of the input, then `Sentence(operand)`
  returns a result — whenever it answers at all.

  `Sentence g = SeqOf(g, End)`.  The alternatives of `g` are enumerated in order; the sequence stops at
  the first one after which `End` matches (the emission then reports "last node is EOF").  So it is
  enough that SOME alternative ends at the end of the input — which (A) guarantees.
-/
import ParsleyVerif.Proofs.RunComplete
import ParsleyVerif.Proofs.Sentence
namespace PV
open PV.Text

theorem seqAlts_true (k : Node → SeqSt → St → Option (Bool × SeqSt × St)) :
    ∀ (l : List Node) ss st ss' st', seqAlts k l ss st = some (true, ss', st') →
      ∃ n ∈ l, ∃ ss2 st2, k n ss2 st2 = some (true, ss', st') := by
  intro l
  induction l with
  | nil => intro ss st ss' st' h; simp [seqAlts] at h
  | cons n rest ih =>
    intro ss st ss' st' h
    simp only [seqAlts] at h
    split at h
    · cases h
    · rename_i ss1 st1 hk1
      injection h with h
      injection h with _ h
      injection h with h1 h2
      subst h1 h2
      exact ⟨n, List.mem_cons_self .., ss, st, hk1⟩
    · rename_i ss1 st1 hk1
      obtain ⟨n', hn', ss2, st2, hk2⟩ := ih _ _ _ _ h
      exact ⟨n', List.mem_cons_of_mem _ hn', ss2, st2, hk2⟩

theorem seqAlts_pres (k : Node → SeqSt → St → Option (Bool × SeqSt × St)) (P : SeqSt → Prop) :
    ∀ (l : List Node), (∀ n ∈ l, ∀ ss st b ss' st', k n ss st = some (b, ss', st') → P ss → P ss') →
      ∀ ss st b ss' st', seqAlts k l ss st = some (b, ss', st') → P ss → P ss' := by
  intro l
  induction l with
  | nil => intro _ ss st b ss' st' h hp; simp only [seqAlts] at h; cases h; exact hp
  | cons n rest ih =>
    intro hk ss st b ss' st' h hp
    simp only [seqAlts] at h
    split at h
    · cases h
    · rename_i ss1 st1 hk1
      injection h with h
      injection h with _ h
      injection h with h1 h2
      subst h1 h2
      exact hk n (List.mem_cons_self ..) _ _ _ _ _ hk1 hp
    · rename_i ss1 st1 hk1
      exact ih (fun n' hn' => hk n' (List.mem_cons_of_mem _ hn')) _ _ _ _ _ h
        (hk n (List.mem_cons_self ..) _ _ _ _ _ hk1 hp)

/-- the alternatives loop reaches `y` or stops earlier with "EOF seen"; either way `Q` holds at the end -/
theorem seqAlts_reach (k : Node → SeqSt → St → Option (Bool × SeqSt × St)) (Q : SeqSt → Prop) (y : Node) :
    ∀ (l : List Node), y ∈ l →
      (∀ n ∈ l, ∀ ss st b ss' st', k n ss st = some (b, ss', st') → Q ss → Q ss') →
      (∀ n ∈ l, ∀ ss st ss' st', k n ss st = some (true, ss', st') → Q ss') →
      (∀ ss st b ss' st', k y ss st = some (b, ss', st') → Q ss') →
      ∀ ss st b ss' st', seqAlts k l ss st = some (b, ss', st') → Q ss' := by
  intro l
  induction l with
  | nil => intro hy; cases hy
  | cons n rest ih =>
    intro hy hmono htrue hyk ss st b ss' st' h
    simp only [seqAlts] at h
    split at h
    · cases h
    · rename_i ss1 st1 hk1
      injection h with h
      injection h with _ h
      injection h with h1 h2
      subst h1 h2
      exact htrue n (List.mem_cons_self ..) _ _ _ _ hk1
    · rename_i ss1 st1 hk1
      cases hy with
      | head =>
        exact seqAlts_pres k Q rest (fun n' hn' => hmono n' (List.mem_cons_of_mem _ hn')) _ _ _ _ _ h
          (hyk _ _ _ _ _ hk1)
      | tail _ hm =>
        exact ih hm (fun n' hn' => hmono n' (List.mem_cons_of_mem _ hn'))
          (fun n' hn' => htrue n' (List.mem_cons_of_mem _ hn')) hyk _ _ _ _ _ h

theorem seqEmit_ne (sh : SeqShape) (fr : Frame) (ss : SeqSt) : (seqEmit sh fr ss).result.alts ≠ [] := by
  simp only [seqEmit]; exact appendNode_one_alts_ne _ _

/-- "EOF seen" is only ever reported together with an emission -/
theorem seqParse_true_ne (r : RunFn) (sh : SeqShape) :
    ∀ (fuel : Nat) (fr : Frame) ss st ss' st',
      seqParse r sh fuel fr.depth fr.nodes fr.ctx fr.pos fr.merge ss st = some (true, ss', st') →
      ss'.result.alts ≠ [] := by
  intro fuel
  induction fuel with
  | zero => intro fr ss st ss' st' h; simp [seqParse] at h
  | succ fuel ih =>
    intro fr ss st ss' st' h
    rw [seqParse_succ] at h
    generalize seqStep r sh fr st = step at h
    cases step with
    | none => simp at h
    | some p =>
      obtain ⟨o, st1⟩ := p
      simp only at h
      by_cases hnil : o.res.isNil = true
      · simp only [hnil, ↓reduceIte] at h
        by_cases hlc : sh.lenCheck fr.depth = true
        · simp only [hlc, ↓reduceIte] at h
          injection h with h
          injection h with _ h
          injection h with h1 _
          subst h1
          exact seqEmit_ne _ _ _
        · simp only [hlc] at h
          injection h with h
          injection h with h _
          cases h
      · have hnil' : o.res.isNil = false := by simpa using hnil
        simp only [hnil', Bool.false_eq_true, ↓reduceIte] at h
        obtain ⟨n, _, ss2, st2, hk⟩ := seqAlts_true _ _ _ _ _ _ h
        exact ih (fr.next n) ss2 st2 ss' st' hk

theorem run_eof (cfg : Cfg) (fuel : Nat) (ctx : Ctx) (pos : Nat) (st : St) (o : Out) (st' : St)
    (h : run cfg fuel .eof ctx pos st = some (o, st')) (he : isEOF cfg.file pos = true) :
    o.res = .one (.eof pos) := by
  cases fuel with
  | zero => simp [run] at h
  | succ f =>
    unfold run at h
    split at h
    · cases h
    · simp only at h
      cases h; rfl

/-- once the operand's alternative ends at the end of the input, `End` matches and the tree is emitted -/
theorem seqParse_eof_ne (cfg : Cfg) (f : Nat) (sh : SeqShape) :
    ∀ (fuel : Nat) (fr : Frame) ss st b ss' st',
      sh.lookup fr.depth = some .eof → sh.lookup (fr.depth + 1) = none → sh.lenCheck (fr.depth + 1) = true →
      isEOF cfg.file fr.pos = true →
      seqParse (run cfg f) sh fuel fr.depth fr.nodes fr.ctx fr.pos fr.merge ss st = some (b, ss', st') →
      ss'.result.alts ≠ [] := by
  intro fuel fr ss st b ss' st' hl0 hl1 hlc he h
  cases fuel with
  | zero => simp [seqParse] at h
  | succ f1 =>
    rw [seqParse_succ] at h
    simp only [seqStep, hl0] at h
    cases hr : run cfg f .eof fr.ctx fr.pos st.regCall with
    | none => simp [hr] at h
    | some p =>
      obtain ⟨o, st1⟩ := p
      have hres := run_eof cfg f fr.ctx fr.pos st.regCall o st1 hr he
      simp only [hr, hres, Res.isNil, Bool.false_eq_true, ↓reduceIte, Res.alts] at h
      -- the single alternative: the EOF node
      simp only [seqAlts] at h
      have key : ∀ ss2 st2 b2 ss3 st3,
          seqParse (run cfg f) sh f1 (fr.next (.eof fr.pos)).depth (fr.next (.eof fr.pos)).nodes
            (fr.next (.eof fr.pos)).ctx (fr.next (.eof fr.pos)).pos (fr.next (.eof fr.pos)).merge ss2 st2 = some (b2, ss3, st3) →
          ss3.result.alts ≠ [] := by
        intro ss2 st2 b2 ss3 st3 hk
        cases f1 with
        | zero => simp [seqParse] at hk
        | succ f2 =>
          rw [seqParse_succ] at hk
          have hd : (fr.next (.eof fr.pos)).depth = fr.depth + 1 := rfl
          simp only [seqStep, hd, hl1, Res.isNil, ↓reduceIte, hlc] at hk
          injection hk with hk
          injection hk with _ hk
          injection hk with h1 _
          subst h1
          exact seqEmit_ne _ _ _
      split at h
      · cases h
      · rename_i ss1 st1' hk1
        injection h with h
        injection h with _ h
        injection h with h1 _
        subst h1
        exact key _ _ _ _ _ hk1
      · rename_i ss1 st1' hk1
        injection h with h
        injection h with _ h
        injection h with h1 _
        subst h1
        exact key _ _ _ _ _ hk1

/-- **Sentence completeness** (partial correctness): if the operand has a curtailed derivation from the
    empty context that ends at the end of the input, `Sentence(operand)` returns a result. -/
theorem sentence_complete (cfg : Cfg) (bodyOf : Nat → G) (henv : ∀ g' ∈ cfg.env, Frag cfg g' ∧ GOK bodyOf g')
    (g : G) (hf : Frag cfg g) (hg : GOK bodyOf g) (fuel : Nat) (pos : Nat) (st : St) (hst : CacheC cfg bodyOf st)
    (o : Out) (st' : St) (h : run cfg fuel (G.sentence g) [] pos st = some (o, st'))
    (y : Node) (hy : DerivesC cfg zeroC g pos y) (hend : isEOF cfg.file y.rpos = true) :
    o.res.alts ≠ [] ∧ o.err = none := by
  cases fuel with
  | zero => simp [run] at h
  | succ f =>
    rw [run_seqfam cfg f _ (sentenceShape g) [] pos st (sentence_shape g)] at h
    split at h
    · cases h
    · unfold runSeq at h
      split at h
      · cases h
      · rename_i b ss st1 hsp
        have hfin : seqFinish (sentenceShape g) pos ss st1 = (o, st') := by injection h
        -- the result of the loop is not empty
        have hne : ss.result.alts ≠ [] := by
          cases f with
          | zero => simp [seqParse] at hsp
          | succ f1 =>
            have hsp' := hsp
            rw [show seqParse (run cfg (f1 + 1)) (sentenceShape g) (f1 + 1) 0 [] [] pos true {} st =
              seqParse (run cfg (f1 + 1)) (sentenceShape g) (f1 + 1) (Frame.mk 0 [] [] pos true).depth
                (Frame.mk 0 [] [] pos true).nodes (Frame.mk 0 [] [] pos true).ctx (Frame.mk 0 [] [] pos true).pos
                (Frame.mk 0 [] [] pos true).merge {} st from rfl, seqParse_succ] at hsp'
            have hl0 : (sentenceShape g).lookup (Frame.mk 0 [] [] pos true).depth = some g := rfl
            simp only [seqStep, hl0] at hsp'
            cases hr : run cfg (f1 + 1) g [] pos st.regCall with
            | none => simp [hr] at hsp'
            | some p =>
              obtain ⟨o1, st2⟩ := p
              obtain ⟨hO, _, _⟩ := run_complete cfg bodyOf henv (f1 + 1) g [] pos st.regCall o1 st2 hf hg
                (CacheC_of_eq hst rfl) hr
              have hym : y ∈ o1.res.alts := hO zeroC y (by intro k _; exact Nat.zero_le _) hy
              have hnn : o1.res.isNil = false := by
                cases hres : o1.res with
                | nil => rw [hres] at hym; cases hym
                | one _ => rfl
                | list _ => rfl
              simp only [hr, hnn, Bool.false_eq_true, ↓reduceIte] at hsp'
              refine seqAlts_reach _ (fun s => s.result.alts ≠ []) y o1.res.alts hym ?_ ?_ ?_ _ _ _ _ _ hsp'
              · intro n _ ss2 st2 b2 ss3 st3 hk hq
                cases seqParse_result _ _ f1 ((Frame.mk 0 [] [] pos true).next n) ss2 st2 b2 ss3 st3 rfl hk with
                | inl h1 => rw [h1]; exact hq
                | inr h1 => exact h1
              · intro n _ ss2 st2 ss3 st3 hk
                exact seqParse_true_ne _ _ f1 _ ss2 st2 ss3 st3 hk
              · intro ss2 st2 b2 ss3 st3 hk
                exact seqParse_eof_ne cfg (f1 + 1) (sentenceShape g) f1 ((Frame.mk 0 [] [] pos true).next y) ss2 st2 b2 ss3 st3
                  rfl rfl rfl hend hk
        have hnil : ss.result.isNil = false := by
          cases hres : ss.result with
          | nil => rw [hres] at hne; exact absurd rfl hne
          | one _ => rfl
          | list _ => rfl
        have e1 : (seqFinish (sentenceShape g) pos ss st1).1.res = ss.result := by simp [seqFinish, hnil]
        have e2 : (seqFinish (sentenceShape g) pos ss st1).1.err = none := by
          simp only [seqFinish, hnil, Bool.false_eq_true, ↓reduceIte]
        rw [hfin] at e1 e2
        exact ⟨by rw [e1]; exact hne, e2⟩

end PV
