/-
  The data package at VALUE level, as the core translation uses it (Generated/CorePrelude.lean `CorePrelude.Data.*`):
  * these are the specification functions of Spec/SetSpec.lean (`sMerge`, `sOfList`, `mInc`, `mFilter`, `mget`) — which
    Props/C15P.lean proves of the TRANSLATED slice/map-level functions of data/;
  * on related contexts (`CtxRel`) they compute what the model's `Ctx.get` / `Ctx.inc` / `Ctx.filter` / `cpUnion` compute.
-/
import ParsleyVerif.Proofs.CoreTieBasics
import ParsleyVerif.Proofs.DataMap
import ParsleyVerif.Spec.SetSpec
namespace PV.CoreTie
open PV.FactsCore

/-! ### the prelude's value-level functions are the specification functions of C15 -/

theorem mget_spec (m : IntMap) (k : Int) : CorePrelude.Data.mget m k = PV.Data.mget m k := rfl

theorem mset_spec : ∀ (m : IntMap) (k v : Int), CorePrelude.Data.mset m k v = PV.Data.mset m k v
  | [], _, _ => rfl
  | (k', v') :: r, k, v => by
    simp only [CorePrelude.Data.mset, PV.Data.mset, mset_spec r k v]

theorem union_spec : ∀ (a b : IntSet), CorePrelude.Data.IntSet_Union a b = PV.Data.sMerge a b
  | [], b => by simp [CorePrelude.Data.IntSet_Union, PV.Data.sMerge]
  | x :: xs, [] => by simp [CorePrelude.Data.IntSet_Union, PV.Data.sMerge]
  | x :: xs, y :: ys => by
    simp only [CorePrelude.Data.IntSet_Union, PV.Data.sMerge, union_spec xs (y :: ys), union_spec (x :: xs) ys,
      union_spec xs ys]

theorem sInsert_spec : ∀ (a : IntSet) (v : Int), CorePrelude.Data.sInsert a v = PV.Data.sInsert a v
  | [], _ => rfl
  | x :: xs, v => by simp only [CorePrelude.Data.sInsert, PV.Data.sInsert, sInsert_spec xs v]

theorem newIntSet_spec (vs : List Int) : CorePrelude.Data.NewIntSet vs = PV.Data.sOfList vs := by
  have : CorePrelude.Data.sInsert = PV.Data.sInsert := by funext a v; exact sInsert_spec a v
  simp [CorePrelude.Data.NewIntSet, PV.Data.sOfList, this]

theorem inc_spec' (m : IntMap) (k : Int) : CorePrelude.Data.IntMap_Inc m k = PV.Data.mInc m k := by
  unfold CorePrelude.Data.IntMap_Inc PV.Data.mInc
  rw [mget_spec]
  cases PV.Data.mget m k <;> simp [mset_spec]

theorem filter_spec' (m : IntMap) (keys : IntSet) : CorePrelude.Data.IntMap_Filter m keys = PV.Data.mFilter m keys := by
  unfold CorePrelude.Data.IntMap_Filter PV.Data.mFilter
  generalize ([] : IntMap) = acc
  induction keys generalizing acc with
  | nil => rfl
  | cons key rest ih =>
    simp only [List.foldl_cons]
    cases h : CorePrelude.Data.mget m key with
    | none => simp only [PV.Data.mFilterStep, ← mget_spec, h]; exact ih _
    | some v => simp only [PV.Data.mFilterStep, ← mget_spec, h, ← mset_spec]; exact ih _

theorem get_spec (m : IntMap) (k : Int) : CorePrelude.Data.IntMap_Get m k = (PV.Data.mget m k).getD 0 := rfl

/-! ### curtailing sets -/

theorem eSet_union : ∀ (a b : List Nat), eSet (cpUnion a b) = CorePrelude.Data.IntSet_Union (eSet a) (eSet b)
  | [], b => by simp [cpUnion, eSet, CorePrelude.Data.IntSet_Union]
  | x :: xs, [] => by simp [cpUnion, eSet, CorePrelude.Data.IntSet_Union]
  | x :: xs, y :: ys => by
    have h1 := eSet_union xs (y :: ys)
    have h2 := eSet_union (x :: xs) ys
    have h3 := eSet_union xs ys
    simp only [eSet, List.map_cons] at h1 h2 h3 ⊢
    rw [cpUnion]
    simp only [CorePrelude.Data.IntSet_Union]
    by_cases c1 : x < y
    · have : (x : Int) < y := by omega
      simp [c1, this, h1]
    · by_cases c2 : y < x
      · have n1 : ¬ (x : Int) < y := by omega
        have n2 : (y : Int) < x := by omega
        simp [c1, c2, n1, n2, h2]
      · have n1 : ¬ (x : Int) < y := by omega
        have n2 : ¬ (y : Int) < x := by omega
        simp [c1, c2, n1, n2, h3]

theorem eSet_single (k : Nat) : CorePrelude.Data.NewIntSet [(k : Int)] = eSet [k] := rfl

/-! ### association lists in ascending key order -/

abbrev MSorted (m : IntMap) : Prop := (m.map (·.1)).Pairwise (· < ·)

theorem mem_mset (m : IntMap) (hs : MSorted m) (k v x y : Int) :
    (x, y) ∈ CorePrelude.Data.mset m k v ↔ (x = k ∧ y = v) ∨ (x ≠ k ∧ (x, y) ∈ m) := by
  induction m with
  | nil => simp [CorePrelude.Data.mset]
  | cons p r ih =>
    obtain ⟨k', v'⟩ := p
    have hs' : MSorted r := (List.pairwise_cons.mp hs).2
    have hlt : ∀ a b, (a, b) ∈ r → k' < a := fun a b hab =>
      (List.pairwise_cons.mp hs).1 a (List.mem_map.mpr ⟨(a, b), hab, rfl⟩)
    simp only [CorePrelude.Data.mset]
    split
    · rename_i hk
      simp only [List.mem_cons, Prod.mk.injEq]
      constructor
      · rintro (⟨rfl, rfl⟩ | ⟨rfl, rfl⟩ | h)
        · exact .inl ⟨rfl, rfl⟩
        · exact .inr ⟨by omega, .inl ⟨rfl, rfl⟩⟩
        · exact .inr ⟨by have := hlt x y h; omega, .inr h⟩
      · rintro (⟨rfl, rfl⟩ | ⟨_, h⟩)
        · exact .inl ⟨rfl, rfl⟩
        · exact .inr h
    · split
      · rename_i hk hk2
        subst hk2
        simp only [List.mem_cons, Prod.mk.injEq]
        constructor
        · rintro (⟨rfl, rfl⟩ | h)
          · exact .inl ⟨rfl, rfl⟩
          · exact .inr ⟨by have := hlt x y h; omega, .inr h⟩
        · rintro (⟨rfl, rfl⟩ | ⟨hne, h⟩)
          · exact .inl ⟨rfl, rfl⟩
          · rcases h with ⟨rfl, rfl⟩ | h
            · exact absurd rfl hne
            · exact .inr h
      · rename_i hk hk2
        simp only [List.mem_cons, Prod.mk.injEq, ih hs']
        constructor
        · rintro (⟨rfl, rfl⟩ | ⟨rfl, rfl⟩ | ⟨hne, h⟩)
          · exact .inr ⟨hk2 ∘ Eq.symm, .inl ⟨rfl, rfl⟩⟩
          · exact .inl ⟨rfl, rfl⟩
          · exact .inr ⟨hne, .inr h⟩
        · rintro (⟨rfl, rfl⟩ | ⟨hne, ⟨rfl, rfl⟩ | h⟩)
          · exact .inr (.inl ⟨rfl, rfl⟩)
          · exact .inl ⟨rfl, rfl⟩
          · exact .inr (.inr ⟨hne, h⟩)

theorem mset_sorted' (m : IntMap) (k v : Int) (hs : MSorted m) : MSorted (CorePrelude.Data.mset m k v) := by
  rw [mset_spec]; exact PV.Data.mset_sorted m k v hs

theorem mget_some_iff (m : IntMap) (hs : MSorted m) (k v : Int) : CorePrelude.Data.mget m k = some v ↔ (k, v) ∈ m := by
  induction m with
  | nil => simp [CorePrelude.Data.mget]
  | cons p r ih =>
    obtain ⟨k', v'⟩ := p
    have hs' : MSorted r := (List.pairwise_cons.mp hs).2
    have hlt : ∀ a b, (a, b) ∈ r → k' < a := fun a b hab =>
      (List.pairwise_cons.mp hs).1 a (List.mem_map.mpr ⟨(a, b), hab, rfl⟩)
    by_cases hk : k' = k
    · subst hk
      simp only [CorePrelude.Data.mget, List.find?_cons, decide_true, Option.map_some, Option.some.injEq, List.mem_cons,
        Prod.mk.injEq, true_and]
      constructor
      · intro h; exact .inl h.symm
      · rintro (h | h)
        · exact h.symm
        · have := hlt _ _ h; omega
    · have : CorePrelude.Data.mget ((k', v') :: r) k = CorePrelude.Data.mget r k := by
        simp [CorePrelude.Data.mget, List.find?_cons, hk]
      rw [this, ih hs']
      simp only [List.mem_cons, Prod.mk.injEq]
      constructor
      · exact .inr
      · rintro (⟨h, _⟩ | h)
        · exact absurd h.symm hk
        · exact h

theorem mget_none_iff (m : IntMap) (hs : MSorted m) (k : Int) : CorePrelude.Data.mget m k = none ↔ ∀ v, (k, v) ∉ m := by
  constructor
  · intro h v hv
    rw [← mget_some_iff m hs] at hv
    rw [h] at hv; cases hv
  · intro h
    cases hg : CorePrelude.Data.mget m k with
    | none => rfl
    | some v => exact absurd ((mget_some_iff m hs k v).mp hg) (h v)

/-! ### related contexts -/

theorem CtxRel.nil : CtxRel CorePrelude.Data.EmptyIntMap [] :=
  ⟨by simp [CorePrelude.Data.EmptyIntMap], by simp [CorePrelude.Data.EmptyIntMap], by simp, by simp⟩

theorem ctx_get_some (c : Ctx) (k v : Nat) (hf : ∀ k v v', (k, v) ∈ c → (k, v') ∈ c → v = v') (h : (k, v) ∈ c) :
    c.get k = v := by
  unfold Ctx.get
  cases hfind : c.find? (·.1 == k) with
  | none =>
    have := List.find?_eq_none.mp hfind (k, v) h
    simp at this
  | some p =>
    have h1 := List.find?_some hfind
    have h2 := List.mem_of_find?_eq_some hfind
    obtain ⟨a, b⟩ := p
    simp only [beq_iff_eq] at h1
    subst h1
    simp [hf a b v h2 h]

theorem ctx_get_none (c : Ctx) (k : Nat) (h : ∀ v, (k, v) ∉ c) : c.get k = 0 := by
  unfold Ctx.get
  cases hfind : c.find? (·.1 == k) with
  | none => rfl
  | some p =>
    have h1 := List.find?_some hfind
    have h2 := List.mem_of_find?_eq_some hfind
    obtain ⟨a, b⟩ := p
    simp only [beq_iff_eq] at h1
    subst h1
    exact absurd h2 (h b)

theorem CtxRel.mget {m : IntMap} {c : Ctx} (r : CtxRel m c) (k : Nat) :
    (∃ v : Nat, CorePrelude.Data.mget m k = some (v : Int) ∧ (k, v) ∈ c ∧ c.get k = v) ∨
    (CorePrelude.Data.mget m k = none ∧ (∀ v, (k, v) ∉ c) ∧ c.get k = 0) := by
  cases hg : CorePrelude.Data.mget m (k : Int) with
  | some v =>
    have hm := (mget_some_iff m r.sorted _ _).mp hg
    obtain ⟨kn, vn, e1, e2, hc⟩ := r.fwd _ _ hm
    have : kn = k := by omega
    subst this
    subst e2
    exact .inl ⟨vn, rfl, hc, ctx_get_some c _ _ r.func hc⟩
  | none =>
    have hn := (mget_none_iff m r.sorted _).mp hg
    have : ∀ v, (k, v) ∉ c := fun v hv => hn _ (r.bwd _ _ hv)
    exact .inr ⟨rfl, this, ctx_get_none c k this⟩

/-- **IntMap.Get** on related contexts -/
theorem CtxRel.get {m : IntMap} {c : Ctx} (r : CtxRel m c) (k : Nat) : CorePrelude.Data.IntMap_Get m k = (c.get k : Nat) := by
  rcases r.mget k with ⟨v, h1, _, h3⟩ | ⟨h1, _, h3⟩
  · simp [CorePrelude.Data.IntMap_Get, h1, h3]
  · simp [CorePrelude.Data.IntMap_Get, h1, h3]

theorem ctx_any_iff (c : Ctx) (k : Nat) : c.any (·.1 == k) = true ↔ ∃ v, (k, v) ∈ c := by
  simp only [List.any_eq_true, beq_iff_eq]
  constructor
  · rintro ⟨⟨a, b⟩, h, rfl⟩; exact ⟨b, h⟩
  · rintro ⟨v, h⟩; exact ⟨(k, v), h, rfl⟩

/-- **IntMap.Inc** on related contexts -/
theorem CtxRel.inc {m : IntMap} {c : Ctx} (r : CtxRel m c) (k : Nat) : CtxRel (CorePrelude.Data.IntMap_Inc m k) (c.inc k) := by
  rcases r.mget k with ⟨v, h1, h2, _⟩ | ⟨h1, h2, _⟩
  · -- present
    have hany : c.any (·.1 == k) = true := (ctx_any_iff c k).mpr ⟨v, h2⟩
    have hmem : ∀ a b, (a, b) ∈ c.inc k ↔ (a = k ∧ b = v + 1) ∨ (a ≠ k ∧ (a, b) ∈ c) := by
      intro a b
      simp only [Ctx.inc, hany, if_true, List.mem_map]
      constructor
      · rintro ⟨⟨a', b'⟩, hin, he⟩
        by_cases hk : a' = k
        · subst hk
          simp only [beq_self_eq_true, if_true, Prod.mk.injEq] at he
          have := r.func _ _ _ hin h2
          exact .inl ⟨he.1.symm, by omega⟩
        · have : (a' == k) = false := by simpa using hk
          simp only [this, Bool.false_eq_true, if_false, Prod.mk.injEq] at he
          obtain ⟨rfl, rfl⟩ := he
          exact .inr ⟨hk, hin⟩
      · rintro (⟨rfl, rfl⟩ | ⟨hne, hin⟩)
        · exact ⟨(a, v), h2, by simp⟩
        · exact ⟨(a, b), hin, by simp [hne]⟩
    simp only [CorePrelude.Data.IntMap_Inc, h1]
    refine ⟨mset_sorted' _ _ _ r.sorted, ?_, ?_, ?_⟩
    · intro x y hxy
      rcases (mem_mset m r.sorted _ _ x y).mp hxy with ⟨rfl, rfl⟩ | ⟨hne, hin⟩
      · exact ⟨k, v + 1, rfl, by simp, (hmem _ _).mpr (.inl ⟨rfl, rfl⟩)⟩
      · obtain ⟨kn, vn, rfl, rfl, hc⟩ := r.fwd _ _ hin
        exact ⟨kn, vn, rfl, rfl, (hmem _ _).mpr (.inr ⟨by omega, hc⟩)⟩
    · intro kn vn hc
      rcases (hmem _ _).mp hc with ⟨rfl, rfl⟩ | ⟨hne, hin⟩
      · exact (mem_mset m r.sorted _ _ _ _).mpr (.inl ⟨rfl, by simp⟩)
      · exact (mem_mset m r.sorted _ _ _ _).mpr (.inr ⟨by omega, r.bwd _ _ hin⟩)
    · intro a b b' h1' h2'
      rcases (hmem _ _).mp h1' with ⟨rfl, rfl⟩ | ⟨hne, hin⟩ <;> rcases (hmem _ _).mp h2' with ⟨e, rfl⟩ | ⟨hne', hin'⟩
      · rfl
      · exact absurd rfl hne'
      · exact absurd e hne
      · exact r.func _ _ _ hin hin'
  · -- absent
    have hany : c.any (·.1 == k) = false := by
      cases h : c.any (·.1 == k) with
      | false => rfl
      | true => obtain ⟨v, hv⟩ := (ctx_any_iff c k).mp h; exact absurd hv (h2 v)
    have hmem : ∀ a b, (a, b) ∈ c.inc k ↔ (a = k ∧ b = 1) ∨ (a ≠ k ∧ (a, b) ∈ c) := by
      intro a b
      simp only [Ctx.inc, hany, Bool.false_eq_true, if_false, List.mem_append, List.mem_singleton, Prod.mk.injEq]
      constructor
      · rintro (h | h)
        · exact .inr ⟨fun e => h2 b (e ▸ h), h⟩
        · exact .inl h
      · rintro (h | ⟨_, h⟩)
        · exact .inr h
        · exact .inl h
    simp only [CorePrelude.Data.IntMap_Inc, h1]
    refine ⟨mset_sorted' _ _ _ r.sorted, ?_, ?_, ?_⟩
    · intro x y hxy
      rcases (mem_mset m r.sorted _ _ x y).mp hxy with ⟨rfl, rfl⟩ | ⟨hne, hin⟩
      · exact ⟨k, 1, rfl, rfl, (hmem _ _).mpr (.inl ⟨rfl, rfl⟩)⟩
      · obtain ⟨kn, vn, rfl, rfl, hc⟩ := r.fwd _ _ hin
        exact ⟨kn, vn, rfl, rfl, (hmem _ _).mpr (.inr ⟨by omega, hc⟩)⟩
    · intro kn vn hc
      rcases (hmem _ _).mp hc with ⟨rfl, rfl⟩ | ⟨hne, hin⟩
      · exact (mem_mset m r.sorted _ _ _ _).mpr (.inl ⟨rfl, rfl⟩)
      · exact (mem_mset m r.sorted _ _ _ _).mpr (.inr ⟨by omega, r.bwd _ _ hin⟩)
    · intro a b b' h1' h2'
      rcases (hmem _ _).mp h1' with ⟨rfl, rfl⟩ | ⟨hne, hin⟩ <;> rcases (hmem _ _).mp h2' with ⟨e, rfl⟩ | ⟨hne', hin'⟩
      · rfl
      · exact absurd rfl hne'
      · exact absurd e hne
      · exact r.func _ _ _ hin hin'

theorem filter_fold_mem (m : IntMap) (hs : MSorted m) (keys : List Int) :
    ∀ (acc : IntMap) (done : List Int), MSorted acc → (∀ x y, (x, y) ∈ acc ↔ x ∈ done ∧ (x, y) ∈ m) →
      MSorted (keys.foldl (fun acc key => match CorePrelude.Data.mget m key with | some v => CorePrelude.Data.mset acc key v | none => acc) acc) ∧
      ∀ x y, (x, y) ∈ keys.foldl (fun acc key => match CorePrelude.Data.mget m key with | some v => CorePrelude.Data.mset acc key v | none => acc) acc ↔
        (x ∈ done ∨ x ∈ keys) ∧ (x, y) ∈ m := by
  induction keys with
  | nil => intro acc done h1 h2; exact ⟨h1, by simpa using h2⟩
  | cons key rest ih =>
    intro acc done h1 h2
    simp only [List.foldl_cons]
    cases hg : CorePrelude.Data.mget m key with
    | none =>
      have hn := (mget_none_iff m hs key).mp hg
      obtain ⟨i1, i2⟩ := ih acc (key :: done) h1 (by
        intro x y; rw [h2]; simp only [List.mem_cons]
        constructor
        · rintro ⟨a, b⟩; exact ⟨.inr a, b⟩
        · rintro ⟨rfl | a, b⟩
          · exact absurd b (hn y)
          · exact ⟨a, b⟩)
      refine ⟨i1, fun x y => ?_⟩
      rw [i2]; simp only [List.mem_cons]; grind
    | some v =>
      have hv := (mget_some_iff m hs key v).mp hg
      obtain ⟨i1, i2⟩ := ih (CorePrelude.Data.mset acc key v) (key :: done) (mset_sorted' _ _ _ h1) (by
        intro x y
        rw [mem_mset acc h1, h2]; simp only [List.mem_cons]
        constructor
        · rintro (⟨rfl, rfl⟩ | ⟨hne, a, b⟩)
          · exact ⟨.inl rfl, hv⟩
          · exact ⟨.inr a, b⟩
        · rintro ⟨rfl | a, b⟩
          · have : y = v := by
              have := (mget_some_iff m hs x y).mpr b
              rw [hg] at this; exact (Option.some.inj this).symm
            exact .inl ⟨rfl, this⟩
          · by_cases hx : x = key
            · subst hx
              have : y = v := by
                have := (mget_some_iff m hs x y).mpr b
                rw [hg] at this; exact (Option.some.inj this).symm
              exact .inl ⟨rfl, this⟩
            · exact .inr ⟨hx, a, b⟩)
      refine ⟨i1, fun x y => ?_⟩
      rw [i2]; simp only [List.mem_cons]; grind

/-- **IntMap.Filter** on related contexts -/
theorem CtxRel.filter {m : IntMap} {c : Ctx} (r : CtxRel m c) (cp : List Nat) :
    CtxRel (CorePrelude.Data.IntMap_Filter m (eSet cp)) (c.filter cp) := by
  obtain ⟨f1, f2⟩ := filter_fold_mem m r.sorted (eSet cp) [] [] List.Pairwise.nil (by simp)
  have hc : ∀ a b, (a, b) ∈ c.filter cp ↔ a ∈ cp ∧ (a, b) ∈ c := by
    intro a b
    simp only [Ctx.filter, List.mem_filter, List.contains_iff_mem]
    exact And.comm
  refine ⟨f1, ?_, ?_, ?_⟩
  · intro x y hxy
    obtain ⟨h1, h2⟩ := (f2 x y).mp hxy
    obtain ⟨kn, vn, rfl, rfl, hcm⟩ := r.fwd _ _ h2
    refine ⟨kn, vn, rfl, rfl, (hc _ _).mpr ⟨?_, hcm⟩⟩
    simp only [List.not_mem_nil, false_or, eSet, List.mem_map] at h1
    obtain ⟨z, hz, e⟩ := h1
    have : z = kn := by have : (z : Int) = kn := e; omega
    exact this ▸ hz
  · intro kn vn h
    obtain ⟨h1, h2⟩ := (hc _ _).mp h
    exact (f2 _ _).mpr ⟨.inr (List.mem_map.mpr ⟨kn, h1, rfl⟩), r.bwd _ _ h2⟩
  · intro a b b' h1 h2
    exact r.func _ _ _ ((hc _ _).mp h1).2 ((hc _ _).mp h2).2

/-- the test of ResultCache.Get, over the keys of the stored context -/
theorem CtxRel.keysAll {m m' : IntMap} {c c' : Ctx} (r : CtxRel m c) (r' : CtxRel m' c') :
    (CorePrelude.Data.IntMap_Keys m).all (fun key => !decide (CorePrelude.Data.IntMap_Get m key > CorePrelude.Data.IntMap_Get m' key)) =
      c.all (fun kv => !(kv.2 > c'.get kv.1)) := by
  rw [Bool.eq_iff_iff]
  simp only [List.all_eq_true, CorePrelude.Data.IntMap_Keys, List.mem_map, Bool.not_eq_true', decide_eq_false_iff_not,
    forall_exists_index, and_imp]
  constructor
  · intro h kv hkv
    obtain ⟨a, b⟩ := kv
    have hm := r.bwd _ _ hkv
    have := h a (a, b) hm rfl
    rw [r.get, r'.get] at this
    have e : c.get a = b := ctx_get_some c a b r.func hkv
    simp only [gt_iff_lt, decide_eq_false_iff_not]
    simp only [e] at this
    omega
  · intro h key kv hkv e
    obtain ⟨x, y⟩ := kv
    simp only at e; subst e
    obtain ⟨kn, vn, rfl, rfl, hc⟩ := r.fwd _ _ hkv
    have := h (kn, vn) hc
    simp only [gt_iff_lt, decide_eq_false_iff_not] at this
    rw [r.get, r'.get, ctx_get_some c kn vn r.func hc]
    omega

end PV.CoreTie
