/-
  C08: `floatMatch` computes the longest prefix in the documented float syntax (Spec/Lang.lean `isFloat`).
-/
import ParsleyVerif.Proofs.Lang
namespace PV
open PV.Text PV.Lang

theorem digit_iff (c : Nat) : digit c = true ↔ 48 ≤ c ∧ c ≤ 57 := by
  unfold digit; simp

/-! ### exponent -/
theorem plus1_digit_nil : plus1 digit [] = false := rfl
theorem plus1_digit_sign (c : Nat) (w : Bytes) (h : sign c = true) : plus1 digit (c :: w) = false := by
  rw [sign_iff] at h
  rcases h with rfl | rfl <;> simp [plus1, digit]

/-- `[eE][-+]?[0-9]+`, greedy -/
theorem longestPrefix_isExponent (t : Bytes) : (longestPrefix isExponent t).getD 0 = exponentLen t := by
  cases t with
  | nil => rw [longestPrefix_nil]; rfl
  | cons e r =>
    rw [longestPrefix_cons_of isExponent (optSign (plus1 digit)) e r (e = 101 || e = 69) rfl (fun _ => rfl),
      longestPrefix_optSign _ plus1_digit_nil plus1_digit_sign, longestPrefix_plus1]
    show _ = if (e = 101 || e = 69) = true then
      (if spanLen digit (r.drop (signLen r)) > 0 then 1 + signLen r + spanLen digit (r.drop (signLen r)) else 0) else 0
    by_cases he : (e = 101 || e = 69) = true
    · rw [if_pos he, if_pos he]
      by_cases hd : spanLen digit (r.drop (signLen r)) > 0
      · rw [if_pos hd, if_pos hd]; simp [Nat.add_assoc]
      · rw [if_neg hd, if_neg hd]; rfl
    · rw [if_neg he, if_neg he]; rfl

theorem opt_isExponent_digit (c : Nat) (w : Bytes) (h : digit c = true) : opt isExponent (c :: w) = false := by
  rw [digit_iff] at h
  have h1 : c ≠ 101 := by omega
  have h2 : c ≠ 69 := by omega
  simp [opt, isExponent, h1, h2]

/-! ### fraction -/
theorem isFraction_cons (c : Nat) (w : Bytes) :
    isFraction (c :: w) = (decide (c = 46) && cat (plus1 digit) (opt isExponent) w) := by
  by_cases hc : c = 46
  · subst hc; simp [isFraction]
  · simp [isFraction, hc]

theorem isFraction_digit (c : Nat) (w : Bytes) (h : digit c = true) : isFraction (c :: w) = false := by
  rw [digit_iff] at h
  have h1 : c ≠ 46 := by omega
  simp [isFraction_cons, h1]

/-- `\.[0-9]+(?:[eE][-+]?[0-9]+)?`, greedy -/
theorem longestPrefix_isFraction (t : Bytes) :
    longestPrefix isFraction t =
      match t with
      | c :: r =>
        if c = 46 ∧ spanLen digit r > 0 then some (1 + spanLen digit r + exponentLen (r.drop (spanLen digit r))) else none
      | [] => none := by
  cases t with
  | nil => rw [longestPrefix_nil]; rfl
  | cons c r =>
    rw [longestPrefix_cons_of isFraction _ c r _ rfl (isFraction_cons c),
      longestPrefix_cat_plus1 digit _ opt_isExponent_digit, longestPrefix_opt, longestPrefix_isExponent]
    simp only []
    by_cases hc : c = 46
    · by_cases hm : spanLen digit r > 0
      · simp [hc, hm, Nat.add_assoc]
      · simp [hm]
    · simp [hc]

/-! ### float -/
theorem isFloatBody_nil : isFloatBody [] = false := rfl
theorem isFloatBody_sign (c : Nat) (w : Bytes) (h : sign c = true) : isFloatBody (c :: w) = false := by
  unfold isFloatBody
  rw [cat_star_cons, isFraction_cons]
  rw [sign_iff] at h
  rcases h with rfl | rfl <;> simp [digit]

theorem floatMatch_eq_longest (l : Bytes) : floatMatch l = longestPrefix isFloat l := by
  unfold isFloat
  rw [longestPrefix_optSign isFloatBody isFloatBody_nil isFloatBody_sign]
  unfold isFloatBody
  rw [longestPrefix_cat_star digit isFraction isFraction_digit, longestPrefix_isFraction]
  show (match l.drop (signLen l + spanLen digit (l.drop (signLen l))) with
    | 46 :: r => if spanLen digit r > 0 then
        some (signLen l + spanLen digit (l.drop (signLen l)) + 1 + spanLen digit r + exponentLen (r.drop (spanLen digit r)))
      else none
    | _ => none) = _
  rw [← List.drop_drop]
  generalize signLen l = s
  generalize l.drop s = b
  generalize spanLen digit b = n
  match b.drop n with
  | [] => rfl
  | c :: r =>
    simp only []
    by_cases hc : c = 46
    · subst hc
      simp only []
      by_cases hm : spanLen digit r > 0
      · simp [hm, Nat.add_assoc]
      · simp [hm]
    · simp [hc]

theorem floatMatch_sound (l : Bytes) (k : Nat) (h : floatMatch l = some k) : isFloat (l.take k) = true :=
  longestPrefix_mem (floatMatch_eq_longest l ▸ h)
theorem floatMatch_maximal (l : Bytes) (k : Nat) (h : floatMatch l = some k) :
    ∀ j, k < j → j ≤ l.length → isFloat (l.take j) = false :=
  longestPrefix_max (floatMatch_eq_longest l ▸ h)
theorem floatMatch_none (l : Bytes) (h : floatMatch l = none) : ∀ j, j ≤ l.length → isFloat (l.take j) = false :=
  longestPrefix_none.1 (floatMatch_eq_longest l ▸ h)

/-! ### not vacuous -/
-- `-1.5e+3x`, `.5e`, `1.`, `1e5`
example : longestPrefix isFloat [45, 49, 46, 53, 101, 43, 51, 120] = some 7 := by decide
example : floatMatch [45, 49, 46, 53, 101, 43, 51, 120] = some 7 := by decide
example : longestPrefix isFloat [46, 53, 101] = some 2 ∧ floatMatch [46, 53, 101] = some 2 := by decide
example : longestPrefix isFloat [49, 46] = none ∧ floatMatch [49, 46] = none := by decide
example : longestPrefix isFloat [49, 101, 53] = none ∧ floatMatch [49, 101, 53] = none := by decide

end PV
