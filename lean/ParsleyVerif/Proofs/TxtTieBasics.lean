/-
  Basics for the second batch of the statement-level translator's tie (text level): states that only grow, views of
  sub-slices, the byte-string primitives of Generated/ProgPrelude.lean.  Hand-written sides only; nothing here depends on
  the generated file.
-/
import ParsleyVerif.Proofs.ProgTieText
namespace PV.TxtTie
open PV.ProgPrelude PV.ProgTie

/-- the bytes of the model as the integers of the translation -/
def ints (l : List Nat) : List Int := l.map Int.ofNat

@[simp] theorem ints_length (l : List Nat) : (ints l).length = l.length := by simp [ints]
@[simp] theorem ints_nil : ints [] = [] := rfl
@[simp] theorem ints_cons (a : Nat) (l : List Nat) : ints (a :: l) = (a : Int) :: ints l := rfl
theorem ints_drop (l : List Nat) (n : Nat) : ints (l.drop n) = (ints l).drop n := by simp [ints, List.map_drop]
theorem ints_take (l : List Nat) (n : Nat) : ints (l.take n) = (ints l).take n := by simp [ints, List.map_take]
theorem ints_append (a b : List Nat) : ints (a ++ b) = ints a ++ ints b := by simp [ints]
theorem ints_eq_nil {l : List Nat} : ints l = [] ↔ l = [] := by simp [ints]
theorem ints_toNat (l : List Nat) : (ints l).map Int.toNat = l := by
  induction l with
  | nil => rfl
  | cons a r ih => simp [ints] at ih ⊢; exact ih
theorem ints_inj {a b : List Nat} (h : ints a = ints b) : a = b := by
  have := congrArg (List.map Int.toNat) h
  rwa [ints_toNat, ints_toNat] at this
theorem ints_getElem? (l : List Nat) (i : Nat) : (ints l)[i]? = (l[i]?).map Int.ofNat := by simp [ints]

/-- `st'` is `st` with fresh arrays appended: nothing that existed was written -/
structure Grows (st st' : St) : Prop where
  arrays : ∃ e, st'.arrays = st.arrays ++ e
  maps : st'.maps = st.maps
  grow : st'.grow = st.grow

theorem Grows.refl (st : St) : Grows st st := ⟨⟨[], by simp⟩, rfl, rfl⟩

theorem Grows.trans {a b c : St} (h1 : Grows a b) (h2 : Grows b c) : Grows a c := by
  obtain ⟨⟨e1, h1a⟩, h1m, h1g⟩ := h1
  obtain ⟨⟨e2, h2a⟩, h2m, h2g⟩ := h2
  exact ⟨⟨e1 ++ e2, by rw [h2a, h1a, List.append_assoc]⟩, by rw [h2m, h1m], by rw [h2g, h1g]⟩

theorem Grows.push (st : St) (x : List Int) : Grows st { st with arrays := st.arrays ++ [x] } :=
  ⟨⟨[x], rfl⟩, rfl, rfl⟩

theorem cells_grows {st st' : St} (g : Grows st st') {a : Nat} (h : a < st.arrays.length) : cells st' a = cells st a := by
  obtain ⟨e, he⟩ := g.arrays
  simp only [cells, he, List.getD_eq_getElem?_getD, List.getElem?_append_left h]

/-- a header that shows as many cells as its length says keeps its view when the state grows -/
theorem view_grows {st st' : St} (g : Grows st st') (s : Sl) (h : (view st s).length = s.len) : view st' s = view st s := by
  by_cases ha : s.arr < st.arrays.length
  · simp only [view, cells_grows g ha]
  · have hc : cells st s.arr = [] := by
      simp only [cells, List.getD_eq_getElem?_getD]
      rw [List.getElem?_eq_none (by omega)]; rfl
    have h0 : s.len = 0 := by rw [← h]; simp [view, hc]
    simp [view, h0]

theorem fileRel_grows {st st' : St} {F : FactsProg.File} {f : Text.File} (rel : FileRel st F f) (g : Grows st st') :
    FileRel st' F f := by
  refine ⟨?_, rel.dlen, rel.len, rel.off, rel.name⟩
  rw [view_grows g F.data (by rw [rel.data]; simp [rel.dlen]), rel.data]


/-- `s[lo:]` shows the rest of what `s` shows -/
theorem sliceFrom_view (st : St) (s : Sl) (lo : Nat) (h : lo ≤ s.len) :
    ∃ s', Go.sliceFrom s (lo : Int) st = .ok s' st ∧ view st s' = (view st s).drop lo ∧ s'.len = s.len - lo ∧
      s'.arr = s.arr ∧ s'.off = s.off + lo ∧ s'.isNil = s.isNil ∧ s'.cap = s.cap - lo := by
  refine ⟨{ arr := s.arr, off := s.off + lo, len := s.len - lo, cap := s.cap - lo, isNil := s.isNil }, ?_, ?_, rfl, rfl, rfl, rfl, rfl⟩
  · simp only [Go.sliceFrom, Int.toNat_natCast]
    rw [if_pos ⟨by omega, by omega⟩]
  · simp only [view, List.drop_take, List.drop_drop]

/-- `s[lo:hi]` inside the length shows that part of what `s` shows -/
theorem slice_view (st : St) (s : Sl) (lo hi : Nat) (h1 : lo ≤ hi) (h2 : hi ≤ s.len) (h3 : s.len ≤ s.cap) :
    ∃ s', Go.slice s (lo : Int) (hi : Int) st = .ok s' st ∧ view st s' = ((view st s).drop lo).take (hi - lo) ∧
      s'.len = hi - lo ∧ s'.isNil = s.isNil ∧ s'.cap = s.cap - lo := by
  refine ⟨{ arr := s.arr, off := s.off + lo, len := hi - lo, cap := s.cap - lo, isNil := s.isNil }, ?_, ?_, rfl, rfl, rfl⟩
  · simp only [Go.slice, Int.toNat_natCast]
    rw [if_pos ⟨by omega, by omega, by omega⟩]
  · simp only [view, List.drop_take, List.drop_drop, List.take_take]
    congr 1
    omega

/-- a well-formed slice header: the length within the capacity, and nil only when empty -/
structure SlWF (s : Sl) : Prop where
  cap : s.len ≤ s.cap
  nil : s.isNil = true → s.len = 0

theorem sliceFrom_panic (st : St) (s : Sl) (lo : Int) (h : lo < 0 ∨ (s.len : Int) < lo) : Go.sliceFrom s lo st = .panic := by
  simp only [Go.sliceFrom]
  rw [if_neg (by omega)]

/-- `[]byte(str)` -/
theorem bytesOf_spec (st : St) (str : Str) :
    ∃ s st', Go.bytesOf str st = .ok s st' ∧ Grows st st' ∧ view st' s = str ∧ s.len = str.length ∧ s.isNil = false ∧
      s.arr = st.arrays.length := by
  refine ⟨_, _, rfl, Grows.push st _, ?_, rfl, rfl, rfl⟩
  simp [view, cells, List.getD_eq_getElem?_getD]

/-- reading inside / outside a string -/
theorem strIdx_ok (st : St) (s : Str) (i : Nat) (v : Int) (h : s[i]? = some v) : Go.strIdx s (i : Int) st = .ok v st := by
  simp only [Go.strIdx, Int.toNat_natCast, h]
  rw [if_pos (by omega)]

/-- a signed 8-bit view of a rune below 128 and of a byte coincide exactly when the two are equal -/
theorem wrap8_eq_iff (ch b : Nat) (hc : ch < 128) (hb : b < 256) :
    Go.wrap 8 true (ch : Int) = Go.wrap 8 true (b : Int) ↔ ch = b := by
  simp only [Go.wrap, if_true]
  have e1 : (2 : Int) ^ (8 - 1) = 128 := by decide
  have e2 : (2 : Int) ^ 8 = 256 := by decide
  rw [e1, e2]
  omega

theorem isPrefixOf_ints (a b : List Nat) : (ints a).isPrefixOf (ints b) = a.isPrefixOf b := by
  induction a generalizing b with
  | nil => simp
  | cons x a ih =>
    cases b with
    | nil => simp
    | cons y b =>
      simp only [ints_cons, List.isPrefixOf_cons_cons, ih]
      congr 1
      rw [Bool.eq_iff_iff]; simp only [beq_iff_eq]; omega

end PV.TxtTie
