/-
  C08 helper lemmas, part 10: the bytes of a double-quoted string body (`Lang.strBody` = unquoteString as
  fixed) never contain a raw CR or LF.
-/
import ParsleyVerif.Proofs.TerminalStrBody
namespace PV
open PV.Text

/-- no raw line feed or carriage return -/
def Clean (l : Bytes) : Prop := ∀ b ∈ l, b ≠ 10 ∧ b ≠ 13

theorem clean_nil : Clean [] := by intro b hb; cases hb
theorem clean_cons {a : Nat} {l : Bytes} (ha : a ≠ 10 ∧ a ≠ 13) (hl : Clean l) : Clean (a :: l) := by
  intro b hb
  cases hb with
  | head => exact ha
  | tail _ h => exact hl b h
theorem clean_append {a b : Bytes} (ha : Clean a) (hb : Clean b) : Clean (a ++ b) := by
  intro x hx
  rcases List.mem_append.mp hx with h | h
  · exact ha x h
  · exact hb x h

theorem clean_of_all {p : Nat → Bool} {l : Bytes} (hp : ∀ b, p b = true → b ≠ 10 ∧ b ≠ 13) (h : l.all p = true) : Clean l := by
  intro b hb
  exact hp b (List.all_eq_true.mp h b hb)

theorem hexDigit_clean (b : Nat) (h : Lang.hexDigit b = true) : b ≠ 10 ∧ b ≠ 13 := by
  simp [Lang.hexDigit] at h; omega
theorem octDigit_clean (b : Nat) (h : Lang.octDigit b = true) : b ≠ 10 ∧ b ≠ 13 := by
  simp [Lang.octDigit] at h; omega
theorem plainByte_clean (b : Nat) (h : Lang.plainByte b = true) : b ≠ 10 ∧ b ≠ 13 := by
  simp [Lang.plainByte] at h; omega

theorem encodeRune_high (c : Nat) (hc : 0x80 ≤ c) : ∀ b ∈ Utf8.encodeRune c, 0x80 ≤ b := by
  unfold Utf8.encodeRune
  rw [if_neg (by omega)]
  by_cases c2 : c < 0x800
  · rw [if_pos c2]; intro b hb; simp at hb; omega
  · rw [if_neg c2]
    split
    · intro b hb; simp at hb; omega
    · split
      · intro b hb; simp at hb; omega
      · intro b hb; simp at hb; omega

theorem hexEscape_digits (n : Nat) (any : Bool) (r : Bytes) (c w : Nat) (h : Lang.hexEscape n any r = some (c, w)) :
    (r.take n).all Lang.hexDigit = true := by
  unfold Lang.hexEscape at h
  split at h
  · rename_i hc; exact hc.2.1
  · cases h

theorem octEscape_digits (e : Nat) (r : Bytes) (c w : Nat) (h : Lang.octEscape e r = some (c, w)) :
    (r.take 2).all Lang.octDigit = true := by
  unfold Lang.octEscape at h
  split at h
  · rename_i hc; exact hc.2.1
  · cases h

theorem take_esc (a e : Nat) (r2 : Bytes) (n : Nat) : (a :: e :: r2).take (2 + n) = a :: e :: r2.take n := by
  rw [Nat.add_comm]; rfl

/-- the bytes of one element whose first byte is not a raw line break contain no raw line break -/
theorem escElem_clean (l : Bytes) (c w : Nat) (h : Lang.escElem 34 l = some (c, w))
    (hnl : ¬ (l.head? = some 13 ∨ l.head? = some 10)) : Clean (l.take w) := by
  cases l with
  | nil => cases h
  | cons a r =>
    have ha : a ≠ 10 ∧ a ≠ 13 := by
      simp only [List.head?_cons, Option.some.injEq, not_or] at hnl; omega
    rw [escElem_cons] at h
    by_cases c1 : a = 34
    · rw [if_pos c1] at h; cases h
    rw [if_neg c1] at h
    by_cases c2 : a ≠ 92
    · rw [if_pos c2] at h
      by_cases c3 : a < 0x80
      · rw [if_pos c3] at h
        simp only [Option.some.injEq, Prod.mk.injEq] at h
        rw [← h.2]
        exact clean_cons ha clean_nil
      · rw [if_neg c3] at h
        simp only [Option.some.injEq] at h
        cases Utf8.decodeRune_decoded (a :: r) (by simp) with
        | invalid hi =>
          rw [hi] at h
          simp only [Prod.mk.injEq] at h
          rw [← h.2]
          exact clean_cons ha clean_nil
        | valid _ h2 =>
          rw [h] at h2
          simp only [] at h2
          have hw := Utf8.decodeRune_width (a :: r) (by simp)
          rw [h] at hw
          simp only [] at hw
          have hc : 0x80 ≤ c := by
            apply Nat.le_of_not_lt
            intro hlt
            have e : Utf8.encodeRune c = [c] := by simp [Utf8.encodeRune, hlt]
            rw [e] at h2
            obtain ⟨w', rfl⟩ : ∃ w', w = w' + 1 := ⟨w - 1, by omega⟩
            simp only [List.take_succ_cons, List.cons.injEq] at h2
            omega
          rw [h2]
          intro b hb
          have := encodeRune_high c hc b hb
          omega
    rw [if_neg c2] at h
    have ha92 : a = 92 := by omega
    cases r with
    | nil => cases h
    | cons e r2 =>
      simp only [] at h
      cases hl : Lang.simpleEscapes.lookup e with
      | some v =>
        rw [hl] at h
        simp only [Option.some.injEq, Prod.mk.injEq] at h
        rw [← h.2]
        have he : e ≠ 10 ∧ e ≠ 13 := by
          constructor
          · intro h0; subst h0
            have : Lang.simpleEscapes.lookup 10 = none := by decide
            rw [this] at hl; cases hl
          · intro h0; subst h0
            have : Lang.simpleEscapes.lookup 13 = none := by decide
            rw [this] at hl; cases hl
        exact clean_cons ha (clean_cons he clean_nil)
      | none =>
        rw [hl] at h
        simp only [] at h
        by_cases d0 : e = 34
        · rw [if_pos d0] at h
          simp only [Option.some.injEq, Prod.mk.injEq] at h
          rw [← h.2]
          exact clean_cons ha (clean_cons (by omega) clean_nil)
        rw [if_neg d0] at h
        have hex : ∀ n any, Lang.hexEscape n any r2 = some (c, w) → e ≠ 10 ∧ e ≠ 13 → Clean ((a :: e :: r2).take w) := by
          intro n any hh he
          rw [(hexEscape_width n any r2 c w hh).1, take_esc]
          exact clean_cons ha (clean_cons he (clean_of_all hexDigit_clean (hexEscape_digits n any r2 c w hh)))
        by_cases d1 : e = 120
        · rw [if_pos d1] at h; exact hex _ _ h (by omega)
        rw [if_neg d1] at h
        by_cases d2 : e = 117
        · rw [if_pos d2] at h; exact hex _ _ h (by omega)
        rw [if_neg d2] at h
        by_cases d3 : e = 85
        · rw [if_pos d3] at h; exact hex _ _ h (by omega)
        rw [if_neg d3] at h
        by_cases d4 : Lang.octDigit e = true
        · rw [if_pos d4] at h
          rw [(octEscape_width e r2 c w h).1]
          show Clean (a :: e :: r2.take 2)
          exact clean_cons ha (clean_cons (octDigit_clean e d4) (clean_of_all octDigit_clean (octEscape_digits e r2 c w h)))
        · rw [if_neg d4] at h; cases h

theorem mem_takeWhile_p (p : Nat → Bool) : ∀ (l : Bytes) (b : Nat), b ∈ l.takeWhile p → p b = true := by
  intro l
  induction l with
  | nil => intro b hb; cases hb
  | cons a r ih =>
    intro b hb
    by_cases ha : p a = true
    · rw [List.takeWhile_cons_of_pos ha] at hb
      cases hb with
      | head => exact ha
      | tail _ h => exact ih b h
    · rw [List.takeWhile_cons_of_neg ha] at hb; cases hb

theorem strElems_clean : ∀ (n : Nat) (l : Bytes), Clean (l.take (widths (Lang.strElems n l))) := by
  intro n
  induction n with
  | zero => intro l; simp [Lang.strElems, widths]; exact clean_nil
  | succ n ih =>
    intro l
    unfold Lang.strElems
    cases he : Lang.strElem l with
    | none => simp [widths]; exact clean_nil
    | some p =>
      obtain ⟨c, w⟩ := p
      obtain ⟨hnl, hesc, _⟩ := strElem_some l c w he
      simp only [widths, List.map_cons, List.sum_cons]
      rw [List.take_add]
      exact clean_append (escElem_clean l c w hesc hnl) (ih (l.drop w))

/-- **no raw line break in a double-quoted body**: the bytes the body reader consumes never contain CR or LF -/
theorem strBody_clean (r : Bytes) : Clean (r.take (Lang.strBody r).2) := by
  unfold Lang.strBody
  simp only []
  have hplain : Clean (r.take (r.takeWhile Lang.plainByte).length) := by
    have : r.take (r.takeWhile Lang.plainByte).length = r.takeWhile Lang.plainByte := by
      have hp := List.takeWhile_prefix (l := r) Lang.plainByte
      exact (List.prefix_iff_eq_take.mp hp).symm
    rw [this]
    intro b hb
    exact plainByte_clean b (mem_takeWhile_p _ _ b hb)
  generalize hi : (r.takeWhile Lang.plainByte).length = i at hplain
  cases hD : r.drop i with
  | nil =>
    simp only []
    have : r.length ≤ i := by simpa using hD
    rw [List.take_of_length_le (Nat.le_refl _)]
    rw [List.take_of_length_le this] at hplain
    exact hplain
  | cons b t =>
    simp only []
    by_cases c : b = 13 ∨ b = 10 ∨ b = 34
    · rw [if_pos c]
      by_cases hz : i = 0
      · rw [if_pos hz]; exact clean_nil
      · rw [if_neg hz]; exact hplain
    · rw [if_neg c]
      have hw : ((Lang.strElems r.length (b :: t)).map (·.2)).sum = widths (Lang.strElems r.length (b :: t)) := rfl
      rw [hw]
      by_cases hz : i + widths (Lang.strElems r.length (b :: t)) = 0
      · rw [if_pos hz]; exact clean_nil
      · rw [if_neg hz]
        simp only []
        rw [List.take_add, hD]
        exact clean_append hplain (strElems_clean r.length (b :: t))

end PV
