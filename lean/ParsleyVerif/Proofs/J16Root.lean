/-
  C16, full value theorem — layer 4: the root `Sentence(Trim(value))`, `parse`, the JSON value of the expected
  tree, `evaluate`.
-/
import ParsleyVerif.Proofs.J16Doc
import ParsleyVerif.Props.C16
namespace PV.J16
open PV PV.Text

/-- the tree under the Sentence node: the document's tree, its end moved past the trailing whitespace (RightTrim) -/
def rootTree (off : Nat) (lead : Bytes) (d : JDoc) (trail : Bytes) : Node :=
  bump trail.length (d.tree (off + lead.length))

theorem bump_rpos (k : Nat) (n : Node) (h : IsTN n) : (bump k n).rpos = n.rpos + k := by
  cases n <;> first | rfl | exact absurd h (by simp [IsTN])

theorem bump_pos (k : Nat) (n : Node) : (bump k n).pos = n.pos := by
  cases n <;> rfl

theorem delim_ws {w : Bytes} (h : WsNl w) : Delim w := by
  cases w with
  | nil => exact delim_nil
  | cons b r => have := h b (by simp); exact delim_cons (by omega)

theorem stop_nil : Stop [] := by intro c h; cases h

/-- **the root finds the tree** -/
theorem root_ok {cfg : Cfg} (hS : Std cfg) (lead : Bytes) (d : JDoc) (trail : Bytes) (hd : d.OK)
    (hf : d.FloatsOk cfg.params) (hlead : WsNl lead) (htrail : WsNl trail)
    (hdata : cfg.file.data = renderDoc lead d trail) :
    Succ cfg Gjson.root (cfg.file.pos 0) (sentenceNode (rootTree cfg.file.offset lead d trail)) := by
  have hpos : cfg.file.pos 0 = cfg.file.offset := by simp [File.pos]
  rw [hpos]
  have hat0 : At cfg cfg.file.offset (lead ++ (d.render ++ trail)) := by
    refine ⟨⟨Nat.le_refl _, by omega⟩, ?_⟩
    simp [rest, hdata, renderDoc]
  have hat1 := hat0.adv
  have hat2 := hat1.adv
  have hat3 : At cfg (cfg.file.offset + lead.length + d.render.length + trail.length) [] :=
    At.adv (b := []) (by rw [List.append_nil]; exact hat2)
  have hv := value_ok hS d hd hf _ _ hat1 (delim_ws htrail)
  have hl := ltrim_nl_ok hS hat0 hlead (render_stop d hd _) hv
  have hin : InFile cfg.file (d.tree (cfg.file.offset + lead.length)).rpos := by rw [tree_rpos]; exact hat2.1
  have hr := succ_rtrim_nl hS.mc hS.off (tree_isTN d _) hin hl
  have hws : wsRun (rest cfg.file (d.tree (cfg.file.offset + lead.length)).rpos) = trail.length := by
    rw [tree_rpos, hat2.2]; exact wsRun_all trail (wsNl_isWs htrail)
  rw [hws] at hr
  have hrp : (rootTree cfg.file.offset lead d trail).rpos =
      cfg.file.offset + lead.length + d.render.length + trail.length := by
    unfold rootTree; rw [bump_rpos _ _ (tree_isTN d _), tree_rpos]
  have heof : isEOF cfg.file (rootTree cfg.file.offset lead d trail).rpos = true := by
    rw [hrp]; exact (isEOF_spec _ _ hat3.1).2 hat3.2
  have hch : ShChain cfg (sentenceShape (.rtrim (.ltrim (.ref 0) .spacesNl) .spacesNl)) 0 cfg.file.offset
      [rootTree cfg.file.offset lead d trail, .eof (rootTree cfg.file.offset lead d trail).rpos] :=
    .step (g := .rtrim (.ltrim (.ref 0) .spacesNl) .spacesNl) rfl hr
      (.step (g := .eof) rfl (succ_eof hS.mc heof) (.stopNone rfl))
  exact succ_seqfam hS.mc (sentence_shape _) hch rfl

/-- from the run to `parse` -/
theorem parse_of_succ {cfg : Cfg} {g : G} {n : Node} (h : Succ cfg g (cfg.file.pos 0) n) :
    ∃ F, ∀ fuel, F ≤ fuel → ∃ st, parse cfg fuel g = some { res := .one n, err := none, msg := none, st := st } := by
  obtain ⟨F, hF⟩ := h
  refine ⟨F, fun fuel hf => ?_⟩
  obtain ⟨st', hr⟩ := hF fuel hf [] {}
  exact ⟨st', by simp [parse, hr, Res.isNil]⟩

/-! ### the JSON value of the expected tree -/

theorem jvalOf_bump (k : Nat) (n : Node) : jvalOf (bump k n) = jvalOf n := by
  cases n with
  | term t v p r => cases v <;> rfl
  | nt t c p r i => simp only [bump, jvalOf]
  | empty p => rfl
  | eof p => rfl

theorem jvalOf_runeLeaf (c p : Nat) : jvalOf (runeLeaf c p) = none := rfl

mutual
theorem jval_tree : ∀ (d : JDoc) (p : Nat), jvalOf (d.tree p) = some d.val
  | .null, _ => rfl
  | .bool true, _ => rfl
  | .bool false, _ => rfl
  | .int _, _ => rfl
  | .dec _, _ => rfl
  | .str _, _ => rfl
  | .arr .nil _, _ => rfl
  | .arr (.cons wc wb d r) close, p => by
    simp only [JDoc.tree, jvalOf, jvalOfList, JDoc.val, JItems.vals]
    rw [jval_tree d, jval_items r _ d.val]
    rfl
  | .obj .nil _, _ => rfl
  | .obj (.cons wc wb k wk wv d r) close, p => by
    simp only [JDoc.tree, jvalOf, jvalOfList, JDoc.val, JMems.vals, jkvOfList]
    rw [jkv_node k wk wv d _, jkv_mems r _ (decodeStr k, d.val)]
    rfl
theorem jval_items : ∀ (r : JItems) (e : Nat) (v : JVal),
    allSome (everySecond (some v :: jvalOfList (r.moreNodes e))) = some (v :: r.vals)
  | .nil, _, _ => rfl
  | .cons wc wb d r, e, v => by
    simp only [JItems.moreNodes, jvalOfList, everySecond, allSome, JItems.vals]
    rw [jval_tree d, jval_items r _ d.val]
    rfl
theorem jkv_node (k : List SElem) (wk wv : Bytes) : ∀ (d : JDoc) (p : Nat),
    jkvOf (kvNode k wk wv d.render.length d.tree p) = some (decodeStr k, d.val)
  | d, p => by
    simp only [kvNode, jkvOf, jvalOfList]
    rw [jval_tree d]
theorem jkv_mems : ∀ (r : JMems) (e : Nat) (kv : Bytes × JVal),
    allSome (everySecond (some kv :: jkvOfList (r.moreNodes e))) = some (kv :: r.vals)
  | .nil, _, _ => rfl
  | .cons wc wb k wk wv d r, e, kv => by
    simp only [JMems.moreNodes, jkvOfList, everySecond, allSome, JMems.vals]
    rw [jkv_node k wk wv d _, jkv_mems r _ (decodeStr k, d.val)]
    rfl
end

theorem jval_rootTree (off : Nat) (lead : Bytes) (d : JDoc) (trail : Bytes) :
    jvalOf (rootTree off lead d trail) = some d.val := by
  unfold rootTree; rw [jvalOf_bump, jval_tree]

theorem sentenceNode_inj {a b : Node} (h : sentenceNode a = sentenceNode b) : a = b := by
  unfold sentenceNode at h
  injection h with _ h2 _ _ _
  injection h2

/-- from `parse` to `evaluate`: a parse that returns `Sentence[t, EOF]`, `t` denoting `j`, evaluates to `denote j` -/
theorem evaluate_of_parse {cfg : Cfg} (henv : cfg.env = Gjson.env) (ce : CustomEval) (t : Node) (j : JVal)
    (hj : jvalOf t = some j) (fuel : Nat) (hfuel : t.depth + 2 ≤ fuel) (st : St)
    (hp : parse cfg fuel Gjson.root = some { res := .one (sentenceNode t), err := none, msg := none, st := st }) :
    evaluate cfg ce fuel Gjson.root = some (.value (denote j)) := by
  obtain ⟨t', ht', _, hx⟩ := c16_parse_tree cfg henv fuel _ hp (sentenceNode t) (by simp [Res.alts])
  have : t = t' := sentenceNode_inj hx
  subst this
  obtain ⟨k, rfl⟩ : ∃ k, fuel = k + 1 := ⟨fuel - 1, by omega⟩
  have hev := c16_value cfg.file t ht' j hj ce k (by omega)
  simp only [evaluate, hp, evalRes, evalNode_sentenceNode, hev]

end PV.J16
