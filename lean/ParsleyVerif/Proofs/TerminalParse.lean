/-
  C08 helper lemmas, part 3: on its domain every terminal of Model/Terminal.lean answers exactly
  `Terminal.spec` (Spec/TerminalSpec.lean) applied to the bytes from the position to the end of the file.
-/
import ParsleyVerif.Proofs.TerminalString
namespace PV
open PV.Text

theorem wordAt_iff (w l : Bytes) :
    wordAt w l = true ↔ (w <+: l ∧ ((l.drop w.length).head?.all (fun d => !isWordByte d)) = true) := by
  unfold wordAt; simp

theorem matchWord_eq (f : File) (pos : Nat) (w : Bytes) (h : InFile f pos) (hw : w ≠ []) (ha : ∀ b ∈ w, b < 0x80) :
    matchWord f pos w = some (if wordAt w (rest f pos) then (pos + w.length, true) else (pos, false)) := by
  rw [matchWord_spec f pos w h hw ha]
  by_cases hc : wordAt w (rest f pos) = true
  · rw [if_pos hc, if_pos ((wordAt_iff _ _).mp hc)]
  · rw [if_neg hc, if_neg (fun hh => hc ((wordAt_iff _ _).mpr hh))]

theorem parse_rune (P : Params) (f : File) (pos ch : Nat) (name : Bytes) (h : InFile f pos) :
    Terminal.parse P f (.rune ch name) pos = Terminal.spec P (rest f pos) pos (.rune ch name) := by
  simp only [Terminal.parse, Terminal.spec]
  rw [readRune_eq f pos ch h]
  cases runeW ch (rest f pos) <;> rfl

theorem parse_op (P : Params) (f : File) (pos : Nat) (s name : Bytes) (h : InFile f pos) (hs : s ≠ []) :
    Terminal.parse P f (.op s name) pos = Terminal.spec P (rest f pos) pos (.op s name) := by
  simp only [Terminal.parse, Terminal.spec]
  rw [matchString_spec f pos s h hs]
  by_cases hp : s <+: rest f pos
  · rw [if_pos hp, if_pos hp]
  · rw [if_neg hp, if_neg hp]

theorem parse_word (P : Params) (f : File) (pos : Nat) (w : Bytes) (v : Nat) (name : Bytes) (h : InFile f pos)
    (hw : w ≠ []) (ha : ∀ b ∈ w, b < 0x80) :
    Terminal.parse P f (.word w v name) pos = Terminal.spec P (rest f pos) pos (.word w v name) := by
  simp only [Terminal.parse, Terminal.spec]
  rw [matchWord_eq f pos w h hw ha]
  by_cases hp : wordAt w (rest f pos) = true
  · rw [if_pos hp, if_pos hp]
  · rw [if_neg hp, if_neg hp]

theorem parse_nil (P : Params) (f : File) (pos : Nat) (w : Bytes) (h : InFile f pos)
    (hw : w ≠ []) (ha : ∀ b ∈ w, b < 0x80) :
    Terminal.parse P f (.nil w) pos = Terminal.spec P (rest f pos) pos (.nil w) := by
  simp only [Terminal.parse, Terminal.spec]
  rw [matchWord_eq f pos w h hw ha]
  by_cases hp : wordAt w (rest f pos) = true
  · rw [if_pos hp, if_pos hp]
  · rw [if_neg hp, if_neg hp]

theorem parse_bool (P : Params) (f : File) (pos : Nat) (t e : Bytes) (h : InFile f pos)
    (ht : t ≠ []) (hta : ∀ b ∈ t, b < 0x80) (he : e ≠ []) (hea : ∀ b ∈ e, b < 0x80) :
    Terminal.parse P f (.bool t e) pos = Terminal.spec P (rest f pos) pos (.bool t e) := by
  simp only [Terminal.parse, Terminal.spec]
  rw [matchWord_eq f pos t h ht hta, matchWord_eq f pos e h he hea]
  by_cases hp : wordAt t (rest f pos) = true
  · rw [if_pos hp, if_pos hp]
  · rw [if_neg hp, if_neg hp]
    by_cases hq : wordAt e (rest f pos) = true
    · rw [if_pos hq, if_pos hq]
    · rw [if_neg hq, if_neg hq]

/-- ReadRegexp for the built-in matchers, which answer `none` on the empty input -/
theorem readRegexp_eq (engine : Bytes → Option Nat) (f : File) (pos : Nat) (h : InFile f pos)
    (hc : ∀ r m, engine r = some m → m ≤ r.length) (he : engine [] = none) :
    readRegexp engine f pos = some (match engine (rest f pos) with
      | none => (pos, none)
      | some m => (pos + m, some ((rest f pos).take m))) := by
  rw [readRegexp_spec engine f pos h hc]
  by_cases hr : rest f pos = []
  · rw [if_pos hr, hr, he]
  · rw [if_neg hr]; rfl

theorem head_ascii (f : File) (pos ch : Nat) (h : InFile f pos) (hc : ch < 0x80) :
    readRune f pos ch = some (if (rest f pos).head? = some ch then (pos + 1, true) else (pos, false)) :=
  readRune_ascii f pos ch h hc

theorem parse_integer (P : Params) (f : File) (pos : Nat) (h : InFile f pos) :
    Terminal.parse P f .integer pos = integerSpec (rest f pos) pos := by
  simp only [Terminal.parse, integerSpec]
  rw [readRegexp_eq integerMatch f pos h integerMatch_le rfl]
  cases hm : integerMatch (rest f pos) with
  | none => rfl
  | some k =>
    simp only []
    have hk := integerMatch_le _ _ hm
    rw [readRune_ascii f (pos + k) 46 (inFile_add f pos k h hk) (by omega), rest_add f pos k h]
    by_cases hd : ((rest f pos).drop k).head? = some 46
    · rw [if_pos hd, if_pos hd]
    · rw [if_neg hd, if_neg hd]; rfl

theorem parse_float (P : Params) (f : File) (pos : Nat) (h : InFile f pos) :
    Terminal.parse P f .float pos = floatSpec P (rest f pos) pos := by
  simp only [Terminal.parse, floatSpec]
  rw [readRegexp_eq floatMatch f pos h floatMatch_le rfl]
  cases hm : floatMatch (rest f pos) <;> rfl

theorem parse_duration (P : Params) (f : File) (pos : Nat) (h : InFile f pos) :
    Terminal.parse P f .duration pos = durationSpec P (rest f pos) pos := by
  simp only [Terminal.parse, durationSpec]
  rw [readRegexp_eq durationMatch f pos h durationMatch_le rfl]
  cases hm : durationMatch (rest f pos) <;> rfl

theorem parse_regexp (P : Params) (f : File) (pos id : Nat) (tok name : Bytes) (g : Bool) (h : InFile f pos)
    (hl : P.LenOk (.regexp id tok name g)) :
    Terminal.parse P f (.regexp id tok name g) pos = regexpSpec P id tok name g (rest f pos) pos := by
  simp only [Terminal.parse, regexpSpec]
  have hc : ∀ r m, (fun rest => (P.regexp id rest).map (·.1)) r = some m → m ≤ r.length := by
    intro r m hm
    simp only [Option.map_eq_some_iff] at hm
    obtain ⟨⟨m', g'⟩, h1, h2⟩ := hm
    cases h2
    exact hl r m' g' h1
  rw [readRegexp_spec _ f pos h hc]
  by_cases hr : rest f pos = []
  · rw [if_pos hr, if_pos hr]
  · rw [if_neg hr, if_neg hr]
    cases hp : P.regexp id (rest f pos) with
    | none => rfl
    | some p =>
      obtain ⟨m, gv⟩ := p
      simp only [Option.map_some]
      cases g with
      | false => rfl
      | true =>
        have : List.drop (pos - f.offset) f.data = rest f pos := rfl
        simp only [if_true, this, hp]
        cases gv <;> rfl


theorem parse_char (P : Params) (f : File) (pos : Nat) (h : InFile f pos) :
    Terminal.parse P f .char pos = charSpec (rest f pos) pos := by
  simp only [Terminal.parse]
  rw [readRune_ascii f pos 39 h (by omega)]
  cases hl : rest f pos with
  | nil => rfl
  | cons c r =>
    by_cases hc : c = 39
    · subst hc
      simp only [List.head?_cons, if_true, charSpec]
      have h1 : InFile f (pos + 1) := inFile_add f pos 1 h (by rw [hl]; simp)
      have hr1 : rest f (pos + 1) = r := by rw [rest_add f pos 1 h, hl]; rfl
      rw [readRegexp_eq charMatch f (pos + 1) h1 (fun r m hm => (charMatch_le r m hm).2) rfl, hr1]
      cases hm : charMatch r with
      | none => rfl
      | some k =>
        simp only []
        have hk := (charMatch_le _ _ hm).2
        have h2 : InFile f (pos + 1 + k) := inFile_add f (pos + 1) k h1 (by rw [hr1]; exact hk)
        rw [readRune_ascii f (pos + 1 + k) 39 h2 (by omega), rest_add f (pos + 1) k h1, hr1]
        by_cases hd : (r.drop k).head? = some 39
        · rw [if_pos hd, if_pos hd]; rfl
        · rw [if_neg hd, if_neg hd]
    · have : (c :: r).head? ≠ some 39 := by simp [hc]
      rw [if_neg this]
      show nf pos (tokOf "char literal") = _
      unfold charSpec
      split
      · rename_i heq; cases heq; exact absurd rfl hc
      · rfl

/-- the code of terminal.String after the opening quote `quote` has been read up to `rp1` -/
def afterQuote (f : File) (pos quote rp1 : Nat) : TermOut :=
  match readRune f rp1 quote with
  | none => .panic "ReadRune"
  | some (rp2, true) => .node (.term (tokOf "STRING") (.str []) pos rp2)
  | some (rp2, false) =>
    let body : Option (Nat × Option Bytes) :=
      if quote = 96 then readRegexp backquoteMatch f rp2 else readf unquoteString f rp2
    match body with
    | none => .panic "Readf"
    | some (rp3, value) =>
      match readRune f rp3 quote with
      | none => .panic "ReadRune"
      | some (rp4, false) => .err ⟨rp4, .other (tokOf "was expecting '" ++ [quote] ++ tokOf "'")⟩
      | some (rp4, true) => .node (.term (tokOf "STRING") (.str (value.getD [])) pos rp4)

theorem readBody_eq (f : File) (p : Nat) (q : Nat) (hq : q = 34 ∨ q = 96) (h : InFile f p) :
    (if q = 96 then readRegexp backquoteMatch f p else readf unquoteString f p) =
      some (p + ((if rest f p = [] then (none, 0) else (if q = 96 then backquoteBody else unquoteString) (rest f p)) : Option Bytes × Nat).2,
            ((if rest f p = [] then (none, 0) else (if q = 96 then backquoteBody else unquoteString) (rest f p)) : Option Bytes × Nat).1) := by
  rcases hq with hq | hq
  · subst hq
    simp only [show ¬ (34 = 96) by omega, if_false]
    rw [readf_spec unquoteString f p h]
    by_cases hr : rest f p = []
    · rw [if_pos hr, if_pos hr]; rfl
    · rw [if_neg hr, if_neg hr]
      obtain ⟨c1, c2, c3⟩ := unquoteString_contract (rest f p) hr
      rcases c3 with ⟨c3, c4⟩ | ⟨c3, c4⟩
      · rw [if_pos c4, c3, c4]; rfl
      · rw [if_neg (by omega), if_neg (by omega)]
  · subst hq
    simp only [if_true]
    rw [readRegexp_eq backquoteMatch f p h (fun r m hm => (backquoteMatch_le r m hm).2) rfl]
    by_cases hr : rest f p = []
    · rw [if_pos hr, hr]; rfl
    · rw [if_neg hr]
      unfold backquoteBody
      cases backquoteMatch (rest f p) <;> rfl

theorem body_le (q : Nat) (r : Bytes) :
    ((if r = [] then (none, 0) else (if q = 96 then backquoteBody else unquoteString) r) : Option Bytes × Nat).2 ≤ r.length := by
  by_cases hr : r = []
  · rw [if_pos hr]; simp
  · rw [if_neg hr]
    by_cases hq : q = 96
    · rw [if_pos hq]
      unfold backquoteBody
      cases hm : backquoteMatch r with
      | none => simp
      | some n => exact (backquoteMatch_le r n hm).2
    · rw [if_neg hq]
      exact (unquoteString_contract r hr).1

theorem afterQuote_eq (f : File) (pos q : Nat) (r : Bytes) (h : InFile f pos) (hl : rest f pos = q :: r)
    (hq : q = 34 ∨ q = 96) :
    afterQuote f pos q (pos + 1) = quotedSpec q (if q = 96 then backquoteBody else unquoteString) r pos := by
  have hq80 : q < 0x80 := by omega
  have h1 : InFile f (pos + 1) := inFile_add f pos 1 h (by rw [hl]; simp)
  have hr1 : rest f (pos + 1) = r := by rw [rest_add f pos 1 h, hl]; rfl
  unfold afterQuote quotedSpec
  rw [readRune_ascii f (pos + 1) q h1 hq80, hr1]
  by_cases hd : r.head? = some q
  · rw [if_pos hd, if_pos hd]
  · rw [if_neg hd, if_neg hd]
    simp only []
    rw [readBody_eq f (pos + 1) q hq h1, hr1]
    have hn := body_le q r
    generalize ((if r = [] then (none, 0) else (if q = 96 then backquoteBody else unquoteString) r) : Option Bytes × Nat) = vn at hn
    obtain ⟨v, n⟩ := vn
    simp only [] at hn ⊢
    have h2 : InFile f (pos + 1 + n) := inFile_add f (pos + 1) n h1 (by rw [hr1]; exact hn)
    rw [readRune_ascii f (pos + 1 + n) q h2 hq80, rest_add f (pos + 1) n h1, hr1]
    by_cases hd2 : (r.drop n).head? = some q
    · rw [if_pos hd2, if_pos hd2]
    · rw [if_neg hd2, if_neg hd2]

theorem parse_string (P : Params) (f : File) (pos : Nat) (bq : Bool) (h : InFile f pos) :
    Terminal.parse P f (.string bq) pos = stringSpec bq (rest f pos) pos := by
  have e : Terminal.parse P f (.string bq) pos =
      match (match readRune f pos 34 with
        | none => none
        | some (rp, true) => some (34, rp)
        | some (_, false) =>
          if bq then
            match readRune f pos 96 with
            | none => none
            | some (rp, true) => some (96, rp)
            | some (_, false) => some (0, pos)
          else some (0, pos) : Option (Nat × Nat)) with
      | none => .panic "ReadRune"
      | some (0, _) => nf pos (tokOf "string literal")
      | some (quote, rp1) => afterQuote f pos quote rp1 := rfl
  rw [e, readRune_ascii f pos 34 h (by omega), readRune_ascii f pos 96 h (by omega)]
  cases hl : rest f pos with
  | nil => cases bq <;> rfl
  | cons c r =>
    by_cases hc : c = 34
    · subst hc
      simp only [List.head?_cons, if_true]
      show afterQuote f pos 34 (pos + 1) = _
      rw [afterQuote_eq f pos 34 r h hl (Or.inl rfl)]
      rfl
    · have n1 : (c :: r).head? ≠ some 34 := by simp [hc]
      rw [if_neg n1]
      by_cases hc2 : c = 96
      · subst hc2
        cases bq with
        | false => rfl
        | true =>
          simp only [List.head?_cons, if_true]
          show afterQuote f pos 96 (pos + 1) = _
          rw [afterQuote_eq f pos 96 r h hl (Or.inr rfl)]
          rfl
      · have n2 : (c :: r).head? ≠ some 96 := by simp [hc2]
        rw [if_neg n2]
        have : stringSpec bq (c :: r) pos = nf pos (tokOf "string literal") := by
          unfold stringSpec
          split
          · rename_i heq; cases heq; exact absurd rfl hc
          · rename_i heq; cases heq; exact absurd rfl hc2
          · rfl
        rw [this]
        cases bq <;> rfl


/-- **every terminal = its specification** on the domain -/
theorem parse_eq_spec (P : Params) (f : File) (t : Terminal) (pos : Nat) (h : InFile f pos) (wf : t.WF) (hl : P.LenOk t) :
    Terminal.parse P f t pos = Terminal.spec P (rest f pos) pos t := by
  cases t with
  | rune ch name => exact parse_rune P f pos ch name h
  | op s name => exact parse_op P f pos s name h wf
  | word w v name => exact parse_word P f pos w v name h wf.1 wf.2
  | bool t e => exact parse_bool P f pos t e h wf.1.1 wf.1.2 wf.2.1 wf.2.2
  | nil s => exact parse_nil P f pos s h wf.1 wf.2
  | integer => exact parse_integer P f pos h
  | float => exact parse_float P f pos h
  | string bq => exact parse_string P f pos bq h
  | char => exact parse_char P f pos h
  | duration => exact parse_duration P f pos h
  | regexp id tok name g => exact parse_regexp P f pos id tok name g h hl

end PV
