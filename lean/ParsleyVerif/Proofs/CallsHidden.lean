/-
  C17, part 8: the exact call count of the hidden-left-recursion family `P → x? P b | a` (family 4 of the suite:
  env = [Memoize(Any(SeqOf(Optional('x'), P, 'b'), 'a'))], root = Sentence(P), input `a b^(n-1)`), for EVERY n ≥ 1.

  The run has the shape of family 1 (CallsPbA.lean): at position 1 Memoize is entered with left-recursion
  count 0, 1, …, n+1 and curtailed at count n+2; `x?` answers with the EMPTY node without consuming, so the
  left-recursion context is handed on to `P` unchanged.  The activation `m` levels above the curtailed one
  returns the `m` shortest prefixes (end positions m+1, …, 2) and costs Σ_{i<m} (4 + i) calls: `x? P b`, its
  elements `x?` and `P`, one `b` per alternative of the inner activation, and `a`.  The two outermost
  activations cost 4 + n each, Sentence adds 2:  (n² + 11n + 20)/2.
-/
import ParsleyVerif.Proofs.CallsSpine
import ParsleyVerif.Proofs.CallsOther
namespace PV.C17b
open PV.Text PV.C17

def hidX : G := runeT 120
def hidB : G := runeT 98
def hidA : G := runeT 97
def hidS : G := seqOfT [.optional hidX, .ref 0, hidB]
def hidBody : G := .any [hidS, hidA]
def hidP : G := .memo 0 hidBody

theorem hiddenEnv_eq : hiddenEnv = [hidP] := rfl

structure IsHid (n : Nat) (cfg : Cfg) : Prop where
  env : cfg.env = hiddenEnv
  file : cfg.file = pbaFile n
  max : cfg.maxCalls = 0

def hidSh : SeqShape :=
  { lookup := fun i => [G.optional hidX, G.ref 0, hidB][i]?, lenCheck := fun len => len == 3, token := seqTok,
    interp := .none, single := false, name := none }

theorem hidS_shape : hidS.shape = some hidSh := rfl

variable {n : Nat} {cfg : Cfg}

theorem hid_off (hc : IsHid n cfg) : cfg.file.offset = 1 := by rw [hc.file]; rfl

/-- `b` follows every position 2 … n, not n+1 -/
theorem hid_fol (hc : IsHid n cfg) (p : Nat) (h2 : 2 ≤ p) : fol cfg.file.data 98 p = decide (p ≤ n) := by
  rw [hc.file]
  obtain ⟨q, rfl⟩ : ∃ q, p = q + 2 := ⟨p - 2, by omega⟩
  simp only [fol, pbaFile, pbaData]
  have : q + 2 - 1 = q + 1 := by omega
  rw [this, List.getElem?_cons_succ, List.getElem?_replicate]
  by_cases h : q + 2 ≤ n
  · have : q < n - 1 := by omega
    simp [this, h]
  · have : ¬ q < n - 1 := by omega
    simp [this, h]

theorem run_optional_eq (h0 : cfg.maxCalls = 0) (fuel : Nat) (g : G) (ctx : Ctx) (pos : Nat) (st : St) :
    run cfg (fuel + 1) (.optional g) ctx pos st =
      match run cfg fuel g ctx pos st with
      | none => none
      | some (o, st) => some (⟨appendNode o.res (.one (.empty pos)), o.cp, o.err⟩, st) := by
  have hb : ¬ (cfg.maxCalls ≠ 0 ∧ st.calls > cfg.maxCalls) := by simp [h0]
  conv => lhs; unfold run
  rw [if_neg hb]
  rfl

/-- `x?` at position 1: the EMPTY node, no call inside -/
theorem run_hid_opt (hc : IsHid n cfg) (f : Nat) (ctx : Ctx) (st : St) :
    ∃ e st', run cfg (f + 2) (.optional hidX) ctx 1 st = some (⟨.one (.empty 1), [], e⟩, st') ∧
      st'.calls = st.calls ∧ st'.cache = st.cache := by
  have hr : readRune cfg.file 1 120 = some (1, false) := by
    rw [hc.file]; simp [readRune, pbaFile, pbaData, File.len]
  obtain ⟨s1, h1, h2, h3⟩ := run_rune_fail hc.max f 120 [34, 120, 34] ctx 1 1 st hr
  rw [run_optional_eq hc.max, hidX, runeT, h1]
  exact ⟨_, s1, rfl, h2, h3⟩

/-- `SeqOf(x?, P, 'b')` once the inner `P` answers with the alternatives `L` -/
theorem run_hidS (hc : IsHid n cfg) (f : Nat) (ctx : Ctx) (L : List Node) (hL : ∀ x ∈ L, 1 < x.rpos) (c : Nat)
    (inner : ∀ s : St, s.cache = [] →
      ∃ e s1, run cfg (f + 3) hidP ctx 1 s = some (⟨resOf L, [0], e⟩, s1) ∧ s1.calls = s.calls + c)
    (st : St) (hcache : st.cache = []) :
    ∃ e st', run cfg (f + 6) hidS ctx 1 st = some (⟨resOf (extAllG hidSh [.empty 1] 98 cfg.file.data L), [0], e⟩, st') ∧
      st'.calls = st.calls + 2 + c + L.length := by
  have hl0 : hidSh.lookup 0 = some (.optional hidX) := rfl
  have hl1 : hidSh.lookup (0 + 1) = some (.ref 0) := rfl
  have hlc : hidSh.lenCheck (0 + 1) = false := rfl
  obtain ⟨e0, s0, o1, o2, o3⟩ := run_hid_opt hc (f + 3) ctx st.regCall
  have o1' : run cfg (f + 5) (.optional hidX) ctx 1 st.regCall = some (⟨.one (.empty 1), [], e0⟩, s0) := o1
  obtain ⟨e1, s1, i1, i2⟩ := inner s0.regCall (by show s0.cache = []; rw [o3]; exact hcache)
  have href : run cfg (f + 5) (.ref 0) ctx 1 s0.regCall = some (⟨resOf L, [0], e1⟩, s1) := by
    rw [run_ref hc.max (f + 4) 0 hidP (by rw [hc.env]; rfl)]
    exact run_mono cfg (f + 3) (f + 4) (by omega) _ _ _ _ _ i1
  have hrp : (Node.empty 1).rpos = 1 := rfl
  have hseq : ∃ b ss' st1, seqParse (run cfg (f + 5)) hidSh (f + 5) 0 [] ctx 1 true {} st = some (b, ss', st1) ∧
      ss'.result = resOf (extAllG hidSh [.empty 1] 98 cfg.file.data L) ∧ ss'.cp = [0] ∧
      st1.calls = st.calls + 2 + c + L.length := by
    rw [seq_step_alts hidSh (run cfg (f + 5)) (f + 4) 0 [] ctx 1 true {} st s0 _ _ hl0 o1' rfl]
    dsimp only [Res.alts]
    rw [seqAlts_single_eq]
    simp only [hrp, Nat.lt_irrefl, ↓reduceIte, decide_false, Bool.not_false, Bool.and_true]
    have hcp : (ssUpd true (ssUpd true {} ⟨.one (.empty 1), [], e0⟩) ⟨resOf L, [0], e1⟩).cp = [0] := by
      simp [ssUpd, cpUnion]
    by_cases hnil : L = []
    · subst hnil
      rw [seq_step_nil hidSh (run cfg (f + 5)) (f + 3) (0 + 1) _ ctx 1 true _ s0 s1 _ _ hl1 href rfl hlc]
      refine ⟨_, _, _, rfl, ?_, hcp, ?_⟩
      · rw [ssUpd_result, ssUpd_result]; rfl
      · rw [i2]; simp [St.regCall, o2]
    · rw [seq_step_alts hidSh (run cfg (f + 5)) (f + 3) (0 + 1) _ ctx 1 true _ s0 s1 _ _ hl1 href (resOf_isNil_false L hnil)]
      obtain ⟨ss', st', t1, t2, t3, t4, _⟩ := tail_alts_res hc.max (hid_off hc) hidSh 1 98 [34, 98, 34] (by omega) rfl rfl rfl rfl
        (by decide) (f + 4) (f + 1) ([] ++ [.empty 1]) ctx 1 true L hL []
        (ssUpd true (ssUpd true {} ⟨.one (.empty 1), [], e0⟩) ⟨resOf L, [0], e1⟩) s1
        (by rw [ssUpd_result, ssUpd_result]; rfl)
      refine ⟨_, _, _, t1, t2, by rw [t3, hcp], ?_⟩
      rw [t4, i2]; simp [St.regCall, o2]
  obtain ⟨b, ss', st1, q1, q2, q3, q4⟩ := hseq
  obtain ⟨e, st', r1, r2, _, _⟩ := run_shape_res hc.max (f + 5) hidS hidSh ctx 1 st hidS_shape rfl b ss' st1 _ q1 q2
  rw [q3] at r1
  exact ⟨e, st', r1, by rw [r2, q4]⟩

theorem run_hidA (hc : IsHid n cfg) (fuel : Nat) (ctx : Ctx) (st : St) :
    run cfg (fuel + 1) hidA ctx 1 st = some (⟨.one nodeA, [], none⟩, st) := by
  have hr : readRune cfg.file 1 97 = some (2, true) := by rw [hc.file]; exact pba_readA
  rw [hidA, runeT, run_rune_ok hc.max fuel 97 _ ctx 1 2 st hr]
  rfl

/-- one activation of Memoize(x? P b | a) at position 1 whose inner activation answers with `L`:
    4 calls (`x? P b`, its elements `x?` and `P`, `a`) plus one call (`b`) per alternative in `L` -/
theorem hid_step (hc : IsHid n cfg) (hn : 1 ≤ n) (f : Nat) (ctx : Ctx) (hctx : ctx.get 0 ≤ n + 1) (L : List Node)
    (hL : ∀ x ∈ L, 1 < x.rpos) (c : Nat)
    (inner : ∀ s : St, s.cache = [] →
      ∃ e s1, run cfg (f + 3) hidP (ctx.inc 0) 1 s = some (⟨resOf L, [0], e⟩, s1) ∧ s1.calls = s.calls + c) :
    ∃ L' : List Node,
      L'.map Node.rpos = ((L.map Node.rpos).filter (fol cfg.file.data 98)).map (· + 1) ++ [2] ∧
      ∀ st : St, st.cache = [] →
        ∃ st', run cfg (f + 8) hidP ctx 1 st = some (⟨resOf L', [0], none⟩, st') ∧
          st'.calls = st.calls + c + 4 + L.length := by
  refine ⟨extAllG hidSh [.empty 1] 98 cfg.file.data L ++ [nodeA], ?_, ?_⟩
  · rw [List.map_append, extAllG_rpos hidSh rfl]
    rfl
  intro st hcache
  rw [hidP, run_memo_eq hc.max (f + 7) 0 hidBody ctx 1 st (by rw [hcache]; rfl)
    (by rw [hc.file, pba_remaining hn]; omega)]
  obtain ⟨e, s2, h1, h2⟩ := run_hidS hc f (ctx.inc 0) L hL c inner (memoEnter cfg 0 1 st).regCall
    (by show (memoEnter cfg 0 1 st).cache = []; rw [(memoEnter_fields _ _ _ _).2, hcache])
  have hA := run_hidA hc (f + 5) (ctx.inc 0) s2.regCall
  obtain ⟨e', s3, r1, r2, _, r4⟩ := run_any2c hc.max (f + 5) hidS hidA (ctx.inc 0) 1 (memoEnter cfg 0 1 st) _ _ s2 _ h1 hA
  have hres : appendNode (resOf (extAllG hidSh [.empty 1] 98 cfg.file.data L)) (.one nodeA) =
      resOf (extAllG hidSh [.empty 1] 98 cfg.file.data L ++ [nodeA]) := appendNode_resOf _ _ nodeA_ne
  have hcp : cpUnion (cpUnion [] [0]) [] = [0] := by simp [cpUnion]
  simp only [hres, hcp] at r1 r4
  have he : e' = none := r4 (resOf_isNil_snoc _ _)
  subst he
  rw [hidBody, r1]
  refine ⟨_, rfl, ?_⟩
  show s3.calls = _
  rw [r2]
  show s2.calls + 1 = _
  rw [h2]
  show (memoEnter cfg 0 1 st).calls + 1 + 2 + c + L.length + 1 = _
  rw [(memoEnter_fields _ _ _ _).1]
  omega

/-- the end positions m+1, …, 2 -/
def dn : Nat → List Nat
  | 0 => []
  | m + 1 => (m + 2) :: dn m

theorem dn_mem : ∀ m p, p ∈ dn m → 2 ≤ p ∧ p ≤ m + 1 := by
  intro m
  induction m with
  | zero => intro p hp; cases hp
  | succ m ih =>
    intro p hp
    rcases List.mem_cons.mp hp with rfl | hp
    · omega
    · have := ih p hp; omega

theorem dn_map_succ : ∀ m, (dn m).map (· + 1) ++ [2] = dn (m + 1) := by
  intro m
  induction m with
  | zero => rfl
  | succ m ih =>
    show (m + 2 + 1) :: ((dn m).map (· + 1) ++ [2]) = _
    rw [ih]; rfl

theorem dn_length : ∀ m, (dn m).length = m := by
  intro m
  induction m with
  | zero => rfl
  | succ m ih => simp [dn, ih]

theorem hid_filter_all (hc : IsHid n cfg) (m : Nat) (hm : m + 1 ≤ n) :
    (dn m).filter (fol cfg.file.data 98) = dn m := by
  apply List.filter_eq_self.mpr
  intro p hp
  have := dn_mem m p hp
  rw [hid_fol hc p this.1]
  simp; omega

theorem hid_next_lt (hc : IsHid n cfg) (m : Nat) (hm : m + 1 ≤ n) :
    ((dn m).filter (fol cfg.file.data 98)).map (· + 1) ++ [2] = dn (m + 1) := by
  rw [hid_filter_all hc m hm, dn_map_succ]

theorem hid_next_top (hc : IsHid n cfg) (hn : 1 ≤ n) :
    ((dn n).filter (fol cfg.file.data 98)).map (· + 1) ++ [2] = dn n := by
  obtain ⟨m, rfl⟩ : ∃ m, n = m + 1 := ⟨n - 1, by omega⟩
  have h1 : fol cfg.file.data 98 (m + 2) = false := by
    rw [hid_fol hc (m + 2) (by omega)]; simp
  show (List.filter (fol cfg.file.data 98) ((m + 2) :: dn m)).map (· + 1) ++ [2] = _
  rw [List.filter_cons, h1]
  simp only [Bool.false_eq_true, ↓reduceIte]
  rw [hid_filter_all hc m (Nat.le_refl _), dn_map_succ]

/-- the calls of the activation `m` levels above the curtailed one -/
def hidLvl : Nat → Nat
  | 0 => 0
  | m + 1 => hidLvl m + 4 + m

theorem rpos_of_map (L : List Node) (m : Nat) (h : L.map Node.rpos = dn m) : ∀ x ∈ L, 1 < x.rpos := by
  intro x hx
  have : x.rpos ∈ dn m := by rw [← h]; exact List.mem_map_of_mem hx
  have := dn_mem m _ this
  omega

/-- **the left spine**: the activation of `P` at position 1 entered with left-recursion count `k = n+2-m`
    returns the `m` shortest prefixes and costs `hidLvl m` calls -/
theorem hid_level (hc : IsHid n cfg) (hn : 1 ≤ n) : ∀ m k, m ≤ n → m + k = n + 2 →
    ∃ L : List Node, L.map Node.rpos = dn m ∧ ∀ st : St, st.cache = [] →
      ∃ st', run cfg (5 * m + 3) hidP [(0, k)] 1 st = some (⟨resOf L, [0], none⟩, st') ∧
        st'.calls = st.calls + hidLvl m := by
  intro m
  induction m with
  | zero =>
    intro k _ hk
    refine ⟨[], rfl, ?_⟩
    intro st hcache
    rw [hidP, run_memo_curtail_eq hc.max 2 0 hidBody [(0, k)] 1 st (by rw [hcache]; rfl)
      (by rw [hc.file, pba_remaining hn, ctx_get0]; omega)]
    exact ⟨_, rfl, (logEv_fields _ _ _).2.2.1⟩
  | succ m ih =>
    intro k hm hk
    obtain ⟨L, hLm, inner⟩ := ih (k + 1) (by omega) (by omega)
    rw [← ctx_inc0] at inner
    obtain ⟨L', hL', step⟩ := hid_step hc hn (5 * m) [(0, k)] (by rw [ctx_get0]; omega) L (rpos_of_map L m hLm) (hidLvl m)
      (fun s hs => by obtain ⟨s1, a, b⟩ := inner s hs; exact ⟨none, s1, a, b⟩)
    rw [hLm, hid_next_lt hc m hm] at hL'
    refine ⟨L', hL', ?_⟩
    intro st hcache
    obtain ⟨st', h1, h2⟩ := step st hcache
    refine ⟨st', ?_, ?_⟩
    · rw [show 5 * (m + 1) + 3 = 5 * m + 8 by omega]; exact h1
    · have : L.length = m := by rw [← List.length_map (f := Node.rpos), hLm, dn_length]
      rw [h2, hidLvl, this]; omega

/-- the two outermost activations (entered with count 1 and 0): the longest alternative ends at the end of the
    input, so its `b` fails; the alternatives returned are the same `n` prefixes -/
theorem hid_level_one (hc : IsHid n cfg) (hn : 1 ≤ n) :
    ∃ L : List Node, L.map Node.rpos = dn n ∧ ∀ st : St, st.cache = [] →
      ∃ st', run cfg (5 * n + 8) hidP [(0, 1)] 1 st = some (⟨resOf L, [0], none⟩, st') ∧
        st'.calls = st.calls + hidLvl n + 4 + n := by
  obtain ⟨L, hLm, inner⟩ := hid_level hc hn n 2 (Nat.le_refl _) rfl
  rw [show [(0, 2)] = Ctx.inc [(0, 1)] 0 from (ctx_inc0 1).symm] at inner
  obtain ⟨L', hL', step⟩ := hid_step hc hn (5 * n) [(0, 1)] (by rw [ctx_get0]; omega) L (rpos_of_map L n hLm) (hidLvl n)
    (fun s hs => by obtain ⟨s1, a, b⟩ := inner s hs; exact ⟨none, s1, a, b⟩)
  rw [hLm, hid_next_top hc hn] at hL'
  refine ⟨L', hL', ?_⟩
  intro st hcache
  obtain ⟨st', h1, h2⟩ := step st hcache
  have : L.length = n := by rw [← List.length_map (f := Node.rpos), hLm, dn_length]
  exact ⟨st', h1, by rw [h2, this]⟩

theorem hid_level_zero (hc : IsHid n cfg) (hn : 1 ≤ n) :
    ∃ L : List Node, L.map Node.rpos = dn n ∧ ∀ st : St, st.cache = [] →
      ∃ st', run cfg (5 * n + 13) hidP [] 1 st = some (⟨resOf L, [0], none⟩, st') ∧
        st'.calls = st.calls + hidLvl n + 2 * (4 + n) := by
  obtain ⟨L, hLm, inner⟩ := hid_level_one hc hn
  rw [show [(0, 1)] = Ctx.inc [] 0 from rfl] at inner
  obtain ⟨L', hL', step⟩ := hid_step hc hn (5 * n + 5) [] (by simp [Ctx.get]) L (rpos_of_map L n hLm) (hidLvl n + 4 + n)
    (fun s hs => by obtain ⟨s1, a, b⟩ := inner s hs; exact ⟨none, s1, a, by rw [b]; omega⟩)
  rw [hLm, hid_next_top hc hn] at hL'
  refine ⟨L', hL', ?_⟩
  intro st hcache
  obtain ⟨st', h1, h2⟩ := step st hcache
  have : L.length = n := by rw [← List.length_map (f := Node.rpos), hLm, dn_length]
  exact ⟨st', h1, by rw [h2, this]; omega⟩

theorem hidLvl_closed : ∀ m, 2 * hidLvl m = m * m + 7 * m := by
  intro m
  induction m with
  | zero => rfl
  | succ m ih =>
    have : (m + 1) * (m + 1) = m * m + 2 * m + 1 := by
      rw [Nat.add_mul, Nat.mul_add]; omega
    rw [hidLvl, this]; omega

/-- the closed form -/
def hidCalls (n : Nat) : Nat := (n * n + 11 * n + 20) / 2

theorem hid_total (n : Nat) : hidLvl n + 2 * (4 + n) + 2 = hidCalls n := by
  have := hidLvl_closed n
  unfold hidCalls
  omega

/-- **the closed form for `P → x? P b | a`**, for every configuration whose grammar table is that of family 4 and
    whose file holds `a b^(n-1)` at base offset 1 (any ghost flag, any file set, any terminal parameters) -/
theorem hid_parse (hc : IsHid n cfg) (hn : 1 ≤ n) :
    ∃ p, parse cfg (5 * n + 17) (G.sentence (.ref 0)) = some p ∧ p.err = none ∧ p.res.isNil = false ∧
      p.st.calls = hidCalls n := by
  have hpos : cfg.file.pos 0 = 1 := by rw [hc.file]; rfl
  obtain ⟨L, hLm, lvl⟩ := hid_level_zero hc hn
  obtain ⟨s1, h1, h2⟩ := lvl ({} : St).regCall rfl
  have href : run cfg (5 * n + 13 + 3) (.ref 0) [] 1 ({} : St).regCall = some (⟨resOf L, [0], none⟩, s1) := by
    rw [run_ref hc.max (5 * n + 13 + 2) 0 hidP (by rw [hc.env]; rfl)]
    exact run_mono cfg (5 * n + 13) (5 * n + 13 + 2) (by omega) _ _ _ _ _ h1
  obtain ⟨m, rfl⟩ : ∃ m, n = m + 1 := ⟨n - 1, by omega⟩
  obtain ⟨h, rest, rfl⟩ : ∃ h rest, L = h :: rest := by
    cases L with
    | nil => cases hLm
    | cons h rest => exact ⟨h, rest, rfl⟩
  have hh : h.rpos = m + 2 := by
    have := congrArg List.head? hLm
    simpa [dn] using this
  have heof : isEOF cfg.file h.rpos = true := by
    rw [hc.file, hh]; simp [isEOF, pbaFile, pbaData, File.len]
  obtain ⟨o, st', r1, r2, r3, r4⟩ := sentence_first hc.max (5 * (m + 1) + 13) (.ref 0) 1 {} _ (resOf (h :: rest)) _ none h rest
    href (resOf_alts _) (by omega) heof
  have := parse_of_run (cfg := cfg) (5 * (m + 1) + 17) (G.sentence (.ref 0)) o st' (by rw [hpos]; exact r1) r2 r3
  refine ⟨_, this, rfl, r2, ?_⟩
  show st'.calls = _
  rw [r4, h2, ← hid_total]
  simp [St.regCall]; omega

def hidCfg (n : Nat) : Cfg := famCfg hiddenEnv (hiddenInput n)

theorem hidCfg_is (n : Nat) : IsHid n (hidCfg n) := ⟨rfl, rfl, rfl⟩
end PV.C17b
