/-
  The exact meaning `Big` (Spec/BigStep.lean) of the `Sentence` wrapper, by inversion:

      Sentence(g) = SeqOf(g, End) with Select(0)

  yields, at `pos`, NOTHING when no alternative of the exact result of `g` ends at the end of the input, and
  otherwise exactly ONE tree — the Sentence node over an alternative of `g` that ends at the end of the input
  (the enumeration stops after a chain that ends with the End node) — and then no error.
-/
import ParsleyVerif.Proofs.BigStepFun
import ParsleyVerif.Proofs.Sentence
namespace PV.S04
open PV PV.Text PV.Big

/-- the tree `Sentence` builds over an alternative `n` of its operand -/
def sentNode (n : Node) : Node := .nt seqTok [n, .eof n.rpos] n.pos n.rpos (.select 0)

theorem sentNode_rpos (n : Node) : (sentNode n).rpos = n.rpos := rfl
theorem sentNode_pos (n : Node) : (sentNode n).pos = n.pos := rfl

theorem handleResult_sent (g : G) (p : Nat) (n : Node) :
    handleResult (sentenceShape g) p [n, .eof n.rpos] = sentNode n := by
  simp [handleResult, sentenceShape, sentNode, Node.rpos]

/-- the three rules of `BigSeq`, as one inversion with all indexes free -/
theorem bigSeq_inv {cfg : Cfg} {sh : SeqShape} {depth : Nat} {nodes : List Node} {pos : Nat} {em : List Node}
    {stop e : Bool} (h : BigSeq cfg sh depth nodes pos em stop e) :
    (sh.lookup depth = none ∧ em = (if sh.lenCheck depth then [handleResult sh pos nodes] else []) ∧
        stop = (sh.lenCheck depth && lastIsEOF nodes)) ∨
    (∃ g e', sh.lookup depth = some g ∧ Big cfg g pos .nil e' ∧
        em = (if sh.lenCheck depth then [handleResult sh pos nodes] else []) ∧
        stop = (sh.lenCheck depth && lastIsEOF nodes)) ∨
    (∃ g R e1 e2, sh.lookup depth = some g ∧ Big cfg g pos R e1 ∧ R.isNil = false ∧
        BigAlts cfg sh depth nodes R.alts em stop e2) := by
  cases h with
  | last hl => exact .inl ⟨hl, rfl, rfl⟩
  | fail hl hb => exact .inr (.inl ⟨_, _, hl, hb, rfl, rfl⟩)
  | step hl hb hn ha => exact .inr (.inr ⟨_, _, _, _, hl, hb, hn, ha⟩)

theorem bigAlts_inv {cfg : Cfg} {sh : SeqShape} {depth : Nat} {nodes alts : List Node} {em : List Node}
    {stop e : Bool} (h : BigAlts cfg sh depth nodes alts em stop e) :
    (alts = [] ∧ em = [] ∧ stop = false) ∨
    (∃ n rest e', alts = n :: rest ∧ BigSeq cfg sh (depth + 1) (nodes ++ [n]) n.rpos em true e' ∧ stop = true) ∨
    (∃ n rest em1 e1 em2 e2, alts = n :: rest ∧ BigSeq cfg sh (depth + 1) (nodes ++ [n]) n.rpos em1 false e1 ∧
        BigAlts cfg sh depth nodes rest em2 stop e2 ∧ em = em1 ++ em2) := by
  cases h with
  | nil => exact .inl ⟨rfl, rfl, rfl⟩
  | stop h1 => exact .inr (.inl ⟨_, _, _, rfl, h1, rfl⟩)
  | next h1 ht => exact .inr (.inr ⟨_, _, _, _, _, _, rfl, h1, ht, rfl⟩)

theorem big_eof_inv {cfg : Cfg} {pos : Nat} {R : Res} {e : Bool} (h : Big cfg .eof pos R e) :
    (isEOF cfg.file pos = true ∧ R = .one (.eof pos)) ∨ (isEOF cfg.file pos = false ∧ R = .nil) := by
  cases h with
  | eofOk he => exact .inl ⟨he, rfl⟩
  | eofFail he => exact .inr ⟨he, rfl⟩
  | seqfam hs _ _ _ => simp [G.shape] at hs

/-- after one alternative `n` of the operand: `End` matches at `p` and the Sentence tree is emitted (and the
    enumeration stops), or it does not and nothing is emitted -/
theorem sent_alt {cfg : Cfg} {g : G} {n : Node} {p : Nat} {em : List Node} {stop e : Bool}
    (h : BigSeq cfg (sentenceShape g) 1 [n] p em stop e) :
    (isEOF cfg.file p = true ∧ em = [handleResult (sentenceShape g) p [n, .eof p]] ∧ stop = true) ∨
    (isEOF cfg.file p = false ∧ em = [] ∧ stop = false) := by
  rcases bigSeq_inv h with ⟨hl, _⟩ | ⟨g', e', hl, hb, hem, hst⟩ | ⟨g', R, e1, e2, hl, hb, hn, ha⟩
  · simp [sentenceShape] at hl
  · have hg : g' = .eof := by simpa [sentenceShape] using hl.symm
    subst hg
    rcases big_eof_inv hb with ⟨_, hR⟩ | ⟨he, _⟩
    · cases hR
    · refine .inr ⟨he, ?_, ?_⟩
      · rw [hem]; simp [sentenceShape]
      · rw [hst]; simp [sentenceShape]
  · have hg : g' = .eof := by simpa [sentenceShape] using hl.symm
    subst hg
    rcases big_eof_inv hb with ⟨he, hR⟩ | ⟨_, hR⟩
    · subst hR
      simp only [Res.alts] at ha
      rcases bigAlts_inv ha with ⟨hc, _⟩ | ⟨m, rest, e', hal, hs2, hstop⟩ | ⟨m, rest, em1, e1', em2, e2', hal, hs2, _, _⟩
      · cases hc
      · injection hal with hm _
        subst hm
        rcases bigSeq_inv hs2 with ⟨_, hem, _⟩ | ⟨g2, _, hl2, _⟩ | ⟨g2, _, _, _, hl2, _⟩
        · refine .inl ⟨he, ?_, hstop⟩
          rw [hem]
          simp [sentenceShape, Node.rpos]
        · simp [sentenceShape] at hl2
        · simp [sentenceShape] at hl2
      · injection hal with hm _
        subst hm
        rcases bigSeq_inv hs2 with ⟨_, _, hst⟩ | ⟨g2, _, hl2, _⟩ | ⟨g2, _, _, _, hl2, _⟩
        · simp [sentenceShape, lastIsEOF, Node.token, eofTok] at hst
        · simp [sentenceShape] at hl2
        · simp [sentenceShape] at hl2
    · subst hR
      simp [Res.isNil] at hn

/-- the alternatives of the operand, in order: nothing is emitted while `End` does not match after them; the first
    one after which it matches gives the one emitted tree -/
theorem sent_alts {cfg : Cfg} {g : G} : ∀ (alts em : List Node) (stop e : Bool),
    BigAlts cfg (sentenceShape g) 0 [] alts em stop e →
    ((∀ n ∈ alts, isEOF cfg.file n.rpos = false) ∧ em = []) ∨
    (∃ n ∈ alts, isEOF cfg.file n.rpos = true ∧ em = [sentNode n]) := by
  intro alts
  induction alts with
  | nil =>
    intro em stop e h
    rcases bigAlts_inv h with ⟨_, hem, _⟩ | ⟨_, _, _, hal, _⟩ | ⟨_, _, _, _, _, _, hal, _⟩
    · exact .inl ⟨(by intro n hn; cases hn), hem⟩
    · cases hal
    · cases hal
  | cons a rest ih =>
    intro em stop e h
    rcases bigAlts_inv h with ⟨hc, _⟩ | ⟨m, rest', e', hal, hs, _⟩ | ⟨m, rest', em1, e1, em2, e2, hal, hs, ht, hem⟩
    · cases hc
    · injection hal with hm hr
      subst hm hr
      rcases sent_alt (g := g) (n := a) (by simpa using hs) with ⟨he, hem, _⟩ | ⟨_, _, hst⟩
      · exact .inr ⟨a, List.mem_cons_self .., he, by rw [hem, handleResult_sent]⟩
      · cases hst
    · injection hal with hm hr
      subst hm hr
      rcases sent_alt (g := g) (n := a) (by simpa using hs) with ⟨_, _, hst⟩ | ⟨he, hem1, _⟩
      · cases hst
      · subst hem1
        rcases ih em2 stop e2 ht with ⟨hall, hem2⟩ | ⟨n, hn, hne, hem2⟩
        · refine .inl ⟨?_, by rw [hem, hem2]; rfl⟩
          intro n hn
          cases hn with
          | head => exact he
          | tail _ hm => exact hall n hm
        · exact .inr ⟨n, List.mem_cons_of_mem _ hn, hne, by rw [hem, hem2]; rfl⟩

/-- **the exact meaning of `Sentence(g)`** in terms of the exact meaning of `g` -/
theorem big_sentence_inv {cfg : Cfg} {g : G} {pos : Nat} {R : Res} {e : Bool} (h : Big cfg (G.sentence g) pos R e) :
    ∃ Rg eg, Big cfg g pos Rg eg ∧
      (((∀ n ∈ Rg.alts, isEOF cfg.file n.rpos = false) ∧ R = .nil) ∨
       (∃ n ∈ Rg.alts, isEOF cfg.file n.rpos = true ∧ R = .one (sentNode n) ∧ e = false)) := by
  unfold G.sentence at h
  cases h with
  | seqfam hs hseq hR he =>
    rename_i sh em stop e0
    have hsh : sh = sentenceShape g := by
      have := sentence_shape g
      unfold G.sentence at this
      rw [this] at hs
      injection hs with hs
      exact hs.symm
    subst hsh
    rcases bigSeq_inv hseq with ⟨hl, _⟩ | ⟨g', e', hl, hb, hem, _⟩ | ⟨g', Rg, e1, e2, hl, hb, hn, ha⟩
    · simp [sentenceShape] at hl
    · have hg : g' = g := by simpa [sentenceShape] using hl.symm
      subst hg
      refine ⟨.nil, e', hb, .inl ⟨(by intro n hn; cases hn), ?_⟩⟩
      have : em = [] := by rw [hem]; simp [sentenceShape]
      rw [hR, this]; rfl
    · have hg : g' = g := by simpa [sentenceShape] using hl.symm
      subst hg
      refine ⟨Rg, e1, hb, ?_⟩
      rcases sent_alts Rg.alts em stop e2 ha with ⟨hall, hem⟩ | ⟨n, hn, hne, hem⟩
      · exact .inl ⟨hall, by rw [hR, hem]; rfl⟩
      · have hRR : R = .one (sentNode n) := by rw [hR, hem]; simp [foldEmit, appendNode]
        exact .inr ⟨n, hn, hne, hRR, by rw [he, hRR]; rfl⟩

end PV.S04
