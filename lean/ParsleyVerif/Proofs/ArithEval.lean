/-
  C05, evaluation of expression trees: totality (value, positioned division by zero, or out of fuel — never
  one of the interpreter's panics) and the homomorphism into the reference evaluator.
-/
import ParsleyVerif.Spec.Arith
import ParsleyVerif.Spec.Postorder
namespace PV
open PV.Text

/-! ### custom interpreter 0 on `[l, operator leaf, r]` -/

theorem arithCustom_left_err (ev : Node → EvalOut) (l op r : Node) (pos q : Nat) (m : Bytes)
    (h : ev l = .err q m) : arithCustom 0 [l, op, r] pos ev = .err q m := by
  simp [arithCustom, h]

theorem arithCustom_left_panic (ev : Node → EvalOut) (l op r : Node) (pos : Nat) (s : String)
    (h : ev l = .panic s) : arithCustom 0 [l, op, r] pos ev = .panic s := by
  simp [arithCustom, h]

theorem arithCustom_right_err (ev : Node → EvalOut) (l op r : Node) (pos q : Nat) (m : Bytes) (a : Int)
    (hl : ev l = .ok (.int a)) (h : ev r = .err q m) : arithCustom 0 [l, op, r] pos ev = .err q m := by
  simp [arithCustom, hl, h]

theorem arithCustom_right_panic (ev : Node → EvalOut) (l op r : Node) (pos : Nat) (s : String) (a : Int)
    (hl : ev l = .ok (.int a)) (h : ev r = .panic s) : arithCustom 0 [l, op, r] pos ev = .panic s := by
  simp [arithCustom, hl, h]

theorem arithCustom_apply (ev : Node → EvalOut) (l r : Node) (pos : Nat) (a b : Int) (tok : Bytes) (c p q : Nat) (o : Op)
    (hl : ev l = .ok (.int a)) (hr : ev r = .ok (.int b)) (hc : Op.ofRune c = some o) :
    arithCustom 0 [l, .term tok (.rune c) p q, r] pos ev = embed (o.apply p a b) := by
  unfold Op.ofRune at hc
  split at hc <;> cases hc
  · simp [arithCustom, hl, hr, Op.apply, embed]
  · simp [arithCustom, hl, hr, Op.apply, embed]
  · simp [arithCustom, hl, hr, Op.apply, embed]
  · simp only [arithCustom, hl, hr, Op.apply]
    by_cases hb : b = 0 <;> simp [hb, embed, divZeroMsg]

/-! ### depth -/

theorem depth_nt3 (tk : Bytes) (a b c : Node) (p q : Nat) (i : Interp) :
    (Node.nt tk [a, b, c] p q i).depth = max a.depth (max b.depth c.depth) + 1 := by
  simp [Node.depth, depthAll]

/-! ### the expression of a tree -/

theorem exprOf_int (tok : Bytes) (v : Int) (p r : Nat) : exprOf (.term tok (.int v) p r) = some (.lit v) := by
  simp [exprOf]

theorem exprOf_paren (tk : Bytes) (lp e rp : Node) (p q : Nat) :
    exprOf (.nt tk [lp, e, rp] p q (.select 1)) = (exprOf e).map .paren := by
  simp only [exprOf, exprOfList]
  cases exprOf e <;> simp

theorem exprOf_bin (tk tok : Bytes) (l r : Node) (c p' q' p q : Nat) (o : Op) (hc : Op.ofRune c = some o) :
    exprOf (.nt tk [l, .term tok (.rune c) p' q', r] p q (.custom 0)) =
      match exprOf l, exprOf r with
      | some el, some er => some (.bin o el p' er)
      | _, _ => none := by
  simp only [exprOf, exprOfList]
  cases exprOf l <;> cases exprOf r <;> simp [hc]

/-- every expression tree denotes an expression -/
theorem arith_exprOf_some {f : File} {n : Nat} {x : Node} (h : IsTree f n x) : ∃ e, exprOf x = some e := by
  induction h with
  | int => exact ⟨_, exprOf_int ..⟩
  | paren _ _ _ ih =>
    obtain ⟨e, he⟩ := ih
    exact ⟨.paren e, by rw [exprOf_paren, he]; rfl⟩
  | bin _ hop hc _ _ ihl ihr =>
    obtain ⟨el, hel⟩ := ihl
    obtain ⟨er, her⟩ := ihr
    obtain ⟨p', q', rfl, _⟩ := hop
    exact ⟨_, by rw [exprOf_bin _ _ _ _ _ _ _ _ _ _ hc, hel, her]⟩
  | up _ ih => exact ih

/-- **homomorphism**, for every fuel: an expression tree evaluates to what the reference evaluator gives for the
    expression it denotes — or the evaluator's fuel runs out -/
theorem arith_value_any {f : File} {n : Nat} {x : Node} (h : IsTree f n x) :
    ∀ e, exprOf x = some e → ∀ fuel,
      evalNode arithCustom fuel x = embed (refEval e) ∨ evalNode arithCustom fuel x = .panic "out of fuel" := by
  induction h with
  | int =>
    intro e he fuel
    rw [exprOf_int] at he
    cases he
    cases fuel with
    | zero => exact .inr rfl
    | succ k => exact .inl (by simp [evalNode, Val.toV, refEval, embed])
  | @paren tk lp e' rp p q _ _ _ ih =>
    intro e he fuel
    rw [exprOf_paren] at he
    cases he' : exprOf e' with
    | none => simp [he'] at he
    | some e1 =>
      simp only [he', Option.map_some, Option.some.injEq] at he
      subst he
      cases fuel with
      | zero => exact .inr rfl
      | succ k =>
        have := ih e1 he' k
        simpa [evalNode, refEval] using this
  | @bin n tk l c o op r p q _ hop hc _ _ ihl ihr =>
    intro e he fuel
    obtain ⟨p', q', rfl, _⟩ := hop
    rw [exprOf_bin _ _ _ _ _ _ _ _ _ _ hc] at he
    cases hel : exprOf l with
    | none => simp [hel] at he
    | some el =>
      cases her : exprOf r with
      | none => simp [hel, her] at he
      | some er =>
        simp only [hel, her, Option.some.injEq] at he
        subst he
        cases fuel with
        | zero => exact .inr rfl
        | succ k =>
          simp only [evalNode, refEval]
          rcases ihl el hel k with h1 | h1
          · cases hl : refEval el with
            | error q1 =>
              rw [hl] at h1
              exact .inl (arithCustom_left_err _ _ _ _ _ _ _ h1)
            | ok a =>
              rw [hl] at h1
              rcases ihr er her k with h2 | h2
              · cases hr : refEval er with
                | error q2 =>
                  rw [hr] at h2
                  exact .inl (arithCustom_right_err _ _ _ _ _ _ _ a h1 h2)
                | ok b =>
                  rw [hr] at h2
                  exact .inl (arithCustom_apply _ _ _ _ a b _ _ _ _ _ h1 h2 hc)
              · exact .inr (arithCustom_right_panic _ _ _ _ _ _ a h1 h2)
          · exact .inr (arithCustom_left_panic _ _ _ _ _ _ h1)
  | up _ ih => exact ih

/-! ### totality -/

theorem DivLeafAt.child {f : File} {tk : Bytes} {cs : List Node} {p q : Nat} {i : Interp} {c : Node} {d : Nat}
    (hm : c ∈ cs) (h : DivLeafAt f c d) : DivLeafAt f (.nt tk cs p q i) d := by
  obtain ⟨r, hs, ha⟩ := h
  exact ⟨r, .child hm hs, ha⟩

/-- the possible outcomes of evaluating an expression tree, for every fuel -/
def ArithOutcome (f : File) (x : Node) (fuel : Nat) (o : EvalOut) : Prop :=
  (∃ v, o = .ok (.int v)) ∨ (∃ p, o = .err p divZeroMsg ∧ DivLeafAt f x p) ∨ (o = .panic "out of fuel" ∧ fuel ≤ x.depth)

theorem arith_eval_total {f : File} {n : Nat} {x : Node} (h : IsTree f n x) :
    ∀ fuel, ArithOutcome f x fuel (evalNode arithCustom fuel x) := by
  induction h with
  | @int tok v p r =>
    intro fuel
    cases fuel with
    | zero => exact .inr (.inr ⟨rfl, Nat.zero_le _⟩)
    | succ k => exact .inl ⟨v, by simp [evalNode, Val.toV]⟩
  | @paren tk lp e' rp p q _ _ _ ih =>
    intro fuel
    cases fuel with
    | zero => exact .inr (.inr ⟨rfl, Nat.zero_le _⟩)
    | succ k =>
      have he : evalNode arithCustom (k + 1) (.nt tk [lp, e', rp] p q (.select 1)) = evalNode arithCustom k e' := by
        simp [evalNode]
      rw [he]
      rcases ih k with ⟨v, hv⟩ | ⟨d, hd, hl⟩ | ⟨ho, hk⟩
      · exact .inl ⟨v, hv⟩
      · exact .inr (.inl ⟨d, hd, hl.child (by simp)⟩)
      · refine .inr (.inr ⟨ho, ?_⟩)
        rw [depth_nt3]; omega
  | @bin n tk l c o op r p q _ hop hc _ _ ihl ihr =>
    intro fuel
    obtain ⟨p', q', rfl, hat⟩ := hop
    cases fuel with
    | zero => exact .inr (.inr ⟨rfl, Nat.zero_le _⟩)
    | succ k =>
      simp only [evalNode]
      rcases ihl k with ⟨a, ha⟩ | ⟨d, hd, hl⟩ | ⟨ho, hk⟩
      · rcases ihr k with ⟨b, hb⟩ | ⟨d, hd, hl⟩ | ⟨ho, hk⟩
        · rw [arithCustom_apply _ _ _ _ a b _ _ _ _ _ ha hb hc]
          cases hap : o.apply p' a b with
          | ok v => exact .inl ⟨v, rfl⟩
          | error d =>
            refine .inr (.inl ⟨d, rfl, ?_⟩)
            -- only `/` fails, and then at its own position
            have : o = .div ∧ d = p' := by
              cases o <;> simp only [Op.apply] at hap <;> try cases hap
              split at hap <;> cases hap
              exact ⟨rfl, rfl⟩
            obtain ⟨rfl, rfl⟩ := this
            have hc47 : c = 47 := by
              unfold Op.ofRune at hc
              split at hc <;> first | rfl | cases hc
            subst hc47
            exact ⟨q', .child (by simp) .refl, hat⟩
        · rw [arithCustom_right_err _ _ _ _ _ _ _ a ha hd]
          exact .inr (.inl ⟨d, rfl, hl.child (by simp)⟩)
        · rw [arithCustom_right_panic _ _ _ _ _ _ a ha ho]
          refine .inr (.inr ⟨rfl, ?_⟩)
          rw [depth_nt3]; omega
      · rw [arithCustom_left_err _ _ _ _ _ _ _ hd]
        exact .inr (.inl ⟨d, rfl, hl.child (by simp)⟩)
      · rw [arithCustom_left_panic _ _ _ _ _ _ ho]
        refine .inr (.inr ⟨rfl, ?_⟩)
        rw [depth_nt3]; omega
  | up _ ih => exact ih

/-- with enough fuel the value is the reference value -/
theorem arith_value {f : File} {n : Nat} {x : Node} (h : IsTree f n x) (e : Expr) (he : exprOf x = some e)
    (fuel : Nat) (hd : x.depth < fuel) : evalNode arithCustom fuel x = embed (refEval e) := by
  rcases arith_value_any h e he fuel with h1 | h1
  · exact h1
  · rcases arith_eval_total h fuel with ⟨v, hv⟩ | ⟨p, hp, _⟩ | ⟨_, hk⟩
    · rw [h1] at hv; cases hv
    · rw [h1] at hp; cases hp
    · omega

end PV
