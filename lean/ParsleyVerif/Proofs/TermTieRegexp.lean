/-
  The tie of the TERMINAL PARSERS, part 4: Regexp (a user expression; the whole match or a capturing group, the
  documented panic when the group does not exist), and all terminals together (`termClosure`, `tie_terminal`).
-/
import ParsleyVerif.Proofs.TermTieStr
namespace PV.TermTie
open PV.CoreTie PV.Text PV.TermPrelude PV.FactsTerm

variable {σ : Type}

theorem onth_some {α : Type} (ms : List α) (gi : Int) (v : α) (h0 : 0 < gi) (hv : ms[gi.toNat]? = some v) (s : σ) :
    (Go.onth (some ms) gi : TM σ α) s = .ok v s := by
  have h1 : 0 ≤ gi := by omega
  simp [Go.onth, CorePrelude.Go.nth, h1, hv, pureT]

/-- terminal.Regexp(schema, token, name, regexp, groupIndex) for the model's expression `id` -/
theorem tie_Regexp (T : TWorld) (cfg : Cfg) (schema : CorePrelude.Opaque) (id : Nat) (tok name rx : Bytes) (gi : Int)
    (hasGroup : Bool) (hR : RegexpRel T cfg id rx gi) (hg : hasGroup = decide (gi ≠ 0)) (m : IntMap) (pos : Nat) (s : σ) :
    CorrT (Regexp_parse T schema tok rx gi name m (pos : Int) s) s
      ((Terminal.regexp id tok name hasGroup).parse cfg.params cfg.file pos) := by
  unfold Regexp_parse Terminal.parse
  have hw := hR.whole
  unfold userEngine at hw
  by_cases h0 : gi = 0
  · have hf : hasGroup = false := by rw [hg]; simp [h0]
    subst hf
    subst h0
    rcases h : readRegexp (fun rest => Option.map (fun x => x.1) (cfg.params.regexp id rest)) cfg.file pos
      with _ | ⟨rp, _ | mm⟩
    · term_simp [hw, h]
    · term_simp [hw, h]; term_done
    · term_simp [hw, h]; term_done
  · have ht : hasGroup = true := by rw [hg]; simp [h0]
    subst ht
    obtain ⟨hpos, hsub⟩ := hR.group h0
    have h0' : ¬ (0 = gi) := fun e => h0 e.symm
    have hs := hsub pos
    unfold userEngine at hs
    rcases h : readRegexp (fun rest => Option.map (fun x => x.1) (cfg.params.regexp id rest)) cfg.file pos
      with _ | ⟨rp, _ | mm⟩
    · rw [h] at hs
      simp only at hs
      term_simp [h0, h0', hs, h]
    · rw [h] at hs
      simp only at hs
      term_simp [h0, h0', hs, h]; term_done
    · rw [h] at hs
      simp only at hs
      obtain ⟨ms, hms, hgr⟩ := hs
      rcases hp : cfg.params.regexp id (List.drop (pos - cfg.file.offset) cfg.file.data) with _ | ⟨ml, _ | g⟩
      · rw [hp] at hgr
        simp only at hgr
        term_simp [h0, h0', hms, h, hp, Go.olen, ge_iff_le, hgr]
      · rw [hp] at hgr
        simp only at hgr
        term_simp [h0, h0', hms, h, hp, Go.olen, ge_iff_le, hgr]
      · rw [hp] at hgr
        simp only at hgr
        obtain ⟨v, hv, hvg⟩ := hgr
        have hlt : gi.toNat < ms.length := by
          rcases Nat.lt_or_ge gi.toNat ms.length with hlt | hge
          · exact hlt
          · rw [List.getElem?_eq_none hge] at hv; cases hv
        have hd : ¬ ((ms.length : Int) ≤ gi) := by omega
        have ho := onth_some (σ := σ) ms gi v hpos hv
        term_simp [h0, h0', hms, h, hp, Go.olen, ge_iff_le, hd, ho]
        subst hvg
        cases v <;> simp [Go.stringOfBytes]

/-! ### all terminals -/

/-- how the Go program writes the model's user expressions: the text of the expression `id`, and the group index it passes
    to terminal.Regexp for the model's `hasGroup` (the model's engine parameter `Params.regexp id` reports the value of
    that group) -/
structure RxNames where
  text : Nat → Bytes
  group : Nat → Bool → Int

/-- **the translated closure of a terminal**: the generated function of its constructor, applied to the construction
    parameters the model's `Terminal` records (the captured `notFoundErr` is `parsley.NotFoundError` of the name the
    constructor computes; Word's token is strings.ToUpper(word), its value an opaque payload; the schema is arbitrary) -/
def termClosure (T : TWorld) (X : RxNames) (schema : CorePrelude.Opaque) :
    Terminal → IntMap → Int → TM σ (CNode × IntSet × CErr)
  | .rune ch name => Rune_parse T (ch : Int) name
  | .op op name => Op_parse T op name
  | .word w valId name => Word_parse T schema w (eVal (.opaque valId)) name (upperAscii w)
  | .bool ts fs => Bool_parse T schema ts fs (CorePrelude.Go.str "boolean")
  | .nil w => Nil_parse T schema w w
  | .integer => Integer_parse T schema (CorePrelude.Go.str "integer value")
  | .float => Float_parse T schema (CorePrelude.Go.str "float value")
  | .string bq => String_parse T schema bq (CorePrelude.Go.str "string literal")
  | .char => Char_parse T schema (CorePrelude.Go.str "char literal")
  | .duration => TimeDuration_parse T schema (CorePrelude.Go.str "time duration")
  | .regexp id tok name hasGroup => Regexp_parse T schema tok (X.text id) (X.group id hasGroup) name

/-- what is assumed of the regexp engine for a Regexp terminal (nothing for the others) -/
def RegexpOK (T : TWorld) (cfg : Cfg) (X : RxNames) : Terminal → Prop
  | .regexp id _ _ hasGroup =>
    RegexpRel T cfg id (X.text id) (X.group id hasGroup) ∧ hasGroup = decide (X.group id hasGroup ≠ 0)
  | _ => True

/-- **every terminal**: the translated closure computes `Terminal.parse` -/
theorem tie_terminal (T : TWorld) (cfg : Cfg) (hT : TWorldRel T cfg) (X : RxNames) (schema : CorePrelude.Opaque)
    (t : Terminal) (hX : RegexpOK T cfg X t) (m : IntMap) (pos : Nat) (s : σ) :
    CorrT (termClosure T X schema t m (pos : Int) s) s (t.parse cfg.params cfg.file pos) := by
  cases t with
  | rune ch name => exact tie_Rune T cfg hT ch name m pos s
  | op op name => exact tie_Op T cfg hT op name m pos s
  | word w valId name => exact tie_Word T cfg hT schema w valId name m pos s
  | bool ts fs => exact tie_Bool T cfg hT schema ts fs m pos s
  | nil w => exact tie_Nil T cfg hT schema w m pos s
  | integer => exact tie_Integer T cfg hT schema m pos s
  | float => exact tie_Float T cfg hT schema m pos s
  | string bq => exact tie_String T cfg hT schema bq m pos s
  | char => exact tie_Char T cfg hT schema m pos s
  | duration => exact tie_TimeDuration T cfg hT schema m pos s
  | regexp id tok name hasGroup => exact tie_Regexp T cfg schema id tok name _ _ hasGroup hX.1 hX.2 m pos s

end PV.TermTie
