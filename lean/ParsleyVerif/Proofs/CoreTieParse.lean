/-
  Stage 3 of the core tie: parsley.Parse — translated vs. the model's `parse` (transformation and static check off: the
  model's `parse` is Parse without those two passes, which are C13's subject).
-/
import ParsleyVerif.Proofs.CoreTieWrap
import ParsleyVerif.Proofs.CoreTieData
namespace PV.CoreTie
open PV.FactsCore

/-- the `error` Parse returns: nil, or `fmt.Errorf("failed to parse the input: %w", fs.ErrorWithPosition(e))`, kept symbolic -/
def eParseErr : Option PV.Err → CCause
  | none => .nil
  | some e => CorePrelude.Go.errorf (CorePrelude.Go.str "failed to parse the input: %w") (.positioned e.pos (eKind e.kind))

/-- **parsley.Parse** -/
theorem tie_Parse (W : World Context) (cfg : Cfg) (hw : WorldRel W cfg) (fuel : Nat) (p : Parser) (g : G)
    (hp : Agrees W cfg fuel p g) (s : Context) (st : St) (hs : StRel s st) :
    match parse cfg fuel g st with
    | none => Parse W p s = .nofuel
    | some po => ∃ s', Parse W p s = .ok (eRes po.res, eParseErr po.err) s' ∧ StRel s' po.st := by
  have h := hp _ _ (cfg.file.pos 0) s st CtxRel.nil hs
  have hmsg : CorePrelude.NewErrorf ((cfg.file.pos 0 : Nat) : Int) (CorePrelude.Go.str "no match was found") =
      eErr (some ⟨cfg.file.pos 0, .other noMatchMsg⟩) := rfl
  unfold parse
  dsimp only
  cases hr : run cfg fuel g [] (cfg.file.pos 0) st with
  | none =>
    rw [hr] at h
    simp [Parse, Context_Reader, hw.pos0, corr_none h]
  | some r =>
    obtain ⟨o, st1⟩ := r
    rw [hr] at h
    obtain ⟨s1, e1, r1⟩ := corr_some h
    obtain ⟨res, cp, err⟩ := o
    have hE := tie_Error W s1 st1 r1
    have hT : Context_TransformationEnabled W s1 = .ok false s1 := by simp [Context_TransformationEnabled, r1.noTransform]
    have hS : Context_StaticCheckEnabled W s1 = .ok false s1 := by simp [Context_StaticCheckEnabled, r1.noStaticCheck]
    dsimp only
    generalize hX : Parse W p s = X
    simp only [Parse, bind_apply, Context_Reader, read_apply, pure_apply, hw.pos0, e1, eOut, hT, hS] at hX
    subst hX
    cases hn : res.isNil <;> cases err with
    | none =>
      cases hce : st1.ctxErr with
      | none =>
        refine Exists.intro s1 ⟨?_, r1⟩
        core_simp [hn, hE, hce, hT, hS, hmsg, eParseErr, CorePrelude.ErrorWithPosition, PV.ErrKind.isWs]
      | some ce =>
        refine Exists.intro s1 ⟨?_, r1⟩
        cases hk : ce.kind.isWs <;>
          core_simp [hn, hE, hce, hT, hS, hmsg, eParseErr, CorePrelude.ErrorWithPosition, hk]
    | some e =>
      refine Exists.intro s1 ⟨?_, r1⟩
      cases hk : e.kind.isWs
      · cases hce : st1.ctxErr with
        | none => core_simp [hn, hE, hce, hT, hS, eParseErr, CorePrelude.ErrorWithPosition, hk]
        | some ce =>
          by_cases hgt : ce.pos > e.pos
          · core_simp [hn, hE, hce, hT, hS, eParseErr, CorePrelude.ErrorWithPosition, hk, hgt]
          · core_simp [hn, hE, hce, hT, hS, eParseErr, CorePrelude.ErrorWithPosition, hk, hgt]
      · core_simp [hn, hE, hT, hS, eParseErr, CorePrelude.ErrorWithPosition, hk]

end PV.CoreTie
