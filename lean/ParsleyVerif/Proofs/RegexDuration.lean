/-
  `[-+]?(?:[0-9]+(?:\\.[0-9]+)?(?:ns|us|µs|μs|ms|s|m|h))+`: the core term; the unit alternatives against `unitLen`;
  one item against `durItemLen` (only the longest run of digits, and only the whole fraction, can be followed by
  a unit); the greedy star of items against `durItems`.
-/
import ParsleyVerif.Proofs.RegexFloat
namespace PV
open PV.Text
open Rx
namespace Rx

def unitRe : Re :=
  .alt (Re.lit [110, 115]) (.alt (Re.lit [117, 115]) (.alt (Re.lit [0xC2, 0xB5, 115]) (.alt (Re.lit [0xCE, 0xBC, 115])
  (.alt (Re.lit [109, 115]) (.alt (Re.lit [115]) (.alt (Re.lit [109]) (Re.lit [104])))))))

theorem unitSx_re : unitSx.re = unitRe := by
  have h1 : litBytes ['n', 's'] = [110, 115] := by decide
  have h2 : litBytes ['u', 's'] = [117, 115] := by decide
  have h3 : litBytes ['µ', 's'] = [0xC2, 0xB5, 115] := by decide
  have h4 : litBytes ['μ', 's'] = [0xCE, 0xBC, 115] := by decide
  have h5 : litBytes ['m', 's'] = [109, 115] := by decide
  have h6 : litBytes ['s'] = [115] := by decide
  have h7 : litBytes ['m'] = [109] := by decide
  have h8 : litBytes ['h'] = [104] := by decide
  simp only [unitSx, Sx.re, h1, h2, h3, h4, h5, h6, h7, h8, unitRe]

theorem unitRe_run (f : Nat) (l : Bytes) :
    unitRe.run f l = (Re.seq unitRe .eps).run f l := by simp [run_seq]

theorem head?_unit (f : Nat) (l : Bytes) :
    (unitRe.run f l).head? = if 0 < unitLen l then some (unitLen l) else none := by
  rw [unitRe_run]
  unfold unitRe
  simp only [run_seq_alt, run_seq_lit_cons]
  unfold unitLen
  split
  · simp
  · simp
  · simp
  · simp
  · simp
  · simp
  · rename_i t h
    cases t with
    | nil => simp
    | cons b t' =>
      have : (b == 115) = false := by
        cases hb : b == 115 with
        | false => rfl
        | true => exact absurd (by rw [eq_of_beq hb]) (h t')
      simp [this]
  · simp
  · rename_i h1 h2 h3 h4 h5 h6 h7 h8
    rcases l with _ | ⟨a, _ | ⟨b, _ | ⟨c, t⟩⟩⟩
    · simp
    · simp_all
    · simp_all
      exact ⟨fun x y => h1 [] x y rfl, fun x y => h2 [] x y rfl⟩
    · simp_all
      exact ⟨fun x y z => h3 t x y z rfl, fun x y z => h4 t x y z rfl⟩


theorem unitLen_nonunit (c : Nat) (t : Bytes) (h : isDigit c = true ∨ c = 46) : unitLen (c :: t) = 0 := by
  have hc : c ≠ 110 ∧ c ≠ 117 ∧ c ≠ 0xC2 ∧ c ≠ 0xCE ∧ c ≠ 109 ∧ c ≠ 115 ∧ c ≠ 104 := by
    unfold isDigit at h; simp at h; omega
  unfold unitLen
  split <;> first | rfl | (rename_i heq; injection heq with h1 h2; omega)

theorem unit_nonunit (f c : Nat) (t : Bytes) (h : isDigit c = true ∨ c = 46) : unitRe.run f (c :: t) = [] := by
  have := head?_unit f (c :: t)
  rw [unitLen_nonunit c t h] at this
  exact List.head?_eq_none_iff.mp this

def fracOpt : Re := (Re.seq (.byte (· == 46)) (Re.byte isDigit).plus).opt
def itemTail : Re := .seq fracOpt unitRe
def itemRe : Re := .seq (Re.byte isDigit).plus itemTail

theorem durationRe_eq : durationRe = .seq (Re.byte isSign).opt itemRe.plus := by
  simp only [durationRe, durationSx, Sx.re, cSign_has, cDigit_has, unitSx_re, itemRe, itemTail, fracOpt]
  rfl

def fracLen (l : Bytes) : Nat :=
  match l with
  | 46 :: r => let m := spanLen isDigit r; if m > 0 then 1 + m else 0
  | _ => 0

theorem durItemLen_eq (l : Bytes) : durItemLen l =
    if spanLen isDigit l = 0 then 0 else
      if unitLen (l.drop (spanLen isDigit l + fracLen (l.drop (spanLen isDigit l)))) > 0 then
        spanLen isDigit l + fracLen (l.drop (spanLen isDigit l)) +
          unitLen (l.drop (spanLen isDigit l + fracLen (l.drop (spanLen isDigit l))))
      else 0 := rfl

theorem itemTail_run (f : Nat) (l : Bytes) :
    itemTail.run f l =
      (Re.seq (.byte (· == 46)) (.seq (Re.byte isDigit).plus unitRe)).run f l ++ unitRe.run f l := by
  unfold itemTail fracOpt Re.opt
  rw [run_seq_alt, run_seq_eps, run_seq_assoc]

theorem itemTail_digit (f c : Nat) (t : Bytes) (h : isDigit c = true) : itemTail.run f (c :: t) = [] := by
  have : (c == 46) = false := by unfold isDigit at h; simp at h ⊢; omega
  rw [itemTail_run, run_seq_byte_cons, this, unit_nonunit f c t (Or.inl h)]; rfl

theorem head?_itemTail (f : Nat) (l : Bytes) (h : l.length ≤ f) :
    (itemTail.run f l).head? =
      if 0 < unitLen (l.drop (fracLen l)) then some (fracLen l + unitLen (l.drop (fracLen l))) else none := by
  rw [itemTail_run, List.head?_append]
  unfold fracLen
  split
  · rename_i r
    have hr : r.length ≤ f := by simp at h; omega
    have h46 : ((46 : Nat) == 46) = true := rfl
    rw [run_seq_byte_cons, if_pos h46, unit_nonunit f 46 r (Or.inr rfl), List.head?_map,
      head?_plus_byte_seq _ _ _ _ hr (fun c t hc => unit_nonunit f c t (Or.inl hc)), head?_unit]
    dsimp only
    by_cases hm : 0 < spanLen isDigit r
    · rw [if_pos hm, if_pos hm]
      have hd : List.drop (1 + spanLen isDigit r) (46 :: r) = List.drop (spanLen isDigit r) r := by
        rw [Nat.add_comm, List.drop_succ_cons]
      rw [hd]
      by_cases hu : 0 < unitLen (List.drop (spanLen isDigit r) r)
      · rw [if_pos hu, if_pos hu]; simp [Nat.add_assoc]
      · rw [if_neg hu, if_neg hu]; rfl
    · rw [if_neg hm, if_neg hm, List.drop_zero, unitLen_nonunit 46 r (Or.inr rfl)]; rfl
  · rename_i hne
    have h0 : (Re.seq (.byte (· == 46)) (.seq (Re.byte isDigit).plus unitRe)).run f l = [] := by
      cases l with
      | nil => rfl
      | cons c r =>
        have : (c == 46) = false := by
          cases hc : c == 46 with
          | false => rfl
          | true => exact absurd (by rw [eq_of_beq hc]) (hne r)
        rw [run_seq_byte_cons, this]; rfl
    rw [h0, head?_unit]
    simp

theorem head?_item (f : Nat) (l : Bytes) (h : l.length ≤ f) :
    (itemRe.run f l).head? = if 0 < durItemLen l then some (durItemLen l) else none := by
  unfold itemRe
  rw [head?_plus_byte_seq _ _ _ _ h (fun c t hc => itemTail_digit f c t hc),
    head?_itemTail f _ (by simp; omega), durItemLen_eq, List.drop_drop]
  by_cases hn : spanLen isDigit l = 0
  · rw [if_pos hn, if_neg (by omega)]; rfl
  · rw [if_neg hn, if_pos (by omega)]
    by_cases hu : 0 < unitLen (l.drop (spanLen isDigit l + fracLen (l.drop (spanLen isDigit l))))
    · rw [if_pos hu, if_pos hu, if_pos (by omega)]; simp [Nat.add_assoc]
    · rw [if_neg hu, if_neg hu, if_neg (by omega)]; rfl

theorem item_sign (f c : Nat) (t : Bytes) (h : isSign c = true) : itemRe.plus.run f (c :: t) = [] := by
  unfold Re.plus itemRe
  rw [run_seq, run_seq, plus_digit_sign f c t h]; rfl

theorem find?_pos_eq_head? (xs : List Nat) (h : ∀ k, xs.head? = some k → 0 < k) :
    xs.find? (0 < ·) = xs.head? := by
  cases xs with
  | nil => rfl
  | cons x xs => have := h x rfl; simp [this]

theorem head?_starRun_item (F : Nat) : ∀ (f : Nat) (l : Bytes), l.length ≤ f → f ≤ F →
    (starRun (itemRe.run F) f l).head? = some (durItems f l) := by
  intro f
  induction f with
  | zero => intro l _ _; rfl
  | succ f ih =>
    intro l hl hF
    have hi := head?_item F l (by omega)
    rw [head?_starRun_succ, find?_pos_eq_head? _ (fun k hk => by
      rw [hi] at hk; split at hk <;> cases hk; assumption), hi]
    unfold durItems
    dsimp only
    by_cases hk : 0 < durItemLen l
    · rw [if_pos hk, if_neg (by omega)]
      dsimp only
      rw [ih (l.drop (durItemLen l)) (by simp; omega) (by omega)]; rfl
    · rw [if_neg hk, if_pos (by omega)]

theorem durItems_fuel : ∀ (f f' : Nat) (l : Bytes), l.length ≤ f → l.length ≤ f' → durItems f l = durItems f' l := by
  intro f
  induction f with
  | zero =>
    intro f' l h _
    have : l = [] := by cases l with | nil => rfl | cons => simp at h
    subst this
    cases f' <;> rfl
  | succ f ih =>
    intro f' l h h'
    cases f' with
    | zero =>
      have : l = [] := by cases l with | nil => rfl | cons => simp at h'
      subst this; rfl
    | succ f' =>
      unfold durItems
      dsimp only
      by_cases hk : durItemLen l = 0
      · rw [if_pos hk, if_pos hk]
      · rw [if_neg hk, if_neg hk, ih f' (l.drop (durItemLen l)) (by simp; omega) (by simp; omega)]

theorem durItems_unfold (F : Nat) (l : Bytes) (h : l.length ≤ F) :
    durItems F l = if durItemLen l = 0 then 0 else durItemLen l + durItems F (l.drop (durItemLen l)) := by
  cases F with
  | zero =>
    have : l = [] := by cases l with | nil => rfl | cons => simp at h
    subst this; rfl
  | succ F =>
    rw [durItems]
    by_cases hk : durItemLen l = 0
    · rw [if_pos hk, if_pos hk]
    · rw [if_neg hk, if_neg hk, durItems_fuel F (F + 1) (l.drop (durItemLen l)) (by simp; omega) (by simp; omega)]

theorem findSome?_all_some (g : Nat → Option Nat) (xs : List Nat) (h : ∀ i, (g i).isSome) :
    xs.findSome? g = xs.head?.bind g := by
  cases xs with
  | nil => rfl
  | cons x xs =>
    have := h x
    cases hg : g x with
    | none => rw [hg] at this; cases this
    | some v => simp [hg]

theorem head?_items (s F : Nat) (l : Bytes) (h : l.length ≤ F) :
    ((itemRe.plus.run F l).head?).map (s + ·) = if durItems F l > 0 then some (s + durItems F l) else none := by
  unfold Re.plus
  rw [head?_run_seq, findSome?_all_some _ _ (fun i => by
      rw [run_star, head?_starRun_item F F _ (by simp; omega) (Nat.le_refl _)]; rfl),
    head?_item F l h, durItems_unfold F l h]
  by_cases hk : 0 < durItemLen l
  · have e1 : (if durItemLen l = 0 then 0 else durItemLen l + durItems F (l.drop (durItemLen l))) =
        durItemLen l + durItems F (l.drop (durItemLen l)) := if_neg (by omega)
    rw [e1, if_pos hk, if_pos (by omega)]
    rw [Option.bind_some, run_star, head?_starRun_item F F _ (by simp; omega) (Nat.le_refl _)]; rfl
  · have e1 : (if durItemLen l = 0 then 0 else durItemLen l + durItems F (l.drop (durItemLen l))) = 0 :=
      if_pos (by omega)
    rw [e1, if_neg hk, if_neg (by omega)]; rfl

end Rx

end PV
