/-
  C16, full value theorem — layer 2a: the number and word terminals on rendered lexemes, at the level of the
  terminals' byte specification (`Terminal.spec`, Spec/TerminalSpec.lean).
-/
import ParsleyVerif.Props.C08
import ParsleyVerif.Spec.JsonRender
namespace PV.J16
open PV PV.Text

theorem tok_int : tokOf "INTEGER" = intTok := by decide +kernel
theorem tok_float : tokOf "FLOAT" = floatTok := by decide +kernel
theorem tok_str : tokOf "STRING" = strTok := by decide +kernel
theorem tok_bool : tokOf "BOOL" = boolTok := by decide +kernel
theorem tok_nil : tokOf "NIL" = nilTok := by decide +kernel

/-- what may follow a value: nothing, whitespace, `,`, `]`, `}` -/
def Delim (tail : Bytes) : Prop := ∀ c, tail.head? = some c → c = 32 ∨ c = 9 ∨ c = 10 ∨ c = 44 ∨ c = 93 ∨ c = 125

theorem delim_nil : Delim [] := by intro c h; cases h

theorem delim_cons {c : Nat} {t : Bytes} (h : c = 32 ∨ c = 9 ∨ c = 10 ∨ c = 44 ∨ c = 93 ∨ c = 125) : Delim (c :: t) := by
  intro x hx
  simp only [List.head?_cons, Option.some.injEq] at hx
  subst hx; exact h

/-! ### spans -/

theorem spanLen_append (p : Nat → Bool) (ds tail : Bytes) (hds : ∀ b ∈ ds, p b = true)
    (ht : ∀ c, tail.head? = some c → p c = false) : spanLen p (ds ++ tail) = ds.length := by
  induction ds with
  | nil =>
    cases tail with
    | nil => rfl
    | cons c t => exact spanLen_cons_neg p c t (ht c rfl)
  | cons b r ih =>
    rw [List.cons_append, spanLen_cons_pos p b _ (hds b (by simp)), ih (fun x hx => hds x (by simp [hx]))]
    simp only [List.length_cons]; omega

theorem isDigit_of {b : Nat} (h : 48 ≤ b ∧ b ≤ 57) : isDigit b = true := by
  unfold isDigit; simp; omega

theorem isDigit_false_of {b : Nat} (h : b < 48 ∨ 57 < b) : isDigit b = false := by
  unfold isDigit; simp; omega

theorem allDigits_isDigit {l : Bytes} (h : AllDigits l) : ∀ b ∈ l, isDigit b = true :=
  fun b hb => isDigit_of (h b hb)

theorem signLen_other {c : Nat} {r : Bytes} (h1 : c ≠ 45) (h2 : c ≠ 43) : signLen (c :: r) = 0 := by
  unfold signLen
  split
  · rename_i heq; injection heq with h _; exact absurd h h1
  · rename_i heq; injection heq with h _; exact absurd h h2
  · rfl

theorem delim_not_digit {tail : Bytes} (h : Delim tail) : ∀ c, tail.head? = some c → isDigit c = false := by
  intro c hc
  have := h c hc
  apply isDigit_false_of; omega

/-! ### the digits of a natural number -/

theorem natOfDigits_snoc (l : Bytes) (x : Nat) : natOfDigits 10 (l ++ [x]) = natOfDigits 10 l * 10 + digitVal x := by
  unfold natOfDigits
  rw [List.foldl_append]
  rfl

theorem digitVal_digit (d : Nat) (h : d < 10) : digitVal (48 + d) = d := by
  unfold digitVal
  rw [if_pos (isDigit_of (by omega))]
  omega

/-- the digit string of `n`: digits only, no superfluous leading zero, value `n` -/
structure DigitsOf (n : Nat) (ds : Bytes) : Prop where
  all : AllDigits ds
  zero : n = 0 → ds = [48]
  pos : 0 < n → ∃ d r, ds = d :: r ∧ 49 ≤ d
  val : natOfDigits 10 ds = n

theorem natDigitsAux_spec : ∀ (fuel n : Nat) (acc : Bytes), n < fuel →
    ∃ ds, natDigitsAux fuel n acc = ds ++ acc ∧ DigitsOf n ds := by
  intro fuel
  induction fuel with
  | zero => intro n acc h; omega
  | succ fuel ih =>
    intro n acc h
    unfold natDigitsAux
    by_cases hn : n < 10
    · rw [if_pos hn]
      refine ⟨[48 + n], rfl, ?_, ?_, ?_, ?_⟩
      · intro b hb; simp only [List.mem_singleton] at hb; omega
      · intro h0; subst h0; rfl
      · intro hp; exact ⟨48 + n, [], rfl, by omega⟩
      · show (0 * 10 + digitVal (48 + n)) = n
        rw [digitVal_digit n hn]; omega
    · rw [if_neg hn]
      obtain ⟨ds, hds, hD⟩ := ih (n / 10) ((48 + n % 10) :: acc) (by omega)
      refine ⟨ds ++ [48 + n % 10], by rw [hds]; simp, ?_, ?_, ?_, ?_⟩
      · intro b hb
        rcases List.mem_append.mp hb with hb | hb
        · exact hD.all b hb
        · simp only [List.mem_singleton] at hb; omega
      · intro h0; omega
      · intro _
        obtain ⟨d, r, hdr, hd⟩ := hD.pos (by omega)
        exact ⟨d, r ++ [48 + n % 10], by rw [hdr]; rfl, hd⟩
      · rw [natOfDigits_snoc, hD.val, digitVal_digit _ (by omega)]; omega

theorem natDigits_spec (n : Nat) : DigitsOf n (natDigits n) := by
  obtain ⟨ds, hds, hD⟩ := natDigitsAux_spec (n + 1) n [] (by omega)
  unfold natDigits
  rw [hds, List.append_nil]; exact hD

/-- head and tail of a digit string -/
theorem digitsOf_cons {n : Nat} {ds : Bytes} (h : DigitsOf n ds) :
    ∃ d r, ds = d :: r ∧ AllDigits r ∧ ((n = 0 ∧ d = 48 ∧ r = []) ∨ (49 ≤ d ∧ d ≤ 57)) := by
  by_cases hn : n = 0
  · have := h.zero hn
    exact ⟨48, [], this, (by intro b hb; cases hb), .inl ⟨hn, rfl, rfl⟩⟩
  · obtain ⟨d, r, hdr, hd⟩ := h.pos (by omega)
    have hall := h.all
    rw [hdr] at hall
    exact ⟨d, r, hdr, fun b hb => hall b (by simp [hb]), .inr ⟨hd, (hall d (by simp)).2⟩⟩

/-! ### Integer on an integer lexeme -/

theorem delim_not_oct {tail : Bytes} (h : Delim tail) : ∀ c, tail.head? = some c → isOct c = false := by
  intro c hc
  have := h c hc
  unfold isOct; simp; omega

/-- the unsigned part -/
theorem integerMatch_digits (n : Nat) (tail : Bytes) (ht : Delim tail) (s : Nat) (l : Bytes) (hs : signLen l = s)
    (hl : l.drop s = natDigits n ++ tail) : integerMatch l = some (s + (natDigits n).length) := by
  obtain ⟨d, r, hdr, hall, hcase⟩ := digitsOf_cons (natDigits_spec n)
  unfold integerMatch
  simp only [hs, hl, hdr, List.cons_append]
  rcases hcase with ⟨_, hd, hr⟩ | ⟨h1, h2⟩
  · subst hd; subst hr
    simp only [List.nil_append, List.length_cons, List.length_nil]
    rw [if_neg (by simp)]
    simp only [if_true]
    cases tail with
    | nil => rfl
    | cons x t =>
      have hx := ht x rfl
      simp only
      rw [if_neg (by simp; omega)]
      rw [spanLen_cons_neg isOct x t (delim_not_oct ht x rfl)]
  · rw [if_pos (by simp; omega)]
    rw [spanLen_append isDigit r tail (allDigits_isDigit hall) (delim_not_digit ht)]
    simp only [List.length_cons]
    congr 1; omega

theorem natDigits_head_not_sign (n : Nat) : ∃ d r, natDigits n = d :: r ∧ d ≠ 45 ∧ d ≠ 43 ∧ 48 ≤ d ∧ d ≤ 57 := by
  obtain ⟨d, r, hdr, _, hcase⟩ := digitsOf_cons (natDigits_spec n)
  refine ⟨d, r, hdr, ?_⟩
  rcases hcase with ⟨_, hd, _⟩ | ⟨h1, h2⟩ <;> omega

theorem signLen_renderInt (i : Int) (tail : Bytes) :
    signLen (renderInt i ++ tail) = (if i < 0 then 1 else 0) ∧
    (renderInt i ++ tail).drop (if i < 0 then 1 else 0) = natDigits i.natAbs ++ tail ∧
    (renderInt i).length = (if i < 0 then 1 else 0) + (natDigits i.natAbs).length := by
  unfold renderInt
  by_cases hi : i < 0
  · simp only [if_pos hi]
    exact ⟨rfl, rfl, by simp only [List.length_cons]; omega⟩
  · simp only [if_neg hi]
    obtain ⟨d, r, hdr, h1, h2, _⟩ := natDigits_head_not_sign i.natAbs
    refine ⟨?_, rfl, by omega⟩
    rw [hdr, List.cons_append]
    exact signLen_other h1 h2

theorem integerMatch_renderInt (i : Int) (tail : Bytes) (ht : Delim tail) :
    integerMatch (renderInt i ++ tail) = some (renderInt i).length := by
  obtain ⟨h1, h2, h3⟩ := signLen_renderInt i tail
  rw [integerMatch_digits i.natAbs tail ht _ _ h1 h2, h3]

/-- the value -/
theorem magnitude_natDigits (n : Nat) : Lang.magnitude (natDigits n) = n := by
  have hD := natDigits_spec n
  obtain ⟨d, r, hdr, hall, hcase⟩ := digitsOf_cons hD
  rcases hcase with ⟨hn, hd, hr⟩ | ⟨h1, h2⟩
  · subst hd; subst hr; rw [hdr, hn]; rfl
  · have hval := hD.val
    rw [natOfDigits_eq] at hval
    unfold Lang.magnitude
    rw [hdr] at hval ⊢
    have hhex : Lang.hexLit (d :: r) = false := by
      unfold Lang.hexLit
      split
      · rename_i heq; injection heq with h _; omega
      · rfl
    have hoct : Lang.octalLit (d :: r) = false := by
      unfold Lang.octalLit
      split
      · rename_i heq; injection heq with h _; omega
      · rfl
    simp only [hhex, hoct, Bool.false_eq_true, if_false]
    exact hval

theorem intValue_renderInt (i : Int) : Lang.intValue (renderInt i) = i := by
  unfold renderInt
  by_cases hi : i < 0
  · rw [if_pos hi]
    show -(Lang.magnitude (natDigits i.natAbs) : Int) = i
    rw [magnitude_natDigits]; omega
  · rw [if_neg hi]
    obtain ⟨d, r, hdr, h1, h2, _⟩ := natDigits_head_not_sign i.natAbs
    have : Lang.intValue (natDigits i.natAbs) = (Lang.magnitude (natDigits i.natAbs) : Int) := by
      rw [hdr]
      unfold Lang.intValue
      split
      · rename_i heq; injection heq with h _; exact absurd h h1
      · rename_i heq; injection heq with h _; exact absurd h h2
      · rfl
    rw [this, magnitude_natDigits]; omega

theorem parseInt0_renderInt (i : Int) (hr : -(2 : Int) ^ 63 ≤ i ∧ i < (2 : Int) ^ 63) : parseInt0 (renderInt i) = some i := by
  have hm := integerMatch_renderInt i [] delim_nil
  rw [List.append_nil] at hm
  have hint : Lang.IsInt (renderInt i) := by
    have := integerMatch_sound _ _ hm
    rwa [List.take_length] at this
  exact (c08_parseInt0_spec _ hint i).mpr ⟨(intValue_renderInt i).symm, hr.1, hr.2⟩

theorem delim_not_dot {tail : Bytes} (h : Delim tail) : tail.head? ≠ some 46 := by
  intro hc
  have := h 46 hc
  omega

/-- **Integer** on an integer lexeme followed by a delimiter -/
theorem integerSpec_renderInt (i : Int) (tail : Bytes) (pos : Nat) (ht : Delim tail)
    (hr : -(2 : Int) ^ 63 ≤ i ∧ i < (2 : Int) ^ 63) :
    integerSpec (renderInt i ++ tail) pos = .node (.term intTok (.int i) pos (pos + (renderInt i).length)) := by
  unfold integerSpec
  rw [integerMatch_renderInt i tail ht]
  simp only [List.drop_left, List.take_left]
  rw [if_neg (delim_not_dot ht), parseInt0_renderInt i hr, tok_int]

/-- **Float** on an integer lexeme followed by a delimiter: no match -/
theorem floatMatch_renderInt (i : Int) (tail : Bytes) (ht : Delim tail) : floatMatch (renderInt i ++ tail) = none := by
  obtain ⟨h1, h2, _⟩ := signLen_renderInt i tail
  have hall := (natDigits_spec i.natAbs).all
  unfold floatMatch
  simp only [h1]
  rw [← List.drop_drop, h2, spanLen_append isDigit _ tail (allDigits_isDigit hall) (delim_not_digit ht), List.drop_left]
  cases tail with
  | nil => rfl
  | cons c t =>
    have := ht c rfl
    split
    · rename_i heq; injection heq with h _; omega
    · rfl

/-! ### Float on a decimal lexeme -/

theorem delim_exponentLen {tail : Bytes} (h : Delim tail) : exponentLen tail = 0 := by
  cases tail with
  | nil => rfl
  | cons c t =>
    have := h c rfl
    simp only [exponentLen]
    rw [if_neg (by simp; omega)]

theorem exponentLen_renderEx (ex : Option (Nat × Option Nat × Bytes)) (tail : Bytes) (ht : Delim tail)
    (hex : match ex with
      | none => True
      | some (e, s, ds) => (e = 101 ∨ e = 69) ∧ (s = none ∨ s = some 43 ∨ s = some 45) ∧ ds ≠ [] ∧ AllDigits ds) :
    exponentLen (DecLex.renderEx ex ++ tail) = (DecLex.renderEx ex).length ∧
    (∀ c, (DecLex.renderEx ex ++ tail).head? = some c → isDigit c = false) := by
  match ex, hex with
  | none, _ =>
    exact ⟨by simpa [DecLex.renderEx] using delim_exponentLen ht, by simpa [DecLex.renderEx] using delim_not_digit ht⟩
  | some (e, s, ds), ⟨he, hs, hne, hall⟩ =>
    have hds : spanLen isDigit (ds ++ tail) = ds.length :=
      spanLen_append isDigit ds tail (allDigits_isDigit hall) (delim_not_digit ht)
    have hpos : 0 < ds.length := by cases ds with | nil => exact absurd rfl hne | cons _ _ => simp
    obtain ⟨d, r, hdr⟩ : ∃ d r, ds = d :: r := by cases ds with | nil => exact absurd rfl hne | cons d r => exact ⟨d, r, rfl⟩
    have hd := hall d (by rw [hdr]; simp)
    refine ⟨?_, ?_⟩
    · rcases hs with rfl | rfl | rfl
      · simp only [DecLex.renderEx, List.cons_append, exponentLen]
        rw [if_pos (by simp; omega)]
        have hsl : signLen (ds ++ tail) = 0 := by rw [hdr, List.cons_append]; exact signLen_other (by omega) (by omega)
        simp only [hsl, List.drop_zero, hds]
        rw [if_pos hpos]; simp only [List.length_cons]; omega
      · simp only [DecLex.renderEx, List.cons_append, exponentLen]
        rw [if_pos (by simp; omega)]
        have hsl : signLen (43 :: (ds ++ tail)) = 1 := rfl
        simp only [hsl, List.drop_succ_cons, List.drop_zero, hds]
        rw [if_pos hpos]; simp only [List.length_cons]; omega
      · simp only [DecLex.renderEx, List.cons_append, exponentLen]
        rw [if_pos (by simp; omega)]
        have hsl : signLen (45 :: (ds ++ tail)) = 1 := rfl
        simp only [hsl, List.drop_succ_cons, List.drop_zero, hds]
        rw [if_pos hpos]; simp only [List.length_cons]; omega
    · intro c hc
      have : c = e := by
        rcases hs with rfl | rfl | rfl <;> simp [DecLex.renderEx] at hc <;> exact hc.symm
      subst this
      apply isDigit_false_of; omega

theorem floatMatch_body (s : Nat) (l ip fr ex tail : Bytes) (hs : signLen l = s)
    (hl : l.drop s = ip ++ 46 :: (fr ++ (ex ++ tail))) (hip : AllDigits ip) (hfr : AllDigits fr) (hfr0 : fr ≠ [])
    (hex1 : exponentLen (ex ++ tail) = ex.length) (hex2 : ∀ c, (ex ++ tail).head? = some c → isDigit c = false) :
    floatMatch l = some (s + (ip.length + (1 + (fr.length + ex.length)))) := by
  unfold floatMatch
  have h46 : ∀ c, (46 :: (fr ++ (ex ++ tail))).head? = some c → isDigit c = false := by
    intro c hc; simp only [List.head?_cons, Option.some.injEq] at hc; subst hc; rfl
  simp only [hs]
  rw [← List.drop_drop, hl, spanLen_append isDigit ip _ (allDigits_isDigit hip) h46, List.drop_left]
  simp only
  rw [spanLen_append isDigit fr _ (allDigits_isDigit hfr) hex2, List.drop_left, hex1]
  have hpos : 0 < fr.length := by cases fr with | nil => exact absurd rfl hfr0 | cons _ _ => simp
  rw [if_pos hpos]
  congr 1; omega

theorem decLex_render_length (d : DecLex) :
    d.render.length = (if d.neg then 1 else 0) + (d.ip.length + (1 + (d.fr.length + (DecLex.renderEx d.ex).length))) := by
  unfold DecLex.render
  cases d.neg <;> simp <;> omega

/-- **Float** on a decimal lexeme followed by a delimiter -/
theorem floatMatch_dec (d : DecLex) (hd : d.OK) (tail : Bytes) (ht : Delim tail) :
    floatMatch (d.render ++ tail) = some d.render.length := by
  obtain ⟨hip, hip0, _, hfr, hfr0, hex⟩ := hd
  obtain ⟨hex1, hex2⟩ := exponentLen_renderEx d.ex tail ht hex
  obtain ⟨c, r, hcr⟩ : ∃ c r, d.ip = c :: r := by
    cases h : d.ip with | nil => exact absurd h hip0 | cons c r => exact ⟨c, r, rfl⟩
  have hc := hip c (by rw [hcr]; simp)
  rw [decLex_render_length]
  cases hneg : d.neg with
  | true =>
    have hl : d.render ++ tail = 45 :: (d.ip ++ 46 :: (d.fr ++ (DecLex.renderEx d.ex ++ tail))) := by
      simp [DecLex.render, hneg]
    rw [hl]
    exact floatMatch_body 1 _ d.ip d.fr _ tail rfl rfl hip hfr hfr0 hex1 hex2
  | false =>
    have hl : d.render ++ tail = d.ip ++ 46 :: (d.fr ++ (DecLex.renderEx d.ex ++ tail)) := by
      simp [DecLex.render, hneg]
    rw [hl]
    have hs : signLen (d.ip ++ 46 :: (d.fr ++ (DecLex.renderEx d.ex ++ tail))) = 0 := by
      rw [hcr, List.cons_append]; exact signLen_other (by omega) (by omega)
    have := floatMatch_body 0 _ d.ip d.fr _ tail hs rfl hip hfr hfr0 hex1 hex2
    simpa using this

theorem floatSpec_dec (P : Params) (d : DecLex) (hd : d.OK) (tail : Bytes) (pos : Nat) (ht : Delim tail)
    (hok : P.floatOk d.render = true) :
    floatSpec P (d.render ++ tail) pos = .node (.term floatTok (.float d.render) pos (pos + d.render.length)) := by
  unfold floatSpec
  rw [floatMatch_dec d hd tail ht]
  simp only [List.take_left, hok, if_true, tok_float]

/-- the first byte of a decimal or integer lexeme: `-` or a digit -/
theorem dec_head (d : DecLex) (hd : d.OK) : ∃ c r, d.render = c :: r ∧ (c = 45 ∨ (48 ≤ c ∧ c ≤ 57)) := by
  obtain ⟨hip, hip0, _⟩ := hd
  unfold DecLex.render
  cases d.neg with
  | true => exact ⟨45, _, rfl, .inl rfl⟩
  | false =>
    cases h : d.ip with
    | nil => exact absurd h hip0
    | cons c r => exact ⟨c, _, rfl, .inr (hip c (by rw [h]; simp))⟩

theorem int_head (i : Int) : ∃ c r, renderInt i = c :: r ∧ (c = 45 ∨ (48 ≤ c ∧ c ≤ 57)) := by
  unfold renderInt
  by_cases hi : i < 0
  · rw [if_pos hi]; exact ⟨45, _, rfl, .inl rfl⟩
  · rw [if_neg hi]
    obtain ⟨d, r, hdr, _, _, h1, h2⟩ := natDigits_head_not_sign i.natAbs
    exact ⟨d, r, hdr, .inr ⟨h1, h2⟩⟩

/-! ### words -/

theorem delim_not_word {tail : Bytes} (h : Delim tail) : (tail.head?.all fun d => !isWordByte d) = true := by
  cases tail with
  | nil => rfl
  | cons c t =>
    have := h c rfl
    simp only [List.head?_cons, Option.all_some, isWordByte]
    simp; omega

theorem wordAt_append (w tail : Bytes) (ht : Delim tail) : wordAt w (w ++ tail) = true := by
  rw [c08_wordAt]
  exact ⟨List.prefix_append w tail, by rw [List.drop_left]; exact delim_not_word ht⟩

theorem wordAt_head_ne (w l : Bytes) (a b : Nat) (w' l' : Bytes) (hw : w = a :: w') (hl : l = b :: l') (hne : a ≠ b) :
    wordAt w l = false := by
  apply Bool.eq_false_iff.mpr
  intro h
  have hp := ((c08_wordAt w l).mp h).1
  rw [hw, hl] at hp
  obtain ⟨t, ht⟩ := hp
  injection ht with h1 _
  exact hne h1

theorem wordAt_not_cons (w : Bytes) (a : Nat) (w' : Bytes) (hw : w = a :: w') : wordAt w [] = false := by
  apply Bool.eq_false_iff.mpr
  intro h
  have hp := ((c08_wordAt w []).mp h).1
  rw [hw] at hp
  obtain ⟨t, ht⟩ := hp
  cases ht

end PV.J16
