/-
  Stage 1 of the core tie: the simple wrappers — combinator.Optional, Single, SuppressError, parser.ReturnError (= Name),
  parser.Empty, parser.End — translated closure vs. the matching case of `run`.
-/
import ParsleyVerif.Proofs.CoreTieAppend
import ParsleyVerif.Proofs.CoreTieCtx
namespace PV.CoreTie
open PV.FactsCore

/-- a translated parse function simulates `run cfg fuel g` -/
def AgreesF (f : IntMap → Int → CM (CNode × IntSet × CErr)) (cfg : Cfg) (fuel : Nat) (g : G) : Prop :=
  ∀ (m : IntMap) (c : Ctx) (pos : Nat) (s : Context) (st : St), CtxRel m c → StRel s st →
    Corr (f m (pos : Int) s) (run cfg fuel g c pos st)

theorem agrees_iff (W : World Context) (cfg : Cfg) (fuel : Nat) (p : Parser) (g : G) :
    Agrees W cfg fuel p g ↔ AgreesF (W.parse p) cfg fuel g := Iff.rfl

theorem run_budget0 (cfg : Cfg) (h0 : cfg.maxCalls = 0) (st : St) : ¬ (cfg.maxCalls ≠ 0 ∧ st.calls > cfg.maxCalls) := by
  simp [h0]

theorem tie_Optional (W : World Context) (cfg : Cfg) (h0 : cfg.maxCalls = 0) (fuel : Nat) (p : Parser) (g : G)
    (hp : Agrees W cfg fuel p g) : AgreesF (Optional_parse W p) cfg (fuel + 1) (.optional g) := by
  intro m c pos s st hm hs
  have h := hp m c pos s st hm hs
  have e0 : (CorePrelude.Node.empty (pos : Int) : CNode) = eRes (.one (.empty pos)) := rfl
  rw [run, if_neg (run_budget0 cfg h0 st)]
  cases hr : run cfg fuel g c pos st with
  | none => rw [hr] at h; simp [Optional_parse, corr_none h, Corr]
  | some r =>
    obtain ⟨o, st'⟩ := r
    rw [hr] at h
    obtain ⟨s', e1, r1⟩ := corr_some h
    refine ⟨s', ?_, r1⟩
    simp only [Optional_parse, bind_apply, e1, eOut, e0, tie_AppendNode, pure_apply]

theorem tie_SuppressError (W : World Context) (cfg : Cfg) (h0 : cfg.maxCalls = 0) (fuel : Nat) (p : Parser) (g : G)
    (hp : Agrees W cfg fuel p g) : AgreesF (SuppressError_parse W p) cfg (fuel + 1) (.suppress g) := by
  intro m c pos s st hm hs
  have h := hp m c pos s st hm hs
  rw [run, if_neg (run_budget0 cfg h0 st)]
  cases hr : run cfg fuel g c pos st with
  | none => rw [hr] at h; simp [SuppressError_parse, corr_none h, Corr]
  | some r =>
    obtain ⟨o, st'⟩ := r
    rw [hr] at h
    obtain ⟨s', e1, r1⟩ := corr_some h
    refine ⟨s', ?_, r1⟩
    simp [SuppressError_parse, e1, eOut]

@[simp] theorem asNonTerminal_eNode_nt (t : Text.Bytes) (c : List PV.Node) (p r : Nat) (i : Interp) :
    CorePrelude.Node.asNonTerminalNode (eNode (.nt t c p r i)) = (eNode (.nt t c p r i), true) := by
  simp [eNode, CorePrelude.Node.asNonTerminalNode]

theorem asNonTerminal_eRes_other (r : PV.Res) (h : ∀ t c p q i, r ≠ .one (.nt t c p q i)) :
    (CorePrelude.Node.asNonTerminalNode (eRes r)).2 = false := by
  cases r with
  | nil => rfl
  | list l => rfl
  | one n =>
    cases n with
    | nt t c p q i => exact absurd rfl (h t c p q i)
    | _ => rfl

theorem tie_Single (W : World Context) (cfg : Cfg) (h0 : cfg.maxCalls = 0) (fuel : Nat) (p : Parser) (g : G)
    (hp : Agrees W cfg fuel p g) : AgreesF (Single_parse W p) cfg (fuel + 1) (.single g) := by
  intro m c pos s st hm hs
  have h := hp m c pos s st hm hs
  rw [run, if_neg (run_budget0 cfg h0 st)]
  cases hr : run cfg fuel g c pos st with
  | none => rw [hr] at h; simp [Single_parse, corr_none h, Corr]
  | some r =>
    obtain ⟨o, st'⟩ := r
    rw [hr] at h
    obtain ⟨s', e1, r1⟩ := corr_some h
    obtain ⟨res, cp, err⟩ := o
    cases err with
    | some e =>
      show Corr _ (some (⟨.nil, cp, some e⟩, st'))
      exact corr_intro (by simp [Single_parse, e1, eOut]) r1
    | none =>
      cases res with
      | nil =>
        show Corr _ (some (⟨.nil, cp, none⟩, st'))
        exact corr_intro (by simp [Single_parse, e1, eOut, CorePrelude.Node.asNonTerminalNode]) r1
      | list l =>
        show Corr _ (some (⟨.list l, cp, none⟩, st'))
        exact corr_intro (by simp [Single_parse, e1, eOut, CorePrelude.Node.asNonTerminalNode]) r1
      | one n =>
        cases n with
        | term t v p' q =>
          show Corr _ (some (⟨.one (.term t v p' q), cp, none⟩, st'))
          exact corr_intro (by simp [Single_parse, e1, eOut, eNode, CorePrelude.Node.asNonTerminalNode]) r1
        | empty p' =>
          show Corr _ (some (⟨.one (.empty p'), cp, none⟩, st'))
          exact corr_intro (by simp [Single_parse, e1, eOut, eNode, CorePrelude.Node.asNonTerminalNode]) r1
        | eof p' =>
          show Corr _ (some (⟨.one (.eof p'), cp, none⟩, st'))
          exact corr_intro (by simp [Single_parse, e1, eOut, eNode, CorePrelude.Node.asNonTerminalNode]) r1
        | nt t ch p' q i =>
          match ch with
          | [] =>
            show Corr _ (some (⟨.one (.nt t [] p' q i), cp, none⟩, st'))
            exact corr_intro (by simp [Single_parse, e1, eOut, eNode, CorePrelude.Node_Children, CorePrelude.Go.len,
              CorePrelude.Node.asNonTerminalNode]) r1
          | [x] =>
            show Corr _ (some (⟨.one x, cp, none⟩, st'))
            exact corr_intro (by simp [Single_parse, e1, eOut, eNode, CorePrelude.Node_Children, CorePrelude.Go.len,
              CorePrelude.Go.nth, CorePrelude.Node.asNonTerminalNode]) r1
          | x :: y :: rest =>
            have : ¬ ((rest.length : Int) + 1 + 1 = 1) := by omega
            show Corr _ (some (⟨.one (.nt t (x :: y :: rest) p' q i), cp, none⟩, st'))
            exact corr_intro (by simp [Single_parse, e1, eOut, eNode, CorePrelude.Node_Children, CorePrelude.Go.len,
              CorePrelude.Node.asNonTerminalNode, this]) r1

theorem tie_ReturnError (W : World Context) (cfg : Cfg) (h0 : cfg.maxCalls = 0) (fuel : Nat) (p : Parser) (g : G)
    (nm : Text.Bytes) (hp : Agrees W cfg fuel p g) :
    AgreesF (ReturnError_parse W p (CorePrelude.NotFoundError nm)) cfg (fuel + 1) (.name g nm) := by
  intro m c pos s st hm hs
  have h := hp m c pos s st hm hs
  rw [run, if_neg (run_budget0 cfg h0 st)]
  cases hr : run cfg fuel g c pos st with
  | none => rw [hr] at h; simp [ReturnError_parse, corr_none h, Corr]
  | some r =>
    obtain ⟨o, st'⟩ := r
    rw [hr] at h
    obtain ⟨s', e1, r1⟩ := corr_some h
    obtain ⟨res, cp, err⟩ := o
    cases err with
    | some e =>
      show Corr _ (if e.pos = pos && e.kind.isNotFound then some (⟨.nil, cp, some ⟨pos, .notFound nm⟩⟩, st')
        else some (⟨.nil, cp, some e⟩, st'))
      by_cases hpos : e.pos = pos
      · cases hk : e.kind.isNotFound
        · simp only [hpos, hk, decide_true, Bool.and_false, Bool.false_eq_true, if_false]
          exact corr_intro (by core_simp [ReturnError_parse, e1, eOut, hpos, hk]) r1
        · simp only [hpos, hk, decide_true, Bool.and_true, if_true]
          exact corr_intro (by core_simp [ReturnError_parse, e1, eOut, hpos, hk, CorePrelude.NewError,
            CorePrelude.NotFoundError]) r1
      · have : ¬ ((e.pos : Int) = pos) := by omega
        simp only [hpos, decide_false, Bool.false_and, Bool.false_eq_true, if_false]
        exact corr_intro (by core_simp [ReturnError_parse, e1, eOut]) r1
    | none =>
      show Corr _ (if res.isNil then some (⟨.nil, cp, some ⟨pos, .notFound nm⟩⟩, st') else some (⟨res, cp, none⟩, st'))
      cases hn : res.isNil
      · simp only [Bool.false_eq_true, if_false]
        exact corr_intro (by simp [ReturnError_parse, e1, eOut, hn]) r1
      · have : res = .nil := by cases res <;> simp_all [PV.Res.isNil]
        subst this
        simp only [if_true]
        exact corr_intro (by simp [ReturnError_parse, e1, eOut, CorePrelude.NewError, CorePrelude.NotFoundError]) r1

theorem tie_Empty (W : World Context) (cfg : Cfg) (h0 : cfg.maxCalls = 0) (fuel : Nat) :
    AgreesF (Empty_parse W) cfg (fuel + 1) .empty := by
  intro m c pos s st hm hs
  rw [run, if_neg (run_budget0 cfg h0 st)]
  exact ⟨s, by simp [Empty_parse, eOut, eNode, eSet, CorePrelude.Data.EmptyIntSet], hs⟩

/-- parser.End; its captured `notFoundErr` is `errors.New("was expecting the end of input")` -/
theorem tie_End (W : World Context) (cfg : Cfg) (h0 : cfg.maxCalls = 0) (hw : WorldRel W cfg) (fuel : Nat) :
    AgreesF (End_parse W (CorePrelude.errors_New (CorePrelude.Go.str "was expecting the end of input"))) cfg (fuel + 1) .eof := by
  intro m c pos s st hm hs
  rw [run, if_neg (run_budget0 cfg h0 st)]
  have hk : CorePrelude.errors_New (CorePrelude.Go.str "was expecting the end of input") = eKind (.other endErrMsg) := rfl
  cases he : Text.isEOF cfg.file pos
  · refine ⟨s, ?_, hs.logEv cfg _⟩
    simp [End_parse, Context_Reader, hw.isEOF, he, eOut, eSet, CorePrelude.Data.EmptyIntSet, CorePrelude.NewError, hk]
  · refine ⟨s, ?_, hs⟩
    simp [End_parse, Context_Reader, hw.isEOF, he, eOut, eNode, eSet, CorePrelude.Data.EmptyIntSet]

end PV.CoreTie
