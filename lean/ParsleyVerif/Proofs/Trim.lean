/-
  Helper lemmas for property C10: `run` unfolded on LeftTrim / RightTrim, the whitespace verdict in the
  property's vocabulary (`wsOk`, `wsFail`), SetReaderPos on a single node, and the token-sequence
  induction over `seqParse`.
-/
import ParsleyVerif.Spec.TrimSpec
import ParsleyVerif.Proofs.ReaderWs
namespace PV
open PV.Text

/-- the driver's work budget does not stop this call (`maxCalls = 0` = no budget) -/
def Budget (cfg : Cfg) (st : St) : Prop := cfg.maxCalls = 0 ∨ st.calls ≤ cfg.maxCalls

theorem budget_guard {cfg : Cfg} {st : St} (h : Budget cfg st) : ¬ (cfg.maxCalls ≠ 0 ∧ st.calls > cfg.maxCalls) := by
  unfold Budget at h; omega

/-! ### the verdict of SkipWhitespaces in the property's vocabulary -/

theorem wsVerdict_ok (m : WsMode) (pos : Nat) (ws : Bytes) (h : wsOk m ws) : wsVerdict m pos ws = none := by
  cases m <;> simp only [wsOk] at h <;> simp only [wsVerdict]
  · rw [if_neg (by omega)]
  · rw [h]
  · cases hb : firstBreak ws with
    | none => exact absurd hb h
    | some i => rfl

theorem wsVerdict_fail (m : WsMode) (pos : Nat) (ws : Bytes) (h : ¬ wsOk m ws) :
    wsToErr (wsVerdict m pos ws) = some (wsFail m pos ws) := by
  cases m <;> simp only [wsOk] at h <;> simp only [wsVerdict, wsFail]
  · rw [if_pos (by omega)]; rfl
  · cases hb : firstBreak ws with
    | none => exact absurd hb h
    | some i => rfl
  · exact absurd trivial h
  · cases hb : firstBreak ws with
    | none => rfl
    | some i => rw [hb] at h; simp at h

theorem wsToErr_verdict (m : WsMode) (pos : Nat) (ws : Bytes) :
    wsToErr (wsVerdict m pos ws) = if wsOk m ws then none else some (wsFail m pos ws) := by
  by_cases h : wsOk m ws
  · rw [if_pos h, wsVerdict_ok m pos ws h]; rfl
  · rw [if_neg h, wsVerdict_fail m pos ws h]

theorem wsFail_isWs (m : WsMode) (pos : Nat) (ws : Bytes) : (wsFail m pos ws).kind.isWs = true := by
  cases m <;> rfl

/-! ### positions -/

theorem rest_add (f : File) (pos k : Nat) (h : InFile f pos) : rest f (pos + k) = (rest f pos).drop k := by
  obtain ⟨h1, _⟩ := h
  unfold rest
  rw [List.drop_drop]
  congr 1; omega

theorem inFile_add (f : File) (pos k : Nat) (h : InFile f pos) (hk : k ≤ (rest f pos).length) : InFile f (pos + k) := by
  have := rest_length f pos h
  obtain ⟨h1, h2⟩ := h
  constructor <;> omega

theorem inFile_ws (f : File) (pos : Nat) (h : InFile f pos) : InFile f (pos + wsRun (rest f pos)) :=
  inFile_add f pos _ h (wsRun_le _)

/-! ### terminals return TerminalNodes that start where they were asked to parse -/

theorem Terminal.parse_node (P : Params) (f : File) (t : Terminal) (p : Nat) (n : Node)
    (h : t.parse P f p = .node n) : ∃ tok v r, n = .term tok v p r := by
  unfold Terminal.parse at h
  cases t <;> simp only [nf, other] at h
  all_goals (repeat' (split at h))
  all_goals first
    | (cases h; exact ⟨_, _, _, rfl⟩)
    | cases h

/-! ### `run` on a terminal -/

theorem run_term (cfg : Cfg) (fuel : Nat) (t : Terminal) (ctx : Ctx) (pos : Nat) (st : St) (hb : Budget cfg st) :
    run cfg (fuel + 1) (.term t) ctx pos st =
      match t.parse cfg.params cfg.file pos with
      | .node n => some (⟨.one n, [], none⟩, st)
      | .err e => some (⟨.nil, [], some e⟩, st.logEv cfg (.termFail e.pos e.kind))
      | .panic site => some (⟨.nil, [], some ⟨pos, .panic (tokOf site)⟩⟩, st) := by
  rw [run]
  rw [if_neg (budget_guard hb)]
  rfl

theorem run_term_node (cfg : Cfg) (fuel : Nat) (t : Terminal) (ctx : Ctx) (pos : Nat) (st : St) (hb : Budget cfg st)
    (n : Node) (h : t.parse cfg.params cfg.file pos = .node n) :
    run cfg (fuel + 1) (.term t) ctx pos st = some (⟨.one n, [], none⟩, st) := by
  rw [run_term cfg fuel t ctx pos st hb, h]

theorem run_term_err (cfg : Cfg) (fuel : Nat) (t : Terminal) (ctx : Ctx) (pos : Nat) (st : St) (hb : Budget cfg st)
    (e : Err) (h : t.parse cfg.params cfg.file pos = .err e) :
    run cfg (fuel + 1) (.term t) ctx pos st = some (⟨.nil, [], some e⟩, st.logEv cfg (.termFail e.pos e.kind)) := by
  rw [run_term cfg fuel t ctx pos st hb, h]

/-! ### LeftTrim -/

/-- the context-error relocation of LeftTrim never changes the context: SetError keeps the furthest
    error, and the relocated error is never further than the one it replaces -/
theorem setError_back (st : St) (ce : Err) (pos : Nat) (hce : st.ctxErr = some ce) (h : pos ≤ ce.pos) :
    st.setError (some ⟨pos, ce.kind⟩) = st := by
  simp only [St.setError, hce]
  split
  · rename_i hge
    have : pos = ce.pos := by simp only [ge_iff_le] at hge; omega
    cases st; cases ce; simp_all
  · rfl

/-- what LeftTrim returns, given the position after the run, the pending whitespace error, and the
    operand's outcome (the `if err != nil { … }` cascade of trim.go) -/
def ltrimOut (pos pos' : Nat) (wsErr : Option Err) (o : Out) : Out :=
  match o.err with
  | some e =>
    match wsErr with
    | some w =>
      if e.pos > pos' then ⟨.nil, [], some w⟩
      else if e.kind.isNotFound then ⟨o.res, o.cp, some ⟨pos, e.kind⟩⟩
      else ⟨o.res, o.cp, some e⟩
    | none => ⟨o.res, o.cp, some e⟩
  | none =>
    match wsErr with
    | some w => ⟨.nil, [], some w⟩
    | none => ⟨o.res, o.cp, none⟩

theorem run_ltrim (cfg : Cfg) (fuel : Nat) (g : G) (m : WsMode) (ctx : Ctx) (pos : Nat) (st : St)
    (hb : Budget cfg st) (hin : InFile cfg.file pos) (hoff : 1 ≤ cfg.file.offset) :
    run cfg (fuel + 1) (.ltrim g m) ctx pos st =
      match run cfg fuel g ctx (pos + wsRun (rest cfg.file pos)) st with
      | none => none
      | some (o, st') =>
        some (ltrimOut pos (pos + wsRun (rest cfg.file pos))
          (if wsOk m (rest cfg.file pos) then none else some (wsFail m pos (rest cfg.file pos))) o, st') := by
  rw [run]
  rw [if_neg (budget_guard hb)]
  simp only [skipWhitespaces_spec cfg.file pos m hin hoff, wsToErr_verdict]
  cases hr : run cfg fuel g ctx (pos + wsRun (rest cfg.file pos)) st with
  | none => rfl
  | some p =>
    obtain ⟨o, st'⟩ := p
    simp only
    have hfix : (match st'.ctxErr with
        | some ce => if (decide (ce.pos = pos + wsRun (rest cfg.file pos)) && ce.kind.isNotFound) = true then
            st'.setError (some ⟨pos, ce.kind⟩) else st'
        | none => st') = st' := by
      cases hce : st'.ctxErr with
      | none => rfl
      | some ce =>
        simp only
        split
        · rename_i hc
          simp only [Bool.and_eq_true, decide_eq_true_eq] at hc
          exact setError_back st' ce pos hce (by omega)
        · rfl
    unfold ltrimOut
    cases o.err <;> cases (if wsOk m (rest cfg.file pos) then none else some (wsFail m pos (rest cfg.file pos))) <;> simp only
    · exact congrArg (fun s => some (_, s)) hfix
    · exact congrArg (fun s => some (_, s)) hfix
    · exact congrArg (fun s => some (_, s)) hfix
    · split
      · exact congrArg (fun s => some (_, s)) hfix
      · split
        · exact congrArg (fun s => some (_, s)) hfix
        · exact congrArg (fun s => some (_, s)) hfix

/-- LeftTrim over an operand that succeeded after the run -/
theorem run_ltrim_res (cfg : Cfg) (fuel : Nat) (g : G) (m : WsMode) (ctx : Ctx) (pos : Nat) (st st' : St)
    (res : Res) (cp : List Nat)
    (hb : Budget cfg st) (hin : InFile cfg.file pos) (hoff : 1 ≤ cfg.file.offset)
    (hr : run cfg fuel g ctx (pos + wsRun (rest cfg.file pos)) st = some (⟨res, cp, none⟩, st')) :
    run cfg (fuel + 1) (.ltrim g m) ctx pos st =
      some (if wsOk m (rest cfg.file pos) then ⟨res, cp, none⟩
            else ⟨.nil, [], some (wsFail m pos (rest cfg.file pos))⟩, st') := by
  rw [run_ltrim cfg fuel g m ctx pos st hb hin hoff, hr]
  simp only [ltrimOut]
  by_cases h : wsOk m (rest cfg.file pos)
  · simp only [if_pos h]
  · simp only [if_neg h]

/-- LeftTrim over an operand that failed after the run -/
theorem run_ltrim_err (cfg : Cfg) (fuel : Nat) (g : G) (m : WsMode) (ctx : Ctx) (pos : Nat) (st st' : St)
    (res : Res) (cp : List Nat) (e : Err)
    (hb : Budget cfg st) (hin : InFile cfg.file pos) (hoff : 1 ≤ cfg.file.offset)
    (hr : run cfg fuel g ctx (pos + wsRun (rest cfg.file pos)) st = some (⟨res, cp, some e⟩, st')) :
    run cfg (fuel + 1) (.ltrim g m) ctx pos st =
      some (if wsOk m (rest cfg.file pos) then ⟨res, cp, some e⟩
            else if e.pos > pos + wsRun (rest cfg.file pos) then ⟨.nil, [], some (wsFail m pos (rest cfg.file pos))⟩
            else if e.kind.isNotFound then ⟨res, cp, some ⟨pos, e.kind⟩⟩
            else ⟨res, cp, some e⟩, st') := by
  rw [run_ltrim cfg fuel g m ctx pos st hb hin hoff, hr]
  simp only [ltrimOut]
  by_cases h : wsOk m (rest cfg.file pos)
  · simp only [if_pos h]
  · simp only [if_neg h]

/-! ### RightTrim -/

theorem run_rtrim (cfg : Cfg) (fuel : Nat) (g : G) (m : WsMode) (ctx : Ctx) (pos : Nat) (st : St) (hb : Budget cfg st) :
    run cfg (fuel + 1) (.rtrim g m) ctx pos st =
      match run cfg fuel g ctx pos st with
      | none => none
      | some (o, st) =>
        match o.err with
        | some e =>
          let (errPos, _) := skipWhitespaces cfg.file e.pos m
          some (⟨o.res, o.cp, some (if errPos > e.pos then ⟨errPos, e.kind⟩ else e)⟩, st)
        | none =>
          let (res', ws) := setRposRes cfg.file m o.res
          match ws with
          | some w => some (⟨.nil, [], some w⟩, st)
          | none => some (⟨res', o.cp, none⟩, st) := by
  rw [run]
  rw [if_neg (budget_guard hb)]
  rfl

/-- ast.SetReaderPos on a single TerminalNode -/
theorem setRposRes_term (f : File) (m : WsMode) (tok : Bytes) (v : Val) (p r : Nat)
    (hin : InFile f r) (hoff : 1 ≤ f.offset) :
    setRposRes f m (.one (.term tok v p r)) =
      (.one (.term tok v p (r + wsRun (rest f r))),
       if wsOk m (rest f r) then none else some (wsFail m r (rest f r))) := by
  simp only [setRposRes, setRposNode, skipWhitespaces_spec f r m hin hoff, wsToErr_verdict]

/-- RightTrim over an operand that returned a single TerminalNode -/
theorem run_rtrim_term (cfg : Cfg) (fuel : Nat) (g : G) (m : WsMode) (ctx : Ctx) (pos : Nat) (st st' : St)
    (tok : Bytes) (v : Val) (p r : Nat) (cp : List Nat)
    (hb : Budget cfg st) (hin : InFile cfg.file r) (hoff : 1 ≤ cfg.file.offset)
    (hr : run cfg fuel g ctx pos st = some (⟨.one (.term tok v p r), cp, none⟩, st')) :
    run cfg (fuel + 1) (.rtrim g m) ctx pos st =
      some (if wsOk m (rest cfg.file r) then ⟨.one (.term tok v p (r + wsRun (rest cfg.file r))), cp, none⟩
            else ⟨.nil, [], some (wsFail m r (rest cfg.file r))⟩, st') := by
  rw [run_rtrim cfg fuel g m ctx pos st hb, hr]
  simp only [setRposRes_term cfg.file m tok v p r hin hoff]
  by_cases h : wsOk m (rest cfg.file r)
  · simp only [if_pos h]
  · simp only [if_neg h]

/-- RightTrim over an operand that failed: the error moves past the whitespace at its position, whatever the mode -/
theorem run_rtrim_err (cfg : Cfg) (fuel : Nat) (g : G) (m : WsMode) (ctx : Ctx) (pos : Nat) (st st' : St)
    (res : Res) (cp : List Nat) (e : Err)
    (hb : Budget cfg st) (hin : InFile cfg.file e.pos) (hoff : 1 ≤ cfg.file.offset)
    (hr : run cfg fuel g ctx pos st = some (⟨res, cp, some e⟩, st')) :
    run cfg (fuel + 1) (.rtrim g m) ctx pos st =
      some (⟨res, cp, some ⟨e.pos + wsRun (rest cfg.file e.pos), e.kind⟩⟩, st') := by
  rw [run_rtrim cfg fuel g m ctx pos st hb, hr]
  simp only [skipWhitespaces_spec cfg.file e.pos m hin hoff]
  by_cases h : wsRun (rest cfg.file e.pos) = 0
  · rw [if_neg (by omega)]; simp [h]
  · rw [if_pos (by omega)]

end PV
