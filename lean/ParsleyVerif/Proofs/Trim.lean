/-
  Helper lemmas for property C10: `run` unfolded on LeftTrim / RightTrim, the whitespace verdict in the
  property's vocabulary (`wsOk`, `wsFail`), SetReaderPos on a single node, and the token-sequence
  induction over `seqParse`.
-/
import ParsleyVerif.Spec.TrimSpec
import ParsleyVerif.Proofs.ReaderWs
namespace PV
open PV.Text

/-- the driver's work budget does not stop this call (`maxCalls = 0` = no budget) -/
def Budget (cfg : Cfg) (st : St) : Prop := cfg.maxCalls = 0 ∨ st.calls ≤ cfg.maxCalls

theorem budget_guard {cfg : Cfg} {st : St} (h : Budget cfg st) : ¬ (cfg.maxCalls ≠ 0 ∧ st.calls > cfg.maxCalls) := by
  unfold Budget at h; omega

/-! ### the verdict of SkipWhitespaces in the property's vocabulary -/

theorem wsVerdict_ok (m : WsMode) (pos : Nat) (ws : Bytes) (h : wsOk m ws) : wsVerdict m pos ws = none := by
  cases m <;> simp only [wsOk] at h <;> simp only [wsVerdict]
  · rw [if_neg (by omega)]
  · rw [h]
  · cases hb : firstBreak ws with
    | none => exact absurd hb h
    | some i => rfl

theorem wsVerdict_fail (m : WsMode) (pos : Nat) (ws : Bytes) (h : ¬ wsOk m ws) :
    wsToErr (wsVerdict m pos ws) = some (wsFail m pos ws) := by
  cases m <;> simp only [wsOk] at h <;> simp only [wsVerdict, wsFail]
  · rw [if_pos (by omega)]; rfl
  · cases hb : firstBreak ws with
    | none => exact absurd hb h
    | some i => rfl
  · exact absurd trivial h
  · cases hb : firstBreak ws with
    | none => rfl
    | some i => rw [hb] at h; simp at h

theorem wsToErr_verdict (m : WsMode) (pos : Nat) (ws : Bytes) :
    wsToErr (wsVerdict m pos ws) = if wsOk m ws then none else some (wsFail m pos ws) := by
  by_cases h : wsOk m ws
  · rw [if_pos h, wsVerdict_ok m pos ws h]; rfl
  · rw [if_neg h, wsVerdict_fail m pos ws h]

theorem wsFail_isWs (m : WsMode) (pos : Nat) (ws : Bytes) : (wsFail m pos ws).kind.isWs = true := by
  cases m <;> rfl

/-! ### positions -/

theorem rest_add_c10 (f : File) (pos k : Nat) (h : InFile f pos) : rest f (pos + k) = (rest f pos).drop k := by
  obtain ⟨h1, _⟩ := h
  unfold rest
  rw [List.drop_drop]
  congr 1; omega

theorem inFile_add_c10 (f : File) (pos k : Nat) (h : InFile f pos) (hk : k ≤ (rest f pos).length) : InFile f (pos + k) := by
  have := rest_length f pos h
  obtain ⟨h1, h2⟩ := h
  constructor <;> omega

theorem inFile_ws (f : File) (pos : Nat) (h : InFile f pos) : InFile f (pos + wsRun (rest f pos)) :=
  inFile_add_c10 f pos _ h (wsRun_le _)

/-! ### terminals return TerminalNodes that start where they were asked to parse -/

theorem Terminal.parse_node (P : Params) (f : File) (t : Terminal) (p : Nat) (n : Node)
    (h : t.parse P f p = .node n) : ∃ tok v r, n = .term tok v p r := by
  unfold Terminal.parse at h
  cases t <;> simp only [nf, other] at h
  all_goals (repeat' (split at h))
  all_goals first
    | (cases h; exact ⟨_, _, _, rfl⟩)
    | cases h

/-! ### `run` on a terminal -/

theorem run_term (cfg : Cfg) (fuel : Nat) (t : Terminal) (ctx : Ctx) (pos : Nat) (st : St) (hb : Budget cfg st) :
    run cfg (fuel + 1) (.term t) ctx pos st =
      match t.parse cfg.params cfg.file pos with
      | .node n => some (⟨.one n, [], none⟩, st)
      | .err e => some (⟨.nil, [], some e⟩, st.logEv cfg (.termFail e.pos e.kind))
      | .panic site => some (⟨.nil, [], some ⟨pos, .panic (tokOf site)⟩⟩, st) := by
  rw [run]
  rw [if_neg (budget_guard hb)]
  rfl

theorem run_term_node (cfg : Cfg) (fuel : Nat) (t : Terminal) (ctx : Ctx) (pos : Nat) (st : St) (hb : Budget cfg st)
    (n : Node) (h : t.parse cfg.params cfg.file pos = .node n) :
    run cfg (fuel + 1) (.term t) ctx pos st = some (⟨.one n, [], none⟩, st) := by
  rw [run_term cfg fuel t ctx pos st hb, h]

theorem run_term_err (cfg : Cfg) (fuel : Nat) (t : Terminal) (ctx : Ctx) (pos : Nat) (st : St) (hb : Budget cfg st)
    (e : Err) (h : t.parse cfg.params cfg.file pos = .err e) :
    run cfg (fuel + 1) (.term t) ctx pos st = some (⟨.nil, [], some e⟩, st.logEv cfg (.termFail e.pos e.kind)) := by
  rw [run_term cfg fuel t ctx pos st hb, h]

/-! ### LeftTrim -/

/-- the context-error relocation of LeftTrim never changes the context: SetError keeps the furthest
    error, and the relocated error is never further than the one it replaces -/
theorem setError_back (st : St) (ce : Err) (pos : Nat) (hce : st.ctxErr = some ce) (h : pos ≤ ce.pos) :
    st.setError (some ⟨pos, ce.kind⟩) = st := by
  simp only [St.setError, hce]
  split
  · rename_i hge
    have : pos = ce.pos := by simp only [ge_iff_le] at hge; omega
    cases st; cases ce; simp_all
  · rfl

/-- what LeftTrim returns, given the position after the run, the pending whitespace error, and the
    operand's outcome (the `if err != nil { … }` cascade of trim.go) -/
def ltrimOut_c10 (pos pos' : Nat) (wsErr : Option Err) (o : Out) : Out :=
  match o.err with
  | some e =>
    match wsErr with
    | some w =>
      if e.pos > pos' then ⟨.nil, [], some w⟩
      else if e.kind.isNotFound then ⟨o.res, o.cp, some ⟨pos, e.kind⟩⟩
      else ⟨o.res, o.cp, some e⟩
    | none => ⟨o.res, o.cp, some e⟩
  | none =>
    match wsErr with
    | some w => ⟨.nil, [], some w⟩
    | none => ⟨o.res, o.cp, none⟩

theorem run_ltrim_c10 (cfg : Cfg) (fuel : Nat) (g : G) (m : WsMode) (ctx : Ctx) (pos : Nat) (st : St)
    (hb : Budget cfg st) (hin : InFile cfg.file pos) (hoff : 1 ≤ cfg.file.offset) :
    run cfg (fuel + 1) (.ltrim g m) ctx pos st =
      match run cfg fuel g ctx (pos + wsRun (rest cfg.file pos)) st with
      | none => none
      | some (o, st') =>
        some (ltrimOut_c10 pos (pos + wsRun (rest cfg.file pos))
          (if wsOk m (rest cfg.file pos) then none else some (wsFail m pos (rest cfg.file pos))) o, st') := by
  rw [run]
  rw [if_neg (budget_guard hb)]
  simp only [skipWhitespaces_spec cfg.file pos m hin hoff, wsToErr_verdict]
  cases hr : run cfg fuel g ctx (pos + wsRun (rest cfg.file pos)) st with
  | none => rfl
  | some p =>
    obtain ⟨o, st'⟩ := p
    simp only
    have hfix : (match st'.ctxErr with
        | some ce => if (decide (ce.pos = pos + wsRun (rest cfg.file pos)) && ce.kind.isNotFound) = true then
            st'.setError (some ⟨pos, ce.kind⟩) else st'
        | none => st') = st' := by
      cases hce : st'.ctxErr with
      | none => rfl
      | some ce =>
        simp only
        split
        · rename_i hc
          simp only [Bool.and_eq_true, decide_eq_true_eq] at hc
          exact setError_back st' ce pos hce (by omega)
        · rfl
    unfold ltrimOut_c10
    cases o.err <;> cases (if wsOk m (rest cfg.file pos) then none else some (wsFail m pos (rest cfg.file pos))) <;> simp only
    · exact congrArg (fun s => some (_, s)) hfix
    · exact congrArg (fun s => some (_, s)) hfix
    · exact congrArg (fun s => some (_, s)) hfix
    · split
      · exact congrArg (fun s => some (_, s)) hfix
      · split
        · exact congrArg (fun s => some (_, s)) hfix
        · exact congrArg (fun s => some (_, s)) hfix

/-- LeftTrim over an operand that succeeded after the run -/
theorem run_ltrim_res (cfg : Cfg) (fuel : Nat) (g : G) (m : WsMode) (ctx : Ctx) (pos : Nat) (st st' : St)
    (res : Res) (cp : List Nat)
    (hb : Budget cfg st) (hin : InFile cfg.file pos) (hoff : 1 ≤ cfg.file.offset)
    (hr : run cfg fuel g ctx (pos + wsRun (rest cfg.file pos)) st = some (⟨res, cp, none⟩, st')) :
    run cfg (fuel + 1) (.ltrim g m) ctx pos st =
      some (if wsOk m (rest cfg.file pos) then ⟨res, cp, none⟩
            else ⟨.nil, [], some (wsFail m pos (rest cfg.file pos))⟩, st') := by
  rw [run_ltrim_c10 cfg fuel g m ctx pos st hb hin hoff, hr]
  simp only [ltrimOut_c10]
  by_cases h : wsOk m (rest cfg.file pos)
  · simp only [if_pos h]
  · simp only [if_neg h]

/-- LeftTrim over an operand that failed after the run -/
theorem run_ltrim_err (cfg : Cfg) (fuel : Nat) (g : G) (m : WsMode) (ctx : Ctx) (pos : Nat) (st st' : St)
    (res : Res) (cp : List Nat) (e : Err)
    (hb : Budget cfg st) (hin : InFile cfg.file pos) (hoff : 1 ≤ cfg.file.offset)
    (hr : run cfg fuel g ctx (pos + wsRun (rest cfg.file pos)) st = some (⟨res, cp, some e⟩, st')) :
    run cfg (fuel + 1) (.ltrim g m) ctx pos st =
      some (if wsOk m (rest cfg.file pos) then ⟨res, cp, some e⟩
            else if e.pos > pos + wsRun (rest cfg.file pos) then ⟨.nil, [], some (wsFail m pos (rest cfg.file pos))⟩
            else if e.kind.isNotFound then ⟨res, cp, some ⟨pos, e.kind⟩⟩
            else ⟨res, cp, some e⟩, st') := by
  rw [run_ltrim_c10 cfg fuel g m ctx pos st hb hin hoff, hr]
  simp only [ltrimOut_c10]
  by_cases h : wsOk m (rest cfg.file pos)
  · simp only [if_pos h]
  · simp only [if_neg h]

/-! ### RightTrim -/

theorem run_rtrim (cfg : Cfg) (fuel : Nat) (g : G) (m : WsMode) (ctx : Ctx) (pos : Nat) (st : St) (hb : Budget cfg st) :
    run cfg (fuel + 1) (.rtrim g m) ctx pos st =
      match run cfg fuel g ctx pos st with
      | none => none
      | some (o, st) =>
        match o.err with
        | some e =>
          let (errPos, _) := skipWhitespaces cfg.file e.pos m
          some (⟨o.res, o.cp, some (if !e.kind.isWs && errPos > e.pos then ⟨errPos, e.kind⟩ else e)⟩, st)
        | none =>
          let (res', ws) := setRposRes cfg.file m o.res
          match ws with
          | some w => some (⟨.nil, [], some w⟩, st)
          | none => some (⟨res', o.cp, none⟩, st) := by
  rw [run]
  rw [if_neg (budget_guard hb)]
  rfl

/-- ast.SetReaderPos on a single TerminalNode -/
theorem setRposRes_term (f : File) (m : WsMode) (tok : Bytes) (v : Val) (p r : Nat)
    (hin : InFile f r) (hoff : 1 ≤ f.offset) :
    setRposRes f m (.one (.term tok v p r)) =
      (.one (.term tok v p (r + wsRun (rest f r))),
       if wsOk m (rest f r) then none else some (wsFail m r (rest f r))) := by
  simp only [setRposRes, setRposNode, skipWhitespaces_spec f r m hin hoff, wsToErr_verdict]

/-- RightTrim over an operand that returned a single TerminalNode -/
theorem run_rtrim_term (cfg : Cfg) (fuel : Nat) (g : G) (m : WsMode) (ctx : Ctx) (pos : Nat) (st st' : St)
    (tok : Bytes) (v : Val) (p r : Nat) (cp : List Nat)
    (hb : Budget cfg st) (hin : InFile cfg.file r) (hoff : 1 ≤ cfg.file.offset)
    (hr : run cfg fuel g ctx pos st = some (⟨.one (.term tok v p r), cp, none⟩, st')) :
    run cfg (fuel + 1) (.rtrim g m) ctx pos st =
      some (if wsOk m (rest cfg.file r) then ⟨.one (.term tok v p (r + wsRun (rest cfg.file r))), cp, none⟩
            else ⟨.nil, [], some (wsFail m r (rest cfg.file r))⟩, st') := by
  rw [run_rtrim cfg fuel g m ctx pos st hb, hr]
  simp only [setRposRes_term cfg.file m tok v p r hin hoff]
  by_cases h : wsOk m (rest cfg.file r)
  · simp only [if_pos h]
  · simp only [if_neg h]

/-- RightTrim over an operand that failed: a whitespace error is handed on unchanged; any other error moves
    past the whitespace at its position, whatever the mode -/
theorem run_rtrim_err (cfg : Cfg) (fuel : Nat) (g : G) (m : WsMode) (ctx : Ctx) (pos : Nat) (st st' : St)
    (res : Res) (cp : List Nat) (e : Err)
    (hb : Budget cfg st) (hin : e.kind.isWs = false → InFile cfg.file e.pos) (hoff : 1 ≤ cfg.file.offset)
    (hr : run cfg fuel g ctx pos st = some (⟨res, cp, some e⟩, st')) :
    run cfg (fuel + 1) (.rtrim g m) ctx pos st =
      some (⟨res, cp, some (if e.kind.isWs then e else ⟨e.pos + wsRun (rest cfg.file e.pos), e.kind⟩)⟩, st') := by
  rw [run_rtrim cfg fuel g m ctx pos st hb, hr]
  cases hw : e.kind.isWs with
  | true => simp [hw]
  | false =>
    simp only [skipWhitespaces_spec cfg.file e.pos m (hin hw) hoff]
    by_cases h : wsRun (rest cfg.file e.pos) = 0
    · simp [h, hw]
    · have : e.pos + wsRun (rest cfg.file e.pos) > e.pos := by omega
      simp [this, hw]

/-- RightTrim over an operand that failed with a whitespace error -/
theorem run_rtrim_wsErr (cfg : Cfg) (fuel : Nat) (g : G) (m : WsMode) (ctx : Ctx) (pos : Nat) (st st' : St)
    (res : Res) (cp : List Nat) (e : Err)
    (hb : Budget cfg st) (hoff : 1 ≤ cfg.file.offset) (hw : e.kind.isWs = true)
    (hr : run cfg fuel g ctx pos st = some (⟨res, cp, some e⟩, st')) :
    run cfg (fuel + 1) (.rtrim g m) ctx pos st = some (⟨res, cp, some e⟩, st') := by
  rw [run_rtrim_err cfg fuel g m ctx pos st st' res cp e hb (fun h => by rw [hw] at h; cases h) hoff hr, if_pos hw]

/-! ### token sequences -/

/-- whatever follows does not continue a whitespace run -/
def Stop (tail : Bytes) : Prop := ∀ c, tail.head? = some c → isWs c = false

theorem wsRun_all (g : Bytes) (hg : ∀ b ∈ g, isWs b = true) : wsRun g = g.length := by
  unfold wsRun
  induction g with
  | nil => rfl
  | cons b r ih =>
    rw [List.takeWhile_cons, if_pos (hg b (by simp))]
    simp only [List.length_cons]
    rw [ih (fun x hx => hg x (by simp [hx]))]

theorem wsRun_append (g tail : Bytes) (hg : ∀ b ∈ g, isWs b = true) (ht : Stop tail) :
    wsRun (g ++ tail) = g.length := by
  induction g with
  | nil =>
    cases tail with
    | nil => rfl
    | cons c t =>
      have := ht c rfl
      simp [wsRun, this]
  | cons b r ih =>
    have hb := hg b (by simp)
    have := ih (fun x hx => hg x (by simp [hx]))
    unfold wsRun at *
    simp only [List.cons_append, List.takeWhile_cons, hb, if_true, List.length_cons, this]

theorem firstBreak_append (g tail : Bytes) (hg : ∀ b ∈ g, isWs b = true) (ht : Stop tail) :
    firstBreak (g ++ tail) = firstBreak g := by
  induction g with
  | nil =>
    cases tail with
    | nil => rfl
    | cons c t =>
      have := ht c rfl
      simp [firstBreak, this]
  | cons b r ih =>
    have hb := hg b (by simp)
    have := ih (fun x hx => hg x (by simp [hx]))
    simp only [List.cons_append, firstBreak, hb, if_true, this]

theorem wsOk_append (m : WsMode) (g tail : Bytes) (hg : ∀ b ∈ g, isWs b = true) (ht : Stop tail) :
    wsOk m (g ++ tail) ↔ wsOk m g := by
  have h1 := wsRun_append g tail hg ht
  have h2 := firstBreak_append g tail hg ht
  have h3 := wsRun_all g hg
  cases m <;> simp only [wsOk, h1, h2, h3]

/-- the input after the leading whitespace -/
def body : List Tok → Bytes
  | [] => []
  | t :: r => t.ch :: (t.gap ++ body r)

theorem weave_eq (g0 : Bytes) (toks : List Tok) : weave g0 toks = g0 ++ body toks := by
  induction toks generalizing g0 with
  | nil => simp [weave, body]
  | cons t r ih => simp [weave, body, ih]

theorem body_stop (toks : List Tok) (hwf : ∀ t ∈ toks, t.wf) : Stop (body toks) := by
  intro c hc
  cases toks with
  | nil => simp [body] at hc
  | cons t r =>
    simp only [body, List.head?_cons, Option.some.injEq] at hc
    subst hc
    exact (hwf t (by simp)).2.1

theorem stop_cons (c : Nat) (l : Bytes) (h : isWs c = false) : Stop (c :: l) := by
  intro x hx; simp at hx; subst hx; exact h


theorem rune_parse (P : Params) (f : File) (ch : Nat) (name : Bytes) (p : Nat) (tl : Bytes)
    (hch : ch < 0x80) (hin : InFile f p) (hrest : rest f p = ch :: tl) :
    (Terminal.rune ch name).parse P f p = .node (.term (Utf8.encodeRune ch) (.rune ch) p (p + 1)) := by
  simp only [Terminal.parse, readRune_ascii f p ch hin hch, hrest, List.head?_cons, if_true]

theorem run_deco (cfg : Cfg) (d : Deco) (ch : Nat) (name pend gap tail : Bytes) (ctx : Ctx) (pos : Nat) (st : St) (F : Nat)
    (hch : ch < 0x80) (hnw : isWs ch = false) (hp : ∀ b ∈ pend, isWs b = true) (hg : ∀ b ∈ gap, isWs b = true)
    (htail : Stop tail) (hrest : rest cfg.file pos = pend ++ ch :: (gap ++ tail))
    (hin : InFile cfg.file pos) (hoff : 1 ≤ cfg.file.offset) (hb : Budget cfg st)
    (hl : match d.left with | some m => wsOk m pend | none => pend = [])
    (hr : match d.right with | some m => wsOk m gap | none => True) :
    run cfg (F + 3) (d.apply (.term (.rune ch name))) ctx pos st =
      some (⟨.one (.term (Utf8.encodeRune ch) (.rune ch) (pos + pend.length)
              (pos + pend.length + 1 + (match d.right with | some _ => gap.length | none => 0))), [], none⟩, st) := by
  have hstop : Stop (ch :: (gap ++ tail)) := stop_cons ch _ hnw
  have hk : wsRun (rest cfg.file pos) = pend.length := by rw [hrest]; exact wsRun_append pend _ hp hstop
  have hlen : (rest cfg.file pos).length = pend.length + 1 + gap.length + tail.length := by
    rw [hrest]; simp; omega
  -- the token's own position
  have hinP : InFile cfg.file (pos + pend.length) := inFile_add_c10 _ _ _ hin (by omega)
  have hrestP : rest cfg.file (pos + pend.length) = ch :: (gap ++ tail) := by
    rw [rest_add_c10 _ _ _ hin, hrest]; simp
  have hinR : InFile cfg.file (pos + pend.length + 1) := inFile_add_c10 _ _ _ hinP (by rw [hrestP]; simp)
  have hrestR : rest cfg.file (pos + pend.length + 1) = gap ++ tail := by
    rw [rest_add_c10 _ _ _ hinP, hrestP]; simp
  have hkR : wsRun (rest cfg.file (pos + pend.length + 1)) = gap.length := by
    rw [hrestR]; exact wsRun_append gap _ hg htail
  have hokL : ∀ m, wsOk m (rest cfg.file pos) ↔ wsOk m pend := by
    intro m; rw [hrest]; exact wsOk_append m pend _ hp hstop
  have hokR : ∀ m, wsOk m (rest cfg.file (pos + pend.length + 1)) ↔ wsOk m gap := by
    intro m; rw [hrestR]; exact wsOk_append m gap _ hg htail
  have base : ∀ fuel, run cfg (fuel + 1) (.term (.rune ch name)) ctx (pos + pend.length) st =
      some (⟨.one (.term (Utf8.encodeRune ch) (.rune ch) (pos + pend.length) (pos + pend.length + 1)), [], none⟩, st) :=
    fun fuel => run_term_node cfg fuel _ ctx _ st hb _ (rune_parse cfg.params cfg.file ch name _ _ hch hinP hrestP)
  cases d with
  | bare =>
    simp only [Deco.left] at hl
    subst hl
    simpa [Deco.apply, Deco.right] using base (F + 2)
  | l m =>
    simp only [Deco.left] at hl
    have := run_ltrim_res cfg (F + 2) (.term (.rune ch name)) m ctx pos st st _ _ hb hin hoff (by rw [hk]; exact base (F + 1))
    rw [if_pos ((hokL m).2 hl)] at this
    simpa [Deco.apply, Deco.right] using this
  | r m =>
    simp only [Deco.left] at hl
    simp only [Deco.right] at hr
    subst hl
    simp only [List.length_nil, Nat.add_zero] at *
    have := run_rtrim_term cfg (F + 2) (.term (.rune ch name)) m ctx pos st st _ _ _ _ _ hb hinR hoff (base (F + 1))
    rw [if_pos ((hokR m).2 hr), hkR] at this
    simpa [Deco.apply, Deco.right] using this
  | lr lm rm =>
    simp only [Deco.left] at hl
    simp only [Deco.right] at hr
    have h1 := run_rtrim_term cfg (F + 1) (.term (.rune ch name)) rm ctx (pos + pend.length) st st _ _ _ _ _ hb hinR hoff (base F)
    rw [if_pos ((hokR rm).2 hr), hkR] at h1
    have := run_ltrim_res cfg (F + 2) (.rtrim (.term (.rune ch name)) rm) lm ctx pos st st _ _ hb hin hoff (by rw [hk]; exact h1)
    rw [if_pos ((hokL lm).2 hl)] at this
    simpa [Deco.apply, Deco.right] using this
  | rl lm rm =>
    simp only [Deco.left] at hl
    simp only [Deco.right] at hr
    have h1 := run_ltrim_res cfg (F + 1) (.term (.rune ch name)) lm ctx pos st st _ _ hb hin hoff (by rw [hk]; exact base F)
    rw [if_pos ((hokL lm).2 hl)] at h1
    have := run_rtrim_term cfg (F + 2) (.ltrim (.term (.rune ch name)) lm) rm ctx pos st st _ _ _ _ _ hb hinR hoff h1
    rw [if_pos ((hokR rm).2 hr), hkR] at this
    simpa [Deco.apply, Deco.right] using this


theorem drop_tok_gap (pend : Bytes) (c : Nat) (gap tl : Bytes) :
    (pend ++ c :: (gap ++ tl)).drop (pend.length + 1 + gap.length) = tl := by
  rw [show pend ++ c :: (gap ++ tl) = (pend ++ c :: gap) ++ tl by simp]
  exact List.drop_left' (by simp; omega)

theorem drop_tok (pend : Bytes) (c : Nat) (tl : Bytes) : (pend ++ c :: tl).drop (pend.length + 1) = tl := by
  rw [show pend ++ c :: tl = (pend ++ [c]) ++ tl by simp]
  exact List.drop_left' (by simp)

theorem cpUnion_nil_right (a : List Nat) : cpUnion a [] = a := by
  cases a <;> simp [cpUnion]

theorem handleResult_pos (sh : SeqShape) (p q : Nat) (n : Node) (l : List Node) :
    handleResult sh p (n :: l) = handleResult sh q (n :: l) := by
  cases l <;> rfl

theorem seqAlts_one (k : Node → SeqSt → St → Option (Bool × SeqSt × St)) (n : Node) (ss ss' : SeqSt) (st st' : St) (b : Bool)
    (h : k n ss st = some (b, ss', st')) : ∃ b', seqAlts k [n] ss st = some (b', ss', st') := by
  cases b with
  | true => exact ⟨true, by simp only [seqAlts, h]⟩
  | false => exact ⟨false, by simp only [seqAlts, h]⟩

theorem seqParse_toks (cfg : Cfg) (hmc : cfg.maxCalls = 0) (hoff : 1 ≤ cfg.file.offset) (sh : SeqShape) (F : Nat) :
    ∀ (suf : List Tok) (depth : Nat) (nodes : List Node) (pend : Bytes) (ctx : Ctx) (pos : Nat) (merge : Bool)
      (ss : SeqSt) (st : St) (fuel : Nat),
      (∀ i, sh.lookup (depth + i) = (suf.map Tok.g)[i]?) → sh.lenCheck (depth + suf.length) = true →
      (depth = 0 → nodes = []) → (∀ t ∈ suf, t.wf) → (∀ b ∈ pend, isWs b = true) →
      rest cfg.file pos = weave pend suf → InFile cfg.file pos → Adm pend suf → suf.length + 1 ≤ fuel →
      ∃ b, seqParse (run cfg (F + 3)) sh fuel depth nodes ctx pos merge ss st =
        some (b, { ss with result := appendNode ss.result (.one (handleResult sh (endPos pos pend suf) (nodes ++ tokNodes pos pend suf))) },
              { st with calls := st.calls + suf.length }) := by
  intro suf
  induction suf with
  | nil =>
    intro depth nodes pend ctx pos merge ss st fuel hlk hlen hnodes hwf hp hrest hin hadm hfuel
    obtain ⟨fuel, rfl⟩ : ∃ k, fuel = k + 1 := ⟨fuel - 1, by simp at hfuel; omega⟩
    have h0 := hlk 0
    simp only [Nat.add_zero, List.map_nil, List.getElem?_nil] at h0
    simp only [List.length_nil, Nat.add_zero] at hlen
    rw [seqParse]
    simp only [h0, hlen, if_true, pickErr, tokNodes, List.append_nil, endPos]
    simp only [cpUnion_nil_right, ite_self, List.length_nil, Nat.add_zero]
    by_cases hd : depth > 0
    · rw [if_pos hd]; exact ⟨_, rfl⟩
    · rw [if_neg hd, hnodes (by omega)]; exact ⟨_, rfl⟩
  | cons t r ih =>
    intro depth nodes pend ctx pos merge ss st fuel hlk hlen hnodes hwf hp hrest hin hadm hfuel
    obtain ⟨fuel, rfl⟩ : ∃ k, fuel = k + 1 := ⟨fuel - 1, by simp at hfuel; omega⟩
    have h0 := hlk 0
    simp only [Nat.add_zero, List.map_cons, List.getElem?_cons_zero] at h0
    obtain ⟨hwch, hwnw, hwgap⟩ := hwf t (by simp)
    have hwfr : ∀ t' ∈ r, t'.wf := fun t' h' => hwf t' (by simp [h'])
    obtain ⟨hl, hr⟩ := hadm
    have hrest' : rest cfg.file pos = pend ++ t.ch :: (t.gap ++ body r) := by
      rw [hrest, weave_eq]; rfl
    have hb : Budget cfg st.regCall := Or.inl hmc
    have hstep := run_deco cfg t.d t.ch t.name pend t.gap (body r) ctx pos st.regCall F hwch hwnw hp hwgap
      (body_stop r hwfr) hrest' hin hoff hb hl
      (by cases hdr : t.d.right with
          | none => trivial
          | some m => rw [hdr] at hr; exact hr.1)
    have hlk' : ∀ i, sh.lookup (depth + 1 + i) = (r.map Tok.g)[i]? := by
      intro i
      have := hlk (i + 1)
      simp only [List.map_cons, List.getElem?_cons_succ] at this
      rw [← this]; congr 1; omega
    have hlen' : sh.lenCheck (depth + 1 + r.length) = true := by
      rw [← hlen]; congr 1; simp only [List.length_cons]; omega
    have hlenR : (rest cfg.file pos).length = pend.length + 1 + t.gap.length + (body r).length := by
      rw [hrest']; simp; omega
    obtain ⟨sscp, ssres, sserr⟩ := ss
    rw [seqParse]
    simp only [h0]
    rw [show run cfg (F + 3) t.g ctx pos st.regCall = _ from hstep]
    simp only [pickErr, cpUnion_nil_right, ite_self, Res.alts]
    cases hdr : t.d.right with
    | some m =>
      rw [hdr] at hr
      simp only [tokNodes, endPos, hdr]
      have hinN : InFile cfg.file (pos + pend.length + 1 + t.gap.length) := by
        have := inFile_add_c10 _ _ (pend.length + 1 + t.gap.length) hin (by omega)
        rw [show pos + pend.length + 1 + t.gap.length = pos + (pend.length + 1 + t.gap.length) by omega]; exact this
      have hrestN : rest cfg.file (pos + pend.length + 1 + t.gap.length) = weave [] r := by
        rw [show pos + pend.length + 1 + t.gap.length = pos + (pend.length + 1 + t.gap.length) by omega,
          rest_add_c10 _ _ _ hin, hrest', weave_eq, drop_tok_gap]
        rfl
      obtain ⟨b, hb'⟩ := ih (depth + 1)
        (nodes ++ [.term (Utf8.encodeRune t.ch) (.rune t.ch) (pos + pend.length) (pos + pend.length + 1 + t.gap.length)]) []
        (if pos + pend.length + 1 + t.gap.length > pos then [] else ctx) (pos + pend.length + 1 + t.gap.length)
        (merge && !decide (pos + pend.length + 1 + t.gap.length > pos)) ⟨sscp, ssres, sserr⟩ st.regCall fuel
        hlk' hlen' (by omega) hwfr (by simp) hrestN hinN hr.2 (by simp only [List.length_cons] at hfuel; omega)
      obtain ⟨b', hb''⟩ := seqAlts_one (fun n ss st =>
          seqParse (run cfg (F + 3)) sh fuel (depth + 1) (nodes ++ [n]) (if n.rpos > pos then [] else ctx) n.rpos
            (merge && !decide (n.rpos > pos)) ss st) _ _ _ _ _ b hb'
      refine ⟨b', ?_⟩
      rw [hb'']
      simp only [List.append_assoc, List.cons_append, List.nil_append, St.regCall, List.length_cons]
      congr 4
      omega
    | none =>
      rw [hdr] at hr
      simp only [tokNodes, endPos, hdr, Nat.add_zero]
      have hinN : InFile cfg.file (pos + pend.length + 1) := by
        have := inFile_add_c10 _ _ (pend.length + 1) hin (by omega)
        rw [show pos + pend.length + 1 = pos + (pend.length + 1) by omega]; exact this
      have hrestN : rest cfg.file (pos + pend.length + 1) = weave t.gap r := by
        rw [show pos + pend.length + 1 = pos + (pend.length + 1) by omega,
          rest_add_c10 _ _ _ hin, hrest', weave_eq, drop_tok]
      obtain ⟨b, hb'⟩ := ih (depth + 1)
        (nodes ++ [.term (Utf8.encodeRune t.ch) (.rune t.ch) (pos + pend.length) (pos + pend.length + 1)]) t.gap
        (if pos + pend.length + 1 > pos then [] else ctx) (pos + pend.length + 1)
        (merge && !decide (pos + pend.length + 1 > pos)) ⟨sscp, ssres, sserr⟩ st.regCall fuel
        hlk' hlen' (by omega) hwfr hwgap hrestN hinN hr (by simp only [List.length_cons] at hfuel; omega)
      obtain ⟨b', hb''⟩ := seqAlts_one (fun n ss st =>
          seqParse (run cfg (F + 3)) sh fuel (depth + 1) (nodes ++ [n]) (if n.rpos > pos then [] else ctx) n.rpos
            (merge && !decide (n.rpos > pos)) ss st) _ _ _ _ _ b hb'
      refine ⟨b', ?_⟩
      rw [hb'']
      simp only [List.append_assoc, List.cons_append, List.nil_append, St.regCall, List.length_cons]
      congr 4
      omega


theorem endPos_nil (pos : Nat) (pend : Bytes) : endPos pos pend [] = pos := rfl

theorem tokNodes_ne_nil (pos : Nat) (pend : Bytes) (t : Tok) (r : List Tok) :
    ∃ n l, tokNodes pos pend (t :: r) = n :: l := by
  simp only [tokNodes]
  cases t.d.right <;> exact ⟨_, _, rfl⟩

theorem run_seqOf_toks (cfg : Cfg) (hmc : cfg.maxCalls = 0) (hoff : 1 ≤ cfg.file.offset)
    (toks : List Tok) (o : SeqOpts) (g0 : Bytes) (ctx : Ctx) (pos : Nat) (st : St) (fuel : Nat) (sh : SeqShape)
    (hsh : (G.seq .seqOf (toks.map Tok.g) o).shape = some sh)
    (hwf : ∀ t ∈ toks, t.wf) (hg0 : ∀ b ∈ g0, isWs b = true)
    (hrest : rest cfg.file pos = weave g0 toks) (hin : InFile cfg.file pos) (hadm : Adm g0 toks)
    (hfuel : toks.length + 4 ≤ fuel) :
    run cfg fuel (.seq .seqOf (toks.map Tok.g) o) ctx pos st =
      some (⟨.one (handleResult sh pos (tokNodes pos g0 toks)), [], none⟩,
            { st with calls := st.calls + toks.length }) := by
  obtain ⟨F, rfl⟩ : ∃ F, fuel = F + 4 := ⟨fuel - 4, by omega⟩
  have hlk : ∀ i, sh.lookup (0 + i) = (toks.map Tok.g)[i]? := by
    intro i; simp only [G.shape, Option.some.injEq] at hsh; subst hsh; simp
  have hlen : sh.lenCheck (0 + toks.length) = true := by
    simp only [G.shape, Option.some.injEq] at hsh; subst hsh; simp
  obtain ⟨b, hsp⟩ := seqParse_toks cfg hmc hoff sh F toks 0 [] g0 ctx pos true {} st (F + 3) hlk hlen (fun _ => rfl)
    hwf hg0 hrest hin hadm (by omega)
  rw [run]
  · rw [if_neg (budget_guard (Or.inl hmc))]
    simp only [hsh, hsp, appendNode, Res.isNil, List.nil_append, Bool.false_eq_true, if_false, St.setError]
    have hh : handleResult sh (endPos pos g0 toks) (tokNodes pos g0 toks) = handleResult sh pos (tokNodes pos g0 toks) := by
      cases toks with
      | nil => rfl
      | cons t r =>
        obtain ⟨n, l, hnl⟩ := tokNodes_ne_nil pos g0 t r
        rw [hnl]; exact handleResult_pos sh _ _ n l
    rw [hh]
  all_goals (intros; contradiction)

/-! ### the expected nodes -/

/-- `firstBreak` is the index of the first line break of the whitespace run -/
theorem firstBreak_spec (ws : Bytes) (i : Nat) (h : firstBreak ws = some i) :
    i < wsRun ws ∧ isBreak (ws.getD i 0) = true ∧ ∀ j, j < i → isBreak (ws.getD j 0) = false := by
  induction ws generalizing i with
  | nil => simp [firstBreak] at h
  | cons b r ih =>
    have hlt := firstBreak_lt _ _ h
    refine ⟨hlt, ?_⟩
    unfold firstBreak at h
    by_cases hw : isWs b = true
    · rw [if_pos hw] at h
      by_cases hb : isBreak b = true
      · rw [if_pos hb] at h; cases h
        exact ⟨by simpa using hb, fun j hj => absurd hj (Nat.not_lt_zero _)⟩
      · rw [if_neg hb] at h
        cases hfb : firstBreak r with
        | none => simp [hfb] at h
        | some k =>
          simp [hfb] at h; subst h
          obtain ⟨_, h2, h3⟩ := ih k hfb
          refine ⟨by simpa using h2, ?_⟩
          intro j hj
          cases j with
          | zero => simpa using hb
          | succ j => simpa using h3 j (by omega)
    · rw [if_neg hw] at h; cases h

theorem handleResult_cons (sh : SeqShape) (p : Nat) (n : Node) (l : List Node) (hs : sh.single = false) :
    handleResult sh p (n :: l) = .nt sh.token (n :: l) n.pos ((((n :: l).getLast?).getD n).rpos) sh.interp := by
  cases l with
  | nil => simp [handleResult, hs]
  | cons a l => simp [handleResult, List.getLast?_cons_cons]

theorem tokNodes_shift (pos : Nat) (pend : Bytes) (toks : List Tok) :
    tokNodes pos pend toks = tokNodes (pos + pend.length) [] toks := by
  cases toks with
  | nil => rfl
  | cons t r => simp only [tokNodes, List.length_nil, Nat.add_zero]

theorem endPos_shift (pos : Nat) (pend : Bytes) (toks : List Tok) (hne : toks ≠ []) :
    endPos pos pend toks = endPos (pos + pend.length) [] toks := by
  cases toks with
  | nil => exact absurd rfl hne
  | cons t r => simp only [endPos, List.length_nil, Nat.add_zero]

theorem tokNodes_length (pos : Nat) (pend : Bytes) (toks : List Tok) : (tokNodes pos pend toks).length = toks.length := by
  induction toks generalizing pos pend with
  | nil => rfl
  | cons t r ih =>
    simp only [tokNodes]
    cases t.d.right <;> simp [ih]

theorem weave_length (g0 : Bytes) (toks : List Tok) : (weave g0 toks).length = g0.length + (weave [] toks).length := by
  rw [weave_eq, weave_eq]; simp

/-- the i-th node: the bare terminal's token and value, its own byte's position, end moved only by its own right trim -/
theorem tokNodes_get (pos : Nat) (pend : Bytes) (toks : List Tok) (i : Nat) (t : Tok) (h : toks[i]? = some t) :
    (tokNodes pos pend toks)[i]? = some (.term (Utf8.encodeRune t.ch) (.rune t.ch)
      (pos + (weave pend (toks.take i)).length)
      (pos + (weave pend (toks.take i)).length + 1 + (match t.d.right with | some _ => t.gap.length | none => 0))) := by
  induction toks generalizing pos pend i with
  | nil => simp at h
  | cons t0 r ih =>
    cases i with
    | zero =>
      simp only [List.getElem?_cons_zero, Option.some.injEq] at h; subst h
      simp only [tokNodes, List.take_zero, weave]
      cases t0.d.right <;> simp
    | succ i =>
      simp only [List.getElem?_cons_succ] at h
      simp only [tokNodes, List.take_succ_cons, weave]
      cases hd : t0.d.right with
      | none =>
        simp only [List.getElem?_cons_succ]
        rw [ih _ _ i h]
        simp only [List.length_append, List.length_cons]
        congr 2 <;> omega
      | some m =>
        simp only [List.getElem?_cons_succ]
        rw [ih _ _ i h]
        simp only [List.length_append, List.length_cons, weave_length t0.gap]
        congr 2 <;> omega

/-- the byte at that position of the input is the token's byte -/
theorem weave_byte (g0 : Bytes) (toks : List Tok) (i : Nat) (t : Tok) (h : toks[i]? = some t) :
    (weave g0 toks)[(weave g0 (toks.take i)).length]? = some t.ch := by
  induction toks generalizing g0 i with
  | nil => simp at h
  | cons t0 r ih =>
    cases i with
    | zero =>
      simp only [List.getElem?_cons_zero, Option.some.injEq] at h; subst h
      simp [weave]
    | succ i =>
      simp only [List.getElem?_cons_succ] at h
      simp only [List.take_succ_cons, weave, List.length_append, List.length_cons]
      rw [List.getElem?_append_right (by omega)]
      rw [show g0.length + ((weave t0.gap (List.take i r)).length + 1) - g0.length = (weave t0.gap (List.take i r)).length + 1 by omega]
      simp only [List.getElem?_cons_succ]
      exact ih _ i h

theorem tokNodes_tv (pos : Nat) (pend : Bytes) (toks : List Tok) :
    (tokNodes pos pend toks).map Node.tv = toks.map (fun t => (Utf8.encodeRune t.ch, some (Val.rune t.ch))) := by
  induction toks generalizing pos pend with
  | nil => rfl
  | cons t r ih =>
    simp only [tokNodes]
    cases t.d.right <;> simp [Node.tv, ih]

theorem tokNodes_head (pos : Nat) (pend : Bytes) (t : Tok) (r : List Tok) :
    ∃ n l, tokNodes pos pend (t :: r) = n :: l ∧ n.pos = pos + pend.length := by
  simp only [tokNodes]
  cases t.d.right <;> exact ⟨_, _, rfl, rfl⟩

theorem tokNodes_step (pos : Nat) (pend : Bytes) (t : Tok) (r : List Tok) :
    ∃ n p' pend', tokNodes pos pend (t :: r) = n :: tokNodes p' pend' r ∧
      endPos pos pend (t :: r) = endPos p' pend' r ∧ n.rpos = p' := by
  rw [tokNodes, endPos]
  cases t.d.right with
  | none => exact ⟨_, _, _, rfl, rfl, rfl⟩
  | some m => exact ⟨_, _, _, rfl, rfl, rfl⟩

theorem tokNodes_last (pos : Nat) (pend : Bytes) (toks : List Tok) (hne : toks ≠ []) :
    (tokNodes pos pend toks).getLast?.map Node.rpos = some (endPos pos pend toks) := by
  induction toks generalizing pos pend with
  | nil => exact absurd rfl hne
  | cons t r ih =>
    obtain ⟨n, p', pend', h1, h2, h3⟩ := tokNodes_step pos pend t r
    rw [h1, h2]
    cases r with
    | nil => simp [tokNodes, endPos, h3]
    | cons t' r' =>
      obtain ⟨n', l, hnl, _⟩ := tokNodes_head p' pend' t' r'
      rw [← ih p' pend' (by simp), hnl, List.getLast?_cons_cons]

end PV
