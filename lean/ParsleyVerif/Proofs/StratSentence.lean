/-
  Completeness of a stratified grammar THROUGH the `Sentence` wrapper (cf. Proofs/SentenceComplete.lean): if the
  stratum-1 operand has a curtailed derivation `DerivesSC` from the zero counters that ends at the end of the
  input, then `Sentence(operand)` returns a result — whenever it answers at all.  The argument is that of
  `sentence_complete`; the one fact about the operand it needs — the derivation is among the operand's
  alternatives — is the joint reuse invariant `run_strat`.
-/
import ParsleyVerif.Proofs.StratRun
import ParsleyVerif.Proofs.SentenceComplete
namespace PV.Strat
open PV PV.Text

theorem sentence_complete_strat (cfg : Cfg) (s : Cert) (bodyOf : Nat → G) (henv : EnvS cfg s bodyOf)
    (g : G) (hg : UpS cfg s bodyOf g) (fuel : Nat) (pos : Nat) (hin : InFile cfg.file pos) (st : St)
    (hst : CacheS cfg s bodyOf st) (o : Out) (st' : St)
    (h : run cfg fuel (G.sentence g) [] pos st = some (o, st'))
    (y : Node) (hy : DerivesSC cfg s zeroC g pos y) (hend : isEOF cfg.file y.rpos = true) :
    o.res.alts ≠ [] ∧ o.err = none := by
  cases fuel with
  | zero => simp [run] at h
  | succ f =>
    rw [run_seqfam cfg f _ (sentenceShape g) [] pos st (sentence_shape g)] at h
    split at h
    · cases h
    · unfold runSeq at h
      split at h
      · cases h
      · rename_i b ss st1 hsp
        have hfin : seqFinish (sentenceShape g) pos ss st1 = (o, st') := by injection h
        -- the result of the loop is not empty
        have hne : ss.result.alts ≠ [] := by
          cases f with
          | zero => simp [seqParse] at hsp
          | succ f1 =>
            have hsp' := hsp
            rw [show seqParse (run cfg (f1 + 1)) (sentenceShape g) (f1 + 1) 0 [] [] pos true {} st =
              seqParse (run cfg (f1 + 1)) (sentenceShape g) (f1 + 1) (Frame.mk 0 [] [] pos true).depth
                (Frame.mk 0 [] [] pos true).nodes (Frame.mk 0 [] [] pos true).ctx (Frame.mk 0 [] [] pos true).pos
                (Frame.mk 0 [] [] pos true).merge {} st from rfl, seqParse_succ] at hsp'
            have hl0 : (sentenceShape g).lookup (Frame.mk 0 [] [] pos true).depth = some g := rfl
            simp only [seqStep, hl0] at hsp'
            cases hr : run cfg (f1 + 1) g [] pos st.regCall with
            | none => simp [hr] at hsp'
            | some p =>
              obtain ⟨o1, st2⟩ := p
              obtain ⟨hO, _, _⟩ := run_strat cfg s bodyOf henv (f1 + 1) g [] pos st.regCall o1 st2 hg hin (CtxUp.nil s)
                (MixCache.of_eq hst rfl) hr
              have hym : y ∈ o1.res.alts := hO zeroC y (by intro k _; exact Nat.zero_le _) hy
              have hnn : o1.res.isNil = false := by
                cases hres : o1.res with
                | nil => rw [hres] at hym; cases hym
                | one _ => rfl
                | list _ => rfl
              simp only [hr, hnn, Bool.false_eq_true, ↓reduceIte] at hsp'
              refine seqAlts_reach _ (fun s => s.result.alts ≠ []) y o1.res.alts hym ?_ ?_ ?_ _ _ _ _ _ hsp'
              · intro n _ ss2 st2 b2 ss3 st3 hk hq
                cases seqParse_result _ _ f1 ((Frame.mk 0 [] [] pos true).next n) ss2 st2 b2 ss3 st3 rfl hk with
                | inl h1 => rw [h1]; exact hq
                | inr h1 => exact h1
              · intro n _ ss2 st2 ss3 st3 hk
                exact seqParse_true_ne _ _ f1 _ ss2 st2 ss3 st3 hk
              · intro ss2 st2 b2 ss3 st3 hk
                exact seqParse_eof_ne cfg (f1 + 1) (sentenceShape g) f1 ((Frame.mk 0 [] [] pos true).next y) ss2 st2 b2 ss3 st3
                  rfl rfl rfl hend hk
        have hnil : ss.result.isNil = false := by
          cases hres : ss.result with
          | nil => rw [hres] at hne; exact absurd rfl hne
          | one _ => rfl
          | list _ => rfl
        have e1 : (seqFinish (sentenceShape g) pos ss st1).1.res = ss.result := by simp [seqFinish, hnil]
        have e2 : (seqFinish (sentenceShape g) pos ss st1).1.err = none := by
          simp only [seqFinish, hnil, Bool.false_eq_true, ↓reduceIte]
        rw [hfin] at e1 e2
        exact ⟨by rw [e1]; exact hne, e2⟩

end PV.Strat
