/-
  STRATUM 0 NEVER CURTAILS AND IS EXACT (property C01, stratified grammars — Spec/Strat.lean).

  `run_low`: a call of a stratum-0 parser `g` — from ANY left-recursion context whose counters of the Memoize
  indexes `g` can enter at its start position are zero (`ZeroL`; in particular from every context a stratum-1
  parser can be in, which counts stratum-1 indexes only), at any position of the file, from any cache whose
  stratum-0 entries are exact and were stored with empty context and empty curtailing set (`MixCache`; the
  entries of the other indexes are only carried along: predicate `U`) — returns

      an EMPTY curtailing set,   the exact big-step result `Big cfg g pos o.res o.err.isSome`,
      and a cache with the same property.

  One induction on fuel over all of `run` for the stratum-0 operators, merging the two arguments that exist
  separately for whole grammars: Proofs/BigStepRun.lean (`run_big`: an uncurtailed run computes `Big`; there
  "uncurtailed" is a hypothesis on the final ghost log) and Proofs/LRFRun.lean (`run_lrf`: under the `lrf`
  certificate nothing is curtailed; there the invariant is stated over the ghost activation stack).  Here the
  curtailment branch of Memoize is excluded directly by `ZeroL`:

    * descending to a sub-parser at a left position shrinks `lrfMemos` (a reference: closure of `lm`);
    * entering `memo i b` increments `i` only, and `i ∉ lrfMemos b` (condition (ii) of `lrf`);
    * an element of a sequence reached after a consuming element runs under the EMPTY context; an element
      reached at the same position is a left position because every earlier element returned a zero-width
      node, hence may be empty — soundness of the nullable tables, obtained at derivation level
      (`low_big` of Proofs/StratBasics.lean) from the exact result the induction hypothesis provides.

  Since nothing is curtailed every stratum-0 result is stored with `Filter([]) = []`, so every later look-up,
  from whatever context, is a hit that returns the exact result.
-/
import ParsleyVerif.Proofs.StratBasics
import ParsleyVerif.Proofs.BigStepRun
import ParsleyVerif.Proofs.LRFRun
import ParsleyVerif.Proofs.RunComplete
namespace PV.Strat
open PV PV.Text PV.Big

/-! ### the cache of a stratified run -/

/-- a stratum-0 entry: stored uncurtailed, and exact -/
structure LowEntry (cfg : Cfg) (bodyOf : Nat → G) (e : CacheEntry) : Prop where
  cp : e.cp = []
  ctx : e.ctx = []
  big : Big cfg (bodyOf e.idx) e.pos e.res e.err.isSome

/-- stratum-0 entries are `LowEntry`s; the others satisfy `U` -/
def MixCache (cfg : Cfg) (s : Cert) (bodyOf : Nat → G) (U : CacheEntry → Prop) (st : St) : Prop :=
  ∀ e ∈ st.cache, (s.lowIdx e.idx = true → LowEntry cfg bodyOf e) ∧ (s.lowIdx e.idx = false → U e)

theorem MixCache.of_eq {cfg : Cfg} {s : Cert} {bodyOf : Nat → G} {U : CacheEntry → Prop} {st st' : St}
    (h : MixCache cfg s bodyOf U st) (hc : st'.cache = st.cache) : MixCache cfg s bodyOf U st' := by
  unfold MixCache; rw [hc]; exact h

theorem MixCache.empty {cfg : Cfg} {s : Cert} {bodyOf : Nat → G} {U : CacheEntry → Prop} :
    MixCache cfg s bodyOf U {} := by
  intro e he; cases he

/-- the counters of the Memoize indexes `g` can enter at its start position are zero -/
def ZeroL (s : Cert) (g : G) (ctx : Ctx) : Prop := ∀ i ∈ lrfMemos s.lrf g, ctx.get i = 0

theorem ZeroL.nil (s : Cert) (g : G) : ZeroL s g [] := fun _ _ => rfl

theorem ZeroL.mono {s : Cert} {g g' : G} {ctx : Ctx} (h : ZeroL s g ctx)
    (hsub : ∀ i ∈ lrfMemos s.lrf g', i ∈ lrfMemos s.lrf g) : ZeroL s g' ctx :=
  fun i hi => h i (hsub i hi)

def RunLow (cfg : Cfg) (s : Cert) (bodyOf : Nat → G) (U : CacheEntry → Prop) (r : RunFn) : Prop :=
  ∀ g ctx pos st o st', LowS cfg s bodyOf g → InFile cfg.file pos → ZeroL s g ctx → MixCache cfg s bodyOf U st →
    r g ctx pos st = some (o, st') →
    o.cp = [] ∧ Big cfg g pos o.res o.err.isSome ∧ MixCache cfg s bodyOf U st'

theorem cpUnion_nil : cpUnion [] [] = [] := by simp [cpUnion]

/-! ### Any -/

theorem anyLoop_low {cfg : Cfg} {s : Cert} {bodyOf : Nat → G} {U : CacheEntry → Prop} {r : RunFn}
    (hr : RunLow cfg s bodyOf U r) (ctx : Ctx) (pos : Nat) (hin : InFile cfg.file pos) :
    ∀ (gs : List G) a st a' st', (∀ g ∈ gs, LowS cfg s bodyOf g ∧ ZeroL s g ctx) →
      anyLoop r ctx pos gs a st = some (a', st') → a.cp = [] → MixCache cfg s bodyOf U st →
      MixCache cfg s bodyOf U st' ∧ a'.cp = [] ∧
        ∃ e, BigAny cfg gs pos a.res a'.res e ∧ altFlag a' = (altFlag a || e) := by
  intro gs
  induction gs with
  | nil =>
    intro a st a' st' _ h hcp hc
    simp only [anyLoop] at h
    cases h
    exact ⟨hc, hcp, false, .nil, by simp⟩
  | cons g gs ih =>
    intro a st a' st' hall h hcp hc
    simp only [anyLoop] at h
    split at h
    · cases h
    · rename_i o st1 hrun
      obtain ⟨hg, hz⟩ := hall g (List.mem_cons_self ..)
      obtain ⟨ho, hb, hc1⟩ := hr g ctx pos st.regCall o st1 hg hin hz (hc.of_eq rfl) hrun
      obtain ⟨f1, f2, _, _⟩ := altErr_fields pos { a with cp := cpUnion a.cp o.cp, res := appendNode a.res o.res } o.err
      obtain ⟨hc2, hcp2, e2, hb2, hf2⟩ := ih _ _ _ _ (fun g' hg' => hall g' (List.mem_cons_of_mem _ hg')) h
        (by rw [f1]; simp only [hcp, ho]; exact cpUnion_nil) hc1
      rw [f2] at hb2
      refine ⟨hc2, hcp2, o.err.isSome || e2, .cons hb hb2, ?_⟩
      rw [hf2, altFlag_altErr]
      simp only [altFlag, Bool.or_assoc]

/-! ### Choice -/

theorem choiceLoop_low {cfg : Cfg} {s : Cert} {bodyOf : Nat → G} {U : CacheEntry → Prop} {r : RunFn}
    (hr : RunLow cfg s bodyOf U r) (ctx : Ctx) (pos : Nat) (hin : InFile cfg.file pos) :
    ∀ (gs : List G) a st out a' st', (∀ g ∈ gs, LowS cfg s bodyOf g ∧ ZeroL s g ctx) →
      choiceLoop r ctx pos gs a st = some (out, a', st') → a.cp = [] → MixCache cfg s bodyOf U st →
      MixCache cfg s bodyOf U st' ∧ a'.cp = [] ∧ ∃ R e, BigChoice cfg gs pos R e ∧
        (match out with
         | some o => o.res = R ∧ R.isNil = false ∧ o.err = none ∧ e = false ∧ o.cp = []
         | none => R = .nil ∧ altFlag a' = (altFlag a || e)) := by
  intro gs
  induction gs with
  | nil =>
    intro a st out a' st' _ h hcp hc
    simp only [choiceLoop] at h
    cases h
    exact ⟨hc, hcp, .nil, false, .nil, rfl, by simp⟩
  | cons g gs ih =>
    intro a st out a' st' hall h hcp hc
    simp only [choiceLoop] at h
    split at h
    · cases h
    · rename_i o st1 hrun
      obtain ⟨hg, hz⟩ := hall g (List.mem_cons_self ..)
      obtain ⟨ho, hb, hc1⟩ := hr g ctx pos st.regCall o st1 hg hin hz (hc.of_eq rfl) hrun
      have hcp1 : (altErr pos { a with cp := cpUnion a.cp o.cp } o.err).cp = [] := by
        rw [(altErr_fields pos _ o.err).1]; simp only [hcp, ho]; exact cpUnion_nil
      by_cases hn : o.res.isNil = true
      · simp only [hn, Bool.not_true, Bool.false_eq_true, ↓reduceIte] at h
        obtain ⟨hc2, hcp2, R, e2, hb2, hout⟩ := ih _ _ _ _ _ (fun g' hg' => hall g' (List.mem_cons_of_mem _ hg')) h hcp1 hc1
        rw [(isNil_iff _).mp hn] at hb
        refine ⟨hc2, hcp2, R, (R.isNil && o.err.isSome) || e2, .skip hb hb2, ?_⟩
        cases out with
        | some o2 =>
          simp only at hout ⊢
          obtain ⟨h1, h2, h3, h4, h5⟩ := hout
          exact ⟨h1, h2, h3, by simp [h2, h4], h5⟩
        | none =>
          simp only at hout ⊢
          obtain ⟨h1, h2⟩ := hout
          refine ⟨h1, ?_⟩
          rw [h2, altFlag_altErr, altFlag_cp, h1]
          simp [Res.isNil, Bool.or_assoc]
      · have hn' : o.res.isNil = false := by simpa using hn
        simp only [hn', Bool.not_false, ↓reduceIte] at h
        cases h
        exact ⟨hc1.of_eq (setError_cache _ _), hcp1, o.res, false, .hit hb hn', rfl, hn', rfl, rfl, hcp1⟩

/-! ### the Sequence family -/

/-- element `d` of a Sequence-family parser is a left position when every earlier element may be empty
    (`PV.LRF.memos_lookup` without its side condition on SepBy) -/
theorem memos_lookup {c : LRFCert} {g : G} {sh : SeqShape} (hs : g.shape = some sh) (d : Nat) (gd : G)
    (hprev : ∀ i, i < d → ∀ gi, sh.lookup i = some gi → mayBeEmpty c.wf gi = true)
    (hl : sh.lookup d = some gd) : ∀ k ∈ lrfMemos c gd, k ∈ lrfMemos c g := by
  cases g with
  | seq k gs o =>
    simp only [G.shape, Option.some.injEq] at hs
    subst hs
    simp only at hl hprev
    simp only [lrfMemos]
    exact LRF.memosSeq_lookup gs d gd hprev hl
  | many g1 ae o =>
    simp only [G.shape, Option.some.injEq] at hs
    subst hs
    simp only [Option.some.injEq] at hl hprev
    subst hl
    simp only [lrfMemos]
    exact fun k hk => hk
  | sepBy v sp ae o =>
    simp only [G.shape, Option.some.injEq] at hs
    subst hs
    simp only at hl hprev
    simp only [lrfMemos, List.mem_append]
    intro k hk
    by_cases he : (d % 2 == 0) = true
    · simp only [he, ↓reduceIte, Option.some.injEq] at hl
      subst hl
      exact .inl hk
    · simp only [he, Bool.false_eq_true, ↓reduceIte, Option.some.injEq] at hl
      subst hl
      have hd : 0 < d := by
        cases d with
        | zero => simp at he
        | succ d => omega
      have hv := hprev 0 hd v (by simp)
      simp only [hv, ↓reduceIte]
      exact .inr hk
  | _ => simp [G.shape] at hs

/-- what `BigSeq`, the accumulated result, the error bit, the curtailing set and the cache say after a call
    into the enumeration -/
def SeqPostL (cfg : Cfg) (s : Cert) (bodyOf : Nat → G) (U : CacheEntry → Prop)
    (J : List Node → Bool → Bool → Prop) (ss : SeqSt) (b : Bool) (ss' : SeqSt) (st' : St) : Prop :=
  MixCache cfg s bodyOf U st' ∧ ss'.cp = [] ∧ ∃ em e, J em b e ∧ ss'.result = foldEmit ss.result em ∧
    ss'.err.isSome = (ss.err.isSome || e)

theorem seqAlts_low {cfg : Cfg} {s : Cert} {bodyOf : Nat → G} {U : CacheEntry → Prop} (sh : SeqShape) (depth : Nat)
    (nodes : List Node) (k : Node → SeqSt → St → Option (Bool × SeqSt × St)) :
    ∀ (l : List Node),
      (∀ n ∈ l, ∀ ss st b ss' st', k n ss st = some (b, ss', st') → ss.cp = [] → MixCache cfg s bodyOf U st →
        SeqPostL cfg s bodyOf U (BigSeq cfg sh (depth + 1) (nodes ++ [n]) n.rpos) ss b ss' st') →
      ∀ ss st b ss' st', seqAlts k l ss st = some (b, ss', st') → ss.cp = [] → MixCache cfg s bodyOf U st →
        SeqPostL cfg s bodyOf U (BigAlts cfg sh depth nodes l) ss b ss' st' := by
  intro l
  induction l with
  | nil =>
    intro _ ss st b ss' st' h hcp hc
    simp only [seqAlts] at h
    cases h
    exact ⟨hc, hcp, [], false, .nil, rfl, by simp⟩
  | cons n rest ih =>
    intro hk ss st b ss' st' h hcp hc
    cases hk1 : k n ss st with
    | none => simp [seqAlts, hk1] at h
    | some x =>
      obtain ⟨b1, ss1, st1⟩ := x
      cases b1 with
      | true =>
        simp only [seqAlts, hk1] at h
        cases h
        obtain ⟨hc1, hcp1, em, e, hb, hres, herr⟩ := hk n (List.mem_cons_self ..) _ _ _ _ _ hk1 hcp hc
        exact ⟨hc1, hcp1, em, e, .stop hb, hres, herr⟩
      | false =>
        simp only [seqAlts, hk1] at h
        obtain ⟨hc1, hcp1, em1, e1, hb1, hres1, herr1⟩ := hk n (List.mem_cons_self ..) _ _ _ _ _ hk1 hcp hc
        obtain ⟨hc2, hcp2, em2, e2, hb2, hres2, herr2⟩ :=
          ih (fun n' hn' => hk n' (List.mem_cons_of_mem _ hn')) _ _ _ _ _ h hcp1 hc1
        refine ⟨hc2, hcp2, em1 ++ em2, e1 || e2, .next hb1 hb2, ?_, ?_⟩
        · rw [foldEmit_append, ← hres1, hres2]
        · rw [herr2, herr1, Bool.or_assoc]

theorem seqAfter_cp_nil (merge : Bool) (ss : SeqSt) (o : Out) (h1 : ss.cp = []) (h2 : o.cp = []) :
    (seqAfter merge ss o).cp = [] := by
  unfold seqAfter
  cases merge
  · simpa using h1
  · simp only [↓reduceIte, h1, h2]; exact cpUnion_nil

theorem seqParse_low {cfg : Cfg} {s : Cert} {bodyOf : Nat → G} {U : CacheEntry → Prop} (henv : EnvS cfg s bodyOf)
    {r : RunFn} (hr : RunLow cfg s bodyOf U r) (gtop : G) (sh : SeqShape) (hs : gtop.shape = some sh)
    (hall : ∀ i g, sh.lookup i = some g → LowS cfg s bodyOf g) (ctx0 : Ctx) (hz0 : ZeroL s gtop ctx0) :
    ∀ fuel depth nodes ctx pos merge ss st b ss' st', depth = nodes.length → InFile cfg.file pos →
      (ctx = [] ∨ (ctx = ctx0 ∧ ∀ i, i < depth → ∀ gi, sh.lookup i = some gi → mayBeEmpty s.lrf.wf gi = true)) →
      seqParse r sh fuel depth nodes ctx pos merge ss st = some (b, ss', st') → ss.cp = [] →
      MixCache cfg s bodyOf U st →
      SeqPostL cfg s bodyOf U (BigSeq cfg sh depth nodes pos) ss b ss' st' := by
  intro fuel
  induction fuel with
  | zero => intro depth nodes ctx pos merge ss st b ss' st' _ _ _ h; simp [seqParse] at h
  | succ fuel ih =>
    intro depth nodes ctx pos merge ss st b ss' st' hd hin hctx h hcp hc
    rw [seqParse_succM] at h
    cases hst : seqStepM r sh depth ctx pos st with
    | none => simp [hst] at h
    | some x =>
      obtain ⟨o, st1⟩ := x
      simp only [hst] at h
      obtain ⟨haf1, haf2⟩ := seqAfter_fields merge ss o
      -- what happens when element `depth` is missing or yields nothing
      have hnil : ∀ (J : List Node → Bool → Bool → Prop), o.res = .nil → o.cp = [] → MixCache cfg s bodyOf U st1 →
          J (if sh.lenCheck depth then [handleResult sh pos nodes] else []) (sh.lenCheck depth && lastIsEOF nodes)
            o.err.isSome →
          SeqPostL cfg s bodyOf U J ss b ss' st' := by
        intro J hres hocp hc1 hJ
        have hcpA := seqAfter_cp_nil merge ss o hcp hocp
        unfold seqContM at h
        simp only [hres] at h
        by_cases hlc : sh.lenCheck depth = true
        · simp only [hlc, ↓reduceIte, Bool.true_and] at h hJ
          by_cases hdp : depth > 0
          · simp only [hdp, ↓reduceIte] at h
            cases h
            exact ⟨hc1, hcpA, _, _, hJ, by simp only [foldEmit, List.foldl_cons, List.foldl_nil, haf1], haf2⟩
          · simp only [hdp, ↓reduceIte] at h
            cases h
            have hn0 : nodes = [] := List.length_eq_zero_iff.mp (by omega)
            subst hn0
            exact ⟨hc1, hcpA, _, _, hJ, by simp only [foldEmit, List.foldl_cons, List.foldl_nil, haf1], haf2⟩
        · have hlc' : sh.lenCheck depth = false := by simpa using hlc
          simp only [hlc', Bool.false_eq_true, ↓reduceIte, Bool.false_and] at h hJ
          cases h
          exact ⟨hc1, hcpA, _, _, hJ, by simp only [foldEmit, List.foldl_nil, haf1], haf2⟩
      unfold seqStepM at hst
      cases hl : sh.lookup depth with
      | none =>
        simp only [hl] at hst
        cases hst
        exact hnil _ rfl rfl hc (.last hl)
      | some g =>
        simp only [hl] at hst
        have hg := hall _ _ hl
        have hz : ZeroL s g ctx := by
          cases hctx with
          | inl h0 => rw [h0]; exact ZeroL.nil s g
          | inr h0 => rw [h0.1]; exact hz0.mono (memos_lookup hs depth g h0.2 hl)
        obtain ⟨ho, hb, hc1⟩ := hr g ctx pos st.regCall o st1 hg hin hz (hc.of_eq rfl) hst
        by_cases hn : o.res.isNil = true
        · have hres := (isNil_iff _).mp hn
          rw [hres] at hb
          exact hnil _ hres ho hc1 (.fail hl hb)
        · have hn' : o.res.isNil = false := by simpa using hn
          have h2 : seqAlts (seqNextM r sh fuel depth nodes ctx pos merge) o.res.alts (seqAfter merge ss o) st1 =
              some (b, ss', st') := by
            unfold seqContM at h
            cases hres : o.res with
            | nil => rw [hres] at hn'; simp [Res.isNil] at hn'
            | one n1 => simp only [hres] at h; exact h
            | list l1 => simp only [hres] at h; exact h
          have hdo := low_big henv hb hg hin
          obtain ⟨hc2, hcp2, em, e2, hb2, hres2, herr2⟩ := seqAlts_low (cfg := cfg) (s := s) (bodyOf := bodyOf) (U := U)
            sh depth nodes _ o.res.alts
            (fun n hnm ss2 st2 b2 ss3 st3 hk hcp2 hc2 => by
              have hdn := hdo n hnm
              obtain ⟨p1, p2, p3⟩ := hdn.inFile hin
              refine ih (depth + 1) (nodes ++ [n]) _ n.rpos _ ss2 st2 b2 ss3 st3 (by simp [hd]) p3 ?_ hk hcp2 hc2
              by_cases hcn : n.rpos > pos
              · exact .inl (by simp only [hcn, ↓reduceIte])
              · simp only [hcn, ↓reduceIte]
                cases hctx with
                | inl h0 => exact .inl h0
                | inr h0 =>
                  refine .inr ⟨h0.1, ?_⟩
                  intro i hi gi hgi
                  by_cases hid : i < depth
                  · exact h0.2 i hid gi hgi
                  · have : i = depth := by omega
                    subst this
                    rw [hl] at hgi
                    cases hgi
                    exact hdn.null (by omega))
            _ _ _ _ _ h2 (seqAfter_cp_nil merge ss o hcp ho) hc1
          refine ⟨hc2, hcp2, em, o.err.isSome || e2, .step hl hb hn' hb2, by rw [hres2, haf1], ?_⟩
          rw [herr2, haf2, Bool.or_assoc]

/-! ### the induction -/

theorem run_low (cfg : Cfg) (s : Cert) (bodyOf : Nat → G) (U : CacheEntry → Prop) (henv : EnvS cfg s bodyOf) :
    ∀ fuel, RunLow cfg s bodyOf U (run cfg fuel) := by
  intro fuel
  induction fuel with
  | zero => intro g ctx pos st o st' _ _ _ _ h; simp [run] at h
  | succ fuel ih =>
    intro g ctx pos st o st' hg hin hz hc h
    cases hsh : g.shape with
    | some sh =>
      rw [run_seqfam cfg fuel g sh ctx pos st hsh] at h
      split at h
      · cases h
      · unfold runSeq at h
        split at h
        · cases h
        · rename_i b ss st1 hsp
          have hfin := seqFinish_fields sh pos ss st1
          have hfb := seqFinish_big sh pos ss st1
          generalize seqFinish sh pos ss st1 = fin at h hfin hfb
          obtain ⟨fo, fs⟩ := fin
          cases h
          simp only at hfin hfb
          have hfl : st'.cache = st1.cache := by
            cases hfin.2 with
            | inl h1 => rw [h1]
            | inr h1 => rw [h1, setError_cache]
          obtain ⟨hc1, hcp1, em, e, hb, hres, herr⟩ := seqParse_low henv ih g sh hsh (hg.lookup hsh).1 ctx hz
            fuel 0 [] ctx pos true {} st b ss st1 rfl hin
            (.inr ⟨rfl, fun i hi => absurd hi (Nat.not_lt_zero _)⟩) hsp rfl hc
          refine ⟨by rw [hfin.1]; exact hcp1, ?_, hc1.of_eq hfl⟩
          refine .seqfam hsh hb (by rw [hfb.1, hres]) ?_
          rw [hfb.2, hfb.1, herr]
          simp
    | none =>
    cases hw : g.wrap cfg.file pos with
    | some w =>
      rw [run_wrap cfg fuel g w ctx pos st hw] at h
      split at h
      · cases h
      · split at h
        · cases h
        · rename_i o1 st1 hrun
          cases h
          rw [wrap_fix_eq hw]
          cases g with
          | optional g' =>
            simp only [G.wrap, Option.some.injEq] at hw
            subst hw
            obtain ⟨ho, hb, hc1⟩ := ih _ _ _ _ _ _ hg.optional hin (hz.mono (fun i hi => by simpa only [lrfMemos] using hi)) hc hrun
            exact ⟨ho, .optional hb, hc1⟩
          | name g' nm =>
            simp only [G.wrap, Option.some.injEq] at hw
            subst hw
            obtain ⟨ho, hb, hc1⟩ := ih _ _ _ _ _ _ hg.name hin (hz.mono (fun i hi => by simpa only [lrfMemos] using hi)) hc hrun
            obtain ⟨n1, n2⟩ := nameOut_big pos nm o1
            refine ⟨?_, .name hb n1 (by rw [n2, n1]), hc1⟩
            exact wrap_out_cp (f := cfg.file) (pos := pos) (g := .name g' nm) rfl o1 ho
          | single g' =>
            simp only [G.wrap, Option.some.injEq] at hw
            subst hw
            obtain ⟨ho, hb, hc1⟩ := ih _ _ _ _ _ _ hg.single hin (hz.mono (fun i hi => by simpa only [lrfMemos] using hi)) hc hrun
            obtain ⟨n1, n2⟩ := singleOut_big o1
            refine ⟨wrap_out_cp (f := cfg.file) (pos := pos) (g := .single g') rfl o1 ho, ?_, hc1⟩
            simp only
            rw [n1]
            exact .single hb n2
          | suppress g' =>
            simp only [G.wrap, Option.some.injEq] at hw
            subst hw
            obtain ⟨ho, hb, hc1⟩ := ih _ _ _ _ _ _ hg.suppress hin (hz.mono (fun i hi => by simpa only [lrfMemos] using hi)) hc hrun
            exact ⟨ho, .suppress hb, hc1⟩
          | ltrim g' m => have := hg.ok; simp [lowOK] at this
          | rtrim g' m => have := hg.ok; simp [lowOK] at this
          | _ => simp [G.wrap] at hw
    | none =>
    unfold run at h
    split at h
    · cases h
    · cases g with
      | term t =>
        simp only at h
        split at h
        · rename_i n hp
          cases h
          exact ⟨rfl, .termOk hp, hc⟩
        · rename_i e hp
          cases h
          exact ⟨rfl, .termFail (by intro n hn; rw [hp] at hn; cases hn), hc.of_eq (logEv_fields st cfg _).1⟩
        · rename_i sx hp
          cases h
          exact ⟨rfl, .termFail (by intro n hn; rw [hp] at hn; cases hn), hc⟩
      | empty => simp only at h; cases h; exact ⟨rfl, .empty, hc⟩
      | eof => have := hg.ok; simp [lowOK] at this
      | ref k =>
        simp only at h
        have hlow : s.lowRule k = true := by simpa [lowOK] using hg.ok
        split at h
        · rename_i g' hk
          obtain ⟨ho, hb, hc1⟩ := ih g' ctx pos st o st' (henv.low k g' hk hlow) hin
            (hz.mono (fun i hi => by simp only [lrfMemos]; exact henv.closed k g' hk hlow i hi)) hc h
          exact ⟨ho, .ref hk hb, hc1⟩
        · rename_i hk
          cases h
          exact ⟨rfl, .refNone hk, hc⟩
      | memo idx body =>
        simp only at h
        obtain ⟨m1, m2, _, m4, m5⟩ := hg.memo
        cases hcg : cacheGet st.cache idx pos ctx with
        | some e =>
          simp only [hcg] at h
          cases h
          obtain ⟨hm, hi, hp⟩ := cacheGet_some hcg
          have hE := (hc e hm).1 (by rw [hi]; exact m1)
          have hbig := hE.big
          rw [hi, hp, ← m4] at hbig
          exact ⟨hE.cp, .memo hbig, hc.of_eq (logEv_fields st cfg _).1⟩
        | none =>
          simp only [hcg] at h
          have hzero : ctx.get idx = 0 := hz idx (by simp only [lrfMemos]; exact List.mem_cons_self ..)
          have hcur : ¬ ctx.get idx > remaining cfg.file pos + Facts.curtailSlack := by rw [hzero]; omega
          simp only [hcur, ↓reduceIte] at h
          split at h
          · cases h
          · rename_i o2 st2 hrun
            cases h
            have hzb : ZeroL s body (ctx.inc idx) := by
              intro i hi
              have hne : i ≠ idx := fun e => m2 (e ▸ hi)
              rw [Ctx.get_inc_other _ _ _ hne]
              exact hz i (by simp only [lrfMemos]; exact List.mem_cons_of_mem _ hi)
            have hih := fun hc0 => ih body (ctx.inc idx) pos _ o st2 m5 hin hzb hc0 hrun
            obtain ⟨ho, hb, hc1⟩ := hih (MixCache.of_eq hc (logEv_fields _ cfg _).1)
            refine ⟨ho, .memo hb, ?_⟩
            intro e he
            cases mem_cacheSave he with
            | inl h3 =>
              subst h3
              refine ⟨fun _ => ⟨ho, ?_, ?_⟩, fun hf => ?_⟩
              · simp [ho, Ctx.filter]
              · simp only; rw [← m4]; exact hb
              · simp only at hf; rw [m1] at hf; cases hf
            | inr h3 => exact hc1 e h3
      | any gs =>
        simp only at h
        have hgs : ∀ g' ∈ gs, LowS cfg s bodyOf g' ∧ ZeroL s g' ctx := fun g' hg' =>
          ⟨hg.any g' hg', hz.mono (fun i hi => by simp only [lrfMemos]; exact LRF.memosAny_mem hg' i hi)⟩
        split at h
        · cases h
        · rename_i a st1 hl
          have hlog : st'.cache = st1.cache := by
            split at h
            · cases h; rfl
            · cases h; exact setError_cache _ _
          obtain ⟨hc1, hcp1, e, hb, hf⟩ := anyLoop_low ih ctx pos hin gs {} st a st1 hgs hl rfl hc
          have hf' : altFlag a = e := by rw [hf]; simp [altFlag]
          by_cases hnil : a.res.isNil = true
          · simp only [hnil, ↓reduceIte] at h
            cases h
            refine ⟨hcp1, ?_, hc1⟩
            simp only
            have hr0 : a.res = .nil := (isNil_iff _).mp hnil
            rw [hr0] at hb
            refine big_cast (.any hb rfl) ?_
            rw [← hf']
            unfold altFlag
            cases a.err <;> simp [Res.isNil]
          · simp only [hnil] at h
            cases h
            exact ⟨hcp1, .any hb (by simp [hnil]), hc1.of_eq (setError_cache _ _)⟩
      | choice gs =>
        simp only at h
        have hgs : ∀ g' ∈ gs, LowS cfg s bodyOf g' ∧ ZeroL s g' ctx := fun g' hg' =>
          ⟨hg.choice g' hg', hz.mono (fun i hi => by simp only [lrfMemos]; exact LRF.memosAny_mem hg' i hi)⟩
        cases hl : choiceLoop (run cfg fuel) ctx pos gs {} st with
        | none => simp [hl] at h
        | some x =>
          obtain ⟨out, a, st1⟩ := x
          rw [hl] at h
          have hlog : st' = st1 := by
            cases out <;> (simp only at h; cases h; rfl)
          subst hlog
          obtain ⟨hc1, hcp1, R, e, hb, hout⟩ := choiceLoop_low ih ctx pos hin gs {} st out a st' hgs hl rfl hc
          cases out with
          | some o2 =>
            simp only at h hout
            cases h
            obtain ⟨h1, _, h3, h4, h5⟩ := hout
            refine ⟨h5, ?_, hc1⟩
            rw [h1, h3]
            subst h4
            exact .choice hb
          | none =>
            simp only at h hout
            cases h
            obtain ⟨h1, h2⟩ := hout
            refine ⟨hcp1, ?_, hc1⟩
            simp only
            have h2' : altFlag a = e := by rw [h2]; simp [altFlag]
            rw [← h1]
            refine big_cast (.choice hb) ?_
            rw [← h2']
            unfold altFlag
            cases a.err <;> simp
      | optional g' => simp [G.wrap] at hw
      | name g' nm => simp [G.wrap] at hw
      | single g' => simp [G.wrap] at hw
      | suppress g' => simp [G.wrap] at hw
      | ltrim g' m => simp [G.wrap] at hw
      | rtrim g' m => simp [G.wrap] at hw
      | seq k gs o => simp [G.shape] at hsh
      | many g' ae o => simp [G.shape] at hsh
      | sepBy v sp ae o => simp [G.shape] at hsh

/-- **stratum-0 sub-runs never curtail and return their `Big` result from any upper context** — for every
    fuel with which `run` answers, every position of the file, every left-recursion context that is zero on
    the stratum-0 Memoize indexes `g` can enter at its start, every cache whose stratum-0 entries are exact
    and uncurtailed (the entries of the other indexes — predicate `U` — are carried along unchanged in kind):
    the curtailing set is empty, the result is THE big-step result, and the cache keeps its property -/
theorem strat_low_exact (cfg : Cfg) (s : Cert) (bodyOf : Nat → G) (U : CacheEntry → Prop) (henv : EnvS cfg s bodyOf)
    (fuel : Nat) (g : G) (ctx : Ctx) (pos : Nat) (st : St) (o : Out) (st' : St)
    (hg : LowS cfg s bodyOf g) (hin : InFile cfg.file pos) (hz : ∀ i ∈ lrfMemos s.lrf g, ctx.get i = 0)
    (hst : MixCache cfg s bodyOf U st) (h : run cfg fuel g ctx pos st = some (o, st')) :
    o.cp = [] ∧ Big cfg g pos o.res o.err.isSome ∧ MixCache cfg s bodyOf U st' :=
  run_low cfg s bodyOf U henv fuel g ctx pos st o st' hg hin hz hst h

end PV.Strat
