/-
  C03, "a re-built grammar draws fresh parser indexes": renaming the Memoize indexes by an order-preserving
  map commutes with `run` — results, errors, call count and furthest error are IDENTICAL, and the curtailing
  sets, the cache keys, the activation stack and the ghost log are the renamed ones.  (Order-preserving,
  because `data.IntSet` keeps its members sorted; `combinator.Memoize` draws its indexes from one counter, so
  building the same grammar again shifts every index by the same amount.)
  Same architecture as the position shift of C12 (Proofs/ShiftRun.lean): every helper commutes with the
  renaming, the loops are proved for any two step functions related by it, `run` by induction on the fuel.
-/
import ParsleyVerif.Proofs.MemoSim
namespace PV
open PV.Text

mutual
def G.ren (ρ : Nat → Nat) : G → G
  | .memo i g => .memo (ρ i) (g.ren ρ)
  | .any gs => .any (renList ρ gs)
  | .choice gs => .choice (renList ρ gs)
  | .seq k gs o => .seq k (renList ρ gs) o
  | .many g ae o => .many (g.ren ρ) ae o
  | .sepBy v s ae o => .sepBy (v.ren ρ) (s.ren ρ) ae o
  | .optional g => .optional (g.ren ρ)
  | .name g nm => .name (g.ren ρ) nm
  | .ltrim g m => .ltrim (g.ren ρ) m
  | .rtrim g m => .rtrim (g.ren ρ) m
  | .single g => .single (g.ren ρ)
  | .suppress g => .suppress (g.ren ρ)
  | g => g
def renList (ρ : Nat → Nat) : List G → List G
  | [] => []
  | g :: gs => g.ren ρ :: renList ρ gs
end

theorem renList_eq_map (ρ : Nat → Nat) : ∀ gs, renList ρ gs = gs.map (G.ren ρ)
  | [] => by simp [renList]
  | g :: gs => by simp only [renList, List.map_cons, renList_eq_map ρ gs]

def Ctx.ren (ρ : Nat → Nat) (c : Ctx) : Ctx := c.map (fun kv => (ρ kv.1, kv.2))
def CacheEntry.ren (ρ : Nat → Nat) (e : CacheEntry) : CacheEntry :=
  { e with idx := ρ e.idx, ctx := Ctx.ren ρ e.ctx, cp := e.cp.map ρ }
def Ev.ren (ρ : Nat → Nat) : Ev → Ev
  | .body i p d => .body (ρ i) p d
  | .hit i p => .hit (ρ i) p
  | .curtail i p => .curtail (ρ i) p
  | e => e
def St.ren (ρ : Nat → Nat) (st : St) : St :=
  { st with cache := st.cache.map (CacheEntry.ren ρ), active := st.active.map (fun a => (ρ a.1, a.2)),
            log := st.log.map (Ev.ren ρ) }
def Out.ren (ρ : Nat → Nat) (o : Out) : Out := { o with cp := o.cp.map ρ }
def renOS (ρ : Nat → Nat) (x : Out × St) : Out × St := (x.1.ren ρ, x.2.ren ρ)

/-- order preserving: a re-built grammar draws its indexes from the same counter in the same order -/
def Mono (ρ : Nat → Nat) : Prop := ∀ a b, a < b → ρ a < ρ b

theorem Mono.inj {ρ : Nat → Nat} (h : Mono ρ) (a b : Nat) (e : ρ a = ρ b) : a = b := by
  rcases Nat.lt_trichotomy a b with h1 | h1 | h1
  · have := h a b h1; omega
  · exact h1
  · have := h b a h1; omega

theorem Mono.beq {ρ : Nat → Nat} (h : Mono ρ) (a b : Nat) : (ρ a == ρ b) = (a == b) := by
  rw [Bool.eq_iff_iff]; simp only [beq_iff_eq]; exact ⟨h.inj a b, fun e => by rw [e]⟩

theorem cpUnion_ren {ρ : Nat → Nat} (h : Mono ρ) : ∀ a b : List Nat, cpUnion (a.map ρ) (b.map ρ) = (cpUnion a b).map ρ := by
  intro a b
  induction a, b using cpUnion.induct with
  | case1 b => simp [cpUnion]
  | case2 a hne => cases a <;> simp [cpUnion]
  | case3 x xs y ys hlt ih =>
    have := h x y hlt
    simp only [List.map_cons, cpUnion, hlt, this, ↓reduceIte]
    rw [← ih]; simp
  | case4 x xs y ys hnlt hlt ih =>
    have := h y x hlt
    have h2 : ¬ ρ x < ρ y := by omega
    simp only [List.map_cons, cpUnion, hnlt, hlt, this, h2, ↓reduceIte]
    rw [← ih]; simp
  | case5 x xs y ys hnlt hnlt2 ih =>
    have hxy : x = y := by omega
    subst hxy
    simp only [List.map_cons, cpUnion, Nat.lt_irrefl, ↓reduceIte]
    rw [← ih]

theorem Ctx.get_ren {ρ : Nat → Nat} (h : Mono ρ) (c : Ctx) (k : Nat) : Ctx.get (Ctx.ren ρ c) (ρ k) = Ctx.get c k := by
  unfold Ctx.get Ctx.ren
  induction c with
  | nil => rfl
  | cons kv c ih =>
    simp only [List.map_cons, List.find?_cons, h.beq]
    split
    · rfl
    · exact ih

theorem Ctx.inc_ren {ρ : Nat → Nat} (h : Mono ρ) (c : Ctx) (k : Nat) :
    Ctx.inc (Ctx.ren ρ c) (ρ k) = Ctx.ren ρ (Ctx.inc c k) := by
  unfold Ctx.inc Ctx.ren
  have hany : (List.map (fun kv => (ρ kv.1, kv.2)) c).any (fun x => x.1 == ρ k) = c.any (fun x => x.1 == k) := by
    simp [List.any_map, Function.comp_def, h.beq]
  rw [hany]
  split
  · simp only [List.map_map]
    apply List.map_congr_left
    intro kv _
    simp only [Function.comp, h.beq]
    split <;> rfl
  · simp

theorem Ctx.filter_ren {ρ : Nat → Nat} (h : Mono ρ) (c : Ctx) (keys : List Nat) :
    Ctx.filter (Ctx.ren ρ c) (keys.map ρ) = Ctx.ren ρ (Ctx.filter c keys) := by
  unfold Ctx.filter Ctx.ren
  rw [List.filter_map]
  congr 1
  apply List.filter_congr
  intro kv _
  simp only [Function.comp]
  rw [Bool.eq_iff_iff]
  simp only [List.contains_eq_mem, List.mem_map, decide_eq_true_eq]
  constructor
  · rintro ⟨a, ha, e⟩; rw [← h.inj _ _ e]; exact ha
  · intro ha; exact ⟨_, ha, rfl⟩

theorem cacheGet_ren {ρ : Nat → Nat} (h : Mono ρ) (c : List CacheEntry) (idx pos : Nat) (ctx : Ctx) :
    cacheGet (c.map (CacheEntry.ren ρ)) (ρ idx) pos (Ctx.ren ρ ctx) = (cacheGet c idx pos ctx).map (CacheEntry.ren ρ) := by
  have hf : ∀ l : List CacheEntry,
      (l.map (CacheEntry.ren ρ)).find? (fun e => e.idx == ρ idx && e.pos == pos)
        = (l.find? (fun e => e.idx == idx && e.pos == pos)).map (CacheEntry.ren ρ) := by
    intro l
    induction l with
    | nil => rfl
    | cons x xs ih =>
      have hx : ((x.ren ρ).idx == ρ idx && (x.ren ρ).pos == pos) = (x.idx == idx && x.pos == pos) := by
        simp [CacheEntry.ren, h.beq]
      simp only [List.map_cons, List.find?_cons, hx]
      split <;> simp [ih]
  unfold cacheGet
  rw [hf]
  cases c.find? (fun e => e.idx == idx && e.pos == pos) with
  | none => rfl
  | some e =>
    simp only [Option.map_some]
    have : (e.ren ρ).ctx.all (fun kv => !(kv.2 > Ctx.get (Ctx.ren ρ ctx) kv.1)) = e.ctx.all (fun kv => !(kv.2 > ctx.get kv.1)) := by
      simp only [CacheEntry.ren, Ctx.ren, List.all_map, Function.comp_def]
      congr 1; funext kv
      have := Ctx.get_ren h ctx kv.1
      simp only [Ctx.ren] at this
      simp only [this]
    rw [this]
    split <;> rfl

theorem cacheSave_ren {ρ : Nat → Nat} (h : Mono ρ) (c : List CacheEntry) (e : CacheEntry) :
    cacheSave (c.map (CacheEntry.ren ρ)) (e.ren ρ) = (cacheSave c e).map (CacheEntry.ren ρ) := by
  unfold cacheSave
  simp only [List.map_cons, List.filter_map]
  congr 2
  apply List.filter_congr
  intro x _
  simp [CacheEntry.ren, h.beq]

@[simp] theorem St.ren_calls (ρ : Nat → Nat) (st : St) : (st.ren ρ).calls = st.calls := rfl
@[simp] theorem St.ren_ctxErr (ρ : Nat → Nat) (st : St) : (st.ren ρ).ctxErr = st.ctxErr := rfl
@[simp] theorem St.ren_cache (ρ : Nat → Nat) (st : St) : (st.ren ρ).cache = st.cache.map (CacheEntry.ren ρ) := rfl
@[simp] theorem St.ren_active (ρ : Nat → Nat) (st : St) : (st.ren ρ).active = st.active.map (fun a => (ρ a.1, a.2)) := rfl
@[simp] theorem St.ren_log (ρ : Nat → Nat) (st : St) : (st.ren ρ).log = st.log.map (Ev.ren ρ) := rfl

theorem regCall_ren (ρ : Nat → Nat) (st : St) : (st.ren ρ).regCall = st.regCall.ren ρ := rfl

theorem setError_ren (ρ : Nat → Nat) (st : St) (e : Option Err) : (st.ren ρ).setError e = (st.setError e).ren ρ := by
  cases e with
  | none => rfl
  | some e =>
    simp only [St.setError, St.ren_ctxErr]
    cases hc : st.ctxErr with
    | none => simp [St.ren, hc]
    | some c => simp only; split <;> simp [St.ren, hc]

theorem logEv_ren (ρ : Nat → Nat) (cfg cfg' : Cfg) (hg : cfg'.ghost = cfg.ghost) (st : St) (e : Ev) :
    (st.ren ρ).logEv cfg' (e.ren ρ) = (st.logEv cfg e).ren ρ := by
  unfold St.logEv
  simp only [hg]
  by_cases h : cfg.ghost = true <;> simp [St.ren, h]

/-! ### loops -/

def RenRel (ρ : Nat → Nat) (r r' : RunFn) : Prop :=
  ∀ g ctx pos st, r' (G.ren ρ g) (Ctx.ren ρ ctx) pos (St.ren ρ st) = (r g ctx pos st).map (renOS ρ)

def AltSt.ren (ρ : Nat → Nat) (a : AltSt) : AltSt := { a with cp := a.cp.map ρ }
def SeqSt.ren (ρ : Nat → Nat) (ss : SeqSt) : SeqSt := { ss with cp := ss.cp.map ρ }

theorem altErr_ren (ρ : Nat → Nat) (pos : Nat) (a : AltSt) (e : Option Err) :
    altErr pos (a.ren ρ) e = (altErr pos a e).ren ρ := by
  cases e with
  | none => rfl
  | some e2 =>
    obtain ⟨cp, res, err, nf⟩ := a
    cases err with
    | none =>
      cases hD : (decide (e2.pos > pos) || !e2.kind.isNotFound) <;> simp [altErr, AltSt.ren, hD]
    | some e =>
      cases hD : (decide (e2.pos > pos) || !e2.kind.isNotFound) <;> cases hC : decide (e2.pos ≥ e.pos) <;>
        simp [altErr, AltSt.ren, hD, hC]

def renAny (ρ : Nat → Nat) (t : AltSt × St) : AltSt × St := (t.1.ren ρ, t.2.ren ρ)

theorem anyLoop_ren {ρ : Nat → Nat} (hm : Mono ρ) (r r' : RunFn) (h : RenRel ρ r r') (ctx : Ctx) (pos : Nat) :
    ∀ (gs : List G) (a : AltSt) (st : St),
    anyLoop r' (Ctx.ren ρ ctx) pos (renList ρ gs) (a.ren ρ) (st.ren ρ) = (anyLoop r ctx pos gs a st).map (renAny ρ) := by
  intro gs
  induction gs with
  | nil => intro a st; rfl
  | cons g gs ih =>
    intro a st
    simp only [anyLoop, renList, regCall_ren, h g ctx pos st.regCall]
    rcases r g ctx pos st.regCall with _ | ⟨o, st1⟩
    · rfl
    · simp only [Option.map_some, renOS]
      have : ({ (a.ren ρ) with cp := cpUnion (a.ren ρ).cp (o.ren ρ).cp, res := appendNode (a.ren ρ).res (o.ren ρ).res } : AltSt)
          = AltSt.ren ρ { a with cp := cpUnion a.cp o.cp, res := appendNode a.res o.res } := by
        simp [AltSt.ren, Out.ren, cpUnion_ren hm]
      rw [this]
      have he : (o.ren ρ).err = o.err := rfl
      rw [he, altErr_ren, ih]

def renChoice (ρ : Nat → Nat) (t : Option Out × AltSt × St) : Option Out × AltSt × St :=
  (t.1.map (Out.ren ρ), t.2.1.ren ρ, t.2.2.ren ρ)

theorem choiceLoop_ren {ρ : Nat → Nat} (hm : Mono ρ) (r r' : RunFn) (h : RenRel ρ r r') (ctx : Ctx) (pos : Nat) :
    ∀ (gs : List G) (a : AltSt) (st : St),
    choiceLoop r' (Ctx.ren ρ ctx) pos (renList ρ gs) (a.ren ρ) (st.ren ρ)
      = (choiceLoop r ctx pos gs a st).map (renChoice ρ) := by
  intro gs
  induction gs with
  | nil => intro a st; rfl
  | cons g gs ih =>
    intro a st
    simp only [choiceLoop, renList, regCall_ren, h g ctx pos st.regCall]
    rcases r g ctx pos st.regCall with _ | ⟨o, st1⟩
    · rfl
    · simp only [Option.map_some, renOS]
      have : ({ (a.ren ρ) with cp := cpUnion (a.ren ρ).cp (o.ren ρ).cp } : AltSt)
          = AltSt.ren ρ { a with cp := cpUnion a.cp o.cp } := by
        simp [AltSt.ren, Out.ren, cpUnion_ren hm]
      rw [this]
      have he : (o.ren ρ).err = o.err := rfl
      have hr : (o.ren ρ).res = o.res := rfl
      rw [he, hr, altErr_ren]
      split
      · simp [renChoice, Out.ren, AltSt.ren, setError_ren]
      · exact ih _ _

/-! ### the Sequence family -/

structure ShapeRen (ρ : Nat → Nat) (sh sh' : SeqShape) : Prop where
  lookup : ∀ i, sh'.lookup i = (sh.lookup i).map (G.ren ρ)
  lenCheck : ∀ i, sh'.lenCheck i = sh.lenCheck i
  token : sh'.token = sh.token
  interp : sh'.interp = sh.interp
  single : sh'.single = sh.single
  name : sh'.name = sh.name

theorem shape_ren (ρ : Nat → Nat) {g : G} {sh : SeqShape} (h : g.shape = some sh) :
    ∃ sh', (g.ren ρ).shape = some sh' ∧ ShapeRen ρ sh sh' := by
  cases g with
  | seq k gs o =>
    simp only [G.shape, Option.some.injEq] at h
    subst h
    have e : G.ren ρ (.seq k gs o) = .seq k (renList ρ gs) o := by simp only [G.ren]
    rw [e]
    refine ⟨_, rfl, ⟨?_, ?_, rfl, rfl, rfl, rfl⟩⟩
    · intro i; simp [renList_eq_map]
    · intro i; simp [renList_eq_map]
  | many g1 ae o =>
    simp only [G.shape, Option.some.injEq] at h
    subst h
    have e : G.ren ρ (.many g1 ae o) = .many (g1.ren ρ) ae o := by simp only [G.ren]
    rw [e]
    exact ⟨_, rfl, ⟨fun _ => rfl, fun _ => rfl, rfl, rfl, rfl, rfl⟩⟩
  | sepBy v s ae o =>
    simp only [G.shape, Option.some.injEq] at h
    subst h
    have e : G.ren ρ (.sepBy v s ae o) = .sepBy (v.ren ρ) (s.ren ρ) ae o := by simp only [G.ren]
    rw [e]
    refine ⟨_, rfl, ⟨?_, fun _ => rfl, rfl, rfl, rfl, rfl⟩⟩
    intro i
    simp only
    split <;> rfl
  | _ => simp [G.shape] at h

theorem handleResult_shapeRen {ρ : Nat → Nat} {sh sh' : SeqShape} (h : ShapeRen ρ sh sh') (pos : Nat) (nodes : List Node) :
    handleResult sh' pos nodes = handleResult sh pos nodes := by
  unfold handleResult
  rw [h.token, h.interp, h.single]

def renSeq (ρ : Nat → Nat) (t : Bool × SeqSt × St) : Bool × SeqSt × St := (t.1, t.2.1.ren ρ, t.2.2.ren ρ)

theorem seqAlts_ren (ρ : Nat → Nat) (k k' : Node → SeqSt → St → Option (Bool × SeqSt × St))
    (hk : ∀ n ss st, k' n (SeqSt.ren ρ ss) (St.ren ρ st) = (k n ss st).map (renSeq ρ)) :
    ∀ (l : List Node) ss st,
      seqAlts k' l (SeqSt.ren ρ ss) (St.ren ρ st) = (seqAlts k l ss st).map (renSeq ρ) := by
  intro l
  induction l with
  | nil => intro ss st; rfl
  | cons n rest ih =>
    intro ss st
    simp only [seqAlts, hk]
    rcases k n ss st with _ | ⟨_ | _, ss1, st1⟩
    · rfl
    · simp only [Option.map_some, renSeq]; exact ih ss1 st1
    · rfl

theorem seqAfter_ren {ρ : Nat → Nat} (hm : Mono ρ) (merge : Bool) (ss : SeqSt) (o : Out) :
    seqAfter merge (ss.ren ρ) (o.ren ρ) = (seqAfter merge ss o).ren ρ := by
  cases merge <;> simp [seqAfter, SeqSt.ren, Out.ren, cpUnion_ren hm]

theorem seqStepM_ren {ρ : Nat → Nat} (r r' : RunFn) (h : RenRel ρ r r') {sh sh' : SeqShape} (hsh : ShapeRen ρ sh sh')
    (depth : Nat) (ctx : Ctx) (pos : Nat) (st : St) :
    seqStepM r' sh' depth (Ctx.ren ρ ctx) pos (st.ren ρ) = (seqStepM r sh depth ctx pos st).map (renOS ρ) := by
  unfold seqStepM
  rw [hsh.lookup]
  cases sh.lookup depth with
  | none => rfl
  | some g => simp only [Option.map_some, regCall_ren, h g ctx pos st.regCall]

theorem seqParse_ren {ρ : Nat → Nat} (hm : Mono ρ) (r r' : RunFn) (h : RenRel ρ r r') {sh sh' : SeqShape}
    (hsh : ShapeRen ρ sh sh') :
    ∀ fuel depth nodes ctx pos merge ss st,
    seqParse r' sh' fuel depth nodes (Ctx.ren ρ ctx) pos merge (SeqSt.ren ρ ss) (St.ren ρ st)
      = (seqParse r sh fuel depth nodes ctx pos merge ss st).map (renSeq ρ) := by
  intro fuel
  induction fuel with
  | zero => intros; rfl
  | succ fuel ih =>
    intro depth nodes ctx pos merge ss st
    rw [seqParse_succM, seqParse_succM, seqStepM_ren r r' h hsh]
    rcases seqStepM r sh depth ctx pos st with _ | ⟨o, st1⟩
    · rfl
    · simp only [Option.map_some, renOS, seqAfter_ren hm]
      generalize seqAfter merge ss o = ss1
      have hnext : ∀ n ss st, seqNextM r' sh' fuel depth nodes (Ctx.ren ρ ctx) pos merge n (SeqSt.ren ρ ss) (St.ren ρ st)
          = (seqNextM r sh fuel depth nodes ctx pos merge n ss st).map (renSeq ρ) := by
        intro n ss st
        simp only [seqNextM]
        have : (if n.rpos > pos then [] else Ctx.ren ρ ctx) = Ctx.ren ρ (if n.rpos > pos then [] else ctx) := by
          split <;> rfl
        rw [this, ih]
      unfold seqContM
      have hres : (o.ren ρ).res = o.res := rfl
      rw [hres]
      cases hr : o.res with
      | nil =>
        simp only [hsh.lenCheck, handleResult_shapeRen hsh]
        by_cases h1 : sh.lenCheck depth = true
        · by_cases h2 : depth > 0
          · simp only [h1, h2, ↓reduceIte, Option.map_some, renSeq]; rfl
          · simp only [h1, h2, ↓reduceIte, Option.map_some, renSeq]; rfl
        · simp only [h1]; rfl
      | one n =>
        simp only
        exact seqAlts_ren ρ _ _ hnext [n] ss1 st1
      | list l =>
        simp only
        exact seqAlts_ren ρ _ _ hnext l ss1 st1

theorem seqFinish_ren (ρ : Nat → Nat) {sh sh' : SeqShape} (hsh : ShapeRen ρ sh sh') (pos : Nat) (ss : SeqSt) (st : St) :
    seqFinish sh' pos (ss.ren ρ) (st.ren ρ) = renOS ρ (seqFinish sh pos ss st) := by
  unfold seqFinish
  rw [hsh.name]
  have e1 : (ss.ren ρ).result = ss.result := rfl
  have e2 : (ss.ren ρ).err = ss.err := rfl
  rw [e1, e2]
  by_cases hnil : ss.result.isNil = true
  · simp only [hnil, ↓reduceIte]; rfl
  · simp only [hnil, setError_ren]; rfl

/-! ### the one-child combinators -/

theorem wrap_ren (ρ : Nat → Nat) {f : File} {pos : Nat} {g : G} {w : Wrap} (hw : g.wrap f pos = some w) :
    (g.ren ρ).wrap f pos = some { w with child := w.child.ren ρ } := by
  cases g <;> simp only [G.wrap, Option.some.injEq, reduceCtorEq] at hw <;> subst hw <;> rfl

theorem wrap_out_ren (ρ : Nat → Nat) {f : File} {pos : Nat} {g : G} {w : Wrap} (hw : g.wrap f pos = some w) (o : Out) :
    w.out (o.ren ρ) = (w.out o).ren ρ := by
  obtain ⟨r, c, e⟩ := o
  cases g <;> simp only [G.wrap, Option.some.injEq, reduceCtorEq] at hw <;> subst hw <;>
    simp only [nameOut, singleOut, ltrimOut, rtrimOut, Out.ren] <;> (repeat' split) <;> simp_all

/-! ### run -/

/-- `cfg'` is `cfg` with every Memoize index of the environment renamed -/
structure RenCfg (ρ : Nat → Nat) (cfg cfg' : Cfg) : Prop where
  file : cfg'.file = cfg.file
  env : cfg'.env = cfg.env.map (G.ren ρ)
  params : cfg'.params = cfg.params
  ghost : cfg'.ghost = cfg.ghost
  maxCalls : cfg'.maxCalls = cfg.maxCalls

theorem run_ren {ρ : Nat → Nat} (hm : Mono ρ) (cfg cfg' : Cfg) (hc : RenCfg ρ cfg cfg') :
    ∀ fuel g ctx pos st,
      run cfg' fuel (G.ren ρ g) (Ctx.ren ρ ctx) pos (St.ren ρ st) = (run cfg fuel g ctx pos st).map (renOS ρ) := by
  have hcf := hc.file
  have hcp := hc.params
  have hcm := hc.maxCalls
  intro fuel
  induction fuel with
  | zero => intros; rfl
  | succ fuel ih =>
    intro g ctx pos st
    have hrel : RenRel ρ (run cfg fuel) (run cfg' fuel) := ih
    cases hsh : g.shape with
    | some sh =>
      obtain ⟨sh', hsh', hshr⟩ := shape_ren ρ hsh
      rw [run_seqfam cfg fuel g sh ctx pos st hsh, run_seqfam cfg' fuel _ sh' _ pos _ hsh']
      simp only [hcm, St.ren_calls]
      split
      · rfl
      · unfold runSeq
        have key := seqParse_ren hm _ _ hrel hshr fuel 0 [] ctx pos true {} st
        rw [show SeqSt.ren ρ {} = {} from rfl] at key
        rw [key]
        rcases seqParse (run cfg fuel) sh fuel 0 [] ctx pos true {} st with _ | ⟨b, ss, st1⟩
        · rfl
        · simp only [Option.map_some, renSeq, seqFinish_ren ρ hshr]
    | none =>
    cases hw : g.wrap cfg.file pos with
    | some w =>
      have hw' := wrap_ren ρ hw
      rw [← hcf] at hw'
      rw [run_wrap cfg fuel g w ctx pos st hw, run_wrap cfg' fuel _ _ _ pos _ hw']
      simp only [hcm, St.ren_calls]
      split
      · rfl
      · simp only [ih]
        rcases run cfg fuel w.child ctx w.cpos st with _ | ⟨o, st1⟩
        · rfl
        · simp only [Option.map_some, renOS, wrap_out_ren ρ hw, wrap_fix_eq hw]
    | none =>
    by_cases hmax : cfg.maxCalls ≠ 0 ∧ st.calls > cfg.maxCalls
    · cases g <;> simp [run, hmax, hcm]
    · cases g with
      | term t =>
        simp only [run, G.ren, hcm, St.ren_calls, hmax, if_false, hcp, hcf]
        cases Terminal.parse cfg.params cfg.file t pos with
        | node n => rfl
        | err e =>
          have := logEv_ren ρ cfg cfg' hc.ghost st (.termFail e.pos e.kind)
          simp only [Ev.ren] at this
          simp only [this]; rfl
        | panic s => rfl
      | empty => simp only [run, G.ren, hcm, St.ren_calls, hmax, if_false]; rfl
      | eof =>
        simp only [run, G.ren, hcm, St.ren_calls, hmax, if_false, hcf]
        have := logEv_ren ρ cfg cfg' hc.ghost st (.termFail pos (.other endErrMsg))
        simp only [Ev.ren] at this
        split
        · rfl
        · simp only [this]; rfl
      | ref k =>
        simp only [run, G.ren, hcm, St.ren_calls, hmax, if_false, hc.env, List.getElem?_map]
        cases cfg.env[k]? with
        | none => rfl
        | some g' => exact ih g' ctx pos st
      | memo idx body =>
        simp only [run, G.ren, hcm, St.ren_calls, hmax, if_false, St.ren_cache, cacheGet_ren hm]
        cases cacheGet st.cache idx pos ctx with
        | some e =>
          have := logEv_ren ρ cfg cfg' hc.ghost st (.hit idx pos)
          simp only [Ev.ren] at this
          simp only [Option.map_some, this]; rfl
        | none =>
          simp only [Option.map_none, hcf, Ctx.get_ren hm]
          by_cases hcur : ctx.get idx > remaining cfg.file pos + Facts.curtailSlack
          · have := logEv_ren ρ cfg cfg' hc.ghost st (.curtail idx pos)
            simp only [Ev.ren] at this
            simp only [hcur, ↓reduceIte, this]; rfl
          · simp only [hcur, if_false]
            have hdepth : (List.filter (fun a => a.fst == ρ idx && a.snd == pos) (St.ren ρ st).active).length
                = (List.filter (fun a => a.fst == idx && a.snd == pos) st.active).length := by
              simp only [St.ren_active, List.filter_map, List.length_map]
              congr 1
              apply List.filter_congr
              intro x _
              simp [hm.beq]
            rw [hdepth]
            have hst1 : (⟨List.map (CacheEntry.ren ρ) st.cache, (St.ren ρ st).ctxErr, st.calls,
                  (ρ idx, pos) :: (St.ren ρ st).active, (St.ren ρ st).log⟩ : St)
                = St.ren ρ ⟨st.cache, st.ctxErr, st.calls, (idx, pos) :: st.active, st.log⟩ := by
              simp [St.ren]
            have hev : ∀ d, Ev.body (ρ idx) pos d = Ev.ren ρ (Ev.body idx pos d) := fun _ => rfl
            rw [hst1, hev, logEv_ren ρ cfg cfg' hc.ghost, Ctx.inc_ren hm, ih]
            generalize run cfg fuel body (ctx.inc idx) pos _ = res
            rcases res with _ | ⟨o, st2⟩
            · rfl
            · simp only [Option.map_some, renOS]
              have he : (⟨ρ idx, pos, Ctx.filter (Ctx.ren ρ ctx) (Out.ren ρ o).cp, (Out.ren ρ o).cp,
                    (Out.ren ρ o).err, (Out.ren ρ o).res⟩ : CacheEntry)
                  = CacheEntry.ren ρ ⟨idx, pos, ctx.filter o.cp, o.cp, o.err, o.res⟩ := by
                simp only [CacheEntry.ren, Out.ren, Ctx.filter_ren hm]
              rw [he, St.ren_cache, cacheSave_ren hm]
              rfl
      | any gs =>
        simp only [run, G.ren, hcm, St.ren_calls, hmax, if_false]
        have key := anyLoop_ren hm _ _ hrel ctx pos gs {} st
        rw [show AltSt.ren ρ {} = {} from rfl] at key
        rw [key]
        rcases anyLoop (run cfg fuel) ctx pos gs {} st with _ | ⟨⟨acp, ares, aerr, anf⟩, st1⟩
        · rfl
        · simp only [Option.map_some, renAny, AltSt.ren]
          split
          · rfl
          · simp only [setError_ren]; rfl
      | choice gs =>
        simp only [run, G.ren, hcm, St.ren_calls, hmax, if_false]
        have key := choiceLoop_ren hm _ _ hrel ctx pos gs {} st
        rw [show AltSt.ren ρ {} = {} from rfl] at key
        rw [key]
        rcases choiceLoop (run cfg fuel) ctx pos gs {} st with _ | ⟨_ | o, ⟨acp, ares, aerr, anf⟩, st1⟩
        · rfl
        · rfl
        · rfl
      | optional g' => simp [G.wrap] at hw
      | name g' nm => simp [G.wrap] at hw
      | single g' => simp [G.wrap] at hw
      | suppress g' => simp [G.wrap] at hw
      | ltrim g' m => simp [G.wrap] at hw
      | rtrim g' m => simp [G.wrap] at hw
      | seq k gs o => simp [G.shape] at hsh
      | many g' ae o => simp [G.shape] at hsh
      | sepBy v s ae o => simp [G.shape] at hsh
end PV
