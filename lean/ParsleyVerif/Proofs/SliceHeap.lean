import ParsleyVerif.Model.Slice
/-
  Heap-level lemmas for the slice machine of C07: arrays, slice headers, `append`, NodeList.Append, AppendNode.

  `top a` is a ghost bound: no header that anybody can still read through has more than `top a` cells of
  array `a` in view.  An operation is *framed* (`FrameA top`) when it leaves the first `top a` cells of every
  array as they are.  A header is *safe* when an in-place append through it writes at or above `top`.
-/
namespace PV.Slice

/-! ### build -/

theorem build_length {α : Type} (f : List α → Nat → α) (k : Nat) : (build f k).length = k := by
  induction k with
  | zero => rfl
  | succ k ih => simp [build, ih]

theorem build_get {α : Type} (f : List α → Nat → α) (k n : Nat) (h : n < k) :
    (build f k)[n]? = some (f (build f n) n) := by
  induction k with
  | zero => omega
  | succ k ih =>
    by_cases hn : n < k
    · simp only [build]
      rw [List.getElem?_append_left (by rw [build_length]; exact hn)]
      exact ih hn
    · have : n = k := by omega
      subst this
      simp only [build]
      rw [List.getElem?_append_right (by rw [build_length]; exact Nat.le_refl _)]
      simp [build_length]

/-- two bottom-up tables agree on every `good` index, provided the step functions agree on `good` indexes
    whenever the tables built so far agree on the smaller `good` indexes -/
theorem build_agree {α : Type} (f g : List α → Nat → α) (good : Nat → Prop)
    (h : ∀ n, good n → ∀ t t' : List α, t.length = n → t'.length = n →
        (∀ m, m < n → good m → t[m]? = t'[m]?) → f t n = g t' n) :
    ∀ n k k', n < k → n < k' → good n → (build f k)[n]? = (build g k')[n]? := by
  intro n
  induction n using Nat.strongRecOn with
  | _ n ih =>
    intro k k' hk hk' hg
    rw [build_get f k n hk, build_get g k' n hk']
    congr 1
    apply h n hg _ _ (build_length _ _) (build_length _ _)
    intro m hm hgm
    exact ih m hm n n hm hm hgm

/-! ### arrays -/

theorem cells_modify_same (h : Arrs) (a : Nat) (f : List Handle → List Handle) (ha : a < h.length) :
    cells (h.modify a f) a = f (cells h a) := by
  simp [cells, List.getD_eq_getElem?_getD, ha]

theorem cells_modify_ne (h : Arrs) (a b : Nat) (f : List Handle → List Handle) (hne : a ≠ b) :
    cells (h.modify a f) b = cells h b := by
  simp [cells, List.getD_eq_getElem?_getD, hne]

theorem cells_modify_oob (h : Arrs) (a : Nat) (f : List Handle → List Handle) (ha : h.length ≤ a) :
    h.modify a f = h := by
  apply List.ext_getElem?
  intro i
  rw [List.getElem?_modify]
  by_cases hi : a = i
  · subst hi
    simp [List.getElem?_eq_none ha]
  · simp [hi]

theorem cells_append_lt (h : Arrs) (c : List Handle) (a : Nat) (ha : a < h.length) :
    cells (h ++ [c]) a = cells h a := by
  simp [cells, List.getD_eq_getElem?_getD, List.getElem?_append_left ha]

theorem cells_append_eq (h : Arrs) (c : List Handle) : cells (h ++ [c]) h.length = c := by
  simp [cells, List.getD_eq_getElem?_getD]

theorem cells_oob (h : Arrs) (a : Nat) (ha : h.length ≤ a) : cells h a = [] := by
  simp [cells, List.getD_eq_getElem?_getD, List.getElem?_eq_none ha]

theorem cells_append_gt (h : Arrs) (c : List Handle) (a : Nat) (ha : h.length < a) :
    cells (h ++ [c]) a = [] := by
  apply cells_oob
  simp; omega

/-- slice well-formedness: `len ≤ cap`, and a non-nil slice points into the heap with its capacity inside
    the array -/
def SWF (arrs : Arrs) (s : Slice) : Prop :=
  s.len ≤ s.cap ∧ (s.cap = 0 ∨ (s.arr < arrs.length ∧ s.cap ≤ (cells arrs s.arr).length))

/-- what may be stored in an array cell: never a list; pointers point to existing nodes -/
def CellOK (n : Nat) : Handle → Prop
  | .ptr m => m < n
  | .list _ => False
  | _ => True

theorem CellOK.mono {n n' : Nat} {c : Handle} (h : CellOK n c) (hn : n ≤ n') : CellOK n' c := by
  cases c <;> simp [CellOK] at h ⊢
  omega

def CellsOK (n : Nat) (arrs : Arrs) : Prop := ∀ a c, c ∈ cells arrs a → CellOK n c

theorem CellsOK.mono {n n' : Nat} {arrs : Arrs} (h : CellsOK n arrs) (hn : n ≤ n') : CellsOK n' arrs :=
  fun a c hc => (h a c hc).mono hn

/-- the first `top a` cells of every array are untouched, arrays keep their sizes, the heap only grows -/
def FrameA (top : Nat → Nat) (h h' : Arrs) : Prop :=
  h.length ≤ h'.length ∧
  (∀ a, a < h.length → (cells h' a).length = (cells h a).length) ∧
  (∀ a, (cells h' a).take (top a) = (cells h a).take (top a))

theorem FrameA.refl (top : Nat → Nat) (h : Arrs) : FrameA top h h :=
  ⟨Nat.le_refl _, fun _ _ => rfl, fun _ => rfl⟩

theorem FrameA.trans {top : Nat → Nat} {h1 h2 h3 : Arrs} (a : FrameA top h1 h2) (b : FrameA top h2 h3) :
    FrameA top h1 h3 :=
  ⟨Nat.le_trans a.1 b.1,
   fun x hx => by rw [b.2.1 x (by have := a.1; omega), a.2.1 x hx],
   fun x => by rw [b.2.2 x, a.2.2 x]⟩

theorem FrameA.view_eq {top : Nat → Nat} {h h' : Arrs} (f : FrameA top h h') (s : Slice)
    (hs : s.len ≤ top s.arr) : view h' s = view h s := by
  unfold view
  have := f.2.2 s.arr
  calc (cells h' s.arr).take s.len = ((cells h' s.arr).take (top s.arr)).take s.len := by
        rw [List.take_take, Nat.min_eq_left hs]
    _ = ((cells h s.arr).take (top s.arr)).take s.len := by rw [this]
    _ = (cells h s.arr).take s.len := by rw [List.take_take, Nat.min_eq_left hs]

theorem FrameA.swf {top : Nat → Nat} {h h' : Arrs} (f : FrameA top h h') {s : Slice} (w : SWF h s) :
    SWF h' s := by
  refine ⟨w.1, ?_⟩
  rcases w.2 with h0 | ⟨h1, h2⟩
  · exact Or.inl h0
  · exact Or.inr ⟨by have := f.1; omega, by rw [f.2.1 s.arr h1]; exact h2⟩

theorem frameA_append (top : Nat → Nat) (h : Arrs) (c : List Handle) (tz : ∀ a, h.length ≤ a → top a = 0) :
    FrameA top h (h ++ [c]) := by
  refine ⟨by simp, fun a ha => by rw [cells_append_lt h c a ha], fun a => ?_⟩
  by_cases ha : a < h.length
  · rw [cells_append_lt h c a ha]
  · rw [tz a (by omega)]; simp

theorem frameA_write (top : Nat → Nat) (h : Arrs) (a i : Nat) (v : Handle) (hi : top a ≤ i) :
    FrameA top h (writeCell h a i v) := by
  unfold writeCell
  refine ⟨by simp, fun b hb => ?_, fun b => ?_⟩
  · by_cases hab : a = b
    · subst hab; rw [cells_modify_same _ _ _ hb]; simp
    · rw [cells_modify_ne _ _ _ _ hab]
  · by_cases hab : a = b
    · subst hab
      by_cases ha : a < h.length
      · rw [cells_modify_same _ _ _ ha]
        apply List.ext_getElem?
        intro k
        simp only [List.getElem?_take, List.getElem?_set]
        by_cases hk : k < top a
        · have : ¬ i = k := by omega
          simp [hk, this]
        · simp [hk]
      · rw [cells_modify_oob _ _ _ (by omega)]
    · rw [cells_modify_ne _ _ _ _ hab]

theorem cellsOK_write {n : Nat} {h : Arrs} (ok : CellsOK n h) (a i : Nat) (v : Handle) (hv : CellOK n v) :
    CellsOK n (writeCell h a i v) := by
  intro b c hc
  unfold writeCell at hc
  by_cases hab : a = b
  · subst hab
    by_cases ha : a < h.length
    · rw [cells_modify_same _ _ _ ha] at hc
      rcases List.mem_or_eq_of_mem_set hc with h1 | h1
      · exact ok a c h1
      · subst h1; exact hv
    · rw [cells_modify_oob _ _ _ (by omega)] at hc
      exact ok a c hc
  · rw [cells_modify_ne _ _ _ _ hab] at hc
    exact ok b c hc

theorem cellsOK_append {n : Nat} {h : Arrs} (ok : CellsOK n h) (c : List Handle) (hc : ∀ x ∈ c, CellOK n x) :
    CellsOK n (h ++ [c]) := by
  intro b x hx
  by_cases hb : b < h.length
  · rw [cells_append_lt h c b hb] at hx; exact ok b x hx
  · by_cases hb2 : b = h.length
    · subst hb2; rw [cells_append_eq] at hx; exact hc x hx
    · rw [cells_append_gt h c b (by omega)] at hx; simp at hx

theorem view_cellOK {n : Nat} {h : Arrs} (ok : CellsOK n h) (s : Slice) : ∀ x ∈ view h s, CellOK n x :=
  fun x hx => ok s.arr x (List.mem_of_mem_take hx)

/-- an in-place append through `s` writes at or above `top` -/
def Safe (top : Nat → Nat) (s : Slice) : Prop := s.len < s.cap → top s.arr ≤ s.len

/-- where the result of an append-like operation on `s` lives: still on `s`'s array (unchanged header, or
    extended in place, which was safe), or on an array allocated by the operation -/
def Placed (h : Arrs) (s s' : Slice) : Prop :=
  (s'.arr = s.arr ∧ s'.cap = s.cap ∧ (s' = s ∨ (s.len < s.cap ∧ s.len < s'.len))) ∨ h.length ≤ s'.arr

/-- the common postcondition of `append`, `NodeList.Append` and its loop -/
structure AppRes (top : Nat → Nat) (n : Nat) (h : Arrs) (s : Slice) (h' : Arrs) (s' : Slice) : Prop where
  frame : FrameA top h h'
  swf : SWF h' s'
  safe : Safe top s'
  ok : CellsOK n h'
  placed : Placed h s s'
  pos : 0 < s.len → 0 < s'.len

theorem sliceAppend_spec (grow : Nat → Nat) (top : Nat → Nat) (n : Nat) (h : Arrs) (s : Slice) (v : Handle)
    (w : SWF h s) (sf : Safe top s) (tz : ∀ a, h.length ≤ a → top a = 0) (ok : CellsOK n h) (hv : CellOK n v) :
    AppRes top n h s (sliceAppend grow h s v).1 (sliceAppend grow h s v).2 ∧
    0 < (sliceAppend grow h s v).2.len := by
  unfold sliceAppend
  by_cases hlt : s.len < s.cap
  · rw [if_pos hlt]
    have hcap : s.cap ≠ 0 := by omega
    rcases w.2 with h0 | ⟨w1, w2⟩
    · exact absurd h0 hcap
    have fr := frameA_write top h s.arr s.len v (sf hlt)
    refine ⟨⟨fr, ?_, ?_, cellsOK_write ok _ _ _ hv, ?_, fun _ => by simp⟩, by simp⟩
    · refine ⟨by simp; omega, Or.inr ⟨by simpa [writeCell] using w1, ?_⟩⟩
      show s.cap ≤ (cells (writeCell h s.arr s.len v) s.arr).length
      rw [fr.2.1 s.arr w1]; exact w2
    · intro hl
      have := sf hlt
      show top s.arr ≤ s.len + 1
      omega
    · exact Or.inl ⟨rfl, rfl, Or.inr ⟨hlt, by simp⟩⟩
  · rw [if_neg hlt]
    have hv' : (view h s).length ≤ s.len := by simp [view]; omega
    refine ⟨⟨frameA_append top h _ tz, ?_, ?_, ?_, Or.inr (Nat.le_refl _), fun _ => by simp⟩, by simp⟩
    · refine ⟨by show s.len + 1 ≤ max (grow s.cap) (s.len + 1); omega, Or.inr ⟨by simp, ?_⟩⟩
      show max (grow s.cap) (s.len + 1) ≤ (cells (h ++ [_]) h.length).length
      rw [cells_append_eq]
      have w1 := w.1
      have hvl : (view h s).length = min s.len (cells h s.arr).length := by simp [view]
      rcases w.2 with h0 | ⟨_, w2⟩
      · have : s.len = 0 := by omega
        simp [hvl, this]
        omega
      · have : (view h s).length = s.len := by omega
        simp [this]
        omega
    · intro _
      show top h.length ≤ s.len + 1
      rw [tz h.length (Nat.le_refl _)]; omega
    · apply cellsOK_append ok
      intro x hx
      simp only [List.mem_append, List.mem_singleton, List.mem_replicate] at hx
      rcases hx with (hx | hx) | hx
      · exact view_cellOK ok s x hx
      · subst hx; exact hv
      · rw [hx.2]; trivial

theorem AppRes.refl {top : Nat → Nat} {n : Nat} {h : Arrs} {s : Slice} (w : SWF h s) (sf : Safe top s)
    (ok : CellsOK n h) : AppRes top n h s h s :=
  ⟨FrameA.refl _ _, w, sf, ok, Or.inl ⟨rfl, rfl, Or.inl rfl⟩, id⟩

theorem AppRes.trans {top : Nat → Nat} {n : Nat} {h1 h2 h3 : Arrs} {s1 s2 s3 : Slice}
    (a : AppRes top n h1 s1 h2 s2) (b : AppRes top n h2 s2 h3 s3) : AppRes top n h1 s1 h3 s3 := by
  refine ⟨a.frame.trans b.frame, b.swf, b.safe, b.ok, ?_, fun hp => b.pos (a.pos hp)⟩
  have hl := a.frame.1
  rcases b.placed with ⟨b1, b2, b4⟩ | b5
  · rcases a.placed with ⟨a1, a2, a4⟩ | a5
    · refine Or.inl ⟨by rw [b1, a1], by rw [b2, a2], ?_⟩
      rcases a4 with a4 | a4
      · subst a4
        exact b4
      · rcases b4 with b4 | b4
        · subst b4; exact Or.inr a4
        · exact Or.inr ⟨a4.1, by omega⟩
    · exact Or.inr (by rw [b1]; exact a5)
  · exact Or.inr (by omega)

theorem nlAppend1_spec (grow : Nat → Nat) (top : Nat → Nat) (n : Nat) (h : Arrs) (s : Slice) (v : Handle)
    (w : SWF h s) (sf : Safe top s) (tz : ∀ a, h.length ≤ a → top a = 0) (ok : CellsOK n h) (hv : CellOK n v) :
    AppRes top n h s (nlAppend1 grow h s v).1 (nlAppend1 grow h s v).2 := by
  unfold nlAppend1
  split
  · split
    · exact AppRes.refl w sf ok
    · exact (sliceAppend_spec grow top n h s _ w sf tz ok hv).1
  · exact (sliceAppend_spec grow top n h s _ w sf tz ok hv).1

theorem nlAppendLoop_spec (grow : Nat → Nat) (top : Nat → Nat) (n : Nat) (src : Slice) :
    ∀ (cnt k : Nat) (h : Arrs) (s : Slice), SWF h s → Safe top s → (∀ a, h.length ≤ a → top a = 0) → CellsOK n h →
      AppRes top n h s (nlAppendLoop grow src cnt k h s).1 (nlAppendLoop grow src cnt k h s).2 := by
  intro cnt
  induction cnt with
  | zero => intro k h s w sf tz ok; exact AppRes.refl w sf ok
  | succ cnt ih =>
    intro k h s w sf tz ok
    simp only [nlAppendLoop]
    have hc : CellOK n ((cells h src.arr).getD k Handle.nil) := by
      rw [List.getD_eq_getElem?_getD]
      cases hk : (cells h src.arr)[k]? with
      | none => trivial
      | some c => exact ok src.arr c (List.mem_of_getElem? hk)
    have r1 := nlAppend1_spec grow top n h s _ w sf tz ok hc
    have r2 := ih (k + 1) _ _ r1.swf r1.safe (fun a ha => tz a (by have := r1.frame.1; omega)) r1.ok
    exact r1.trans r2

theorem nlAppend_spec (grow : Nat → Nat) (top : Nat → Nat) (n : Nat) (h : Arrs) (s : Slice) (v : Handle)
    (w : SWF h s) (sf : Safe top s) (tz : ∀ a, h.length ≤ a → top a = 0) (ok : CellsOK n h)
    (hv : (∀ sl, v ≠ Handle.list sl) → CellOK n v) :
    AppRes top n h s (nlAppend grow h s v).1 (nlAppend grow h s v).2 := by
  unfold nlAppend
  split
  · exact nlAppendLoop_spec grow top n _ _ _ h s w sf tz ok
  · rename_i hne
    apply nlAppend1_spec grow top n h s v w sf tz ok
    exact hv (fun sl e => hne sl e)

/-! ### list views never contain nil -/

theorem view_length {h : Arrs} {s : Slice} (w : SWF h s) : (view h s).length = s.len := by
  simp only [view, List.length_take]
  rcases w.2 with h0 | ⟨_, h2⟩
  · have := w.1; omega
  · have := w.1; omega

theorem sliceAppend_view (grow : Nat → Nat) (h : Arrs) (s : Slice) (v : Handle) (w : SWF h s) :
    view (sliceAppend grow h s v).1 (sliceAppend grow h s v).2 = view h s ++ [v] := by
  unfold sliceAppend
  by_cases hlt : s.len < s.cap
  · rw [if_pos hlt]
    rcases w.2 with h0 | ⟨w1, w2⟩
    · omega
    show List.take (s.len + 1) (cells (writeCell h s.arr s.len v) s.arr) = List.take s.len (cells h s.arr) ++ [v]
    simp only [writeCell, cells_modify_same _ _ _ w1]
    apply List.ext_getElem?
    intro i
    simp only [List.getElem?_take, List.getElem?_set, List.getElem?_append]
    grind
  · rw [if_neg hlt]
    have hv := view_length w
    show List.take (s.len + 1) (cells (h ++ [_]) h.length) = view h s ++ [v]
    rw [cells_append_eq]
    rw [List.take_append_of_le_length (by simp [hv])]
    rw [List.take_of_length_le (by simp [hv])]

theorem nlAppend1_nonnil (grow : Nat → Nat) (h : Arrs) (s : Slice) (v : Handle) (w : SWF h s)
    (hn : Handle.nil ∉ view h s) (hv : v ≠ Handle.nil) :
    Handle.nil ∉ view (nlAppend1 grow h s v).1 (nlAppend1 grow h s v).2 := by
  have happ : Handle.nil ∉ view (sliceAppend grow h s v).1 (sliceAppend grow h s v).2 := by
    rw [sliceAppend_view grow h s v w]
    simp only [List.mem_append, List.mem_singleton, not_or]
    exact ⟨hn, fun e => hv e.symm⟩
  unfold nlAppend1
  split
  · split
    · exact hn
    · exact happ
  · exact happ

theorem nlAppendLoop_nonnil (grow : Nat → Nat) (top : Nat → Nat) (n : Nat) (src : Slice) (hsrc : src.len ≤ top src.arr) :
    ∀ (cnt k : Nat) (h : Arrs) (s : Slice), SWF h s → Safe top s → (∀ a, h.length ≤ a → top a = 0) → CellsOK n h →
      Handle.nil ∉ view h s → Handle.nil ∉ view h src → k + cnt ≤ (view h src).length →
      Handle.nil ∉ view (nlAppendLoop grow src cnt k h s).1 (nlAppendLoop grow src cnt k h s).2 := by
  intro cnt
  induction cnt with
  | zero => intro k h s _ _ _ _ hn _ _; exact hn
  | succ cnt ih =>
    intro k h s w sf tz ok hn hns hk
    simp only [nlAppendLoop]
    have hklt : k < (view h src).length := by omega
    have hcv : (view h src)[k]? = some ((cells h src.arr).getD k Handle.nil) := by
      have h1 : k < src.len ∧ k < (cells h src.arr).length := by
        simp only [view, List.length_take] at hklt; omega
      simp only [view, List.getElem?_take, if_pos h1.1, List.getD_eq_getElem?_getD]
      rw [List.getElem?_eq_getElem h1.2]; rfl
    have hcne : (cells h src.arr).getD k Handle.nil ≠ Handle.nil := by
      intro e
      rw [e] at hcv
      exact hns (List.mem_of_getElem? hcv)
    have hc : CellOK n ((cells h src.arr).getD k Handle.nil) := by
      rw [List.getD_eq_getElem?_getD]
      cases hk' : (cells h src.arr)[k]? with
      | none => trivial
      | some c => exact ok src.arr c (List.mem_of_getElem? hk')
    have r1 := nlAppend1_spec grow top n h s _ w sf tz ok hc
    have hv1 : view (nlAppend1 grow h s ((cells h src.arr).getD k Handle.nil)).1 src = view h src := r1.frame.view_eq src hsrc
    apply ih (k + 1) _ _ r1.swf r1.safe (fun a ha => tz a (by have := r1.frame.1; omega)) r1.ok
    · exact nlAppend1_nonnil grow h s _ w hn hcne
    · rw [hv1]; exact hns
    · rw [hv1]; omega

theorem nlAppend_nonnil (grow : Nat → Nat) (top : Nat → Nat) (n : Nat) (h : Arrs) (s : Slice) (v : Handle)
    (w : SWF h s) (sf : Safe top s) (tz : ∀ a, h.length ≤ a → top a = 0) (ok : CellsOK n h)
    (hn : Handle.nil ∉ view h s) (hv : v ≠ Handle.nil)
    (hsrc : ∀ src, v = Handle.list src → SWF h src ∧ src.len ≤ top src.arr ∧ Handle.nil ∉ view h src) :
    Handle.nil ∉ view (nlAppend grow h s v).1 (nlAppend grow h s v).2 := by
  unfold nlAppend
  split
  · rename_i src
    obtain ⟨ws, ht, hns⟩ := hsrc src rfl
    exact nlAppendLoop_nonnil grow top n src ht src.len 0 h s w sf tz ok hn hns (by rw [view_length ws]; omega)
  · exact nlAppend1_nonnil grow h s v w hn hv

end PV.Slice
