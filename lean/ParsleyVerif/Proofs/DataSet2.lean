import ParsleyVerif.Proofs.DataSet
namespace PV.Data

theorem foldInsert_spec (grow : Nat → Nat) (base : Nat) (h0 : Heap) (vs : List Int) :
    ∀ (p : Heap × Slice), SWF p.1 p.2 → (view p.1 p.2).Pairwise (· < ·) → base ≤ p.2.arr → Frame base h0 p.1 →
      SWF (vs.foldl (fun (p : Heap × Slice) v => insertValue grow p.1 p.2 v) p).1
          (vs.foldl (fun (p : Heap × Slice) v => insertValue grow p.1 p.2 v) p).2 ∧
      view (vs.foldl (fun (p : Heap × Slice) v => insertValue grow p.1 p.2 v) p).1
           (vs.foldl (fun (p : Heap × Slice) v => insertValue grow p.1 p.2 v) p).2
        = vs.foldl sInsert (view p.1 p.2) ∧
      Frame base h0 (vs.foldl (fun (p : Heap × Slice) v => insertValue grow p.1 p.2 v) p).1 ∧
      base ≤ (vs.foldl (fun (p : Heap × Slice) v => insertValue grow p.1 p.2 v) p).2.arr := by
  induction vs with
  | nil => intro p w hs hb hf; exact ⟨w, rfl, hf, hb⟩
  | cons v vs ih =>
    intro p w hs hb hf
    obtain ⟨i1, i2, i3, i4⟩ := insertValue_spec grow p.1 p.2 v w hs base hb
    simp only [List.foldl_cons]
    have := ih (insertValue grow p.1 p.2 v) i1 (by rw [i2]; exact sInsert_sorted _ _ hs) i4 (hf.trans i3)
    rw [i2] at this
    exact this

theorem foldl_sInsert_sorted (vs : List Int) : ∀ (l : List Int), l.Pairwise (· < ·) → (vs.foldl sInsert l).Pairwise (· < ·) := by
  induction vs with
  | nil => intro l h; exact h
  | cons v vs ih => intro l h; exact ih _ (sInsert_sorted _ _ h)

theorem view_nil_of_len0 (h : Heap) (s : Slice) (h0 : s.len = 0) : view h s = [] := by
  simp [view, h0]

/-- NewIntSet -/
theorem newIntSet_spec (grow : Nat → Nat) (h : Heap) (vs : List Int) :
    SWF (newIntSet grow h vs).1 (newIntSet grow h vs).2 ∧
    view (newIntSet grow h vs).1 (newIntSet grow h vs).2 = sOfList vs ∧
    Frame h.length h (newIntSet grow h vs).1 := by
  unfold newIntSet
  obtain ⟨m1, m2, m3, m4, m5⟩ := make_spec h 0 vs.length (Nat.zero_le _)
  generalize make h 0 vs.length = mk at m1 m2 m3 m4 m5
  obtain ⟨h0, s0⟩ := mk
  simp only at m1 m2 m3 m4 m5 ⊢
  have hv : view h0 s0 = [] := view_nil_of_len0 _ _ m4
  obtain ⟨f1, f2, f3, _⟩ := foldInsert_spec grow h.length h vs (h0, s0) m1 (by simp [hv]) (by simp [m3]) m2
  simp only [hv] at f2
  exact ⟨f1, f2, f3⟩

/-- Insert (as fixed) -/
theorem insert_spec (grow : Nat → Nat) (h : Heap) (s : Slice) (v : Int) (w : SWF h s)
    (hs : (view h s).Pairwise (· < ·)) :
    SWF (insert grow h s v).1 (insert grow h s v).2 ∧
    view (insert grow h s v).1 (insert grow h s v).2 = sInsert (view h s) v ∧
    Frame h.length h (insert grow h s v).1 := by
  unfold insert
  by_cases h0 : s.len = 0
  · rw [if_pos h0]
    refine ⟨⟨by simp, by simp, ?_⟩, ?_, ⟨by simp, fun a ha => cells_append_lt _ _ _ ha⟩⟩
    · show (cells (h ++ [[v]]) h.length).length = 1
      simp [cells_append_eq]
    · show List.take 1 (cells (h ++ [[v]]) h.length) = _
      rw [cells_append_eq, view_nil_of_len0 _ _ h0]
      simp [sInsert]
  · rw [if_neg h0]
    obtain ⟨m1, m2, m3, m4, m5⟩ := make_spec h s.len (s.len + 1) (Nat.le_succ _)
    generalize make h s.len (s.len + 1) = mk at m1 m2 m3 m4 m5
    obtain ⟨h1, s2⟩ := mk
    simp only at m1 m2 m3 m4 m5 ⊢
    have hvl : (view h s).length = s.len := by have := w.2.1; have := w.2.2; simp [view]; omega
    have hv1 : view h1 s = view h s := m2.view_eq s w.1
    have hs2 : s2.arr < h1.length := m1.1
    have hc : cells (copyInto h1 s2 s) s2.arr = view h s ++ [0] := by
      simp only [copyInto, setCells, cells_modify_same _ _ _ hs2, hv1]
      rw [m3, m5]
      simp
    have hfr : Frame h.length h (copyInto h1 s2 s) := by
      refine ⟨by simp [copyInto, setCells]; exact m2.1, ?_⟩
      intro a ha
      simp only [copyInto, setCells]
      rw [cells_modify_ne _ _ _ _ (by omega)]
      exact m2.2 a ha
    have w2 : SWF (copyInto h1 s2 s) s2 := by
      refine ⟨by simp [copyInto, setCells]; exact hs2, m1.2.1, ?_⟩
      rw [hc]; simp [hvl]
      have := m1.2.2; rw [m3, m5] at this; simp at this; omega
    have hv2 : view (copyInto h1 s2 s) s2 = view h s := by
      show List.take s2.len _ = _
      rw [hc, m4, List.take_append_of_le_length (by omega), List.take_of_length_le (by omega)]
    obtain ⟨i1, i2, i3, _⟩ := insertValue_spec grow (copyInto h1 s2 s) s2 v w2 (by rw [hv2]; exact hs) h.length (by omega)
    rw [hv2] at i2
    exact ⟨i1, i2, hfr.trans i3⟩

/-! ### Union -/

theorem sMerge_nil_right (a : List Int) : sMerge a [] = a := by
  cases a <;> simp [sMerge]

theorem sMerge_nil_left (b : List Int) : sMerge [] b = b := by
  simp [sMerge]

theorem sMerge_cons (x y : Int) (xs ys : List Int) :
    sMerge (x :: xs) (y :: ys) =
      if x < y then x :: sMerge xs (y :: ys) else if y < x then y :: sMerge (x :: xs) ys else x :: sMerge xs ys := by
  rw [sMerge]

theorem getD_drop (a : List Int) (n : Nat) (hn : n < a.length) : a.drop n = a.getD n 0 :: a.drop (n + 1) := by
  have e : a.getD n 0 = a[n] := by simp [List.getD_eq_getElem?_getD, hn]
  rw [e]; exact List.drop_eq_getElem_cons hn

theorem unionLoop_spec (grow : Nat → Nat) (a b : List Int) (base : Nat) :
    ∀ (fuel n1 n2 : Nat) (h : Heap) (s3 : Slice), SWF h s3 → base ≤ s3.arr →
      (a.length - n1) + (b.length - n2) < fuel →
      SWF (unionLoop grow a b fuel n1 n2 h s3).1 (unionLoop grow a b fuel n1 n2 h s3).2 ∧
      view (unionLoop grow a b fuel n1 n2 h s3).1 (unionLoop grow a b fuel n1 n2 h s3).2
        = view h s3 ++ sMerge (a.drop n1) (b.drop n2) ∧
      Frame base h (unionLoop grow a b fuel n1 n2 h s3).1 ∧
      base ≤ (unionLoop grow a b fuel n1 n2 h s3).2.arr := by
  intro fuel
  induction fuel with
  | zero => intro n1 n2 h s3 _ _ hf; omega
  | succ fuel ih =>
    intro n1 n2 h s3 w hb hf
    unfold unionLoop
    by_cases hany : n1 < a.length ∨ n2 < b.length
    · rw [if_pos hany]
      by_cases c1 : n2 ≥ b.length ∨ (n1 < a.length ∧ a.getD n1 0 < b.getD n2 0)
      · rw [if_pos c1]
        have hn1 : n1 < a.length := by rcases c1 with c | c; (rcases hany with h | h; exact h; omega); exact c.1
        obtain ⟨p1, p2, p3, p4, _⟩ := append_spec grow h s3 (a.getD n1 0) w base hb
        generalize append grow h s3 (a.getD n1 0) = ap at p1 p2 p3 p4
        obtain ⟨h', s'⟩ := ap
        simp only at p1 p2 p3 p4 ⊢
        obtain ⟨r1, r2, r3, r4⟩ := ih (n1 + 1) n2 h' s' p1 p4 (by omega)
        refine ⟨r1, ?_, p3.trans r3, r4⟩
        rw [r2, p2, getD_drop a n1 hn1, List.append_assoc]
        congr 1
        rcases Nat.lt_or_ge n2 b.length with hn2 | hn2
        · have hlt : a.getD n1 0 < b.getD n2 0 := by rcases c1 with c | c; omega; exact c.2
          rw [getD_drop b n2 hn2, sMerge_cons, if_pos hlt]; rfl
        · rw [List.drop_of_length_le hn2]
          simp [sMerge_nil_right]
      · rw [if_neg c1]
        have hn2 : n2 < b.length := by
          rcases Nat.lt_or_ge n2 b.length with h | h
          · exact h
          · exact absurd (Or.inl h) c1
        by_cases c2 : n1 ≥ a.length ∨ (n2 < b.length ∧ b.getD n2 0 < a.getD n1 0)
        · rw [if_pos c2]
          obtain ⟨p1, p2, p3, p4, _⟩ := append_spec grow h s3 (b.getD n2 0) w base hb
          generalize append grow h s3 (b.getD n2 0) = ap at p1 p2 p3 p4
          obtain ⟨h', s'⟩ := ap
          simp only at p1 p2 p3 p4 ⊢
          obtain ⟨r1, r2, r3, r4⟩ := ih n1 (n2 + 1) h' s' p1 p4 (by omega)
          refine ⟨r1, ?_, p3.trans r3, r4⟩
          rw [r2, p2, getD_drop b n2 hn2, List.append_assoc]
          congr 1
          rcases Nat.lt_or_ge n1 a.length with hn1 | hn1
          · have hlt : b.getD n2 0 < a.getD n1 0 := by rcases c2 with c | c; omega; exact c.2
            have hnlt : ¬ a.getD n1 0 < b.getD n2 0 := by omega
            rw [getD_drop a n1 hn1, sMerge_cons, if_neg hnlt, if_pos hlt]; rfl
          · rw [List.drop_of_length_le hn1]
            simp [sMerge_nil_left]
        · rw [if_neg c2]
          have hn1 : n1 < a.length := by
            rcases Nat.lt_or_ge n1 a.length with h | h
            · exact h
            · exact absurd (Or.inl h) c2
          have e1 : ¬ a.getD n1 0 < b.getD n2 0 := fun hh => c1 (Or.inr ⟨hn1, hh⟩)
          have e2 : ¬ b.getD n2 0 < a.getD n1 0 := fun hh => c2 (Or.inr ⟨hn2, hh⟩)
          obtain ⟨p1, p2, p3, p4, _⟩ := append_spec grow h s3 (a.getD n1 0) w base hb
          generalize append grow h s3 (a.getD n1 0) = ap at p1 p2 p3 p4
          obtain ⟨h', s'⟩ := ap
          simp only at p1 p2 p3 p4 ⊢
          obtain ⟨r1, r2, r3, r4⟩ := ih (n1 + 1) (n2 + 1) h' s' p1 p4 (by omega)
          refine ⟨r1, ?_, p3.trans r3, r4⟩
          rw [r2, p2, getD_drop a n1 hn1, getD_drop b n2 hn2, List.append_assoc]
          congr 1
          rw [sMerge_cons, if_neg e1, if_neg e2]; rfl
    · rw [if_neg hany]
      refine ⟨w, ?_, Frame.refl _ _, hb⟩
      rw [List.drop_of_length_le (by omega), List.drop_of_length_le (by omega)]
      simp [sMerge]

/-- Union: the result reads as the merge; it may alias an operand (when the other one is empty) but nothing is written -/
theorem union_spec (grow : Nat → Nat) (h : Heap) (s s2 : Slice) (w : SWF h s) (w2 : SWF h s2) :
    SWF (union grow h s s2).1 (union grow h s s2).2 ∧
    view (union grow h s s2).1 (union grow h s s2).2 = sUnion (view h s) (view h s2) ∧
    Frame h.length h (union grow h s s2).1 := by
  unfold union sUnion
  by_cases e2 : s2.len = 0
  · rw [if_pos e2]
    exact ⟨w, by rw [view_nil_of_len0 _ _ e2, sMerge_nil_right], Frame.refl _ _⟩
  · rw [if_neg e2]
    by_cases e1 : s.len = 0
    · rw [if_pos e1]
      exact ⟨w2, by rw [view_nil_of_len0 _ _ e1, sMerge_nil_left], Frame.refl _ _⟩
    · rw [if_neg e1]
      obtain ⟨m1, m2, m3, m4, _⟩ := make_spec h 0 (s.len + s2.len) (Nat.zero_le _)
      generalize make h 0 (s.len + s2.len) = mk at m1 m2 m3 m4
      obtain ⟨h1, s3⟩ := mk
      simp only at m1 m2 m3 m4 ⊢
      have l1 : (view h s).length = s.len := by have := w.2.1; have := w.2.2; simp [view]; omega
      have l2 : (view h s2).length = s2.len := by have := w2.2.1; have := w2.2.2; simp [view]; omega
      obtain ⟨r1, r2, r3, _⟩ := unionLoop_spec grow (view h s) (view h s2) h.length (s.len + s2.len + 1) 0 0 h1 s3 m1
        (by omega) (by omega)
      refine ⟨r1, ?_, m2.trans r3⟩
      rw [r2, view_nil_of_len0 _ _ m4]
      simp

end PV.Data
