/-
  The CLOSED WORLD of the translated parser core WITH TRANSLATED TERMINALS: definitions and the induction.

  Proofs/CoreWorld.lean builds `gWorld cfg root fuel` from the translated combinator closures; its terminal leaf
  `Terminal_parse` is taken from the model.  Here the leaf runs the TRANSLATED terminal closure (Generated/FactsTerm.lean):
    * `tWorld cfg : TWorld` — the world of the terminals, built from the configuration: the reader's methods are the
      model's file functions (Model/Text.lean; Props/C09P.lean ties them to the translated reader), `unquoteString` the
      model's (Props/C08P.lean), the regexp engine answers for the five literal expressions what the hand-written
      matchers answer (Props/C08.lean: = the leftmost-first semantics of the expressions) and for the user expression
      `id` — written `rxText id` in this world — what `cfg.params.regexp id` answers; strconv.ParseInt(·, 0, 64) is
      `parseInt0`, ParseFloat / ParseDuration / UnquoteChar are the model's parameters.  `tWorld_rel`: it satisfies the
      contracts `TWorldRel` and `RegexpRel` BY CONSTRUCTION, for every configuration.
    * `nodeT` = `CW.node` with the case `.term t` replaced by `termLeaf cfg (tWorld cfg) cwNames [] t`: the translated
      closure of the terminal, a Go panic inside it reported the model's way (Proofs/TermTieLeaf.lean).
    * `gWorldT`, `dispatchT`: as `gWorld`, `dispatch`, over `nodeT`.
  `gWorldT_agrees`: the induction of Proofs/CoreWorldTie.lean with `tie_Terminal` replaced by `tie_leaf`.
-/
import ParsleyVerif.Proofs.TermTieLeaf
import ParsleyVerif.Proofs.CoreWorldTie
namespace PV.CWT
open PV.CoreTie PV.FactsCore PV.CW PV.TermTie PV.Text

/-! ### the world of the terminals, from the configuration -/

/-- the text this world gives to the model's user expression `id`: a NUL byte, then `id` more (none of the five literal
    expressions starts with NUL) -/
def rxText (id : Nat) : Bytes := 0 :: List.replicate id 0

def rxIdOf : Bytes → Option Nat
  | 0 :: r => some r.length
  | _ => none

/-- the user expressions as this world writes them; a Regexp terminal with a group uses the group 1 -/
def cwNames : RxNames := { text := rxText, group := fun _ hg => if hg then 1 else 0 }

/-- the engine for an expression text -/
def engineOf (cfg : Cfg) (rx : Bytes) : Bytes → Option Nat :=
  if rx = rxBytes Rx.integerSx then integerMatch
  else if rx = rxBytes Rx.floatSx then floatMatch
  else if rx = rxBytes Rx.durationSx then durationMatch
  else if rx = rxBytes Rx.charSx then charMatch
  else if rx = rxBytes Rx.backquoteSx then backquoteMatch
  else match rxIdOf rx with
    | some id => userEngine cfg id
    | none => fun _ => none

/-- FindSubmatch for the user expression `id`: the whole match, then the group the model's engine reports (if any) -/
def submatches (cfg : Cfg) (id : Nat) (pos : Nat) (whole : Bytes) : List (Option Bytes) :=
  match cfg.params.regexp id (cfg.file.data.drop (pos - cfg.file.offset)) with
  | some (_, some g) => [some whole, some g]
  | _ => [some whole]

def tWorld (cfg : Cfg) : TWorld :=
  { Reader_ReadRune := fun p ch => (readRune cfg.file p.toNat ch.toNat).map ePB,
    Reader_MatchString := fun p s => (matchString cfg.file p.toNat s).map ePB,
    Reader_MatchWord := fun p w => (matchWord cfg.file p.toNat w).map ePB,
    Reader_ReadRegexp := fun p rx => (readRegexp (engineOf cfg rx) cfg.file p.toNat).map ePS,
    Reader_ReadRegexpSubmatch := fun p rx =>
      match rxIdOf rx with
      | none => none
      | some id =>
        match readRegexp (userEngine cfg id) cfg.file p.toNat with
        | none => none
        | some (rp, none) => some ((rp : Int), none)
        | some (rp, some whole) => some ((rp : Int), some (submatches cfg id p.toNat whole)),
    Reader_Readf := fun p fn => (readf (fun b => ((fn b).1, (fn b).2.toNat)) cfg.file p.toNat).map ePS,
    Reader_IsEOF := fun p => isEOF cfg.file p.toNat,
    Reader_Remaining := fun p => (remaining cfg.file p.toNat : Nat),
    unquoteString := fun b => ((unquoteString b).1, ((unquoteString b).2 : Nat)),
    strconv_ParseInt := fun lex base bits =>
      if base = 0 ∧ bits = 64 then
        match parseInt0 lex with
        | some v => (v, .nil)
        | none => (0, .other 0 [])
      else (0, .other 0 []),
    strconv_ParseFloat := fun lex _ => if cfg.params.floatOk lex then (symOf lex, .nil) else ([], .other 0 []),
    strconv_UnquoteChar := fun s q =>
      match unquoteChar s q.toNat with
      | some (v, tail) => ((v : Int), false, tail, .nil)
      | none => (0, false, [], .other 0 []),
    time_ParseDuration := fun lex =>
      match cfg.params.durErr lex with
      | none => (symOf lex, .nil)
      | some msg => ([], .other 0 msg),
    -- strconv.Quote is not modelled (the quoted name is a construction parameter of the model's terminals): a placeholder
    strconv_Quote := fun s => 34 :: s ++ [34],
    strings_ToUpper := upperAscii }

/-! the six texts are pairwise different -/

theorem rx_ne_1 : rxBytes Rx.floatSx ≠ rxBytes Rx.integerSx := by with_unfolding_all decide
theorem rx_ne_2 : rxBytes Rx.durationSx ≠ rxBytes Rx.integerSx := by with_unfolding_all decide
theorem rx_ne_3 : rxBytes Rx.durationSx ≠ rxBytes Rx.floatSx := by with_unfolding_all decide
theorem rx_ne_4 : rxBytes Rx.charSx ≠ rxBytes Rx.integerSx := by with_unfolding_all decide
theorem rx_ne_5 : rxBytes Rx.charSx ≠ rxBytes Rx.floatSx := by with_unfolding_all decide
theorem rx_ne_6 : rxBytes Rx.charSx ≠ rxBytes Rx.durationSx := by with_unfolding_all decide
theorem rx_ne_7 : rxBytes Rx.backquoteSx ≠ rxBytes Rx.integerSx := by with_unfolding_all decide
theorem rx_ne_8 : rxBytes Rx.backquoteSx ≠ rxBytes Rx.floatSx := by with_unfolding_all decide
theorem rx_ne_9 : rxBytes Rx.backquoteSx ≠ rxBytes Rx.durationSx := by with_unfolding_all decide
theorem rx_ne_10 : rxBytes Rx.backquoteSx ≠ rxBytes Rx.charSx := by with_unfolding_all decide

theorem rx_head_integer : (rxBytes Rx.integerSx).head? = some 91 := by with_unfolding_all rfl
theorem rx_head_float : (rxBytes Rx.floatSx).head? = some 91 := by with_unfolding_all rfl
theorem rx_head_duration : (rxBytes Rx.durationSx).head? = some 91 := by with_unfolding_all rfl
theorem rx_head_char : (rxBytes Rx.charSx).head? = some 92 := by with_unfolding_all rfl
theorem rx_head_backquote : (rxBytes Rx.backquoteSx).head? = some 91 := by with_unfolding_all rfl

theorem rxText_ne (id : Nat) (b : Bytes) (k : Nat) (hb : b.head? = some (k + 1)) : rxText id ≠ b := by
  intro h
  rw [← h] at hb
  simp [rxText] at hb

theorem engineOf_integer (cfg : Cfg) : engineOf cfg (rxBytes Rx.integerSx) = integerMatch := by simp [engineOf]
theorem engineOf_float (cfg : Cfg) : engineOf cfg (rxBytes Rx.floatSx) = floatMatch := by simp [engineOf, rx_ne_1]
theorem engineOf_duration (cfg : Cfg) : engineOf cfg (rxBytes Rx.durationSx) = durationMatch := by
  simp [engineOf, rx_ne_2, rx_ne_3]
theorem engineOf_char (cfg : Cfg) : engineOf cfg (rxBytes Rx.charSx) = charMatch := by
  simp [engineOf, rx_ne_4, rx_ne_5, rx_ne_6]
theorem engineOf_backquote (cfg : Cfg) : engineOf cfg (rxBytes Rx.backquoteSx) = backquoteMatch := by
  simp [engineOf, rx_ne_7, rx_ne_8, rx_ne_9, rx_ne_10]

theorem rxIdOf_text (id : Nat) : rxIdOf (rxText id) = some id := by simp [rxIdOf, rxText]

theorem engineOf_user (cfg : Cfg) (id : Nat) : engineOf cfg (rxText id) = userEngine cfg id := by
  simp only [engineOf, rxIdOf_text, if_neg (rxText_ne id _ 90 rx_head_integer), if_neg (rxText_ne id _ 90 rx_head_float),
    if_neg (rxText_ne id _ 90 rx_head_duration), if_neg (rxText_ne id _ 91 rx_head_char),
    if_neg (rxText_ne id _ 90 rx_head_backquote)]

/-- **the world built from the configuration satisfies the contracts** -/
theorem tWorld_rel (cfg : Cfg) : TWorldRel (tWorld cfg) cfg where
  readRune p ch := by simp [tWorld]
  matchString p s := by simp [tWorld]
  matchWord p w := by simp [tWorld]
  reInteger p := by simp [tWorld, engineOf_integer]
  reFloat p := by simp [tWorld, engineOf_float]
  reDuration p := by simp [tWorld, engineOf_duration]
  reChar p := by simp [tWorld, engineOf_char]
  reBackquote p := by simp [tWorld, engineOf_backquote]
  readf p := by simp [tWorld]
  isEOF p := by simp [tWorld]
  remaining p := by simp [tWorld]
  parseInt lex _ := by
    cases h : parseInt0 lex <;> simp [tWorld, h, CorePrelude.Cause.isNil]
  parseFloat lex := by
    cases h : cfg.params.floatOk lex <;> simp [tWorld, h, CorePrelude.Cause.isNil]
  parseDuration lex := by
    cases h : cfg.params.durErr lex <;> simp [tWorld, h]
  unquoteChar s := by
    have e : (39 : Int).toNat = 39 := rfl
    cases h : unquoteChar s 39 with
    | none => simp [tWorld, e, h, CorePrelude.Cause.isNil]
    | some r => obtain ⟨v, tail⟩ := r; simp [tWorld, e, h]
  toUpper w _ := rfl

/-- … and the contract of the regexp engine, for every user expression, without and with a group -/
theorem tWorld_regexp (cfg : Cfg) (id : Nat) (hasGroup : Bool) :
    RegexpRel (tWorld cfg) cfg id (rxText id) (cwNames.group id hasGroup) where
  whole p := by simp [tWorld, engineOf_user]
  group hne := by
    cases hasGroup with
    | false => simp [cwNames] at hne
    | true =>
      refine ⟨by simp [cwNames], fun p => ?_⟩
      simp only [tWorld, rxIdOf_text, Int.toNat_natCast]
      rcases h : readRegexp (userEngine cfg id) cfg.file p with _ | ⟨rp, _ | whole⟩
      · simp
      · simp
      · simp only [cwNames, if_true]
        refine ⟨_, rfl, ?_⟩
        unfold submatches
        rcases hp : cfg.params.regexp id (List.drop (p - cfg.file.offset) cfg.file.data) with _ | ⟨ml, _ | g⟩
        · simp
        · simp
        · exact ⟨some g, by simp, rfl⟩

theorem tWorld_regexpOK (cfg : Cfg) (t : Terminal) : RegexpOK (tWorld cfg) cfg cwNames t := by
  cases t with
  | regexp id tok name hasGroup =>
    refine ⟨tWorld_regexp cfg id hasGroup, ?_⟩
    cases hasGroup <;> simp [cwNames]
  | _ => trivial

/-! ### one level of the world, the world -/

/-- the terminal leaf of this world: the TRANSLATED closure of the terminal over `tWorld cfg` (nil schema) -/
def leafT (cfg : Cfg) (t : Terminal) : IntMap → Int → CM (CNode × IntSet × CErr) :=
  termLeaf cfg (tWorld cfg) cwNames [] t

/-- `CW.node` with the terminal case running the translated closure -/
def nodeT (cfg : Cfg) (W : World Context) (fuel : Nat) (π : List Nat) : G → IntMap → Int → CM (CNode × IntSet × CErr)
  | .term t => leafT cfg t
  | g => node cfg W fuel π g

def dispatchT (cfg : Cfg) (root : G) (W : World Context) (fuel : Nat) :
    Parser → IntMap → Int → CM (CNode × IntSet × CErr)
  | .nil, _, _ => CorePrelude.Go.panic
  | .mk n, m, pos =>
    match (Encodable.decode n : Option (List Nat)) with
    | none => CorePrelude.Go.panic
    | some π =>
      match resolve (table cfg root) π with
      | none => CorePrelude.Go.panic
      | some g => nodeT cfg W fuel π g m pos

/-- **the closed world with translated terminals**, by recursion on the fuel -/
def gWorldT (cfg : Cfg) (root : G) : Nat → World Context
  | 0 => { rdWorld cfg with parse := fun _ _ _ => CorePrelude.Go.outOfFuel }
  | fuel + 1 => { rdWorld cfg with parse := dispatchT cfg root (gWorldT cfg root fuel) fuel }

theorem gWorldT_rel (cfg : Cfg) (root : G) (fuel : Nat) : WorldRel (gWorldT cfg root fuel) cfg := by
  have h := rdWorld_rel cfg
  cases fuel <;> exact ⟨h.remaining, h.isEOF, h.pos0, h.skipWs⟩

theorem nodeT_of_not_term (cfg : Cfg) (W : World Context) (fuel : Nat) (π : List Nat) (g : G) (h : ∀ t, g ≠ .term t) :
    nodeT cfg W fuel π g = node cfg W fuel π g := by
  cases g <;> first | rfl | exact absurd rfl (h _)

/-- the induction step, for every constructor of `G`: `node_agrees` with the terminal case proved by `tie_leaf` -/
theorem nodeT_agrees (W : World Context) (cfg : Cfg) (h0 : cfg.maxCalls = 0) (hw : WorldRel W cfg) (fuel : Nat)
    (π : List Nat) (g : G)
    (hkids : ∀ i k, (kids g)[i]? = some k → Agrees W cfg fuel (kidH π i) k)
    (href : ∀ k, g = .ref k → ∃ g', cfg.env[k]? = some g' ∧ Agrees W cfg fuel (refH k) g') :
    AgreesF (nodeT cfg W fuel π g) cfg (fuel + 1) g := by
  by_cases ht : ∃ t, g = .term t
  · obtain ⟨t, rfl⟩ := ht
    exact tie_leaf (tWorld cfg) cfg h0 (tWorld_rel cfg) cwNames [] t (tWorld_regexpOK cfg t) fuel
  · rw [nodeT_of_not_term cfg W fuel π g (fun t e => ht ⟨t, e⟩)]
    exact node_agrees W cfg h0 hw fuel π g hkids href

theorem gWorldT_parse_succ (cfg : Cfg) (root : G) (fuel : Nat) (π : List Nat) (g : G)
    (h : resolve (table cfg root) π = some g) :
    (gWorldT cfg root (fuel + 1)).parse (hdl π) = nodeT cfg (gWorldT cfg root fuel) fuel π g := by
  funext m pos
  show dispatchT cfg root (gWorldT cfg root fuel) fuel (hdl π) m pos = _
  simp only [dispatchT, hdl, Encodable.encodek, h]

theorem gWorldT_parse_zero (cfg : Cfg) (root : G) (p : Parser) (m : IntMap) (pos : Int) (s : Context) :
    (gWorldT cfg root 0).parse p m pos s = .nofuel := rfl

/-- **the closed-world theorem, path form**: at every fuel the world built from the translated combinator closures AND the
    translated terminal closures agrees with the model's `run` on every sub-parser of the table -/
theorem gWorldT_agrees (cfg : Cfg) (h0 : cfg.maxCalls = 0) (root : G) (hc : Closed cfg root) :
    ∀ (fuel : Nat) (π : List Nat) (g : G), resolve (table cfg root) π = some g →
      Agrees (gWorldT cfg root fuel) cfg fuel (hdl π) g := by
  intro fuel
  induction fuel with
  | zero =>
    intro π g _ m c pos s st _ _
    show Corr _ none
    exact gWorldT_parse_zero cfg root _ _ _ _
  | succ fuel ih =>
    intro π g hπ
    rw [agrees_iff, gWorldT_parse_succ cfg root fuel π g hπ]
    refine nodeT_agrees (gWorldT cfg root fuel) cfg h0 (gWorldT_rel cfg root fuel) fuel π g
      (fun i k hk => ih (π ++ [i]) k (resolve_snoc _ π g k i hπ hk)) (fun k hk => ?_)
    subst hk
    have hlt : k < cfg.env.length := G.All_self (resolve_refsBelow cfg root hc π _ hπ) k rfl
    exact ⟨cfg.env[k], List.getElem?_eq_getElem hlt, ih [k + 1] _ (resolve_ref cfg root k _ (List.getElem?_eq_getElem hlt))⟩

end PV.CWT
