/-
  C08: `charMatch` computes the longest prefix in the documented char body syntax (Spec/Lang.lean
  `isCharBody`), and it is the first alternative, in the order written, that has a prefix of the input.
-/
import ParsleyVerif.Proofs.Lang
import ParsleyVerif.Proofs.Utf8
namespace PV
open PV.Text PV.Lang

theorem ite_w (c : Prop) [Decidable c] (a b k : Nat) : (if c then (a, k) else (b, 1)).2 = if c then k else 1 := by
  split <;> rfl

theorem ite_small (c : Prop) [Decidable c] (k n : Nat) (hk : n < k) (h : (if c then k else 1) ≤ n) :
    1 = if c then k else 1 := by
  by_cases hc : c
  · rw [if_pos hc] at h; omega
  · rw [if_neg hc]

theorem decode_take_cons (b0 : Nat) (r : Bytes) (j : Nat) (h : (Utf8.decodeRune (b0 :: r)).2 ≤ j + 1) :
    (Utf8.decodeRune (b0 :: r.take j)).2 = (Utf8.decodeRune (b0 :: r)).2 := by
  simp only [Utf8.decodeRune] at h ⊢
  by_cases c1 : b0 < 0x80
  · simp only [if_pos c1]
  · simp only [if_neg c1] at h ⊢
    by_cases c2 : b0 < 0xC2
    · simp only [if_pos c2]
    · simp only [if_neg c2] at h ⊢
      by_cases c3 : b0 ≤ 0xDF
      · simp only [if_pos c3] at h ⊢
        match r, j with
        | [], _ => simp
        | b1 :: r', 0 =>
          simp only [List.take, ite_w] at h ⊢
          exact ite_small _ _ _ (by omega) h
        | b1 :: r', j + 1 => rfl
      · simp only [if_neg c3] at h ⊢
        by_cases c4 : b0 ≤ 0xEF
        · simp only [if_pos c4] at h ⊢
          match r, j with
          | [], _ => simp
          | [b1], 0 => rfl
          | [b1], j + 1 => simp
          | b1 :: b2 :: r', 0 =>
            simp only [List.take, ite_w] at h ⊢
            exact ite_small _ _ _ (by omega) h
          | b1 :: b2 :: r', 1 =>
            simp only [List.take, ite_w] at h ⊢
            exact ite_small _ _ _ (by omega) h
          | b1 :: b2 :: r', j + 2 => rfl
        · simp only [if_neg c4] at h ⊢
          by_cases c5 : b0 ≤ 0xF4
          · simp only [if_pos c5] at h ⊢
            match r, j with
            | [], _ => simp
            | [b1], 0 => rfl
            | [b1], j + 1 => simp
            | [b1, b2], 0 => rfl
            | [b1, b2], 1 => rfl
            | [b1, b2], j + 2 => simp
            | b1 :: b2 :: b3 :: r', 0 =>
              simp only [List.take, ite_w] at h ⊢
              exact ite_small _ _ _ (by omega) h
            | b1 :: b2 :: b3 :: r', 1 =>
              simp only [List.take, ite_w] at h ⊢
              exact ite_small _ _ _ (by omega) h
            | b1 :: b2 :: b3 :: r', 2 =>
              simp only [List.take, ite_w] at h ⊢
              exact ite_small _ _ _ (by omega) h
            | b1 :: b2 :: b3 :: r', j + 3 => rfl
          · simp only [if_neg c5]

/-- utf8.DecodeRune reads one sequence: cutting the input anywhere behind it does not change the width -/
theorem decode_take (l : Bytes) (j : Nat) (h : (Utf8.decodeRune l).2 ≤ j) (hl : l ≠ []) :
    (Utf8.decodeRune (l.take j)).2 = (Utf8.decodeRune l).2 := by
  cases l with
  | nil => exact absurd rfl hl
  | cons b0 r =>
    cases j with
    | zero => have := (Utf8.decodeRune_width (b0 :: r) hl).1; omega
    | succ j => exact decode_take_cons b0 r j h

/-! ### languages whose words all have the same length -/
theorem longestPrefix_fixed (L : Bytes → Bool) (n : Nat) (hL : ∀ w, L w = true → w.length = n) (l : Bytes) :
    longestPrefix L l = if n ≤ l.length ∧ L (l.take n) = true then some n else none := by
  by_cases h : n ≤ l.length ∧ L (l.take n) = true
  · rw [if_pos h]
    apply longestPrefix_eq_some h.1 h.2
    intro j hj1 hj2
    cases hj : L (l.take j) with
    | false => rfl
    | true => have := hL _ hj; rw [List.length_take] at this; omega
  · rw [if_neg h, longestPrefix_none]
    intro j hj
    cases hj' : L (l.take j) with
    | false => rfl
    | true =>
      have := hL _ hj'
      rw [List.length_take] at this
      have : j = n := by omega
      subst this
      exact absurd ⟨hj, hj'⟩ h

theorem isSimpleEscape_length (w : Bytes) (h : isSimpleEscape w = true) : w.length = 2 := by
  unfold isSimpleEscape at h
  split at h
  · rfl
  · cases h

theorem isHexEscape_length (x n : Nat) (w : Bytes) (h : isHexEscape x n w = true) : w.length = n + 2 := by
  unfold isHexEscape at h
  split at h
  · simp at h; simp [h.1.2]
  · cases h

theorem isSimpleEscape_cons (c e : Nat) :
    isSimpleEscape [c, e] = (decide (c = 92) && [97, 98, 102, 110, 114, 116, 118, 39].contains e) := by
  by_cases hc : c = 92
  · subst hc; simp [isSimpleEscape]
  · simp [isSimpleEscape, hc]

/-- `\\[abfnrtv']` -/
theorem longestPrefix_isSimpleEscape (l : Bytes) :
    longestPrefix isSimpleEscape l =
      match l with
      | c :: e :: _ => if c = 92 ∧ [97, 98, 102, 110, 114, 116, 118, 39].contains e = true then some 2 else none
      | _ => none := by
  rw [longestPrefix_fixed _ 2 isSimpleEscape_length]
  match l with
  | [] => simp
  | [c] => simp
  | c :: e :: r =>
    simp only [List.take, isSimpleEscape_cons c e]
    simp

theorem isHexEscape_cons (x n c e : Nat) (r : Bytes) :
    isHexEscape x n (c :: e :: r) = (decide (c = 92) && decide (e = x) && decide (r.length = n) && r.all hexDigit) := by
  by_cases hc : c = 92
  · subst hc; simp [isHexEscape]
  · simp [isHexEscape, hc]

/-- `\\<letter>[0-9a-fA-F]{n,n}` -/
theorem longestPrefix_isHexEscape (x n : Nat) (l : Bytes) :
    longestPrefix (isHexEscape x n) l =
      match l with
      | c :: e :: r => if c = 92 ∧ e = x ∧ r.length ≥ n ∧ (r.take n).all hexDigit = true then some (n + 2) else none
      | _ => none := by
  rw [longestPrefix_fixed _ (n + 2) (isHexEscape_length x n)]
  match l with
  | [] => simp
  | [c] => simp
  | c :: e :: r =>
    simp only [List.take_succ_cons, isHexEscape_cons]
    by_cases h : c = 92 ∧ e = x ∧ r.length ≥ n ∧ (r.take n).all hexDigit = true
    · rw [if_pos h, if_pos]
      obtain ⟨h1, h2, h3, h4⟩ := h
      refine ⟨by simp; omega, ?_⟩
      simp only [Bool.and_eq_true, decide_eq_true_eq]
      exact ⟨⟨⟨h1, h2⟩, by rw [List.length_take]; omega⟩, h4⟩
    · rw [if_neg h, if_neg]
      rintro ⟨h1, h2⟩
      simp only [Bool.and_eq_true, decide_eq_true_eq] at h2
      simp only [List.length_cons] at h1
      exact h ⟨h2.1.1.1, h2.1.1.2, by omega, h2.2⟩

/-- `[^']`: one UTF-8 sequence (or one invalid byte), not the quote -/
theorem longestPrefix_isOneRuneNotQuote (l : Bytes) :
    longestPrefix isOneRuneNotQuote l =
      match l with
      | [] => none
      | c :: _ => if c = 39 then none else some (Utf8.decodeRune l).2 := by
  cases l with
  | nil => rw [longestPrefix_nil]; rfl
  | cons c r =>
    simp only []
    have hne : c :: r ≠ [] := by simp
    have hw := Utf8.decodeRune_width (c :: r) hne
    have hlen : ∀ j, j ≤ (c :: r).length → ((c :: r).take j).length = j := by
      intro j hj; rw [List.length_take]; omega
    by_cases hc : c = 39
    · rw [if_pos hc, longestPrefix_none]
      intro j hj
      cases j with
      | zero => rfl
      | succ j =>
        have h1 : (Utf8.decodeRune (c :: r)).2 = 1 := by subst hc; rfl
        have h2 := decode_take (c :: r) (j + 1) (by omega) hne
        unfold isOneRuneNotQuote
        rw [h2, h1, hlen _ hj]
        cases j with
        | zero => subst hc; simp
        | succ j => simp
    · rw [if_neg hc]
      apply longestPrefix_eq_some hw.2
      · unfold isOneRuneNotQuote
        rw [decode_take _ _ (Nat.le_refl _) hne, hlen _ hw.2]
        obtain ⟨w, hw'⟩ : ∃ w, (Utf8.decodeRune (c :: r)).2 = w + 1 := ⟨_, (Nat.sub_add_cancel hw.1).symm⟩
        rw [hw']
        simp [hc]
      · intro j hj1 hj2
        unfold isOneRuneNotQuote
        rw [decode_take _ _ (by omega) hne, hlen _ hj2]
        have : (Utf8.decodeRune (c :: r)).2 ≠ j := by omega
        simp [this]

/-! ### the char body -/
theorem allHex_eq_all (l : Bytes) : allHex l = l.all hexDigit := rfl

/-- the five alternatives on an input, in closed form -/
theorem charMatch_eq_firstSome (l : Bytes) :
    charMatch l =
      firstSome [longestPrefix isSimpleEscape l, longestPrefix (isHexEscape 120 2) l,
        longestPrefix (isHexEscape 117 4) l, longestPrefix (isHexEscape 85 8) l,
        longestPrefix isOneRuneNotQuote l] := by
  rw [longestPrefix_isSimpleEscape, longestPrefix_isHexEscape, longestPrefix_isHexEscape, longestPrefix_isHexEscape,
    longestPrefix_isOneRuneNotQuote]
  match l with
  | [] => rfl
  | [c] =>
    simp only [firstSome]
    by_cases hc : c = 92
    · subst hc; rfl
    · simp [charMatch, firstSome_ite', firstSome_nil]
  | c :: e :: r =>
    simp only []
    by_cases hc : c = 92
    · subst hc
      have hd : (Utf8.decodeRune (92 :: e :: r)).2 = 1 := rfl
      simp only [charMatch, allHex_eq_all, hd, firstSome_ite, firstSome_ite', firstSome_nil]
      simp [and_assoc]
    · simp [charMatch, hc, firstSome_ite', firstSome_nil, firstSome_none]

theorem optMax_none_left (y : Option Nat) : optMax none y = y := rfl
theorem optMax_none_right (x : Option Nat) : optMax x none = x := by cases x <;> rfl
theorem optMax_some (a b : Nat) : optMax (some a) (some b) = some (max a b) := rfl

theorem alt_combine (A B C D : Prop) [Decidable A] [Decidable B] [Decidable C] [Decidable D] (a b c d : Nat)
    (ha : 1 ≤ a) (hb : 1 ≤ b) (hc : 1 ≤ c) (hd : 1 ≤ d)
    (hAB : A → ¬ B) (hAC : A → ¬ C) (hAD : A → ¬ D) (hBC : B → ¬ C) (hBD : B → ¬ D) (hCD : C → ¬ D) :
    firstSome [if A then some a else none, if B then some b else none, if C then some c else none,
        if D then some d else none, some 1] =
      optMax (optMax (optMax (optMax (if A then some a else none) (if B then some b else none))
        (if C then some c else none)) (if D then some d else none)) (some 1) := by
  by_cases hA : A
  · rw [if_pos hA, if_neg (hAB hA), if_neg (hAC hA), if_neg (hAD hA)]
    simp only [firstSome, optMax]; rw [Nat.max_eq_left ha]
  · rw [if_neg hA]
    by_cases hB : B
    · rw [if_pos hB, if_neg (hBC hB), if_neg (hBD hB)]
      simp only [firstSome, optMax]; rw [Nat.max_eq_left hb]
    · rw [if_neg hB]
      by_cases hC : C
      · rw [if_pos hC, if_neg (hCD hC)]
        simp only [firstSome, optMax]; rw [Nat.max_eq_left hc]
      · rw [if_neg hC]
        by_cases hD : D
        · rw [if_pos hD]
          simp only [firstSome, optMax]; rw [Nat.max_eq_left hd]
        · rw [if_neg hD]; rfl

/-- on the char body expression the first alternative that matches is also the longest match -/
theorem char_first_eq_longest (l : Bytes) :
    firstSome [longestPrefix isSimpleEscape l, longestPrefix (isHexEscape 120 2) l,
        longestPrefix (isHexEscape 117 4) l, longestPrefix (isHexEscape 85 8) l,
        longestPrefix isOneRuneNotQuote l] =
      optMax (optMax (optMax (optMax (longestPrefix isSimpleEscape l) (longestPrefix (isHexEscape 120 2) l))
        (longestPrefix (isHexEscape 117 4) l)) (longestPrefix (isHexEscape 85 8) l))
        (longestPrefix isOneRuneNotQuote l) := by
  rw [longestPrefix_isSimpleEscape, longestPrefix_isHexEscape, longestPrefix_isHexEscape, longestPrefix_isHexEscape,
    longestPrefix_isOneRuneNotQuote]
  match l with
  | [] => rfl
  | [c] => simp only [firstSome_none, optMax_none_left]; by_cases hc : c = 39 <;> simp [hc, firstSome]
  | c :: e :: r =>
    simp only []
    by_cases hc : c = 92
    · subst hc
      have hd : (Utf8.decodeRune (92 :: e :: r)).2 = 1 := rfl
      rw [hd, if_neg (by decide : ¬ (92 = 39))]
      apply alt_combine
      · omega
      · omega
      · omega
      · omega
      · rintro ⟨_, h⟩ ⟨_, rfl, _⟩; revert h; decide
      · rintro ⟨_, h⟩ ⟨_, rfl, _⟩; revert h; decide
      · rintro ⟨_, h⟩ ⟨_, rfl, _⟩; revert h; decide
      · rintro ⟨_, rfl, _⟩ ⟨_, h, _⟩; revert h; decide
      · rintro ⟨_, rfl, _⟩ ⟨_, h, _⟩; revert h; decide
      · rintro ⟨_, rfl, _⟩ ⟨_, h, _⟩; revert h; decide
    · rw [if_neg (fun h => hc h.1), if_neg (fun h => hc h.1), if_neg (fun h => hc h.1), if_neg (fun h => hc h.1)]
      simp only [firstSome_none, optMax_none_left]
      by_cases h39 : c = 39
      · rw [if_pos h39]; rfl
      · rw [if_neg h39]; rfl

theorem charMatch_eq_longest (l : Bytes) : charMatch l = longestPrefix isCharBody l := by
  have : isCharBody = fun w => (fun w => (fun w => (fun w => isSimpleEscape w || isHexEscape 120 2 w) w ||
      isHexEscape 117 4 w) w || isHexEscape 85 8 w) w || isOneRuneNotQuote w := rfl
  rw [this, longestPrefix_or, longestPrefix_or, longestPrefix_or, longestPrefix_or, charMatch_eq_firstSome,
    char_first_eq_longest]

theorem charMatch_sound (l : Bytes) (k : Nat) (h : charMatch l = some k) : isCharBody (l.take k) = true :=
  longestPrefix_mem (charMatch_eq_longest l ▸ h)
theorem charMatch_maximal (l : Bytes) (k : Nat) (h : charMatch l = some k) :
    ∀ j, k < j → j ≤ l.length → isCharBody (l.take j) = false :=
  longestPrefix_max (charMatch_eq_longest l ▸ h)
theorem charMatch_none (l : Bytes) (h : charMatch l = none) : ∀ j, j ≤ l.length → isCharBody (l.take j) = false :=
  longestPrefix_none.1 (charMatch_eq_longest l ▸ h)

/-! ### not vacuous -/
-- `\n'`, `\x4G`, `\u00e9'`, `é'`, `'`, a lone continuation byte, a cut three-byte sequence
example : longestPrefix isCharBody [92, 110, 39] = some 2 ∧ charMatch [92, 110, 39] = some 2 := by decide
example : longestPrefix isCharBody [92, 120, 52, 71] = some 1 ∧ charMatch [92, 120, 52, 71] = some 1 := by decide
example : longestPrefix isCharBody [92, 117, 48, 48, 101, 57, 39] = some 6 := by decide
example : longestPrefix isCharBody [0xC3, 0xA9, 39] = some 2 ∧ charMatch [0xC3, 0xA9, 39] = some 2 := by decide
example : longestPrefix isCharBody [39] = none ∧ charMatch [39] = none := by decide
example : longestPrefix isCharBody [0x80, 97] = some 1 ∧ charMatch [0x80, 97] = some 1 := by decide
example : longestPrefix isCharBody [0xE2, 0x82] = some 1 ∧ charMatch [0xE2, 0x82] = some 1 := by decide

end PV
