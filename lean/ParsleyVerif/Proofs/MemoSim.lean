/-
  C03, transparency: the run of a grammar with Memoize wrappers and the run of the same grammar with every
  wrapper removed are related — same results, same returned error, the furthest recorded error at the same
  position, and the memoized run registers no more calls.

  One relational induction on fuel (`run_sim`), used twice:
    * with `H := False` (no Memoize on either side, `cfg = cfg0`) it is the STATE INDEPENDENCE of a
      Memoize-free grammar: two runs from different left-recursion contexts and different context states
      return the same results and error and raise the furthest-error position by the same amount (`indep`);
    * with `H := True` it is the simulation: a cache hit returns what the un-memoized body returns when it is
      run again (by state independence, applied to the run recorded in the cache invariant), and leaves the
      furthest-error position where the re-run would leave it, because that run's errors were already
      recorded when the entry was stored.
  The curtailing sets (`Out.cp`) never influence results or errors, so the relation ignores them.
-/
import ParsleyVerif.Proofs.MemoBasics
namespace PV
open PV.Text

abbrev stripAll (g : G) : G := g.strip (fun _ => true)

theorem stripList_eq_map (S : Nat → Bool) : ∀ gs, stripList S gs = gs.map (G.strip S)
  | [] => by simp [stripList]
  | g :: gs => by simp only [stripList, List.map_cons, stripList_eq_map S gs]

def MemoOK (H : Prop) (bodyOf : Nat → G) : G → Prop
  | .memo i b => H ∧ b = bodyOf i
  | _ => True

mutual
theorem strip_of_noMemo (S : Nat → Bool) (bo : Nat → G) : ∀ g : G, g.All (MemoOK False bo) → g.strip S = g
  | .term _, _ => by simp [G.strip]
  | .empty, _ => by simp [G.strip]
  | .eof, _ => by simp [G.strip]
  | .ref _, _ => by simp [G.strip]
  | .memo i b, h => by simp [G.All, MemoOK] at h
  | .any gs, h => by simp only [G.All] at h; simp only [G.strip, stripList_of_noMemo S bo gs h.2]
  | .choice gs, h => by simp only [G.All] at h; simp only [G.strip, stripList_of_noMemo S bo gs h.2]
  | .seq k gs o, h => by simp only [G.All] at h; simp only [G.strip, stripList_of_noMemo S bo gs h.2]
  | .many g ae o, h => by simp only [G.All] at h; simp only [G.strip, strip_of_noMemo S bo g h.2]
  | .sepBy v s ae o, h => by
    simp only [G.All] at h; simp only [G.strip, strip_of_noMemo S bo v h.2.1, strip_of_noMemo S bo s h.2.2]
  | .optional g, h => by simp only [G.All] at h; simp only [G.strip, strip_of_noMemo S bo g h.2]
  | .name g nm, h => by simp only [G.All] at h; simp only [G.strip, strip_of_noMemo S bo g h.2]
  | .ltrim g m, h => by simp only [G.All] at h; simp only [G.strip, strip_of_noMemo S bo g h.2]
  | .rtrim g m, h => by simp only [G.All] at h; simp only [G.strip, strip_of_noMemo S bo g h.2]
  | .single g, h => by simp only [G.All] at h; simp only [G.strip, strip_of_noMemo S bo g h.2]
  | .suppress g, h => by simp only [G.All] at h; simp only [G.strip, strip_of_noMemo S bo g h.2]
theorem stripList_of_noMemo (S : Nat → Bool) (bo : Nat → G) :
    ∀ gs : List G, AllList (MemoOK False bo) gs → stripList S gs = gs
  | [], _ => by simp [stripList]
  | g :: gs, h => by
    simp only [AllList] at h
    simp only [stripList, strip_of_noMemo S bo g h.1, stripList_of_noMemo S bo gs h.2]
end

mutual
theorem noMemo_stripAll (bo : Nat → G) : ∀ g : G, (stripAll g).All (MemoOK False bo)
  | .term _ => by simp [stripAll, G.strip, G.All, MemoOK]
  | .empty => by simp [stripAll, G.strip, G.All, MemoOK]
  | .eof => by simp [stripAll, G.strip, G.All, MemoOK]
  | .ref _ => by simp [stripAll, G.strip, G.All, MemoOK]
  | .memo i b => by simp only [stripAll, G.strip, ↓reduceIte]; exact noMemo_stripAll bo b
  | .any gs => by simp only [stripAll, G.strip, G.All, MemoOK, true_and]; exact noMemo_stripList bo gs
  | .choice gs => by simp only [stripAll, G.strip, G.All, MemoOK, true_and]; exact noMemo_stripList bo gs
  | .seq k gs o => by simp only [stripAll, G.strip, G.All, MemoOK, true_and]; exact noMemo_stripList bo gs
  | .many g ae o => by simp only [stripAll, G.strip, G.All, MemoOK, true_and]; exact noMemo_stripAll bo g
  | .sepBy v s ae o => by
    simp only [stripAll, G.strip, G.All, MemoOK, true_and]; exact ⟨noMemo_stripAll bo v, noMemo_stripAll bo s⟩
  | .optional g => by simp only [stripAll, G.strip, G.All, MemoOK, true_and]; exact noMemo_stripAll bo g
  | .name g nm => by simp only [stripAll, G.strip, G.All, MemoOK, true_and]; exact noMemo_stripAll bo g
  | .ltrim g m => by simp only [stripAll, G.strip, G.All, MemoOK, true_and]; exact noMemo_stripAll bo g
  | .rtrim g m => by simp only [stripAll, G.strip, G.All, MemoOK, true_and]; exact noMemo_stripAll bo g
  | .single g => by simp only [stripAll, G.strip, G.All, MemoOK, true_and]; exact noMemo_stripAll bo g
  | .suppress g => by simp only [stripAll, G.strip, G.All, MemoOK, true_and]; exact noMemo_stripAll bo g
theorem noMemo_stripList (bo : Nat → G) : ∀ gs : List G, AllList (MemoOK False bo) (stripList (fun _ => true) gs)
  | [] => by simp [stripList, AllList]
  | g :: gs => by
    simp only [stripList, AllList]
    exact ⟨noMemo_stripAll bo g, noMemo_stripList bo gs⟩
end

/-! ### the setting -/

/-- `cfg0` is `cfg` with every Memoize removed from the environment (same input, same parameters) -/
structure StripCfg (cfg cfg0 : Cfg) : Prop where
  file : cfg0.file = cfg.file
  params : cfg0.params = cfg.params
  env : cfg0.env = cfg.env.map stripAll

/-- every cache entry is the answer of some run of the un-memoized body at the entry's position, and the
    furthest error position that run left behind is already covered by the current context -/
def CacheInv (cfg0 : Cfg) (bo : Nat → G) (st : St) : Prop :=
  ∀ e ∈ st.cache, ∃ fr cr sr orr sr', run cfg0 fr (stripAll (bo e.idx)) cr e.pos sr = some (orr, sr') ∧
    orr.res = e.res ∧ orr.err = e.err ∧ pn sr' ≤ pn st

theorem CacheInv.mono {cfg0 : Cfg} {bo : Nat → G} {st st' : St} (h : CacheInv cfg0 bo st)
    (hc : st'.cache = st.cache) (hp : pn st ≤ pn st') : CacheInv cfg0 bo st' := by
  intro e he
  rw [hc] at he
  obtain ⟨fr, cr, sr, orr, sr', h1, h2, h3, h4⟩ := h e he
  exact ⟨fr, cr, sr, orr, sr', h1, h2, h3, Nat.le_trans h4 hp⟩

/-- state independence of a Memoize-free configuration -/
def Indep (cfg0 : Cfg) (bo : Nat → G) : Prop :=
  ∀ g f1 c1 p s1 o1 s1' f2 c2 s2 o2 s2', g.All (MemoOK False bo) →
    run cfg0 f1 g c1 p s1 = some (o1, s1') → run cfg0 f2 g c2 p s2 = some (o2, s2') →
    o1.res = o2.res ∧ o1.err = o2.err ∧ ∃ M, pn s1' = max (pn s1) M ∧ pn s2' = max (pn s2) M

structure HitHyp (cfg cfg0 : Cfg) (bo : Nat → G) : Prop where
  ghost : cfg.ghost = true
  indep : Indep cfg0 bo

/-- what is assumed of the two states a pair of calls starts in (only when a Memoize can occur: `H`) -/
def SPre (H : Prop) (cfg0 : Cfg) (bo : Nat → G) (L : List Ev) (st st0 : St) : Prop :=
  H → NoCurtail L ∧ CacheInv cfg0 bo st ∧ pn st = pn st0

/-- how a pair of calls moves the two contexts -/
structure Eff (H : Prop) (cfg0 : Cfg) (bo : Nat → G) (st st' st0 st0' : St) : Prop where
  calls : st'.calls + st0.calls ≤ st0'.calls + st.calls
  far : ∃ M, pn st' = max (pn st) M ∧ pn st0' = max (pn st0) M
  inv : H → CacheInv cfg0 bo st'

theorem SPre.sub {H : Prop} {cfg0 : Cfg} {bo : Nat → G} {L L' : List Ev} {st st0 : St}
    (h : SPre H cfg0 bo L st st0) (hs : L' <:+ L) : SPre H cfg0 bo L' st st0 :=
  fun hh => ⟨(h hh).1.of_suffix hs, (h hh).2⟩

theorem SPre.next {H : Prop} {cfg0 : Cfg} {bo : Nat → G} {L : List Ev} {st st' st0 st0' : St}
    (h : SPre H cfg0 bo L st st0) (e : Eff H cfg0 bo st st' st0 st0') : SPre H cfg0 bo L st' st0' := by
  intro hh
  obtain ⟨h1, _, h3⟩ := h hh
  obtain ⟨M, m1, m2⟩ := e.far
  exact ⟨h1, e.inv hh, by omega⟩

theorem Eff.refl {H : Prop} {cfg0 : Cfg} {bo : Nat → G} {L : List Ev} {st st0 : St}
    (h : SPre H cfg0 bo L st st0) : Eff H cfg0 bo st st st0 st0 :=
  ⟨by omega, ⟨0, by omega, by omega⟩, fun hh => (h hh).2.1⟩

theorem Eff.trans {H : Prop} {cfg0 : Cfg} {bo : Nat → G} {a b c a0 b0 c0 : St}
    (h1 : Eff H cfg0 bo a b a0 b0) (h2 : Eff H cfg0 bo b c b0 c0) : Eff H cfg0 bo a c a0 c0 := by
  obtain ⟨M1, m1, m2⟩ := h1.far
  obtain ⟨M2, m3, m4⟩ := h2.far
  have := h1.calls
  have := h2.calls
  exact ⟨by omega, ⟨max M1 M2, by omega, by omega⟩, h2.inv⟩

/-- a step that does not touch the cache -/
theorem Eff.step {H : Prop} {cfg0 : Cfg} {bo : Nat → G} {L : List Ev} {st st' st0 st0' : St}
    (h : SPre H cfg0 bo L st st0) (hc : st'.cache = st.cache)
    (hcalls : st'.calls + st0.calls ≤ st0'.calls + st.calls)
    (hpn : ∃ M, pn st' = max (pn st) M ∧ pn st0' = max (pn st0) M) : Eff H cfg0 bo st st' st0 st0' := by
  refine ⟨hcalls, hpn, fun hh => (h hh).2.1.mono hc ?_⟩
  obtain ⟨M, m1, _⟩ := hpn
  omega

theorem Eff.regCall {H : Prop} {cfg0 : Cfg} {bo : Nat → G} {L : List Ev} {st st0 : St}
    (h : SPre H cfg0 bo L st st0) : Eff H cfg0 bo st st.regCall st0 st0.regCall :=
  Eff.step h rfl (by simp only [St.regCall]; omega) ⟨0, by simp only [pn, St.regCall]; omega, by simp only [pn, St.regCall]; omega⟩

theorem Eff.setError {H : Prop} {cfg0 : Cfg} {bo : Nat → G} {L : List Ev} {st st0 : St}
    (h : SPre H cfg0 bo L st st0) (e : Option Err) : Eff H cfg0 bo st (st.setError e) st0 (st0.setError e) :=
  Eff.step h (setError_cache _ _) (by rw [setError_calls, setError_calls]; omega)
    ⟨pe e, pn_setError _ _, pn_setError _ _⟩

/-- the relation between the memoized runner and the un-memoized one -/
structure SPost (H : Prop) (cfg0 : Cfg) (bo : Nat → G) (st st' st0 st0' : St) (o o0 : Out) : Prop where
  res : o.res = o0.res
  err : o.err = o0.err
  eff : Eff H cfg0 bo st st' st0 st0'

def Sim (H : Prop) (cfg0 : Cfg) (bo : Nat → G) (r r0 : RunFn) : Prop :=
  ∀ g ctx ctx0 pos st st0 o st' o0 st0', g.All (MemoOK H bo) →
    r g ctx pos st = some (o, st') → r0 (stripAll g) ctx0 pos st0 = some (o0, st0') →
    SPre H cfg0 bo st'.log st st0 → SPost H cfg0 bo st st' st0 st0' o o0

/-! ### Any / Choice -/

def AltRel (a a0 : AltSt) : Prop := a.res = a0.res ∧ a.err = a0.err ∧ a.nf = a0.nf

theorem altErr_rel (pos : Nat) (a a0 : AltSt) (e : Option Err) (h : AltRel a a0) :
    AltRel (altErr pos a e) (altErr pos a0 e) := by
  obtain ⟨cp, res, err, nf⟩ := a
  obtain ⟨cp0, res0, err0, nf0⟩ := a0
  obtain ⟨h1, h2, h3⟩ := h
  simp only at h1 h2 h3
  subst h1 h2 h3
  cases e with
  | none => exact ⟨rfl, rfl, rfl⟩
  | some e2 => simp only [altErr]; (repeat' split) <;> exact ⟨rfl, rfl, rfl⟩

theorem anyLoop_sim {H : Prop} {cfg0 : Cfg} {bo : Nat → G} {r r0 : RunFn} (hs : Sim H cfg0 bo r r0) (hg : RunGrow r)
    (ctx ctx0 : Ctx) (pos : Nat) :
    ∀ (gs : List G) a st a0 st0 a' st' a0' st0', AllList (MemoOK H bo) gs →
      anyLoop r ctx pos gs a st = some (a', st') →
      anyLoop r0 ctx0 pos (stripList (fun _ => true) gs) a0 st0 = some (a0', st0') →
      AltRel a a0 → SPre H cfg0 bo st'.log st st0 →
      AltRel a' a0' ∧ Eff H cfg0 bo st st' st0 st0' := by
  intro gs
  induction gs with
  | nil =>
    intro a st a0 st0 a' st' a0' st0' _ h h0 hrel hpre
    simp only [anyLoop, stripList] at h h0
    cases h; cases h0
    exact ⟨hrel, Eff.refl hpre⟩
  | cons g gs ih =>
    intro a st a0 st0 a' st' a0' st0' hall h h0 hrel hpre
    simp only [AllList] at hall
    simp only [anyLoop, stripList] at h h0
    split at h
    · cases h
    · rename_i o st1 hr
      split at h0
      · cases h0
      · rename_i o0 st01 hr0
        have htail := anyLoop_grow hg _ _ _ _ _ _ _ h
        have e0 := Eff.regCall hpre
        have hp := hs g ctx ctx0 pos _ _ o st1 o0 st01 hall.1 hr hr0 ((hpre.next e0).sub htail.log)
        have e1 := e0.trans hp.eff
        rw [hp.res, hp.err] at h
        obtain ⟨hr2, e2⟩ := ih _ _ _ _ _ _ _ _ hall.2 h h0
          (altErr_rel pos _ _ _ ⟨by simp only [hrel.1], hrel.2.1, hrel.2.2⟩) (hpre.next e1)
        exact ⟨hr2, e1.trans e2⟩

def OptRel : Option Out → Option Out → Prop
  | none, none => True
  | some x, some y => x.res = y.res ∧ x.err = y.err
  | _, _ => False

theorem choiceLoop_sim {H : Prop} {cfg0 : Cfg} {bo : Nat → G} {r r0 : RunFn} (hs : Sim H cfg0 bo r r0) (hg : RunGrow r)
    (ctx ctx0 : Ctx) (pos : Nat) :
    ∀ (gs : List G) a st a0 st0 out a' st' out0 a0' st0', AllList (MemoOK H bo) gs →
      choiceLoop r ctx pos gs a st = some (out, a', st') →
      choiceLoop r0 ctx0 pos (stripList (fun _ => true) gs) a0 st0 = some (out0, a0', st0') →
      AltRel a a0 → SPre H cfg0 bo st'.log st st0 →
      OptRel out out0 ∧ AltRel a' a0' ∧ Eff H cfg0 bo st st' st0 st0' := by
  intro gs
  induction gs with
  | nil =>
    intro a st a0 st0 out a' st' out0 a0' st0' _ h h0 hrel hpre
    simp only [choiceLoop, stripList] at h h0
    cases h; cases h0
    exact ⟨trivial, hrel, Eff.refl hpre⟩
  | cons g gs ih =>
    intro a st a0 st0 out a' st' out0 a0' st0' hall h h0 hrel hpre
    simp only [AllList] at hall
    simp only [choiceLoop, stripList] at h h0
    split at h
    · cases h
    · rename_i o st1 hr
      split at h0
      · cases h0
      · rename_i o0 st01 hr0
        have e0 := Eff.regCall hpre
        have hrel1 : AltRel (altErr pos { a with cp := cpUnion a.cp o.cp } o.err)
            (altErr pos { a0 with cp := cpUnion a0.cp o0.cp } o.err) :=
          altErr_rel pos _ _ _ ⟨hrel.1, hrel.2.1, hrel.2.2⟩
        by_cases hn : o.res.isNil = true
        · have htail : Grow st1 st' := by
            simp only [hn, Bool.not_true, Bool.false_eq_true, ↓reduceIte] at h
            exact choiceLoop_grow hg _ _ _ _ _ _ _ _ h
          have hp := hs g ctx ctx0 pos _ _ o st1 o0 st01 hall.1 hr hr0 ((hpre.next e0).sub htail.log)
          have e1 := e0.trans hp.eff
          rw [← hp.res, ← hp.err] at h0
          simp only [hn, Bool.not_true, Bool.false_eq_true, ↓reduceIte] at h h0
          obtain ⟨hr1, hr2, e2⟩ := ih _ _ _ _ _ _ _ _ _ _ hall.2 h h0 hrel1 (hpre.next e1)
          exact ⟨hr1, hr2, e1.trans e2⟩
        · have hn' : o.res.isNil = false := by simpa using hn
          have hlog : st'.log = st1.log := by
            simp only [hn', Bool.not_false, ↓reduceIte] at h
            cases h
            exact setError_log _ _
          have hp := hs g ctx ctx0 pos _ _ o st1 o0 st01 hall.1 hr hr0 ((hpre.next e0).sub (by rw [hlog]; exact List.suffix_refl _))
          have e1 := e0.trans hp.eff
          rw [← hp.res, ← hp.err] at h0
          simp only [hn', Bool.not_false, ↓reduceIte] at h h0
          cases h; cases h0
          rw [hrel1.2.1]
          exact ⟨⟨rfl, rfl⟩, hrel1, e1.trans (Eff.setError (hpre.next e1) _)⟩

/-! ### the Sequence family -/

def SeqRel (ss ss0 : SeqSt) : Prop := ss.result = ss0.result ∧ ss.err = ss0.err

structure ShapeRel (sh sh0 : SeqShape) : Prop where
  lookup : ∀ i, sh0.lookup i = (sh.lookup i).map stripAll
  lenCheck : ∀ i, sh0.lenCheck i = sh.lenCheck i
  token : sh0.token = sh.token
  interp : sh0.interp = sh.interp
  single : sh0.single = sh.single
  name : sh0.name = sh.name

theorem shape_strip {g : G} {sh : SeqShape} (h : g.shape = some sh) :
    ∃ sh0, (stripAll g).shape = some sh0 ∧ ShapeRel sh sh0 := by
  cases g with
  | seq k gs o =>
    simp only [G.shape, Option.some.injEq] at h
    subst h
    have e : stripAll (.seq k gs o) = .seq k (stripList (fun _ => true) gs) o := by simp only [stripAll, G.strip]
    rw [e]
    refine ⟨_, rfl, ⟨?_, ?_, rfl, rfl, rfl, rfl⟩⟩
    · intro i; simp [stripList_eq_map]
    · intro i; simp [stripList_eq_map]
  | many g1 ae o =>
    simp only [G.shape, Option.some.injEq] at h
    subst h
    have e : stripAll (.many g1 ae o) = .many (stripAll g1) ae o := by simp only [stripAll, G.strip]
    rw [e]
    exact ⟨_, rfl, ⟨fun _ => rfl, fun _ => rfl, rfl, rfl, rfl, rfl⟩⟩
  | sepBy v s ae o =>
    simp only [G.shape, Option.some.injEq] at h
    subst h
    have e : stripAll (.sepBy v s ae o) = .sepBy (stripAll v) (stripAll s) ae o := by simp only [stripAll, G.strip]
    rw [e]
    refine ⟨_, rfl, ⟨?_, fun _ => rfl, rfl, rfl, rfl, rfl⟩⟩
    intro i
    simp only
    split <;> rfl
  | _ => simp [G.shape] at h

theorem handleResult_shape {sh sh0 : SeqShape} (h : ShapeRel sh sh0) (pos : Nat) (nodes : List Node) :
    handleResult sh0 pos nodes = handleResult sh pos nodes := by
  unfold handleResult
  rw [h.token, h.interp, h.single]

def seqStepM (r : RunFn) (sh : SeqShape) (depth : Nat) (ctx : Ctx) (pos : Nat) (st : St) : Option (Out × St) :=
  match sh.lookup depth with
  | some g => r g ctx pos st.regCall
  | none => some (⟨.nil, [], none⟩, st)

def seqNextM (r : RunFn) (sh : SeqShape) (fuel depth : Nat) (nodes : List Node) (ctx : Ctx) (pos : Nat) (merge : Bool) :
    Node → SeqSt → St → Option (Bool × SeqSt × St) :=
  fun n ss st =>
    let consumed := n.rpos > pos
    seqParse r sh fuel (depth + 1) (nodes ++ [n]) (if consumed then [] else ctx) n.rpos
      (merge && !consumed) ss st

def seqContM (r : RunFn) (sh : SeqShape) (fuel depth : Nat) (nodes : List Node) (ctx : Ctx) (pos : Nat) (merge : Bool)
    (ss : SeqSt) (o : Out) (st : St) : Option (Bool × SeqSt × St) :=
  match o.res with
  | .nil =>
    if sh.lenCheck depth then
      if depth > 0 then
        some ((match nodes.getLast? with | some l => l.token == eofTok | none => false),
              { ss with result := appendNode ss.result (.one (handleResult sh pos nodes)) }, st)
      else
        some (false, { ss with result := appendNode ss.result (.one (handleResult sh pos [])) }, st)
    else some (false, ss, st)
  | res => seqAlts (seqNextM r sh fuel depth nodes ctx pos merge) res.alts ss st

theorem seqParse_succM (r : RunFn) (sh : SeqShape) (fuel depth : Nat) (nodes : List Node) (ctx : Ctx) (pos : Nat)
    (merge : Bool) (ss : SeqSt) (st : St) :
    seqParse r sh (fuel + 1) depth nodes ctx pos merge ss st =
      match seqStepM r sh depth ctx pos st with
      | none => none
      | some (o, st1) => seqContM r sh fuel depth nodes ctx pos merge (seqAfter merge ss o) o st1 := by
  rw [seqParse]
  rfl

theorem seqAlts_grow (k : Node → SeqSt → St → Option (Bool × SeqSt × St))
    (hk : ∀ n ss st b ss' st', k n ss st = some (b, ss', st') → Grow st st') :
    ∀ l ss st b ss' st', seqAlts k l ss st = some (b, ss', st') → Grow st st' := by
  intro l
  induction l with
  | nil => intro ss st b ss' st' h; simp only [seqAlts] at h; cases h; exact Grow.refl _
  | cons n rest ih =>
    intro ss st b ss' st' h
    simp only [seqAlts] at h
    split at h
    · cases h
    · rename_i ss1 st1 hk1; cases h; exact hk _ _ _ _ _ _ hk1
    · rename_i ss1 st1 hk1; exact (hk _ _ _ _ _ _ hk1).trans (ih _ _ _ _ _ h)

theorem seqContM_grow {r : RunFn} (hg : RunGrow r) (sh : SeqShape) (fuel depth : Nat) (nodes : List Node) (ctx : Ctx)
    (pos : Nat) (merge : Bool) (ss : SeqSt) (o : Out) (st : St) (b : Bool) (ss' : SeqSt) (st' : St)
    (hd : depth = nodes.length)
    (h : seqContM r sh fuel depth nodes ctx pos merge ss o st = some (b, ss', st')) : Grow st st' := by
  unfold seqContM at h
  split at h
  · split at h
    · split at h <;> (cases h; exact Grow.refl _)
    · cases h; exact Grow.refl _
  · refine seqAlts_grow _ ?_ _ _ _ _ _ _ h
    intro n ss2 st2 b2 ss3 st3 hk
    exact seqParse_grow hg sh fuel ⟨depth + 1, nodes ++ [n], _, n.rpos, _⟩ ss2 st2 b2 ss3 st3 (by simp [hd]) hk

theorem seqAlts_sim {H : Prop} {cfg0 : Cfg} {bo : Nat → G} (k k0 : Node → SeqSt → St → Option (Bool × SeqSt × St))
    (hgk : ∀ n ss st b ss' st', k n ss st = some (b, ss', st') → Grow st st')
    (hk : ∀ n ss ss0 st st0 b ss' st' b0 ss0' st0', k n ss st = some (b, ss', st') →
        k0 n ss0 st0 = some (b0, ss0', st0') → SeqRel ss ss0 → SPre H cfg0 bo st'.log st st0 →
        b = b0 ∧ SeqRel ss' ss0' ∧ Eff H cfg0 bo st st' st0 st0') :
    ∀ l ss ss0 st st0 b ss' st' b0 ss0' st0', seqAlts k l ss st = some (b, ss', st') →
      seqAlts k0 l ss0 st0 = some (b0, ss0', st0') → SeqRel ss ss0 → SPre H cfg0 bo st'.log st st0 →
      b = b0 ∧ SeqRel ss' ss0' ∧ Eff H cfg0 bo st st' st0 st0' := by
  intro l
  induction l with
  | nil =>
    intro ss ss0 st st0 b ss' st' b0 ss0' st0' h h0 hrel hpre
    simp only [seqAlts] at h h0
    cases h; cases h0
    exact ⟨rfl, hrel, Eff.refl hpre⟩
  | cons n rest ih =>
    intro ss ss0 st st0 b ss' st' b0 ss0' st0' h h0 hrel hpre
    cases hk1 : k n ss st with
    | none => simp [seqAlts, hk1] at h
    | some x =>
      obtain ⟨b1, ss1, st1⟩ := x
      cases hk01 : k0 n ss0 st0 with
      | none => simp [seqAlts, hk01] at h0
      | some x0 =>
        obtain ⟨b01, ss01, st01⟩ := x0
        cases b1 with
        | true =>
          simp only [seqAlts, hk1] at h
          cases h
          obtain ⟨hb, hr, e⟩ := hk n _ _ _ _ _ _ _ _ _ _ hk1 hk01 hrel hpre
          subst hb
          simp only [seqAlts, hk01] at h0
          cases h0
          exact ⟨rfl, hr, e⟩
        | false =>
          simp only [seqAlts, hk1] at h
          have htail := seqAlts_grow k hgk rest _ _ _ _ _ h
          obtain ⟨hb, hr, e⟩ := hk n _ _ _ _ _ _ _ _ _ _ hk1 hk01 hrel (hpre.sub htail.log)
          subst hb
          simp only [seqAlts, hk01] at h0
          obtain ⟨hb2, hr2, e2⟩ := ih _ _ _ _ _ _ _ _ _ _ h h0 hr (hpre.next e)
          exact ⟨hb2, hr2, e.trans e2⟩

theorem seqAfter_rel (merge merge0 : Bool) (ss ss0 : SeqSt) (o o0 : Out) (h : SeqRel ss ss0) (he : o.err = o0.err) :
    SeqRel (seqAfter merge ss o) (seqAfter merge0 ss0 o0) := by
  unfold seqAfter SeqRel
  cases merge <;> cases merge0 <;> simp [h.1, h.2, he]

theorem seqParse_sim {H : Prop} {cfg0 : Cfg} {bo : Nat → G} {r r0 : RunFn} (hs : Sim H cfg0 bo r r0) (hg : RunGrow r)
    {sh sh0 : SeqShape} (hsh : ShapeRel sh sh0) (hall : ∀ i g, sh.lookup i = some g → g.All (MemoOK H bo)) :
    ∀ fuel fuel0 depth nodes ctx ctx0 pos merge merge0 ss ss0 st st0 b ss' st' b0 ss0' st0',
      depth = nodes.length →
      seqParse r sh fuel depth nodes ctx pos merge ss st = some (b, ss', st') →
      seqParse r0 sh0 fuel0 depth nodes ctx0 pos merge0 ss0 st0 = some (b0, ss0', st0') →
      SeqRel ss ss0 → SPre H cfg0 bo st'.log st st0 →
      b = b0 ∧ SeqRel ss' ss0' ∧ Eff H cfg0 bo st st' st0 st0' := by
  intro fuel
  induction fuel with
  | zero => intro fuel0 depth nodes ctx ctx0 pos merge merge0 ss ss0 st st0 b ss' st' b0 ss0' st0' _ h; simp [seqParse] at h
  | succ fuel ih =>
    intro fuel0 depth nodes ctx ctx0 pos merge merge0 ss ss0 st st0 b ss' st' b0 ss0' st0' hd h h0 hrel hpre
    cases fuel0 with
    | zero => simp [seqParse] at h0
    | succ fuel0 =>
      rw [seqParse_succM] at h h0
      cases hst : seqStepM r sh depth ctx pos st with
      | none => simp [hst] at h
      | some x =>
        obtain ⟨o, st1⟩ := x
        cases hst0 : seqStepM r0 sh0 depth ctx0 pos st0 with
        | none => simp [hst0] at h0
        | some x0 =>
          obtain ⟨o0, st01⟩ := x0
          simp only [hst] at h
          simp only [hst0] at h0
          have htail : Grow st1 st' := seqContM_grow hg sh fuel depth nodes ctx pos merge _ o st1 b ss' st' hd h
          -- the call of element `depth`
          have hp : SPost H cfg0 bo st st1 st0 st01 o o0 := by
            unfold seqStepM at hst hst0
            rw [hsh.lookup] at hst0
            cases hl : sh.lookup depth with
            | none =>
              simp only [hl, Option.map_none] at hst hst0
              cases hst; cases hst0
              exact ⟨rfl, rfl, Eff.refl hpre⟩
            | some g =>
              simp only [hl, Option.map_some] at hst hst0
              have e0 := Eff.regCall hpre
              have hp := hs g ctx ctx0 pos _ _ o st1 o0 st01 (hall _ _ hl) hst hst0 ((hpre.next e0).sub htail.log)
              exact ⟨hp.res, hp.err, e0.trans hp.eff⟩
          have hrel1 : SeqRel (seqAfter merge ss o) (seqAfter merge0 ss0 o0) := seqAfter_rel _ _ _ _ _ _ hrel hp.err
          generalize seqAfter merge ss o = ss1 at h hrel1
          generalize seqAfter merge0 ss0 o0 = ss01 at h0 hrel1
          unfold seqContM at h h0
          rw [← hp.res] at h0
          cases hres : o.res with
          | nil =>
            simp only [hres, hsh.lenCheck] at h h0
            rw [handleResult_shape hsh, handleResult_shape hsh] at h0
            by_cases hlc : sh.lenCheck depth = true
            · simp only [hlc, ↓reduceIte] at h h0
              by_cases hdp : depth > 0
              · simp only [hdp, ↓reduceIte] at h h0
                cases h; cases h0
                exact ⟨rfl, ⟨by simp only [hrel1.1], hrel1.2⟩, hp.eff⟩
              · simp only [hdp, ↓reduceIte] at h h0
                cases h; cases h0
                exact ⟨rfl, ⟨by simp only [hrel1.1], hrel1.2⟩, hp.eff⟩
            · simp only [hlc] at h h0
              cases h; cases h0
              exact ⟨rfl, hrel1, hp.eff⟩
          | one n1 =>
            simp only [hres] at h h0
            obtain ⟨hb, hr2, e2⟩ := seqAlts_sim (H := H) (cfg0 := cfg0) (bo := bo) _ _
              (fun n ss2 st2 b2 ss3 st3 hk =>
                seqParse_grow hg sh fuel ⟨depth + 1, nodes ++ [n], _, n.rpos, _⟩ ss2 st2 b2 ss3 st3 (by simp [hd]) hk)
              (fun n ss2 ss02 st2 st02 b2 ss3 st3 b02 ss03 st03 hk hk0 hr hpr =>
                ih fuel0 (depth + 1) (nodes ++ [n]) _ _ n.rpos _ _ ss2 ss02 st2 st02 b2 ss3 st3 b02 ss03 st03
                  (by simp [hd]) hk hk0 hr hpr)
              _ _ _ _ _ _ _ _ _ _ _ h h0 hrel1 (hpre.next hp.eff)
            exact ⟨hb, hr2, hp.eff.trans e2⟩
          | list l1 =>
            simp only [hres] at h h0
            obtain ⟨hb, hr2, e2⟩ := seqAlts_sim (H := H) (cfg0 := cfg0) (bo := bo) _ _
              (fun n ss2 st2 b2 ss3 st3 hk =>
                seqParse_grow hg sh fuel ⟨depth + 1, nodes ++ [n], _, n.rpos, _⟩ ss2 st2 b2 ss3 st3 (by simp [hd]) hk)
              (fun n ss2 ss02 st2 st02 b2 ss3 st3 b02 ss03 st03 hk hk0 hr hpr =>
                ih fuel0 (depth + 1) (nodes ++ [n]) _ _ n.rpos _ _ ss2 ss02 st2 st02 b2 ss3 st3 b02 ss03 st03
                  (by simp [hd]) hk hk0 hr hpr)
              _ _ _ _ _ _ _ _ _ _ _ h h0 hrel1 (hpre.next hp.eff)
            exact ⟨hb, hr2, hp.eff.trans e2⟩

theorem seqFinish_sim {H : Prop} {cfg0 : Cfg} {bo : Nat → G} {L : List Ev} {sh sh0 : SeqShape} (hsh : ShapeRel sh sh0)
    (pos : Nat) {ss ss0 : SeqSt} (hrel : SeqRel ss ss0) {st st0 : St} (hpre : SPre H cfg0 bo L st st0) :
    (seqFinish sh pos ss st).1.res = (seqFinish sh0 pos ss0 st0).1.res ∧
    (seqFinish sh pos ss st).1.err = (seqFinish sh0 pos ss0 st0).1.err ∧
    Eff H cfg0 bo st (seqFinish sh pos ss st).2 st0 (seqFinish sh0 pos ss0 st0).2 := by
  unfold seqFinish
  rw [hsh.name, ← hrel.1, ← hrel.2]
  by_cases hnil : ss.result.isNil = true
  · simp only [hnil, ↓reduceIte]
    exact ⟨by trivial, by trivial, Eff.refl hpre⟩
  · simp only [hnil]
    exact ⟨by trivial, by trivial, Eff.setError hpre _⟩

/-! ### the induction -/

theorem env_strip {cfg cfg0 : Cfg} (hc : StripCfg cfg cfg0) (k : Nat) :
    cfg0.env[k]? = (cfg.env[k]?).map stripAll := by
  rw [hc.env, List.getElem?_map]

theorem run_sim (H : Prop) (cfg cfg0 : Cfg) (bo : Nat → G) (hc : StripCfg cfg cfg0)
    (henv : ∀ g' ∈ cfg.env, g'.All (MemoOK H bo)) (hH : H → HitHyp cfg cfg0 bo) :
    ∀ f f0, Sim H cfg0 bo (run cfg f) (run cfg0 f0) := by
  intro f
  induction f with
  | zero => intro f0 g ctx ctx0 pos st st0 o st' o0 st0' _ h; simp [run] at h
  | succ f ih =>
    intro f0 g ctx ctx0 pos st st0 o st' o0 st0' hg h h0 hpre
    have hgrow := run_grow cfg f
    by_cases hm : ∃ i b, g = .memo i b
    · -- Memoize: the un-memoized side runs the body directly
      obtain ⟨idx, body, rfl⟩ := hm
      have e : stripAll (.memo idx body) = stripAll body := by simp [stripAll, G.strip]
      rw [e] at h0
      simp only [G.All, MemoOK] at hg
      obtain ⟨⟨hh, hbody⟩, hgb⟩ := hg
      obtain ⟨hghost, hindep⟩ := hH hh
      obtain ⟨hnc, hci, hpn⟩ := hpre hh
      unfold run at h
      split at h
      · cases h
      · simp only at h
        cases hcg : cacheGet st.cache idx pos ctx with
        | some e =>
          simp only [hcg] at h
          cases h
          obtain ⟨hmem, hi, hp⟩ := cacheGet_some hcg
          obtain ⟨fr, cr, sr, orr, sr', hrr, hres, herr, hle⟩ := hci e hmem
          rw [hi, hp, ← hbody] at hrr
          obtain ⟨i1, i2, M, m1, m2⟩ := hindep _ _ _ _ _ _ _ _ _ _ _ _ (noMemo_stripAll bo body) hrr h0
          have hc0 := (run_grow cfg0 f0 _ _ _ _ _ _ h0).calls
          obtain ⟨hf1, hf2, hf3, _, _⟩ := logEv_fields st cfg (.hit idx pos)
          refine ⟨by rw [← hres]; exact i1, by rw [← herr]; exact i2, Eff.step hpre hf1 (by rw [hf3]; omega) ⟨0, ?_, ?_⟩⟩
          · simp only [pn, hf2]; omega
          · omega
        | none =>
          simp only [hcg] at h
          by_cases hcur : ctx.get idx > remaining cfg.file pos + Facts.curtailSlack
          · simp only [hcur, ↓reduceIte] at h
            cases h
            rw [logEv_ghost hghost] at hnc
            exact absurd (List.mem_cons_self ..) (hnc idx pos)
          · simp only [hcur, ↓reduceIte] at h
            split at h
            · cases h
            · rename_i o2 st2 hr
              cases h
              simp only at hnc
              have hpre1 : SPre H cfg0 bo st2.log
                  (({ st with active := (idx, pos) :: st.active } : St).logEv cfg
                    (.body idx pos ((st.active.filter (fun a => a.1 == idx && a.2 == pos)).length + 1))) st0 := by
                intro _
                obtain ⟨hf1, hf2, _, _, _⟩ := logEv_fields ({ st with active := (idx, pos) :: st.active } : St) cfg
                  (.body idx pos ((st.active.filter (fun a => a.1 == idx && a.2 == pos)).length + 1))
                refine ⟨hnc, hci.mono hf1 (by simp only [pn, hf2]; omega), by simp only [pn, hf2]; exact hpn⟩
              have hp := ih f0 body (ctx.inc idx) ctx0 pos _ st0 o st2 o0 st0' hgb hr h0 hpre1
              obtain ⟨_, hf2, hf3, _, _⟩ := logEv_fields ({ st with active := (idx, pos) :: st.active } : St) cfg
                (.body idx pos ((st.active.filter (fun a => a.1 == idx && a.2 == pos)).length + 1))
              obtain ⟨M, m1, m2⟩ := hp.eff.far
              simp only [pn, hf2] at m1
              have hcalls := hp.eff.calls
              rw [hf3] at hcalls
              simp only at hcalls
              refine ⟨hp.res, hp.err, ⟨hcalls, ⟨M, m1, m2⟩, fun _ => ?_⟩⟩
              intro e he
              cases mem_cacheSave he with
              | inl h1 =>
                subst h1
                simp only
                refine ⟨f0, ctx0, st0, o0, st0', by rw [← hbody]; exact h0, hp.res.symm, hp.err.symm, ?_⟩
                simp only [pn] at hpn m2 ⊢
                omega
              | inr h1 => exact hp.eff.inv hh e h1
    · cases f0 with
      | zero => simp [run] at h0
      | succ f0 =>
      have ih' := ih f0
      cases hsh : g.shape with
      | some sh =>
        obtain ⟨sh0, hsh0, hrel⟩ := shape_strip hsh
        rw [run_seqfam cfg f g sh ctx pos st hsh] at h
        rw [run_seqfam cfg0 f0 _ sh0 ctx0 pos st0 hsh0] at h0
        split at h
        · cases h
        · split at h0
          · cases h0
          · unfold runSeq at h h0
            split at h
            · cases h
            · rename_i b ss st1 hsp
              split at h0
              · cases h0
              · rename_i b0 ss0 st01 hsp0
                have hfin := seqFinish_fields sh pos ss st1
                have hlog : (seqFinish sh pos ss st1).2.log = st1.log := by
                  cases hfin.2 with
                  | inl h1 => rw [h1]
                  | inr h1 => rw [h1, setError_log]
                have hst' : st' = (seqFinish sh pos ss st1).2 := by cases h; rfl
                obtain ⟨_, hr1, e1⟩ := seqParse_sim ih' hgrow hrel (fun i g' hl => shape_lookup_all hg hsh i g' hl)
                  f f0 0 [] ctx ctx0 pos true true {} {} st st0 b ss st1 b0 ss0 st01 rfl hsp hsp0 ⟨rfl, rfl⟩
                  (hpre.sub (by rw [hst', hlog]; exact List.suffix_refl _))
                obtain ⟨f1, f2, e2⟩ := seqFinish_sim (H := H) (cfg0 := cfg0) (bo := bo) (L := st'.log) hrel pos hr1
                  (hpre.next e1)
                cases h; cases h0
                exact ⟨f1, f2, e1.trans e2⟩
      | none =>
      cases hw : g.wrap cfg.file pos with
      | some w =>
        have hw0 : (stripAll g).wrap cfg0.file pos = some { w with child := stripAll w.child } := by
          rw [hc.file]; exact wrap_strip _ hw
        rw [run_wrap cfg f g w ctx pos st hw] at h
        rw [run_wrap cfg0 f0 _ _ ctx0 pos st0 hw0] at h0
        split at h
        · cases h
        · split at h0
          · cases h0
          · split at h
            · cases h
            · rename_i o1 st1 hr
              split at h0
              · cases h0
              · rename_i o01 st01 hr0
                cases h; cases h0
                simp only
                rw [wrap_fix_eq hw] at hpre ⊢
                rw [wrap_fix_eq hw]
                have hp := ih' _ _ _ _ _ _ _ _ _ _ (wrap_all hg hw) hr hr0 hpre
                obtain ⟨c1, c2⟩ := wrap_out_congr hw _ _ hp.res hp.err
                exact ⟨c1, c2, hp.eff⟩
      | none =>
      unfold run at h h0
      split at h
      · cases h
      · split at h0
        · cases h0
        · cases g with
          | term t =>
            simp only [stripAll, G.strip, hc.file, hc.params] at h h0
            cases htp : Terminal.parse cfg.params cfg.file t pos with
            | node n =>
              simp only [htp] at h h0
              cases h; cases h0
              exact ⟨rfl, rfl, Eff.refl hpre⟩
            | err e =>
              simp only [htp] at h h0
              cases h; cases h0
              obtain ⟨hf1, hf2, hf3, _, _⟩ := logEv_fields st cfg (.termFail e.pos e.kind)
              obtain ⟨hg1, hg2, hg3, _, _⟩ := logEv_fields st0 cfg0 (.termFail e.pos e.kind)
              exact ⟨rfl, rfl, Eff.step hpre hf1 (by rw [hf3, hg3]; omega)
                ⟨0, by simp only [pn, hf2]; omega, by simp only [pn, hg2]; omega⟩⟩
            | panic s =>
              simp only [htp] at h h0
              cases h; cases h0
              exact ⟨rfl, rfl, Eff.refl hpre⟩
          | empty =>
            simp only [stripAll, G.strip] at h h0
            cases h; cases h0
            exact ⟨rfl, rfl, Eff.refl hpre⟩
          | eof =>
            simp only [stripAll, G.strip, hc.file] at h h0
            by_cases he : isEOF cfg.file pos = true
            · simp only [he, ↓reduceIte] at h h0
              cases h; cases h0
              exact ⟨rfl, rfl, Eff.refl hpre⟩
            · simp only [he] at h h0
              cases h; cases h0
              obtain ⟨hf1, hf2, hf3, _, _⟩ := logEv_fields st cfg (.termFail pos (.other endErrMsg))
              obtain ⟨hg1, hg2, hg3, _, _⟩ := logEv_fields st0 cfg0 (.termFail pos (.other endErrMsg))
              exact ⟨rfl, rfl, Eff.step hpre hf1 (by rw [hf3, hg3]; omega)
                ⟨0, by simp only [pn, hf2]; omega, by simp only [pn, hg2]; omega⟩⟩
          | ref k =>
            simp only [stripAll, G.strip, env_strip hc k] at h h0
            cases hk : cfg.env[k]? with
            | some g' =>
              simp only [hk, Option.map_some] at h h0
              exact ih' g' ctx ctx0 pos st st0 o st' o0 st0' (henv g' (List.mem_of_getElem? hk)) h h0 hpre
            | none =>
              simp only [hk, Option.map_none] at h h0
              cases h; cases h0
              exact ⟨rfl, rfl, Eff.refl hpre⟩
          | memo idx body => exact absurd ⟨_, _, rfl⟩ hm
          | any gs =>
            simp only [stripAll, G.strip] at h h0
            simp only [G.All] at hg
            split at h
            · cases h
            · rename_i a st1 hl
              split at h0
              · cases h0
              · rename_i a0 st01 hl0
                have hlog : st'.log = st1.log := by
                  split at h
                  · cases h; rfl
                  · cases h; exact setError_log _ _
                obtain ⟨hr1, e1⟩ := anyLoop_sim ih' hgrow ctx ctx0 pos gs {} st {} st0 a st1 a0 st01 hg.2 hl hl0
                  ⟨rfl, rfl, rfl⟩ (hpre.sub (by rw [hlog]; exact List.suffix_refl _))
                rw [← hr1.1, ← hr1.2.1, ← hr1.2.2] at h0
                by_cases hnil : a.res.isNil = true
                · simp only [hnil, ↓reduceIte] at h h0
                  cases h; cases h0
                  exact ⟨rfl, rfl, e1⟩
                · simp only [hnil] at h h0
                  cases h; cases h0
                  exact ⟨rfl, rfl, e1.trans (Eff.setError (hpre.next e1) _)⟩
          | choice gs =>
            simp only [stripAll, G.strip] at h h0
            simp only [G.All] at hg
            cases hl : choiceLoop (run cfg f) ctx pos gs {} st with
            | none => simp [hl] at h
            | some x =>
              obtain ⟨out, a, st1⟩ := x
              cases hl0 : choiceLoop (run cfg0 f0) ctx0 pos (stripList (fun _ => true) gs) {} st0 with
              | none => simp [hl0] at h0
              | some x0 =>
                obtain ⟨out0, a0, st01⟩ := x0
                have hlog : st'.log = st1.log := by
                  rw [hl] at h
                  cases out <;> (simp only at h; cases h; rfl)
                obtain ⟨hr0, hr1, e1⟩ := choiceLoop_sim ih' hgrow ctx ctx0 pos gs {} st {} st0 out a st1 out0 a0 st01
                  hg.2 hl hl0 ⟨rfl, rfl, rfl⟩ (hpre.sub (by rw [hlog]; exact List.suffix_refl _))
                rw [hl] at h
                rw [hl0] at h0
                cases out with
                | none =>
                  cases out0 with
                  | some y => exact hr0.elim
                  | none =>
                    simp only at h h0
                    cases h; cases h0
                    simp only [hr1.2.1, hr1.2.2]
                    exact ⟨rfl, rfl, e1⟩
                | some x =>
                  cases out0 with
                  | none => exact hr0.elim
                  | some y =>
                    simp only at h h0
                    cases h; cases h0
                    exact ⟨hr0.1, hr0.2, e1⟩
          | optional g' => simp [G.wrap] at hw
          | name g' nm => simp [G.wrap] at hw
          | single g' => simp [G.wrap] at hw
          | suppress g' => simp [G.wrap] at hw
          | ltrim g' m => simp [G.wrap] at hw
          | rtrim g' m => simp [G.wrap] at hw
          | seq k gs o => simp [G.shape] at hsh
          | many g' ae o => simp [G.shape] at hsh
          | sepBy v s ae o => simp [G.shape] at hsh

/-! ### state independence of Memoize-free grammars -/

theorem indep (cfg0 : Cfg) (bo : Nat → G) (henv : ∀ g' ∈ cfg0.env, g'.All (MemoOK False bo)) : Indep cfg0 bo := by
  intro g f1 c1 p s1 o1 s1' f2 c2 s2 o2 s2' hg h1 h2
  have hc : StripCfg cfg0 cfg0 := by
    refine ⟨rfl, rfl, ?_⟩
    have : cfg0.env.map stripAll = cfg0.env.map id :=
      List.map_congr_left (fun g' hg' => strip_of_noMemo _ bo g' (henv g' hg'))
    rw [this, List.map_id]
  have hs := run_sim False cfg0 cfg0 bo hc henv (fun h => h.elim) f1 f2
  rw [← strip_of_noMemo (fun _ => true) bo g hg] at h2
  have hp := hs g c1 c2 p s1 s2 o1 s1' o2 s2' hg h1 h2 (fun h => h.elim)
  exact ⟨hp.res, hp.err, hp.eff.far⟩

/-! ### transparency -/

/-- every `Memoize` index wraps one parser (`bodyOf`): each call of `combinator.Memoize` draws a fresh index -/
def MemoWF (bodyOf : Nat → G) (g : G) : Prop := g.All (MemoOK True bodyOf)

theorem cacheInv_empty (cfg0 : Cfg) (bo : Nat → G) (st : St) (h : st.cache = []) : CacheInv cfg0 bo st := by
  intro e he; rw [h] at he; cases he

theorem run_transparent (cfg cfg0 : Cfg) (bo : Nat → G) (hc : StripCfg cfg cfg0) (hgh : cfg.ghost = true)
    (henv : ∀ g' ∈ cfg.env, MemoWF bo g') (g : G) (hg : MemoWF bo g)
    (f f0 : Nat) (ctx ctx0 : Ctx) (pos : Nat) (st st0 : St) (o o0 : Out) (st' st0' : St)
    (hcache : st.cache = []) (hpn : pn st = pn st0)
    (h : run cfg f g ctx pos st = some (o, st')) (h0 : run cfg0 f0 (stripAll g) ctx0 pos st0 = some (o0, st0'))
    (hnc : NoCurtail st'.log) :
    o.res = o0.res ∧ o.err = o0.err ∧ pn st' = pn st0' ∧ st'.calls + st0.calls ≤ st0'.calls + st.calls := by
  have henv0 : ∀ g' ∈ cfg0.env, g'.All (MemoOK False bo) := by
    intro g' hg'
    rw [hc.env] at hg'
    obtain ⟨g1, _, rfl⟩ := List.mem_map.mp hg'
    exact noMemo_stripAll bo g1
  have hs := run_sim True cfg cfg0 bo hc henv (fun _ => ⟨hgh, indep cfg0 bo henv0⟩) f f0
  have hp := hs g ctx ctx0 pos st st0 o st' o0 st0' hg h h0 (fun _ => ⟨hnc, cacheInv_empty cfg0 bo st hcache, hpn⟩)
  obtain ⟨M, m1, m2⟩ := hp.eff.far
  exact ⟨hp.res, hp.err, by omega, hp.eff.calls⟩

end PV
