/-
  The provenance invariant of error values (property C06), by induction on fuel over all cases of `run`:

  every error value — returned by a parser, held by a Sequence object (`SeqSt.err`), by Any / Choice
  (`AltSt.err`, `AltSt.nf`), recorded as the context error (`St.ctxErr`) or stored in the result cache
  (`CacheEntry.err`) — satisfies a predicate `Q log e` over the ghost log, for every `Q` closed under the
  five things the parser core does with errors (`ErrInv`):

    * the log grows (monotonicity),
    * a terminal / End fails: the error is logged in the same step,
    * a terminal panics / a nil parser is called (only when `AP` says this can happen at all),
    * `Name` (ReturnError) and a named Sequence re-label a not-found error at their own position,
    * `Name` creates a not-found error when its body returned neither a result nor an error.

  The positional facts needed to know that terminals are only ever called inside the file are taken from
  `run_pos` (Proofs/RunPos.lean), used here as a black box on every sub-call.
-/
import ParsleyVerif.Proofs.RunPos
import ParsleyVerif.Spec.Derives
namespace PV
open PV.Text

/-! ### the local side conditions of C06 -/

/-- what C06 asks of each sub-parser.  `S g nm`: "`Name(g, nm)` occurs in the grammar"; `Nm nm`: "`nm` is
    a name some Name / named Sequence carries"; `AP`: "a terminal may panic / a nil parser may be called"
    (`False` on the domain of the property: C08 `c08_never_panics`).  No whitespace trims (outside the
    property's domain: they create and move errors of their own). -/
def LocErr (cfg : Cfg) (S : G → Bytes → Prop) (Nm : Bytes → Prop) (AP : Prop) : G → Prop
  | .term t => ∀ pos s, InFile cfg.file pos → t.parse cfg.params cfg.file pos = .panic s → AP
  | .ref k => cfg.env[k]? = none → AP
  | .name g nm => S g nm ∧ Nm nm
  | .seq _ _ o => ∀ nm, o.name = some nm → Nm nm
  | .many _ _ o => ∀ nm, o.name = some nm → Nm nm
  | .sepBy _ _ _ o => ∀ nm, o.name = some nm → Nm nm
  | .ltrim _ _ => False
  | .rtrim _ _ => False
  | _ => True

theorem shape_name {cfg : Cfg} {S : G → Bytes → Prop} {Nm : Bytes → Prop} {AP : Prop} {g : G} {sh : SeqShape}
    (hs : g.shape = some sh) (hl : LocErr cfg S Nm AP g) : ∀ nm, sh.name = some nm → Nm nm := by
  cases g <;> simp only [G.shape, Option.some.injEq, reduceCtorEq] at hs
  all_goals
    subst hs
    simpa [LocErr] using hl

/-- the closure properties of an error predicate over the ghost log -/
structure ErrInv (cfg : Cfg) (S : G → Bytes → Prop) (Nm : Bytes → Prop) (AP : Prop)
    (Q : List Ev → Err → Prop) : Prop where
  mono : ∀ log log' e, log <:+ log' → Q log e → Q log' e
  logged : ∀ log p k, Q (Ev.termFail p k :: log) ⟨p, k⟩
  panic : AP → ∀ log p s, Q log ⟨p, .panic s⟩
  rename : ∀ log e nm, Q log e → e.kind.isNotFound = true → Nm nm → Q log ⟨e.pos, .notFound nm⟩
  create : ∀ fuel g nm ctx pos st o st', S g nm → Nm nm → run cfg fuel g ctx pos st = some (o, st') →
    o.err = none → o.res.isNil = true → Q st'.log ⟨pos, .notFound nm⟩

/-- every error the context state holds is good -/
structure StErrOK (Q : List Ev → Err → Prop) (st : St) : Prop where
  cache : ∀ c ∈ st.cache, ∀ er, c.err = some er → Q st.log er
  ctxErr : ∀ er, st.ctxErr = some er → Q st.log er

structure PostE (Q : List Ev → Err → Prop) (st0 : St) (o : Out) (st' : St) : Prop where
  err : ∀ er, o.err = some er → Q st'.log er
  st : StErrOK Q st'
  log : st0.log <:+ st'.log

def RunErrOK (cfg : Cfg) (S : G → Bytes → Prop) (Nm : Bytes → Prop) (AP : Prop) (Q : List Ev → Err → Prop)
    (r : RunFn) : Prop :=
  ∀ g ctx pos st o st', g.Core (TermGood cfg) → g.All (LocErr cfg S Nm AP) → Pre cfg ctx pos st →
    StErrOK Q st → r g ctx pos st = some (o, st') → PostE Q st o st'

section
variable {cfg : Cfg} {S : G → Bytes → Prop} {Nm : Bytes → Prop} {AP : Prop} {Q : List Ev → Err → Prop}

theorem StErrOK_of_eq (hQ : ErrInv cfg S Nm AP Q) {st st' : St} (h : StErrOK Q st) (hc : st'.cache = st.cache)
    (he : st'.ctxErr = st.ctxErr) (hl : st.log <:+ st'.log) : StErrOK Q st' :=
  ⟨fun c hcm er her => hQ.mono _ _ _ hl (h.cache c (hc ▸ hcm) er her),
   fun er her => hQ.mono _ _ _ hl (h.ctxErr er (he ▸ her))⟩

theorem StErrOK_regCall (hQ : ErrInv cfg S Nm AP Q) {st : St} (h : StErrOK Q st) : StErrOK Q st.regCall :=
  StErrOK_of_eq hQ h rfl rfl (List.suffix_refl _)

theorem logEv_suffix (st : St) (cfg : Cfg) (ev : Ev) : st.log <:+ (st.logEv cfg ev).log := by
  cases (logEv_fields st cfg ev).2.2.2.2 with
  | inl h => rw [h]; exact List.suffix_refl _
  | inr h => rw [h]; exact List.suffix_cons _ _

theorem StErrOK_logEv (hQ : ErrInv cfg S Nm AP Q) {st : St} (h : StErrOK Q st) (ev : Ev) :
    StErrOK Q (st.logEv cfg ev) :=
  StErrOK_of_eq hQ h (logEv_fields st cfg ev).1 (logEv_fields st cfg ev).2.1 (logEv_suffix st cfg ev)

theorem logEv_ghost_c06 (hgh : cfg.ghost = true) (st : St) (ev : Ev) : (st.logEv cfg ev).log = ev :: st.log := by
  simp [St.logEv, hgh]

theorem StErrOK_setError {st : St} (h : StErrOK Q st) (e : Option Err)
    (he : ∀ er, e = some er → Q st.log er) : StErrOK Q (st.setError e) := by
  obtain ⟨h1, h2, _, h4, _⟩ := setError_ctxErr st e
  refine ⟨by rw [h2, h4]; exact h.cache, ?_⟩
  intro er her
  rw [h4]
  cases h1 with
  | inl h1 => exact h.ctxErr er (h1 ▸ her)
  | inr h1 => exact he er (h1 ▸ her)

/-! ### the Sequence family -/

def SsOK (Q : List Ev → Err → Prop) (st : St) (ss : SeqSt) : Prop := ∀ er, ss.err = some er → Q st.log er

def SeqJE (cfg : Cfg) (Q : List Ev → Err → Prop) (fr : Frame) (ss : SeqSt) (st : St) : Prop :=
  InFile cfg.file fr.pos ∧ StOK cfg st ∧ ActOK fr.ctx fr.pos st.active ∧ StErrOK Q st ∧ SsOK Q st ss

def SeqEE (cfg : Cfg) (Q : List Ev → Err → Prop) (ss : SeqSt) (st : St) (ss' : SeqSt) (st' : St) : Prop :=
  (StOK cfg st → StOK cfg st') ∧ st'.active = st.active ∧ st.log <:+ st'.log ∧
  (StErrOK Q st → StErrOK Q st') ∧ (SsOK Q st ss → SsOK Q st' ss')

theorem seqAfter_err (merge : Bool) (ss : SeqSt) (o : Out) : (seqAfter merge ss o).err = pickErr ss.err o.err := by
  unfold seqAfter; split <;> rfl

theorem SsOK_after (hQ : ErrInv cfg S Nm AP Q) {st st1 : St} {ss : SeqSt} {o : Out} (merge : Bool)
    (h : SsOK Q st ss) (hl : st.log <:+ st1.log) (he : ∀ er, o.err = some er → Q st1.log er) :
    SsOK Q st1 (seqAfter merge ss o) := by
  intro er her
  rw [seqAfter_err] at her
  cases pickErr_cases ss.err o.err with
  | inl h1 => exact hQ.mono _ _ _ hl (h er (h1 ▸ her))
  | inr h1 => exact he er (h1 ▸ her)

theorem seqParse_err (hQ : ErrInv cfg S Nm AP Q) (r : RunFn) (hpos : RunPosOK cfg r)
    (hr : RunErrOK cfg S Nm AP Q r) (g : G) (sh : SeqShape)
    (hg : g.Core (TermGood cfg)) (hgl : g.All (LocErr cfg S Nm AP)) (hs : g.shape = some sh) :
    ∀ (fuel : Nat) (fr : Frame) ss st b ss' st', SeqJE cfg Q fr ss st → fr.depth = fr.nodes.length →
      seqParse r sh fuel fr.depth fr.nodes fr.ctx fr.pos fr.merge ss st = some (b, ss', st') →
      SeqEE cfg Q ss st ss' st' := by
  refine seqParse_ind r sh (SeqJE cfg Q) (SeqEE cfg Q) ?_ ?_ ?_ ?_ ?_
  · intro ss st; exact ⟨id, rfl, List.suffix_refl _, id, id⟩
  · intro a b c d e f h1 h2
    exact ⟨fun h => h2.1 (h1.1 h), by rw [h2.2.1, h1.2.1], h1.2.2.1.trans h2.2.2.1,
      fun h => h2.2.2.2.1 (h1.2.2.2.1 h), fun h => h2.2.2.2.2 (h1.2.2.2.2 h)⟩
  · intro fr ss st ss' st' hJ hE
    obtain ⟨j1, j2, j3, j4, j5⟩ := hJ
    exact ⟨j1, hE.1 j2, by rw [hE.2.1]; exact j3, hE.2.2.2.1 j4, hE.2.2.2.2 j5⟩
  · intro fr ss st g' o st1 hJ hd hl hrun
    obtain ⟨j1, j2, j3, j4, j5⟩ := hJ
    have hcore := shape_lookup_core hg hs fr.depth g' hl
    have hloc := shape_lookup_all hgl hs fr.depth g' hl
    have hpre : Pre cfg fr.ctx fr.pos st.regCall := ⟨j1, StOK_regCall j2, j3⟩
    have hpost := hpos g' fr.ctx fr.pos st.regCall o st1 hcore hpre hrun
    have herr := hr g' fr.ctx fr.pos st.regCall o st1 hcore hloc hpre (StErrOK_regCall hQ j4) hrun
    have hact : st1.active = st.active := hpost.active
    have hlog : st.log <:+ st1.log := herr.log
    refine ⟨⟨fun _ => hpost.stOK, hact, hlog, fun _ => herr.st, fun h => SsOK_after hQ _ h hlog herr.err⟩, ?_, ?_⟩
    · intro n hn
      obtain ⟨hnp, hnw⟩ := hpost.nodes n hn
      have hb := Node.WF_bounds cfg.hi n hnw
      refine ⟨?_, hpost.stOK, ?_, herr.st, SsOK_after hQ _ j5 hlog herr.err⟩
      · simp only [Frame.next]
        exact ⟨by have := j1.1; omega, by unfold Cfg.hi at hb; omega⟩
      · simp only [Frame.next]
        rw [hact]
        exact ActOK_next j3 n.rpos (by omega)
    · intro _ _
      exact ⟨fun _ => hpost.stOK, hact, hlog, fun _ => herr.st, fun h => SsOK_after hQ _ h hlog herr.err⟩
  · intro fr ss st hJ hd _ _
    refine ⟨id, rfl, List.suffix_refl _, id, fun h => ?_⟩
    exact SsOK_after hQ _ h (List.suffix_refl _) (by intro er he; cases he)

theorem seqFinish_err (hQ : ErrInv cfg S Nm AP Q) {pos : Nat} {sh : SeqShape} {ss : SeqSt} {st0 st : St}
    (hnm : ∀ nm, sh.name = some nm → Nm nm)
    (hss : SsOK Q st ss) (hst : StErrOK Q st) (hlog : st0.log <:+ st.log) :
    PostE Q st0 (seqFinish sh pos ss st).1 (seqFinish sh pos ss st).2 := by
  by_cases hnil : ss.result.isNil = true
  · have e1 : (seqFinish sh pos ss st).2 = st := by simp [seqFinish, hnil]
    rw [e1]
    refine ⟨?_, hst, hlog⟩
    intro er her
    simp only [seqFinish, hnil, ↓reduceIte] at her
    cases hse : ss.err with
    | none => simp [hse] at her
    | some e =>
      have hb := hss e hse
      cases hn : sh.name with
      | none => simp only [hse, hn] at her; cases her; exact hb
      | some nm =>
        simp only [hse, hn] at her
        split at her
        · rename_i hc
          cases her
          simp only [Bool.and_eq_true, decide_eq_true_eq] at hc
          have := hQ.rename _ e nm hb hc.2 (hnm nm hn)
          rw [hc.1] at this; exact this
        · cases her; exact hb
  · have hnil' : ss.result.isNil = false := by simpa using hnil
    have e1 : (seqFinish sh pos ss st).2 = st.setError ss.err := by simp [seqFinish, hnil']
    have e3 : (seqFinish sh pos ss st).1.err = none := by
      simp only [seqFinish, hnil', Bool.false_eq_true, ↓reduceIte]
    rw [e1]
    have h4 := (setError_ctxErr st ss.err).2.2.2.1
    refine ⟨(by rw [e3]; intro er her; cases her), StErrOK_setError hst _ hss, by rw [h4]; exact hlog⟩

/-! ### Any / Choice accumulators -/

def AltE (Q : List Ev → Err → Prop) (st : St) (a : AltSt) : Prop :=
  (∀ er, a.err = some er → Q st.log er) ∧ (∀ er, a.nf = some er → Q st.log er)

theorem AltE_altErr (hQ : ErrInv cfg S Nm AP Q) {st st1 : St} {a : AltSt} (pos : Nat) (h : AltE Q st a)
    (hl : st.log <:+ st1.log) (e : Option Err) (he : ∀ er, e = some er → Q st1.log er) :
    AltE Q st1 (altErr pos a e) := by
  obtain ⟨_, _, h3, h4⟩ := altErr_fields pos a e
  refine ⟨?_, ?_⟩
  · intro er her
    cases h3 with
    | inl h3 => exact hQ.mono _ _ _ hl (h.1 er (h3 ▸ her))
    | inr h3 => exact he er (h3 ▸ her)
  · intro er her
    cases h4 with
    | inl h4 => exact hQ.mono _ _ _ hl (h.2 er (h4 ▸ her))
    | inr h4 => exact he er (h4 ▸ her)

/-- the error Any / Choice return when no alternative matched -/
theorem AltE_final {st : St} {a : AltSt} (h : AltE Q st a) :
    ∀ er, (match a.err with | some e => some e | none => a.nf) = some er → Q st.log er := by
  intro er her
  cases hae : a.err with
  | some e => simp only [hae] at her; cases her; exact h.1 _ hae
  | none => simp only [hae] at her; exact h.2 _ her

/-! ### the induction -/

theorem run_err (cfg : Cfg) (S : G → Bytes → Prop) (Nm : Bytes → Prop) (AP : Prop) (Q : List Ev → Err → Prop)
    (hQ : ErrInv cfg S Nm AP Q) (hgh : cfg.ghost = true)
    (henv : ∀ g' ∈ cfg.env, g'.Core (TermGood cfg)) (henvL : ∀ g' ∈ cfg.env, g'.All (LocErr cfg S Nm AP)) :
    ∀ fuel, RunErrOK cfg S Nm AP Q (run cfg fuel) := by
  intro fuel
  induction fuel with
  | zero => intro g ctx pos st o st' _ _ _ _ h; simp [run] at h
  | succ fuel ih =>
    intro g ctx pos st o st' hg hgl hpre hse h
    have hpos : RunPosOK cfg (run cfg fuel) := run_pos cfg henv fuel
    obtain ⟨hin, hst, hact⟩ := hpre
    have hloc : LocErr cfg S Nm AP g := G.All_self hgl
    -- the Sequence family first
    cases hsh : g.shape with
    | some sh =>
      rw [run_seqfam cfg fuel g sh ctx pos st hsh] at h
      split at h
      · cases h
      · unfold runSeq at h
        split at h
        · cases h
        · rename_i b ss st1 hsp
          cases h
          have hJ : SeqJE cfg Q ⟨0, [], ctx, pos, true⟩ {} st :=
            ⟨hin, hst, hact, hse, (by intro er her; cases her)⟩
          have hE := seqParse_err hQ (run cfg fuel) hpos ih g sh hg hgl hsh fuel ⟨0, [], ctx, pos, true⟩ {} st b ss st1
            hJ rfl hsp
          exact seqFinish_err hQ (shape_name hsh hloc) (hE.2.2.2.2 hJ.2.2.2.2) (hE.2.2.2.1 hse) hE.2.2.1
    | none =>
    unfold run at h
    split at h
    · cases h
    · cases g with
      | term t =>
        simp only at h
        split at h
        · cases h
          exact ⟨(by intro er her; cases her), hse, List.suffix_refl _⟩
        · rename_i e hp
          cases h
          refine ⟨?_, StErrOK_logEv hQ hse _, logEv_suffix st cfg _⟩
          intro er her
          cases her
          rw [logEv_ghost_c06 hgh]
          exact hQ.logged st.log e.pos e.kind
        · rename_i site hp
          cases h
          refine ⟨?_, hse, List.suffix_refl _⟩
          intro er her
          cases her
          exact hQ.panic (hloc pos site hin hp) _ _ _
      | empty =>
        simp only at h
        cases h
        exact ⟨(by intro er her; cases her), hse, List.suffix_refl _⟩
      | eof =>
        simp only at h
        split at h
        · cases h
          exact ⟨(by intro er her; cases her), hse, List.suffix_refl _⟩
        · cases h
          refine ⟨?_, StErrOK_logEv hQ hse _, logEv_suffix st cfg _⟩
          intro er her
          cases her
          rw [logEv_ghost_c06 hgh]
          exact hQ.logged st.log pos _
      | ref k =>
        simp only at h
        split at h
        · rename_i g' hk
          have hm := List.mem_of_getElem? hk
          exact ih g' ctx pos st o st' (henv g' hm) (henvL g' hm) ⟨hin, hst, hact⟩ hse h
        · rename_i hk
          cases h
          refine ⟨?_, hse, List.suffix_refl _⟩
          intro er her
          cases her
          exact hQ.panic (hloc hk) _ _ _
      | memo idx body =>
        simp only at h
        have hbody : body.Core (TermGood cfg) := by simpa [G.Core] using hg
        have hbodyL : body.All (LocErr cfg S Nm AP) := by
          simp only [G.All] at hgl; exact hgl.2
        cases hc : cacheGet st.cache idx pos ctx with
        | some e =>
          simp only [hc] at h
          cases h
          obtain ⟨hm, _, _⟩ := cacheGet_some hc
          refine ⟨?_, StErrOK_logEv hQ hse _, logEv_suffix st cfg _⟩
          intro er her
          exact hQ.mono _ _ _ (logEv_suffix st cfg _) (hse.cache e hm er her)
        | none =>
          simp only [hc] at h
          by_cases hcur : ctx.get idx > remaining cfg.file pos + Facts.curtailSlack
          · simp only [hcur, ↓reduceIte] at h
            cases h
            exact ⟨(by intro er her; cases her), StErrOK_logEv hQ hse _, logEv_suffix st cfg _⟩
          · simp only [hcur, ↓reduceIte] at h
            split at h
            · cases h
            · rename_i o2 st2 hr
              cases h
              have hcount : actCount st.active idx pos ≤ ctx.get idx := hact.2 idx
              have hf := logEv_fields ({ st with active := (idx, pos) :: st.active }) cfg
                (.body idx pos ((st.active.filter (fun a : Nat × Nat => a.1 == idx && a.2 == pos)).length + 1))
              have hsuf := logEv_suffix ({ st with active := (idx, pos) :: st.active }) cfg
                (.body idx pos ((st.active.filter (fun a : Nat × Nat => a.1 == idx && a.2 == pos)).length + 1))
              simp only at hf hsuf
              generalize hs1 : ({ st with active := (idx, pos) :: st.active } : St).logEv cfg
                (.body idx pos ((st.active.filter (fun a : Nat × Nat => a.1 == idx && a.2 == pos)).length + 1)) = st1
                at hr hf hsuf
              have hst1 : StOK cfg st1 := by
                refine ⟨by rw [hf.1]; exact hst.cache, by rw [hf.2.1]; exact hst.ctxErr, ?_⟩
                cases hf.2.2.2.2 with
                | inl h5 => rw [h5]; exact hst.log
                | inr h5 =>
                  rw [h5]
                  intro i p d hm
                  cases hm with
                  | head =>
                    have : actCount st.active idx pos = (st.active.filter (fun a => a.1 == idx && a.2 == pos)).length := rfl
                    omega
                  | tail _ hm => exact hst.log i p d hm
              have hact1 : ActOK (ctx.inc idx) pos st1.active := by
                rw [hf.2.2.2.1]
                refine ⟨?_, ?_⟩
                · intro a ha
                  cases ha with
                  | head => exact Nat.le_refl _
                  | tail _ ha => exact hact.1 a ha
                · intro k
                  by_cases hk : k = idx
                  · subst hk
                    rw [Ctx.get_inc_self]
                    have : actCount ((k, pos) :: st.active) k pos = actCount st.active k pos + 1 := by
                      simp [actCount]
                    omega
                  · rw [Ctx.get_inc_other _ _ _ hk]
                    have : actCount ((idx, pos) :: st.active) k pos = actCount st.active k pos := by
                      have : (idx == k) = false := by
                        simp only [beq_eq_false_iff_ne, ne_eq]; exact fun e => hk e.symm
                      simp [actCount, this]
                    rw [this]; exact hact.2 k
              have hse1 : StErrOK Q st1 := StErrOK_of_eq hQ hse hf.1 hf.2.1 hsuf
              have herr := ih body (ctx.inc idx) pos st1 o st2 hbody hbodyL ⟨hin, hst1, hact1⟩ hse1 hr
              refine ⟨herr.err, ⟨?_, herr.st.ctxErr⟩, hsuf.trans herr.log⟩
              intro c hcm er her
              cases mem_cacheSave hcm with
              | inl h1 => subst h1; exact herr.err er her
              | inr h1 => exact herr.st.cache c h1 er her
      | any gs =>
        simp only at h
        have hgs : CoreList (TermGood cfg) gs := by simpa [G.Core] using hg
        have hgsL : AllList (LocErr cfg S Nm AP) gs := by simp only [G.All] at hgl; exact hgl.2
        split at h
        · cases h
        · rename_i a st1 hl
          have hA := anyLoop_ind (run cfg fuel) ctx pos
            (fun a s => AltE Q s a ∧ StErrOK Q s ∧ StOK cfg s ∧ s.active = st.active ∧ st.log <:+ s.log) gs
            (by
              intro g' hg' a s o' s' hA hr
              obtain ⟨a1, a2, a3, a4, a5⟩ := hA
              have hpre' : Pre cfg ctx pos s.regCall :=
                ⟨hin, StOK_regCall a3, by show ActOK ctx pos s.active; rw [a4]; exact hact⟩
              have hpost := hpos g' ctx pos s.regCall o' s' (CoreList_mem hgs g' hg') hpre' hr
              have herr := ih g' ctx pos s.regCall o' s' (CoreList_mem hgs g' hg') (AllList_mem hgsL g' hg') hpre'
                (StErrOK_regCall hQ a2) hr
              have hlog : s.log <:+ s'.log := herr.log
              exact ⟨AltE_altErr hQ pos (a := { a with cp := cpUnion a.cp o'.cp, res := appendNode a.res o'.res })
                  ⟨a1.1, a1.2⟩ hlog _ herr.err,
                herr.st, hpost.stOK, by rw [hpost.active]; exact a4, a5.trans hlog⟩)
            {} st a st1
            ⟨⟨(by intro er her; cases her), (by intro er her; cases her)⟩, hse, hst, rfl, List.suffix_refl _⟩ hl
          obtain ⟨a1, a2, _, _, a5⟩ := hA
          split at h
          · cases h
            exact ⟨AltE_final a1, a2, a5⟩
          · cases h
            have h4 := (setError_ctxErr st1 a.err).2.2.2.1
            exact ⟨(by intro er her; cases her), StErrOK_setError a2 _ a1.1, by rw [h4]; exact a5⟩
      | choice gs =>
        simp only at h
        have hgs : CoreList (TermGood cfg) gs := by simpa [G.Core] using hg
        have hgsL : AllList (LocErr cfg S Nm AP) gs := by simp only [G.All] at hgl; exact hgl.2
        have hF := choiceLoop_ind (run cfg fuel) ctx pos
          (fun a s => AltE Q s a ∧ StErrOK Q s ∧ StOK cfg s ∧ s.active = st.active ∧ st.log <:+ s.log)
          (fun out a s => StErrOK Q s ∧ st.log <:+ s.log ∧ (out = none → AltE Q s a) ∧
            ∀ o', out = some o' → o'.err = none) gs
          (by intro a s hA; exact ⟨hA.2.1, hA.2.2.2.2, fun _ => hA.1, (by intro o' ho; cases ho)⟩)
          (by
            intro g' hg' a s o' s' hA hr
            obtain ⟨a1, a2, a3, a4, a5⟩ := hA
            have hpre' : Pre cfg ctx pos s.regCall :=
              ⟨hin, StOK_regCall a3, by show ActOK ctx pos s.active; rw [a4]; exact hact⟩
            have hpost := hpos g' ctx pos s.regCall o' s' (CoreList_mem hgs g' hg') hpre' hr
            have herr := ih g' ctx pos s.regCall o' s' (CoreList_mem hgs g' hg') (AllList_mem hgsL g' hg') hpre'
              (StErrOK_regCall hQ a2) hr
            have hlog : s.log <:+ s'.log := herr.log
            have hA' : AltE Q s' (altErr pos { a with cp := cpUnion a.cp o'.cp } o'.err) :=
              AltE_altErr hQ pos (a := { a with cp := cpUnion a.cp o'.cp }) ⟨a1.1, a1.2⟩ hlog _ herr.err
            refine ⟨fun _ => ?_, fun _ => ⟨hA', herr.st, hpost.stOK, by rw [hpost.active]; exact a4, a5.trans hlog⟩⟩
            have h4 := (setError_ctxErr s' (altErr pos { a with cp := cpUnion a.cp o'.cp } o'.err).err).2.2.2.1
            refine ⟨StErrOK_setError herr.st _ hA'.1, by rw [h4]; exact a5.trans hlog, (by intro hc; cases hc), ?_⟩
            intro o2 ho2
            cases ho2
            rfl)
        split at h
        · cases h
        · rename_i o1 a st1 hl
          cases h
          obtain ⟨a1, a2, _, a4⟩ := hF {} st (some o) a st'
            ⟨⟨(by intro er her; cases her), (by intro er her; cases her)⟩, hse, hst, rfl, List.suffix_refl _⟩ hl
          exact ⟨(by rw [a4 o rfl]; intro er her; cases her), a1, a2⟩
        · rename_i a st1 hl
          cases h
          obtain ⟨a1, a2, a3, _⟩ := hF {} st none a st'
            ⟨⟨(by intro er her; cases her), (by intro er her; cases her)⟩, hse, hst, rfl, List.suffix_refl _⟩ hl
          exact ⟨AltE_final (a3 rfl), a1, a2⟩
      | optional g' =>
        simp only at h
        have hg' : g'.Core (TermGood cfg) := by simpa [G.Core] using hg
        have hgl' : g'.All (LocErr cfg S Nm AP) := by simp only [G.All] at hgl; exact hgl.2
        split at h
        · cases h
        · rename_i o1 st1 hr
          cases h
          have herr := ih g' ctx pos st o1 _ hg' hgl' ⟨hin, hst, hact⟩ hse hr
          exact ⟨herr.err, herr.st, herr.log⟩
      | name g' nm =>
        simp only at h
        have hg' : g'.Core (TermGood cfg) := by simpa [G.Core] using hg
        have hgl' : g'.All (LocErr cfg S Nm AP) := by simp only [G.All] at hgl; exact hgl.2
        have hS : S g' nm ∧ Nm nm := hloc
        split at h
        · cases h
        · rename_i o1 st1 hr
          have herr := ih g' ctx pos st o1 st1 hg' hgl' ⟨hin, hst, hact⟩ hse hr
          split at h
          · rename_i e he
            split at h
            · rename_i hc
              cases h
              refine ⟨?_, herr.st, herr.log⟩
              intro er her
              cases her
              simp only [Bool.and_eq_true, decide_eq_true_eq] at hc
              have := hQ.rename _ e nm (herr.err e he) hc.2 hS.2
              rw [hc.1] at this; exact this
            · cases h
              exact ⟨(by intro er her; cases her; exact herr.err _ he), herr.st, herr.log⟩
          · rename_i he
            split at h
            · rename_i hn
              cases h
              refine ⟨?_, herr.st, herr.log⟩
              intro er her
              cases her
              exact hQ.create fuel g' nm ctx pos st o1 _ hS.1 hS.2 hr he hn
            · cases h
              exact ⟨(by intro er her; cases her), herr.st, herr.log⟩
      | single g' =>
        simp only at h
        have hg' : g'.Core (TermGood cfg) := by simpa [G.Core] using hg
        have hgl' : g'.All (LocErr cfg S Nm AP) := by simp only [G.All] at hgl; exact hgl.2
        split at h
        · cases h
        · rename_i o1 st1 hr
          have herr := ih g' ctx pos st o1 st1 hg' hgl' ⟨hin, hst, hact⟩ hse hr
          split at h
          · rename_i e he
            cases h
            exact ⟨(by intro er her; cases her; exact herr.err _ he), herr.st, herr.log⟩
          · split at h
            · cases h
              exact ⟨(by intro er her; cases her), herr.st, herr.log⟩
            · cases h
              exact ⟨(by intro er her; cases her), herr.st, herr.log⟩
      | suppress g' =>
        simp only at h
        have hg' : g'.Core (TermGood cfg) := by simpa [G.Core] using hg
        have hgl' : g'.All (LocErr cfg S Nm AP) := by simp only [G.All] at hgl; exact hgl.2
        split at h
        · cases h
        · rename_i o1 st1 hr
          cases h
          have herr := ih g' ctx pos st o1 _ hg' hgl' ⟨hin, hst, hact⟩ hse hr
          exact ⟨(by intro er her; cases her), herr.st, herr.log⟩
      | ltrim g' m => simp [G.Core] at hg
      | rtrim g' m => simp [G.Core] at hg
      | seq k gs o => simp [G.shape] at hsh
      | many g' ae o => simp [G.shape] at hsh
      | sepBy v s ae o => simp [G.shape] at hsh

end

end PV
