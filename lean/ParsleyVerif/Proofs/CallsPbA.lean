/-
  C17, part 3: the exact call count of the left-recursive family `P → P b | a` (family 1 of the suite:
  env = [Memoize(Any(SeqOf(P, 'b'), 'a'))], root = Sentence(P), input `a b^(n-1)`), for EVERY n ≥ 1.

  What the run does (`pba_level`, `pba_level_one`, `pba_level_zero`, `pba_sentence`):
  at position 1 Memoize is entered with left-recursion count 0, 1, …, n+1 (the cache has no entry yet on the
  way down) and curtailed at count n+2 > Remaining+1.  The activation `m` levels above the curtailed one
  returns the `m` shortest prefixes `a b^(m-1), …, a b, a` (longest first; `Rlist m`) and makes
  `lvlCost m = Σ_{i<m} (3 + i)` calls: `P b`, its element `P`, one `b` per alternative the inner activation
  returned, and `a`.  The two outermost activations (count 1 and 0) get all `n` prefixes from below; the
  longest ends at the end of the input, its `b` fails, and the same `n` prefixes are returned: 3 + n calls
  each.  Sentence adds 2 (its element `P`, and `End` after the longest alternative — which matches, so the
  loop over the alternatives stops).  Total: lvlCost n + 2(3+n) + 2 = (n² + 9n + 16)/2.
  The cache entry for (P, 1) is overwritten at every level on the way up and never read.
-/
import ParsleyVerif.Proofs.CallsRun
namespace PV.C17
open PV.Text

def pbaNmA : Bytes := [34, 97, 34]
def pbaNmB : Bytes := [34, 98, 34]
def pbaA : G := .term (.rune 97 pbaNmA)
def pbaB : G := .term (.rune 98 pbaNmB)
def pbaS : G := .seq .seqOf [.ref 0, pbaB] {}
def pbaBody : G := .any [pbaS, pbaA]
def pbaP : G := .memo 0 pbaBody
def pbaEnv : List G := [pbaP]
def pbaData (n : Nat) : Bytes := 97 :: List.replicate (n - 1) 98
def pbaFile (n : Nat) : File := { name := "f", data := pbaData n, offset := 1 }

structure IsPbA (n : Nat) (cfg : Cfg) : Prop where
  env : cfg.env = pbaEnv
  file : cfg.file = pbaFile n
  max : cfg.maxCalls = 0

def nodeA : Node := .term [97] (.rune 97) 1 2
def nodeB (p : Nat) : Node := .term [98] (.rune 98) p (p + 1)

variable {n : Nat} {cfg : Cfg}

theorem pba_readA : readRune (pbaFile n) 1 97 = some (2, true) := by
  simp [readRune, pbaFile, pbaData, File.len, File.pos]

theorem pba_readB (p : Nat) (h2 : 2 ≤ p) (hp : p ≤ n) : readRune (pbaFile n) p 98 = some (p + 1, true) := by
  obtain ⟨q, rfl⟩ : ∃ q, p = q + 2 := ⟨p - 2, by omega⟩
  have h1 : ¬ (q + 2 < 1) := by omega
  have h3 : ¬ (q + 2 - 1 ≥ (97 :: List.replicate (n - 1) 98).length) := by simp; omega
  have h4 : (97 :: List.replicate (n - 1) 98)[q + 2 - 1]? = some 98 := by
    have : q + 2 - 1 = q + 1 := by omega
    rw [this, List.getElem?_cons_succ, List.getElem?_replicate]
    simp; omega
  simp only [readRune, pbaFile, pbaData, File.len, File.pos, h1, h3, h4, ↓reduceIte]
  simp
  omega

theorem pba_readB_end (hn : 1 ≤ n) : readRune (pbaFile n) (n + 1) 98 = some (n + 1, false) := by
  simp [readRune, pbaFile, pbaData, File.len]
  omega

theorem run_pbaA (hc : IsPbA n cfg) (fuel : Nat) (ctx : Ctx) (st : St) :
    run cfg (fuel + 1) pbaA ctx 1 st = some (⟨.one nodeA, [], none⟩, st) := by
  simp only [run, pbaA, hc.max, Terminal.parse, hc.file, pba_readA]
  simp [nodeA, Utf8.encodeRune]

theorem run_pbaB (hc : IsPbA n cfg) (fuel : Nat) (ctx : Ctx) (p : Nat) (h2 : 2 ≤ p) (hp : p ≤ n) (st : St) :
    run cfg (fuel + 1) pbaB ctx p st = some (⟨.one (nodeB p), [], none⟩, st) := by
  simp only [run, pbaB, hc.max, Terminal.parse, hc.file, pba_readB p h2 hp]
  simp [nodeB, Utf8.encodeRune]

theorem run_pbaB_end (hc : IsPbA n cfg) (hn : 1 ≤ n) (fuel : Nat) (ctx : Ctx) (st : St) :
    ∃ st', run cfg (fuel + 1) pbaB ctx (n + 1) st = some (⟨.nil, [], some ⟨n + 1, .notFound pbaNmB⟩⟩, st') ∧
      st'.calls = st.calls ∧ st'.cache = st.cache := by
  simp only [run, pbaB, hc.max, Terminal.parse, hc.file, pba_readB_end hn, nf]
  refine ⟨_, by simp; rfl, (logEv_fields _ _ _).2.2.1, (logEv_fields _ _ _).1⟩

theorem run_pba_eof (hc : IsPbA n cfg) (hn : 1 ≤ n) (fuel : Nat) (ctx : Ctx) (st : St) :
    run cfg (fuel + 1) .eof ctx (n + 1) st = some (⟨.one (.eof (n + 1)), [], none⟩, st) := by
  simp [run, hc.max, hc.file, isEOF, pbaFile, pbaData, File.len]
  omega

def pbaSh : SeqShape :=
  { lookup := fun i => [G.ref 0, pbaB][i]?, lenCheck := fun len => len == 2, token := seqTok,
    interp := .none, single := false, name := none }

theorem pbaS_shape : pbaS.shape = some pbaSh := rfl

/-- the node `SeqOf(P, 'b')` builds from a `P`-node `x` and the `b` after it -/
def ext (x : Node) : Node := .nt seqTok [x, nodeB x.rpos] x.pos (x.rpos + 1) .none

theorem pickErr_none (e : Option Err) : pickErr e none = e := rfl

/-- element 1 of the sequence after a `P`-node that a `b` follows: one call, one emitted node -/
theorem seq_ext (hc : IsPbA n cfg) (fr f : Nat) (x : Node) (h2 : 2 ≤ x.rpos) (hp : x.rpos ≤ n) (ss : SeqSt) (st : St) :
    seqParse (run cfg (fr + 1)) pbaSh (f + 2) 1 [x] [] x.rpos false ss st =
      some (false, { ss with result := appendNode ss.result (.one (ext x)) }, st.regCall) := by
  have hl1 : pbaSh.lookup 1 = some pbaB := rfl
  have hl2 : pbaSh.lookup 2 = none := rfl
  rw [seqParse]
  simp only [hl1, run_pbaB hc fr [] x.rpos h2 hp, pickErr_none, Bool.false_eq_true, ↓reduceIte, Res.alts, seqAlts]
  rw [seqParse]
  simp only [hl2, pickErr_none]
  simp [pbaSh, handleResult, ext, nodeB, Node.rpos, Node.pos, Node.token, eofTok]

/-- element 1 of the sequence after a `P`-node that ends at the end of the input: one call, nothing emitted -/
theorem seq_fail (hc : IsPbA n cfg) (hn : 1 ≤ n) (fr f : Nat) (x : Node) (hx : x.rpos = n + 1) (ss : SeqSt) (st : St) :
    ∃ ss' st', seqParse (run cfg (fr + 1)) pbaSh (f + 1) 1 [x] [] x.rpos false ss st = some (false, ss', st') ∧
      ss'.result = ss.result ∧ ss'.cp = ss.cp ∧ st'.calls = st.calls + 1 ∧ st'.cache = st.cache := by
  have hl1 : pbaSh.lookup 1 = some pbaB := rfl
  obtain ⟨st1, h1, h2, h3⟩ := run_pbaB_end hc hn fr [] st.regCall
  have hlc : pbaSh.lenCheck 1 = false := rfl
  rw [seqParse, hx]
  simp only [hl1, h1, hlc, Bool.false_eq_true, ↓reduceIte]
  exact ⟨_, st1, rfl, rfl, rfl, h2, h3⟩

/-- the single node, or the node list, that `AppendNode` has built from these nodes -/
def resOf : List Node → Res
  | [] => .nil
  | [x] => .one x
  | l => .list l

def notEmptyNode : Node → Prop
  | .empty _ => False
  | _ => True

theorem appendNode_resOf (acc : List Node) (x : Node) (hx : notEmptyNode x) :
    appendNode (resOf acc) (.one x) = resOf (acc ++ [x]) := by
  cases x with
  | empty p => exact hx.elim
  | term t v p r =>
    match acc with
    | [] => rfl
    | [y] => rfl
    | y :: z :: rest => rfl
  | eof p =>
    match acc with
    | [] => rfl
    | [y] => rfl
    | y :: z :: rest => rfl
  | nt t c p r i =>
    match acc with
    | [] => rfl
    | [y] => rfl
    | y :: z :: rest => rfl

theorem resOf_alts (l : List Node) : (resOf l).alts = l := by
  match l with
  | [] => rfl
  | [y] => rfl
  | y :: z :: rest => rfl

/-- the `P`-nodes that a `b` follows, each extended by it -/
def extAll (n : Nat) (l : List Node) : List Node := (l.filter (fun x => decide (x.rpos ≤ n))).map ext

/-- the loop over the alternatives `P` returned: one call each; those followed by a `b` emit a node -/
theorem seq_alts (hc : IsPbA n cfg) (hn : 1 ≤ n) (fr f : Nat) (ctx : Ctx) :
    ∀ (l : List Node), (∀ x ∈ l, 2 ≤ x.rpos ∧ x.rpos ≤ n + 1) →
    ∀ (acc : List Node) (ss : SeqSt) (st : St), ss.result = resOf acc →
    ∃ ss' st', seqAlts (fun nd ss st =>
          seqParse (run cfg (fr + 1)) pbaSh (f + 2) (0 + 1) ([] ++ [nd]) (if nd.rpos > 1 then [] else ctx) nd.rpos
            (true && !(decide (nd.rpos > 1))) ss st) l ss st = some (false, ss', st') ∧
      ss'.result = resOf (acc ++ extAll n l) ∧ ss'.cp = ss.cp ∧ st'.calls = st.calls + l.length ∧
      st'.cache = st.cache := by
  intro l
  induction l with
  | nil =>
    intro _ acc ss st hr
    exact ⟨ss, st, rfl, by simp [extAll, hr], rfl, rfl, rfl⟩
  | cons x l ih =>
    intro hl acc ss st hr
    have hx := hl x (List.mem_cons_self ..)
    have hgt : x.rpos > 1 := by omega
    simp only [seqAlts, hgt, ↓reduceIte, decide_true, Bool.not_true, Bool.and_false, List.nil_append, Nat.zero_add]
    by_cases hp : x.rpos ≤ n
    · rw [seq_ext hc fr f x hx.1 hp]
      simp only
      obtain ⟨ss', st', e1, e2, e3, e4, e5⟩ := ih (fun y hy => hl y (List.mem_cons_of_mem _ hy)) (acc ++ [ext x])
        { ss with result := appendNode ss.result (.one (ext x)) } st.regCall
        (by simp only [hr]; exact appendNode_resOf acc (ext x) trivial)
      refine ⟨ss', st', e1, ?_, e3, ?_, e5⟩
      · rw [e2]; simp [extAll, hp]
      · rw [e4]; simp [St.regCall]; omega
    · have hxe : x.rpos = n + 1 := by omega
      obtain ⟨ss1, st1, a1, a2, a3, a4, a5⟩ := seq_fail hc hn fr (f + 1) x hxe ss st
      rw [a1]
      simp only
      obtain ⟨ss', st', e1, e2, e3, e4, e5⟩ := ih (fun y hy => hl y (List.mem_cons_of_mem _ hy)) acc ss1 st1
        (by rw [a2, hr])
      refine ⟨ss', st', e1, ?_, by rw [e3, a3], ?_, by rw [e5, a5]⟩
      · rw [e2]; simp [extAll, hp]
      · rw [e4, a4]; simp; omega

theorem run_shape (h0 : cfg.maxCalls = 0) (fuel : Nat) (g : G) (sh : SeqShape) (ctx : Ctx) (pos : Nat) (st : St)
    (hs : g.shape = some sh) :
    run cfg (fuel + 1) g ctx pos st =
      match seqParse (run cfg fuel) sh fuel 0 [] ctx pos true {} st with
      | none => none
      | some (_, ss, st) =>
        let (res, err, st) :=
          if ss.result.isNil then (Res.nil, ss.err, st) else (ss.result, none, st.setError ss.err)
        let err := match err, sh.name with
          | some e, some nm => if e.pos = pos && e.kind.isNotFound then some ⟨pos, .notFound nm⟩ else some e
          | e, _ => e
        some (⟨res, ss.cp, err⟩, st) := by
  have hb : ¬ (cfg.maxCalls ≠ 0 ∧ st.calls > cfg.maxCalls) := by simp [h0]
  cases g <;> simp only [G.shape, Option.some.injEq, reduceCtorEq] at hs
  all_goals
    subst hs
    conv => lhs; unfold run
    rw [if_neg hb]
    rfl

theorem run_ref (h0 : cfg.maxCalls = 0) (fuel k : Nat) (g' : G) (hk : cfg.env[k]? = some g') (ctx : Ctx) (pos : Nat)
    (st : St) : run cfg (fuel + 1) (.ref k) ctx pos st = run cfg fuel g' ctx pos st := by
  have hb : ¬ (cfg.maxCalls ≠ 0 ∧ st.calls > cfg.maxCalls) := by simp [h0]
  conv => lhs; unfold run
  rw [if_neg hb]
  simp only [hk]

theorem resOf_isNil_snoc (acc : List Node) (x : Node) : (resOf (acc ++ [x])).isNil = false := by
  match acc with
  | [] => rfl
  | [y] => rfl
  | y :: z :: rest => rfl

theorem resOf_isNil (l : List Node) : (resOf l).isNil = l.isEmpty := by
  match l with
  | [] => rfl
  | [y] => rfl
  | y :: z :: rest => rfl

/-- `SeqOf(P, 'b')` once `P` has answered with the alternatives `L` -/
theorem run_pbaS (hc : IsPbA n cfg) (hn : 1 ≤ n) (f : Nat) (ctx : Ctx) (L : List Node)
    (hL : ∀ x ∈ L, 2 ≤ x.rpos ∧ x.rpos ≤ n + 1) (st st1 : St)
    (hin : run cfg (f + 2) pbaP ctx 1 st.regCall = some (⟨resOf L, [0], none⟩, st1)) :
    ∃ e st', run cfg (f + 4) pbaS ctx 1 st = some (⟨resOf (extAll n L), [0], e⟩, st') ∧
      st'.calls = st1.calls + L.length ∧ st'.cache = st1.cache := by
  have href : run cfg (f + 3) (.ref 0) ctx 1 st.regCall = some (⟨resOf L, [0], none⟩, st1) := by
    rw [run_ref hc.max (f + 2) 0 pbaP (by rw [hc.env]; rfl)]
    exact hin
  have hl0 : pbaSh.lookup 0 = some (.ref 0) := rfl
  have hlc : pbaSh.lenCheck 0 = false := rfl
  have hnm : pbaSh.name = none := rfl
  rw [run_shape hc.max (f + 3) pbaS pbaSh ctx 1 st pbaS_shape]
  rw [seqParse]
  simp only [hl0, href, pickErr_none, ↓reduceIte, hnm]
  have hcp : cpUnion [] [0] = [0] := by simp [cpUnion]
  rw [hcp]
  by_cases hnil : L = []
  · subst hnil
    simp only [resOf, hlc, Bool.false_eq_true, ↓reduceIte, Res.isNil]
    exact ⟨_, _, rfl, rfl, rfl⟩
  · have halts := resOf_alts L
    have hisnil : (resOf L).isNil = false := by
      rw [resOf_isNil]; cases L with
      | nil => exact absurd rfl hnil
      | cons => rfl
    obtain ⟨ss', st', e1, e2, e3, e4, e5⟩ := seq_alts hc hn (f + 2) f ctx L hL [] { cp := [0] } st1 rfl
    clear hin href
    generalize resOf L = R at halts hisnil
    cases R with
    | nil => cases hisnil
    | one y =>
      simp only [Res.alts] at halts
      subst halts
      simp only [Res.alts]
      rw [e1]
      simp only [List.nil_append] at e2
      simp only [e2, e3]
      by_cases hr : (resOf (extAll n [y])).isNil = true
      · simp only [hr, ↓reduceIte]
        rw [(isNil_iff _).mp hr]
        exact ⟨_, _, rfl, e4, e5⟩
      · simp only [hr, Bool.false_eq_true, ↓reduceIte]
        exact ⟨_, _, rfl, by rw [(setError_ctxErr _ _).2.2.2.2, e4], by rw [(setError_ctxErr _ _).2.1, e5]⟩
    | list l =>
      simp only [Res.alts] at halts
      subst halts
      simp only [Res.alts]
      rw [e1]
      simp only [List.nil_append] at e2
      simp only [e2, e3]
      by_cases hr : (resOf (extAll n l)).isNil = true
      · simp only [hr, ↓reduceIte]
        rw [(isNil_iff _).mp hr]
        exact ⟨_, _, rfl, e4, e5⟩
      · simp only [hr, Bool.false_eq_true, ↓reduceIte]
        exact ⟨_, _, rfl, by rw [(setError_ctxErr _ _).2.2.2.2, e4], by rw [(setError_ctxErr _ _).2.1, e5]⟩

theorem run_any_eq (h0 : cfg.maxCalls = 0) (fuel : Nat) (gs : List G) (ctx : Ctx) (pos : Nat) (st : St) :
    run cfg (fuel + 1) (.any gs) ctx pos st =
      match anyLoop (run cfg fuel) ctx pos gs {} st with
      | none => none
      | some (a, st) =>
        if a.res.isNil then some (⟨.nil, a.cp, match a.err with | some e => some e | none => a.nf⟩, st)
        else some (⟨a.res, a.cp, none⟩, st.setError a.err) := by
  have hb : ¬ (cfg.maxCalls ≠ 0 ∧ st.calls > cfg.maxCalls) := by simp [h0]
  conv => lhs; unfold run
  rw [if_neg hb]
  rfl

/-- the state in which Memoize runs its body -/
def memoEnter (cfg : Cfg) (idx pos : Nat) (st : St) : St :=
  ({ st with active := (idx, pos) :: st.active }).logEv cfg
    (.body idx pos ((st.active.filter (fun (a : Nat × Nat) => a.1 == idx && a.2 == pos)).length + 1))

theorem run_memo_eq (h0 : cfg.maxCalls = 0) (fuel idx : Nat) (body : G) (ctx : Ctx) (pos : Nat) (st : St)
    (hcache : cacheGet st.cache idx pos ctx = none)
    (hcur : ¬ ctx.get idx > remaining cfg.file pos + Facts.curtailSlack) :
    run cfg (fuel + 1) (.memo idx body) ctx pos st =
      match run cfg fuel body (ctx.inc idx) pos (memoEnter cfg idx pos st) with
      | none => none
      | some (o, st2) =>
        some (o, { st2 with
          cache := cacheSave st2.cache
            { idx := idx, pos := pos, ctx := ctx.filter o.cp, cp := o.cp, err := o.err, res := o.res },
          active := st.active }) := by
  have hb : ¬ (cfg.maxCalls ≠ 0 ∧ st.calls > cfg.maxCalls) := by simp [h0]
  conv => lhs; unfold run
  rw [if_neg hb]
  simp only [hcache, hcur, ↓reduceIte, memoEnter]
  rfl

theorem memoEnter_fields (cfg : Cfg) (idx pos : Nat) (st : St) :
    (memoEnter cfg idx pos st).calls = st.calls ∧ (memoEnter cfg idx pos st).cache = st.cache :=
  ⟨(logEv_fields _ _ _).2.2.1, (logEv_fields _ _ _).1⟩

theorem pba_remaining (hn : 1 ≤ n) : remaining (pbaFile n) 1 + Facts.curtailSlack = n + 1 := by
  simp [remaining, pbaFile, pbaData, File.len, Facts.curtailSlack]
  omega

/-- `P b | a` once the inner `P` has answered with the alternatives `L` -/
theorem run_pbaBody (hc : IsPbA n cfg) (hn : 1 ≤ n) (f : Nat) (ctx : Ctx) (L : List Node)
    (hL : ∀ x ∈ L, 2 ≤ x.rpos ∧ x.rpos ≤ n + 1) (st st1 : St)
    (hin : run cfg (f + 2) pbaP ctx 1 st.regCall.regCall = some (⟨resOf L, [0], none⟩, st1)) :
    ∃ st', run cfg (f + 5) pbaBody ctx 1 st = some (⟨resOf (extAll n L ++ [nodeA]), [0], none⟩, st') ∧
      st'.calls = st1.calls + L.length + 1 := by
  obtain ⟨e, st2, h1, h2, _⟩ := run_pbaS hc hn f ctx L hL st.regCall st1 hin
  rw [pbaBody, run_any_eq hc.max]
  simp only [anyLoop, h1, run_pbaA hc]
  obtain ⟨a1, a2, _, _⟩ := altErr_fields 1
    { cp := cpUnion ({} : AltSt).cp [0], res := appendNode ({} : AltSt).res (resOf (extAll n L)), err := ({} : AltSt).err, nf := ({} : AltSt).nf } e
  generalize altErr 1 _ e = A at a1 a2
  simp only [altErr]
  have hcp : cpUnion A.cp [] = [0] := by rw [a1]; simp [cpUnion]
  have hres : appendNode A.res (.one nodeA) = resOf (extAll n L ++ [nodeA]) := by
    rw [a2]
    show appendNode (appendNode .nil (resOf (extAll n L))) (.one nodeA) = _
    have : appendNode .nil (resOf (extAll n L)) = resOf (extAll n L) := rfl
    rw [this]
    exact appendNode_resOf _ _ trivial
  rw [hcp, hres]
  simp only [resOf_isNil_snoc, Bool.false_eq_true, ↓reduceIte]
  refine ⟨_, rfl, ?_⟩
  rw [(setError_ctxErr _ _).2.2.2.2]
  simp [St.regCall, h2]

/-- one activation of Memoize(P b | a) at position 1 whose inner activation answers with `L`:
    3 calls (`P b`, its element `P`, `a`) plus one call (`b`) per alternative in `L` -/
theorem run_pbaP_step (hc : IsPbA n cfg) (hn : 1 ≤ n) (f : Nat) (ctx : Ctx) (hctx : ctx.get 0 ≤ n + 1) (L : List Node)
    (hL : ∀ x ∈ L, 2 ≤ x.rpos ∧ x.rpos ≤ n + 1) (c : Nat)
    (inner : ∀ st : St, st.cache = [] →
      ∃ st1, run cfg (f + 2) pbaP (ctx.inc 0) 1 st = some (⟨resOf L, [0], none⟩, st1) ∧ st1.calls = st.calls + c) :
    ∀ st : St, st.cache = [] →
      ∃ st', run cfg (f + 6) pbaP ctx 1 st = some (⟨resOf (extAll n L ++ [nodeA]), [0], none⟩, st') ∧
        st'.calls = st.calls + c + 3 + L.length := by
  intro st hcache
  rw [pbaP, run_memo_eq hc.max (f + 5) 0 pbaBody ctx 1 st (by rw [hcache]; rfl)
    (by rw [hc.file, pba_remaining hn]; omega)]
  obtain ⟨st1, h1, h2⟩ := inner (memoEnter cfg 0 1 st).regCall.regCall
    (by show (memoEnter cfg 0 1 st).cache = []; rw [(memoEnter_fields _ _ _ _).2, hcache])
  obtain ⟨st2, h3, h4⟩ := run_pbaBody hc hn f (ctx.inc 0) L hL _ st1 h1
  rw [h3]
  refine ⟨_, rfl, ?_⟩
  show st2.calls = _
  rw [h4, h2]
  show (memoEnter cfg 0 1 st).calls + 1 + 1 + c + L.length + 1 = _
  rw [(memoEnter_fields _ _ _ _).1]
  omega

theorem run_memo_curtail_eq (h0 : cfg.maxCalls = 0) (fuel idx : Nat) (body : G) (ctx : Ctx) (pos : Nat) (st : St)
    (hcache : cacheGet st.cache idx pos ctx = none)
    (hcur : ctx.get idx > remaining cfg.file pos + Facts.curtailSlack) :
    run cfg (fuel + 1) (.memo idx body) ctx pos st =
      some (⟨.nil, [idx], none⟩, st.logEv cfg (.curtail idx pos)) := by
  have hb : ¬ (cfg.maxCalls ≠ 0 ∧ st.calls > cfg.maxCalls) := by simp [h0]
  conv => lhs; unfold run
  rw [if_neg hb]
  simp only [hcache, hcur, ↓reduceIte]

/-- the alternatives of the activation that is `m` levels above the curtailed one: `a b^(m-1)`, …, `a b`, `a`
    (longest first) -/
def Rlist : Nat → List Node
  | 0 => []
  | m + 1 => (Rlist m).map ext ++ [nodeA]

theorem ext_rpos (x : Node) : (ext x).rpos = x.rpos + 1 := rfl

theorem Rlist_rpos : ∀ m, ∀ x ∈ Rlist m, 2 ≤ x.rpos ∧ x.rpos ≤ m + 1 := by
  intro m
  induction m with
  | zero => intro x hx; cases hx
  | succ m ih =>
    intro x hx
    simp only [Rlist, List.mem_append, List.mem_map, List.mem_singleton] at hx
    rcases hx with ⟨y, hy, rfl⟩ | rfl
    · have := ih y hy
      rw [ext_rpos]; omega
    · simp [nodeA, Node.rpos]

theorem Rlist_succ : ∀ m, ∃ h, Rlist (m + 1) = h :: Rlist m ∧ h.rpos = m + 2 := by
  intro m
  induction m with
  | zero => exact ⟨nodeA, rfl, rfl⟩
  | succ m ih =>
    obtain ⟨h, e1, e2⟩ := ih
    refine ⟨ext h, ?_, by rw [ext_rpos, e2]⟩
    have : Rlist (m + 1 + 1) = (Rlist (m + 1)).map ext ++ [nodeA] := rfl
    rw [this]
    conv => lhs; rw [e1]
    rfl

theorem Rlist_length : ∀ m, (Rlist m).length = m := by
  intro m
  induction m with
  | zero => rfl
  | succ m ih => simp [Rlist, ih]

theorem extAll_Rlist_lt (m : Nat) (hm : m + 1 ≤ n) : extAll n (Rlist m) ++ [nodeA] = Rlist (m + 1) := by
  have : (Rlist m).filter (fun x => decide (x.rpos ≤ n)) = Rlist m := by
    apply List.filter_eq_self.mpr
    intro x hx
    have := Rlist_rpos m x hx
    simp; omega
  simp only [extAll, this, Rlist]

theorem extAll_Rlist_top (hn : 1 ≤ n) : extAll n (Rlist n) ++ [nodeA] = Rlist n := by
  obtain ⟨m, rfl⟩ : ∃ m, n = m + 1 := ⟨n - 1, by omega⟩
  obtain ⟨h, e1, e2⟩ := Rlist_succ m
  have hf : (Rlist (m + 1)).filter (fun x => decide (x.rpos ≤ m + 1)) = Rlist m := by
    rw [e1, List.filter_cons]
    have : ¬ (h.rpos ≤ m + 1) := by omega
    simp only [this, decide_false, Bool.false_eq_true, ↓reduceIte]
    apply List.filter_eq_self.mpr
    intro x hx
    have := Rlist_rpos m x hx
    simp; omega
  simp only [extAll, hf]
  rfl

/-- the calls of the activation `m` levels above the curtailed one -/
def lvlCost : Nat → Nat
  | 0 => 0
  | m + 1 => lvlCost m + 3 + m

theorem ctx_inc0 (k : Nat) : Ctx.inc [(0, k)] 0 = [(0, k + 1)] := by simp [Ctx.inc]
theorem ctx_get0 (k : Nat) : Ctx.get [(0, k)] 0 = k := by simp [Ctx.get]

/-- **the left spine**: the activation of `P` at position 1 entered with left-recursion count `k = n+2-m`
    returns the `m` shortest prefixes and costs `lvlCost m` calls -/
theorem pba_level (hc : IsPbA n cfg) (hn : 1 ≤ n) : ∀ m k, m ≤ n → m + k = n + 2 → ∀ st : St, st.cache = [] →
    ∃ st', run cfg (4 * m + 2) pbaP [(0, k)] 1 st = some (⟨resOf (Rlist m), [0], none⟩, st') ∧
      st'.calls = st.calls + lvlCost m := by
  intro m
  induction m with
  | zero =>
    intro k _ hk st hcache
    rw [pbaP, run_memo_curtail_eq hc.max 1 0 pbaBody [(0, k)] 1 st (by rw [hcache]; rfl)
      (by rw [hc.file, pba_remaining hn, ctx_get0]; omega)]
    exact ⟨_, rfl, (logEv_fields _ _ _).2.2.1⟩
  | succ m ih =>
    intro k hm hk st hcache
    have inner := ih (k + 1) (by omega) (by omega)
    rw [← ctx_inc0] at inner
    have := run_pbaP_step hc hn (4 * m) [(0, k)] (by rw [ctx_get0]; omega) (Rlist m)
      (fun x hx => by have := Rlist_rpos m x hx; omega) (lvlCost m) inner st hcache
    rw [extAll_Rlist_lt m hm] at this
    obtain ⟨st', h1, h2⟩ := this
    refine ⟨st', ?_, ?_⟩
    · rw [show 4 * (m + 1) + 2 = 4 * m + 6 by omega]; exact h1
    · rw [h2, lvlCost, Rlist_length]; omega

/-- the two outermost activations (entered with count 1 and 0): the longest alternative now ends at the end
    of the input, so its `b` fails; the alternatives returned are the same `n` prefixes -/
theorem pba_level_one (hc : IsPbA n cfg) (hn : 1 ≤ n) : ∀ st : St, st.cache = [] →
    ∃ st', run cfg (4 * n + 6) pbaP [(0, 1)] 1 st = some (⟨resOf (Rlist n), [0], none⟩, st') ∧
      st'.calls = st.calls + lvlCost n + 3 + n := by
  intro st hcache
  have inner := pba_level hc hn n 2 (Nat.le_refl _) rfl
  rw [show [(0, 2)] = Ctx.inc [(0, 1)] 0 from (ctx_inc0 1).symm] at inner
  have := run_pbaP_step hc hn (4 * n) [(0, 1)] (by rw [ctx_get0]; omega) (Rlist n)
    (fun x hx => Rlist_rpos n x hx) (lvlCost n) inner st hcache
  rw [extAll_Rlist_top hn, Rlist_length] at this
  exact this

theorem pba_level_zero (hc : IsPbA n cfg) (hn : 1 ≤ n) : ∀ st : St, st.cache = [] →
    ∃ st', run cfg (4 * n + 10) pbaP [] 1 st = some (⟨resOf (Rlist n), [0], none⟩, st') ∧
      st'.calls = st.calls + lvlCost n + 2 * (3 + n) := by
  intro st hcache
  have inner := pba_level_one hc hn
  rw [show [(0, 1)] = Ctx.inc [] 0 from rfl] at inner
  have := run_pbaP_step hc hn (4 * n + 4) [] (by simp [Ctx.get]) (Rlist n)
    (fun x hx => Rlist_rpos n x hx) (lvlCost n + 3 + n)
    (fun s hs => by obtain ⟨s', a, b⟩ := inner s hs; exact ⟨s', a, by rw [b]; omega⟩) st hcache
  rw [extAll_Rlist_top hn, Rlist_length] at this
  obtain ⟨st', h1, h2⟩ := this
  exact ⟨st', h1, by rw [h2]; omega⟩

def sentSh : SeqShape :=
  { lookup := fun i => [G.ref 0, G.eof][i]?, lenCheck := fun len => len == 2, token := seqTok,
    interp := .select 0, single := false, name := none }

theorem sent_shape : (G.sentence (.ref 0)).shape = some sentSh := rfl

/-- `Sentence(P)`: one call for `P`, one for `End` after the longest alternative (which matches, so the
    other alternatives are not tried) -/
theorem pba_sentence (hc : IsPbA n cfg) (hn : 1 ≤ n) : ∀ st : St, st.cache = [] →
    ∃ o st', run cfg (4 * n + 12) (G.sentence (.ref 0)) [] 1 st = some (o, st') ∧ o.res.isNil = false ∧
      o.err = none ∧ st'.calls = st.calls + lvlCost n + 2 * n + 8 := by
  intro st hcache
  obtain ⟨st1, h1, h2⟩ := pba_level_zero hc hn st.regCall hcache
  have href : run cfg (4 * n + 11) (.ref 0) [] 1 st.regCall = some (⟨resOf (Rlist n), [0], none⟩, st1) := by
    rw [run_ref hc.max (4 * n + 10) 0 pbaP (by rw [hc.env]; rfl)]
    exact h1
  obtain ⟨m, rfl⟩ : ∃ m, n = m + 1 := ⟨n - 1, by omega⟩
  obtain ⟨h, e1, e2⟩ := Rlist_succ m
  have hl0 : sentSh.lookup 0 = some (.ref 0) := rfl
  have hl1 : sentSh.lookup 1 = some .eof := rfl
  have hl2 : sentSh.lookup 2 = none := rfl
  have hlc : sentSh.lenCheck 2 = true := rfl
  have hnm : sentSh.name = none := rfl
  have hgt : h.rpos > 1 := by omega
  have hR : resOf (Rlist (m + 1)) = resOf (h :: Rlist m) := by rw [e1]
  rw [run_shape hc.max (4 * (m + 1) + 11) _ sentSh [] 1 st sent_shape]
  rw [seqParse]
  simp only [hl0, href, pickErr_none, ↓reduceIte, hnm]
  rw [hR]
  have key : ∀ (ss : SeqSt) (rest : List Node), ∃ ss', seqAlts (fun nd ss st =>
        seqParse (run cfg (4 * (m + 1) + 11)) sentSh (4 * (m + 1) + 10) (0 + 1) ([] ++ [nd])
          (if nd.rpos > 1 then [] else []) nd.rpos (true && !(decide (nd.rpos > 1))) ss st)
        (h :: rest) ss st1 = some (true, ss', st1.regCall) ∧ ss'.result.isNil = false ∧ ss'.cp = ss.cp := by
    intro ss rest
    simp only [seqAlts, hgt, ↓reduceIte, decide_true, Bool.not_true, Bool.and_false, List.nil_append, Nat.zero_add]
    rw [show 4 * (m + 1) + 10 = (4 * m + 12) + 1 + 1 by omega, seqParse]
    simp only [hl1, e2]
    rw [show 4 * (m + 1) + 11 = (4 * (m + 1) + 10) + 1 by omega, run_pba_eof hc hn]
    simp only [pickErr_none, Bool.false_eq_true, ↓reduceIte, Res.alts, seqAlts]
    rw [seqParse]
    simp only [hl2, hlc, pickErr_none, ↓reduceIte]
    refine ⟨{ ss with result := appendNode ss.result (.one (handleResult sentSh (m + 2) [h, .eof (m + 2)])) },
      ?_, ?_, rfl⟩
    · simp [Node.rpos, Node.token, eofTok]
    · cases hs : ss.result <;> simp [appendNode, Res.isNil]
  cases hrest : Rlist m with
  | nil =>
    obtain ⟨ss', k1, k2, k3⟩ := key { cp := cpUnion [] [0] } []
    simp only [resOf, Res.alts, k1, k2, Bool.false_eq_true, ↓reduceIte]
    refine ⟨_, _, rfl, k2, rfl, ?_⟩
    rw [(setError_ctxErr _ _).2.2.2.2]
    show st1.calls + 1 = _
    rw [h2]; simp [St.regCall]; omega
  | cons y rest =>
    obtain ⟨ss', k1, k2, k3⟩ := key { cp := cpUnion [] [0] } (y :: rest)
    simp only [resOf, Res.alts, k1, k2, Bool.false_eq_true, ↓reduceIte]
    refine ⟨_, _, rfl, k2, rfl, ?_⟩
    rw [(setError_ctxErr _ _).2.2.2.2]
    show st1.calls + 1 = _
    rw [h2]; simp [St.regCall]; omega

theorem lvlCost_closed : ∀ m, 2 * lvlCost m = m * m + 5 * m := by
  intro m
  induction m with
  | zero => rfl
  | succ m ih =>
    have : (m + 1) * (m + 1) = m * m + 2 * m + 1 := by
      rw [Nat.add_mul, Nat.mul_add]; omega
    rw [lvlCost, this]; omega

/-- the closed form -/
def pbaCalls (n : Nat) : Nat := (n * n + 9 * n + 16) / 2

theorem pba_total (n : Nat) : lvlCost n + 2 * n + 8 = pbaCalls n := by
  have := lvlCost_closed n
  unfold pbaCalls
  omega

/-- **the closed form for `P → P b | a`**, for every configuration whose grammar table is `[Memoize(P b | a)]`
    and whose file holds `a b^(n-1)` at base offset 1 (any ghost flag, any file set, any terminal parameters) -/
theorem pba_parse (hc : IsPbA n cfg) (hn : 1 ≤ n) :
    ∃ p, parse cfg (4 * n + 12) (G.sentence (.ref 0)) = some p ∧ p.err = none ∧ p.res.isNil = false ∧
      p.st.calls = pbaCalls n := by
  obtain ⟨o, st', h1, h2, h3, h4⟩ := pba_sentence hc hn {} rfl
  have hpos : cfg.file.pos 0 = 1 := by rw [hc.file]; rfl
  simp only [parse, hpos, h1, h2, h3]
  refine ⟨_, rfl, rfl, h2, ?_⟩
  show st'.calls = _
  rw [h4, ← pba_total n]
  show 0 + _ + _ + _ = _
  omega

def pbaCfg (n : Nat) : Cfg :=
  { env := pbaEnv, file := pbaFile n, fileSet := {},
    params := { floatOk := fun _ => true, durErr := fun _ => none, regexp := fun _ _ => none } }

theorem pbaCfg_is (n : Nat) : IsPbA n (pbaCfg n) := ⟨rfl, rfl, rfl⟩
end PV.C17
