/-
  `Re.run` against the declarative language `Re.Matches` (Spec/Regex.lean): with enough fuel the candidate list
  contains exactly the lengths of the matching prefixes; hence `Re.first` answers a match, and answers `none` only
  when there is none.  Also: a class all of whose members are ASCII matches the same read byte-wise or rune-wise.
-/
import ParsleyVerif.Proofs.RegexChar
namespace PV
open PV.Text
open Rx
namespace Rx

theorem Matches_le {r : Re} {l : Bytes} {k : Nat} (h : Re.Matches r l k) : k ≤ l.length := by
  induction h with
  | byte _ => simp
  | rune hne _ => exact (Utf8.decodeRune_width _ hne).2
  | eps => omega
  | seq _ _ ih1 ih2 => rw [List.length_drop] at ih2; omega
  | altL _ ih => exact ih
  | altR _ ih => exact ih
  | star0 => omega
  | starS _ _ ih1 ih2 => rw [List.length_drop] at ih2; omega

theorem starRun_sound (a : Re) (ra : Bytes → List Nat) (hra : ∀ l i, i ∈ ra l → Re.Matches a l i) :
    ∀ (f : Nat) (l : Bytes) (k : Nat), k ∈ starRun ra f l → Re.Matches (.star a) l k := by
  intro f
  induction f with
  | zero => intro l k h; simp [starRun] at h; subst h; exact .star0
  | succ f ih =>
    intro l k h
    rw [starRun, List.mem_append, List.mem_flatMap] at h
    rcases h with ⟨i, hi, hk⟩ | h
    · rw [List.mem_map] at hk
      obtain ⟨j, hj, rfl⟩ := hk
      exact .starS (hra l i (List.mem_filter.mp hi).1) (ih _ _ hj)
    · simp at h; subst h; exact .star0

theorem run_sound : ∀ (r : Re) (f : Nat) (l : Bytes) (k : Nat), k ∈ r.run f l → Re.Matches r l k := by
  intro r
  induction r with
  | byte p =>
    intro f l k h
    cases l with
    | nil => simp at h
    | cons b t =>
      rw [run_byte_cons] at h
      by_cases hp : p b = true
      · rw [if_pos hp] at h; simp at h; subst h; exact .byte hp
      · rw [if_neg hp] at h; simp at h
  | rune p =>
    intro f l k h
    cases l with
    | nil => cases h
    | cons b t =>
      have e : (Re.rune p).run f (b :: t) =
        if p (Utf8.decodeRune (b :: t)).1 then [(Utf8.decodeRune (b :: t)).2] else [] := rfl
      rw [e] at h
      by_cases hp : p (Utf8.decodeRune (b :: t)).1 = true
      · rw [if_pos hp] at h; simp at h; subst h; exact .rune (by simp) hp
      · rw [if_neg hp] at h; simp at h
  | eps => intro f l k h; simp at h; subst h; exact .eps
  | seq a b iha ihb =>
    intro f l k h
    rw [run_seq, List.mem_flatMap] at h
    obtain ⟨i, hi, hk⟩ := h
    rw [List.mem_map] at hk
    obtain ⟨j, hj, rfl⟩ := hk
    exact .seq (iha f l i hi) (ihb f _ j hj)
  | alt a b iha ihb =>
    intro f l k h
    rw [run_alt, List.mem_append] at h
    rcases h with h | h
    · exact .altL (iha f l k h)
    · exact .altR (ihb f l k h)
  | star a iha =>
    intro f l k h
    exact starRun_sound a (a.run f) (fun l i hi => iha f l i hi) f l k h

theorem zero_mem_starRun (ra : Bytes → List Nat) (f : Nat) (l : Bytes) : 0 ∈ starRun ra f l := by
  cases f <;> simp [starRun]

theorem run_complete_aux {r : Re} {l : Bytes} {k : Nat} (h : Re.Matches r l k) :
    (∀ F, l.length ≤ F → k ∈ r.run F l) ∧
    (∀ a, r = .star a → ∀ F f, l.length ≤ f → f ≤ F → k ∈ starRun (a.run F) f l) := by
  induction h with
  | byte hp => exact ⟨fun F _ => by simp [hp], fun a e => by cases e⟩
  | @rune p l hne hp =>
    refine ⟨fun F _ => ?_, fun a e => by cases e⟩
    cases l with
    | nil => exact absurd rfl hne
    | cons b t =>
      have e : (Re.rune p).run F (b :: t) =
        if p (Utf8.decodeRune (b :: t)).1 then [(Utf8.decodeRune (b :: t)).2] else [] := rfl
      rw [e, if_pos hp]; simp
  | eps => exact ⟨fun F _ => by simp, fun a e => by cases e⟩
  | @seq a b l i j _ _ ih1 ih2 =>
    refine ⟨fun F hF => ?_, fun a e => by cases e⟩
    rw [run_seq, List.mem_flatMap]
    exact ⟨i, ih1.1 F hF, List.mem_map.mpr ⟨j, ih2.1 F (by simp; omega), rfl⟩⟩
  | altL _ ih => exact ⟨fun F hF => by rw [run_alt]; exact List.mem_append_left _ (ih.1 F hF), fun a e => by cases e⟩
  | altR _ ih => exact ⟨fun F hF => by rw [run_alt]; exact List.mem_append_right _ (ih.1 F hF), fun a e => by cases e⟩
  | star0 => exact ⟨fun F _ => zero_mem_starRun _ _ _, fun a _ F f _ _ => zero_mem_starRun _ _ _⟩
  | @starS a l i j h1 _ ih1 ih2 =>
    have key : ∀ F f, l.length ≤ f → f ≤ F → i + j ∈ starRun (a.run F) f l := by
      intro F f hf hF
      by_cases hi : i = 0
      · subst hi
        have := ih2.2 a rfl F f (by simpa using hf) hF
        simpa using this
      · have hil := Matches_le h1
        cases f with
        | zero => omega
        | succ f =>
          rw [starRun, List.mem_append, List.mem_flatMap]
          refine Or.inl ⟨i, List.mem_filter.mpr ⟨ih1.1 F (by omega), by simp; omega⟩, ?_⟩
          exact List.mem_map.mpr ⟨j, ih2.2 a rfl F f (by simp; omega) (by omega), rfl⟩
    exact ⟨fun F hF => key F F hF (Nat.le_refl _), fun a' e => by cases e; exact key⟩

/-- the candidates of `run` are exactly the lengths of the prefixes in the language of the expression -/
theorem mem_run_iff (r : Re) (f : Nat) (l : Bytes) (k : Nat) (h : l.length ≤ f) :
    k ∈ r.run f l ↔ Re.Matches r l k :=
  ⟨run_sound r f l k, fun m => (run_complete_aux m).1 f h⟩

/-- what `first` returns is a match; if there is any match, `first` returns one -/
theorem first_matches (r : Re) (l : Bytes) (k : Nat) (h : r.first l = some k) : Re.Matches r l k :=
  run_sound r l.length l k (List.mem_of_mem_head? h)

theorem first_none_iff (r : Re) (l : Bytes) : r.first l = none ↔ ∀ k, ¬ Re.Matches r l k := by
  unfold Re.first
  rw [List.head?_eq_none_iff]
  constructor
  · intro h k m
    have := (mem_run_iff r l.length l k (Nat.le_refl _)).2 m
    rw [h] at this; cases this
  · intro h
    cases hr : r.run l.length l with
    | nil => rfl
    | cons k ks =>
      exact absurd ((mem_run_iff r l.length l k (Nat.le_refl _)).1 (by rw [hr]; simp)) (h k)


/-- a class with ASCII members only: reading one rune (as Go does) and reading one byte are the same thing -/
theorem run_rune_ascii (p : Nat → Bool) (hp : ∀ r, p r = true → r < 0x80) (f : Nat) (l : Bytes) :
    (Re.rune p).run f l = (Re.byte p).run f l := by
  cases l with
  | nil => rfl
  | cons c t =>
    rw [run_rune_cons, run_byte_cons]
    by_cases hc : c < 0x80
    · rw [decodeRune_ascii c t hc]
    · have h1 : ¬ p c = true := fun h => hc (hp c h)
      have h2 : ¬ p (Utf8.decodeRune (c :: t)).1 = true := fun h => by
        have := hp _ h; have := decodeRune_fst_ge c t hc; omega
      rw [if_neg h1, if_neg h2]

end Rx
end PV
