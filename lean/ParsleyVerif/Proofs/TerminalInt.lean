/-
  C08 helper lemmas, part 5: strconv.ParseInt(lexeme, 0, 64) as modelled (`parseInt0`) against the
  mathematical value of an integer literal (`Lang.intValue`, positional, base chosen by the prefix).
-/
import ParsleyVerif.Spec.Lang
import ParsleyVerif.Proofs.Terminal
namespace PV
open PV.Text

theorem digitVal_eq (b : Nat) : digitVal b = Lang.digitValue b := by
  unfold digitVal Lang.digitValue isDigit
  by_cases c1 : 48 ≤ b ∧ b ≤ 57
  · rw [if_pos c1, if_pos (by simpa using c1)]
  · rw [if_neg c1, if_neg (by simpa using c1)]
    by_cases c2 : 97 ≤ b ∧ b ≤ 102
    · rw [if_pos c2, if_pos (by simpa using c2)]; omega
    · rw [if_neg c2, if_neg (by simpa using c2)]
      by_cases c3 : 65 ≤ b ∧ b ≤ 70
      · rw [if_pos c3, if_pos (by simpa using c3)]; omega
      · rw [if_neg c3, if_neg (by simpa using c3)]

theorem foldl_digits (base : Nat) : ∀ (l : Bytes) (acc : Nat),
    l.foldl (fun acc b => acc * base + digitVal b) acc = acc * base ^ l.length + Lang.digitsValue base l := by
  intro l
  induction l with
  | nil => intro acc; simp [Lang.digitsValue]
  | cons b r ih =>
    intro acc
    rw [List.foldl_cons, ih, Lang.digitsValue, digitVal_eq, List.length_cons, Nat.pow_succ, Nat.add_mul,
      Nat.mul_assoc, Nat.mul_comm base, Nat.add_assoc]

/-- the left-to-right accumulation of ParseInt is the positional value -/
theorem natOfDigits_eq (base : Nat) (l : Bytes) : natOfDigits base l = Lang.digitsValue base l := by
  unfold natOfDigits; rw [foldl_digits]; simp

/-- the magnitude as `parseInt0` computes it -/
def magOf (body : Bytes) : Nat :=
  match body with
  | 48 :: x :: r => if (x = 120 || x = 88) && body.length ≥ 3 then natOfDigits 16 r else natOfDigits 8 (x :: r)
  | _ => natOfDigits 10 body

def isNeg : Bytes → Bool
  | 45 :: _ => true
  | _ => false

theorem parseInt0_eq (l : Bytes) : parseInt0 l =
    if isNeg l = true
    then (if magOf (l.drop (signLen l)) ≤ 2 ^ 63 then some (-(magOf (l.drop (signLen l)) : Int)) else none)
    else (if magOf (l.drop (signLen l)) < 2 ^ 63 then some (magOf (l.drop (signLen l)) : Int) else none) := rfl

theorem all_octDigit_head (x : Nat) (r : Bytes) (h : Lang.star Lang.octDigit (x :: r) = true) : 48 ≤ x ∧ x ≤ 55 := by
  unfold Lang.star at h
  simp [Lang.octDigit] at h
  exact h.1

/-- on the bodies of the integer syntax the model's base selection is the documented one -/
theorem magOf_eq (body : Bytes) (h : Lang.isIntBody body = true) : magOf body = Lang.magnitude body := by
  unfold Lang.isIntBody at h
  simp only [Bool.or_eq_true] at h
  match body, h with
  | [], h => simp [Lang.decimalLit, Lang.hexLit, Lang.octalLit] at h
  | [d], h =>
    by_cases hd : d = 48
    · subst hd
      have : Lang.hexLit [48] = false := rfl
      have h2 : Lang.octalLit [48] = true := rfl
      simp only [Lang.magnitude, this, h2, if_true, Bool.false_eq_true, if_false]
      rfl
    · have h1 : Lang.hexLit [d] = false := by unfold Lang.hexLit; split <;> simp_all
      have h2 : Lang.octalLit [d] = false := by unfold Lang.octalLit; split <;> simp_all
      simp only [Lang.magnitude, h1, h2, Bool.false_eq_true, if_false]
      unfold magOf
      split
      · rename_i heq; simp at heq
      · exact natOfDigits_eq 10 _
  | d :: x :: r, h =>
    by_cases hd : d = 48
    · subst hd
      have hdec : Lang.decimalLit (48 :: x :: r) = false := by simp [Lang.decimalLit, Lang.nzDigit]
      rw [hdec] at h
      simp only [Bool.false_eq_true, false_or] at h
      have e : magOf (48 :: x :: r) =
          if (x = 120 || x = 88) && (48 :: x :: r).length ≥ 3 then natOfDigits 16 r else natOfDigits 8 (x :: r) := rfl
      rw [e]
      by_cases hh : Lang.hexLit (48 :: x :: r) = true
      · have hh' := hh
        simp only [Lang.hexLit, Lang.plus1, Bool.and_eq_true, Bool.not_eq_true', List.isEmpty_eq_false_iff] at hh'
        obtain ⟨hx, hne, _⟩ := hh'
        have hlen : (48 :: x :: r).length ≥ 3 := by
          cases r with
          | nil => exact absurd rfl hne
          | cons _ _ => simp
        rw [if_pos (by simp only [Bool.and_eq_true, decide_eq_true_eq]; exact ⟨hx, hlen⟩)]
        simp only [Lang.magnitude, hh, if_true]
        exact natOfDigits_eq 16 _
      · have ho : Lang.octalLit (48 :: x :: r) = true := by
          rcases h with h | h
          · exact absurd h hh
          · exact h
        have hx := all_octDigit_head x r (by simpa [Lang.octalLit] using ho)
        rw [if_neg (by simp; omega)]
        simp only [Lang.magnitude, hh, ho, Bool.false_eq_true, if_false, if_true]
        exact natOfDigits_eq 8 _
    · have h1 : Lang.hexLit (d :: x :: r) = false := by unfold Lang.hexLit; split <;> simp_all
      have h2 : Lang.octalLit (d :: x :: r) = false := by unfold Lang.octalLit; split <;> simp_all
      simp only [Lang.magnitude, h1, h2, Bool.false_eq_true, if_false]
      unfold magOf
      split
      · rename_i heq; simp at heq; exact absurd heq.1 hd
      · exact natOfDigits_eq 10 _

/-- a body of the integer syntax starts with a digit -/
theorem isIntBody_head (body : Bytes) (h : Lang.isIntBody body = true) : ∃ d r, body = d :: r ∧ 48 ≤ d ∧ d ≤ 57 := by
  unfold Lang.isIntBody at h
  simp only [Bool.or_eq_true] at h
  cases body with
  | nil => simp [Lang.decimalLit, Lang.hexLit, Lang.octalLit] at h
  | cons d r =>
    refine ⟨d, r, rfl, ?_⟩
    rcases h with (h | h) | h
    · simp [Lang.decimalLit, Lang.nzDigit] at h; omega
    · unfold Lang.hexLit at h; split at h
      · rename_i heq; cases heq; omega
      · cases h
    · unfold Lang.octalLit at h; split at h
      · rename_i heq; cases heq; omega
      · cases h

theorem two63 : (2 : Nat) ^ 63 = 9223372036854775808 := by decide

/-- **parseInt0_spec**: on a lexeme of the integer syntax, ParseInt succeeds with `v` iff `v` is the
    mathematical value of the literal and fits in 64 bits (two's complement) -/
theorem parseInt0_spec (l : Bytes) (h : Lang.IsInt l) (v : Int) :
    parseInt0 l = some v ↔ (v = Lang.intValue l ∧ -(2 : Int) ^ 63 ≤ v ∧ v < (2 : Int) ^ 63) := by
  have p63 : (2 : Int) ^ 63 = 9223372036854775808 := by decide
  unfold Lang.IsInt Lang.isInt Lang.optSign at h
  simp only [Bool.or_eq_true] at h
  rw [parseInt0_eq, p63, two63]
  rcases h with h | h
  · obtain ⟨d, r, hb, hd1, hd2⟩ := isIntBody_head l h
    subst hb
    have hs : signLen (d :: r) = 0 := by
      unfold signLen; split
      · rename_i heq; cases heq; omega
      · rename_i heq; cases heq; omega
      · rfl
    have hneg : isNeg (d :: r) = false := by
      unfold isNeg; split
      · rename_i heq; cases heq; omega
      · rfl
    have hv : Lang.intValue (d :: r) = (Lang.magnitude (d :: r) : Int) := by
      unfold Lang.intValue; split
      · rename_i heq; cases heq; omega
      · rename_i heq; cases heq; omega
      · rfl
    rw [hs, hneg, hv, List.drop_zero, magOf_eq _ h]
    simp only [Bool.false_eq_true, if_false]
    split
    · simp only [Option.some.injEq]; omega
    · simp only [reduceCtorEq, false_iff]; omega
  · cases l with
    | nil => simp at h
    | cons b r =>
      simp only [Bool.and_eq_true] at h
      obtain ⟨hsg, hbody⟩ := h
      simp only [Lang.sign, Bool.or_eq_true, decide_eq_true_eq] at hsg
      rcases hsg with hsg | hsg
      · subst hsg
        have hs : signLen (45 :: r) = 1 := rfl
        have hv : Lang.intValue (45 :: r) = -(Lang.magnitude r : Int) := rfl
        have hneg : isNeg (45 :: r) = true := rfl
        rw [hs, hv, hneg]
        simp only [List.drop_succ_cons, List.drop_zero, if_true, magOf_eq _ hbody]
        split
        · simp only [Option.some.injEq]; omega
        · simp only [reduceCtorEq, false_iff]; omega
      · subst hsg
        have hs : signLen (43 :: r) = 1 := rfl
        have hv : Lang.intValue (43 :: r) = (Lang.magnitude r : Int) := rfl
        have hneg : isNeg (43 :: r) = false := rfl
        rw [hs, hv, hneg]
        simp only [List.drop_succ_cons, List.drop_zero, Bool.false_eq_true, if_false, magOf_eq _ hbody]
        split
        · simp only [Option.some.injEq]; omega
        · simp only [reduceCtorEq, false_iff]; omega

end PV
