import ParsleyVerif.Model.Search
namespace PV

theorem goSearchLoop_spec (f : Nat → Bool) (n : Nat)
    (mono : ∀ a b, a ≤ b → b < n → f a = true → f b = true) :
    ∀ fuel i j, i ≤ j → j ≤ n → j - i ≤ fuel → (∀ k, k < i → f k = false) → (j < n → f j = true) →
      goSearchLoop f fuel i j ≤ n ∧ (∀ k, k < goSearchLoop f fuel i j → f k = false) ∧
      (goSearchLoop f fuel i j < n → f (goSearchLoop f fuel i j) = true) := by
  intro fuel
  induction fuel with
  | zero =>
    intro i j hij hjn hf hlo hhi
    have : i = j := by omega
    subst this
    simp only [goSearchLoop]
    exact ⟨hjn, hlo, hhi⟩
  | succ fuel ih =>
    intro i j hij hjn hf hlo hhi
    unfold goSearchLoop
    by_cases hlt : i < j
    · simp only [hlt, if_true]
      have hh1 : i ≤ (i + j) / 2 := by omega
      have hh2 : (i + j) / 2 < j := by omega
      cases hfh : f ((i + j) / 2) with
      | false =>
        simp only [Bool.not_false, if_true]
        apply ih
        · omega
        · exact hjn
        · omega
        · intro k hk
          by_cases hk' : k < i
          · exact hlo k hk'
          · -- i ≤ k ≤ h and f h = false; if f k were true, monotonicity gives f h = true
            cases hfk : f k with
            | false => rfl
            | true =>
              have := mono k ((i + j) / 2) (by omega) (by omega) hfk
              rw [hfh] at this; exact absurd this (by simp)
        · exact hhi
      | true =>
        simp only [Bool.not_true, Bool.false_eq_true, if_false]
        apply ih
        · exact hh1
        · omega
        · omega
        · exact hlo
        · intro _; exact hfh
    · simp only [hlt, if_false]
      have : i = j := by omega
      subst this
      exact ⟨hjn, hlo, hhi⟩

/-- sort.Search returns the least index at which a monotone predicate holds (or n) -/
theorem goSearch_spec (f : Nat → Bool) (n : Nat)
    (mono : ∀ a b, a ≤ b → b < n → f a = true → f b = true) :
    goSearch n f ≤ n ∧ (∀ k, k < goSearch n f → f k = false) ∧ (goSearch n f < n → f (goSearch n f) = true) := by
  unfold goSearch
  apply goSearchLoop_spec f n mono
  · omega
  · omega
  · omega
  · intro k hk; omega
  · intro h; omega

/-- uniqueness: the least index is determined -/
theorem goSearch_unique (f : Nat → Bool) (n r : Nat)
    (mono : ∀ a b, a ≤ b → b < n → f a = true → f b = true)
    (hr : r ≤ n) (hlo : ∀ k, k < r → f k = false) (hhi : r < n → f r = true) :
    goSearch n f = r := by
  obtain ⟨h1, h2, h3⟩ := goSearch_spec f n mono
  by_cases hlt : goSearch n f < r
  · have := hlo _ hlt
    have := h3 (by omega)
    simp_all
  · by_cases hgt : r < goSearch n f
    · have := h2 _ hgt
      have := hhi (by omega)
      simp_all
    · omega

end PV
