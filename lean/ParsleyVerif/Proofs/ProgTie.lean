/-
  THE TIE of the statement-level translator, data package: each hand-written model function of Model/Data.lean
  equals, as a function on heaps, the Lean definition that `factgen -out-prog` translates from the Go source on every
  run (Generated/FactsProg.lean).  "Equals": run on the model's heap (lifted into the translator's state, `sl` / a map
  handle), the translated function ends in `Res.ok` — no panic, enough fuel — with exactly the heap and the result the
  model computes.  The proofs unfold the generated definitions, case-split on SEMANTIC facts (is the index inside the
  slice, which of the two heads is smaller, …) and let `simp` + `omega` decide the generated conditions under those
  facts, so a logically equivalent rewrite of a condition or a renaming does not disturb them, while a changed
  comparison, a dropped check, a different constant or a missing bounds guard does.
-/
import ParsleyVerif.Proofs.ProgTieBasics
import ParsleyVerif.Generated.FactsProg
set_option linter.unusedSimpArgs false
namespace PV.ProgTie
open PV.ProgPrelude PV.FactsProg

/-- decides the generated conditions from the facts in the context (linear arithmetic, by `omega`), whatever their
    syntactic form, and evaluates in-range reads -/
macro "go_decide" : tactic => `(tactic|
  simp (disch := first | omega | assumption) only [dec_true, dec_false, ite_pos', ite_neg',
    Bool.true_or, Bool.false_or, Bool.or_true, Bool.or_false, Bool.true_and, Bool.false_and, Bool.and_true, Bool.and_false,
    Bool.not_true, Bool.not_false, Bool.false_eq_true, eq_self, if_true, if_false, idx_sl, len_sl, Int.toNat_natCast,
    ite_apply, bind_apply, pure_apply])

/-- nothing the translator was asked for in the data package is missing -/
def dataFunctions : List String :=
  ["IntSet_Len", "IntSet_insertValue", "IntSet_Insert", "IntSet_Union", "IntSet_Each", "NewIntSet", "NewIntMap",
   "IntMap_clone", "IntMap_Get", "IntMap_Keys", "IntMap_Inc", "IntMap_Filter"]

theorem tie_data_translated : dataFunctions.all (fun f => FactsProg.translatedProg.contains f) = true := by decide

theorem tie_Len (s : Data.Slice) (st : St) : IntSet_Len ⟨sl s⟩ st = .ok (s.len : Int) st := rfl

theorem append_len (g : Nat → Nat) (h : Data.Heap) (s : Data.Slice) (v : Int) : (Data.append g h s v).2.len = s.len + 1 := by
  unfold Data.append; split <;> rfl

theorem copy_shift' (h : Data.Heap) (mh : Data.MHeap) (g : Nat → Nat) (d s : Sl) (hA : d.arr = s.arr) (ho : d.off = s.off + 1)
    (hl : d.len + 1 = s.len) :
    Go.copy d s ⟨h, mh, g⟩ =
      .ok (d.len : Int) ⟨Data.setCells h s.arr (Data.copyShift (Data.cells h s.arr) s.off (s.off + d.len)), mh, g⟩ := by
  obtain ⟨da, dof, dl, dc, dn⟩ := d
  obtain ⟨sa, so, sl', sc, sn⟩ := s
  simp only at hA ho hl
  subst hA ho hl
  have := copy_shift h mh g da so (so + dl) dc sc dn sn (by omega)
  simp only [Nat.zero_add] at this
  have e1 : so + dl + 1 - (so + 1) = dl := by omega
  have e2 : so + dl + 1 - so = dl + 1 := by omega
  have e3 : so + dl - so = dl := by omega
  rw [e1, e2, e3] at this
  exact this

theorem setIdx_ok (s : Sl) (i v : Int) (st : St) (h0 : 0 ≤ i) (h1 : i < s.len)
    (hc : s.off + i.toNat < (cells st s.arr).length) :
    Go.setIdx s i v st = .ok () { st with arrays := st.arrays.modify s.arr (fun c => c.set (s.off + i.toNat) v) } := by
  simp only [Go.setIdx]
  rw [if_pos ⟨h0, h1, hc⟩]

theorem copyShift_length (c : List Int) (i n : Nat) (hi : i ≤ n) (hn : n + 1 ≤ c.length) :
    (Data.copyShift c i n).length = c.length := by
  simp [Data.copyShift]; omega

theorem cells_setCells (h : Data.Heap) (a : Nat) (c : List Int) (ha : a < h.length) :
    Data.cells (Data.setCells h a c) a = c := by
  simp [Data.setCells, Data.cells_modify_same _ _ _ ha]

set_option hygiene false in
/-- evaluates the "make room and store" tail of insertValue (`al`, `hc`, `g1` are facts of the enclosing proof) -/
macro "insert_tail" : tactic => `(tactic| (
  simp (disch := first | omega | rfl | assumption | (simp only [sl_len, sl_off, sl_arr, al]; first | done | omega)) only
    [append_sl, sliceFrom_sl, copy_shift', Bool.false_eq_true, if_false]
  simp only [sl_len, sl_off, sl_arr, al, Int.toNat_natCast, Int.toNat_natCast_add_one, Nat.zero_add,
    show index + (s.len + 1 - (index + 1)) = s.len by omega]
  rw [setIdx_ok _ _ _ _ (by omega) (by simp only [sl_len, al]; omega) hc]
  simp [Data.writeCell]))

theorem tie_insertValue (g : Nat → Nat) (h : Data.Heap) (mh : Data.MHeap) (s : Data.Slice) (v : Int)
    (w : Data.SWF h s) (hs : (Data.view h s).Pairwise (· < ·)) :
    IntSet_insertValue ⟨sl s⟩ v ⟨h, mh, g⟩ =
      .ok ⟨sl (Data.insertValue g h s v).2⟩ ⟨(Data.insertValue g h s v).1, mh, g⟩ := by
  obtain ⟨g1, g2, g3⟩ := Data.goSearchInts_spec (Data.view h s) v hs
  have hl := view_length w
  rw [hl] at g1
  generalize hidx : goSearchInts (Data.view h s) v = index at g1 g2 g3
  obtain ⟨a1, _, _, _, al⟩ := Data.append_spec g h s 0 w 0 (Nat.zero_le _)
  have hc : (sl (Data.append g h s 0).2).off + (index : Int).toNat <
      (cells ⟨Data.setCells (Data.append g h s 0).1 (Data.append g h s 0).2.arr
        (Data.copyShift (Data.cells (Data.append g h s 0).1 (Data.append g h s 0).2.arr) index s.len), mh, g⟩
        (sl (Data.append g h s 0).2).arr).length := by
    have := a1.2.1; have := a1.2.2
    simp only [sl_off, sl_arr, cells_mk, cells_setCells _ _ _ a1.1, Int.toNat_natCast]
    rw [copyShift_length _ _ _ g1 (by omega)]
    omega
  simp only [IntSet_insertValue, bind_apply, searchInts_sl h mh g s v hs, hidx, Data.insertValue]
  simp only [ite_apply, bind_apply, pure_apply]
  by_cases c1 : index < s.len
  · by_cases c2 : (Data.view h s).getD index 0 = v
    · go_decide
    · go_decide
      insert_tail
  · go_decide
    insert_tail

/-! ### Insert -/

theorem litSlice_one (h : Data.Heap) (mh : Data.MHeap) (g : Nat → Nat) (v : Int) :
    Go.litSlice [v] ⟨h, mh, g⟩ = .ok (sl { arr := h.length, len := 1, cap := 1 }) ⟨h ++ [[v]], mh, g⟩ := rfl

/-- the fresh copy `Insert` works on: well-formed, and it shows the receiver's elements -/
theorem copyInto_fresh (h : Data.Heap) (s : Data.Slice) (w : Data.SWF h s) :
    Data.SWF (Data.make h s.len (s.len + 1)).1 s ∧
    Data.SWF (Data.copyInto (Data.make h s.len (s.len + 1)).1 (Data.make h s.len (s.len + 1)).2 s)
      (Data.make h s.len (s.len + 1)).2 ∧
    Data.view (Data.copyInto (Data.make h s.len (s.len + 1)).1 (Data.make h s.len (s.len + 1)).2 s)
      (Data.make h s.len (s.len + 1)).2 = Data.view h s := by
  obtain ⟨m1, m2, m3, m4, m5⟩ := Data.make_spec h s.len (s.len + 1) (Nat.le_succ _)
  generalize Data.make h s.len (s.len + 1) = mk at m1 m2 m3 m4 m5
  obtain ⟨h1, s2⟩ := mk
  simp only at m1 m2 m3 m4 m5 ⊢
  have hvl := view_length w
  have hv1 : Data.view h1 s = Data.view h s := m2.view_eq s w.1
  have hs2 : s2.arr < h1.length := m1.1
  have hc : Data.cells (Data.copyInto h1 s2 s) s2.arr = Data.view h s ++ [0] := by
    simp only [Data.copyInto, Data.setCells, Data.cells_modify_same _ _ _ hs2, hv1]
    rw [m3, m5]
    simp
  refine ⟨m2.swf w w.1, ⟨by simp [Data.copyInto, Data.setCells]; exact hs2, m1.2.1, ?_⟩, ?_⟩
  · rw [hc]; simp [hvl]
    have := m1.2.2; rw [m3, m5] at this; simp at this; omega
  · show List.take s2.len _ = _
    rw [hc, m4, List.take_append_of_le_length (by omega), List.take_of_length_le (by omega)]

theorem tie_Insert (g : Nat → Nat) (h : Data.Heap) (mh : Data.MHeap) (s : Data.Slice) (v : Int)
    (w : Data.SWF h s) (hs : (Data.view h s).Pairwise (· < ·)) :
    IntSet_Insert ⟨sl s⟩ v ⟨h, mh, g⟩ =
      .ok ⟨sl (Data.insert g h s v).2⟩ ⟨(Data.insert g h s v).1, mh, g⟩ := by
  obtain ⟨f1, f2, f3⟩ := copyInto_fresh h s w
  simp only [IntSet_Insert, Data.insert]
  simp only [ite_apply, bind_apply, pure_apply]
  simp only [len_sl]
  by_cases c : s.len = 0
  · go_decide
    simp only [litSlice_one]
  · go_decide
    rw [mkSlice_sl _ _ _ _ _ (by omega) (by omega)]
    simp only [Int.toNat_natCast, Int.toNat_natCast_add_one]
    rw [copy_sl_into _ _ _ (Data.make h s.len (s.len + 1)).2 s f1 rfl]
    simp only []
    rw [tie_insertValue g _ mh _ v f2 (by rw [f3]; exact hs)]

/-! ### Union -/

/-- the translated merge loop, started anywhere, with any sufficient fuel, does what the model's loop does; it ends with
    both cursors at the ends.  `h0` is the heap at the loop's entry: the operands live below `base` and are never
    written (`Frame`), the result slice lives at or above it. -/
theorem union_loop_tie (g : Nat → Nat) (mh : Data.MHeap) (h0 : Data.Heap) (s s2 : Data.Slice)
    (w : Data.SWF h0 s) (w2 : Data.SWF h0 s2) (base : Nat) (hb1 : s.arr < base) (hb2 : s2.arr < base) :
    ∀ (fuelT fuelM n1 n2 : Nat) (h : Data.Heap) (s3 : Data.Slice), Data.Frame base h0 h → Data.SWF h s3 → base ≤ s3.arr →
      n1 ≤ s.len → n2 ≤ s2.len → (s.len - n1) + (s2.len - n2) < fuelT → (s.len - n1) + (s2.len - n2) < fuelM →
      IntSet_Union_loop1 ⟨sl s⟩ ⟨sl s2⟩ fuelT ⟨sl s3⟩ n1 n2 ⟨h, mh, g⟩ =
        .ok (⟨sl (Data.unionLoop g (Data.view h0 s) (Data.view h0 s2) fuelM n1 n2 h s3).2⟩, (s.len : Int), (s2.len : Int))
          ⟨(Data.unionLoop g (Data.view h0 s) (Data.view h0 s2) fuelM n1 n2 h s3).1, mh, g⟩ := by
  intro fuelT
  induction fuelT with
  | zero => intro fuelM n1 n2 h s3 _ _ _ _ _ hf; omega
  | succ fuelT ih =>
    intro fuelM n1 n2 h s3 fr w3 hb3 hn1 hn2 hfT hfM
    cases fuelM with
    | zero => omega
    | succ fuelM =>
    have la := view_length w
    have lb := view_length w2
    have ws : Data.SWF h s := fr.swf w hb1
    have ws2 : Data.SWF h s2 := fr.swf w2 hb2
    have va : Data.view h s = Data.view h0 s := fr.view_eq s hb1
    have vb : Data.view h s2 = Data.view h0 s2 := fr.view_eq s2 hb2
    have tn : ∀ n : Nat, (n : Int).toNat = n := Int.toNat_natCast
    -- what a round does after it has appended `x`: the loop again, on the grown result slice (stated on the VALUE of the
    -- append, so that it applies however the source writes the append: in place, or in a helper that returns the set)
    have step : ∀ (x : Int) (m1 m2 : Nat) (i1 i2 : Int), i1 = m1 → i2 = m2 → m1 ≤ s.len → m2 ≤ s2.len →
        (s.len - m1) + (s2.len - m2) < fuelT → (s.len - m1) + (s2.len - m2) < fuelM →
        IntSet_Union_loop1 ⟨sl s⟩ ⟨sl s2⟩ fuelT ⟨sl (Data.append g h s3 x).2⟩ i1 i2 ⟨(Data.append g h s3 x).1, mh, g⟩ =
        .ok (⟨sl (Data.unionLoop g (Data.view h0 s) (Data.view h0 s2) fuelM m1 m2 (Data.append g h s3 x).1 (Data.append g h s3 x).2).2⟩,
              (s.len : Int), (s2.len : Int))
          ⟨(Data.unionLoop g (Data.view h0 s) (Data.view h0 s2) fuelM m1 m2 (Data.append g h s3 x).1 (Data.append g h s3 x).2).1, mh, g⟩ := by
      intro x m1 m2 i1 i2 e1 e2 hm1 hm2 hT hM
      subst e1 e2
      obtain ⟨p1, _, p3, p4, _⟩ := Data.append_spec g h s3 x w3 base hb3
      exact ih fuelM m1 m2 _ _ (fr.trans p3) p1 p4 hm1 hm2 hT hM
    rw [IntSet_Union_loop1, Data.unionLoop]
    simp only [ite_apply, bind_apply, pure_apply]
    simp only [len_sl, la, lb]
    rcases Nat.lt_or_ge n1 s.len with c1 | c1 <;> rcases Nat.lt_or_ge n2 s2.len with c2 | c2
    · -- both cursors inside: compare the heads
      rcases Int.lt_trichotomy ((Data.view h0 s).getD n1 0) ((Data.view h0 s2).getD n2 0) with c | c | c
      · go_decide; simp only [va, vb]; go_decide
        simp only [append_sl, bind_apply, pure_apply]
        refine step _ (n1 + 1) n2 _ _ ?_ ?_ ?_ ?_ ?_ ?_ <;> omega
      · go_decide; simp only [va, vb]; go_decide
        simp only [append_sl, bind_apply, pure_apply]
        refine step _ (n1 + 1) (n2 + 1) _ _ ?_ ?_ ?_ ?_ ?_ ?_ <;> omega
      · go_decide; simp only [va, vb]; go_decide
        simp only [append_sl, bind_apply, pure_apply]
        refine step _ n1 (n2 + 1) _ _ ?_ ?_ ?_ ?_ ?_ ?_ <;> omega
    · -- the second operand is exhausted
      go_decide; simp only [va]
      simp only [append_sl, bind_apply, pure_apply]
      refine step _ (n1 + 1) n2 _ _ ?_ ?_ ?_ ?_ ?_ ?_ <;> omega
    · -- the first operand is exhausted
      go_decide; simp only [vb]
      simp only [append_sl, bind_apply, pure_apply]
      refine step _ n1 (n2 + 1) _ _ ?_ ?_ ?_ ?_ ?_ ?_ <;> omega
    · -- both exhausted: the loop ends, the cursors are the lengths
      go_decide
      have e1 : n1 = s.len := by omega
      have e2 : n2 = s2.len := by omega
      rw [e1, e2]

/-- the same with the cursors as the `Int`s the translated loop carries -/
theorem union_loop_tie' (g : Nat → Nat) (mh : Data.MHeap) (h0 : Data.Heap) (s s2 : Data.Slice)
    (w : Data.SWF h0 s) (w2 : Data.SWF h0 s2) (base : Nat) (hb1 : s.arr < base) (hb2 : s2.arr < base)
    (fuelT fuelM n1 n2 : Nat) (i1 i2 : Int) (h : Data.Heap) (s3 : Data.Slice) (e1 : i1 = n1) (e2 : i2 = n2)
    (fr : Data.Frame base h0 h) (w3 : Data.SWF h s3) (hb3 : base ≤ s3.arr) (hn1 : n1 ≤ s.len) (hn2 : n2 ≤ s2.len)
    (hT : (s.len - n1) + (s2.len - n2) < fuelT) (hM : (s.len - n1) + (s2.len - n2) < fuelM) :
    IntSet_Union_loop1 ⟨sl s⟩ ⟨sl s2⟩ fuelT ⟨sl s3⟩ i1 i2 ⟨h, mh, g⟩ =
      .ok (⟨sl (Data.unionLoop g (Data.view h0 s) (Data.view h0 s2) fuelM n1 n2 h s3).2⟩, (s.len : Int), (s2.len : Int))
        ⟨(Data.unionLoop g (Data.view h0 s) (Data.view h0 s2) fuelM n1 n2 h s3).1, mh, g⟩ := by
  subst e1 e2
  exact union_loop_tie g mh h0 s s2 w w2 base hb1 hb2 fuelT fuelM n1 n2 h s3 fr w3 hb3 hn1 hn2 hT hM

/-- **Union.**  No sortedness is needed: on any two well-formed slices the translated function and the model do the
    same thing. -/
theorem tie_Union (g : Nat → Nat) (h : Data.Heap) (mh : Data.MHeap) (s s2 : Data.Slice)
    (w : Data.SWF h s) (w2 : Data.SWF h s2) :
    IntSet_Union ⟨sl s⟩ ⟨sl s2⟩ ⟨h, mh, g⟩ =
      .ok ⟨sl (Data.union g h s s2).2⟩ ⟨(Data.union g h s s2).1, mh, g⟩ := by
  simp only [IntSet_Union, Data.union]
  simp only [ite_apply, bind_apply, pure_apply]
  simp only [len_sl]
  by_cases e2 : s2.len = 0
  · go_decide
  · by_cases e1 : s.len = 0
    · go_decide
    · go_decide
      obtain ⟨m1, m2, m3, _, _⟩ := Data.make_spec h 0 (s.len + s2.len) (Nat.zero_le _)
      rw [mkSlice_sl _ _ _ _ _ (by omega) (by omega)]
      simp only [← Int.natCast_add, Int.toNat_natCast, Int.toNat_zero]
      try simp only [Nat.add_comm s2.len s.len]
      rw [union_loop_tie' g mh h s s2 w w2 h.length w.1 w2.1 _ (s.len + s2.len + 1) 0 0 0 0 _ _ rfl rfl m2 m1
        (by omega) (by omega) (by omega) (by omega) (by omega)]

/-! ### NewIntSet -/

/-- the insertion loop of NewIntSet (a `range` over the argument slice) is the model's fold of `insertValue`; the
    argument slice lives below `base` and is never written, the set under construction lives at or above it -/
theorem newIntSet_loop_tie (g : Nat → Nat) (mh : Data.MHeap) (h : Data.Heap) (vs : Data.Slice) (wv : Data.SWF h vs)
    (base : Nat) (hbv : vs.arr < base) :
    ∀ (fuel k : Nat) (p : Data.Heap × Data.Slice), Data.Frame base h p.1 → Data.SWF p.1 p.2 →
      (Data.view p.1 p.2).Pairwise (· < ·) → base ≤ p.2.arr → k ≤ vs.len → vs.len - k < fuel →
      NewIntSet_loop1 (sl vs) fuel ⟨sl p.2⟩ k ⟨p.1, mh, g⟩ =
        .ok (⟨sl (((Data.view h vs).drop k).foldl (fun (q : Data.Heap × Data.Slice) v => Data.insertValue g q.1 q.2 v) p).2⟩,
              (vs.len : Int))
          ⟨(((Data.view h vs).drop k).foldl (fun (q : Data.Heap × Data.Slice) v => Data.insertValue g q.1 q.2 v) p).1, mh, g⟩ := by
  intro fuel
  induction fuel with
  | zero => intro k p _ _ _ _ _ hf; omega
  | succ fuel ih =>
    intro k p fr w hs hb hk hf
    obtain ⟨hc, s⟩ := p
    simp only at fr w hs hb ⊢
    have lv := view_length wv
    have wvc : Data.SWF hc vs := fr.swf wv hbv
    have vv : Data.view hc vs = Data.view h vs := fr.view_eq vs hbv
    rw [NewIntSet_loop1]
    simp only [ite_apply, bind_apply, pure_apply]
    rcases Nat.lt_or_ge k vs.len with c | c
    · go_decide
      rw [tie_insertValue g hc mh s _ w hs]
      simp only []
      obtain ⟨i1, i2, i3, i4⟩ := Data.insertValue_spec g hc s ((Data.view hc vs).getD k 0) w hs base hb
      have := ih (k + 1) (Data.insertValue g hc s ((Data.view hc vs).getD k 0)) (fr.trans i3) i1
        (by rw [i2]; exact Data.sInsert_sorted _ _ hs) i4 (by omega) (by omega)
      rw [show ((k : Int) + 1) = ((k + 1 : Nat) : Int) by omega, this, Data.getD_drop _ k (by omega), List.foldl_cons, vv]
    · go_decide
      have e : k = vs.len := by omega
      rw [List.drop_of_length_le (by omega), e]
      rfl

/-- **NewIntSet**, called with a slice that reads as `values` -/
theorem tie_NewIntSet (g : Nat → Nat) (h : Data.Heap) (mh : Data.MHeap) (vs : Data.Slice) (wv : Data.SWF h vs) :
    NewIntSet (sl vs) ⟨h, mh, g⟩ =
      .ok ⟨sl (Data.newIntSet g h (Data.view h vs)).2⟩ ⟨(Data.newIntSet g h (Data.view h vs)).1, mh, g⟩ := by
  have lv := view_length wv
  obtain ⟨m1, m2, m3, m4, _⟩ := Data.make_spec h 0 vs.len (Nat.zero_le _)
  simp only [NewIntSet, Data.newIntSet, bind_apply, pure_apply, len_sl, lv]
  rw [mkSlice_sl _ _ _ _ _ (by omega) (by omega)]
  simp only [Int.toNat_natCast, Int.toNat_zero]
  have := newIntSet_loop_tie g mh h vs wv h.length wv.1 (vs.len + 1) 0 (Data.make h 0 vs.len) m2 m1
    (by rw [Data.view_nil_of_len0 _ _ m4]; simp) (by omega) (by omega) (by omega)
  simp only [Int.natCast_zero, List.drop_zero] at this
  simp only [this]

/-! ### IntMap -/

theorem tie_NewIntMap_nil (h : Data.Heap) (mh : Data.MHeap) (g : Nat → Nat) :
    NewIntMap none ⟨h, mh, g⟩ = .ok ⟨some mh.length⟩ ⟨h, mh ++ [[]], g⟩ := by
  simp only [NewIntMap]
  simp only [ite_apply, bind_apply, pure_apply]
  simp [mkMap_mk]

theorem tie_Get (h : Data.Heap) (mh : Data.MHeap) (g : Nat → Nat) (i : Nat) (k : Int) :
    IntMap_Get ⟨some i⟩ k ⟨h, mh, g⟩ = .ok (Data.get mh i k) ⟨h, mh, g⟩ := by
  simp only [IntMap_Get, bind_apply, pure_apply, mapGet_some, Data.get]

theorem mwrite_length (mh : Data.MHeap) (i : Nat) (k v : Int) : (Data.mwrite mh i k v).length = mh.length := by
  simp [Data.mwrite]

/-- the copy loop of `clone` (a `range` over the source map's entries) is the model's fold -/
theorem clone_loop_tie (h : Data.Heap) (g : Nat → Nat) (fresh : Nat) (kvs : List (Int × Int)) :
    ∀ (mh : Data.MHeap), fresh < mh.length →
      IntMap_clone_loop1 ⟨some fresh⟩ kvs ⟨h, mh, g⟩ =
        .ok () ⟨h, kvs.foldl (fun mh' kv => Data.mwrite mh' fresh kv.1 kv.2) mh, g⟩ := by
  induction kvs with
  | nil => intro mh _; rfl
  | cons kv kvs ih =>
    intro mh hf
    obtain ⟨k, v⟩ := kv
    rw [IntMap_clone_loop1]
    simp only [bind_apply, mapSet_some _ _ _ _ _ _ hf, List.foldl_cons]
    exact ih _ (by rw [mwrite_length]; exact hf)

theorem fold_mwrite_length (fresh : Nat) (kvs : List (Int × Int)) : ∀ (mh : Data.MHeap),
    (kvs.foldl (fun mh' kv => Data.mwrite mh' fresh kv.1 kv.2) mh).length = mh.length := by
  induction kvs with
  | nil => intro mh; rfl
  | cons kv kvs ih => intro mh; simp only [List.foldl_cons, ih, mwrite_length]

theorem mclone_fresh (mh : Data.MHeap) (i : Nat) : (Data.mclone mh i).2 = mh.length ∧ (Data.mclone mh i).1.length = mh.length + 1 := by
  simp [Data.mclone, fold_mwrite_length]

theorem mobj_append_nil (mh : Data.MHeap) (i : Nat) : Data.mobj (mh ++ [[]]) i = Data.mobj mh i := by
  simp only [Data.mobj, List.getD_eq_getElem?_getD]
  rcases Nat.lt_trichotomy i mh.length with hlt | heq | hgt
  · rw [List.getElem?_append_left hlt]
  · subst heq; simp
  · rw [List.getElem?_eq_none (by simp; omega), List.getElem?_eq_none (by omega)]

theorem tie_clone (h : Data.Heap) (mh : Data.MHeap) (g : Nat → Nat) (i : Nat) :
    IntMap_clone ⟨some i⟩ ⟨h, mh, g⟩ = .ok ⟨some (Data.mclone mh i).2⟩ ⟨h, (Data.mclone mh i).1, g⟩ := by
  simp only [IntMap_clone, bind_apply, pure_apply, mapLen_some, mkMap_mk, mapEntries_some]
  rw [clone_loop_tie h g mh.length _ _ (by simp), mobj_append_nil]
  rfl

theorem tie_Inc (h : Data.Heap) (mh : Data.MHeap) (g : Nat → Nat) (i : Nat) (k : Int) :
    IntMap_Inc ⟨some i⟩ k ⟨h, mh, g⟩ = .ok ⟨some (Data.inc mh i k).2⟩ ⟨h, (Data.inc mh i k).1, g⟩ := by
  obtain ⟨f1, f2⟩ := mclone_fresh mh i
  have hf : (Data.mclone mh i).2 < (Data.mclone mh i).1.length := by omega
  simp only [IntMap_Inc, Data.inc]
  simp only [ite_apply, bind_apply, pure_apply, tie_clone, mapGet2_some, mapGet_some]
  cases hm : Data.mget (Data.mobj (Data.mclone mh i).1 (Data.mclone mh i).2) k with
  | none => simp [mapSet_some _ _ _ _ _ _ hf]
  | some v => simp [mapSet_some _ _ _ _ _ _ hf]

/-! ### Each, Filter -/

/-- `Each` with a callback that only touches the map heap, through a pure step function `F` that keeps an invariant
    `P` of the map heap: the callback is run on the set's elements in order. -/
theorem each_loop_tie (h : Data.Heap) (g : Nat → Nat) (s : Data.Slice) (w : Data.SWF h s) (f : Int → M Unit)
    (F : Data.MHeap → Int → Data.MHeap) (P : Data.MHeap → Prop) (hP : ∀ mh v, P mh → P (F mh v))
    (hf : ∀ mh v, P mh → f v ⟨h, mh, g⟩ = .ok () ⟨h, F mh v, g⟩) :
    ∀ (fuel k : Nat) (mh : Data.MHeap), P mh → k ≤ s.len → s.len - k < fuel →
      IntSet_Each_loop1 f (sl s) fuel k ⟨h, mh, g⟩ = .ok (s.len : Int) ⟨h, ((Data.view h s).drop k).foldl F mh, g⟩ := by
  intro fuel
  induction fuel with
  | zero => intro k mh _ _ hlt; omega
  | succ fuel ih =>
    intro k mh p hk hlt
    rw [IntSet_Each_loop1]
    simp only [ite_apply, bind_apply, pure_apply]
    have hl := view_length w
    rcases Nat.lt_or_ge k s.len with c | c
    · go_decide
      rw [hf mh _ p]
      simp only []
      have := ih (k + 1) (F mh ((Data.view h s).getD k 0)) (hP _ _ p) (by omega) (by omega)
      rw [show ((k : Int) + 1) = ((k + 1 : Nat) : Int) by omega, this, Data.getD_drop _ k (by omega), List.foldl_cons]
    · go_decide
      have e : k = s.len := by omega
      rw [List.drop_of_length_le (by omega), e]
      rfl

theorem tie_Each (h : Data.Heap) (mh : Data.MHeap) (g : Nat → Nat) (s : Data.Slice) (w : Data.SWF h s) (f : Int → M Unit)
    (F : Data.MHeap → Int → Data.MHeap) (P : Data.MHeap → Prop) (hP : ∀ mh v, P mh → P (F mh v))
    (hf : ∀ mh v, P mh → f v ⟨h, mh, g⟩ = .ok () ⟨h, F mh v, g⟩) (p : P mh) :
    IntSet_Each ⟨sl s⟩ f ⟨h, mh, g⟩ = .ok () ⟨h, (Data.view h s).foldl F mh, g⟩ := by
  simp only [IntSet_Each, bind_apply, pure_apply, len_sl, Int.toNat_natCast]
  have := each_loop_tie h g s w f F P hP hf (s.len + 1) 0 mh p (by omega) (by omega)
  simp only [Int.natCast_zero, List.drop_zero] at this
  rw [this]

theorem tie_Filter (h : Data.Heap) (mh : Data.MHeap) (g : Nat → Nat) (i : Nat) (keys : Data.Slice) (w : Data.SWF h keys) :
    IntMap_Filter ⟨some i⟩ ⟨sl keys⟩ ⟨h, mh, g⟩ =
      .ok ⟨some (Data.filter mh i (Data.view h keys)).2⟩ ⟨h, (Data.filter mh i (Data.view h keys)).1, g⟩ := by
  simp only [IntMap_Filter, bind_apply, pure_apply, tie_NewIntMap_nil]
  rw [tie_Each h (mh ++ [[]]) g keys w _ (Data.filterStep mh.length i) (fun m => mh.length < m.length)]
  · rfl
  · intro m v p
    simp only [Data.filterStep]
    split
    · rw [mwrite_length]; exact p
    · exact p
  · intro m v p
    simp only [ite_apply, bind_apply, pure_apply, mapGet2_some, Data.filterStep]
    cases Data.mget (Data.mobj m i) v with
    | none => simp
    | some x => simp [mapSet_some _ _ _ _ _ _ p]
  · simp

end PV.ProgTie
