/-
  Stage 2 of the core tie: combinator.Any — translated closure vs. `run … (.any gs)` (`anyLoop`, `altErr`).
-/
import ParsleyVerif.Proofs.CoreTieWrap
import ParsleyVerif.Proofs.CoreTieData
namespace PV.CoreTie
open PV.FactsCore

/-- the world's `parse` agrees with `run cfg fuel` on the operands, pairwise -/
inductive AgreesAll (W : World Context) (cfg : Cfg) (fuel : Nat) : List Parser → List G → Prop
  | nil : AgreesAll W cfg fuel [] []
  | cons {p : Parser} {g : G} {ps : List Parser} {gs : List G} :
      Agrees W cfg fuel p g → AgreesAll W cfg fuel ps gs → AgreesAll W cfg fuel (p :: ps) (g :: gs)

theorem any_loop (W : World Context) (cfg : Cfg) (fuel : Nat) (m : IntMap) (c : Ctx) (hm : CtxRel m c) (pos : Nat) :
    ∀ (ps : List Parser) (gs : List G), AgreesAll W cfg fuel ps gs →
    ∀ (a : AltSt) (s : Context) (st : St), StRel s st →
      match anyLoop (run cfg fuel) c pos gs a st with
      | none => Any_parse_loop1 W m pos ps (eSet a.cp) (eRes a.res) (eErr a.err) (eErr a.nf) s = .nofuel
      | some (a', st') => ∃ s', Any_parse_loop1 W m pos ps (eSet a.cp) (eRes a.res) (eErr a.err) (eErr a.nf) s =
          .ok (eSet a'.cp, eRes a'.res, eErr a'.err, eErr a'.nf) s' ∧ StRel s' st' := by
  intro ps gs hall
  induction hall with
  | nil =>
    intro a s st hs
    exact ⟨s, by simp [Any_parse_loop1], hs⟩
  | @cons p g ps gs hp _ ih =>
    intro a s st hs
    obtain ⟨s1, e1, r1⟩ := tie_RegisterCall W s st hs
    have h := hp m c pos s1 st.regCall hm r1
    simp only [anyLoop]
    cases hr : run cfg fuel g c pos st.regCall with
    | none =>
      rw [hr] at h
      simp [Any_parse_loop1, e1, corr_none h]
    | some r =>
      obtain ⟨o, st2⟩ := r
      rw [hr] at h
      obtain ⟨s2, e2, r2⟩ := corr_some h
      obtain ⟨ores, ocp, oerr⟩ := o
      have key : ∀ (X : CRes Context (IntSet × CNode × CErr × CErr)),
          Any_parse_loop1 W m pos ps (eSet (altErr pos { a with cp := cpUnion a.cp ocp, res := appendNode a.res ores } oerr).cp)
            (eRes (altErr pos { a with cp := cpUnion a.cp ocp, res := appendNode a.res ores } oerr).res)
            (eErr (altErr pos { a with cp := cpUnion a.cp ocp, res := appendNode a.res ores } oerr).err)
            (eErr (altErr pos { a with cp := cpUnion a.cp ocp, res := appendNode a.res ores } oerr).nf) s2 = X →
          Any_parse_loop1 W m pos (p :: ps) (eSet a.cp) (eRes a.res) (eErr a.err) (eErr a.nf) s = X := by
        intro X hX
        rw [← hX]
        simp only [Any_parse_loop1, bind_apply, e1, e2, eOut, ← eSet_union, tie_AppendNode]
        obtain ⟨f1, f2, -, -⟩ := altErr_fields pos { a with cp := cpUnion a.cp ocp, res := appendNode a.res ores } oerr
        simp only [f1, f2]
        cases oerr with
        | none => simp [altErr]
        | some e2' =>
          cases hae : a.err with
          | none =>
            by_cases hgt : e2'.pos > pos
            · have : (pos : Int) < e2'.pos := by omega
              core_simp [altErr, hae, hgt]
            · have : ¬ (pos : Int) < e2'.pos := by omega
              cases hk : e2'.kind.isNotFound <;> core_simp [altErr, hae, hgt, hk]
          | some ce =>
            by_cases hge : e2'.pos ≥ ce.pos
            · have hge' : (ce.pos : Int) ≤ e2'.pos := by omega
              by_cases hgt : e2'.pos > pos
              · have : (pos : Int) < e2'.pos := by omega
                core_simp [altErr, hae, hge, hgt]
              · have : ¬ (pos : Int) < e2'.pos := by omega
                cases hk : e2'.kind.isNotFound <;> core_simp [altErr, hae, hge, hgt, hk]
            · have hge' : ¬ (ce.pos : Int) ≤ e2'.pos := by omega
              core_simp [altErr, hae, hge]
      dsimp only
      have := ih (altErr pos { a with cp := cpUnion a.cp ocp, res := appendNode a.res ores } oerr) s2 st2 r2
      cases hl : anyLoop (run cfg fuel) c pos gs (altErr pos { a with cp := cpUnion a.cp ocp, res := appendNode a.res ores } oerr) st2 with
      | none =>
        rw [hl] at this
        exact key _ this
      | some r' =>
        obtain ⟨a', st'⟩ := r'
        rw [hl] at this
        obtain ⟨s', e3, r3⟩ := this
        exact ⟨s', key _ e3, r3⟩

/-- **combinator.Any**: IF the world's `parse` agrees with `run cfg fuel` on every operand, THEN the translated closure
    agrees with `run cfg (fuel+1)` on the Any node -/
theorem tie_Any (W : World Context) (cfg : Cfg) (h0 : cfg.maxCalls = 0) (fuel : Nat) (ps : List Parser) (gs : List G)
    (hp : AgreesAll W cfg fuel ps gs) : AgreesF (Any_parse W ps) cfg (fuel + 1) (.any gs) := by
  intro m c pos s st hm hs
  rw [run, if_neg (run_budget0 cfg h0 st)]
  have h := any_loop W cfg fuel m c hm pos ps gs hp {} s st hs
  cases hl : anyLoop (run cfg fuel) c pos gs {} st with
  | none =>
    rw [hl] at h
    have h' : Any_parse_loop1 W m pos ps CorePrelude.Data.EmptyIntSet .nil .nil .nil s = .nofuel := h
    simp [Any_parse, h', Corr]
  | some r =>
    obtain ⟨a, st'⟩ := r
    rw [hl] at h
    obtain ⟨s', e1, r1⟩ := h
    have e1' : Any_parse_loop1 W m pos ps CorePrelude.Data.EmptyIntSet .nil .nil .nil s =
        .ok (eSet a.cp, eRes a.res, eErr a.err, eErr a.nf) s' := e1
    cases hn : a.res.isNil
    · obtain ⟨s'', e2, r2⟩ := tie_SetError W s' st' r1 a.err
      simp only [hn, Bool.false_eq_true, if_false]
      exact corr_intro (by simp [Any_parse, e1', hn, e2, eOut]) r2
    · have : a.res = .nil := by cases ha : a.res <;> simp_all [PV.Res.isNil]
      simp only [hn, if_true]
      cases hae : a.err with
      | some e => exact corr_intro (by simp [Any_parse, e1', hn, eOut, this, hae]) r1
      | none => exact corr_intro (by simp [Any_parse, e1', hn, eOut, this, hae]) r1

end PV.CoreTie
