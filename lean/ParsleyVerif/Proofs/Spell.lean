/-
  Well-formed trees spell the input: the leaves' file slices, concatenated, are exactly the bytes
  between the tree's start and end.
-/
import ParsleyVerif.Proofs.RunPos
namespace PV
open PV.Text

/-- the bytes of the file from global position `a` to `b` -/
def slice (f : File) (a b : Nat) : Bytes := (f.data.drop (a - f.offset)).take (b - a)

mutual
/-- what a tree spells: each terminal leaf contributes the bytes of its own span -/
def Node.spell (f : File) : Node → Bytes
  | .term _ _ p r => slice f p r
  | .empty _ => []
  | .eof _ => []
  | .nt _ cs _ _ _ => spellList f cs
def spellList (f : File) : List Node → Bytes
  | [] => []
  | c :: cs => c.spell f ++ spellList f cs
end

theorem slice_self (f : File) (a : Nat) : slice f a a = [] := by simp [slice]

theorem slice_append (f : File) (a b c : Nat) (h0 : f.offset ≤ a) (h1 : a ≤ b) (h2 : b ≤ c) :
    slice f a b ++ slice f b c = slice f a c := by
  unfold slice
  have e1 : b - f.offset = (a - f.offset) + (b - a) := by omega
  have e2 : c - a = (b - a) + (c - b) := by omega
  rw [e1, ← List.drop_drop, e2, List.take_add]

mutual
theorem Node.spell_eq (f : File) (hi : Nat) : ∀ n : Node, f.offset ≤ n.pos → n.WF hi →
    n.spell f = slice f n.pos n.rpos
  | .term _ _ p r, _, _ => by simp [Node.spell, Node.pos, Node.rpos]
  | .empty p, _, _ => by simp [Node.spell, Node.pos, Node.rpos, slice_self]
  | .eof p, _, _ => by simp [Node.spell, Node.pos, Node.rpos, slice_self]
  | .nt _ cs p r _, h0, h => by
    have h' : Chain hi cs p r := by simpa only [Node.WF] using h
    simp only [Node.spell, Node.pos, Node.rpos]
    exact spellList_eq f hi cs p r h0 h'
theorem spellList_eq (f : File) (hi : Nat) : ∀ (cs : List Node) (p r : Nat), f.offset ≤ p → Chain hi cs p r →
    spellList f cs = slice f p r
  | [], p, r, _, h => by
    have h' : p = r ∧ r ≤ hi := by simpa only [Chain] using h
    simp [spellList, h'.1, slice_self]
  | c :: cs, p, r, h0, h => by
    have h' : c.pos = p ∧ c.WF hi ∧ Chain hi cs c.rpos r := by simpa only [Chain] using h
    have hb := Node.WF_bounds hi c h'.2.1
    have hc := Chain_bounds hi cs c.rpos r h'.2.2
    simp only [spellList]
    rw [Node.spell_eq f hi c (by omega) h'.2.1, spellList_eq f hi cs c.rpos r (by omega) h'.2.2, h'.1]
    exact slice_append f p c.rpos r h0 (by omega) hc.1
end

end PV
