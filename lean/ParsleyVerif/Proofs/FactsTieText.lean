/-
  The ties between the TEXT-level model definitions and the expressions translated from the source
  (Generated/FactsFn.lean), split from Proofs/FactsTie.lean so that a change in the shape of a parser-core expression
  (the curtailment test, a lenCheck) does not break what the reader's properties (C09, C11, C12) rest on, and vice versa.
-/
import ParsleyVerif.Model.Text
import ParsleyVerif.Generated.FactsFn
namespace PV
open PV.Text

theorem tie_isWordByte (b : Nat) : isWordByte b = FactsFn.isWordCharacter b := by
  rw [Bool.eq_iff_iff]
  simp [isWordByte, FactsFn.isWordCharacter] <;> omega

theorem tie_remaining (f : File) (pos : Nat) : remaining f pos = FactsFn.remaining f.len pos f.offset := by
  simp only [remaining, FactsFn.remaining] <;> omega

theorem tie_isEOF (f : File) (pos : Nat) : isEOF f pos = FactsFn.isEOF f.len pos f.offset := by
  rw [Bool.eq_iff_iff]
  simp [isEOF, FactsFn.isEOF] <;> omega

theorem tie_addFile (fs : FileSet) (f : File) : (fs.addFile f).1.pos = FactsFn.fileSetNext fs.pos f.len := by
  simp only [FileSet.addFile, FactsFn.fileSetNext, Facts.fileSetGap] <;> omega

end PV
