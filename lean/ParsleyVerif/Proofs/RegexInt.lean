/-
  `[-+]?(?:[1-9][0-9]*|0[xX][0-9a-fA-F]+|0[0-7]*)` and `[^`]+`: the core terms, and what the first candidate of the
  unsigned integer body is.
-/
import ParsleyVerif.Proofs.RegexBasic
namespace PV
open PV.Text
open Rx
namespace Rx

theorem litBytes_0 : litBytes ['0'] = [48] := by decide

def intBody : Re :=
  .alt (.seq (.byte is19) (.star (.byte isDigit)))
  (.alt (.seq (Re.lit [48]) (.seq (.byte isX) (Re.byte isHex).plus))
        (.seq (Re.lit [48]) (.star (.byte isOct))))

theorem integerRe_eq : integerRe = .seq (Re.byte isSign).opt intBody := by
  simp only [integerRe, integerSx, Sx.re, cSign_has, cDigit_has, cHex_has, c19_has, cOct_has, cX_has, litBytes_0, intBody]

theorem backquoteRe_eq : backquoteRe = (Re.byte (fun b => b != 96)).plus := by
  simp only [backquoteRe, backquoteSx, Sx.re, cBq_has]

theorem intBody_sign (f c : Nat) (t : Bytes) (hc : isSign c = true) : intBody.run f (c :: t) = [] := by
  have h1 : is19 c = false := by
    unfold isSign at hc; unfold is19; simp at hc ⊢; omega
  have h2 : (c == 48) = false := by
    unfold isSign at hc; simp at hc ⊢; omega
  simp [intBody, h1, h2]

def intModel (s : Nat) (l : Bytes) : Option Nat :=
      (match l with
        | d :: r =>
          if 49 ≤ d && d ≤ 57 then some (s + 1 + spanLen isDigit r)
          else if d = 48 then
            match r with
            | x :: r' =>
              if (x = 120 || x = 88) && spanLen isHex r' > 0 then some (s + 2 + spanLen isHex r')
              else some (s + 1 + spanLen isOct r)
            | [] => some (s + 1)
          else none
        | [] => none)

theorem intBody_head (s f : Nat) (l : Bytes) (h : l.length ≤ f) :
    ((intBody.run f l).head?).map (s + ·) = intModel s l := by
  cases l with
  | nil => simp [intBody, intModel]
  | cons d r =>
    unfold intModel
    have hr : r.length ≤ f := by simp at h; omega
    simp only [intBody, run_alt, run_seq_byte_cons, run_seq_lit_cons, run_seq_lit_nil]
    by_cases h1 : (decide (49 ≤ d) && decide (d ≤ 57)) = true
    · rw [if_pos h1]
      have : is19 d = true := h1
      rw [if_pos this, run_star_byte _ _ _ hr]
      simp [head?_down, List.head?_map, Nat.add_assoc]
    · rw [if_neg h1]
      have : ¬ is19 d = true := h1
      rw [if_neg this]
      by_cases h2 : d = 48
      · subst h2
        rw [if_pos rfl]
        simp only [beq_self_eq_true, if_true, List.nil_append]
        cases r with
        | nil => simp [spanLen_nil, run_star_byte, down]
        | cons x r' =>
          have hr' : r'.length ≤ f := by simp at hr; omega
          dsimp only
          rw [run_seq_byte_cons, run_star_byte _ _ _ hr, run_plus_byte _ _ _ hr']
          by_cases h3 : ((decide (x = 120) || decide (x = 88)) && decide (spanLen isHex r' > 0)) = true
          · rw [if_pos h3]
            simp only [Bool.and_eq_true, Bool.or_eq_true, decide_eq_true_eq] at h3
            have hx : isX x = true := by simpa [isX] using h3.1
            rw [if_pos hx, if_pos h3.2]
            have : ∃ m, spanLen isHex r' = m + 1 := ⟨spanLen isHex r' - 1, by omega⟩
            obtain ⟨m, hm⟩ := this
            simp [hm, head?_down]; omega
          · rw [if_neg h3]
            simp only [Bool.and_eq_true, Bool.or_eq_true, decide_eq_true_eq] at h3
            by_cases hx : isX x = true
            · have hx' : x = 120 ∨ x = 88 := by simpa [isX] using hx
              have h0 : ¬ 0 < spanLen isHex r' := fun h0 => h3 ⟨hx', h0⟩
              rw [if_pos hx, if_neg h0]
              simp [head?_down, Nat.add_assoc]
            · rw [if_neg hx]
              simp [head?_down, Nat.add_assoc]
      · rw [if_neg h2]
        have : (d == 48) = false := by simpa using h2
        simp [this]
end Rx
end PV
