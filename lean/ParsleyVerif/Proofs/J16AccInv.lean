/-
  C16, the converse — INVERSION: every refined derivation (`DerivesW`, Proofs/J16AccSound.lean) of the closed
  grammar `Gjson` spells a document of the accepted language `AccDoc` (Spec/J16AccLang.lean) and IS that document's
  tree:

    `jR_closed`   the predicate "`x` is the tree of an accepted document whose rendering stands at `p`" is closed
                  under the body of the `value` rule — one finite case analysis: the seven alternatives, the
                  terminals through their byte specifications (C08: `c08_spec`, the iffs of the number, word and
                  rune terminals; Proofs/J16AccStr.lean for strings), LeftTrim through `skipWhitespaces_spec`
                  (mode WsSpacesNl: the run of space / tab / LF / FF; mode WsSpaces: NO error means no LF / FF in
                  the run), SepBy through its chain;
    `root_inv`    a derivation of `Sentence(Trim(value))` at the start of the file: the file's data is
                  `lead ++ d.render ++ trail` and the tree is `Sentence[rootTree …, EOF]`.

  Everything lives in `PV.J16Acc`.
-/
import ParsleyVerif.Proofs.J16AccSound
import ParsleyVerif.Proofs.J16AccFwd
namespace PV.J16Acc
open PV PV.Text PV.J16

/-! ### reading bytes -/

/-- the bytes `w` stand at position `p` of the file -/
def Rd (f : File) (p : Nat) (w : Bytes) : Prop := InFile f p ∧ rest f p = w ++ rest f (p + w.length)

theorem Rd.of_split {f : File} {p : Nat} {w t : Bytes} (hin : InFile f p) (h : rest f p = w ++ t) : Rd f p w := by
  refine ⟨hin, ?_⟩
  rw [rest_add_c10 f p _ hin, h, List.drop_left]

theorem Rd.le {f : File} {p : Nat} {w : Bytes} (h : Rd f p w) : w.length ≤ (rest f p).length := by
  rw [h.2]; simp

theorem Rd.inFile_end {f : File} {p : Nat} {w : Bytes} (h : Rd f p w) : InFile f (p + w.length) :=
  inFile_add_c10 f p _ h.1 h.le

theorem Rd.nil {f : File} {p : Nat} (hin : InFile f p) : Rd f p [] := ⟨hin, by simp⟩

theorem Rd.trans {f : File} {p : Nat} {w w' : Bytes} (h1 : Rd f p w) (h2 : Rd f (p + w.length) w') : Rd f p (w ++ w') := by
  refine ⟨h1.1, ?_⟩
  have e : p + (w ++ w').length = p + w.length + w'.length := by simp only [List.length_append]; omega
  rw [e, h1.2, h2.2, List.append_assoc]

theorem Rd.cast {f : File} {p p' : Nat} {w w' : Bytes} (h : Rd f p w) (hp : p = p') (hw : w = w') : Rd f p' w' := by
  subst hp; subst hw; exact h

/-! ### whitespace -/

theorem mem_takeWhile_isWs : ∀ (l : Bytes) (b : Nat), b ∈ l.takeWhile isWs → isWs b = true
  | [], b, h => by simp at h
  | c :: r, b, h => by
    by_cases hc : isWs c = true
    · simp only [List.takeWhile_cons, hc, ↓reduceIte, List.mem_cons] at h
      rcases h with rfl | h
      · exact hc
      · exact mem_takeWhile_isWs r b h
    · simp [hc] at h

theorem isWs_cases {b : Nat} (h : isWs b = true) : b = 32 ∨ b = 9 ∨ b = 10 ∨ b = 12 := by
  simpa [isWs, Facts.wsBytes] using h

theorem isBreak_cases {b : Nat} (h : isBreak b = false) : b ≠ 10 ∧ b ≠ 12 := by
  simpa [isBreak, Facts.wsBreakBytes] using h

theorem firstBreak_none : ∀ (l : Bytes), firstBreak l = none → ∀ b ∈ l.takeWhile isWs, isBreak b = false
  | [], _, b, hb => by simp at hb
  | c :: r, h, b, hb => by
    by_cases hc : isWs c = true
    · simp only [firstBreak, hc, ↓reduceIte] at h
      by_cases hk : isBreak c = true
      · simp [hk] at h
      · simp only [hk, Bool.false_eq_true, ↓reduceIte, Option.map_eq_none_iff] at h
        simp only [List.takeWhile_cons, hc, ↓reduceIte, List.mem_cons] at hb
        rcases hb with rfl | hb
        · simpa using hk
        · exact firstBreak_none r h b hb
    · simp [hc] at hb

theorem dropWhile_stop (l : Bytes) : Stop (l.dropWhile isWs) := by
  intro c hc
  induction l with
  | nil => simp at hc
  | cons b r ih =>
    by_cases hb : isWs b = true
    · simp only [List.dropWhile_cons, hb, ↓reduceIte] at hc; exact ih hc
    · simp only [List.dropWhile_cons, hb, Bool.false_eq_true, ↓reduceIte, List.head?_cons, Option.some.injEq] at hc
      subst hc; simpa using hb

section
variable {f : File} (hoff : 1 ≤ f.offset)
include hoff

/-- the whitespace run at `p`: what LeftTrim / RightTrim skip -/
theorem ws_run {p : Nat} (hin : InFile f p) (m : WsMode) :
    ∃ w, (∀ b ∈ w, isWs b = true) ∧ (skipWhitespaces f p m).1 = p + w.length ∧ Rd f p w ∧
      w = (rest f p).takeWhile isWs ∧ (skipWhitespaces f p m).2 = wsVerdict m p (rest f p) := by
  refine ⟨(rest f p).takeWhile isWs, mem_takeWhile_isWs _, ?_, ?_, rfl, ?_⟩
  · rw [skipWhitespaces_spec f p m hin hoff]; rfl
  · exact Rd.of_split hin (List.takeWhile_append_dropWhile (p := isWs) (l := rest f p)).symm
  · rw [skipWhitespaces_spec f p m hin hoff]

/-- mode WsSpacesNl: any run of space / tab / LF / FF -/
theorem ws_inv_nl {p : Nat} (hin : InFile f p) :
    ∃ w, WsNlF w ∧ (skipWhitespaces f p .spacesNl).1 = p + w.length ∧ Rd f p w := by
  obtain ⟨w, hw, h1, h2, _, _⟩ := ws_run hoff hin .spacesNl
  exact ⟨w, fun b hb => isWs_cases (hw b hb), h1, h2⟩

/-- mode WsSpaces WITHOUT an error: a run of spaces / tabs -/
theorem ws_inv_sp {p : Nat} (hin : InFile f p) (h : (skipWhitespaces f p .spaces).2 = none) :
    ∃ w, WsSp w ∧ (skipWhitespaces f p .spaces).1 = p + w.length ∧ Rd f p w := by
  obtain ⟨w, hw, h1, h2, hwe, hv⟩ := ws_run hoff hin .spaces
  refine ⟨w, ?_, h1, h2⟩
  rw [hv] at h
  have hfb : firstBreak (rest f p) = none := by
    simp only [wsVerdict] at h
    cases hb : firstBreak (rest f p) with
    | none => rfl
    | some i => simp [hb] at h
  intro b hb
  have h1 := isWs_cases (hw b hb)
  have h2 := isBreak_cases (firstBreak_none _ hfb b (hwe ▸ hb))
  omega

end

/-! ### terminals -/

section
variable {cfg : Cfg} {R : Nat → Nat → Node → Prop} (hoff : 1 ≤ cfg.file.offset)

theorem rune_inv {c : Nat} (hc : c < 0x80) {p : Nat} {x : Node} (hin : InFile cfg.file p)
    (h : DerivesW cfg R (Gjson.rn c) p x) : x = runeLeaf c p ∧ Rd cfg.file p [c] := by
  have hp := h.term_inv
  obtain ⟨w, hw, rfl⟩ := (c08_rune_node cfg.params cfg.file p c _ x hin).mp hp
  simp only [runeW, if_pos hc] at hw
  by_cases hh : (rest cfg.file p).head? = some c
  · rw [if_pos hh] at hw
    cases hw
    have henc : Utf8.encodeRune c = [c] := by unfold Utf8.encodeRune; rw [if_pos hc]
    refine ⟨by rw [henc]; rfl, ?_⟩
    cases hr : rest cfg.file p with
    | nil => rw [hr] at hh; cases hh
    | cons b t =>
      rw [hr] at hh
      simp only [List.head?_cons, Option.some.injEq] at hh
      subst hh
      exact Rd.of_split (w := [b]) hin hr
  · rw [if_neg hh] at hw; cases hw

include hoff

/-- `,` / `:` after spaces and tabs (no line break: the whitespace check of mode WsSpaces passed) -/
theorem sep_inv {c : Nat} (hc : c < 0x80) {p : Nat} {x : Node} (hin : InFile cfg.file p)
    (h : DerivesW cfg R (.ltrim (Gjson.rn c) .spaces) p x) :
    ∃ w, WsSp w ∧ x = runeLeaf c (p + w.length) ∧ Rd cfg.file p (w ++ [c]) := by
  obtain ⟨hws, hd⟩ := h.ltrim_inv
  obtain ⟨w, hw, hp, hrd⟩ := ws_inv_sp hoff hin hws
  rw [hp] at hd
  obtain ⟨hx, hr⟩ := rune_inv hc hrd.inFile_end hd
  exact ⟨w, hw, hx, hrd.trans hr⟩

/-- a closer after spaces, tabs, LF, FF -/
theorem closer_inv {c : Nat} (hc : c < 0x80) {p : Nat} {x : Node} (hin : InFile cfg.file p)
    (h : DerivesW cfg R (.ltrim (Gjson.rn c) .spacesNl) p x) :
    ∃ w, WsNlF w ∧ x = runeLeaf c (p + w.length) ∧ Rd cfg.file p (w ++ [c]) := by
  obtain ⟨_, hd⟩ := h.ltrim_inv
  obtain ⟨w, hw, hp, hrd⟩ := ws_inv_nl hoff hin
  rw [hp] at hd
  obtain ⟨hx, hr⟩ := rune_inv hc hrd.inFile_end hd
  exact ⟨w, hw, hx, hrd.trans hr⟩

omit hoff

/-- the String terminal -/
theorem string_inv {p : Nat} {x : Node} (hin : InFile cfg.file p) (h : DerivesW cfg R (.term (.string false)) p x) :
    ∃ k kv, IsStrBody k kv ∧ x = .term strTok (.str kv) p (p + (strLex k).length) ∧ Rd cfg.file p (strLex k) := by
  have hp := h.term_inv
  rw [c08_spec cfg.params cfg.file (.string false) p hin True.intro True.intro] at hp
  obtain ⟨b, v, t, hb, hl, hx⟩ := stringSpec_inv (by simpa only [Terminal.spec] using hp)
  exact ⟨b, v, hb, hx, Rd.of_split hin hl⟩

/-- the five literal alternatives of the `value` rule -/
theorem lit_inv {t : Terminal} (ht : t = .string false ∨ t = .float ∨ t = .integer ∨
      t = .bool [116, 114, 117, 101] [102, 97, 108, 115, 101] ∨ t = .nil [110, 117, 108, 108])
    {p : Nat} {x : Node} (hin : InFile cfg.file p) (h : DerivesW cfg R (.term t) p x) :
    ∃ a : AccLit, a.OK cfg.params ∧ x = .term a.tok a.val p (p + a.lex.length) ∧ Rd cfg.file p a.lex := by
  rcases ht with rfl | rfl | rfl | rfl | rfl
  · obtain ⟨k, kv, hk, hx, hr⟩ := string_inv hin h
    exact ⟨.str k kv, hk, hx, hr⟩
  · have hp := h.term_inv
    rw [c08_spec cfg.params cfg.file .float p hin True.intro True.intro] at hp
    obtain ⟨lex, t, hl, h1, h2, hx⟩ := floatSpec_inv cfg.params (by simpa only [Terminal.spec] using hp)
    exact ⟨.flt lex, ⟨h1, h2⟩, hx, Rd.of_split hin hl⟩
  · have hp := h.term_inv
    rw [c08_spec cfg.params cfg.file .integer p hin True.intro True.intro] at hp
    obtain ⟨lex, t, hl, h1, h2, h3, hx⟩ := integerSpec_inv (by simpa only [Terminal.spec] using hp)
    exact ⟨.int lex, ⟨h1, h2, h3⟩, hx, Rd.of_split hin hl⟩
  · have hp := h.term_inv
    rw [c08_spec cfg.params cfg.file _ p hin bool_wf True.intro] at hp
    rcases (spec_bool_node cfg.params _ p _ _ x).mp hp with ⟨hw, hx⟩ | ⟨_, hw, hx⟩
    · obtain ⟨t, hl⟩ := wordAt_inv hw
      exact ⟨.bool true, trivial, by rw [hx, tok_bool]; rfl, Rd.of_split hin hl⟩
    · obtain ⟨t, hl⟩ := wordAt_inv hw
      exact ⟨.bool false, trivial, by rw [hx, tok_bool]; rfl, Rd.of_split hin hl⟩
  · have hp := h.term_inv
    rw [c08_spec cfg.params cfg.file _ p hin nil_wf True.intro] at hp
    obtain ⟨hw, hx⟩ := (spec_nil_node cfg.params _ p _ x).mp hp
    obtain ⟨t, hl⟩ := wordAt_inv hw
    exact ⟨.null, trivial, by rw [hx, tok_nil]; rfl, Rd.of_split hin hl⟩

end

/-! ### the `value` rule -/

/-- `x` is the tree of an accepted document whose rendering stands at `p` -/
def ValAt (cfg : Cfg) (p : Nat) (x : Node) : Prop :=
  InFile cfg.file p → ∃ d : AccDoc, d.OK cfg.params ∧ x = d.tree p ∧ Rd cfg.file p d.render

/-- what the rules derive -/
def jR (cfg : Cfg) : Nat → Nat → Node → Prop
  | 0, p, x => ValAt cfg p x
  | _, _, _ => True

section
variable {cfg : Cfg} (hoff : 1 ≤ cfg.file.offset)
include hoff

/-- a value after spaces, tabs, LF, FF -/
theorem ltrim_value_inv {p : Nat} {x : Node} (hin : InFile cfg.file p)
    (h : DerivesW cfg (jR cfg) (.ltrim Gjson.value .spacesNl) p x) :
    ∃ (wb : Bytes) (d : AccDoc), WsNlF wb ∧ d.OK cfg.params ∧ x = d.tree (p + wb.length) ∧ Rd cfg.file p (wb ++ d.render) := by
  obtain ⟨_, hd⟩ := h.ltrim_inv
  obtain ⟨w, hw, hp, hrd⟩ := ws_inv_nl hoff hin
  rw [hp] at hd
  obtain ⟨d, hdok, hx, hr⟩ := hd.ref_inv hrd.inFile_end
  exact ⟨w, d, hw, hdok, hx, hrd.trans hr⟩

/-- a key/value member after spaces, tabs, LF, FF -/
theorem kv_inv {p : Nat} {x : Node} (hin : InFile cfg.file p)
    (h : DerivesW cfg (jR cfg) (.ltrim Gjson.keyValue .spacesNl) p x) :
    ∃ (wb k kv wk wv : Bytes) (d : AccDoc), WsNlF wb ∧ IsStrBody k kv ∧ WsSp wk ∧ WsNlF wv ∧ d.OK cfg.params ∧
      x = accKvNode (strLex k).length kv wk wv d.render.length d.tree (p + wb.length) ∧
      Rd cfg.file p (wb ++ (strLex k ++ (wk ++ 58 :: (wv ++ d.render)))) := by
  obtain ⟨_, hd⟩ := h.ltrim_inv
  obtain ⟨wb, hwb, hp, hrd⟩ := ws_inv_nl hoff hin
  rw [hp] at hd
  obtain ⟨x1, x2, x3, d1, d2, d3, rfl⟩ := hd.seqOf3_inv
  obtain ⟨k, kv, hk, rfl, hr1⟩ := string_inv hrd.inFile_end d1
  obtain ⟨wk, hwk, rfl, hr2⟩ := sep_inv hoff (c := 58) (by omega) hr1.inFile_end d2
  have hin3 : InFile cfg.file (runeLeaf 58 (p + wb.length + (strLex k).length + wk.length)).rpos := by
    have := hr2.inFile_end
    simp only [List.length_append, List.length_cons, List.length_nil] at this
    exact this
  obtain ⟨wv, d, hwv, hdok, rfl, hr3⟩ := ltrim_value_inv hoff hin3 d3
  refine ⟨wb, k, kv, wk, wv, d, hwb, hk, hwk, hwv, hdok, ?_, ?_⟩
  · rw [tree_rpos]; rfl
  · have hr3' : Rd cfg.file (p + wb.length + (strLex k).length + (wk ++ [58]).length) (wv ++ d.render) :=
      hr3.cast (by simp only [runeLeaf, Node.rpos, List.length_append, List.length_cons, List.length_nil]; omega) rfl
    exact (hrd.trans (hr1.trans (hr2.trans hr3'))).cast rfl (by simp)

/-- the elements after the first: pairs `, value` -/
theorem items_inv : ∀ (nodes : List Node) (depth p : Nat), depth % 2 = 1 →
    DerivesSeqW cfg (jR cfg) elemsShape depth p nodes → nodes.length % 2 = 0 → InFile cfg.file p →
    ∃ r : AccItems, r.OK cfg.params ∧ nodes = r.moreNodes p ∧ Rd cfg.file p r.renderMore
  | [], _, p, _, _, _, hin => ⟨.nil, trivial, rfl, Rd.nil hin⟩
  | [_], _, _, _, _, hlen, _ => by simp at hlen
  | c :: v :: rest, depth, p, hdep, h, hlen, hin => by
    cases h with
    | cons hl1 hc hrest =>
      cases hrest with
      | cons hl2 hv hrest2 =>
        rw [lookup_odd elemsShape _ _ rfl depth hdep] at hl1
        rw [lookup_even elemsShape _ _ rfl (depth + 1) (by omega)] at hl2
        cases hl1; cases hl2
        obtain ⟨wc, hwc, rfl, hr1⟩ := sep_inv hoff (c := 44) (by omega) hin hc
        have hin2 : InFile cfg.file (runeLeaf 44 (p + wc.length)).rpos := by
          have := hr1.inFile_end
          simp only [List.length_append, List.length_cons, List.length_nil] at this
          exact this
        obtain ⟨wb, d, hwb, hdok, rfl, hr2⟩ := ltrim_value_inv hoff hin2 hv
        have hr2' : Rd cfg.file (p + (wc ++ [44]).length) (wb ++ d.render) :=
          hr2.cast (by simp only [runeLeaf, Node.rpos, List.length_append, List.length_cons, List.length_nil]; omega) rfl
        have hr12 := hr1.trans hr2'
        have hin3 : InFile cfg.file (d.tree ((runeLeaf 44 (p + wc.length)).rpos + wb.length)).rpos := by
          have := hr12.inFile_end
          rw [tree_rpos]
          simp only [List.length_append, List.length_cons, List.length_nil, runeLeaf, Node.rpos] at this ⊢
          have e : p + wc.length + 1 + wb.length + d.render.length = p + (wc.length + 1 + (wb.length + d.render.length)) := by
            omega
          rw [e]; exact this
        obtain ⟨r, hrok, hnodes, hr3⟩ := items_inv rest (depth + 1 + 1) _ (by omega) hrest2
          (by simp only [List.length_cons] at hlen; omega) hin3
        refine ⟨.cons wc wb d r, ⟨hwc, hwb, hdok, hrok⟩, ?_, ?_⟩
        · simp only [AccItems.moreNodes]
          rw [hnodes, tree_rpos]
          rfl
        · have hr3' : Rd cfg.file (p + ((wc ++ [44]) ++ (wb ++ d.render)).length) r.renderMore :=
            hr3.cast (by
              rw [tree_rpos]
              simp only [runeLeaf, Node.rpos, List.length_append, List.length_cons, List.length_nil]; omega) rfl
          exact (hr12.trans hr3').cast rfl (by simp [AccItems.renderMore])

/-- the members after the first: pairs `, key : value` -/
theorem mems_inv : ∀ (nodes : List Node) (depth p : Nat), depth % 2 = 1 →
    DerivesSeqW cfg (jR cfg) membersShape depth p nodes → nodes.length % 2 = 0 → InFile cfg.file p →
    ∃ r : AccMems, r.OK cfg.params ∧ nodes = r.moreNodes p ∧ Rd cfg.file p r.renderMore
  | [], _, p, _, _, _, hin => ⟨.nil, trivial, rfl, Rd.nil hin⟩
  | [_], _, _, _, _, hlen, _ => by simp at hlen
  | c :: v :: rest, depth, p, hdep, h, hlen, hin => by
    cases h with
    | cons hl1 hc hrest =>
      cases hrest with
      | cons hl2 hv hrest2 =>
        rw [lookup_odd membersShape _ _ rfl depth hdep] at hl1
        rw [lookup_even membersShape _ _ rfl (depth + 1) (by omega)] at hl2
        cases hl1; cases hl2
        obtain ⟨wc, hwc, rfl, hr1⟩ := sep_inv hoff (c := 44) (by omega) hin hc
        have hin2 : InFile cfg.file (runeLeaf 44 (p + wc.length)).rpos := by
          have := hr1.inFile_end
          simp only [List.length_append, List.length_cons, List.length_nil] at this
          exact this
        obtain ⟨wb, k, kv, wk, wv, d, hwb, hk, hwk, hwv, hdok, rfl, hr2⟩ := kv_inv hoff hin2 hv
        have hr2' : Rd cfg.file (p + (wc ++ [44]).length) (wb ++ (strLex k ++ (wk ++ 58 :: (wv ++ d.render)))) :=
          hr2.cast (by simp only [runeLeaf, Node.rpos, List.length_append, List.length_cons, List.length_nil]; omega) rfl
        have hr12 := hr1.trans hr2'
        have hin3 : InFile cfg.file
            (accKvNode (strLex k).length kv wk wv d.render.length d.tree ((runeLeaf 44 (p + wc.length)).rpos + wb.length)).rpos := by
          have := hr12.inFile_end
          rw [accKvNode_rpos]
          simp only [List.length_append, List.length_cons, List.length_nil, runeLeaf, Node.rpos] at this ⊢
          have e : p + wc.length + 1 + wb.length + (strLex k).length + wk.length + 1 + wv.length + d.render.length =
              p + (wc.length + 1 + (wb.length + ((strLex k).length + (wk.length + (wv.length + d.render.length + 1))))) := by
            omega
          rw [e]; exact this
        obtain ⟨r, hrok, hnodes, hr3⟩ := mems_inv rest (depth + 1 + 1) _ (by omega) hrest2
          (by simp only [List.length_cons] at hlen; omega) hin3
        refine ⟨.cons wc wb k kv wk wv d r, ⟨hwc, hwb, hk, hwk, hwv, hdok, hrok⟩, ?_, ?_⟩
        · simp only [AccMems.moreNodes]
          rw [hnodes, accKvNode_rpos]
          rfl
        · have hr3' : Rd cfg.file (p + ((wc ++ [44]) ++ (wb ++ (strLex k ++ (wk ++ 58 :: (wv ++ d.render))))).length)
              r.renderMore :=
            hr3.cast (by
              rw [accKvNode_rpos]
              simp only [runeLeaf, Node.rpos, List.length_append, List.length_cons, List.length_nil]; omega) rfl
          exact (hr12.trans hr3').cast rfl (by simp [AccMems.renderMore])

end


/-! ### arrays, objects, the rule body -/

theorem wsSp_empty : WsSp [] := by intro b hb; cases hb

theorem lenCheck_sep {sh : SeqShape} (hsh : sh.lenCheck = fun len => (len == 0 && true) || len % 2 == 1)
    (n : Node) (l : List Node) (h : sh.lenCheck (n :: l).length = true) : l.length % 2 = 0 := by
  rw [hsh] at h
  simp only [List.length_cons, Bool.and_true, Bool.or_eq_true, beq_iff_eq] at h
  omega

section
variable {cfg : Cfg} (hoff : 1 ≤ cfg.file.offset)
include hoff

/-- `[` value (`,` value)* `]` -/
theorem array_inv {p : Nat} {x : Node} (hin : InFile cfg.file p) (h : DerivesW cfg (jR cfg) Gjson.array p x) :
    ∃ d : AccDoc, d.OK cfg.params ∧ x = d.tree p ∧ Rd cfg.file p d.render := by
  obtain ⟨x1, x2, x3, d1, d2, d3, rfl⟩ := h.seqOf3_inv
  obtain ⟨rfl, hr1⟩ := rune_inv (c := 91) (by omega) hin d1
  have hin1 : InFile cfg.file (p + 1) := hr1.inFile_end
  obtain ⟨nodes, hseq, hlen, rfl⟩ := d2.seq_inv elems_shape
  cases nodes with
  | nil =>
    obtain ⟨close, hcl, rfl, hr3⟩ := closer_inv hoff (c := 93) (by omega) hin1 d3
    refine ⟨.arr .nil close, ⟨trivial, hcl⟩, rfl, ?_⟩
    exact (hr1.trans hr3).cast rfl (by simp [AccDoc.render])
  | cons n0 more =>
    cases hseq with
    | cons hl0 hn0 hmore =>
      rw [lookup_even elemsShape _ _ rfl 0 rfl] at hl0
      cases hl0
      obtain ⟨wb, d0, hwb, hd0, rfl, hr2⟩ := ltrim_value_inv hoff hin1 hn0
      have hr12 := hr1.trans hr2
      have hin2 : InFile cfg.file (d0.tree (p + 1 + wb.length)).rpos := by
        have := hr12.inFile_end
        rw [tree_rpos]
        simp only [List.length_append, List.length_cons, List.length_nil] at this
        have e : p + 1 + wb.length + d0.render.length = p + (0 + 1 + (wb.length + d0.render.length)) := by omega
        rw [e]; exact this
      obtain ⟨r, hrok, rfl, hr3⟩ := items_inv hoff more 1 _ rfl hmore (lenCheck_sep rfl _ _ hlen) hin2
      have hx2 : handleResult elemsShape (p + 1) (d0.tree (p + 1 + wb.length) :: r.moreNodes (d0.tree (p + 1 + wb.length)).rpos) =
          .nt sepByTok (d0.tree (p + 1 + wb.length) :: r.moreNodes (p + 1 + wb.length + d0.render.length))
            (p + 1 + wb.length) (p + 1 + wb.length + d0.render.length + r.renderMore.length) .array := by
        rw [handleResult_cons elemsShape _ _ _ rfl, tree_pos]
        have := items_last r (d0.tree (p + 1 + wb.length)) _ (tree_rpos d0 _)
        unfold lastRpos at this
        rw [tree_rpos, this]
        rfl
      have hx2' : handleResult elemsShape (runeLeaf 91 p).rpos
          (d0.tree (p + 1 + wb.length) :: r.moreNodes (d0.tree (p + 1 + wb.length)).rpos) = _ := hx2
      rw [hx2'] at d3 ⊢
      have hin3 : InFile cfg.file (p + 1 + wb.length + d0.render.length + r.renderMore.length) := by
        have := (hr12.trans (hr3.cast (by
          rw [tree_rpos]; simp only [List.length_append, List.length_cons, List.length_nil]; omega) rfl)).inFile_end
        simp only [List.length_append, List.length_cons, List.length_nil] at this
        have e : p + 1 + wb.length + d0.render.length + r.renderMore.length =
            p + (0 + 1 + (wb.length + d0.render.length) + r.renderMore.length) := by omega
        rw [e]; exact this
      obtain ⟨close, hcl, rfl, hr4⟩ := closer_inv hoff (c := 93) (by omega) hin3 d3
      refine ⟨.arr (.cons [] wb d0 r) close, ⟨⟨wsSp_empty, hwb, hd0, hrok⟩, hcl⟩, rfl, ?_⟩
      have hr3' : Rd cfg.file (p + ([91] ++ (wb ++ d0.render)).length) r.renderMore :=
        hr3.cast (by rw [tree_rpos]; simp only [List.length_append, List.length_cons, List.length_nil]; omega) rfl
      have hr4' : Rd cfg.file (p + (([91] ++ (wb ++ d0.render)) ++ r.renderMore).length) (close ++ [93]) :=
        hr4.cast (by simp only [List.length_append, List.length_cons, List.length_nil]; omega) rfl
      exact ((hr12.trans hr3').trans hr4').cast rfl (by simp [AccDoc.render])

/-- `{` member (`,` member)* `}` -/
theorem object_inv {p : Nat} {x : Node} (hin : InFile cfg.file p) (h : DerivesW cfg (jR cfg) Gjson.object p x) :
    ∃ d : AccDoc, d.OK cfg.params ∧ x = d.tree p ∧ Rd cfg.file p d.render := by
  obtain ⟨x1, x2, x3, d1, d2, d3, rfl⟩ := h.seqOf3_inv
  obtain ⟨rfl, hr1⟩ := rune_inv (c := 123) (by omega) hin d1
  have hin1 : InFile cfg.file (p + 1) := hr1.inFile_end
  obtain ⟨nodes, hseq, hlen, rfl⟩ := d2.seq_inv members_shape
  cases nodes with
  | nil =>
    obtain ⟨close, hcl, rfl, hr3⟩ := closer_inv hoff (c := 125) (by omega) hin1 d3
    refine ⟨.obj .nil close, ⟨trivial, hcl⟩, rfl, ?_⟩
    exact (hr1.trans hr3).cast rfl (by simp [AccDoc.render])
  | cons n0 more =>
    cases hseq with
    | cons hl0 hn0 hmore =>
      rw [lookup_even membersShape _ _ rfl 0 rfl] at hl0
      cases hl0
      obtain ⟨wb, k, kv, wk, wv, d0, hwb, hk, hwk, hwv, hd0, rfl, hr2⟩ := kv_inv hoff hin1 hn0
      have hr12 := hr1.trans hr2
      have hin2 : InFile cfg.file
          (accKvNode (strLex k).length kv wk wv d0.render.length d0.tree (p + 1 + wb.length)).rpos := by
        have := hr12.inFile_end
        rw [accKvNode_rpos]
        simp only [List.length_append, List.length_cons, List.length_nil] at this
        have e : p + 1 + wb.length + (strLex k).length + wk.length + 1 + wv.length + d0.render.length =
            p + (0 + 1 + (wb.length + ((strLex k).length + (wk.length + (wv.length + d0.render.length + 1))))) := by omega
        rw [e]; exact this
      obtain ⟨r, hrok, rfl, hr3⟩ := mems_inv hoff more 1 _ rfl hmore (lenCheck_sep rfl _ _ hlen) hin2
      have hx2 : handleResult membersShape (p + 1)
            (accKvNode (strLex k).length kv wk wv d0.render.length d0.tree (p + 1 + wb.length) ::
              r.moreNodes (accKvNode (strLex k).length kv wk wv d0.render.length d0.tree (p + 1 + wb.length)).rpos) =
          .nt sepByTok (accKvNode (strLex k).length kv wk wv d0.render.length d0.tree (p + 1 + wb.length) ::
              r.moreNodes (p + 1 + wb.length + (strLex k).length + wk.length + 1 + wv.length + d0.render.length))
            (p + 1 + wb.length)
            (p + 1 + wb.length + (strLex k).length + wk.length + 1 + wv.length + d0.render.length + r.renderMore.length)
            .object := by
        rw [handleResult_cons membersShape _ _ _ rfl]
        have := mems_last r (accKvNode (strLex k).length kv wk wv d0.render.length d0.tree (p + 1 + wb.length)) _
          (accKvNode_rpos _ _ _ _ _ _ _)
        unfold lastRpos at this
        rw [accKvNode_rpos, this]
        rfl
      have hx2' : handleResult membersShape (runeLeaf 123 p).rpos
          (accKvNode (strLex k).length kv wk wv d0.render.length d0.tree (p + 1 + wb.length) ::
            r.moreNodes (accKvNode (strLex k).length kv wk wv d0.render.length d0.tree
              (p + 1 + wb.length)).rpos) = _ := hx2
      rw [hx2'] at d3 ⊢
      have hr3' : Rd cfg.file (p + ([123] ++ (wb ++ (strLex k ++ (wk ++ 58 :: (wv ++ d0.render))))).length) r.renderMore :=
        hr3.cast (by
          rw [accKvNode_rpos]; simp only [List.length_append, List.length_cons, List.length_nil]; omega) rfl
      have hr123 := hr12.trans hr3'
      have hin3 : InFile cfg.file
          (p + 1 + wb.length + (strLex k).length + wk.length + 1 + wv.length + d0.render.length + r.renderMore.length) := by
        have := hr123.inFile_end
        simp only [List.length_append, List.length_cons, List.length_nil] at this
        have e : p + 1 + wb.length + (strLex k).length + wk.length + 1 + wv.length + d0.render.length + r.renderMore.length =
            p + (0 + 1 + (wb.length + ((strLex k).length + (wk.length + (wv.length + d0.render.length + 1)))) +
              r.renderMore.length) := by omega
        rw [e]; exact this
      obtain ⟨close, hcl, rfl, hr4⟩ := closer_inv hoff (c := 125) (by omega) hin3 d3
      refine ⟨.obj (.cons [] wb k kv wk wv d0 r) close, ⟨⟨wsSp_empty, hwb, hk, hwk, hwv, hd0, hrok⟩, hcl⟩, rfl, ?_⟩
      have hr4' : Rd cfg.file
          (p + (([123] ++ (wb ++ (strLex k ++ (wk ++ 58 :: (wv ++ d0.render))))) ++ r.renderMore).length) (close ++ [93 + 32]) :=
        hr4.cast (by simp only [List.length_append, List.length_cons, List.length_nil]; omega) rfl
      exact (hr123.trans hr4').cast rfl (by simp [AccDoc.render])

/-- the body of the `value` rule: the seven alternatives -/
theorem value_inv {p : Nat} {x : Node} (h : DerivesW cfg (jR cfg) Gjson.valueRule p x) : ValAt cfg p x := by
  intro hin
  obtain ⟨g, hm, dg⟩ := h.name_inv.choice_inv
  simp only [Gjson.alts, List.mem_cons, List.not_mem_nil, or_false] at hm
  rcases hm with rfl | rfl | rfl | rfl | rfl | rfl | rfl
  · obtain ⟨a, ha, hx, hr⟩ := lit_inv (.inl rfl) hin dg
    exact ⟨.lit a, ha, hx, hr⟩
  · obtain ⟨a, ha, hx, hr⟩ := lit_inv (.inr (.inl rfl)) hin dg
    exact ⟨.lit a, ha, hx, hr⟩
  · obtain ⟨a, ha, hx, hr⟩ := lit_inv (.inr (.inr (.inl rfl))) hin dg
    exact ⟨.lit a, ha, hx, hr⟩
  · exact array_inv hoff hin dg
  · exact object_inv hoff hin dg
  · obtain ⟨a, ha, hx, hr⟩ := lit_inv (.inr (.inr (.inr (.inl rfl)))) hin dg
    exact ⟨.lit a, ha, hx, hr⟩
  · obtain ⟨a, ha, hx, hr⟩ := lit_inv (.inr (.inr (.inr (.inr rfl)))) hin dg
    exact ⟨.lit a, ha, hx, hr⟩

/-- the trees of accepted documents are closed under the rule body -/
theorem jR_closed (henv : cfg.env = Gjson.env) : ClosedW cfg (jR cfg) := by
  intro k g pos x hk h
  rw [henv] at hk
  match k, hk with
  | 0, hk =>
    simp only [Gjson.env, List.getElem?_cons_zero, Option.some.injEq] at hk
    subst hk
    exact value_inv hoff h
  | k + 1, _ => trivial

/-! ### the root -/

omit hoff in
theorem setRpos_nl {f : File} (hoff : 1 ≤ f.offset) (n : Node) (htn : IsTN n) (hin : InFile f n.rpos) :
    (setRposNode f .spacesNl n none).1 = bump (wsRun (rest f n.rpos)) n := by
  have := setRposRes_nl f n htn hin hoff
  simp only [setRposRes] at this
  injection this with h1 _
  injection h1

/-- **inversion of the root**: a refined derivation of `Sentence(Trim(value))` at the start of the file -/
theorem root_inv {x : Node} (h : DerivesW cfg (jR cfg) Gjson.root (cfg.file.pos 0) x) :
    ∃ lead d trail, WsNlF lead ∧ WsNlF trail ∧ AccDoc.OK cfg.params d ∧ cfg.file.data = renderAcc lead d trail ∧
      x = sentenceNode (rootTree cfg.file.offset lead d trail) := by
  have hpos : cfg.file.pos 0 = cfg.file.offset := by simp [File.pos]
  rw [hpos] at h
  have hin0 : InFile cfg.file cfg.file.offset := ⟨Nat.le_refl _, by omega⟩
  obtain ⟨x1, x2, d1, d2, rfl⟩ := DerivesW.seqOf2_inv (o := { interp := .select 0 }) h
  obtain ⟨heof, rfl⟩ := d2.eof_inv
  obtain ⟨y, dy, rfl⟩ := d1.rtrim_inv
  obtain ⟨lead, d, hlead, hd, rfl, hr1⟩ := ltrim_value_inv hoff hin0 dy
  have hin1 : InFile cfg.file (d.tree (cfg.file.offset + lead.length)).rpos := by
    have := hr1.inFile_end
    rw [tree_rpos]
    simp only [List.length_append] at this
    have e : cfg.file.offset + lead.length + d.render.length = cfg.file.offset + (lead.length + d.render.length) := by omega
    rw [e]; exact this
  rw [setRpos_nl hoff _ (tree_isTN d _) hin1] at heof ⊢
  obtain ⟨trail, htr, _, hr2, htw, _⟩ := ws_run hoff hin1 .spacesNl
  have hrun : wsRun (rest cfg.file (d.tree (cfg.file.offset + lead.length)).rpos) = trail.length := by
    rw [htw]; rfl
  rw [hrun] at heof ⊢
  have hr2' : Rd cfg.file (cfg.file.offset + (lead ++ d.render).length) trail :=
    hr2.cast (by rw [tree_rpos]; simp only [List.length_append]; omega) rfl
  have hr := hr1.trans hr2'
  have hend : rest cfg.file (cfg.file.offset + ((lead ++ d.render) ++ trail).length) = [] := by
    rw [bump_rpos _ _ (tree_isTN d _), tree_rpos] at heof
    have e : cfg.file.offset + ((lead ++ d.render) ++ trail).length =
        cfg.file.offset + lead.length + d.render.length + trail.length := by
      simp only [List.length_append]; omega
    rw [e]
    exact (isEOF_spec _ _ (e ▸ hr.inFile_end)).1 heof
  refine ⟨lead, d, trail, hlead, fun b hb => isWs_cases (htr b hb), hd, ?_, rfl⟩
  have hdata : rest cfg.file cfg.file.offset = cfg.file.data := by simp [rest]
  rw [← hdata, hr.2, hend]
  simp [renderAcc]

end

end PV.J16Acc
