/-
  The prelude of the statement-level translator (Generated/ProgPrelude.lean) against the primitives of the
  hand-written slice/map heap model (Model/Data.lean): every Go construct the translated functions are built
  from does, on a model slice `sl s` / a model map handle, exactly what the model's primitive does.
  Everything here is about the two hand-written sides; nothing depends on the generated file.
-/
import ParsleyVerif.Proofs.DataSet2
import ParsleyVerif.Proofs.DataMap
import ParsleyVerif.Generated.ProgPrelude
namespace PV.ProgTie
open PV.ProgPrelude

/-- a model slice as a prelude slice header (offset 0, not nil) -/
def sl (s : Data.Slice) : Sl := { arr := s.arr, off := 0, len := s.len, cap := s.cap }

@[simp] theorem sl_arr (s : Data.Slice) : (sl s).arr = s.arr := by cases s; rfl
@[simp] theorem sl_off (s : Data.Slice) : (sl s).off = 0 := by cases s; rfl
@[simp] theorem sl_len (s : Data.Slice) : (sl s).len = s.len := by cases s; rfl
@[simp] theorem sl_cap (s : Data.Slice) : (sl s).cap = s.cap := by cases s; rfl
@[simp] theorem sl_isNil (s : Data.Slice) : (sl s).isNil = false := by cases s; rfl

theorem sl_inj {a b : Data.Slice} (h : sl a = sl b) : a = b := by
  cases a; cases b; simp [sl] at h; simp [h]

/-! ### the monad -/

@[simp] theorem bind_apply {α β : Type} (x : M α) (f : α → M β) (st : St) :
    (x >>= f) st = match x st with
      | .ok a s' => f a s'
      | .panic => .panic
      | .nofuel => .nofuel := rfl

@[simp] theorem pure_apply {α : Type} (a : α) (st : St) : (pure a : M α) st = .ok a st := rfl

/-- the Decidable instance is an explicit argument, so that `simp` unifies it instead of synthesising it -/
@[simp] theorem ite_apply {α : Type} (c : Prop) (inst : Decidable c) (a b : M α) (st : St) :
    (@ite (M α) c inst a b) st = @ite (Res α) c inst (a st) (b st) := by
  split <;> rfl

/-! conditional rewrite rules that decide a generated condition from a proof of it (the discharger is `omega`): the
    Decidable instance is an explicit argument so that `simp` unifies it with whatever instance the term carries -/
theorem dec_true (p : Prop) (inst : Decidable p) (h : p) : @decide p inst = true := by simp [h]
theorem dec_false (p : Prop) (inst : Decidable p) (h : ¬ p) : @decide p inst = false := by simp [h]
theorem ite_pos' {α : Sort _} (c : Prop) (inst : Decidable c) (a b : α) (h : c) : @ite α c inst a b = a := by simp [h]
theorem ite_neg' {α : Sort _} (c : Prop) (inst : Decidable c) (a b : α) (h : ¬ c) : @ite α c inst a b = b := by simp [h]

theorem bind_ok {α β : Type} {x : M α} {f : α → M β} {st st' : St} {a : α} (h : x st = .ok a st') :
    (x >>= f) st = f a st' := by
  simp [h]

/-! ### slices -/

@[simp] theorem cells_mk (h : Data.Heap) (mh : Data.MHeap) (g : Nat → Nat) (a : Nat) :
    cells ⟨h, mh, g⟩ a = Data.cells h a := rfl

@[simp] theorem view_sl (h : Data.Heap) (mh : Data.MHeap) (g : Nat → Nat) (s : Data.Slice) :
    view ⟨h, mh, g⟩ (sl s) = Data.view h s := by
  simp [view, Data.view]

/-- (proved by `cases`, not `rfl`, on purpose: as a `rfl`-lemma `simp` would rewrite inside `decide (… < len …)` without
    touching the Decidable instance, and later conditional rewrites would not match) -/
@[simp] theorem len_sl (s : Data.Slice) : Go.len (sl s) = (s.len : Int) := by cases s; rfl

theorem view_length {h : Data.Heap} {s : Data.Slice} (w : Data.SWF h s) : (Data.view h s).length = s.len := by
  have := w.2.1; have := w.2.2; simp [Data.view]; omega

/-- `s[i]` inside the slice reads what the model reads -/
theorem idx_sl (h : Data.Heap) (mh : Data.MHeap) (g : Nat → Nat) (s : Data.Slice) (w : Data.SWF h s) (i : Int)
    (h0 : 0 ≤ i) (h1 : i < s.len) :
    Go.idx (sl s) i ⟨h, mh, g⟩ = .ok ((Data.view h s).getD i.toNat 0) ⟨h, mh, g⟩ := by
  have hl := view_length w
  have hc : i.toNat < (Data.cells h s.arr).length := by have := w.2.1; have := w.2.2; omega
  have e : (Data.cells h s.arr)[i.toNat]? = some ((Data.view h s).getD i.toNat 0) := by
    simp only [Data.view, List.getD_eq_getElem?_getD, List.getElem?_take]
    rw [if_pos (by omega), List.getElem?_eq_getElem hc]
    rfl
  simp only [Go.idx, sl_len, sl_arr, sl_off, cells_mk, Nat.zero_add, e]
  rw [if_pos ⟨h0, h1⟩]

/-- an index outside the slice is a panic, whatever the array holds -/
theorem idx_panic (s : Sl) (i : Int) (st : St) (h : i < 0 ∨ (s.len : Int) ≤ i) : Go.idx s i st = .panic := by
  simp only [Go.idx]
  rw [if_neg (by omega)]

theorem append_sl (h : Data.Heap) (mh : Data.MHeap) (g : Nat → Nat) (s : Data.Slice) (v : Int) :
    Go.append (sl s) v ⟨h, mh, g⟩ = .ok (sl (Data.append g h s v).2) ⟨(Data.append g h s v).1, mh, g⟩ := by
  unfold Go.append Data.append
  by_cases hc : s.len < s.cap
  · simp [hc, sl, Data.writeCell]
  · simp [hc, sl]
    rfl

theorem mkSlice_sl (h : Data.Heap) (mh : Data.MHeap) (g : Nat → Nat) (l c : Int) (h0 : 0 ≤ l) (h1 : l ≤ c) :
    Go.mkSlice l c ⟨h, mh, g⟩ = .ok (sl (Data.make h l.toNat c.toNat).2) ⟨(Data.make h l.toNat c.toNat).1, mh, g⟩ := by
  simp only [Go.mkSlice]
  rw [if_pos ⟨h0, h1⟩]
  rfl

theorem setIdx_sl (h : Data.Heap) (mh : Data.MHeap) (g : Nat → Nat) (s : Data.Slice) (w : Data.SWF h s) (i : Int) (v : Int)
    (h0 : 0 ≤ i) (h1 : i < s.len) :
    Go.setIdx (sl s) i v ⟨h, mh, g⟩ = .ok () ⟨Data.writeCell h s.arr i.toNat v, mh, g⟩ := by
  have hc : i.toNat < (Data.cells h s.arr).length := by have := w.2.1; have := w.2.2; omega
  simp only [Go.setIdx, sl_len, sl_arr, sl_off, cells_mk, Nat.zero_add]
  rw [if_pos ⟨h0, h1, hc⟩]
  rfl

/-- `copy(dst, src)` into a slice of the same length is the model's `copyInto` -/
theorem copy_sl_into (h : Data.Heap) (mh : Data.MHeap) (g : Nat → Nat) (dst src : Data.Slice) (w : Data.SWF h src)
    (hl : dst.len = src.len) :
    Go.copy (sl dst) (sl src) ⟨h, mh, g⟩ = .ok (src.len : Int) ⟨Data.copyInto h dst src, mh, g⟩ := by
  have hv := view_length w
  simp only [Go.copy, sl_len, sl_arr, sl_off, view_sl, hl, Nat.min_self, Nat.zero_add, List.take_zero, List.nil_append,
    Data.copyInto, Data.setCells]
  rw [List.take_of_length_le (by omega)]
  congr 2
  apply List.ext_getElem?
  intro a
  simp only [List.getElem?_modify]
  by_cases ha : dst.arr = a
  · subst ha; simp [Data.cells, List.getD_eq_getElem?_getD]
    cases h[dst.arr]? <;> simp
  · simp [ha]

/-- `copy(s[i+1:], s[i:])` is the model's `copyShift` -/
theorem copy_shift (h : Data.Heap) (mh : Data.MHeap) (g : Nat → Nat) (arr i n c1 c2 : Nat) (b1 b2 : Bool) (hi : i ≤ n) :
    Go.copy { arr := arr, off := 0 + (i + 1), len := n + 1 - (i + 1), cap := c1, isNil := b1 }
            { arr := arr, off := 0 + i, len := n + 1 - i, cap := c2, isNil := b2 } ⟨h, mh, g⟩ =
      .ok ((n - i : Nat) : Int) ⟨Data.setCells h arr (Data.copyShift (Data.cells h arr) i n), mh, g⟩ := by
  have e1 : min (n + 1 - (i + 1)) (n + 1 - i) = n - i := by omega
  simp only [Go.copy, view, cells_mk, e1, Nat.zero_add, Data.setCells, Data.copyShift]
  have e2 : i + 1 + (n - i) = n + 1 := by omega
  rw [e2, List.take_take]
  have e3 : min (n - i) (n + 1 - i) = n - i := by omega
  rw [e3]
  congr 2
  apply List.ext_getElem?
  intro a
  simp only [List.getElem?_modify]
  by_cases ha : arr = a
  · subst ha; simp [Data.cells, List.getD_eq_getElem?_getD]
    cases h[arr]? <;> simp
  · simp [ha]

theorem sliceFrom_sl (s : Data.Slice) (lo : Int) (st : St) (h0 : 0 ≤ lo) (h1 : lo ≤ s.len) :
    Go.sliceFrom (sl s) lo st =
      .ok { arr := s.arr, off := 0 + lo.toNat, len := s.len - lo.toNat, cap := s.cap - lo.toNat, isNil := false } st := by
  simp [Go.sliceFrom, h0, h1]

/-! ### sort.SearchInts: the assumed meaning (least index with an element ≥ x) is what the transcribed binary search
    of the model returns on an ascending list -/

theorem leastGE_le (l : List Int) (x : Int) : leastGE l x ≤ l.length := by
  induction l with
  | nil => simp [leastGE]
  | cons a r ih => simp only [leastGE]; split <;> simp <;> omega

theorem leastGE_lt (l : List Int) (x : Int) : ∀ k, k < leastGE l x → l.getD k 0 < x := by
  induction l with
  | nil => intro k hk; simp [leastGE] at hk
  | cons a r ih =>
    intro k hk
    simp only [leastGE] at hk
    split at hk
    · omega
    · cases k with
      | zero => simp; omega
      | succ k => simp; exact ih k (by omega)

theorem leastGE_ge (l : List Int) (x : Int) (h : leastGE l x < l.length) : l.getD (leastGE l x) 0 ≥ x := by
  induction l with
  | nil => simp at h
  | cons a r ih =>
    simp only [leastGE] at h ⊢
    split
    · simpa using ‹a ≥ x›
    · rename_i hlt
      rw [if_neg hlt] at h
      simp only [List.getD_cons_succ]
      exact ih (by simpa using h)

/-- the characterisation pins the index down -/
theorem least_unique (l : List Int) (x : Int) (i j : Nat) (hi : i ≤ l.length) (hj : j ≤ l.length)
    (i1 : ∀ k, k < i → l.getD k 0 < x) (i2 : i < l.length → l.getD i 0 ≥ x)
    (j1 : ∀ k, k < j → l.getD k 0 < x) (j2 : j < l.length → l.getD j 0 ≥ x) : i = j := by
  rcases Nat.lt_trichotomy i j with hlt | heq | hgt
  · have := j1 i hlt; have := i2 (by omega); omega
  · exact heq
  · have := i1 j hgt; have := j2 (by omega); omega

theorem leastGE_eq_goSearchInts (l : List Int) (x : Int) (hs : l.Pairwise (· < ·)) :
    leastGE l x = goSearchInts l x := by
  obtain ⟨g1, g2, g3⟩ := Data.goSearchInts_spec l x hs
  exact least_unique l x _ _ (leastGE_le l x) g1 (leastGE_lt l x) (leastGE_ge l x) g2 g3

theorem searchInts_sl (h : Data.Heap) (mh : Data.MHeap) (g : Nat → Nat) (s : Data.Slice) (x : Int)
    (hs : (Data.view h s).Pairwise (· < ·)) :
    Go.searchInts (sl s) x ⟨h, mh, g⟩ = .ok ((goSearchInts (Data.view h s) x : Nat) : Int) ⟨h, mh, g⟩ := by
  simp only [Go.searchInts, view_sl, leastGE_eq_goSearchInts _ _ hs]

/-! ### maps -/

@[simp] theorem mobj_mk (h : Data.Heap) (mh : Data.MHeap) (g : Nat → Nat) (i : Nat) :
    mobj ⟨h, mh, g⟩ i = Data.mobj mh i := rfl

theorem mget_eq (m : List (Int × Int)) (k : Int) : mget m k = Data.mget m k := rfl

theorem mset_eq (m : List (Int × Int)) (k v : Int) : mset m k v = Data.mset m k v := by
  induction m with
  | nil => rfl
  | cons p r ih => obtain ⟨k', v'⟩ := p; simp only [mset, Data.mset, ih]

theorem mapSet_some (h : Data.Heap) (mh : Data.MHeap) (g : Nat → Nat) (i : Nat) (k v : Int) (hi : i < mh.length) :
    Go.mapSet (some i) k v ⟨h, mh, g⟩ = .ok () ⟨h, Data.mwrite mh i k v, g⟩ := by
  simp only [Go.mapSet]
  rw [if_pos hi]
  simp only [Data.mwrite]
  congr 2
  congr 1
  funext o
  exact mset_eq o k v

theorem mapGet_some (h : Data.Heap) (mh : Data.MHeap) (g : Nat → Nat) (i : Nat) (k : Int) :
    Go.mapGet (some i) k ⟨h, mh, g⟩ = .ok ((Data.mget (Data.mobj mh i) k).getD 0) ⟨h, mh, g⟩ := rfl

theorem mapGet2_some (h : Data.Heap) (mh : Data.MHeap) (g : Nat → Nat) (i : Nat) (k : Int) :
    Go.mapGet2 (some i) k ⟨h, mh, g⟩ =
      .ok (match Data.mget (Data.mobj mh i) k with | some v => (v, true) | none => (0, false)) ⟨h, mh, g⟩ := by
  simp only [Go.mapGet2, mobj_mk, mget_eq]
  cases Data.mget (Data.mobj mh i) k <;> rfl

theorem mkMap_mk (h : Data.Heap) (mh : Data.MHeap) (g : Nat → Nat) :
    Go.mkMap ⟨h, mh, g⟩ = .ok (some mh.length) ⟨h, mh ++ [[]], g⟩ := rfl

theorem mapLen_some (h : Data.Heap) (mh : Data.MHeap) (g : Nat → Nat) (i : Nat) :
    Go.mapLen (some i) ⟨h, mh, g⟩ = .ok (((Data.mobj mh i).length : Nat) : Int) ⟨h, mh, g⟩ := rfl

theorem mapEntries_some (h : Data.Heap) (mh : Data.MHeap) (g : Nat → Nat) (i : Nat) :
    Go.mapEntries (some i) ⟨h, mh, g⟩ = .ok (Data.mobj mh i) ⟨h, mh, g⟩ := rfl

end PV.ProgTie
