/-
  Vocabulary and small facts for the productivity invariant of C06 (Proofs/ProdRun.lean):
  "a terminal failed at or after `p`" (`TFge`), "this failure is blamed on an active parser of smaller rank"
  (`Blame`), what the certificate says about the elements of a Sequence-family parser, and loop principles
  for Any / Choice / the Sequence loop that can ESTABLISH a fact (the existing ones only preserve).

  Everything lives in `PV.Prod`.
-/
import ParsleyVerif.Spec.Productive
import ParsleyVerif.Proofs.RunLow
import ParsleyVerif.Proofs.WFCons
namespace PV
namespace Prod
open PV.Text

/-! ### terminal failures at or after a position -/

/-- some terminal / End was tried at or after `p` and did not match -/
def TFge (log : List Ev) (p : Nat) : Prop := ∃ q k, p ≤ q ∧ Ev.termFail q k ∈ log

theorem TFge.mono {log log' : List Ev} {p : Nat} (hs : log <:+ log') : TFge log p → TFge log' p :=
  fun ⟨q, k, hq, hm⟩ => ⟨q, k, hq, hs.subset hm⟩

theorem TFge.le {log : List Ev} {p p' : Nat} (hle : p' ≤ p) : TFge log p → TFge log p' :=
  fun ⟨q, k, hq, hm⟩ => ⟨q, k, Nat.le_trans hle hq, hm⟩

theorem TFge.head (log : List Ev) (p q : Nat) (k : ErrKind) (h : p ≤ q) : TFge (Ev.termFail q k :: log) p :=
  ⟨q, k, h, List.mem_cons_self ..⟩

/-! ### the left-recursion context and the certificate's live sets -/

/-- every parser active at the call position is in `L` -/
def LiveIn (L : List Nat) (ctx : Ctx) : Prop := ∀ j, 1 ≤ ctx.get j → j ∈ L

theorem LiveIn.nil (L : List Nat) : LiveIn L [] := by
  intro j hj
  rw [Ctx.get_nil] at hj
  omega

theorem LiveIn.inc {L : List Nat} {ctx : Ctx} (h : LiveIn L ctx) (i : Nat) : LiveIn (i :: L) (ctx.inc i) := by
  intro j hj
  by_cases hji : j = i
  · subst hji; exact List.mem_cons_self ..
  · rw [Ctx.get_inc_other _ _ _ hji] at hj
    exact List.mem_cons_of_mem _ (h j hj)

theorem LiveIn.sub {L L' : List Nat} {ctx : Ctx} (h : LiveIn L ctx) (hs : ∀ j ∈ L, j ∈ L') : LiveIn L' ctx :=
  fun j hj => hs j (h j hj)

theorem minRank_le (c : ProdCert) : ∀ (L : List Nat) (j : Nat), j ∈ L → minRank c L ≤ c.prank j
  | [], j, h => by cases h
  | i :: L, j, h => by
    simp only [minRank]
    cases h with
    | head => exact Nat.min_le_left _ _
    | tail _ hm => exact Nat.le_trans (Nat.min_le_right _ _) (minRank_le c L j hm)

/-- the failure is blamed on the curtailment of a parser that is active at the call position and has rank
    below `r` -/
def Blame (c : ProdCert) (ctx : Ctx) (cp : List Nat) (r : Nat) : Prop :=
  ∃ j, j ∈ cp ∧ 1 ≤ ctx.get j ∧ c.prank j < r

theorem Blame.not_nil {c : ProdCert} {cp : List Nat} {r : Nat} : ¬ Blame c [] cp r := by
  rintro ⟨j, _, hj, _⟩
  rw [Ctx.get_nil] at hj
  omega

/-- a parser that is productive below the rank of everything active cannot be blamed -/
theorem Blame.not_firm {c : ProdCert} {L : List Nat} {ctx : Ctx} {cp : List Nat} (hl : LiveIn L ctx) :
    ¬ Blame c ctx cp (minRank c L) := by
  rintro ⟨j, _, hj, hr⟩
  have := minRank_le c L j (hl j hj)
  omega

theorem Blame.mono_cp {c : ProdCert} {ctx : Ctx} {cp cp' : List Nat} {r : Nat} (h : ∀ j ∈ cp, j ∈ cp') :
    Blame c ctx cp r → Blame c ctx cp' r :=
  fun ⟨j, hj, h1, h2⟩ => ⟨j, h j hj, h1, h2⟩

theorem Blame.mono_r {c : ProdCert} {ctx : Ctx} {cp : List Nat} {r r' : Nat} (h : r ≤ r') :
    Blame c ctx cp r → Blame c ctx cp r' :=
  fun ⟨j, hj, h1, h2⟩ => ⟨j, hj, h1, Nat.lt_of_lt_of_le h2 h⟩

/-! ### IntSet.Union never loses a member -/

theorem mem_cpUnion_left : ∀ (a b : List Nat) (k : Nat), k ∈ a → k ∈ cpUnion a b
  | [], b, k, h => by cases h
  | x :: xs, [], k, h => by simpa [cpUnion] using h
  | x :: xs, y :: ys, k, h => by
    unfold cpUnion
    split
    · cases h with
      | head => exact List.mem_cons_self ..
      | tail _ hm => exact List.mem_cons_of_mem _ (mem_cpUnion_left xs (y :: ys) k hm)
    · split
      · exact List.mem_cons_of_mem _ (mem_cpUnion_left (x :: xs) ys k h)
      · cases h with
        | head => exact List.mem_cons_self ..
        | tail _ hm => exact List.mem_cons_of_mem _ (mem_cpUnion_left xs ys k hm)

theorem mem_cpUnion_right : ∀ (a b : List Nat) (k : Nat), k ∈ b → k ∈ cpUnion a b
  | [], b, k, h => by simpa [cpUnion] using h
  | x :: xs, [], k, h => by cases h
  | x :: xs, y :: ys, k, h => by
    unfold cpUnion
    split
    · exact List.mem_cons_of_mem _ (mem_cpUnion_right xs (y :: ys) k h)
    · split
      · cases h with
        | head => exact List.mem_cons_self ..
        | tail _ hm => exact List.mem_cons_of_mem _ (mem_cpUnion_right (x :: xs) ys k hm)
      · rename_i h1 h2
        have hxy : x = y := by omega
        cases h with
        | head => rw [hxy]; exact List.mem_cons_self ..
        | tail _ hm => exact List.mem_cons_of_mem _ (mem_cpUnion_right xs ys k hm)

/-! ### ResultCache.Get and leftRecCtx.Filter -/

theorem get_pos_mem {ctx : Ctx} {j : Nat} (h : 1 ≤ ctx.get j) : ∃ kv ∈ ctx, kv.1 = j ∧ kv.2 = ctx.get j := by
  unfold Ctx.get at h ⊢
  cases hf : List.find? (fun kv => kv.1 == j) ctx with
  | none => simp [hf] at h
  | some kv =>
    have hm := List.mem_of_find?_eq_some hf
    have hk := List.find?_some hf
    simp only [beq_iff_eq] at hk
    exact ⟨kv, hm, hk, by simp⟩

/-- a hit: every counter stored with the entry is at most the current one -/
theorem cacheGet_live {cch : List CacheEntry} {idx pos : Nat} {ctx : Ctx} {e : CacheEntry}
    (h : cacheGet cch idx pos ctx = some e) (j : Nat) (hj : 1 ≤ e.ctx.get j) : 1 ≤ ctx.get j := by
  obtain ⟨kv, hm, hk1, hk2⟩ := get_pos_mem hj
  unfold cacheGet at h
  split at h
  · cases h
  · rename_i e' hf
    split at h
    · rename_i hall
      cases h
      have := List.all_eq_true.mp hall kv hm
      simp only [Bool.not_eq_true', decide_eq_false_iff_not, Nat.not_lt] at this
      rw [hk1] at this
      omega
    · cases h

theorem find_filter {α : Type} (p q : α → Bool) (h : ∀ x, p x = true → q x = true) :
    ∀ l : List α, (l.filter q).find? p = l.find? p
  | [] => rfl
  | x :: l => by
    have ih := find_filter p q h l
    cases hq : q x with
    | true =>
      rw [List.filter_cons_of_pos hq, List.find?_cons, List.find?_cons]
      cases p x with
      | true => rfl
      | false => exact ih
    | false =>
      have hp : p x = false := by
        cases hp : p x with
        | false => rfl
        | true => rw [h x hp] at hq; cases hq
      rw [List.filter_cons_of_neg (by simp [hq]), List.find?_cons, hp]
      exact ih

theorem get_filter {ctx : Ctx} {keys : List Nat} {j : Nat} (hj : j ∈ keys) : (ctx.filter keys).get j = ctx.get j := by
  unfold Ctx.get Ctx.filter
  rw [find_filter (fun kv : Nat × Nat => kv.1 == j) (fun kv => keys.contains kv.1)]
  intro x hx
  simp only [beq_iff_eq] at hx
  rw [hx]
  simpa using hj

/-! ### results: a non-nil result has an alternative -/

def NE (r : Res) : Prop := r.isNil = false → r.alts ≠ []

theorem NE_nil : NE .nil := by intro h; cases h
theorem NE_one (n : Node) : NE (.one n) := by intro _ h; cases h

theorem NE_of_isNil {r : Res} (h : r.isNil = true) : NE r := by intro h'; rw [h] at h'; cases h'

theorem NE_appendNode {a b : Res} (ha : NE a) (hb : NE b) : NE (appendNode a b) := by
  intro hn
  rw [appendNode_isNil] at hn
  cases hna : a.isNil with
  | false =>
    have := ha hna
    cases hl : a.alts with
    | nil => exact absurd hl this
    | cons x xs =>
      intro hc
      have hx : x ∈ (appendNode a b).alts := mem_appendNode_left a b x (by rw [hl]; exact List.mem_cons_self ..)
      rw [hc] at hx; cases hx
  | true =>
    rw [hna] at hn
    simp only [Bool.true_and] at hn
    have := hb hn
    cases hl : b.alts with
    | nil => exact absurd hl this
    | cons x xs =>
      intro hc
      have hx : x ∈ (appendNode a b).alts := mem_appendNode_right a b x (by rw [hl]; exact List.mem_cons_self ..)
      rw [hc] at hx; cases hx

theorem appendNode_one_not_nil (a : Res) (n : Node) : (appendNode a (.one n)).isNil = false := by
  rw [appendNode_isNil]; simp [Res.isNil]

theorem isNil_false_of_mem {r : Res} {x : Node} (h : x ∈ r.alts) : r.isNil = false := by
  cases r with
  | nil => cases h
  | one n => rfl
  | list l => rfl

/-! ### how Any / Choice file an error -/

theorem altErr_cases (pos : Nat) (a : AltSt) (e2 : Err) :
    ((altErr pos a (some e2)).err = a.err ∧ (altErr pos a (some e2)).nf = a.nf) ∨
    ((altErr pos a (some e2)).err = some e2 ∧ (altErr pos a (some e2)).nf = a.nf ∧
      (e2.pos > pos ∨ e2.kind.isNotFound = false)) ∨
    ((altErr pos a (some e2)).err = a.err ∧ (altErr pos a (some e2)).nf = some e2 ∧
      e2.pos ≤ pos ∧ e2.kind.isNotFound = true) := by
  cases ha : a.err with
  | none =>
    by_cases h2 : e2.pos > pos
    · refine .inr (.inl ?_)
      simp [altErr, ha, h2]
    · cases hk : e2.kind.isNotFound with
      | false =>
        refine .inr (.inl ?_)
        simp [altErr, ha, h2, hk]
      | true =>
        refine .inr (.inr ?_)
        simp [altErr, ha, h2, hk]
        omega
  | some c =>
    by_cases h1 : e2.pos ≥ c.pos
    · by_cases h2 : e2.pos > pos
      · refine .inr (.inl ?_)
        simp [altErr, ha, h1, h2]
      · cases hk : e2.kind.isNotFound with
        | false =>
          refine .inr (.inl ?_)
          simp [altErr, ha, h1, h2, hk]
        | true =>
          refine .inr (.inr ?_)
          simp [altErr, ha, h1, h2, hk]
          omega
    · refine .inl ?_
      simp [altErr, ha, h1]

/-! ### what the certificate says about the elements of a Sequence-family parser -/

theorem prAll_get (c : ProdCert) (r : Nat) : ∀ (gs : List G) (d : Nat) (g : G), prAll c r gs = true → gs[d]? = some g →
    pr c r g = true
  | [], d, g, _, h => by simp at h
  | g0 :: gs, 0, g, hp, h => by
    simp only [prAll, Bool.and_eq_true] at hp
    simp only [List.getElem?_cons_zero, Option.some.injEq] at h
    subst h; exact hp.1
  | g0 :: gs, d + 1, g, hp, h => by
    simp only [prAll, Bool.and_eq_true] at hp
    simp only [List.getElem?_cons_succ] at h
    exact prAll_get c r gs d g hp.2 h

/-- an element whose failure makes the Sequence fail (no emission) is productive below the same rank -/
theorem prShape {c : ProdCert} {r : Nat} {g : G} {sh : SeqShape} (hs : g.shape = some sh) (hp : pr c r g = true)
    (d : Nat) (g' : G) (hl : sh.lookup d = some g') (hlc : sh.lenCheck d = false) : pr c r g' = true := by
  cases g with
  | seq k gs o =>
    simp only [G.shape, Option.some.injEq] at hs
    subst hs
    simp only at hl hlc
    cases k with
    | seqOf => simp only [pr] at hp; exact prAll_get c r gs d g' hp hl
    | seqFirstOrAll => simp only [pr] at hp; exact prAll_get c r gs d g' hp hl
    | seqTry =>
      simp only [pr] at hp
      have hd : d < gs.length := (List.getElem?_eq_some_iff.mp hl).1
      simp only [Bool.and_eq_false_iff, decide_eq_false_iff_not, Nat.not_lt, Nat.le_zero_eq, Nat.not_le] at hlc
      have hd0 : d = 0 := by omega
      subst hd0
      cases gs with
      | nil => simp at hl
      | cons g0 rest =>
        simp only [List.getElem?_cons_zero, Option.some.injEq] at hl
        subst hl
        simpa [prHead] using hp
  | many g1 ae o =>
    simp only [G.shape, Option.some.injEq] at hs
    subst hs
    simp only [Option.some.injEq] at hl
    subst hl
    simp only [Bool.or_eq_false_iff] at hlc
    simp only [pr, hlc.1, Bool.false_or] at hp
    exact hp
  | sepBy v s ae o =>
    simp only [G.shape, Option.some.injEq] at hs
    subst hs
    simp only at hl hlc
    simp only [pr] at hp
    split at hl
    · cases hl; exact hp
    · rename_i hodd
      exfalso
      simp only [Bool.or_eq_false_iff, Bool.and_eq_false_iff, beq_eq_false_iff_ne, ne_eq] at hlc
      simp only [beq_iff_eq] at hodd
      omega
  | _ => simp [G.shape] at hs

/-- the missing element of a Sequence that is productive: the length check holds -/
theorem prShape_none {c : ProdCert} {r : Nat} {g : G} {sh : SeqShape} (hs : g.shape = some sh) (hp : pr c r g = true)
    (hl : sh.lookup 0 = none) : sh.lenCheck 0 = true := by
  cases g with
  | seq k gs o =>
    simp only [G.shape, Option.some.injEq] at hs
    subst hs
    simp only at hl ⊢
    have hgs : gs = [] := by
      cases gs with
      | nil => rfl
      | cons g0 rest => simp at hl
    subst hgs
    cases k with
    | seqOf => rfl
    | seqFirstOrAll => rfl
    | seqTry => simp [pr, prHead] at hp
  | many g1 ae o =>
    simp only [G.shape, Option.some.injEq] at hs
    subst hs
    simp at hl
  | sepBy v s ae o =>
    simp only [G.shape, Option.some.injEq] at hs
    subst hs
    simp at hl
  | _ => simp [G.shape] at hs

/-- beyond the first element: where the elements end, the length check holds -/
theorem lookupNone_len {g : G} {sh : SeqShape} (hs : g.shape = some sh) (d : Nat) (hd : 1 ≤ d)
    (hl : sh.lookup d = none) (hpre : ∀ i, i < d → sh.lookup i ≠ none) : sh.lenCheck d = true := by
  cases g with
  | seq k gs o =>
    simp only [G.shape, Option.some.injEq] at hs
    subst hs
    simp only at hl hpre ⊢
    have h1 : gs.length ≤ d := by simpa using hl
    have h2 : d ≤ gs.length := by
      by_cases hc : d ≤ gs.length
      · exact hc
      · exfalso
        exact hpre gs.length (by omega) (by simp)
    have hd' : d = gs.length := by omega
    subst hd'
    cases k with
    | seqOf => simp
    | seqTry => simp; omega
    | seqFirstOrAll => simp
  | many g1 ae o =>
    simp only [G.shape, Option.some.injEq] at hs
    subst hs
    simp at hl
  | sepBy v s ae o =>
    simp only [G.shape, Option.some.injEq] at hs
    subst hs
    simp only at hl
    split at hl <;> cases hl
  | _ => simp [G.shape] at hs

/-- the elements of `okSeq`: element `d` is checked against `L` when everything before it may be empty,
    against the empty list otherwise; every element but the first is productive below `minRank` of its list -/
theorem okSeq_get (c : ProdCert) : ∀ (gs : List G) (L : List Nat) (first : Bool) (d : Nat) (g : G),
    okSeq c L first gs = true → gs[d]? = some g →
    ∃ Ld, ok c Ld g = true ∧ ((first = false ∨ 0 < d) → pr c (minRank c Ld) g = true) ∧
      ((∀ i, i < d → ∀ gi, gs[i]? = some gi → mayBeEmpty c.wf gi = true) → Ld = L)
  | [], _, _, _, _, _, h => by simp at h
  | g0 :: gs, L, first, 0, g, hok, h => by
    simp only [okSeq, Bool.and_eq_true, Bool.or_eq_true] at hok
    simp only [List.getElem?_cons_zero, Option.some.injEq] at h
    subst h
    refine ⟨L, hok.1.1, ?_, fun _ => rfl⟩
    intro hf
    cases hf with
    | inl hf => cases hok.1.2 with
      | inl h1 => rw [hf] at h1; cases h1
      | inr h1 => exact h1
    | inr hf => omega
  | g0 :: gs, L, first, d + 1, g, hok, h => by
    simp only [okSeq, Bool.and_eq_true] at hok
    simp only [List.getElem?_cons_succ] at h
    obtain ⟨Ld, h1, h2, h3⟩ := okSeq_get c gs _ false d g hok.2 h
    refine ⟨Ld, h1, fun _ => h2 (.inl rfl), ?_⟩
    intro hpre
    have h0 : mayBeEmpty c.wf g0 = true := hpre 0 (by omega) g0 rfl
    have := h3 (fun i hi gi hgi => hpre (i + 1) (by omega) gi (by simpa using hgi))
    rw [this, h0]
    rfl

/-- what `ok` says about element `d` of a Sequence-family parser -/
theorem okShape {c : ProdCert} {L : List Nat} {g : G} {sh : SeqShape} (hs : g.shape = some sh)
    (hok : ok c L g = true) (d : Nat) (g' : G) (hl : sh.lookup d = some g') :
    ∃ Ld, ok c Ld g' = true ∧
      ((0 < d ∨ sh.lenCheck 0 = true) → pr c (minRank c Ld) g' = true) ∧
      ((∀ i, i < d → ∀ gi, sh.lookup i = some gi → mayBeEmpty c.wf gi = true) → Ld = L) := by
  cases g with
  | seq k gs o =>
    simp only [G.shape, Option.some.injEq] at hs
    subst hs
    simp only at hl ⊢
    simp only [ok] at hok
    obtain ⟨Ld, h1, h2, h3⟩ := okSeq_get c gs L true d g' hok hl
    refine ⟨Ld, h1, ?_, h3⟩
    intro hd
    cases hd with
    | inl hd => exact h2 (.inr hd)
    | inr hd =>
      -- lenCheck 0 of a Sequence with an element 0 is false
      exfalso
      have hlen : 0 < gs.length := by
        have := (List.getElem?_eq_some_iff.mp hl).1; omega
      cases k with
      | seqOf => simp at hd; omega
      | seqTry => simp at hd
      | seqFirstOrAll => simp at hd; omega
  | many g1 ae o =>
    simp only [G.shape, Option.some.injEq] at hs
    subst hs
    simp only [Option.some.injEq] at hl
    subst hl
    simp only [ok, Bool.and_eq_true, Bool.or_eq_true, Bool.not_eq_true'] at hok
    obtain ⟨⟨⟨⟨h1, h2⟩, h3⟩, h4⟩, h5⟩ := hok
    by_cases hd : d = 0
    · subst hd
      refine ⟨L, h1, ?_, fun _ => rfl⟩
      intro hc
      cases hc with
      | inl hc => omega
      | inr hc =>
        simp only [Nat.lt_irrefl, decide_false, Bool.or_false] at hc
        cases h4 with
        | inl h4 => rw [hc] at h4; cases h4
        | inr h4 => exact h4
    · cases hm : mayBeEmpty c.wf g1 with
      | true =>
        refine ⟨L, h1, fun _ => ?_, fun _ => rfl⟩
        cases h5 with
        | inl h5 => rw [hm] at h5; cases h5
        | inr h5 => exact h5
      | false =>
        refine ⟨[], h2, fun _ => h3, ?_⟩
        intro hpre
        have := hpre 0 (by omega) g1 rfl
        rw [hm] at this; cases this
  | sepBy v s ae o =>
    simp only [G.shape, Option.some.injEq] at hs
    subst hs
    simp only at hl ⊢
    simp only [ok, Bool.and_eq_true, Bool.or_eq_true, Bool.not_eq_true', Bool.and_eq_false_iff] at hok
    obtain ⟨⟨⟨⟨⟨⟨⟨h1, h2⟩, h3⟩, h4⟩, h5⟩, h6⟩, h7⟩, h8⟩ := hok
    split at hl
    · -- the value parser
      rename_i hev
      cases hl
      by_cases hd : d = 0
      · subst hd
        refine ⟨L, h1, ?_, fun _ => rfl⟩
        intro hc
        cases hc with
        | inl hc => omega
        | inr hc =>
          have hae : ae = true := by simpa using hc
          cases h6 with
          | inl h6 => rw [hae] at h6; cases h6
          | inr h6 => exact h6
      · simp only [beq_iff_eq] at hev
        cases hm : (mayBeEmpty c.wf g' && mayBeEmpty c.wf s) with
        | true =>
          refine ⟨L, h1, fun _ => ?_, fun _ => rfl⟩
          simp only [Bool.and_eq_true] at hm
          rcases h8 with (h8 | h8) | h8
          · rw [hm.1] at h8; cases h8
          · rw [hm.2] at h8; cases h8
          · exact h8
        | false =>
          refine ⟨[], h2, fun _ => h4, ?_⟩
          intro hpre
          have e0 := hpre 0 (by omega) g' (by simp)
          have e1 := hpre 1 (by omega) s (by simp)
          rw [e0, e1] at hm; cases hm
    · -- the separator
      rename_i hodd
      cases hl
      simp only [beq_iff_eq] at hodd
      have hd : 0 < d := by omega
      cases hm : mayBeEmpty c.wf v with
      | true =>
        cases h7 with
        | inl h7 => rw [hm] at h7; cases h7
        | inr h7 => exact ⟨L, h7.1, fun _ => h7.2, fun _ => rfl⟩
      | false =>
        refine ⟨[], h3, fun _ => h5, ?_⟩
        intro hpre
        have e0 := hpre 0 hd v (by simp)
        rw [e0] at hm; cases hm
  | _ => simp [G.shape] at hs

/-! ### loop principles that can establish a fact -/

/-- Any: the invariant may mention the alternatives still to be tried -/
theorem anyLoop_ind2 (r : RunFn) (ctx : Ctx) (pos : Nat) (A : List G → AltSt → St → Prop)
    (step : ∀ g rest a st o st', A (g :: rest) a st → r g ctx pos st.regCall = some (o, st') →
      A rest (altErr pos { a with cp := cpUnion a.cp o.cp, res := appendNode a.res o.res } o.err) st') :
    ∀ (gs : List G) a st a' st', A gs a st → anyLoop r ctx pos gs a st = some (a', st') → A [] a' st' := by
  intro gs
  induction gs with
  | nil =>
    intro a st a' st' hA h
    simp only [anyLoop] at h
    cases h; exact hA
  | cons g gs ih =>
    intro a st a' st' hA h
    simp only [anyLoop] at h
    split at h
    · cases h
    · rename_i o st1 hr
      exact ih _ _ _ _ (step g gs a st o st1 hA hr) h

/-- Choice: the same, with a separate conclusion for the early return -/
theorem choiceLoop_ind2 (r : RunFn) (ctx : Ctx) (pos : Nat) (A : List G → AltSt → St → Prop)
    (Fin : Option Out → AltSt → St → Prop)
    (hnil : ∀ a st, A [] a st → Fin none a st)
    (step : ∀ g rest a st o st', A (g :: rest) a st → r g ctx pos st.regCall = some (o, st') →
      (o.res.isNil = false →
        Fin (some ⟨o.res, (altErr pos { a with cp := cpUnion a.cp o.cp } o.err).cp, none⟩)
          (altErr pos { a with cp := cpUnion a.cp o.cp } o.err)
          (st'.setError (altErr pos { a with cp := cpUnion a.cp o.cp } o.err).err)) ∧
      (o.res.isNil = true → A rest (altErr pos { a with cp := cpUnion a.cp o.cp } o.err) st')) :
    ∀ (gs : List G) a st out a' st', A gs a st → choiceLoop r ctx pos gs a st = some (out, a', st') →
      Fin out a' st' := by
  intro gs
  induction gs with
  | nil =>
    intro a st out a' st' hA h
    simp only [choiceLoop] at h
    cases h; exact hnil _ _ hA
  | cons g gs ih =>
    intro a st out a' st' hA h
    simp only [choiceLoop] at h
    split at h
    · cases h
    · rename_i o st1 hr
      have hs := step g gs a st o st1 hA hr
      by_cases hn : o.res.isNil = true
      · simp only [hn, Bool.not_true, Bool.false_eq_true, ↓reduceIte] at h
        exact ih _ _ _ _ _ (hs.2 hn) h
      · have hn' : o.res.isNil = false := by simpa using hn
        simp only [hn', Bool.not_false, ↓reduceIte] at h
        cases h
        exact hs.1 hn'

/-- the loop over the alternatives of one Sequence element, over a NON-EMPTY list: `E` is how the state
    evolves (transitive), `Q` is established by every alternative (so by the last one) -/
theorem seqAlts_est (k : Node → SeqSt → St → Option (Bool × SeqSt × St))
    (E : SeqSt → St → SeqSt → St → Prop) (Q : SeqSt → St → Prop)
    (Etrans : ∀ a b c d e f, E a b c d → E c d e f → E a b e f)
    (P : Node → SeqSt → St → Prop)
    (Pstable : ∀ n ss st ss' st', P n ss st → E ss st ss' st' → P n ss' st') :
    ∀ (l : List Node), l ≠ [] →
      (∀ n ∈ l, ∀ ss st b ss' st', P n ss st → k n ss st = some (b, ss', st') → E ss st ss' st' ∧ Q ss' st') →
      ∀ ss st b ss' st', (∀ n ∈ l, P n ss st) → seqAlts k l ss st = some (b, ss', st') →
        E ss st ss' st' ∧ Q ss' st' := by
  intro l
  induction l with
  | nil => intro h; exact absurd rfl h
  | cons n rest ih =>
    intro _ hk ss st b ss' st' hP h
    simp only [seqAlts] at h
    split at h
    · cases h
    · rename_i ss1 st1 hk1
      cases h
      exact hk n (List.mem_cons_self ..) _ _ _ _ _ (hP n (List.mem_cons_self ..)) hk1
    · rename_i ss1 st1 hk1
      have e1 := hk n (List.mem_cons_self ..) _ _ _ _ _ (hP n (List.mem_cons_self ..)) hk1
      cases rest with
      | nil =>
        simp only [seqAlts] at h
        cases h
        exact e1
      | cons m rest' =>
        have e2 := ih (by simp) (fun n' hn' => hk n' (List.mem_cons_of_mem _ hn')) ss1 st1 b ss' st'
          (fun n' hn' => Pstable _ _ _ _ _ (hP n' (List.mem_cons_of_mem _ hn')) e1.1) h
        exact ⟨Etrans _ _ _ _ _ _ e1.1 e2.1, e2.2⟩

/-- the Sequence loop: every call of `parse(depth, …)` establishes `Q` -/
theorem seqParse_est (r : RunFn) (sh : SeqShape)
    (J : Frame → SeqSt → St → Prop)
    (E : SeqSt → St → SeqSt → St → Prop) (Q : SeqSt → St → Prop)
    (Etrans : ∀ a b c d e f, E a b c d → E c d e f → E a b e f)
    (Jstable : ∀ fr ss st ss' st', J fr ss st → E ss st ss' st' → J fr ss' st')
    (hcall : ∀ fr ss st g o st1, J fr ss st → fr.depth = fr.nodes.length → sh.lookup fr.depth = some g →
        r g fr.ctx fr.pos st.regCall = some (o, st1) →
        (o.res.isNil = false →
          E ss st (seqAfter fr.merge ss o) st1 ∧ o.res.alts ≠ [] ∧
          ∀ n ∈ o.res.alts, J (fr.next n) (seqAfter fr.merge ss o) st1) ∧
        (o.res.isNil = true → sh.lenCheck fr.depth = true →
          E ss st (seqEmit sh fr (seqAfter fr.merge ss o)) st1 ∧ Q (seqEmit sh fr (seqAfter fr.merge ss o)) st1) ∧
        (o.res.isNil = true → sh.lenCheck fr.depth = false →
          E ss st (seqAfter fr.merge ss o) st1 ∧ Q (seqAfter fr.merge ss o) st1))
    (hnone : ∀ fr ss st, J fr ss st → fr.depth = fr.nodes.length → sh.lookup fr.depth = none →
        sh.lenCheck fr.depth = true ∧
        E ss st (seqEmit sh fr (seqAfter fr.merge ss ⟨.nil, [], none⟩)) st ∧
        Q (seqEmit sh fr (seqAfter fr.merge ss ⟨.nil, [], none⟩)) st) :
    ∀ (fuel : Nat) (fr : Frame) ss st b ss' st', J fr ss st → fr.depth = fr.nodes.length →
      seqParse r sh fuel fr.depth fr.nodes fr.ctx fr.pos fr.merge ss st = some (b, ss', st') →
      E ss st ss' st' ∧ Q ss' st' := by
  intro fuel
  induction fuel with
  | zero => intro fr ss st b ss' st' _ _ h; simp [seqParse] at h
  | succ fuel ih =>
    intro fr ss st b ss' st' hJ hd h
    simp only [seqParse] at h
    cases hl : sh.lookup fr.depth with
    | none =>
      simp only [hl] at h
      obtain ⟨hlc, hE, hQ⟩ := hnone fr ss st hJ hd hl
      simp only [hlc, ↓reduceIte] at h
      by_cases hdp : fr.depth > 0
      · simp only [hdp, ↓reduceIte] at h
        cases h
        constructor
        · simpa [seqEmit, seqAfter, hdp] using hE
        · simpa [seqEmit, seqAfter, hdp] using hQ
      · simp only [hdp, ↓reduceIte] at h
        cases h
        constructor
        · simpa [seqEmit, seqAfter, hdp] using hE
        · simpa [seqEmit, seqAfter, hdp] using hQ
    | some g =>
      simp only [hl] at h
      split at h
      · cases h
      · rename_i o st1 hr
        obtain ⟨hnn, hemit, hfail⟩ := hcall fr ss st g o st1 hJ hd hl hr
        have hss : (if fr.merge = true then
              { cp := cpUnion ss.cp o.cp, result := ss.result, err := pickErr ss.err o.err : SeqSt }
            else { cp := ss.cp, result := ss.result, err := pickErr ss.err o.err }) = seqAfter fr.merge ss o := by
          unfold seqAfter
          by_cases hm : fr.merge = true <;> simp [hm]
        split at h
        · rename_i hnil
          have hnil' : o.res.isNil = true := by rw [hnil]; rfl
          by_cases hlc : sh.lenCheck fr.depth = true
          · simp only [hlc, ↓reduceIte] at h
            obtain ⟨hE, hQ⟩ := hemit hnil' hlc
            by_cases hdp : fr.depth > 0
            · simp only [hdp, ↓reduceIte] at h
              cases h
              rw [← hss] at hE hQ
              constructor
              · simpa [seqEmit, hdp] using hE
              · simpa [seqEmit, hdp] using hQ
            · simp only [hdp, ↓reduceIte] at h
              cases h
              rw [← hss] at hE hQ
              constructor
              · simpa [seqEmit, hdp] using hE
              · simpa [seqEmit, hdp] using hQ
          · have hlc' : sh.lenCheck fr.depth = false := by simpa using hlc
            simp only [hlc', Bool.false_eq_true, ↓reduceIte] at h
            cases h
            rw [hss]; exact hfail hnil' hlc'
        · rename_i hnn'
          have hnn2 : o.res.isNil = false := by
            cases ho : o.res with
            | nil => exact absurd ho hnn'
            | one n => rfl
            | list l => rfl
          obtain ⟨hE1, hne, hnext⟩ := hnn hnn2
          rw [hss] at h
          have := seqAlts_est _ E Q Etrans (fun n ss st => J (fr.next n) ss st)
            (fun n ss st ss' st' hP hE => Jstable _ _ _ _ _ hP hE) o.res.alts hne
            (by
              intro n _ ss2 st2 b2 ss3 st3 hJ2 hk
              have := ih (fr.next n) ss2 st2 b2 ss3 st3 hJ2 (by simp [Frame.next, hd])
              apply this
              simpa [Frame.next] using hk)
            _ _ b ss' st' hnext h
          exact ⟨Etrans _ _ _ _ _ _ hE1 this.1, this.2⟩

end Prod
end PV
