/-
  The names a grammar carries (C06): the (body, name) pairs of its `Name` combinators and the labels of its
  Names and named Sequences, as lists computed from the term; and the lemma that turns the local side
  condition `LocErr` stated with ANY name relations into the one stated with these canonical lists.
-/
import ParsleyVerif.Proofs.RunErr
namespace PV
open PV.Text

mutual
/-- the (body, name) pairs of the `Name` combinators inside `g` -/
def G.nameBodies : G → List (G × Bytes)
  | .term _ => []
  | .empty => []
  | .eof => []
  | .ref _ => []
  | .memo _ g => g.nameBodies
  | .any gs => nameBodiesL gs
  | .choice gs => nameBodiesL gs
  | .seq _ gs _ => nameBodiesL gs
  | .many g _ _ => g.nameBodies
  | .sepBy v s _ _ => v.nameBodies ++ s.nameBodies
  | .optional g => g.nameBodies
  | .name g nm => (g, nm) :: g.nameBodies
  | .ltrim g _ => g.nameBodies
  | .rtrim g _ => g.nameBodies
  | .single g => g.nameBodies
  | .suppress g => g.nameBodies
def nameBodiesL : List G → List (G × Bytes)
  | [] => []
  | g :: gs => g.nameBodies ++ nameBodiesL gs
end

mutual
/-- the names carried by the `Name` combinators and the named Sequences inside `g` -/
def G.labels : G → List Bytes
  | .term _ => []
  | .empty => []
  | .eof => []
  | .ref _ => []
  | .memo _ g => g.labels
  | .any gs => labelsL gs
  | .choice gs => labelsL gs
  | .seq _ gs o => o.name.toList ++ labelsL gs
  | .many g _ o => o.name.toList ++ g.labels
  | .sepBy v s _ o => o.name.toList ++ (v.labels ++ s.labels)
  | .optional g => g.labels
  | .name g nm => nm :: g.labels
  | .ltrim g _ => g.labels
  | .rtrim g _ => g.labels
  | .single g => g.labels
  | .suppress g => g.labels
def labelsL : List G → List Bytes
  | [] => []
  | g :: gs => g.labels ++ labelsL gs
end

theorem mem_nameBodiesL {g : G} : ∀ {gs : List G}, g ∈ gs → ∀ p ∈ g.nameBodies, p ∈ nameBodiesL gs
  | g' :: gs, hm, p, hp => by
    simp only [nameBodiesL, List.mem_append]
    cases hm with
    | head => exact .inl hp
    | tail _ hm => exact .inr (mem_nameBodiesL hm p hp)

theorem mem_labelsL {g : G} : ∀ {gs : List G}, g ∈ gs → ∀ l ∈ g.labels, l ∈ labelsL gs
  | g' :: gs, hm, l, hl => by
    simp only [labelsL, List.mem_append]
    cases hm with
    | head => exact .inl hl
    | tail _ hm => exact .inr (mem_labelsL hm l hl)

section
variable {cfg : Cfg} {S0 S : G → Bytes → Prop} {Nm0 Nm : Bytes → Prop} {AP : Prop}

mutual
/-- `LocErr` with any name relations (e.g. the trivially true ones: then it only says "no trims, terminals do
    not panic, references resolve") can be re-stated with every relation that contains the grammar's names -/
theorem LocErr_refine : ∀ g : G, g.All (LocErr cfg S0 Nm0 AP) → (∀ p ∈ g.nameBodies, S p.1 p.2) →
    (∀ l ∈ g.labels, Nm l) → g.All (LocErr cfg S Nm AP)
  | .term t, h, _, _ => by simpa [G.All, LocErr] using h
  | .empty, _, _, _ => by simp [G.All, LocErr]
  | .eof, _, _, _ => by simp [G.All, LocErr]
  | .ref k, h, _, _ => by simpa [G.All, LocErr] using h
  | .memo i g, h, hs, hn => by
    simp only [G.All] at h ⊢
    exact ⟨trivial, LocErr_refine g h.2 (by simpa [G.nameBodies] using hs) (by simpa [G.labels] using hn)⟩
  | .any gs, h, hs, hn => by
    simp only [G.All] at h ⊢
    exact ⟨trivial, LocErrL_refine gs h.2 (by simpa [G.nameBodies] using hs) (by simpa [G.labels] using hn)⟩
  | .choice gs, h, hs, hn => by
    simp only [G.All] at h ⊢
    exact ⟨trivial, LocErrL_refine gs h.2 (by simpa [G.nameBodies] using hs) (by simpa [G.labels] using hn)⟩
  | .seq k gs o, h, hs, hn => by
    simp only [G.All] at h ⊢
    simp only [G.labels, List.mem_append, Option.mem_toList] at hn
    refine ⟨?_, LocErrL_refine gs h.2 (by simpa [G.nameBodies] using hs) (fun l hl => hn l (.inr hl))⟩
    intro nm hnm; exact hn nm (.inl hnm)
  | .many g ae o, h, hs, hn => by
    simp only [G.All] at h ⊢
    simp only [G.labels, List.mem_append, Option.mem_toList] at hn
    refine ⟨?_, LocErr_refine g h.2 (by simpa [G.nameBodies] using hs) (fun l hl => hn l (.inr hl))⟩
    intro nm hnm; exact hn nm (.inl hnm)
  | .sepBy v s ae o, h, hs, hn => by
    simp only [G.All] at h ⊢
    simp only [G.labels, List.mem_append, Option.mem_toList] at hn
    simp only [G.nameBodies, List.mem_append] at hs
    refine ⟨?_, LocErr_refine v h.2.1 (fun p hp => hs p (.inl hp)) (fun l hl => hn l (.inr (.inl hl))),
      LocErr_refine s h.2.2 (fun p hp => hs p (.inr hp)) (fun l hl => hn l (.inr (.inr hl)))⟩
    intro nm hnm; exact hn nm (.inl hnm)
  | .optional g, h, hs, hn => by
    simp only [G.All] at h ⊢
    exact ⟨trivial, LocErr_refine g h.2 (by simpa [G.nameBodies] using hs) (by simpa [G.labels] using hn)⟩
  | .name g nm, h, hs, hn => by
    simp only [G.All] at h ⊢
    simp only [G.nameBodies, List.mem_cons] at hs
    simp only [G.labels, List.mem_cons] at hn
    exact ⟨⟨hs (g, nm) (.inl rfl), hn nm (.inl rfl)⟩,
      LocErr_refine g h.2 (fun p hp => hs p (.inr hp)) (fun l hl => hn l (.inr hl))⟩
  | .ltrim g m, h, _, _ => by simp only [G.All] at h; exact h.1.elim
  | .rtrim g m, h, _, _ => by simp only [G.All] at h; exact h.1.elim
  | .single g, h, hs, hn => by
    simp only [G.All] at h ⊢
    exact ⟨trivial, LocErr_refine g h.2 (by simpa [G.nameBodies] using hs) (by simpa [G.labels] using hn)⟩
  | .suppress g, h, hs, hn => by
    simp only [G.All] at h ⊢
    exact ⟨trivial, LocErr_refine g h.2 (by simpa [G.nameBodies] using hs) (by simpa [G.labels] using hn)⟩
theorem LocErrL_refine : ∀ gs : List G, AllList (LocErr cfg S0 Nm0 AP) gs → (∀ p ∈ nameBodiesL gs, S p.1 p.2) →
    (∀ l ∈ labelsL gs, Nm l) → AllList (LocErr cfg S Nm AP) gs
  | [], _, _, _ => trivial
  | g :: gs, h, hs, hn => by
    simp only [AllList] at h ⊢
    simp only [nameBodiesL, List.mem_append] at hs
    simp only [labelsL, List.mem_append] at hn
    exact ⟨LocErr_refine g h.1 (fun p hp => hs p (.inl hp)) (fun l hl => hn l (.inl hl)),
      LocErrL_refine gs h.2 (fun p hp => hs p (.inr hp)) (fun l hl => hn l (.inr hl))⟩
end

end

/-- `Name(b, nm)` occurs in the grammar `g` or in a rule of the environment -/
def NameOf (cfg : Cfg) (g : G) (b : G) (nm : Bytes) : Prop := (b, nm) ∈ g.nameBodies ++ nameBodiesL cfg.env
/-- `nm` is carried by a Name or a named Sequence of the grammar `g` or of a rule of the environment -/
def LabelOf (cfg : Cfg) (g : G) (nm : Bytes) : Prop := nm ∈ g.labels ++ labelsL cfg.env

/-- the side conditions without any mention of names (`LocErr` with the trivially true relations: no trims,
    terminals that may only panic when `AP`, references that may only dangle when `AP`) give the side
    conditions with the canonical name relations, for the grammar and for every rule -/
theorem LocErr_canonical (cfg : Cfg) (AP : Prop) (g : G)
    (hg : g.All (LocErr cfg (fun _ _ => True) (fun _ => True) AP))
    (henv : ∀ g' ∈ cfg.env, g'.All (LocErr cfg (fun _ _ => True) (fun _ => True) AP)) :
    g.All (LocErr cfg (NameOf cfg g) (LabelOf cfg g) AP) ∧
    ∀ g' ∈ cfg.env, g'.All (LocErr cfg (NameOf cfg g) (LabelOf cfg g) AP) := by
  refine ⟨LocErr_refine g hg (fun p hp => ?_) (fun l hl => ?_), fun g' hg' =>
    LocErr_refine g' (henv g' hg') (fun p hp => ?_) (fun l hl => ?_)⟩
  · exact List.mem_append.mpr (.inl hp)
  · exact List.mem_append.mpr (.inl hl)
  · exact List.mem_append.mpr (.inr (mem_nameBodiesL hg' p hp))
  · exact List.mem_append.mpr (.inr (mem_labelsL hg' l hl))

end PV
