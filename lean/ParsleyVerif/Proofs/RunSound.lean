/-
  Soundness of the parser core with respect to the derivation relation (C01, first half):
  every tree `run` returns — from any cache state that only holds derivable trees, under any
  left-recursion context, with any fuel — is a derivation of the parser at the call position.
-/
import ParsleyVerif.Spec.Derives
import ParsleyVerif.Proofs.RunBasics
import ParsleyVerif.Proofs.RunLoops
import ParsleyVerif.Proofs.RunEqns
namespace PV
open PV.Text

def GOK (bodyOf : Nat → G) (g : G) : Prop := g.All (LocalOK bodyOf)

def CacheSound (cfg : Cfg) (bodyOf : Nat → G) (st : St) : Prop :=
  ∀ e ∈ st.cache, ∀ x ∈ e.res.alts, Derives cfg (bodyOf e.idx) e.pos x

def RunSoundOK (cfg : Cfg) (bodyOf : Nat → G) (r : RunFn) : Prop :=
  ∀ g ctx pos st o st', GOK bodyOf g → CacheSound cfg bodyOf st → r g ctx pos st = some (o, st') →
    (∀ x ∈ o.res.alts, Derives cfg g pos x) ∧ CacheSound cfg bodyOf st'

theorem CacheSound_of_eq {cfg : Cfg} {bodyOf : Nat → G} {st st' : St} (h : CacheSound cfg bodyOf st)
    (e : st'.cache = st.cache) : CacheSound cfg bodyOf st' := by
  unfold CacheSound; rw [e]; exact h

theorem handleResult_pos_irrel (sh : SeqShape) (p q : Nat) (nodes : List Node) (h : nodes ≠ []) :
    handleResult sh p nodes = handleResult sh q nodes := by
  cases nodes with
  | nil => exact absurd rfl h
  | cons n rest => cases rest <;> rfl

theorem seqParse_sound (cfg : Cfg) (bodyOf : Nat → G) (r : RunFn) (hr : RunSoundOK cfg bodyOf r) (g : G)
    (sh : SeqShape) (hg : GOK bodyOf g) (hs : g.shape = some sh) (pos0 : Nat) :
    ∀ (fuel : Nat) (fr : Frame) ss st b ss' st',
      (CacheSound cfg bodyOf st ∧ DerivesSeq cfg sh 0 pos0 fr.nodes ∧ endOf pos0 fr.nodes = fr.pos ∧
        ∀ x ∈ ss.result.alts, Derives cfg g pos0 x) →
      fr.depth = fr.nodes.length →
      seqParse r sh fuel fr.depth fr.nodes fr.ctx fr.pos fr.merge ss st = some (b, ss', st') →
      (CacheSound cfg bodyOf st → CacheSound cfg bodyOf st') ∧
      ((∀ x ∈ ss.result.alts, Derives cfg g pos0 x) → ∀ x ∈ ss'.result.alts, Derives cfg g pos0 x) := by
  have hafter : ∀ (m : Bool) (ss : SeqSt) (o : Out), (seqAfter m ss o).result = ss.result := by
    intro m ss o; unfold seqAfter; split <;> rfl
  have hemit : ∀ (fr : Frame) (ss : SeqSt), fr.depth = fr.nodes.length → DerivesSeq cfg sh 0 pos0 fr.nodes →
      endOf pos0 fr.nodes = fr.pos → sh.lenCheck fr.depth = true →
      (∀ x ∈ ss.result.alts, Derives cfg g pos0 x) → ∀ x ∈ (seqEmit sh fr ss).result.alts, Derives cfg g pos0 x := by
    intro fr ss hd hds hend hlc hres x hx
    simp only [seqEmit] at hx
    cases mem_appendNode _ _ _ hx with
    | inl h1 => exact hres x h1
    | inr h1 =>
      simp only [Res.alts, List.mem_singleton] at h1
      subst h1
      have hn : (if fr.depth > 0 then fr.nodes else []) = fr.nodes := by
        split
        · rfl
        · have : fr.nodes.length = 0 := by omega
          exact (List.length_eq_zero_iff.mp this).symm
      rw [hn]
      have hp : handleResult sh fr.pos fr.nodes = handleResult sh pos0 fr.nodes := by
        cases hnn : fr.nodes with
        | nil => rw [hnn] at hend; simp only [endOf_nil] at hend; rw [hend]
        | cons a b => exact handleResult_pos_irrel sh _ _ _ (by simp)
      rw [hp]
      exact Derives.seqfam hs hds (by rw [← hd]; exact hlc)
  refine seqParse_ind r sh
    (fun fr ss st => CacheSound cfg bodyOf st ∧ DerivesSeq cfg sh 0 pos0 fr.nodes ∧ endOf pos0 fr.nodes = fr.pos ∧
        ∀ x ∈ ss.result.alts, Derives cfg g pos0 x)
    (fun ss st ss' st' => (CacheSound cfg bodyOf st → CacheSound cfg bodyOf st') ∧
      ((∀ x ∈ ss.result.alts, Derives cfg g pos0 x) → ∀ x ∈ ss'.result.alts, Derives cfg g pos0 x))
    ?_ ?_ ?_ ?_ ?_
  · intro ss st; exact ⟨id, id⟩
  · intro a b c d e f h1 h2; exact ⟨fun h => h2.1 (h1.1 h), fun h => h2.2 (h1.2 h)⟩
  · intro fr ss st ss' st' hJ hE
    exact ⟨hE.1 hJ.1, hJ.2.1, hJ.2.2.1, hE.2 hJ.2.2.2⟩
  · intro fr ss st g' o st1 hJ hd hl hrun
    obtain ⟨j1, j2, j3, j4⟩ := hJ
    have hg' : GOK bodyOf g' := shape_lookup_all hg hs fr.depth g' hl
    obtain ⟨hn, hc⟩ := hr g' fr.ctx fr.pos st.regCall o st1 hg' (CacheSound_of_eq j1 rfl) hrun
    refine ⟨⟨fun _ => hc, fun h => by rw [hafter]; exact h⟩, ?_, ?_⟩
    · intro n hnm
      refine ⟨hc, ?_, ?_, by rw [hafter]; exact j4⟩
      · simp only [Frame.next]
        exact DerivesSeq.snoc j2 (by rw [Nat.zero_add, ← hd]; exact hl) (by rw [j3]; exact hn n hnm)
      · simp only [Frame.next]; exact endOf_snoc _ _ _
    · intro _ hlc
      exact ⟨fun _ => hc, fun h => hemit fr _ hd j2 j3 hlc (by rw [hafter]; exact h)⟩
  · intro fr ss st hJ hd _ hlc
    obtain ⟨j1, j2, j3, j4⟩ := hJ
    exact ⟨id, fun h => hemit fr _ hd j2 j3 hlc (by rw [hafter]; exact h)⟩

theorem seqFinish_res (sh : SeqShape) (pos : Nat) (ss : SeqSt) (st : St) :
    (∀ x ∈ (seqFinish sh pos ss st).1.res.alts, x ∈ ss.result.alts) ∧
    (seqFinish sh pos ss st).2.cache = st.cache := by
  by_cases hnil : ss.result.isNil = true
  · have e2 : (seqFinish sh pos ss st).1.res = .nil := by simp [seqFinish, hnil]
    have e1 : (seqFinish sh pos ss st).2 = st := by simp [seqFinish, hnil]
    rw [e1, e2]; exact ⟨(by intro x hx; cases hx), rfl⟩
  · have hnil' : ss.result.isNil = false := by simpa using hnil
    have e2 : (seqFinish sh pos ss st).1.res = ss.result := by simp [seqFinish, hnil']
    have e1 : (seqFinish sh pos ss st).2 = st.setError ss.err := by simp [seqFinish, hnil']
    rw [e1, e2]; exact ⟨fun x hx => hx, (setError_ctxErr st ss.err).2.1⟩

theorem setRposNode_fst (f : File) (m : WsMode) (n : Node) (ws : Option Err) :
    (setRposNode f m n ws).1 = (setRposNode f m n none).1 := by
  cases n <;> simp [setRposNode]

theorem mem_setRposList (f : File) (m : WsMode) : ∀ (l : List Node) (ws : Option Err) (x : Node),
    x ∈ (setRposList f m l ws).1 → ∃ n ∈ l, x = (setRposNode f m n none).1
  | [], ws, x, h => by simp [setRposList] at h
  | n :: rest, ws, x, h => by
    simp only [setRposList] at h
    cases h with
    | head => exact ⟨n, List.mem_cons_self .., setRposNode_fst f m n ws⟩
    | tail _ hm =>
      obtain ⟨n', hn', hx⟩ := mem_setRposList f m rest _ x hm
      exact ⟨n', List.mem_cons_of_mem _ hn', hx⟩

theorem mem_setRposRes (f : File) (m : WsMode) (r : Res) (x : Node) (h : x ∈ (setRposRes f m r).1.alts) :
    ∃ n ∈ r.alts, x = (setRposNode f m n none).1 := by
  cases r with
  | nil => simp [setRposRes, Res.alts] at h
  | one n =>
    simp only [setRposRes, Res.alts, List.mem_singleton] at h
    exact ⟨n, by simp [Res.alts], h⟩
  | list l =>
    simp only [setRposRes, Res.alts] at h
    exact mem_setRposList f m l none x h

theorem run_sound (cfg : Cfg) (bodyOf : Nat → G) (henv : ∀ g' ∈ cfg.env, GOK bodyOf g') :
    ∀ fuel, RunSoundOK cfg bodyOf (run cfg fuel) := by
  intro fuel
  induction fuel with
  | zero => intro g ctx pos st o st' _ _ h; simp [run] at h
  | succ fuel ih =>
    intro g ctx pos st o st' hg hcs h
    cases hsh : g.shape with
    | some sh =>
      rw [run_seqfam cfg fuel g sh ctx pos st hsh] at h
      split at h
      · cases h
      · unfold runSeq at h
        split at h
        · cases h
        · rename_i b ss st1 hsp
          cases h
          have hE := seqParse_sound cfg bodyOf (run cfg fuel) ih g sh hg hsh pos fuel ⟨0, [], ctx, pos, true⟩ {} st b ss st1
            ⟨hcs, .nil, rfl, (by intro x hx; cases hx)⟩ rfl hsp
          obtain ⟨f1, f2⟩ := seqFinish_res sh pos ss st1
          exact ⟨fun x hx => hE.2 (by intro x hx; cases hx) x (f1 x hx), CacheSound_of_eq (hE.1 hcs) f2⟩
    | none =>
    by_cases hlt : ∃ g' m, g = .ltrim g' m
    · obtain ⟨g', m, rfl⟩ := hlt
      have hg' : GOK bodyOf g' := by
        have : LocalOK bodyOf (.ltrim g' m) ∧ g'.All (LocalOK bodyOf) := by simpa [GOK, G.All] using hg
        exact this.2
      rw [run_ltrim] at h
      split at h
      · cases h
      · split at h
        · cases h
        · rename_i o1 st1 hr
          have hfin : ltrimFinish pos (skipWhitespaces cfg.file pos m).1 (wsToErr (skipWhitespaces cfg.file pos m).2) o1 st1 = (o, st') := by
            injection h
          obtain ⟨h1, h2⟩ := ih g' ctx _ st o1 st1 hg' hcs hr
          obtain ⟨f1, f2⟩ := ltrimFinish_res pos (skipWhitespaces cfg.file pos m).1 (wsToErr (skipWhitespaces cfg.file pos m).2) o1 st1
          rw [hfin] at f1 f2
          exact ⟨fun x hx => .ltrim (h1 x (f1 x hx)), CacheSound_of_eq h2 f2⟩
    unfold run at h
    split at h
    · cases h
    · cases g with
      | term t =>
        simp only at h
        split at h
        · rename_i n hp
          cases h
          refine ⟨?_, hcs⟩
          intro x hx
          simp only [Res.alts, List.mem_singleton] at hx
          subst hx; exact .term hp
        · cases h
          exact ⟨(by intro x hx; cases hx), CacheSound_of_eq hcs (logEv_fields st cfg _).1⟩
        · cases h
          exact ⟨(by intro x hx; cases hx), hcs⟩
      | empty =>
        simp only at h
        cases h
        refine ⟨?_, hcs⟩
        intro x hx
        simp only [Res.alts, List.mem_singleton] at hx
        subst hx; exact .empty
      | eof =>
        simp only at h
        split at h
        · rename_i he
          cases h
          refine ⟨?_, hcs⟩
          intro x hx
          simp only [Res.alts, List.mem_singleton] at hx
          subst hx; exact .eof he
        · cases h
          exact ⟨(by intro x hx; cases hx), CacheSound_of_eq hcs (logEv_fields st cfg _).1⟩
      | ref k =>
        simp only at h
        split at h
        · rename_i g' hk
          obtain ⟨h1, h2⟩ := ih g' ctx pos st o st' (henv g' (List.mem_of_getElem? hk)) hcs h
          exact ⟨fun x hx => .ref hk (h1 x hx), h2⟩
        · cases h
          exact ⟨(by intro x hx; cases hx), hcs⟩
      | memo idx body =>
        simp only at h
        have hg2 : body = bodyOf idx ∧ GOK bodyOf body := by simpa [GOK, G.All, LocalOK] using hg
        cases hc : cacheGet st.cache idx pos ctx with
        | some e =>
          simp only [hc] at h
          cases h
          obtain ⟨hm, hi, hp⟩ := cacheGet_some hc
          refine ⟨?_, CacheSound_of_eq hcs (logEv_fields st cfg _).1⟩
          intro x hx
          have := hcs e hm x hx
          rw [hi, hp, ← hg2.1] at this
          exact .memo this
        | none =>
          simp only [hc] at h
          by_cases hcur : ctx.get idx > remaining cfg.file pos + Facts.curtailSlack
          · simp only [hcur, ↓reduceIte] at h
            cases h
            exact ⟨(by intro x hx; cases hx), CacheSound_of_eq hcs (logEv_fields st cfg _).1⟩
          · simp only [hcur, ↓reduceIte] at h
            split at h
            · cases h
            · rename_i o2 st2 hr
              cases h
              have hih := fun hc1 => ih _ _ _ _ _ _ hg2.2 hc1 hr
              obtain ⟨h1, h2⟩ := hih (CacheSound_of_eq hcs (logEv_fields _ cfg _).1)
              refine ⟨fun x hx => .memo (h1 x hx), ?_⟩
              intro e he x hx
              cases mem_cacheSave he with
              | inl h3 => subst h3; simp only at hx ⊢; rw [← hg2.1]; exact h1 x hx
              | inr h3 => exact h2 e h3 x hx
      | any gs =>
        simp only at h
        have hgs : AllList (LocalOK bodyOf) gs := by
          have : LocalOK bodyOf (.any gs) ∧ AllList (LocalOK bodyOf) gs := by simpa [GOK, G.All] using hg
          exact this.2
        split at h
        · cases h
        · rename_i a st1 hl
          have hA := anyLoop_ind (run cfg fuel) ctx pos
            (fun a s => (∀ x ∈ a.res.alts, Derives cfg (.any gs) pos x) ∧ CacheSound cfg bodyOf s) gs
            (by
              intro g' hg' a s o' s' hA hr
              obtain ⟨h1, h2⟩ := ih g' ctx pos s.regCall o' s' (AllList_mem hgs g' hg') (CacheSound_of_eq hA.2 rfl) hr
              refine ⟨?_, h2⟩
              rw [(altErr_fields pos _ o'.err).2.1]
              intro x hx
              cases mem_appendNode _ _ _ hx with
              | inl h3 => exact hA.1 x h3
              | inr h3 => exact .any hg' (h1 x h3))
            {} st a st1 ⟨(by intro x hx; cases hx), hcs⟩ hl
          split at h
          · cases h
            exact ⟨(by intro x hx; cases hx), hA.2⟩
          · cases h
            exact ⟨hA.1, CacheSound_of_eq hA.2 (setError_ctxErr st1 a.err).2.1⟩
      | choice gs =>
        simp only at h
        have hgs : AllList (LocalOK bodyOf) gs := by
          have : LocalOK bodyOf (.choice gs) ∧ AllList (LocalOK bodyOf) gs := by simpa [GOK, G.All] using hg
          exact this.2
        have hF := choiceLoop_ind (run cfg fuel) ctx pos
          (fun _ s => CacheSound cfg bodyOf s)
          (fun out _ s => CacheSound cfg bodyOf s ∧ ∀ o', out = some o' → ∀ x ∈ o'.res.alts, Derives cfg (.choice gs) pos x) gs
          (by intro a s hA; exact ⟨hA, (by intro o' ho; cases ho)⟩)
          (by
            intro g' hg' a s o' s' hA hr
            obtain ⟨h1, h2⟩ := ih g' ctx pos s.regCall o' s' (AllList_mem hgs g' hg') (CacheSound_of_eq hA rfl) hr
            refine ⟨fun _ => ⟨CacheSound_of_eq h2 (setError_ctxErr s' _).2.1, ?_⟩, fun _ => h2⟩
            intro o2 ho2
            cases ho2
            exact fun x hx => .choice hg' (h1 x hx))
        split at h
        · cases h
        · rename_i o1 a st1 hl
          cases h
          obtain ⟨a1, a2⟩ := hF {} st (some o) a st' hcs hl
          exact ⟨a2 o rfl, a1⟩
        · rename_i a st1 hl
          cases h
          obtain ⟨a1, _⟩ := hF {} st none a st' hcs hl
          exact ⟨(by intro x hx; cases hx), a1⟩
      | optional g' =>
        simp only at h
        have hg' : GOK bodyOf g' := by
          have : LocalOK bodyOf (.optional g') ∧ g'.All (LocalOK bodyOf) := by simpa [GOK, G.All] using hg
          exact this.2
        split at h
        · cases h
        · rename_i o1 st1 hr
          cases h
          obtain ⟨h1, h2⟩ := ih g' ctx pos st o1 _ hg' hcs hr
          refine ⟨?_, h2⟩
          intro x hx
          cases mem_appendNode _ _ _ hx with
          | inl h3 => exact .optSome (h1 x h3)
          | inr h3 =>
            simp only [Res.alts, List.mem_singleton] at h3
            subst h3; exact .optNone
      | name g' nm =>
        simp only at h
        have hg' : GOK bodyOf g' := by
          have : LocalOK bodyOf (.name g' nm) ∧ g'.All (LocalOK bodyOf) := by simpa [GOK, G.All] using hg
          exact this.2
        split at h
        · cases h
        · rename_i o1 st1 hr
          obtain ⟨h1, h2⟩ := ih g' ctx pos st o1 st1 hg' hcs hr
          split at h
          · split at h
            · cases h; exact ⟨(by intro x hx; cases hx), h2⟩
            · cases h; exact ⟨(by intro x hx; cases hx), h2⟩
          · split at h
            · cases h; exact ⟨(by intro x hx; cases hx), h2⟩
            · cases h; exact ⟨fun x hx => .name (h1 x hx), h2⟩
      | single g' =>
        simp only at h
        have hg' : GOK bodyOf g' := by
          have : LocalOK bodyOf (.single g') ∧ g'.All (LocalOK bodyOf) := by simpa [GOK, G.All] using hg
          exact this.2
        split at h
        · cases h
        · rename_i o1 st1 hr
          obtain ⟨h1, h2⟩ := ih g' ctx pos st o1 st1 hg' hcs hr
          split at h
          · cases h; exact ⟨(by intro x hx; cases hx), h2⟩
          · split at h
            · rename_i tk c p r i hres
              cases h
              refine ⟨?_, h2⟩
              intro x hx
              simp only [Res.alts, List.mem_singleton] at hx
              subst hx
              exact .singleUnwrap (h1 (.nt tk [x] p r i) (by rw [hres]; simp [Res.alts]))
            · cases h
              exact ⟨fun x hx => .singleKeep (h1 x hx), h2⟩
      | suppress g' =>
        simp only at h
        have hg' : GOK bodyOf g' := by
          have : LocalOK bodyOf (.suppress g') ∧ g'.All (LocalOK bodyOf) := by simpa [GOK, G.All] using hg
          exact this.2
        split at h
        · cases h
        · rename_i o1 st1 hr
          cases h
          obtain ⟨h1, h2⟩ := ih g' ctx pos st o1 _ hg' hcs hr
          exact ⟨fun x hx => .suppress (h1 x hx), h2⟩
      | ltrim g' m => exact absurd ⟨g', m, rfl⟩ hlt
      | rtrim g' m =>
        simp only at h
        have hg' : GOK bodyOf g' := by
          have : LocalOK bodyOf (.rtrim g' m) ∧ g'.All (LocalOK bodyOf) := by simpa [GOK, G.All] using hg
          exact this.2
        split at h
        · cases h
        · rename_i o1 st1 hr
          obtain ⟨h1, h2⟩ := ih g' ctx pos st o1 st1 hg' hcs hr
          split at h
          · cases h
            exact ⟨fun x hx => .rtrimKeep (h1 x hx), h2⟩
          · cases hsr : setRposRes cfg.file m o1.res with
            | mk res' ws =>
              simp only [hsr] at h
              cases ws with
              | some w => simp only at h; cases h; exact ⟨(by intro x hx; cases hx), h2⟩
              | none =>
                simp only at h
                cases h
                refine ⟨?_, h2⟩
                intro x hx
                have : res' = (setRposRes cfg.file m o1.res).1 := by rw [hsr]
                rw [this] at hx
                obtain ⟨n, hn, hxe⟩ := mem_setRposRes cfg.file m o1.res x hx
                rw [hxe]; exact .rtrimMove (h1 n hn)
      | seq k gs o => simp [G.shape] at hsh
      | many g' ae o => simp [G.shape] at hsh
      | sepBy v s ae o => simp [G.shape] at hsh

end PV
