/-
  The coverage invariant (Proofs/RunLow.lean) for `run`, by induction on fuel over all cases.
-/
import ParsleyVerif.Proofs.RunLow
namespace PV
open PV.Text

theorem OutOK_nil (cfg : Cfg) (pos : Nat) (err : Option Err) : OutOK cfg pos .nil err :=
  ⟨(by intro _ _ n hn; cases hn), (by intro hc; cases hc), (by intro n hn; cases hn)⟩

/-- a call that only returns an error at or after its position and changes nothing but the log -/
theorem PostLow_err {cfg : Cfg} {pos : Nat} {st st' : St} {cp : List Nat} {e : Err} (hle : StLe st st')
    (hc : st'.cache = st.cache) (hsl : SLow cfg st) (hpe : pos ≤ e.pos)
    (hnew : NewCov cfg st st' (some e) .nil) : PostLow cfg pos st ⟨.nil, cp, some e⟩ st' :=
  ⟨hle, hnew, .inl ⟨e, rfl, hpe⟩, SLow_of_eq hsl hc hle, OutOK_nil cfg pos _⟩

theorem run_low (cfg : Cfg) (hgh : cfg.ghost = true)
    (henv : ∀ g' ∈ cfg.env, g'.Core (TermGood cfg)) (henvL : ∀ g' ∈ cfg.env, g'.All (LocLow cfg)) :
    ∀ fuel, RunLowOK cfg (run cfg fuel) := by
  intro fuel
  induction fuel with
  | zero => intro g ctx pos st o st' _ _ _ _ h; simp [run] at h
  | succ fuel ih =>
    intro g ctx pos st o st' hg hgl hpre hsl h
    have hpos : RunPosOK cfg (run cfg fuel) := run_pos cfg henv fuel
    have hP := run_pos cfg henv (fuel + 1) g ctx pos st o st' hg hpre h
    obtain ⟨hin, hst, hact⟩ := hpre
    have hloc : LocLow cfg g := G.All_self hgl
    cases hsh : g.shape with
    | some sh =>
      rw [run_seqfam cfg fuel g sh ctx pos st hsh] at h
      split at h
      · cases h
      · unfold runSeq at h
        split at h
        · cases h
        · rename_i b ss st1 hsp
          cases h
          have hJ : SeqJ cfg pos ⟨0, [], ctx, pos, true⟩ {} st :=
            ⟨hin, Nat.le_refl _, by unfold Chain; exact ⟨rfl, hin.2⟩, hst, hact,
              ⟨(by intro x hx; cases hx), (by intro er her; cases her)⟩⟩
          have hE := seqParse_low cfg (run cfg fuel) hpos ih g sh hg hgl hsh pos fuel ⟨0, [], ctx, pos, true⟩ {} st b ss st1
            hJ hsl ⟨(by intro n hn; cases hn), (by intro hc; cases hc)⟩ trivial (by intro i hi; cases hi) rfl hsp
          exact seqFinish_low hE
    | none =>
    unfold run at h
    split at h
    · cases h
    · cases g with
      | term t =>
        simp only at h
        split at h
        · rename_i n hp
          cases h
          have hn := hP.nodes n (by simp [Res.alts])
          have hb := Node.WF_bounds cfg.hi n hn.2
          refine ⟨StLe.refl _, NewCov_refl _ _ _ _, .inr (.inl ⟨n, by simp [Res.alts], by omega⟩), hsl, ⟨?_, ?_, ?_⟩⟩
          · intro e he; cases he
          · intro _; simp [Res.alts]
          · intro m hm
            simp only [Res.alts, List.mem_singleton] at hm
            subst hm; exact hloc pos _ hp
        · rename_i e hp
          cases h
          have he := hP.err e rfl
          refine PostLow_err (StLe_logEv st cfg _) (logEv_fields st cfg _).1 hsl he.1 ?_
          refine ⟨[Ev.termFail e.pos e.kind], by rw [logEv_ghost_c06 hgh]; rfl, ?_⟩
          intro x k hx
          simp only [List.mem_singleton, Ev.termFail.injEq] at hx
          rw [hx.1]
          exact ⟨.inl ⟨e, rfl, Nat.le_refl _⟩, he.2⟩
        · cases h
          exact PostLow_err (StLe.refl _) rfl hsl (Nat.le_refl _) (NewCov_refl _ _ _ _)
      | empty =>
        simp only at h
        cases h
        refine ⟨StLe.refl _, NewCov_refl _ _ _ _, .inr (.inl ⟨.empty pos, by simp [Res.alts], Nat.le_refl _⟩), hsl, ⟨?_, ?_, ?_⟩⟩
        · intro e he; cases he
        · intro _; simp [Res.alts]
        · intro m hm
          simp only [Res.alts, List.mem_singleton] at hm
          subst hm; simp [Node.EofOK]
      | eof =>
        simp only at h
        split at h
        · rename_i heof
          cases h
          refine ⟨StLe.refl _, NewCov_refl _ _ _ _, .inr (.inl ⟨.eof pos, by simp [Res.alts], Nat.le_refl _⟩), hsl, ⟨?_, ?_, ?_⟩⟩
          · intro e he; cases he
          · intro _; simp [Res.alts]
          · intro m hm
            simp only [Res.alts, List.mem_singleton] at hm
            subst hm
            simp only [Node.EofOK, Cfg.hi]
            simp only [isEOF, ge_iff_le, decide_eq_true_eq] at heof
            have := hin.1
            unfold File.len at heof
            unfold File.len
            omega
        · cases h
          refine PostLow_err (StLe_logEv st cfg _) (logEv_fields st cfg _).1 hsl (Nat.le_refl _) ?_
          refine ⟨[Ev.termFail pos (.other endErrMsg)], by rw [logEv_ghost_c06 hgh]; rfl, ?_⟩
          intro x k hx
          simp only [List.mem_singleton, Ev.termFail.injEq] at hx
          rw [hx.1]
          exact ⟨.inl ⟨_, rfl, Nat.le_refl _⟩, hin.2⟩
      | ref k =>
        simp only at h
        split at h
        · rename_i g' hk
          have hm := List.mem_of_getElem? hk
          exact ih g' ctx pos st o st' (henv g' hm) (henvL g' hm) ⟨hin, hst, hact⟩ hsl h
        · cases h
          exact PostLow_err (StLe.refl _) rfl hsl (Nat.le_refl _) (NewCov_refl _ _ _ _)
      | memo idx body =>
        simp only at h
        have hbody : body.Core (TermGood cfg) := by simpa [G.Core] using hg
        have hbodyL : body.All (LocLow cfg) := by simp only [G.All] at hgl; exact hgl.2
        cases hc : cacheGet st.cache idx pos ctx with
        | some e =>
          simp only [hc] at h
          cases h
          obtain ⟨hm, _, hp⟩ := cacheGet_some hc
          have hle := StLe_logEv st cfg (.hit idx pos)
          obtain ⟨hcv, hok⟩ := hsl e hm
          refine ⟨hle, NewCov_logEv cfg st _ (by intro x k hx; cases hx) _ _, ?_,
            SLow_of_eq hsl (logEv_fields st cfg _).1 hle, ?_⟩
          · have := Cov_mono hle hcv; rw [hp] at this; exact this
          · have := hok; rw [hp] at this; exact this
        | none =>
          simp only [hc] at h
          by_cases hcur : ctx.get idx > remaining cfg.file pos + Facts.curtailSlack
          · simp only [hcur, ↓reduceIte] at h
            cases h
            have hle := StLe_logEv st cfg (.curtail idx pos)
            refine ⟨hle, NewCov_logEv cfg st _ (by intro x k hx; cases hx) _ _, ?_,
              SLow_of_eq hsl (logEv_fields st cfg _).1 hle, OutOK_nil cfg pos _⟩
            exact .inr (.inr (.inr ⟨idx, pos, by rw [logEv_ghost_c06 hgh]; exact List.mem_cons_self .., Nat.le_refl _⟩))
          · simp only [hcur, ↓reduceIte] at h
            split at h
            · cases h
            · rename_i o2 st2 hr
              cases h
              have hf := logEv_fields ({ st with active := (idx, pos) :: st.active }) cfg
                (.body idx pos ((st.active.filter (fun a : Nat × Nat => a.1 == idx && a.2 == pos)).length + 1))
              have hle0 := StLe_logEv ({ st with active := (idx, pos) :: st.active }) cfg
                (.body idx pos ((st.active.filter (fun a : Nat × Nat => a.1 == idx && a.2 == pos)).length + 1))
              simp only at hf
              generalize hs1 : ({ st with active := (idx, pos) :: st.active } : St).logEv cfg
                (.body idx pos ((st.active.filter (fun a : Nat × Nat => a.1 == idx && a.2 == pos)).length + 1)) = st1
                at hr hf hle0
              have hpre1 := memo_pre hin hst hact hcur hs1
              have hle1 : StLe st st1 := ⟨hle0.log, hle0.ctx⟩
              have hsl1 : SLow cfg st1 := SLow_of_eq hsl hf.1 hle1
              have hlow := ih body (ctx.inc idx) pos st1 o st2 hbody hbodyL hpre1 hsl1 hr
              have hle2 : ∀ (c : List CacheEntry) (ac : List (Nat × Nat)), StLe st2 { st2 with cache := c, active := ac } :=
                fun _ _ => ⟨List.suffix_refl _, fun _ hx => hx⟩
              refine ⟨(hle1.trans hlow.le).trans (hle2 _ _), ?_, Cov_mono (hle2 _ _) hlow.prog, ?_, hlow.out⟩
              · refine NewCov_imp' (NewCov_of_prefix hlow.newTF ?_) rfl (fun x _ hx => Cov_mono (hle2 _ _) hx)
                cases hf.2.2.2.2 with
                | inl h5 => exact .inl h5
                | inr h5 => exact .inr ⟨_, (by intro x k hx; cases hx), h5⟩
              · intro c hcm
                cases mem_cacheSave hcm with
                | inl h1 => subst h1; exact ⟨Cov_mono (hle2 _ _) hlow.prog, hlow.out⟩
                | inr h1 => exact ⟨Cov_mono (hle2 _ _) (hlow.slow c h1).1, (hlow.slow c h1).2⟩
      | any gs =>
        simp only at h
        have hgs : CoreList (TermGood cfg) gs := by simpa [G.Core] using hg
        have hgsL : AllList (LocLow cfg) gs := by simp only [G.All] at hgl; exact hgl.2
        have hne : gs ≠ [] := hloc
        have hA0 : AltInv cfg pos st {} st :=
          ⟨StLe.refl _, ⟨[], rfl, by intro x k hx; cases hx⟩, hsl, hst, rfl,
            ⟨(by intro x hx; cases hx), (by intro er her; cases her), (by intro er her; cases her)⟩,
            (by intro n hn; cases hn), (by intro hc; cases hc)⟩
        cases gs with
        | nil => exact absurd rfl hne
        | cons g0 gs' =>
          have hloop : ∀ a' s', anyLoop (run cfg fuel) ctx pos (g0 :: gs') {} st = some (a', s') →
              AltInv cfg pos st a' s' ∧ CovAlt pos pos a' s' := by
            intro a' s' hl
            simp only [anyLoop] at hl
            split at hl
            · cases hl
            · rename_i o0 s0 hr0
              have h0 := any_step_low hpos ih hin hact (CoreList_mem hgs g0 (List.mem_cons_self ..))
                (AllList_mem hgsL g0 (List.mem_cons_self ..)) hA0 hr0
              exact anyLoop_ind (run cfg fuel) ctx pos
                (fun a s => AltInv cfg pos st a s ∧ CovAlt pos pos a s) gs'
                (by
                  intro g' hg' a s o' s2 hA hr
                  exact any_step_low hpos ih hin hact (CoreList_mem hgs g' (List.mem_cons_of_mem _ hg'))
                    (AllList_mem hgsL g' (List.mem_cons_of_mem _ hg')) hA.1 hr)
                _ s0 a' s' h0 hl
          split at h
          · cases h
          · rename_i a st1 hl
            have hA := hloop a st1 hl
            split at h
            · rename_i hnil
              cases h
              exact alt_final_nil hA.1 hA.2 hnil
            · rename_i hnn
              cases h
              exact any_final_res hA.1 hA.2 (by simpa using hnn)
      | choice gs =>
        simp only at h
        have hgs : CoreList (TermGood cfg) gs := by simpa [G.Core] using hg
        have hgsL : AllList (LocLow cfg) gs := by simp only [G.All] at hgl; exact hgl.2
        have hne : gs ≠ [] := hloc
        have hA0 : AltInv cfg pos st {} st :=
          ⟨StLe.refl _, ⟨[], rfl, by intro x k hx; cases hx⟩, hsl, hst, rfl,
            ⟨(by intro x hx; cases hx), (by intro er her; cases her), (by intro er her; cases her)⟩,
            (by intro n hn; cases hn), (by intro hc; cases hc)⟩
        cases gs with
        | nil => exact absurd rfl hne
        | cons g0 gs' =>
          have hloop : ∀ out a' s', choiceLoop (run cfg fuel) ctx pos (g0 :: gs') {} st = some (out, a', s') →
              (out = none → AltInv cfg pos st a' s' ∧ CovAlt pos pos a' s' ∧ a'.res.isNil = true) ∧
              (∀ o1, out = some o1 → PostLow cfg pos st o1 s') := by
            intro out a' s' hl
            simp only [choiceLoop] at hl
            split at hl
            · cases hl
            · rename_i o0 s0 hr0
              have h0 := choice_step_low hpos ih hin hact (CoreList_mem hgs g0 (List.mem_cons_self ..))
                (AllList_mem hgsL g0 (List.mem_cons_self ..)) hA0 rfl hr0
              by_cases hn0 : o0.res.isNil = true
              · simp only [hn0, Bool.not_true, Bool.false_eq_true, ↓reduceIte] at hl
                exact choiceLoop_ind (run cfg fuel) ctx pos
                  (fun a s => AltInv cfg pos st a s ∧ CovAlt pos pos a s ∧ a.res.isNil = true)
                  (fun out a s => (out = none → AltInv cfg pos st a s ∧ CovAlt pos pos a s ∧ a.res.isNil = true) ∧
                    (∀ o1, out = some o1 → PostLow cfg pos st o1 s)) gs'
                  (by intro a s hA; exact ⟨fun _ => hA, (by intro o1 ho; cases ho)⟩)
                  (by
                    intro g' hg' a s o' s2 hA hr
                    have hstep := choice_step_low hpos ih hin hact (CoreList_mem hgs g' (List.mem_cons_of_mem _ hg'))
                      (AllList_mem hgsL g' (List.mem_cons_of_mem _ hg')) hA.1 hA.2.2 hr
                    refine ⟨fun hnn => ⟨(by intro hc; cases hc), ?_⟩, fun hnil => hstep.1 hnil⟩
                    intro o1 ho1
                    cases ho1
                    exact hstep.2 hnn)
                  _ s0 out a' s' (h0.1 hn0) hl
              · have hn0' : o0.res.isNil = false := by simpa using hn0
                simp only [hn0', Bool.not_false, ↓reduceIte] at hl
                cases hl
                exact ⟨(by intro hc; cases hc), (by intro o1 ho1; cases ho1; exact h0.2 hn0')⟩
          split at h
          · cases h
          · rename_i o1 a st1 hl
            cases h
            exact (hloop _ _ _ hl).2 _ rfl
          · rename_i a st1 hl
            cases h
            have := (hloop _ _ _ hl).1 rfl
            exact alt_final_nil this.1 this.2.1 this.2.2
      | optional g' =>
        simp only at h
        have hg' : g'.Core (TermGood cfg) := by simpa [G.Core] using hg
        have hgl' : g'.All (LocLow cfg) := by simp only [G.All] at hgl; exact hgl.2
        split at h
        · cases h
        · rename_i o1 st1 hr
          cases h
          have hlow := ih g' ctx pos st o1 _ hg' hgl' ⟨hin, hst, hact⟩ hsl hr
          have hup : ∀ x, Cov x o1.err o1.res st' → Cov x o1.err (appendNode o1.res (.one (.empty pos))) st' := by
            intro x hx
            rcases hx with h1 | h1 | h1 | h1
            · exact .inl h1
            · exact .inr (.inl (GeR_appendNode_left _ h1))
            · exact .inr (.inr (.inl h1))
            · exact .inr (.inr (.inr h1))
          refine ⟨hlow.le, NewCov_imp hlow.newTF (fun x _ hx => hup x hx), hup _ hlow.prog, hlow.slow, ⟨?_, ?_, ?_⟩⟩
          · intro e he n hn
            cases mem_appendNode _ _ _ hn with
            | inl h1 => exact hlow.out.errRes e he n h1
            | inr h1 =>
              simp only [Res.alts, List.mem_singleton] at h1
              subst h1; exact Nat.le_refl _
          · intro _ hc
            have : Node.empty pos ∈ (appendNode o1.res (.one (.empty pos))).alts :=
              mem_appendNode_right _ _ _ (by simp [Res.alts])
            rw [hc] at this; cases this
          · intro n hn
            cases mem_appendNode _ _ _ hn with
            | inl h1 => exact hlow.out.eof n h1
            | inr h1 =>
              simp only [Res.alts, List.mem_singleton] at h1
              subst h1; simp [Node.EofOK]
      | name g' nm =>
        simp only at h
        have hg' : g'.Core (TermGood cfg) := by simpa [G.Core] using hg
        have hgl' : g'.All (LocLow cfg) := by simp only [G.All] at hgl; exact hgl.2
        split at h
        · cases h
        · rename_i o1 st1 hr
          have hlow := ih g' ctx pos st o1 st1 hg' hgl' ⟨hin, hst, hact⟩ hsl hr
          have hp1 := hpos g' ctx pos st o1 st1 hg' ⟨hin, hst, hact⟩ hr
          split at h
          · rename_i e he
            -- the body returned an error: the result (if any) is dropped
            have hdrop : ∀ (e' : Err), e'.pos = e.pos → ∀ x, Cov x o1.err o1.res st1 → Cov x (some e') .nil st1 := by
              intro e' hpe x hx
              rcases hx with h1 | h1 | h1 | h1
              · obtain ⟨e1, he1, hx1⟩ := h1
                rw [he] at he1; cases he1
                exact .inl ⟨e', rfl, by omega⟩
              · obtain ⟨n, hn, hxn⟩ := h1
                have := hlow.out.errRes e he n hn
                have := (hp1.err e he).1
                exact .inl ⟨e', rfl, by omega⟩
              · exact .inr (.inr (.inl h1))
              · exact .inr (.inr (.inr h1))
            split at h
            · rename_i hc
              cases h
              simp only [Bool.and_eq_true, decide_eq_true_eq] at hc
              exact ⟨hlow.le, NewCov_imp hlow.newTF (fun x _ hx => hdrop _ hc.1.symm x hx),
                hdrop _ hc.1.symm _ hlow.prog, hlow.slow, OutOK_nil cfg pos _⟩
            · cases h
              exact ⟨hlow.le, NewCov_imp hlow.newTF (fun x _ hx => hdrop _ rfl x hx),
                hdrop _ rfl _ hlow.prog, hlow.slow, OutOK_nil cfg pos _⟩
          · rename_i he
            split at h
            · rename_i hn
              cases h
              have hc : ∀ x, Cov x o1.err o1.res st' → Cov x (some ⟨pos, .notFound nm⟩) .nil st' := by
                intro x hx
                rcases hx with h1 | h1 | h1 | h1
                · rw [he] at h1; exact absurd h1 (GeE_none x)
                · exact absurd h1 (GeR_of_isNil hn)
                · exact .inr (.inr (.inl h1))
                · exact .inr (.inr (.inr h1))
              exact ⟨hlow.le, NewCov_imp hlow.newTF (fun x _ hx => hc x hx), .inl ⟨_, rfl, Nat.le_refl _⟩,
                hlow.slow, OutOK_nil cfg pos _⟩
            · cases h
              have hc : ∀ x, Cov x o1.err o1.res st' → Cov x none o1.res st' := by
                intro x hx; rw [he] at hx; exact hx
              exact ⟨hlow.le, NewCov_imp hlow.newTF (fun x _ hx => hc x hx), hc _ hlow.prog, hlow.slow,
                ⟨(by intro e he'; cases he'), hlow.out.nonempty, hlow.out.eof⟩⟩
      | single g' =>
        simp only at h
        have hg' : g'.Core (TermGood cfg) := by simpa [G.Core] using hg
        have hgl' : g'.All (LocLow cfg) := by simp only [G.All] at hgl; exact hgl.2
        split at h
        · cases h
        · rename_i o1 st1 hr
          have hlow := ih g' ctx pos st o1 st1 hg' hgl' ⟨hin, hst, hact⟩ hsl hr
          have hp1 := hpos g' ctx pos st o1 st1 hg' ⟨hin, hst, hact⟩ hr
          split at h
          · rename_i e he
            cases h
            have hdrop : ∀ x, Cov x o1.err o1.res st' → Cov x (some e) .nil st' := by
              intro x hx
              rcases hx with h1 | h1 | h1 | h1
              · rw [he] at h1; exact .inl h1
              · obtain ⟨n, hn, hxn⟩ := h1
                have := hlow.out.errRes e he n hn
                have := (hp1.err e he).1
                exact .inl ⟨e, rfl, by omega⟩
              · exact .inr (.inr (.inl h1))
              · exact .inr (.inr (.inr h1))
            exact ⟨hlow.le, NewCov_imp hlow.newTF (fun x _ hx => hdrop x hx), hdrop _ hlow.prog, hlow.slow,
              OutOK_nil cfg pos _⟩
          · rename_i he
            split at h
            · rename_i tk c p r i hres
              cases h
              have hmem : Node.nt tk [c] p r i ∈ o1.res.alts := by rw [hres]; simp [Res.alts]
              obtain ⟨_, hw⟩ := hp1.nodes _ hmem
              have hw' : c.pos = p ∧ c.WF cfg.hi ∧ Chain cfg.hi [] c.rpos r := by
                simpa only [Node.WF, Chain] using hw
              have hcr : c.rpos = r := by
                have := hw'.2.2; simp only [Chain] at this; exact this.1
              have hc : ∀ x, Cov x o1.err o1.res st' → Cov x none (.one c) st' := by
                intro x hx
                rw [he, hres] at hx
                rcases hx with h1 | h1 | h1 | h1
                · exact .inl h1
                · obtain ⟨n, hn, hxn⟩ := h1
                  simp only [Res.alts, List.mem_singleton] at hn
                  subst hn
                  exact .inr (.inl ⟨c, by simp [Res.alts], by simp only [Node.rpos] at hxn; omega⟩)
                · exact .inr (.inr (.inl h1))
                · exact .inr (.inr (.inr h1))
              refine ⟨hlow.le, NewCov_imp hlow.newTF (fun x _ hx => hc x hx), hc _ hlow.prog, hlow.slow, ⟨?_, ?_, ?_⟩⟩
              · intro e he'; cases he'
              · intro _; simp [Res.alts]
              · intro m hm
                simp only [Res.alts, List.mem_singleton] at hm
                subst hm
                have := hlow.out.eof _ hmem
                simp only [Node.EofOK, EofOKList, and_true] at this
                exact this.2
            · cases h
              have hc : ∀ x, Cov x o1.err o1.res st' → Cov x none o1.res st' := by
                intro x hx; rw [he] at hx; exact hx
              exact ⟨hlow.le, NewCov_imp hlow.newTF (fun x _ hx => hc x hx), hc _ hlow.prog, hlow.slow,
                ⟨(by intro e he'; cases he'), hlow.out.nonempty, hlow.out.eof⟩⟩
      | suppress g' => exact hloc.elim
      | ltrim g' m => simp [G.Core] at hg
      | rtrim g' m => simp [G.Core] at hg
      | seq k gs o => simp [G.shape] at hsh
      | many g' ae o => simp [G.shape] at hsh
      | sepBy v s ae o => simp [G.shape] at hsh

end PV
