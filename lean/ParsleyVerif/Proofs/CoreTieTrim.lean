/-
  Stage 3 of the core tie: text.LeftTrim, text.RightTrim — translated closures vs. `run … (.ltrim g m)`, `(.rtrim g m)`.
-/
import ParsleyVerif.Proofs.CoreTieWrap
import ParsleyVerif.Proofs.RunEqns
namespace PV.CoreTie
open PV.FactsCore

/-- the state part of `ltrimFinish` -/
def ltrimSt (pos pos' : Nat) (st : St) : St :=
  match st.ctxErr with
  | some ce => if ce.pos = pos' && ce.kind.isNotFound then st.setError (some ⟨pos, ce.kind⟩) else st
  | none => st

/-- the answer part of `ltrimFinish` -/
def ltrimOut (pos pos' : Nat) (wsErr : Option PV.Err) (o : Out) : Out :=
  match o.err, wsErr with
  | some e, some w =>
    if e.pos > pos' then ⟨.nil, [], some w⟩
    else if e.kind.isNotFound then ⟨o.res, o.cp, some ⟨pos, e.kind⟩⟩ else ⟨o.res, o.cp, some e⟩
  | some e, none => ⟨o.res, o.cp, some e⟩
  | none, some w => ⟨.nil, [], some w⟩
  | none, none => ⟨o.res, o.cp, none⟩

theorem ltrimFinish_eq (pos pos' : Nat) (wsErr : Option PV.Err) (o : Out) (st : St) :
    ltrimFinish pos pos' wsErr o st = (ltrimOut pos pos' wsErr o, ltrimSt pos pos' st) := by
  unfold ltrimFinish ltrimOut ltrimSt
  cases st.ctxErr <;> cases o.err <;> cases wsErr <;> simp only <;> (try split) <;> (try split) <;> rfl

/-- **text.LeftTrim** (its captured `wsMode` is the model's mode) -/
theorem tie_LeftTrim (W : World Context) (cfg : Cfg) (h0 : cfg.maxCalls = 0) (hw : WorldRel W cfg) (fuel : Nat)
    (p : Parser) (g : G) (mode : Text.WsMode) (hp : Agrees W cfg fuel p g) :
    AgreesF (LeftTrim_parse W p (modeCode mode)) cfg (fuel + 1) (.ltrim g mode) := by
  intro m c pos s st hm hs
  rw [run_ltrim, if_neg (run_budget0 cfg h0 st)]
  have hsk := hw.skipWs pos mode
  generalize hsw : Text.skipWhitespaces cfg.file pos mode = sw at hsk
  obtain ⟨pos', ws⟩ := sw
  dsimp only at hsk ⊢
  have h := hp m c pos' s st hm hs
  cases hr : run cfg fuel g c pos' st with
  | none => rw [hr] at h; simp [LeftTrim_parse, Context_Reader, hsk, corr_none h, Corr]
  | some r =>
    obtain ⟨o, st1⟩ := r
    rw [hr] at h
    obtain ⟨s1, e1, r1⟩ := corr_some h
    dsimp only
    rw [ltrimFinish_eq]
    obtain ⟨res, cp, err⟩ := o
    have hE := tie_Error W s1 st1 r1
    have hnil : eSet [] = CorePrelude.Data.EmptyIntSet := rfl
    -- the context error is moved back over the whitespace: the state afterwards
    have hctx : ∃ s2, StRel s2 (ltrimSt pos pos' st1) ∧
        ((s2 = s1 ∧ (st1.ctxErr = none ∨ ∃ ce, st1.ctxErr = some ce ∧ (ce.pos ≠ pos' ∨ ce.kind.isNotFound = false))) ∨
         (∃ ce, st1.ctxErr = some ce ∧ ce.pos = pos' ∧ ce.kind.isNotFound = true ∧
            Context_SetError W (.mk (pos : Int) (eKind ce.kind)) s1 = .ok () s2)) := by
      unfold ltrimSt
      cases hce : st1.ctxErr with
      | none => exact ⟨s1, r1, .inl ⟨rfl, .inl rfl⟩⟩
      | some ce =>
        by_cases hpos : ce.pos = pos'
        · cases hk : ce.kind.isNotFound
          · exact ⟨s1, by simpa [hpos, hk] using r1, .inl ⟨rfl, .inr ⟨ce, rfl, .inr hk⟩⟩⟩
          · obtain ⟨s2, e2, r2⟩ := tie_SetError W s1 st1 r1 (some ⟨pos, ce.kind⟩)
            exact ⟨s2, by simpa [hpos, hk] using r2, .inr ⟨ce, rfl, hpos, hk, e2⟩⟩
        · exact ⟨s1, by simpa [hpos] using r1, .inl ⟨rfl, .inr ⟨ce, rfl, .inl hpos⟩⟩⟩
    obtain ⟨s2, r2, hs2⟩ := hctx
    refine corr_intro ?_ r2
    generalize hX : LeftTrim_parse W p (modeCode mode) m (pos : Int) s = X
    simp only [LeftTrim_parse, bind_apply, Context_Reader, read_apply, pure_apply, hsk, e1, eOut, hE] at hX
    subst hX
    -- the answer
    cases err with
    | none =>
      cases ws with
      | none =>
        rcases hs2 with ⟨rfl, hc | ⟨ce, hc, hne | hk⟩⟩ | ⟨ce, hc, hpos, hk, e2⟩ <;>
          first
            | core_simp [hc, eOut, wsToErr, CorePrelude.NewError, ltrimOut, hk, e2]
            | core_simp [hc, eOut, wsToErr, CorePrelude.NewError, ltrimOut, hk]
            | core_simp [hc, eOut, wsToErr, CorePrelude.NewError, ltrimOut]
      | some w =>
        obtain ⟨wp, wk⟩ := w
        rcases hs2 with ⟨rfl, hc | ⟨ce, hc, hne | hk⟩⟩ | ⟨ce, hc, hpos, hk, e2⟩ <;>
          first
            | core_simp [hc, eOut, wsToErr, CorePrelude.NewError, hnil, ltrimOut, hk, e2]
            | core_simp [hc, eOut, wsToErr, CorePrelude.NewError, hnil, ltrimOut, hk]
            | core_simp [hc, eOut, wsToErr, CorePrelude.NewError, hnil, ltrimOut]
    | some e =>
      cases ws with
      | none =>
        rcases hs2 with ⟨rfl, hc | ⟨ce, hc, hne | hk⟩⟩ | ⟨ce, hc, hpos, hk, e2⟩ <;>
          first
            | core_simp [hc, eOut, wsToErr, CorePrelude.NewError, ltrimOut, hk, e2]
            | core_simp [hc, eOut, wsToErr, CorePrelude.NewError, ltrimOut, hk]
            | core_simp [hc, eOut, wsToErr, CorePrelude.NewError, ltrimOut]
      | some w =>
        obtain ⟨wp, wk⟩ := w
        by_cases hgt : e.pos > pos'
        · rcases hs2 with ⟨rfl, hc | ⟨ce, hc, hne | hk⟩⟩ | ⟨ce, hc, hpos, hk, e2⟩ <;>
            first
            | core_simp [hc, eOut, wsToErr, CorePrelude.NewError, hnil, ltrimOut, hk, e2]
            | core_simp [hc, eOut, wsToErr, CorePrelude.NewError, hnil, ltrimOut, hk]
            | core_simp [hc, eOut, wsToErr, CorePrelude.NewError, hnil, ltrimOut]
        · cases hnf : e.kind.isNotFound <;>
          rcases hs2 with ⟨rfl, hc | ⟨ce, hc, hne | hk⟩⟩ | ⟨ce, hc, hpos, hk, e2⟩ <;>
            first
            | core_simp [hc, eOut, wsToErr, CorePrelude.NewError, hnf, ltrimOut, hk, e2]
            | core_simp [hc, eOut, wsToErr, CorePrelude.NewError, hnf, ltrimOut, hk]
            | core_simp [hc, eOut, wsToErr, CorePrelude.NewError, hnf, ltrimOut]

/-! ### RightTrim -/

/-- the function literal RightTrim hands to ast.SetReaderPos, with the captured `wsErr` as explicit state -/
abbrev rtrimF (W : World Context) (wsMode : Int) : CErr → Int → CM (CErr × Int) :=
  fun (wsErr : CErr) (pos' : Int) => do let (pos', wsErr) := W.Reader_SkipWhitespaces pos' wsMode; pure (wsErr, pos')

theorem setRpos_node (W : World Context) (cfg : Cfg) (hw : WorldRel W cfg) (mode : Text.WsMode) (n : PV.Node)
    (ws : Option PV.Err) (s : Context) :
    CorePrelude.SetReaderPos1 (rtrimF W (modeCode mode)) (eNode n) (eErr ws) s =
      .ok (eErr (setRposNode cfg.file mode n ws).2, eNode (setRposNode cfg.file mode n ws).1) s := by
  cases n with
  | term t v p r =>
    have := hw.skipWs r mode
    simp [eNode, CorePrelude.SetReaderPos1, setRposNode, rtrimF, this]
  | empty p =>
    have := hw.skipWs p mode
    simp [eNode, CorePrelude.SetReaderPos1, setRposNode, rtrimF, this]
  | eof p => simp [eNode, CorePrelude.SetReaderPos1, setRposNode]
  | nt t c p r i =>
    have := hw.skipWs r mode
    simp [eNode, CorePrelude.SetReaderPos1, setRposNode, rtrimF, this]

theorem setRpos_list (W : World Context) (cfg : Cfg) (hw : WorldRel W cfg) (mode : Text.WsMode) (l : List PV.Node)
    (ws : Option PV.Err) (s : Context) :
    CorePrelude.SetReaderPosList (rtrimF W (modeCode mode)) (l.map eNode) (eErr ws) s =
      .ok (eErr (setRposList cfg.file mode l ws).2, (setRposList cfg.file mode l ws).1.map eNode) s := by
  induction l generalizing ws with
  | nil => simp [CorePrelude.SetReaderPosList, setRposList]
  | cons n rest ih =>
    have h1 := setRpos_node W cfg hw mode n ws s
    have hn : ∀ (t : CErr), (match eNode n with
        | .list l => (do let (t, l') ← CorePrelude.SetReaderPosList (rtrimF W (modeCode mode)) l t; pure (t, CorePrelude.Node.list l') : CM (CErr × CNode))
        | n => CorePrelude.SetReaderPos1 (rtrimF W (modeCode mode)) n t) = CorePrelude.SetReaderPos1 (rtrimF W (modeCode mode)) (eNode n) t := by
      intro t; cases n <;> rfl
    rw [List.map_cons, CorePrelude.SetReaderPosList]
    · simp only [bind_apply, h1, setRposList, ih]
      simp
    · intro l h; cases n <;> simp [eNode] at h

theorem setRpos_res (W : World Context) (cfg : Cfg) (hw : WorldRel W cfg) (mode : Text.WsMode) (r : PV.Res)
    (hr : r.isNil = false) (s : Context) :
    CorePrelude.SetReaderPos (eRes r) (rtrimF W (modeCode mode)) (.nil) s =
      .ok (eErr (setRposRes cfg.file mode r).2, eRes (setRposRes cfg.file mode r).1) s := by
  cases r with
  | nil => simp [PV.Res.isNil] at hr
  | one n =>
    have h1 := setRpos_node W cfg hw mode n none s
    have : CorePrelude.SetReaderPos (eNode n) (rtrimF W (modeCode mode)) (.nil) =
        CorePrelude.SetReaderPos1 (rtrimF W (modeCode mode)) (eNode n) .nil := by
      cases n <;> rfl
    simp only [eRes_one, this, setRposRes]
    exact h1
  | list l =>
    have h1 := setRpos_list W cfg hw mode l none s
    simp only [eRes_list, CorePrelude.SetReaderPos, bind_apply, setRposRes]
    simp only [eErr_none] at h1
    rw [h1]
    simp

/-- **text.RightTrim** (its captured `wsMode` is the model's mode) -/
theorem tie_RightTrim (W : World Context) (cfg : Cfg) (h0 : cfg.maxCalls = 0) (hw : WorldRel W cfg) (fuel : Nat)
    (p : Parser) (g : G) (mode : Text.WsMode) (hp : Agrees W cfg fuel p g) :
    AgreesF (RightTrim_parse W p (modeCode mode)) cfg (fuel + 1) (.rtrim g mode) := by
  intro m c pos s st hm hs
  rw [run, if_neg (run_budget0 cfg h0 st)]
  have h := hp m c pos s st hm hs
  have hnil : eSet [] = CorePrelude.Data.EmptyIntSet := rfl
  cases hr : run cfg fuel g c pos st with
  | none => rw [hr] at h; simp [RightTrim_parse, Context_Reader, corr_none h, Corr]
  | some r =>
    obtain ⟨o, st1⟩ := r
    rw [hr] at h
    obtain ⟨s1, e1, r1⟩ := corr_some h
    obtain ⟨res, cp, err⟩ := o
    cases err with
    | some e =>
      dsimp only
      have hsk := hw.skipWs e.pos mode
      generalize Text.skipWhitespaces cfg.file e.pos mode = sw at hsk ⊢
      obtain ⟨errPos, ws⟩ := sw
      show Corr _ (some (⟨res, cp, some (if !e.kind.isWs && errPos > e.pos then ⟨errPos, e.kind⟩ else e)⟩, st1))
      refine corr_intro ?_ r1
      cases hk : e.kind.isWs
      · by_cases hgt : errPos > e.pos
        · core_simp [RightTrim_parse, Context_Reader, e1, eOut, hk, hsk, hgt, CorePrelude.NewError]
        · core_simp [RightTrim_parse, Context_Reader, e1, eOut, hk, hsk, hgt, CorePrelude.NewError]
      · core_simp [RightTrim_parse, Context_Reader, e1, eOut, hk]
    | none =>
      dsimp only
      cases hn : res.isNil
      · have hset := setRpos_res W cfg hw mode res hn s1
        generalize hsr : setRposRes cfg.file mode res = sr at hset
        obtain ⟨res', ws⟩ := sr
        cases ws with
        | none =>
          dsimp only
          refine corr_intro ?_ r1
          simp only [eErr_none] at hset
          simp [RightTrim_parse, Context_Reader, e1, eOut, hn, rtrimF, hset] at hset ⊢
        | some w =>
          dsimp only
          refine corr_intro ?_ r1
          simp only [eErr_some] at hset
          simp [RightTrim_parse, Context_Reader, e1, eOut, hn, rtrimF, hset, hnil] at hset ⊢
      · have : res = .nil := by cases res <;> simp_all [PV.Res.isNil]
        subst this
        show Corr _ (some (⟨.nil, cp, none⟩, st1))
        exact corr_intro (by simp [RightTrim_parse, Context_Reader, e1, eOut]) r1

end PV.CoreTie
