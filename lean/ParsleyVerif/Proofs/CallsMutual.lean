/-
  C17, part 9: the exact call count of the mutually left-recursive pair `A → B a | x ; B → A b | y` (family 3 of
  the suite: env = [Memoize₀(Any(SeqOf(B,'a'),'x')), Memoize₁(Any(SeqOf(A,'b'),'y'))], root = Sentence(A), input
  `x (ba)^k`), for EVERY k.

  What the run does (`mut_level`): at position 1 the two memoized rules are entered alternately — `A` with
  left-recursion counts (t, t), `B` with (t+1, t) — for t = 0, …, 2k+2 (n = 2k+1 is the input length), and `A` is
  curtailed at count 2k+3 > Remaining + 1.  The `m`-th activation of `A` above the curtailed one returns the
  min(m, k+1) shortest `A`-prefixes `x`, `xba`, … (end positions 2·min(m,k+1), …, 4, 2), the activation of `B`
  below it the min(m-1, k) shortest `B`-prefixes `xb`, `xbab`, … (end positions …, 5, 3).  Each activation
  costs 3 calls (the sequence, its element, the base alternative) plus one per alternative its inner
  activation returned: `cA (m+1) = cA m + 6 + min m (k+1) + min m k`.  Sentence adds 2.
  Total: cA (2k+3) + 2 = 3k² + 18k + 22.
  Nothing is read from the cache: both entries at position 1 are overwritten on the way up.
-/
import ParsleyVerif.Proofs.CallsSpine
namespace PV.C17b
open PV.Text PV.C17

def mutA : G := .memo 0 (.any [lrS 1 97, runeT 120])
def mutB : G := .memo 1 (.any [lrS 0 98, runeT 121])

theorem mutualEnv_eq : mutualEnv = [mutA, mutB] := rfl

def mutFile (k : Nat) : File := { name := "f", data := mutualInput k, offset := 1 }

structure IsMut (k : Nat) (cfg : Cfg) : Prop where
  env : cfg.env = mutualEnv
  file : cfg.file = mutFile k
  max : cfg.maxCalls = 0

variable {k : Nat} {cfg : Cfg}

theorem mut_off (hc : IsMut k cfg) : cfg.file.offset = 1 := by rw [hc.file]; rfl

theorem ba_length : ∀ k, ((List.replicate k [98, 97]).flatten : Bytes).length = 2 * k := by
  intro k
  induction k with
  | zero => rfl
  | succ k ih => simp only [List.replicate_succ, List.flatten_cons, List.length_append, ih]; simp; omega

theorem ba_get : ∀ k i, ((List.replicate k [98, 97]).flatten : Bytes)[i]? =
    if i < 2 * k then some (if i % 2 = 0 then 98 else 97) else none := by
  intro k
  induction k with
  | zero => intro i; simp
  | succ k ih =>
    intro i
    simp only [List.replicate_succ, List.flatten_cons]
    match i with
    | 0 => simp
    | 1 => simp; omega
    | i + 2 =>
      show ((List.replicate k [98, 97]).flatten : Bytes)[i]? = _
      rw [ih i]
      have : (i + 2) % 2 = i % 2 := by omega
      rw [this]
      by_cases h : i < 2 * k
      · have h' : i + 2 < 2 * (k + 1) := by omega
        simp [h, h']
      · have h' : ¬ i + 2 < 2 * (k + 1) := by omega
        simp [h, h']

/-- `b` follows the even positions 2 … 2k -/
theorem mut_fol_b (hc : IsMut k cfg) (p : Nat) (h2 : 2 ≤ p) :
    fol cfg.file.data 98 p = decide (p % 2 = 0 ∧ p ≤ 2 * k) := by
  rw [hc.file]
  obtain ⟨q, rfl⟩ : ∃ q, p = q + 2 := ⟨p - 2, by omega⟩
  simp only [fol, mutFile, mutualInput]
  have : q + 2 - 1 = q + 1 := by omega
  rw [this, List.getElem?_cons_succ, ba_get]
  by_cases h : q < 2 * k
  · by_cases h' : q % 2 = 0
    · have : (q + 2) % 2 = 0 ∧ q + 2 ≤ 2 * k := by omega
      simp [h, h'] <;> (intros; omega)
    · have : ¬ ((q + 2) % 2 = 0 ∧ q + 2 ≤ 2 * k) := by omega
      simp [h, h'] <;> (intros; omega)
  · have : ¬ ((q + 2) % 2 = 0 ∧ q + 2 ≤ 2 * k) := by omega
    simp [h] <;> (intros; omega)

/-- `a` follows the odd positions 3 … 2k+1 -/
theorem mut_fol_a (hc : IsMut k cfg) (p : Nat) (h2 : 2 ≤ p) :
    fol cfg.file.data 97 p = decide (p % 2 = 1 ∧ p ≤ 2 * k + 1) := by
  rw [hc.file]
  obtain ⟨q, rfl⟩ : ∃ q, p = q + 2 := ⟨p - 2, by omega⟩
  simp only [fol, mutFile, mutualInput]
  have : q + 2 - 1 = q + 1 := by omega
  rw [this, List.getElem?_cons_succ, ba_get]
  by_cases h : q < 2 * k
  · by_cases h' : q % 2 = 0
    · have : ¬ ((q + 2) % 2 = 1 ∧ q + 2 ≤ 2 * k + 1) := by omega
      simp [h, h'] <;> (intros; omega)
    · have : (q + 2) % 2 = 1 ∧ q + 2 ≤ 2 * k + 1 := by omega
      simp [h, h'] <;> (intros; omega)
  · have : ¬ ((q + 2) % 2 = 1 ∧ q + 2 ≤ 2 * k + 1) := by omega
    simp [h] <;> (intros; omega)

theorem mut_fol_x (hc : IsMut k cfg) : fol cfg.file.data 120 1 = true := by
  rw [hc.file]; rfl

theorem mut_fol_y (hc : IsMut k cfg) : fol cfg.file.data 121 1 = false := by
  rw [hc.file]; rfl

theorem mut_remaining (hc : IsMut k cfg) : remaining cfg.file 1 + Facts.curtailSlack = 2 * k + 2 := by
  rw [hc.file]
  simp [remaining, mutFile, mutualInput, File.len, Facts.curtailSlack]
  omega

/-- the left-recursion contexts: `A` is entered with counts (t, t), `B` with (t+1, t) -/
def ctxA : Nat → Ctx
  | 0 => []
  | t + 1 => [(0, t + 1), (1, t + 1)]
def ctxB : Nat → Ctx
  | 0 => [(0, 1)]
  | t + 1 => [(0, t + 2), (1, t + 1)]

theorem ctxA_inc (t : Nat) : (ctxA t).inc 0 = ctxB t := by
  cases t <;> simp [ctxA, ctxB, Ctx.inc]
theorem ctxB_inc (t : Nat) : (ctxB t).inc 1 = ctxA (t + 1) := by
  cases t <;> simp [ctxA, ctxB, Ctx.inc]
theorem ctxA_get (t : Nat) : (ctxA t).get 0 = t := by
  cases t <;> simp [ctxA, Ctx.get]
theorem ctxB_get (t : Nat) : (ctxB t).get 1 = t := by
  cases t <;> simp [ctxB, Ctx.get]

/-- the end positions 2j, …, 4, 2 of the `A`-prefixes and 2j+1, …, 5, 3 of the `B`-prefixes -/
def ev : Nat → List Nat
  | 0 => []
  | j + 1 => (2 * j + 2) :: ev j
def od : Nat → List Nat
  | 0 => []
  | j + 1 => (2 * j + 3) :: od j

theorem ev_mem : ∀ j p, p ∈ ev j → 2 ≤ p ∧ p ≤ 2 * j ∧ p % 2 = 0 := by
  intro j
  induction j with
  | zero => intro p hp; cases hp
  | succ j ih =>
    intro p hp
    rcases List.mem_cons.mp hp with rfl | hp
    · omega
    · have := ih p hp; omega

theorem od_mem : ∀ j p, p ∈ od j → 3 ≤ p ∧ p ≤ 2 * j + 1 ∧ p % 2 = 1 := by
  intro j
  induction j with
  | zero => intro p hp; cases hp
  | succ j ih =>
    intro p hp
    rcases List.mem_cons.mp hp with rfl | hp
    · omega
    · have := ih p hp; omega

theorem ev_length : ∀ j, (ev j).length = j := by
  intro j; induction j with
  | zero => rfl
  | succ j ih => simp [ev, ih]
theorem od_length : ∀ j, (od j).length = j := by
  intro j; induction j with
  | zero => rfl
  | succ j ih => simp [od, ih]

theorem ev_map_succ : ∀ j, (ev j).map (· + 1) = od j := by
  intro j; induction j with
  | zero => rfl
  | succ j ih => simp only [ev, od, List.map_cons, ih]

theorem od_map_succ : ∀ j, (od j).map (· + 1) ++ [2] = ev (j + 1) := by
  intro j; induction j with
  | zero => rfl
  | succ j ih =>
    show (2 * j + 3 + 1) :: ((od j).map (· + 1) ++ [2]) = _
    rw [ih]; rfl

/-- the `B`-prefixes from the `A`-prefixes: every one that `b` follows -/
theorem mut_nextB (hc : IsMut k cfg) (j : Nat) (hj : j ≤ k + 1) :
    ((ev j).filter (fol cfg.file.data 98)).map (· + 1) ++ (if fol cfg.file.data 121 1 then [2] else []) = od (min j k) := by
  rw [mut_fol_y hc]
  simp only [Bool.false_eq_true, ↓reduceIte, List.append_nil]
  have hall : ∀ i, i ≤ k → (ev i).filter (fol cfg.file.data 98) = ev i := by
    intro i hi
    apply List.filter_eq_self.mpr
    intro p hp
    have := ev_mem i p hp
    rw [mut_fol_b hc p this.1]
    simp; omega
  by_cases h : j ≤ k
  · rw [hall j h, ev_map_succ, Nat.min_eq_left h]
  · have hj' : j = k + 1 := by omega
    subst hj'
    have h1 : fol cfg.file.data 98 (2 * k + 2) = false := by
      rw [mut_fol_b hc _ (by omega)]; simp
    show (List.filter (fol cfg.file.data 98) ((2 * k + 2) :: ev k)).map (· + 1) = _
    rw [List.filter_cons, h1]
    simp only [Bool.false_eq_true, ↓reduceIte]
    rw [hall k (Nat.le_refl _), ev_map_succ, Nat.min_eq_right (by omega)]

/-- the `A`-prefixes from the `B`-prefixes: each followed by `a`, and `x` -/
theorem mut_nextA (hc : IsMut k cfg) (j : Nat) (hj : j ≤ k) :
    ((od j).filter (fol cfg.file.data 97)).map (· + 1) ++ (if fol cfg.file.data 120 1 then [2] else []) = ev (j + 1) := by
  rw [mut_fol_x hc]
  simp only [↓reduceIte]
  have : (od j).filter (fol cfg.file.data 97) = od j := by
    apply List.filter_eq_self.mpr
    intro p hp
    have := od_mem j p hp
    rw [mut_fol_a hc p (by omega)]
    simp; omega
  rw [this, od_map_succ]

/-- the calls of the `m`-th activation of `A` above the curtailed one -/
def mutCost (k : Nat) : Nat → Nat
  | 0 => 0
  | m + 1 => mutCost k m + 6 + min m (k + 1) + min m k

theorem gt1_of_map_ev (L : List Node) (j : Nat) (h : L.map Node.rpos = ev j) : ∀ x ∈ L, 1 < x.rpos := by
  intro x hx
  have : x.rpos ∈ ev j := by rw [← h]; exact List.mem_map_of_mem hx
  have := ev_mem j _ this
  omega

theorem gt1_of_map_od (L : List Node) (j : Nat) (h : L.map Node.rpos = od j) : ∀ x ∈ L, 1 < x.rpos := by
  intro x hx
  have : x.rpos ∈ od j := by rw [← h]; exact List.mem_map_of_mem hx
  have := od_mem j _ this
  omega

/-- **the left spine**: the `m`-th activation of `A` above the curtailed one (entered with counts (t, t),
    t = 2k+3-m) returns the min(m, k+1) shortest `A`-prefixes and costs `mutCost k m` calls -/
theorem mut_level (hc : IsMut k cfg) : ∀ m t, m + t = 2 * k + 3 →
    ∃ L : List Node, L.map Node.rpos = ev (min m (k + 1)) ∧ ∀ st : St, st.cache = [] →
      ∃ e st', run cfg (8 * m + 2) mutA (ctxA t) 1 st = some (⟨resOf L, [0], e⟩, st') ∧
        st'.calls = st.calls + mutCost k m := by
  intro m
  induction m with
  | zero =>
    intro t ht
    refine ⟨[], rfl, ?_⟩
    intro st hcache
    rw [mutA, run_memo_curtail_eq hc.max 1 0 _ (ctxA t) 1 st (by rw [hcache]; rfl)
      (by rw [mut_remaining hc, ctxA_get]; omega)]
    exact ⟨_, _, rfl, (logEv_fields _ _ _).2.2.1⟩
  | succ m ih =>
    intro t ht
    obtain ⟨LA, hLA, innerA⟩ := ih (t + 1) (by omega)
    -- the activation of `B` between the two activations of `A`
    rw [← ctxB_inc] at innerA
    obtain ⟨LB, hLB, stepB⟩ := lr_step hc.max (mut_off hc) 1 0 98 121 (by omega) (by omega) mutA (by rw [hc.env]; rfl)
      (8 * m) (ctxB t) (by rw [mut_remaining hc, ctxB_get]; omega) LA (gt1_of_map_ev LA _ hLA) (mutCost k m) [0] innerA
    rw [hLA, mut_nextB hc _ (Nat.min_le_right _ _)] at hLB
    have hmin : min (min m (k + 1)) k = min m k := by omega
    rw [hmin] at hLB
    rw [← ctxA_inc] at stepB
    have stepB' : ∀ s : St, s.cache = [] →
        ∃ e s1, run cfg (8 * m + 4 + 2) mutB ((ctxA t).inc 0) 1 s = some (⟨resOf LB, [0], e⟩, s1) ∧
          s1.calls = s.calls + (mutCost k m + 3 + LA.length) := by
      intro s hs
      obtain ⟨e, s1, a, b⟩ := stepB s hs
      exact ⟨e, s1, a, by rw [b]; omega⟩
    obtain ⟨L, hL, stepA⟩ := lr_step hc.max (mut_off hc) 0 1 97 120 (by omega) (by omega) mutB (by rw [hc.env]; rfl)
      (8 * m + 4) (ctxA t) (by rw [mut_remaining hc, ctxA_get]; omega) LB (gt1_of_map_od LB _ hLB)
      (mutCost k m + 3 + LA.length) [0] stepB'
    rw [hLB, mut_nextA hc _ (Nat.min_le_right _ _)] at hL
    have hmin2 : min m k + 1 = min (m + 1) (k + 1) := by omega
    rw [hmin2] at hL
    refine ⟨L, hL, ?_⟩
    intro st hcache
    obtain ⟨e, st', h1, h2⟩ := stepA st hcache
    refine ⟨e, st', ?_, ?_⟩
    · rw [show 8 * (m + 1) + 2 = 8 * m + 4 + 6 by omega]; exact h1
    · have l1 : LA.length = min m (k + 1) := by rw [← List.length_map (f := Node.rpos), hLA, ev_length]
      have l2 : LB.length = min m k := by rw [← List.length_map (f := Node.rpos), hLB, od_length]
      rw [h2, mutCost, l1, l2]; omega

theorem mutCost_low (k : Nat) : ∀ m, m ≤ k + 1 → mutCost k m = m * m + 5 * m := by
  intro m
  induction m with
  | zero => intro _; rfl
  | succ m ih =>
    intro hm
    have e : (m + 1) * (m + 1) = m * m + 2 * m + 1 := by
      rw [Nat.add_mul, Nat.mul_add]; omega
    rw [mutCost, ih (by omega), e, Nat.min_eq_left (by omega), Nat.min_eq_left (by omega)]
    omega

theorem mutCost_high (k : Nat) : ∀ d, mutCost k (k + 1 + d) = (k + 1) * (k + 1) + 5 * (k + 1) + d * (2 * k + 7) := by
  intro d
  induction d with
  | zero => rw [Nat.add_zero, mutCost_low k (k + 1) (Nat.le_refl _)]; simp
  | succ d ih =>
    rw [show k + 1 + (d + 1) = (k + 1 + d) + 1 by omega, mutCost, ih, Nat.add_mul d 1 (2 * k + 7), Nat.one_mul,
      Nat.min_eq_right (by omega), Nat.min_eq_right (by omega)]
    omega

/-- the closed form -/
def mutCalls (k : Nat) : Nat := 3 * k * k + 18 * k + 22

theorem mut_total (k : Nat) : mutCost k (2 * k + 3) + 2 = mutCalls k := by
  have h := mutCost_high k (k + 2)
  rw [show k + 1 + (k + 2) = 2 * k + 3 by omega] at h
  rw [h]
  unfold mutCalls
  have e1 : (k + 1) * (k + 1) = k * k + 2 * k + 1 := by
    rw [Nat.add_mul, Nat.mul_add]; omega
  have e2 : (k + 2) * (2 * k + 7) = 2 * (k * k) + 11 * k + 14 := by
    rw [Nat.add_mul, Nat.mul_add, Nat.mul_add, Nat.mul_left_comm k 2 k]; omega
  have e3 : 3 * k * k = 3 * (k * k) := Nat.mul_assoc 3 k k
  rw [e1, e2, e3]
  omega

/-- **the closed form for the mutually left-recursive pair**, for every configuration whose grammar table is that of
    family 3 and whose file holds `x (ba)^k` at base offset 1 (any ghost flag, file set, terminal parameters) -/
theorem mut_parse (hc : IsMut k cfg) :
    ∃ p, parse cfg (16 * k + 30) (G.sentence (.ref 0)) = some p ∧ p.err = none ∧ p.res.isNil = false ∧
      p.st.calls = mutCalls k := by
  have hpos : cfg.file.pos 0 = 1 := by rw [hc.file]; rfl
  obtain ⟨L, hLm, lvl⟩ := mut_level hc (2 * k + 3) 0 (by omega)
  obtain ⟨e, s1, h1, h2⟩ := lvl ({} : St).regCall rfl
  have href : run cfg (16 * k + 26 + 3) (.ref 0) [] 1 ({} : St).regCall = some (⟨resOf L, [0], e⟩, s1) := by
    rw [run_ref hc.max (16 * k + 26 + 2) 0 mutA (by rw [hc.env]; rfl)]
    exact run_mono cfg (8 * (2 * k + 3) + 2) (16 * k + 26 + 2) (by omega) _ _ _ _ _ h1
  rw [Nat.min_eq_right (by omega)] at hLm
  obtain ⟨h, rest, rfl⟩ : ∃ h rest, L = h :: rest := by
    cases L with
    | nil => cases hLm
    | cons h rest => exact ⟨h, rest, rfl⟩
  have hh : h.rpos = 2 * k + 2 := by
    have := congrArg List.head? hLm
    simpa [ev] using this
  have heof : isEOF cfg.file h.rpos = true := by
    rw [hc.file, hh]; simp [isEOF, mutFile, mutualInput, File.len]
    omega
  obtain ⟨o, st', r1, r2, r3, r4⟩ := sentence_first hc.max (16 * k + 26) (.ref 0) 1 {} _ (resOf (h :: rest)) _ e h rest
    href (resOf_alts _) (by omega) heof
  have := parse_of_run (cfg := cfg) (16 * k + 30) (G.sentence (.ref 0)) o st' (by rw [hpos]; exact r1) r2 r3
  refine ⟨_, this, rfl, r2, ?_⟩
  show st'.calls = _
  rw [r4, h2, ← mut_total]
  simp [St.regCall]; omega

def mutCfg (k : Nat) : Cfg := famCfg mutualEnv (mutualInput k)

theorem mutCfg_is (k : Nat) : IsMut k (mutCfg k) := ⟨rfl, rfl, rfl⟩
end PV.C17b
