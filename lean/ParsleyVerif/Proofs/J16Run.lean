/-
  C16, full value theorem — layer 1: forward ("symbolic execution") lemmas about `run` for the combinators
  the JSON grammar uses, in the deterministic single-result fragment:

    `Succ cfg g pos n`   with enough fuel, from EVERY left-recursion context and state, `g` at `pos` answers
                         exactly the one node `n`, no curtailing parsers, no error;
    `Fails cfg g pos`    with enough fuel, from every context and state, `g` at `pos` answers nothing
                         (with or without an error), no curtailing parsers.

  Everything here lives in `PV.J16`.
-/
import ParsleyVerif.Proofs.Trim
import ParsleyVerif.Proofs.RunEqns
namespace PV.J16
open PV PV.Text

def Succ (cfg : Cfg) (g : G) (pos : Nat) (n : Node) : Prop :=
  ∃ F, ∀ fuel, F ≤ fuel → ∀ (ctx : Ctx) (st : St), ∃ st', run cfg fuel g ctx pos st = some (⟨.one n, [], none⟩, st')

def Fails (cfg : Cfg) (g : G) (pos : Nat) : Prop :=
  ∃ F, ∀ fuel, F ≤ fuel → ∀ (ctx : Ctx) (st : St), ∃ e st', run cfg fuel g ctx pos st = some (⟨.nil, [], e⟩, st')

theorem guard_off {cfg : Cfg} (hmc : cfg.maxCalls = 0) (st : St) : ¬ (cfg.maxCalls ≠ 0 ∧ st.calls > cfg.maxCalls) := by
  omega

theorem fuel_succ {F fuel : Nat} (h : F + 1 ≤ fuel) : ∃ k, fuel = k + 1 ∧ F ≤ k := ⟨fuel - 1, by omega, by omega⟩

/-! ### terminals, End -/

theorem succ_term {cfg : Cfg} (hmc : cfg.maxCalls = 0) {t : Terminal} {pos : Nat} {n : Node}
    (h : t.parse cfg.params cfg.file pos = .node n) : Succ cfg (.term t) pos n := by
  refine ⟨1, fun fuel hf ctx st => ?_⟩
  obtain ⟨k, rfl, _⟩ := fuel_succ hf
  exact ⟨st, run_term_node cfg k t ctx pos st (Or.inl hmc) n h⟩

theorem fails_term {cfg : Cfg} (hmc : cfg.maxCalls = 0) {t : Terminal} {pos : Nat}
    (h : ∀ n, t.parse cfg.params cfg.file pos ≠ .node n) : Fails cfg (.term t) pos := by
  refine ⟨1, fun fuel hf ctx st => ?_⟩
  obtain ⟨k, rfl, _⟩ := fuel_succ hf
  rw [run_term cfg k t ctx pos st (Or.inl hmc)]
  cases hp : t.parse cfg.params cfg.file pos with
  | node n => exact absurd hp (h n)
  | err e => exact ⟨_, _, rfl⟩
  | panic s => exact ⟨_, _, rfl⟩

theorem run_eof (cfg : Cfg) (hmc : cfg.maxCalls = 0) (fuel : Nat) (ctx : Ctx) (pos : Nat) (st : St) :
    run cfg (fuel + 1) .eof ctx pos st =
      if isEOF cfg.file pos then some (⟨.one (.eof pos), [], none⟩, st)
      else some (⟨.nil, [], some ⟨pos, .other endErrMsg⟩⟩, st.logEv cfg (.termFail pos (.other endErrMsg))) := by
  rw [run]
  rw [if_neg (guard_off hmc st)]

theorem succ_eof {cfg : Cfg} (hmc : cfg.maxCalls = 0) {pos : Nat} (h : isEOF cfg.file pos = true) :
    Succ cfg .eof pos (.eof pos) := by
  refine ⟨1, fun fuel hf ctx st => ?_⟩
  obtain ⟨k, rfl, _⟩ := fuel_succ hf
  exact ⟨st, by rw [run_eof cfg hmc, if_pos h]⟩

/-! ### rules, Name -/

theorem run_ref (cfg : Cfg) (hmc : cfg.maxCalls = 0) (fuel k : Nat) (ctx : Ctx) (pos : Nat) (st : St) (g : G)
    (hk : cfg.env[k]? = some g) : run cfg (fuel + 1) (.ref k) ctx pos st = run cfg fuel g ctx pos st := by
  rw [run]
  rw [if_neg (guard_off hmc st)]
  simp only [hk]

theorem succ_ref {cfg : Cfg} (hmc : cfg.maxCalls = 0) {k : Nat} {g : G} {pos : Nat} {n : Node}
    (hk : cfg.env[k]? = some g) (h : Succ cfg g pos n) : Succ cfg (.ref k) pos n := by
  obtain ⟨F, hF⟩ := h
  refine ⟨F + 1, fun fuel hf ctx st => ?_⟩
  obtain ⟨f, rfl, hle⟩ := fuel_succ hf
  rw [run_ref cfg hmc f k ctx pos st g hk]
  exact hF f hle ctx st

theorem fails_ref {cfg : Cfg} (hmc : cfg.maxCalls = 0) {k : Nat} {g : G} {pos : Nat}
    (hk : cfg.env[k]? = some g) (h : Fails cfg g pos) : Fails cfg (.ref k) pos := by
  obtain ⟨F, hF⟩ := h
  refine ⟨F + 1, fun fuel hf ctx st => ?_⟩
  obtain ⟨f, rfl, hle⟩ := fuel_succ hf
  rw [run_ref cfg hmc f k ctx pos st g hk]
  exact hF f hle ctx st

theorem run_name (cfg : Cfg) (hmc : cfg.maxCalls = 0) (fuel : Nat) (g : G) (nm : Bytes) (ctx : Ctx) (pos : Nat) (st : St) :
    run cfg (fuel + 1) (.name g nm) ctx pos st =
      match run cfg fuel g ctx pos st with
      | none => none
      | some (o, st) =>
        match o.err with
        | some e =>
          if e.pos = pos && e.kind.isNotFound then some (⟨.nil, o.cp, some ⟨pos, .notFound nm⟩⟩, st)
          else some (⟨.nil, o.cp, some e⟩, st)
        | none =>
          if o.res.isNil then some (⟨.nil, o.cp, some ⟨pos, .notFound nm⟩⟩, st)
          else some (⟨o.res, o.cp, none⟩, st) := by
  rw [run]
  rw [if_neg (guard_off hmc st)]
  rfl

theorem succ_name {cfg : Cfg} (hmc : cfg.maxCalls = 0) {g : G} {nm : Bytes} {pos : Nat} {n : Node}
    (h : Succ cfg g pos n) : Succ cfg (.name g nm) pos n := by
  obtain ⟨F, hF⟩ := h
  refine ⟨F + 1, fun fuel hf ctx st => ?_⟩
  obtain ⟨f, rfl, hle⟩ := fuel_succ hf
  obtain ⟨st', hr⟩ := hF f hle ctx st
  rw [run_name cfg hmc, hr]
  exact ⟨st', rfl⟩

theorem fails_name {cfg : Cfg} (hmc : cfg.maxCalls = 0) {g : G} {nm : Bytes} {pos : Nat}
    (h : Fails cfg g pos) : Fails cfg (.name g nm) pos := by
  obtain ⟨F, hF⟩ := h
  refine ⟨F + 1, fun fuel hf ctx st => ?_⟩
  obtain ⟨f, rfl, hle⟩ := fuel_succ hf
  obtain ⟨e, st', hr⟩ := hF f hle ctx st
  rw [run_name cfg hmc, hr]
  cases e with
  | none => exact ⟨_, st', rfl⟩
  | some e =>
    simp only
    split
    · exact ⟨_, st', rfl⟩
    · exact ⟨_, st', rfl⟩

/-! ### Choice -/

theorem altErr_cp (pos : Nat) (a : AltSt) (e : Option Err) : (altErr pos a e).cp = a.cp := by
  unfold altErr
  cases e with
  | none => rfl
  | some e2 =>
    simp only
    repeat' split
    all_goals rfl

/-- the alternatives that answer nothing are skipped -/
theorem choiceLoop_skip (r : RunFn) (ctx : Ctx) (pos : Nat) (post : List G) :
    ∀ (pre : List G), (∀ g ∈ pre, ∀ st, ∃ e st', r g ctx pos st = some (⟨.nil, [], e⟩, st')) →
      ∀ (a : AltSt) (st : St), ∃ a' st', a'.cp = a.cp ∧
        choiceLoop r ctx pos (pre ++ post) a st = choiceLoop r ctx pos post a' st' := by
  intro pre
  induction pre with
  | nil => intro _ a st; exact ⟨a, st, rfl, rfl⟩
  | cons g gs ih =>
    intro hpre a st
    obtain ⟨e, st1, hr⟩ := hpre g (by simp) st.regCall
    obtain ⟨a', st', hcp, hloop⟩ := ih (fun g' hg' => hpre g' (by simp [hg']))
      (altErr pos { a with cp := cpUnion a.cp [] } e) st1
    refine ⟨a', st', ?_, ?_⟩
    · rw [hcp, altErr_cp]; exact cpUnion_nil_right _
    · rw [List.cons_append, choiceLoop, hr]
      simp only [Res.isNil, Bool.not_true, Bool.false_eq_true, if_false]
      exact hloop

theorem run_choice (cfg : Cfg) (hmc : cfg.maxCalls = 0) (fuel : Nat) (gs : List G) (ctx : Ctx) (pos : Nat) (st : St) :
    run cfg (fuel + 1) (.choice gs) ctx pos st =
      match choiceLoop (run cfg fuel) ctx pos gs {} st with
      | none => none
      | some (some o, _, st) => some (o, st)
      | some (none, a, st) => some (⟨.nil, a.cp, match a.err with | some e => some e | none => a.nf⟩, st) := by
  rw [run]
  rw [if_neg (guard_off hmc st)]
  rfl

/-- Choice: the alternatives before `g` answer nothing, `g` answers `n` -/
theorem succ_choice {cfg : Cfg} (hmc : cfg.maxCalls = 0) {pre post : List G} {g : G} {pos : Nat} {n : Node}
    (hpre : ∀ g' ∈ pre, Fails cfg g' pos) (hg : Succ cfg g pos n) : Succ cfg (.choice (pre ++ g :: post)) pos n := by
  -- a common fuel bound for the alternatives before `g`
  have hF : ∃ F, ∀ g' ∈ pre, ∀ fuel, F ≤ fuel → ∀ (ctx : Ctx) (st : St), ∃ e st',
      run cfg fuel g' ctx pos st = some (⟨.nil, [], e⟩, st') := by
    clear hg
    induction pre with
    | nil => exact ⟨0, fun g' hg' => by cases hg'⟩
    | cons a l ih =>
      obtain ⟨F1, h1⟩ := hpre a (by simp)
      obtain ⟨F2, h2⟩ := ih (fun g' hg' => hpre g' (by simp [hg']))
      refine ⟨max F1 F2, fun g' hg' fuel hf ctx st => ?_⟩
      rcases List.mem_cons.mp hg' with rfl | hm
      · exact h1 fuel (by omega) ctx st
      · exact h2 g' hm fuel (by omega) ctx st
  obtain ⟨F1, h1⟩ := hF
  obtain ⟨F2, h2⟩ := hg
  refine ⟨max F1 F2 + 1, fun fuel hf ctx st => ?_⟩
  obtain ⟨f, rfl, hle⟩ := fuel_succ hf
  obtain ⟨a', st1, hcp, hloop⟩ := choiceLoop_skip (run cfg f) ctx pos (g :: post) pre
    (fun g' hg' st => h1 g' hg' f (by omega) ctx st) {} st
  obtain ⟨st2, hr⟩ := h2 f (by omega) ctx st1.regCall
  rw [run_choice cfg hmc, hloop, choiceLoop, hr]
  simp only [Res.isNil, Bool.not_false, if_true, altErr_cp, cpUnion_nil_right, hcp]
  exact ⟨_, rfl⟩

/-- Choice: no alternative answers anything -/
theorem fails_choice {cfg : Cfg} (hmc : cfg.maxCalls = 0) {gs : List G} {pos : Nat}
    (hgs : ∀ g' ∈ gs, Fails cfg g' pos) : Fails cfg (.choice gs) pos := by
  have hF : ∃ F, ∀ g' ∈ gs, ∀ fuel, F ≤ fuel → ∀ (ctx : Ctx) (st : St), ∃ e st',
      run cfg fuel g' ctx pos st = some (⟨.nil, [], e⟩, st') := by
    induction gs with
    | nil => exact ⟨0, fun g' hg' => by cases hg'⟩
    | cons a l ih =>
      obtain ⟨F1, h1⟩ := hgs a (by simp)
      obtain ⟨F2, h2⟩ := ih (fun g' hg' => hgs g' (by simp [hg']))
      refine ⟨max F1 F2, fun g' hg' fuel hf ctx st => ?_⟩
      rcases List.mem_cons.mp hg' with rfl | hm
      · exact h1 fuel (by omega) ctx st
      · exact h2 g' hm fuel (by omega) ctx st
  obtain ⟨F1, h1⟩ := hF
  refine ⟨F1 + 1, fun fuel hf ctx st => ?_⟩
  obtain ⟨f, rfl, hle⟩ := fuel_succ hf
  obtain ⟨a', st1, hcp, hloop⟩ := choiceLoop_skip (run cfg f) ctx pos [] gs
    (fun g' hg' st => h1 g' hg' f hle ctx st) {} st
  rw [List.append_nil] at hloop
  rw [run_choice cfg hmc, hloop, choiceLoop]
  simp only [hcp]
  exact ⟨_, _, rfl⟩

/-! ### LeftTrim -/

theorem succ_ltrim {cfg : Cfg} (hmc : cfg.maxCalls = 0) (hoff : 1 ≤ cfg.file.offset) {g : G} {m : WsMode} {pos : Nat}
    {n : Node} (hin : InFile cfg.file pos) (hok : wsOk m (rest cfg.file pos))
    (h : Succ cfg g (pos + wsRun (rest cfg.file pos)) n) : Succ cfg (.ltrim g m) pos n := by
  obtain ⟨F, hF⟩ := h
  refine ⟨F + 1, fun fuel hf ctx st => ?_⟩
  obtain ⟨f, rfl, hle⟩ := fuel_succ hf
  obtain ⟨st', hr⟩ := hF f hle ctx st
  rw [run_ltrim_res cfg f g m ctx pos st st' _ _ (Or.inl hmc) hin hoff hr, if_pos hok]
  exact ⟨st', rfl⟩

theorem fails_ltrim {cfg : Cfg} (hmc : cfg.maxCalls = 0) (hoff : 1 ≤ cfg.file.offset) {g : G} {m : WsMode} {pos : Nat}
    (hin : InFile cfg.file pos) (h : Fails cfg g (pos + wsRun (rest cfg.file pos))) : Fails cfg (.ltrim g m) pos := by
  obtain ⟨F, hF⟩ := h
  refine ⟨F + 1, fun fuel hf ctx st => ?_⟩
  obtain ⟨f, rfl, hle⟩ := fuel_succ hf
  obtain ⟨e, st', hr⟩ := hF f hle ctx st
  rw [run_ltrim_c10 cfg f g m ctx pos st (Or.inl hmc) hin hoff, hr]
  simp only [ltrimOut_c10]
  cases e with
  | none =>
    simp only
    split
    · exact ⟨_, st', rfl⟩
    · exact ⟨_, st', rfl⟩
  | some e =>
    simp only
    split
    · split
      · exact ⟨_, st', rfl⟩
      · split
        · exact ⟨_, st', rfl⟩
        · exact ⟨_, st', rfl⟩
    · exact ⟨_, st', rfl⟩

/-! ### RightTrim in mode WsSpacesNl over a single terminal / non-terminal node -/

/-- the node with its end moved by `k` -/
def bump (k : Nat) : Node → Node
  | .term t v p r => .term t v p (r + k)
  | .nt t c p r i => .nt t c p (r + k) i
  | n => n

def IsTN : Node → Prop
  | .term _ _ _ _ => True
  | .nt _ _ _ _ _ => True
  | _ => False

theorem setRposRes_nl (f : File) (n : Node) (htn : IsTN n) (hin : InFile f n.rpos) (hoff : 1 ≤ f.offset) :
    setRposRes f .spacesNl (.one n) = (.one (bump (wsRun (rest f n.rpos)) n), none) := by
  cases n with
  | term t v p r =>
    have hin' : InFile f r := hin
    simp only [setRposRes, setRposNode, skipWhitespaces_spec f r .spacesNl hin' hoff, wsVerdict, wsToErr, bump]
    rfl
  | nt t c p r i =>
    have hin' : InFile f r := hin
    simp only [setRposRes, setRposNode, skipWhitespaces_spec f r .spacesNl hin' hoff, wsVerdict, wsToErr, bump]
    rfl
  | empty p => exact absurd htn (by simp [IsTN])
  | eof p => exact absurd htn (by simp [IsTN])

theorem succ_rtrim_nl {cfg : Cfg} (hmc : cfg.maxCalls = 0) (hoff : 1 ≤ cfg.file.offset) {g : G} {pos : Nat} {n : Node}
    (htn : IsTN n) (hin : InFile cfg.file n.rpos) (h : Succ cfg g pos n) :
    Succ cfg (.rtrim g .spacesNl) pos (bump (wsRun (rest cfg.file n.rpos)) n) := by
  obtain ⟨F, hF⟩ := h
  refine ⟨F + 1, fun fuel hf ctx st => ?_⟩
  obtain ⟨f, rfl, hle⟩ := fuel_succ hf
  obtain ⟨st', hr⟩ := hF f hle ctx st
  rw [run_rtrim cfg f g .spacesNl ctx pos st (Or.inl hmc), hr]
  simp only [setRposRes_nl cfg.file n htn hin hoff]
  exact ⟨st', rfl⟩

/-! ### the Sequence family -/

/-- a chain of single results of the elements `depth`, `depth + 1`, … that cannot be extended -/
inductive ShChain (cfg : Cfg) (sh : SeqShape) : Nat → Nat → List Node → Prop
  | stopNone {depth pos} : sh.lookup depth = none → ShChain cfg sh depth pos []
  | stopFail {depth pos g} : sh.lookup depth = some g → Fails cfg g pos → ShChain cfg sh depth pos []
  | step {depth pos g n ns} : sh.lookup depth = some g → Succ cfg g pos n → ShChain cfg sh (depth + 1) n.rpos ns →
      ShChain cfg sh depth pos (n :: ns)

theorem handleResult_pos' (sh : SeqShape) (p q : Nat) (l : List Node) (h : l ≠ []) :
    handleResult sh p l = handleResult sh q l := by
  cases l with
  | nil => exact absurd rfl h
  | cons n l => exact handleResult_pos sh p q n l

theorem seqParse_stopNone (r : RunFn) (sh : SeqShape) (fuel depth : Nat) (nodes : List Node) (ctx : Ctx) (pos : Nat)
    (merge : Bool) (ss : SeqSt) (st : St) (hlk : sh.lookup depth = none)
    (hlen : sh.lenCheck depth = true) (hnodes : depth = 0 → nodes = []) :
    ∃ b ss' st', seqParse r sh (fuel + 1) depth nodes ctx pos merge ss st = some (b, ss', st') ∧
      ss'.result = appendNode ss.result (.one (handleResult sh pos nodes)) ∧ ss'.cp = ss.cp := by
  rw [seqParse]
  simp only [hlk, hlen, if_true, cpUnion_nil_right, ite_self]
  by_cases hd : depth > 0
  · rw [if_pos hd]; exact ⟨_, _, _, rfl, rfl, rfl⟩
  · rw [if_neg hd, hnodes (by omega)]; exact ⟨_, _, _, rfl, rfl, rfl⟩

theorem seqParse_stopFail (r : RunFn) (sh : SeqShape) (fuel depth : Nat) (nodes : List Node) (ctx : Ctx) (pos : Nat)
    (merge : Bool) (ss : SeqSt) (st : St) (g : G) (e : Option Err) (st1 : St) (hlk : sh.lookup depth = some g)
    (hr : r g ctx pos st.regCall = some (⟨.nil, [], e⟩, st1))
    (hlen : sh.lenCheck depth = true) (hnodes : depth = 0 → nodes = []) :
    ∃ b ss' st', seqParse r sh (fuel + 1) depth nodes ctx pos merge ss st = some (b, ss', st') ∧
      ss'.result = appendNode ss.result (.one (handleResult sh pos nodes)) ∧ ss'.cp = ss.cp := by
  rw [seqParse]
  simp only [hlk, hr, hlen, if_true, cpUnion_nil_right, ite_self]
  by_cases hd : depth > 0
  · rw [if_pos hd]; exact ⟨_, _, _, rfl, rfl, rfl⟩
  · rw [if_neg hd, hnodes (by omega)]; exact ⟨_, _, _, rfl, rfl, rfl⟩

theorem seqParse_chain (cfg : Cfg) (sh : SeqShape) : ∀ {depth pos : Nat} {ns : List Node},
    ShChain cfg sh depth pos ns → sh.lenCheck (depth + ns.length) = true →
    ∃ F, ∀ fr, F ≤ fr → ∀ fuel, ns.length + 1 ≤ fuel → ∀ (nodes : List Node) (ctx : Ctx) (merge : Bool) (ss : SeqSt) (st : St),
      (depth = 0 → nodes = []) →
      ∃ b ss' st', seqParse (run cfg fr) sh fuel depth nodes ctx pos merge ss st = some (b, ss', st') ∧
        ss'.result = appendNode ss.result (.one (handleResult sh pos (nodes ++ ns))) ∧ ss'.cp = ss.cp := by
  intro depth pos ns hc
  induction hc with
  | @stopNone depth pos hlk =>
    intro hlen
    refine ⟨0, fun fr _ fuel hf nodes ctx merge ss st hnodes => ?_⟩
    obtain ⟨k, rfl⟩ : ∃ k, fuel = k + 1 := ⟨fuel - 1, by simp at hf; omega⟩
    rw [List.append_nil]
    exact seqParse_stopNone (run cfg fr) sh k depth nodes ctx pos merge ss st hlk (by simpa using hlen) hnodes
  | @stopFail depth pos g hlk hfail =>
    intro hlen
    obtain ⟨F, hF⟩ := hfail
    refine ⟨F, fun fr hfr fuel hf nodes ctx merge ss st hnodes => ?_⟩
    obtain ⟨k, rfl⟩ : ∃ k, fuel = k + 1 := ⟨fuel - 1, by simp at hf; omega⟩
    obtain ⟨e, st1, hr⟩ := hF fr hfr ctx st.regCall
    rw [List.append_nil]
    exact seqParse_stopFail (run cfg fr) sh k depth nodes ctx pos merge ss st g e st1 hlk hr
      (by simpa using hlen) hnodes
  | @step depth pos g n ns hlk hsucc _ ih =>
    intro hlen
    obtain ⟨F1, hF1⟩ := hsucc
    obtain ⟨F2, hF2⟩ := ih (by rw [← hlen]; congr 1; simp only [List.length_cons]; omega)
    refine ⟨max F1 F2, fun fr hfr fuel hf nodes ctx merge ss st hnodes => ?_⟩
    obtain ⟨k, rfl⟩ : ∃ k, fuel = k + 1 := ⟨fuel - 1, by simp at hf; omega⟩
    obtain ⟨st1, hr⟩ := hF1 fr (by omega) ctx st.regCall
    obtain ⟨sscp, ssres, sserr⟩ := ss
    obtain ⟨b, ss', st', hsp, hres, hcp⟩ := hF2 fr (by omega) k (by simp only [List.length_cons] at hf; omega)
      (nodes ++ [n]) (if n.rpos > pos then [] else ctx) (merge && !decide (n.rpos > pos)) ⟨sscp, ssres, sserr⟩ st1
      (by omega)
    obtain ⟨b', hb'⟩ := seqAlts_one (fun n ss st =>
        seqParse (run cfg fr) sh k (depth + 1) (nodes ++ [n]) (if n.rpos > pos then [] else ctx) n.rpos
          (merge && !decide (n.rpos > pos)) ss st) n ⟨sscp, ssres, sserr⟩ ss' st1 st' b hsp
    refine ⟨b', ss', st', ?_, ?_, hcp⟩
    · rw [seqParse]
      simp only [hlk, hr, pickErr, cpUnion_nil_right, ite_self, Res.alts]
      exact hb'
    · rw [hres]
      simp only [List.append_assoc, List.cons_append, List.nil_append]
      rw [handleResult_pos' sh n.rpos pos (nodes ++ n :: ns) (by simp)]

/-- a Sequence-family parser whose elements answer the chain `ns` (of an accepted length) answers its tree -/
theorem succ_seqfam {cfg : Cfg} (hmc : cfg.maxCalls = 0) {g : G} {sh : SeqShape} (hs : g.shape = some sh)
    {pos : Nat} {ns : List Node} (hc : ShChain cfg sh 0 pos ns) (hlen : sh.lenCheck ns.length = true) :
    Succ cfg g pos (handleResult sh pos ns) := by
  obtain ⟨F, hF⟩ := seqParse_chain cfg sh hc (by simpa using hlen)
  refine ⟨max F (ns.length + 1) + 1, fun fuel hf ctx st => ?_⟩
  obtain ⟨f, rfl, hle⟩ := fuel_succ hf
  obtain ⟨b, ss', st', hsp, hres, hcp⟩ := hF f (by omega) f (by omega) [] ctx true {} st (fun _ => rfl)
  rw [run_seqfam cfg f g sh ctx pos st hs, if_neg (guard_off hmc st)]
  unfold runSeq
  rw [hsp]
  simp only [List.nil_append, appendNode] at hres
  have hcp' : ss'.cp = [] := hcp
  refine ⟨st'.setError ss'.err, ?_⟩
  simp only [seqFinish, hres, hcp', Res.isNil, Bool.false_eq_true, if_false]

/-- SeqOf over a non-empty list whose first element answers nothing answers nothing -/
theorem fails_seqOf {cfg : Cfg} (hmc : cfg.maxCalls = 0) {g0 : G} {gs : List G} {o : SeqOpts} {pos : Nat}
    (h : Fails cfg g0 pos) : Fails cfg (.seq .seqOf (g0 :: gs) o) pos := by
  obtain ⟨F, hF⟩ := h
  refine ⟨F + 2, fun fuel hf ctx st => ?_⟩
  obtain ⟨f, rfl, hle⟩ := fuel_succ hf
  obtain ⟨f', rfl, hle'⟩ := fuel_succ hle
  obtain ⟨e, st1, hr⟩ := hF (f' + 1) (by omega) ctx st.regCall
  rw [run_seqfam cfg (f' + 1) _ _ ctx pos st rfl, if_neg (guard_off hmc st)]
  unfold runSeq
  rw [seqParse]
  simp only [List.getElem?_cons_zero, hr, pickErr, cpUnion, if_true]
  have : ((0 : Nat) == (g0 :: gs).length) = false := by simp
  simp only [this, Bool.false_eq_true, if_false, seqFinish, Res.isNil, if_true]
  cases hn : o.name with
  | none => exact ⟨_, _, rfl⟩
  | some nm => exact ⟨_, _, rfl⟩

end PV.J16
