/-
  C03 (Memoize is transparent, deterministic, at most once per position) — vocabulary and first facts.

  * `pn st`: the position of the furthest recorded error, as a number (0 = no error recorded, p + 1 =
    an error at position p), so that "SetError keeps the furthest" reads `pn (st.setError e) = max …`;
  * `Grow st st'`: what every call does to the context — the ghost log is only appended to, the call count
    and the furthest error position never decrease (`run_grow`, for every grammar);
  * the one-child combinators (Optional, Name, Single, Suppress, LeftTrim, RightTrim) as one equation
    (`run_wrap`), the way `run_seqfam` treats the Sequence family;
  * the predicates on the ghost log that C03 speaks about: `bodyRuns`, `NoCurtail`, `NoReentry`.
-/
import ParsleyVerif.Proofs.RunBasics
import ParsleyVerif.Proofs.RunLoops
import ParsleyVerif.Proofs.RunEqns
import ParsleyVerif.Spec.Derives
import ParsleyVerif.Spec.Strip
namespace PV
open PV.Text

/-! ### the furthest error position -/

def pe : Option Err → Nat
  | none => 0
  | some e => e.pos + 1

def pn (st : St) : Nat := pe st.ctxErr

theorem pe_eq_iff (a b : Option Err) : pe a = pe b ↔ a.map Err.pos = b.map Err.pos := by
  cases a <;> cases b <;> simp [pe]

theorem pn_setError (st : St) (e : Option Err) : pn (st.setError e) = max (pn st) (pe e) := by
  cases e with
  | none => simp [St.setError, pe]
  | some e =>
    unfold pn St.setError
    cases hc : st.ctxErr with
    | none => simp [pe]
    | some c =>
      by_cases hge : e.pos ≥ c.pos
      · simp only [hge, ↓reduceIte, pe]; omega
      · simp only [hge, ↓reduceIte, hc, pe]; omega

theorem setError_cache (st : St) (e : Option Err) : (st.setError e).cache = st.cache := (setError_ctxErr st e).2.1
theorem setError_active (st : St) (e : Option Err) : (st.setError e).active = st.active := (setError_ctxErr st e).2.2.1
theorem setError_log (st : St) (e : Option Err) : (st.setError e).log = st.log := (setError_ctxErr st e).2.2.2.1
theorem setError_calls (st : St) (e : Option Err) : (st.setError e).calls = st.calls := (setError_ctxErr st e).2.2.2.2

/-! ### SkipWhitespaces never moves backwards; the context-error rewrite of LeftTrim is the identity -/

theorem skipLoop_ge (f : File) : ∀ (bs : Bytes) (cur nl : Nat), cur ≤ (skipLoop f bs cur nl).1 := by
  intro bs
  induction bs with
  | nil => intro cur nl; simp [skipLoop]
  | cons b r ih =>
    intro cur nl
    simp only [skipLoop]
    split
    · have := ih (cur + 1) (if isBreak b = true ∧ nl = 0 then f.pos cur else nl); omega
    · simp

theorem skipWhitespaces_ge (f : File) (pos : Nat) (m : WsMode) : pos ≤ (skipWhitespaces f pos m).1 := by
  simp only [skipWhitespaces]
  have := skipLoop_ge f (f.data.drop (pos - f.offset)) (pos - f.offset) 0
  generalize skipLoop f (f.data.drop (pos - f.offset)) (pos - f.offset) 0 = r at this ⊢
  obtain ⟨cur, nl⟩ := r
  simp only at this ⊢
  (repeat' split) <;> simp only [File.pos] <;> omega

/-- text.LeftTrim: `if ctx.Error() is NotFound at the trimmed position { ctx.SetError(at pos) }` -/
def ltrimFix (st : St) (pos pos' : Nat) : St :=
  match st.ctxErr with
  | some ce => if ce.pos = pos' && ce.kind.isNotFound then st.setError (some ⟨pos, ce.kind⟩) else st
  | none => st

/-- … which cannot change the context: `SetError` refuses an error before the recorded one, and when no
    whitespace was skipped the "moved" error is the recorded one -/
theorem ltrimFix_eq (st : St) (pos pos' : Nat) (h : pos ≤ pos') : ltrimFix st pos pos' = st := by
  unfold ltrimFix
  split
  · rename_i ce hce
    split
    · rename_i hc
      simp only [Bool.and_eq_true, decide_eq_true_eq] at hc
      simp only [St.setError, hce]
      split
      · have : pos = ce.pos := by simp only [ge_iff_le] at *; omega
        cases st; cases ce; simp_all
      · rfl
    · rfl
  · rfl

/-! ### the one-child combinators as one equation -/

def nameOut (pos : Nat) (nm : Bytes) (o : Out) : Out :=
  match o.err with
  | some e =>
    if e.pos = pos && e.kind.isNotFound then ⟨.nil, o.cp, some ⟨pos, .notFound nm⟩⟩
    else ⟨.nil, o.cp, some e⟩
  | none =>
    if o.res.isNil then ⟨.nil, o.cp, some ⟨pos, .notFound nm⟩⟩
    else ⟨o.res, o.cp, none⟩

def singleOut (o : Out) : Out :=
  match o.err with
  | some e => ⟨.nil, o.cp, some e⟩
  | none =>
    match o.res with
    | .one (.nt _ [c] _ _ _) => ⟨.one c, o.cp, none⟩
    | res => ⟨res, o.cp, none⟩

def ltrimOut (pos pos' : Nat) (wsErr : Option Err) (o : Out) : Out :=
  match o.err with
  | some e =>
    match wsErr with
    | some w =>
      if e.pos > pos' then ⟨.nil, [], some w⟩
      else if e.kind.isNotFound then ⟨o.res, o.cp, some ⟨pos, e.kind⟩⟩
      else ⟨o.res, o.cp, some e⟩
    | none => ⟨o.res, o.cp, some e⟩
  | none =>
    match wsErr with
    | some w => ⟨.nil, [], some w⟩
    | none => ⟨o.res, o.cp, none⟩

def rtrimOut (f : File) (m : WsMode) (o : Out) : Out :=
  match o.err with
  | some e =>
    let (errPos, _) := skipWhitespaces f e.pos m
    ⟨o.res, o.cp, some (if !e.kind.isWs && errPos > e.pos then ⟨errPos, e.kind⟩ else e)⟩
  | none =>
    let (res', ws) := setRposRes f m o.res
    match ws with
    | some w => ⟨.nil, [], some w⟩
    | none => ⟨res', o.cp, none⟩

/-- a combinator that calls one sub-parser once (at `cpos`) and post-processes its answer -/
structure Wrap where
  child : G
  cpos : Nat
  out : Out → Out
  fix : St → St

def G.wrap (f : File) (pos : Nat) : G → Option Wrap
  | .optional g' => some ⟨g', pos, fun o => ⟨appendNode o.res (.one (.empty pos)), o.cp, o.err⟩, id⟩
  | .name g' nm => some ⟨g', pos, nameOut pos nm, id⟩
  | .single g' => some ⟨g', pos, singleOut, id⟩
  | .suppress g' => some ⟨g', pos, fun o => ⟨o.res, o.cp, none⟩, id⟩
  | .ltrim g' m =>
    some ⟨g', (skipWhitespaces f pos m).1,
      ltrimOut pos (skipWhitespaces f pos m).1 (wsToErr (skipWhitespaces f pos m).2),
      fun st => ltrimFix st pos (skipWhitespaces f pos m).1⟩
  | .rtrim g' m => some ⟨g', pos, rtrimOut f m, id⟩
  | _ => none

theorem run_wrap (cfg : Cfg) (fuel : Nat) (g : G) (w : Wrap) (ctx : Ctx) (pos : Nat) (st : St)
    (hw : g.wrap cfg.file pos = some w) :
    run cfg (fuel + 1) g ctx pos st =
      if cfg.maxCalls ≠ 0 ∧ st.calls > cfg.maxCalls then none else
        match run cfg fuel w.child ctx w.cpos st with
        | none => none
        | some (o, st1) => some (w.out o, w.fix st1) := by
  cases g <;> simp only [G.wrap, Option.some.injEq, reduceCtorEq] at hw
  all_goals
    subst hw
    rw [run]
    split
    · rfl
    · simp only
      first
        | rfl
        | (generalize run cfg fuel _ ctx _ st = r
           rcases r with _ | ⟨⟨res, cp, _ | e⟩, st1⟩ <;>
             simp only [nameOut, singleOut, ltrimOut, rtrimOut, ltrimFix, id] <;>
             (repeat' split) <;> simp_all <;>
             (rename_i hx; exact (hx _ _ _ _ _ rfl rfl rfl rfl rfl).elim))

theorem wrap_fix_eq {f : File} {pos : Nat} {g : G} {w : Wrap} (hw : g.wrap f pos = some w) (st : St) :
    w.fix st = st := by
  cases g <;> simp only [G.wrap, Option.some.injEq, reduceCtorEq] at hw <;> subst hw <;>
    first | rfl | exact ltrimFix_eq _ _ _ (skipWhitespaces_ge _ _ _)

theorem wrap_out_cp {f : File} {pos : Nat} {g : G} {w : Wrap} (hw : g.wrap f pos = some w) (o : Out)
    (ho : o.cp = []) : (w.out o).cp = [] := by
  cases g <;> simp only [G.wrap, Option.some.injEq, reduceCtorEq] at hw <;> subst hw <;>
    simp only [nameOut, singleOut, ltrimOut, rtrimOut] <;> (repeat' split) <;> simp_all

theorem wrap_out_congr {f : File} {pos : Nat} {g : G} {w : Wrap} (hw : g.wrap f pos = some w) (o o0 : Out)
    (hr : o.res = o0.res) (he : o.err = o0.err) :
    (w.out o).res = (w.out o0).res ∧ (w.out o).err = (w.out o0).err := by
  obtain ⟨r, c, e⟩ := o
  obtain ⟨r0, c0, e0⟩ := o0
  simp only at hr he
  subst hr he
  cases g <;> simp only [G.wrap, Option.some.injEq, reduceCtorEq] at hw <;> subst hw <;>
    simp only [nameOut, singleOut, ltrimOut, rtrimOut] <;> (repeat' split) <;> simp_all

theorem wrap_strip (S : Nat → Bool) {f : File} {pos : Nat} {g : G} {w : Wrap} (hw : g.wrap f pos = some w) :
    (g.strip S).wrap f pos = some { w with child := w.child.strip S } := by
  cases g <;> simp only [G.wrap, Option.some.injEq, reduceCtorEq] at hw <;> subst hw <;> rfl

theorem wrap_all {P : G → Prop} {f : File} {pos : Nat} {g : G} {w : Wrap} (hg : g.All P)
    (hw : g.wrap f pos = some w) : w.child.All P := by
  cases g <;> simp only [G.wrap, Option.some.injEq, reduceCtorEq] at hw <;> subst hw <;>
    simp only [G.All] at hg <;> exact hg.2

/-! ### what every call does to the context -/

structure Grow (st st' : St) : Prop where
  log : st.log <:+ st'.log
  calls : st.calls ≤ st'.calls
  pn : pn st ≤ pn st'

theorem Grow.refl (st : St) : Grow st st := ⟨List.suffix_refl _, Nat.le_refl _, Nat.le_refl _⟩

theorem Grow.trans {a b c : St} (h1 : Grow a b) (h2 : Grow b c) : Grow a c :=
  ⟨h1.log.trans h2.log, Nat.le_trans h1.calls h2.calls, Nat.le_trans h1.pn h2.pn⟩

theorem Grow.of_eq {st st' : St} (hl : st'.log = st.log) (hc : st'.calls = st.calls) (he : st'.ctxErr = st.ctxErr) :
    Grow st st' :=
  ⟨by rw [hl]; exact List.suffix_refl _, by rw [hc]; exact Nat.le_refl _, by unfold PV.pn; rw [he]; exact Nat.le_refl _⟩

theorem Grow.regCall (st : St) : Grow st st.regCall :=
  ⟨List.suffix_refl _, Nat.le_succ _, Nat.le_refl _⟩

theorem Grow.setError (st : St) (e : Option Err) : Grow st (st.setError e) :=
  ⟨by rw [setError_log]; exact List.suffix_refl _, by rw [setError_calls]; exact Nat.le_refl _,
   by rw [pn_setError]; omega⟩

theorem Grow.logEv (st : St) (cfg : Cfg) (ev : Ev) : Grow st (st.logEv cfg ev) := by
  obtain ⟨_, h2, h3, _, h5⟩ := logEv_fields st cfg ev
  refine ⟨?_, by rw [h3]; exact Nat.le_refl _, by unfold PV.pn; rw [h2]; exact Nat.le_refl _⟩
  cases h5 with
  | inl h5 => rw [h5]; exact List.suffix_refl _
  | inr h5 => rw [h5]; exact List.suffix_cons _ _

theorem logEv_ghost {cfg : Cfg} (hg : cfg.ghost = true) (st : St) (ev : Ev) :
    st.logEv cfg ev = { st with log := ev :: st.log } := by
  simp [St.logEv, hg]

def RunGrow (r : RunFn) : Prop := ∀ g ctx pos st o st', r g ctx pos st = some (o, st') → Grow st st'

theorem anyLoop_grow {r : RunFn} (hr : RunGrow r) (ctx : Ctx) (pos : Nat) (gs : List G) (a : AltSt) (st : St)
    (a' : AltSt) (st' : St) (h : anyLoop r ctx pos gs a st = some (a', st')) : Grow st st' :=
  anyLoop_ind r ctx pos (fun _ s => Grow st s) gs
    (fun g _ _ s o s' hA hrun => hA.trans ((Grow.regCall s).trans (hr g ctx pos _ o s' hrun)))
    a st a' st' (Grow.refl st) h

theorem choiceLoop_grow {r : RunFn} (hr : RunGrow r) (ctx : Ctx) (pos : Nat) (gs : List G) (a : AltSt) (st : St)
    (out : Option Out) (a' : AltSt) (st' : St) (h : choiceLoop r ctx pos gs a st = some (out, a', st')) :
    Grow st st' :=
  choiceLoop_ind r ctx pos (fun _ s => Grow st s) (fun _ _ s => Grow st s) gs
    (fun _ _ hA => hA)
    (fun g _ _ s o s' hA hrun =>
      have h1 : Grow st s' := hA.trans ((Grow.regCall s).trans (hr g ctx pos _ o s' hrun))
      ⟨fun _ => h1.trans (Grow.setError _ _), fun _ => h1⟩)
    a st out a' st' (Grow.refl st) h

theorem seqParse_grow {r : RunFn} (hr : RunGrow r) (sh : SeqShape) (fuel : Nat) (fr : Frame) (ss : SeqSt) (st : St)
    (b : Bool) (ss' : SeqSt) (st' : St) (hd : fr.depth = fr.nodes.length)
    (h : seqParse r sh fuel fr.depth fr.nodes fr.ctx fr.pos fr.merge ss st = some (b, ss', st')) : Grow st st' :=
  seqParse_ind r sh (fun _ _ _ => True) (fun _ s _ s' => Grow s s')
    (fun _ s => Grow.refl s) (fun _ _ _ _ _ _ h1 h2 => h1.trans h2) (fun _ _ _ _ _ _ _ => trivial)
    (fun fr _ s g o s1 _ _ _ hrun =>
      have h1 : Grow s s1 := (Grow.regCall s).trans (hr g fr.ctx fr.pos _ o s1 hrun)
      ⟨h1, fun _ _ => trivial, fun _ _ => h1⟩)
    (fun _ _ s _ _ _ _ => Grow.refl s)
    fuel fr ss st b ss' st' trivial hd h

theorem seqFinish_grow (sh : SeqShape) (pos : Nat) (ss : SeqSt) (st : St) : Grow st (seqFinish sh pos ss st).2 := by
  unfold seqFinish
  by_cases hnil : ss.result.isNil = true
  · simp only [hnil, ↓reduceIte]; exact Grow.refl _
  · simp only [hnil]; exact Grow.setError _ _

theorem seqFinish_fields (sh : SeqShape) (pos : Nat) (ss : SeqSt) (st : St) :
    (seqFinish sh pos ss st).1.cp = ss.cp ∧
    ((seqFinish sh pos ss st).2 = st ∨ (seqFinish sh pos ss st).2 = st.setError ss.err) := by
  by_cases hnil : ss.result.isNil = true
  · exact ⟨by simp [seqFinish], .inl (by simp [seqFinish, hnil])⟩
  · exact ⟨by simp [seqFinish], .inr (by simp [seqFinish, hnil])⟩

theorem run_grow (cfg : Cfg) : ∀ fuel, RunGrow (run cfg fuel) := by
  intro fuel
  induction fuel with
  | zero => intro g ctx pos st o st' h; simp [run] at h
  | succ fuel ih =>
    intro g ctx pos st o st' h
    cases hsh : g.shape with
    | some sh =>
      rw [run_seqfam cfg fuel g sh ctx pos st hsh] at h
      split at h
      · cases h
      · unfold runSeq at h
        split at h
        · cases h
        · rename_i b ss st1 hsp
          cases h
          exact (seqParse_grow ih sh fuel ⟨0, [], ctx, pos, true⟩ {} st b ss st1 rfl hsp).trans
            (seqFinish_grow sh pos ss st1)
    | none =>
    cases hw : g.wrap cfg.file pos with
    | some w =>
      rw [run_wrap cfg fuel g w ctx pos st hw] at h
      split at h
      · cases h
      · split at h
        · cases h
        · rename_i o1 st1 hr
          cases h
          rw [wrap_fix_eq hw]
          exact ih _ _ _ _ _ _ hr
    | none =>
    unfold run at h
    split at h
    · cases h
    · cases g with
      | term t =>
        simp only at h
        split at h
        · cases h; exact Grow.refl _
        · cases h; exact Grow.logEv _ _ _
        · cases h; exact Grow.refl _
      | empty => simp only at h; cases h; exact Grow.refl _
      | eof =>
        simp only at h
        split at h
        · cases h; exact Grow.refl _
        · cases h; exact Grow.logEv _ _ _
      | ref k =>
        simp only at h
        split at h
        · exact ih _ _ _ _ _ _ h
        · cases h; exact Grow.refl _
      | memo idx body =>
        simp only at h
        cases hc : cacheGet st.cache idx pos ctx with
        | some e => simp only [hc] at h; cases h; exact Grow.logEv _ _ _
        | none =>
          simp only [hc] at h
          by_cases hcur : ctx.get idx > remaining cfg.file pos + Facts.curtailSlack
          · simp only [hcur, ↓reduceIte] at h; cases h; exact Grow.logEv _ _ _
          · simp only [hcur, ↓reduceIte] at h
            split at h
            · cases h
            · rename_i o2 st2 hr
              cases h
              have h1 := ih _ _ _ _ _ _ hr
              have h0 : Grow st ({ st with active := (idx, pos) :: st.active } : St) := Grow.of_eq rfl rfl rfl
              exact (h0.trans ((Grow.logEv _ _ _).trans h1)).trans (Grow.of_eq rfl rfl rfl)
      | any gs =>
        simp only at h
        split at h
        · cases h
        · rename_i a st1 hl
          have hg := anyLoop_grow ih ctx pos gs {} st a st1 hl
          split at h
          · cases h; exact hg
          · cases h; exact hg.trans (Grow.setError _ _)
      | choice gs =>
        simp only at h
        split at h
        · cases h
        · rename_i o1 a st1 hl
          cases h
          exact choiceLoop_grow ih ctx pos gs {} st _ a _ hl
        · rename_i a st1 hl
          cases h
          exact choiceLoop_grow ih ctx pos gs {} st _ a _ hl
      | optional g' => simp [G.wrap] at hw
      | name g' nm => simp [G.wrap] at hw
      | single g' => simp [G.wrap] at hw
      | suppress g' => simp [G.wrap] at hw
      | ltrim g' m => simp [G.wrap] at hw
      | rtrim g' m => simp [G.wrap] at hw
      | seq k gs o => simp [G.shape] at hsh
      | many g' ae o => simp [G.shape] at hsh
      | sepBy v s ae o => simp [G.shape] at hsh

/-! ### the ghost log -/

/-- number of times the body of Memoize `idx` was started at `pos` -/
def bodyRuns (log : List Ev) (idx pos : Nat) : Nat :=
  log.countP (fun e => match e with | .body i p _ => i == idx && p == pos | _ => false)

/-- nothing was curtailed -/
def NoCurtail (log : List Ev) : Prop := ∀ i p, Ev.curtail i p ∉ log

/-- no memoized body was started while the same body was running at the same position -/
def NoReentry (log : List Ev) : Prop := ∀ i p d, Ev.body i p d ∈ log → d = 1

theorem NoCurtail.of_suffix {l l' : List Ev} (h : NoCurtail l') (hs : l <:+ l') : NoCurtail l :=
  fun i p hm => h i p (hs.subset hm)

theorem NoReentry.of_suffix {l l' : List Ev} (h : NoReentry l') (hs : l <:+ l') : NoReentry l :=
  fun i p d hm => h i p d (hs.subset hm)

theorem bodyRuns_cons_body (log : List Ev) (i p d idx pos : Nat) :
    bodyRuns (Ev.body i p d :: log) idx pos = bodyRuns log idx pos + (if i = idx ∧ p = pos then 1 else 0) := by
  unfold bodyRuns
  rw [List.countP_cons]
  by_cases h : i = idx ∧ p = pos
  · simp [h]
  · simp only [h, ↓reduceIte]
    have : (i == idx && p == pos) = false := by
      simp only [Bool.and_eq_false_imp, beq_iff_eq, beq_eq_false_iff_ne, ne_eq]
      intro h1 h2; exact h ⟨h1, h2⟩
    simp [this]

theorem bodyRuns_cons_other (log : List Ev) (ev : Ev) (h : ∀ i p d, ev ≠ Ev.body i p d) (idx pos : Nat) :
    bodyRuns (ev :: log) idx pos = bodyRuns log idx pos := by
  unfold bodyRuns
  rw [List.countP_cons]
  cases ev with
  | body i p d => exact absurd rfl (h i p d)
  | _ => simp

instance (log : List Ev) : Decidable (NoCurtail log) :=
  decidable_of_iff (log.all (fun e => match e with | .curtail _ _ => false | _ => true) = true) (by
    simp only [List.all_eq_true, NoCurtail]
    constructor
    · intro h i p hm
      have := h _ hm
      simp at this
    · intro h e he
      cases e with
      | curtail i p => exact absurd he (h i p)
      | _ => rfl)

instance (log : List Ev) : Decidable (NoReentry log) :=
  decidable_of_iff (log.all (fun e => match e with | .body _ _ d => d == 1 | _ => true) = true) (by
    simp only [List.all_eq_true, NoReentry]
    constructor
    · intro h i p d hm
      have := h _ hm
      simpa using this
    · intro h e he
      cases e with
      | body i p d => simpa using h i p d he
      | _ => rfl)

end PV
