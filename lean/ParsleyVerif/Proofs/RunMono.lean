/-
  Fuel monotonicity: `fuel` bounds the recursion depth only — once `run` answers, more fuel gives the
  same answer.  (`none` is "out of fuel / over the work budget", never a parser outcome.)
-/
import ParsleyVerif.Proofs.RunLoops
namespace PV

theorem run_mono (cfg : Cfg) : ∀ f1 f2, f1 ≤ f2 → RunLe (run cfg f1) (run cfg f2) := by
  intro f1
  induction f1 with
  | zero => intro f2 _ g ctx pos st x h; simp [run] at h
  | succ f1 ih =>
    intro f2 hle g ctx pos st x h
    cases f2 with
    | zero => omega
    | succ f2 =>
      have ih' : RunLe (run cfg f1) (run cfg f2) := ih f2 (by omega)
      unfold run at h ⊢
      split at h
      · cases h
      · rename_i hb
        simp only [hb, ↓reduceIte]
        cases g with
        | term t => exact h
        | empty => exact h
        | eof => exact h
        | ref k =>
          simp only at h ⊢
          split at h
          · exact ih' _ _ _ _ _ h
          · exact h
        | memo idx body =>
          simp only at h ⊢
          cases hc : cacheGet st.cache idx pos ctx with
          | some e => simp only [hc] at h ⊢; exact h
          | none =>
            simp only [hc] at h ⊢
            by_cases hcur : ctx.get idx > Text.remaining cfg.file pos + Facts.curtailSlack
            · simp only [hcur, ↓reduceIte] at h ⊢; exact h
            · simp only [hcur, ↓reduceIte] at h ⊢
              split at h
              · cases h
              · rename_i o st2 hr
                rw [ih' _ _ _ _ _ hr]
                exact h
        | any gs =>
          simp only at h ⊢
          split at h
          · cases h
          · rename_i a st1 hr
            rw [anyLoop_mono ih' _ _ _ _ _ _ hr]
            exact h
        | choice gs =>
          simp only at h ⊢
          split at h
          · cases h
          · rename_i o a st1 hr
            rw [choiceLoop_mono ih' _ _ _ _ _ _ hr]
            exact h
          · rename_i a st1 hr
            rw [choiceLoop_mono ih' _ _ _ _ _ _ hr]
            exact h
        | optional g' =>
          simp only at h ⊢
          split at h
          · cases h
          · rename_i o st1 hr
            rw [ih' _ _ _ _ _ hr]; exact h
        | name g' nm =>
          simp only at h ⊢
          split at h
          · cases h
          · rename_i o st1 hr
            rw [ih' _ _ _ _ _ hr]; exact h
        | single g' =>
          simp only at h ⊢
          split at h
          · cases h
          · rename_i o st1 hr
            rw [ih' _ _ _ _ _ hr]; exact h
        | suppress g' =>
          simp only at h ⊢
          split at h
          · cases h
          · rename_i o st1 hr
            rw [ih' _ _ _ _ _ hr]; exact h
        | ltrim g' m =>
          simp only at h ⊢
          split at h
          · cases h
          · rename_i o st1 hr
            rw [ih' _ _ _ _ _ hr]; exact h
        | rtrim g' m =>
          simp only at h ⊢
          split at h
          · cases h
          · rename_i o st1 hr
            rw [ih' _ _ _ _ _ hr]; exact h
        | seq k gs o =>
          simp only [G.shape] at h ⊢
          split at h
          · cases h
          · rename_i b ss st1 hr
            rw [seqParse_mono ih' _ f1 f2 (by omega) _ _ _ _ _ _ _ _ hr]
            exact h
        | many g' ae o =>
          simp only [G.shape] at h ⊢
          split at h
          · cases h
          · rename_i b ss st1 hr
            rw [seqParse_mono ih' _ f1 f2 (by omega) _ _ _ _ _ _ _ _ hr]
            exact h
        | sepBy v s ae o =>
          simp only [G.shape] at h ⊢
          split at h
          · cases h
          · rename_i b ss st1 hr
            rw [seqParse_mono ih' _ f1 f2 (by omega) _ _ _ _ _ _ _ _ hr]
            exact h

/-- `parse` inherits it -/
theorem parse_mono (cfg : Cfg) (f1 f2 : Nat) (hle : f1 ≤ f2) (g : G) (st : St) (x : ParseOut)
    (h : parse cfg f1 g st = some x) : parse cfg f2 g st = some x := by
  cases hr : run cfg f1 g [] (cfg.file.pos 0) st with
  | none => simp [parse, hr] at h
  | some r =>
    obtain ⟨o, st1⟩ := r
    have hr2 := run_mono cfg f1 f2 hle _ _ _ _ _ hr
    simp only [parse, hr] at h
    simp only [parse, hr2]
    exact h

end PV
