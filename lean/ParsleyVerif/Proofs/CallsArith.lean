/-
  C17, part 11: the arithmetic family (family 2 of the suite):
      expr → expr + term | term ;  term → term * factor | factor ;  factor → 1 | ( expr )
  env = [Memoize₀(Any(SeqOf(E,'+',T), T)), Memoize₁(Any(SeqOf(T,'*',F), F)), Any('1', SeqOf('(',E,')'))],
  on ANY input `1 o₁ 1 o₂ … o_k 1` with operators in {+, *}.

  This file: the run, described by functions defined by recursion over the levels of the two left spines.
  * `T` at an odd position `q` that has no cache entry yet (`ar_T_level`, `ar_T_first`): Memoize₁ is entered with
    left-recursion count 0 … 2k+3-q and curtailed at 2k+4-q; level j+1 returns the `*`-extensions of the
    alternatives of level j and the factor at `q` (`TN`), and costs 6 calls + one per alternative + 4 per
    alternative that `*` follows (`'*'`, `F`, and 3 inside `F`) (`TC`).  Its cache entry has the empty context,
    so every later call of `T` at `q` is a cache hit (`ar_T_hit`).
  * `E` at position 1 (`ar_E_level`): Memoize₀ is entered with count 0 … 2k+2 and curtailed at 2k+3; level j+1
    runs, for every alternative of level j that `+` follows, `T` behind the `+` (first time: the whole spine of
    `T`; later: a cache hit), then `T` at 1.
  The counting of these functions is in CallsArithCount.lean.
-/
import ParsleyVerif.Proofs.CallsPbPc
namespace PV.C17b
open PV.Text PV.C17

/-! ### the cache as a look-up function -/

def look (c : List CacheEntry) (idx pos : Nat) : Option CacheEntry :=
  c.find? (fun e => e.idx == idx && e.pos == pos)

theorem cacheGet_look (c : List CacheEntry) (idx pos : Nat) (ctx : Ctx) :
    cacheGet c idx pos ctx = match look c idx pos with
      | none => none
      | some e => if e.ctx.all (fun kv => !(kv.2 > ctx.get kv.1)) then some e else none := rfl

theorem cacheGet_of_look_none (c : List CacheEntry) (idx pos : Nat) (ctx : Ctx) (h : look c idx pos = none) :
    cacheGet c idx pos ctx = none := by
  rw [cacheGet_look, h]

theorem cacheGet_of_look_nilctx (c : List CacheEntry) (idx pos : Nat) (ctx : Ctx) (e : CacheEntry)
    (h : look c idx pos = some e) (he : e.ctx = []) : cacheGet c idx pos ctx = some e := by
  rw [cacheGet_look, h]
  simp [he]

theorem look_filter_other (c : List CacheEntry) (i p i' p' : Nat) (hne : ¬ (i = i' ∧ p = p')) :
    look (c.filter (fun x => !(x.idx == i' && x.pos == p'))) i p = look c i p := by
  induction c with
  | nil => rfl
  | cons x c ih =>
    by_cases hk : (x.idx == i' && x.pos == p') = true
    · have hx : (x.idx == i && x.pos == p) = false := by
        simp only [Bool.and_eq_true, beq_iff_eq] at hk
        cases h1 : (x.idx == i) <;> cases h2 : (x.pos == p) <;> simp_all
      simp only [List.filter_cons, hk, Bool.not_true, Bool.false_eq_true, ↓reduceIte]
      rw [ih]
      simp only [look, List.find?_cons, hx]
    · have hk' : (x.idx == i' && x.pos == p') = false := by simpa using hk
      simp only [List.filter_cons, hk', Bool.not_false, ↓reduceIte]
      simp only [look, List.find?_cons] at ih ⊢
      rw [ih]

theorem look_cacheSave (c : List CacheEntry) (e : CacheEntry) (i p : Nat) :
    look (cacheSave c e) i p = if e.idx = i ∧ e.pos = p then some e else look c i p := by
  by_cases h : e.idx = i ∧ e.pos = p
  · simp [look, cacheSave, h]
  · have hb : (e.idx == i && e.pos == p) = false := by
      cases h1 : (e.idx == i) <;> cases h2 : (e.pos == p) <;> simp_all
    rw [if_neg h]
    have := look_filter_other c i p e.idx e.pos (fun x => h ⟨x.1.symm, x.2.symm⟩)
    simp only [look, cacheSave, List.find?_cons, hb] at this ⊢
    exact this

/-! ### the grammar -/

def arParen : G := seqOfT [runeT 40, .ref 0, runeT 41]
def arF : G := .any [runeT 49, arParen]
def arTS : G := seqOfT [.ref 1, runeT 42, .ref 2]
def arTBody : G := .any [arTS, .ref 2]
def arT : G := .memo 1 arTBody
def arES : G := seqOfT [.ref 0, runeT 43, .ref 1]
def arEBody : G := .any [arES, .ref 1]
def arE : G := .memo 0 arEBody

theorem arithEnv_eq : arithEnv = [arE, arT, arF] := rfl

/-- what the proofs use of the input: length 2k+1, no `(`, `1` at the odd positions, `*` and `+` only at even
    positions (so that a `1` follows) -/
structure IsAr (k : Nat) (cfg : Cfg) : Prop where
  env : cfg.env = arithEnv
  off : cfg.file.offset = 1
  max : cfg.maxCalls = 0
  len : cfg.file.data.length = 2 * k + 1
  noParen : ∀ p, fol cfg.file.data 40 p = false
  one : ∀ p, p % 2 = 1 → p ≤ 2 * k + 1 → fol cfg.file.data 49 p = true
  star : ∀ p, fol cfg.file.data 42 p = true → p % 2 = 0 ∧ p ≤ 2 * k
  plus : ∀ p, fol cfg.file.data 43 p = true → p % 2 = 0 ∧ p ≤ 2 * k

variable {k : Nat} {cfg : Cfg}

theorem ar_remaining (hc : IsAr k cfg) (q : Nat) (hq : 1 ≤ q) (hq2 : q ≤ 2 * k + 2) :
    remaining cfg.file q + Facts.curtailSlack = 2 * k + 3 - q := by
  have h1 : cfg.file.len = 2 * k + 1 := hc.len
  have h2 : Facts.curtailSlack = 1 := rfl
  rw [remaining, h1, hc.off, h2]
  omega

def parenSh : SeqShape :=
  { lookup := fun i => [runeT 40, G.ref 0, runeT 41][i]?, lenCheck := fun len => len == 3, token := seqTok,
    interp := .none, single := false, name := none }

/-- `F` at an odd position: the `1`; 3 calls (`1`, `( E )`, `(`) -/
theorem run_arF (hc : IsAr k cfg) (f : Nat) (ctx : Ctx) (q : Nat) (hq1 : q % 2 = 1) (hq2 : q ≤ 2 * k + 1) (st : St) :
    ∃ st', run cfg (f + 4) arF ctx q st = some (⟨.one (runeNode 49 q), [], none⟩, st') ∧
      st'.calls = st.calls + 3 ∧ st'.cache = st.cache := by
  have hq0 : 1 ≤ q := by omega
  have hr1 := readRune_fol_true hc.off 49 q hq0 (by omega) (hc.one q hq1 hq2)
  have h1 := run_rune_ok hc.max (f + 2) 49 [34, 49, 34] ctx q (q + 1) st.regCall hr1
  have hr2 := readRune_fol_false hc.off 40 q hq0 (by omega) (hc.noParen q)
  obtain ⟨s2, p1, p2, p3⟩ := run_rune_fail hc.max (f + 1) 40 [34, 40, 34] ctx q q st.regCall.regCall.regCall hr2
  have hseq := seq_step_nil parenSh (run cfg (f + 2)) (f + 1) 0 [] ctx q true {} st.regCall.regCall s2 (runeT 40) _ rfl p1 rfl rfl
  obtain ⟨e2, s3, r1, r2, r3, _⟩ := run_shape_res hc.max (f + 2) arParen parenSh ctx q st.regCall.regCall rfl rfl false _ s2 []
    hseq (by rw [ssUpd_result]; rfl)
  have hcp2 : (ssUpd true {} ⟨.nil, [], some ⟨q, .notFound [34, 40, 34]⟩⟩).cp = [] := by
    simp [ssUpd, cpUnion]
  rw [hcp2] at r1
  obtain ⟨e', s4, a1, a2, a3, a4⟩ := run_any2c hc.max (f + 2) (runeT 49) arParen ctx q st _ _ st.regCall s3 h1 r1
  have hcp : cpUnion (cpUnion [] []) [] = [] := by simp [cpUnion]
  have hres : appendNode (Res.one (Node.term (Utf8.encodeRune 49) (Val.rune 49) q (q + 1))) (resOf []) =
      .one (runeNode 49 q) := rfl
  simp only [hcp, hres] at a1 a4
  have he : e' = none := a4 rfl
  subst he
  refine ⟨s4, a1, ?_, ?_⟩
  · rw [a2, r2, p2]; rfl
  · rw [a3, r3, p3]; rfl

/-! ### generic: the end of a sequence, the loop that emits one node per alternative of the last element -/

/-- there is no element `d`: the node is emitted; the flag says whether the last node is EOF -/
theorem seq_step_end (sh : SeqShape) (r : RunFn) (f d : Nat) (nodes : List Node) (ctx : Ctx) (pos : Nat) (merge : Bool)
    (ss : SeqSt) (st : St) (l : Node) (hl : sh.lookup d = none) (hlc : sh.lenCheck d = true) (hd : d > 0)
    (hlast : nodes.getLast? = some l) (htok : (l.token == eofTok) = false) :
    seqParse r sh (f + 1) d nodes ctx pos merge ss st =
      some (false, { ss with result := appendNode ss.result (.one (handleResult sh pos nodes)) }, st) := by
  rw [seqParse]
  simp only [hl, hlc, hd, ↓reduceIte, seqSt_after_clean, hlast, htok]

/-- the last element returned the alternatives `l`: one node each, no call -/
theorem emit_alts (sh : SeqShape) (r : RunFn) (f d : Nat) (pre : List Node) (ctx : Ctx) (pos : Nat) (merge : Bool)
    (hl : sh.lookup (d + 1) = none) (hlc : sh.lenCheck (d + 1) = true) (hpre : 1 ≤ pre.length) :
    ∀ (l : List Node), (∀ y ∈ l, (y.token == eofTok) = false) → ∀ (acc : List Node) (ss : SeqSt) (st : St),
      ss.result = resOf acc →
      ∃ ss', seqAlts (fun nd ss st =>
          seqParse r sh (f + 1) (d + 1) (pre ++ [nd]) (if nd.rpos > pos then [] else ctx) nd.rpos
            (merge && !(decide (nd.rpos > pos))) ss st) l ss st = some (false, ss', st) ∧
        ss'.result = resOf (acc ++ l.map (fun y => handleResult sh y.rpos (pre ++ [y]))) ∧ ss'.cp = ss.cp := by
  intro l
  induction l with
  | nil => intro _ acc ss st hr; exact ⟨ss, rfl, by simp [hr], rfl⟩
  | cons y l ih =>
    intro hy acc ss st hr
    simp only [seqAlts]
    rw [seq_step_end sh r f (d + 1) (pre ++ [y]) _ y.rpos _ ss st y hl hlc (by omega) (by simp)
      (hy y (List.mem_cons_self ..))]
    simp only
    obtain ⟨ss', e1, e2, e3⟩ := ih (fun z hz => hy z (List.mem_cons_of_mem _ hz))
      (acc ++ [handleResult sh y.rpos (pre ++ [y])])
      { ss with result := appendNode ss.result (.one (handleResult sh y.rpos (pre ++ [y]))) } st
      (by
        simp only [hr]
        exact appendNode_resOf acc _ (handleResult_two sh _ _ (by simp; omega)))
    refine ⟨ss', e1, ?_, e3⟩
    rw [e2]; simp

/-! ### `T` -/

def arTSh : SeqShape :=
  { lookup := fun i => [G.ref 1, runeT 42, G.ref 2][i]?, lenCheck := fun len => len == 3, token := seqTok,
    interp := .none, single := false, name := none }

theorem arTS_shape : arTS.shape = some arTSh := rfl

/-- the node of `T * F` from the node `x` of `T` -/
def starExt (x : Node) : Node :=
  handleResult arTSh (x.rpos + 2) [x, runeNode 42 x.rpos, runeNode 49 (x.rpos + 1)]

theorem starExt_rpos (x : Node) : (starExt x).rpos = x.rpos + 2 := rfl

def isStar (data : Bytes) (x : Node) : Bool := fol data 42 x.rpos

/-- the alternatives of `T` at `q`, `j` levels above the curtailed activation -/
def TN (data : Bytes) (q : Nat) : Nat → List Node
  | 0 => []
  | j + 1 => ((TN data q j).filter (isStar data)).map starExt ++ [runeNode 49 q]

/-- … and its calls -/
def TC (data : Bytes) (q : Nat) : Nat → Nat
  | 0 => 0
  | j + 1 => TC data q j + 6 + (TN data q j).length + 4 * ((TN data q j).filter (isStar data)).length

/-- a node that can stand where the loops of this file need it: not EMPTY, not EOF, ending at an even position
    in (q, 2k+2] -/
def goodNode (k q : Nat) (x : Node) : Prop :=
  q < x.rpos ∧ x.rpos % 2 = 0 ∧ x.rpos ≤ 2 * k + 2 ∧ notEmptyNode x ∧ (x.token == eofTok) = false

theorem TN_good (hc : IsAr k cfg) (q : Nat) (hq1 : q % 2 = 1) (hq2 : q ≤ 2 * k + 1) :
    ∀ j, ∀ x ∈ TN cfg.file.data q j, goodNode k q x := by
  intro j
  induction j with
  | zero => intro x hx; cases hx
  | succ j ih =>
    intro x hx
    simp only [TN, List.mem_append, List.mem_map, List.mem_filter, List.mem_singleton] at hx
    rcases hx with ⟨y, ⟨hy, hs⟩, rfl⟩ | rfl
    · obtain ⟨g1, g2, g3, _, _⟩ := ih y hy
      have := hc.star _ hs
      exact ⟨by rw [starExt_rpos]; omega, by rw [starExt_rpos]; omega, by rw [starExt_rpos]; omega, trivial, rfl⟩
    · exact ⟨by show q < q + 1; omega, by show (q + 1) % 2 = 0; omega, by show q + 1 ≤ _; omega, trivial, rfl⟩

/-- the loop of `T * F` over the alternatives of the inner `T`: one call (`*`) each, and 4 more (`F`, and the 3
    inside it) where `*` follows -/
theorem star_alts (hc : IsAr k cfg) (fr f : Nat) (ctx : Ctx) (pos : Nat) (merge : Bool) :
    ∀ (l : List Node), (∀ x ∈ l, pos < x.rpos ∧ x.rpos % 2 = 0) →
    ∀ (acc : List Node) (ss : SeqSt) (st : St), ss.result = resOf acc →
    ∃ ss' st', seqAlts (fun nd ss st =>
          seqParse (run cfg (fr + 5)) arTSh (f + 3) (0 + 1) ([] ++ [nd]) (if nd.rpos > pos then [] else ctx) nd.rpos
            (merge && !(decide (nd.rpos > pos))) ss st) l ss st = some (false, ss', st') ∧
      ss'.result = resOf (acc ++ (l.filter (isStar cfg.file.data)).map starExt) ∧ ss'.cp = ss.cp ∧
      st'.calls = st.calls + l.length + 4 * (l.filter (isStar cfg.file.data)).length ∧ st'.cache = st.cache := by
  intro l
  induction l with
  | nil =>
    intro _ acc ss st hr
    exact ⟨ss, st, rfl, by simp [hr], rfl, rfl, rfl⟩
  | cons x l ih =>
    intro hl' acc ss st hr
    obtain ⟨hx, hx2⟩ := hl' x (List.mem_cons_self ..)
    have hgt : x.rpos > pos := hx
    have hx1 : 1 ≤ x.rpos := by omega
    simp only [seqAlts, hgt, ↓reduceIte, decide_true, Bool.not_true, Bool.and_false, List.nil_append, Nat.zero_add]
    by_cases hp : isStar cfg.file.data x = true
    · have hs := hc.star _ hp
      have hr42 := readRune_fol_true hc.off 42 x.rpos hx1 (by omega) hp
      rw [seq_step_rune_ok hc.max arTSh (fr + 4) (f + 2) 1 [x] [] x.rpos false ss st 42 [34, 42, 34] _ rfl hr42]
      have hgt2 : x.rpos + 1 > x.rpos := by omega
      simp only [hgt2, ↓reduceIte, decide_true, Bool.not_true, Bool.and_false]
      obtain ⟨s2, f1, f2, f3⟩ := run_arF hc fr [] (x.rpos + 1) (by omega) (by omega) st.regCall.regCall
      have href : run cfg (fr + 4 + 1) (.ref 2) [] (x.rpos + 1) st.regCall.regCall =
          some (⟨.one (runeNode 49 (x.rpos + 1)), [], none⟩, s2) := by
        rw [run_ref hc.max (fr + 4) 2 arF (by rw [hc.env]; rfl)]
        exact f1
      rw [seq_step_one arTSh (run cfg (fr + 4 + 1)) (f + 1) 2 _ [] (x.rpos + 1) ss st.regCall s2 (.ref 2) _ [] rfl href]
      rw [seq_step_end arTSh (run cfg (fr + 4 + 1)) f 3 _ _ _ _ ss s2 (runeNode 49 (x.rpos + 1)) rfl rfl (by omega)
        (by simp) rfl]
      simp only
      obtain ⟨ss', st', e1, e2, e3, e4, e5⟩ := ih (fun y hy => hl' y (List.mem_cons_of_mem _ hy)) (acc ++ [starExt x])
        { ss with result := appendNode ss.result (.one (starExt x)) } s2
        (by simp only [hr]; exact appendNode_resOf acc _ trivial)
      refine ⟨ss', st', e1, ?_, e3, ?_, by rw [e5, f3]; rfl⟩
      · rw [e2]; simp [hp]
      · rw [e4, f2]; simp [hp, St.regCall]; omega
    · have hp' : fol cfg.file.data 42 x.rpos = false := by simpa [isStar] using hp
      obtain ⟨ss1, st1, a1, a2, a3, a4, a5⟩ := tail_fail hc.max hc.off arTSh 0 42 [34, 42, 34] (by omega) rfl rfl
        (fr + 4) (f + 2) [] x hx1 hp' ss st
      have a1' : seqParse (run cfg (fr + 5)) arTSh (f + 3) 1 [x] [] x.rpos false ss st = some (false, ss1, st1) := a1
      rw [a1']
      simp only
      obtain ⟨ss', st', e1, e2, e3, e4, e5⟩ := ih (fun y hy => hl' y (List.mem_cons_of_mem _ hy)) acc ss1 st1
        (by rw [a2, hr])
      simp only [List.nil_append, Nat.zero_add] at e1
      refine ⟨ss', st', e1, ?_, by rw [e3, a3], ?_, by rw [e5, a5]⟩
      · rw [e2]; simp [hp]
      · rw [e4, a4]; simp [hp]; omega

/-- the left-recursion context inside the spine of `T`: the context `c0` of the caller (which has no count for `T`)
    with count `t` for `T` -/
def cT (c0 : Ctx) : Nat → Ctx
  | 0 => c0
  | t + 1 => c0 ++ [(1, t + 1)]

theorem any_no1 (c0 : Ctx) (hc0 : ∀ kv ∈ c0, kv.1 ≠ 1) : c0.any (fun kv => kv.1 == 1) = false := by
  apply List.any_eq_false.mpr
  intro kv hkv
  simpa using hc0 kv hkv

theorem cT_inc (c0 : Ctx) (hc0 : ∀ kv ∈ c0, kv.1 ≠ 1) (t : Nat) : (cT c0 t).inc 1 = cT c0 (t + 1) := by
  cases t with
  | zero => simp [cT, Ctx.inc, any_no1 c0 hc0]
  | succ t =>
    simp [cT, Ctx.inc]
    conv => rhs; rw [← List.map_id c0]
    apply List.map_congr_left
    intro kv hkv
    simp [hc0 kv hkv]

theorem cT_get (c0 : Ctx) (hc0 : ∀ kv ∈ c0, kv.1 ≠ 1) (t : Nat) : (cT c0 t).get 1 = t := by
  have hf : c0.find? (fun kv => kv.1 == 1) = none := by
    apply List.find?_eq_none.mpr
    intro kv hkv
    simpa using hc0 kv hkv
  cases t with
  | zero => simp [cT, Ctx.get, hf]
  | succ t => simp [cT, Ctx.get, List.find?_append, hf]

theorem cT_filter (c0 : Ctx) (hc0 : ∀ kv ∈ c0, kv.1 ≠ 1) (t : Nat) : (cT c0 t).filter [1] = cT [] t := by
  have hf : List.filter (fun kv : Nat × Nat => [1].contains kv.1) c0 = [] := by
    apply List.filter_eq_nil_iff.mpr
    intro kv hkv
    simpa using hc0 kv hkv
  cases t with
  | zero => simp only [cT, Ctx.filter, hf]
  | succ t =>
    simp [cT, Ctx.filter]
    intro a b h
    exact hc0 (a, b) h

/-- an entry of `T` at `q` -/
def TEnt (q : Nat) (c : Ctx) (L : List Node) : CacheEntry :=
  { idx := 1, pos := q, ctx := c, cp := [1], err := none, res := resOf L }

/-- the cache entry that level `j` of the spine of `T` at `q` leaves behind (`t`: the count it was entered with) -/
def TEntry (data : Bytes) (q j t : Nat) : CacheEntry :=
  { idx := 1, pos := q, ctx := cT [] t, cp := [1], err := none, res := resOf (TN data q j) }

/-- the cache after level `j` (entered with count `D - j`) returned -/
def TCache (data : Bytes) (q D : Nat) (K : List CacheEntry) : Nat → List CacheEntry
  | 0 => K
  | j + 1 => cacheSave (TCache data q D K j) (TEntry data q (j + 1) (D - (j + 1)))

theorem look_TCache (data : Bytes) (q D : Nat) (K : List CacheEntry) (j i p : Nat) :
    look (TCache data q D K j) i p =
      if 1 ≤ j ∧ i = 1 ∧ p = q then some (TEntry data q j (D - j)) else look K i p := by
  induction j with
  | zero => simp [TCache]
  | succ j ih =>
    rw [TCache, look_cacheSave, ih]
    by_cases h : i = 1 ∧ p = q
    · obtain ⟨rfl, rfl⟩ := h
      simp [TEntry]
    · have h1 : ¬ ((TEntry data q (j + 1) (D - (j + 1))).idx = i ∧ (TEntry data q (j + 1) (D - (j + 1))).pos = p) := by
        intro x; exact h ⟨x.1.symm, x.2.symm⟩
      have h2 : ¬ (1 ≤ j ∧ i = 1 ∧ p = q) := fun x => h x.2
      have h3 : ¬ (1 ≤ j + 1 ∧ i = 1 ∧ p = q) := fun x => h x.2
      rw [if_neg h1, if_neg h2, if_neg h3]

theorem run_memo_eq' (h0 : cfg.maxCalls = 0) (fuel idx : Nat) (body : G) (ctx : Ctx) (pos : Nat) (st : St)
    (hcache : look st.cache idx pos = none)
    (hcur : ¬ ctx.get idx > remaining cfg.file pos + Facts.curtailSlack) :
    run cfg (fuel + 1) (.memo idx body) ctx pos st =
      match run cfg fuel body (ctx.inc idx) pos (memoEnter cfg idx pos st) with
      | none => none
      | some (o, st2) =>
        some (o, { st2 with
          cache := cacheSave st2.cache
            { idx := idx, pos := pos, ctx := ctx.filter o.cp, cp := o.cp, err := o.err, res := o.res },
          active := st.active }) :=
  run_memo_eq h0 fuel idx body ctx pos st (cacheGet_of_look_none _ _ _ _ hcache) hcur

/-- **one level of the spine of `T`** at the odd position `q` -/
theorem ar_T_step (hc : IsAr k cfg) (q : Nat) (hq1 : q % 2 = 1) (hq2 : q ≤ 2 * k + 1) (f : Nat) (ctx : Ctx)
    (hcur : ¬ ctx.get 1 > remaining cfg.file q + Facts.curtailSlack) (L : List Node)
    (hL : ∀ x ∈ L, q < x.rpos ∧ x.rpos % 2 = 0) (c : Nat) (K Kin : List CacheEntry) (hK : look K 1 q = none)
    (e0 : Option Err)
    (inner : ∀ s : St, s.cache = K →
      ∃ s1, run cfg (f + 2) arT (ctx.inc 1) q s = some (⟨resOf L, [1], e0⟩, s1) ∧ s1.calls = s.calls + c ∧
        s1.cache = Kin) :
    ∀ st : St, st.cache = K →
      ∃ st', run cfg (f + 8) arT ctx q st =
          some (⟨resOf ((L.filter (isStar cfg.file.data)).map starExt ++ [runeNode 49 q]), [1], none⟩, st') ∧
        st'.calls = st.calls + c + 6 + L.length + 4 * (L.filter (isStar cfg.file.data)).length ∧
        st'.cache = cacheSave Kin (TEnt q (ctx.filter [1])
          ((L.filter (isStar cfg.file.data)).map starExt ++ [runeNode 49 q])) := by
  intro st hcache
  rw [arT, run_memo_eq' hc.max (f + 7) 1 arTBody ctx q st (by rw [hcache]; exact hK) hcur]
  -- `T * F`
  obtain ⟨s1, i1, i2, i3⟩ := inner (memoEnter cfg 1 q st).regCall.regCall
    (by show (memoEnter cfg 1 q st).cache = K; rw [(memoEnter_fields _ _ _ _).2, hcache])
  have href : run cfg (f + 5) (.ref 1) (ctx.inc 1) q (memoEnter cfg 1 q st).regCall.regCall =
      some (⟨resOf L, [1], e0⟩, s1) := by
    rw [run_ref hc.max (f + 4) 1 arT (by rw [hc.env]; rfl)]
    exact run_mono cfg (f + 2) (f + 4) (by omega) _ _ _ _ _ i1
  have hcp : (ssUpd true {} ⟨resOf L, [1], e0⟩).cp = [1] := by
    rw [ssUpd_cp_true]; exact cpUnion_nil_left [1]
  have hseq : ∃ b ss' st1, seqParse (run cfg (f + 5)) arTSh (f + 5) 0 [] (ctx.inc 1) q true {}
        (memoEnter cfg 1 q st).regCall = some (b, ss', st1) ∧
      ss'.result = resOf ((L.filter (isStar cfg.file.data)).map starExt) ∧ ss'.cp = [1] ∧
      st1.calls = (memoEnter cfg 1 q st).calls + 2 + c + L.length + 4 * (L.filter (isStar cfg.file.data)).length ∧
      st1.cache = Kin := by
    by_cases hnil : L = []
    · subst hnil
      rw [seq_step_nil arTSh (run cfg (f + 5)) (f + 4) 0 _ (ctx.inc 1) q true _ _ s1 _ _ rfl href rfl rfl]
      refine ⟨_, _, _, rfl, ?_, hcp, ?_, i3⟩
      · rw [ssUpd_result]; rfl
      · rw [i2]; simp [St.regCall]
    · rw [seq_step_alts arTSh (run cfg (f + 5)) (f + 4) 0 _ (ctx.inc 1) q true _ _ s1 _ _ rfl href
        (resOf_isNil_false L hnil)]
      obtain ⟨ss', st', t1, t2, t3, t4, t5⟩ := star_alts hc f (f + 1) (ctx.inc 1) q true L hL []
        (ssUpd true {} ⟨resOf L, [1], e0⟩) s1 (by rw [ssUpd_result]; rfl)
      rw [← resOf_alts L] at t1
      refine ⟨_, _, _, t1, t2, by rw [t3, hcp], ?_, by rw [t5, i3]⟩
      rw [t4, i2]; simp [St.regCall]
  obtain ⟨b, ss', st1, q1, q2, q3, q4, q5⟩ := hseq
  obtain ⟨e1, s2, r1, r2, r3, _⟩ := run_shape_res hc.max (f + 5) arTS arTSh (ctx.inc 1) q _ arTS_shape rfl b ss' st1 _ q1 q2
  rw [q3] at r1
  -- `F`
  obtain ⟨s3, f1, f2, f3⟩ := run_arF hc (f + 1) (ctx.inc 1) q hq1 hq2 s2.regCall
  have hrefF : run cfg (f + 5 + 1) (.ref 2) (ctx.inc 1) q s2.regCall = some (⟨.one (runeNode 49 q), [], none⟩, s3) := by
    rw [run_ref hc.max (f + 5) 2 arF (by rw [hc.env]; rfl)]
    exact f1
  obtain ⟨e', s4, a1, a2, a3, a4⟩ := run_any2c hc.max (f + 5) arTS (.ref 2) (ctx.inc 1) q (memoEnter cfg 1 q st) _ _ s2 s3
    r1 hrefF
  have hres : appendNode (resOf ((L.filter (isStar cfg.file.data)).map starExt)) (.one (runeNode 49 q)) =
      resOf ((L.filter (isStar cfg.file.data)).map starExt ++ [runeNode 49 q]) := appendNode_resOf _ _ trivial
  have hcp2 : cpUnion (cpUnion [] [1]) [] = [1] := by simp [cpUnion]
  simp only [hres, hcp2] at a1 a4
  have he : e' = none := a4 (resOf_isNil_snoc _ _)
  subst he
  rw [arTBody, a1]
  refine ⟨_, rfl, ?_, ?_⟩
  · show s4.calls = _
    rw [a2, f2]
    show s2.calls + 1 + 3 = _
    rw [r2, q4, (memoEnter_fields _ _ _ _).1]
    omega
  · show cacheSave s4.cache _ = _
    rw [a3, f3]
    show cacheSave s2.cache _ = _
    rw [r3, q5]
    rfl

/-- **the spine of `T`** at the odd position `q`, from a cache `K` without an entry for (`T`, `q`): level `j`
    (entered with count `2k+4-q-j`) returns `TN j` after `TC j` calls -/
theorem ar_T_level (hc : IsAr k cfg) (q : Nat) (hq1 : q % 2 = 1) (hq2 : q ≤ 2 * k + 1) (c0 : Ctx)
    (hc0 : ∀ kv ∈ c0, kv.1 ≠ 1) (K : List CacheEntry) (hK : look K 1 q = none) :
    ∀ j t, j + t = 2 * k + 4 - q → ∀ st : St, st.cache = K →
      ∃ st', run cfg (6 * j + 2) arT (cT c0 t) q st = some (⟨resOf (TN cfg.file.data q j), [1], none⟩, st') ∧
        st'.calls = st.calls + TC cfg.file.data q j ∧ st'.cache = TCache cfg.file.data q (2 * k + 4 - q) K j := by
  intro j
  induction j with
  | zero =>
    intro t ht st hcache
    rw [arT, run_memo_curtail_eq hc.max 1 1 arTBody (cT c0 t) q st
      (cacheGet_of_look_none _ _ _ _ (by rw [hcache]; exact hK))
      (by rw [ar_remaining hc q (by omega) (by omega), cT_get c0 hc0]; omega)]
    exact ⟨_, rfl, (logEv_fields _ _ _).2.2.1, by rw [(logEv_fields _ _ _).1, hcache]; rfl⟩
  | succ j ih =>
    intro t ht st hcache
    have inner := ih (t + 1) (by omega)
    rw [← cT_inc c0 hc0] at inner
    obtain ⟨st', h1, h2, h3⟩ := ar_T_step hc q hq1 hq2 (6 * j) (cT c0 t)
      (by rw [ar_remaining hc q (by omega) (by omega), cT_get c0 hc0]; omega)
      (TN cfg.file.data q j) (fun x hx => by
        obtain ⟨a, b, _⟩ := TN_good hc q hq1 hq2 j x hx
        exact ⟨a, b⟩)
      (TC cfg.file.data q j) K _ hK none inner st hcache
    refine ⟨st', ?_, ?_, ?_⟩
    · rw [show 6 * (j + 1) + 2 = 6 * j + 8 by omega]; exact h1
    · rw [h2, TC]; omega
    · rw [h3, TCache, cT_filter c0 hc0]
      have : t = 2 * k + 4 - q - (j + 1) := by omega
      rw [this]
      rfl

/-- the alternatives, the calls and the cache of a whole first run of `T` at `q` -/
def TNf (data : Bytes) (k q : Nat) : List Node := TN data q (2 * k + 4 - q)
def TCf (data : Bytes) (k q : Nat) : Nat := TC data q (2 * k + 4 - q)
def TKf (data : Bytes) (k q : Nat) (K : List CacheEntry) : List CacheEntry :=
  TCache data q (2 * k + 4 - q) K (2 * k + 4 - q)

theorem look_TKf (data : Bytes) (k q : Nat) (hq : q ≤ 2 * k + 1) (K : List CacheEntry) (i p : Nat) :
    look (TKf data k q K) i p = if i = 1 ∧ p = q then some (TEnt q [] (TNf data k q)) else look K i p := by
  rw [TKf, look_TCache]
  have h1 : 1 ≤ 2 * k + 4 - q := by omega
  by_cases h : i = 1 ∧ p = q
  · rw [if_pos ⟨h1, h⟩, if_pos h, Nat.sub_self]
    rfl
  · rw [if_neg (fun x => h x.2), if_neg h]

/-- every entry of `T` in the cache is the result of a whole first run -/
def TInv (data : Bytes) (k : Nat) (K : List CacheEntry) : Prop :=
  ∀ q e, look K 1 q = some e → e = TEnt q [] (TNf data k q)

/-- the cache and the calls of a call of `T` at `q`: a look-up, or the first run -/
def tCache (data : Bytes) (k : Nat) (K : List CacheEntry) (q : Nat) : List CacheEntry :=
  match look K 1 q with
  | some _ => K
  | none => TKf data k q K
def tCost (data : Bytes) (k : Nat) (K : List CacheEntry) (q : Nat) : Nat :=
  match look K 1 q with
  | some _ => 0
  | none => TCf data k q

theorem TInv_tCache (data : Bytes) (k : Nat) (K : List CacheEntry) (q : Nat) (hq : q ≤ 2 * k + 1)
    (h : TInv data k K) : TInv data k (tCache data k K q) := by
  unfold tCache
  split
  · exact h
  · intro q' e he
    rw [look_TKf data k q hq] at he
    by_cases hh : q' = q
    · subst hh
      simp only [true_and, ↓reduceIte, Option.some.injEq] at he
      exact he.symm
    · have : ¬ (1 = 1 ∧ q' = q) := fun x => hh x.2
      rw [if_neg this] at he
      exact h q' e he

theorem look_tCache_other (data : Bytes) (k : Nat) (K : List CacheEntry) (q : Nat) (hq : q ≤ 2 * k + 1) (i p : Nat)
    (h : ¬ (i = 1 ∧ p = q)) : look (tCache data k K q) i p = look K i p := by
  unfold tCache
  split
  · rfl
  · rw [look_TKf data k q hq, if_neg h]

theorem look_tCache_self (data : Bytes) (k : Nat) (K : List CacheEntry) (q : Nat) (hq : q ≤ 2 * k + 1)
    (h : TInv data k K) : look (tCache data k K q) 1 q = some (TEnt q [] (TNf data k q)) := by
  unfold tCache
  split
  · rename_i e he
    rw [he, h q e he]
  · rw [look_TKf data k q hq]; simp

/-- **a call of `T`** at an odd position from any context without a count for `T`: the alternatives of a whole first
    run — computed (`TCf` calls) or read from the cache (no call) -/
theorem ar_T_call (hc : IsAr k cfg) (q : Nat) (hq1 : q % 2 = 1) (hq2 : q ≤ 2 * k + 1) (c0 : Ctx)
    (hc0 : ∀ kv ∈ c0, kv.1 ≠ 1) (F : Nat) (hF : 12 * k + 20 ≤ F) (st : St) (hinv : TInv cfg.file.data k st.cache) :
    ∃ st', run cfg F arT c0 q st = some (⟨resOf (TNf cfg.file.data k q), [1], none⟩, st') ∧
      st'.calls = st.calls + tCost cfg.file.data k st.cache q ∧ st'.cache = tCache cfg.file.data k st.cache q := by
  cases hl : look st.cache 1 q with
  | some e =>
    have he := hinv q e hl
    obtain ⟨F', rfl⟩ : ∃ F', F = F' + 1 := ⟨F - 1, by omega⟩
    rw [arT, run_memo_hit_eq hc.max F' 1 arTBody c0 q st e (cacheGet_of_look_nilctx _ _ _ _ e hl (by rw [he]; rfl))]
    refine ⟨_, by rw [he]; rfl, ?_, ?_⟩
    · rw [(logEv_fields _ _ _).2.2.1]; simp [tCost, hl]
    · rw [(logEv_fields _ _ _).1]; simp [tCache, hl]
  | none =>
    obtain ⟨st', h1, h2, h3⟩ := ar_T_level hc q hq1 hq2 c0 hc0 st.cache hl (2 * k + 4 - q) 0 (by omega) st rfl
    refine ⟨st', run_mono cfg _ F (by omega) _ _ _ _ _ h1, ?_, ?_⟩
    · rw [h2]; simp [tCost, hl, TCf]
    · rw [h3]; simp [tCache, hl, TKf]

theorem TNf_ne (data : Bytes) (k q : Nat) (hq : q ≤ 2 * k + 1) : TNf data k q ≠ [] := by
  obtain ⟨d, hd⟩ : ∃ d, 2 * k + 4 - q = d + 1 := ⟨2 * k + 3 - q, by omega⟩
  rw [TNf, hd, TN]
  simp

theorem TNf_good (hc : IsAr k cfg) (q : Nat) (hq1 : q % 2 = 1) (hq2 : q ≤ 2 * k + 1) :
    ∀ x ∈ TNf cfg.file.data k q, goodNode k q x :=
  TN_good hc q hq1 hq2 _

/-! ### `E` -/

def arESh : SeqShape :=
  { lookup := fun i => [G.ref 0, runeT 43, G.ref 1][i]?, lenCheck := fun len => len == 3, token := seqTok,
    interp := .none, single := false, name := none }

theorem arES_shape : arES.shape = some arESh := rfl

/-- the node of `E + T` from the node `x` of `E` and the node `y` of `T` -/
def plusExt (x y : Node) : Node := handleResult arESh y.rpos ([x, runeNode 43 x.rpos] ++ [y])

theorem plusExt_rpos (x y : Node) : (plusExt x y).rpos = y.rpos := rfl

def isPlus (data : Bytes) (x : Node) : Bool := fol data 43 x.rpos

/-- the `+`-extensions of the alternatives `l` of `E`, the cache and the calls of the loop that builds them -/
def pRes (data : Bytes) (k : Nat) (l : List Node) : List Node :=
  l.flatMap (fun x => if isPlus data x then (TNf data k (x.rpos + 1)).map (plusExt x) else [])

def pCache (data : Bytes) (k : Nat) : List CacheEntry → List Node → List CacheEntry
  | K, [] => K
  | K, x :: l => if isPlus data x then pCache data k (tCache data k K (x.rpos + 1)) l else pCache data k K l

def pCost (data : Bytes) (k : Nat) : List CacheEntry → List Node → Nat
  | _, [] => 0
  | K, x :: l =>
    if isPlus data x then 2 + tCost data k K (x.rpos + 1) + pCost data k (tCache data k K (x.rpos + 1)) l
    else 1 + pCost data k K l

/-- the loop of `E + T` over the alternatives of the inner `E`: one call (`+`) each; where `+` follows, one more
    (`T`) and the calls of `T` behind it -/
theorem plus_alts (hc : IsAr k cfg) (fr f : Nat) (hfr : 12 * k + 20 ≤ fr) (ctx : Ctx) (merge : Bool) :
    ∀ (l : List Node), (∀ x ∈ l, goodNode k 1 x) →
    ∀ (acc : List Node) (ss : SeqSt) (st : St), ss.result = resOf acc → TInv cfg.file.data k st.cache →
    ∃ ss' st', seqAlts (fun nd ss st =>
          seqParse (run cfg (fr + 1)) arESh (f + 3) (0 + 1) ([] ++ [nd]) (if nd.rpos > 1 then [] else ctx) nd.rpos
            (merge && !(decide (nd.rpos > 1))) ss st) l ss st = some (false, ss', st') ∧
      ss'.result = resOf (acc ++ pRes cfg.file.data k l) ∧ ss'.cp = ss.cp ∧
      st'.calls = st.calls + pCost cfg.file.data k st.cache l ∧ st'.cache = pCache cfg.file.data k st.cache l := by
  intro l
  induction l with
  | nil =>
    intro _ acc ss st hr _
    exact ⟨ss, st, rfl, by simp [pRes, hr], rfl, rfl, rfl⟩
  | cons x l ih =>
    intro hl' acc ss st hr hinv
    obtain ⟨hx, hx2, hx3, _, _⟩ := hl' x (List.mem_cons_self ..)
    have hgt : x.rpos > 1 := hx
    have hx1 : 1 ≤ x.rpos := by omega
    simp only [seqAlts, hgt, ↓reduceIte, decide_true, Bool.not_true, Bool.and_false, List.nil_append, Nat.zero_add]
    by_cases hp : isPlus cfg.file.data x = true
    · have hs := hc.plus _ hp
      have hr43 := readRune_fol_true hc.off 43 x.rpos hx1 (by omega) hp
      rw [seq_step_rune_ok hc.max arESh fr (f + 2) 1 [x] [] x.rpos false ss st 43 [34, 43, 34] _ rfl hr43]
      have hgt2 : x.rpos + 1 > x.rpos := by omega
      simp only [hgt2, ↓reduceIte, decide_true, Bool.not_true, Bool.and_false]
      -- `T` behind the `+`
      obtain ⟨s2, c1, c2, c3⟩ := ar_T_call hc (x.rpos + 1) (by omega) (by omega) [] (fun kv h => by cases h) fr hfr
        st.regCall.regCall hinv
      have hcc : st.regCall.regCall.cache = st.cache := rfl
      have hcl : st.regCall.regCall.calls = st.calls + 1 + 1 := rfl
      rw [hcc, hcl] at c2
      rw [hcc] at c3
      have href : run cfg (fr + 1) (.ref 1) [] (x.rpos + 1) st.regCall.regCall =
          some (⟨resOf (TNf cfg.file.data k (x.rpos + 1)), [1], none⟩, s2) := by
        rw [run_ref hc.max fr 1 arT (by rw [hc.env]; rfl)]
        exact c1
      rw [seq_step_alts arESh (run cfg (fr + 1)) (f + 1) 2 _ [] (x.rpos + 1) false ss st.regCall s2 (.ref 1) _ rfl href
        (resOf_isNil_false _ (TNf_ne _ _ _ (by omega)))]
      obtain ⟨ss1, m1, m2, m3⟩ := emit_alts arESh (run cfg (fr + 1)) f 2
        ([x] ++ [Node.term (Utf8.encodeRune 43) (Val.rune 43) x.rpos (x.rpos + 1)]) [] (x.rpos + 1) false rfl rfl
        (by simp) (TNf cfg.file.data k (x.rpos + 1))
        (fun y hy => (TNf_good hc (x.rpos + 1) (by omega) (by omega) y hy).2.2.2.2)
        acc (ssUpd false ss ⟨resOf (TNf cfg.file.data k (x.rpos + 1)), [1], none⟩) s2
        (by rw [ssUpd_result]; exact hr)
      rw [resOf_alts, m1]
      simp only
      obtain ⟨ss', st', e1, e2, e3, e4, e5⟩ := ih (fun y hy => hl' y (List.mem_cons_of_mem _ hy)) _ ss1 s2 m2
        (by rw [c3]; exact TInv_tCache _ _ _ _ (by omega) hinv)
      simp only [List.nil_append, Nat.zero_add] at e1
      refine ⟨ss', st', e1, ?_, by rw [e3, m3, ssUpd_cp_false], ?_, ?_⟩
      · rw [e2]
        simp only [pRes, List.flatMap_cons, hp, ↓reduceIte, List.append_assoc]
        rfl
      · rw [e4, c2, c3]
        simp only [pCost, hp, ↓reduceIte]
        omega
      · rw [e5, c3]
        simp only [pCache, hp, ↓reduceIte]
    · have hp' : fol cfg.file.data 43 x.rpos = false := by simpa [isPlus] using hp
      obtain ⟨ss1, st1, a1, a2, a3, a4, a5⟩ := tail_fail hc.max hc.off arESh 0 43 [34, 43, 34] (by omega) rfl rfl
        fr (f + 2) [] x hx1 hp' ss st
      have a1' : seqParse (run cfg (fr + 1)) arESh (f + 3) 1 [x] [] x.rpos false ss st = some (false, ss1, st1) := a1
      rw [a1']
      simp only
      obtain ⟨ss', st', e1, e2, e3, e4, e5⟩ := ih (fun y hy => hl' y (List.mem_cons_of_mem _ hy)) acc ss1 st1
        (by rw [a2, hr]) (by rw [a5]; exact hinv)
      simp only [List.nil_append, Nat.zero_add] at e1
      have hp2 : isPlus cfg.file.data x = false := by simpa using hp
      refine ⟨ss', st', e1, ?_, by rw [e3, a3], ?_, ?_⟩
      · rw [e2]; simp [pRes, hp2]
      · rw [e4, a4, a5]; simp only [pCost, hp2, Bool.false_eq_true, ↓reduceIte]; omega
      · rw [e5, a5]; simp only [pCache, hp2, Bool.false_eq_true, ↓reduceIte]

theorem TInv_pCache (hc : IsAr k cfg) : ∀ (l : List Node), (∀ x ∈ l, goodNode k 1 x) → ∀ K,
    TInv cfg.file.data k K → TInv cfg.file.data k (pCache cfg.file.data k K l) := by
  intro l
  induction l with
  | nil => intro _ K h; exact h
  | cons x l ih =>
    intro hl K h
    by_cases hp : isPlus cfg.file.data x = true
    · have hs := hc.plus _ hp
      simp only [pCache, hp, ↓reduceIte]
      exact ih (fun y hy => hl y (List.mem_cons_of_mem _ hy)) _ (TInv_tCache _ _ _ _ (by omega) h)
    · have hp2 : isPlus cfg.file.data x = false := by simpa using hp
      simp only [pCache, hp2, Bool.false_eq_true, ↓reduceIte]
      exact ih (fun y hy => hl y (List.mem_cons_of_mem _ hy)) _ h

/-- the entries of `T` at position 1 and the entries of `E` are not touched by the loop -/
theorem look_pCache_other (hc : IsAr k cfg) (i p : Nat) (hip : i ≠ 1 ∨ p = 1) : ∀ (l : List Node),
    (∀ x ∈ l, goodNode k 1 x) → ∀ K, look (pCache cfg.file.data k K l) i p = look K i p := by
  intro l
  induction l with
  | nil => intro _ K; rfl
  | cons x l ih =>
    intro hl K
    obtain ⟨hx, _⟩ := hl x (List.mem_cons_self ..)
    by_cases hp : isPlus cfg.file.data x = true
    · have hs := hc.plus _ hp
      simp only [pCache, hp, ↓reduceIte]
      rw [ih (fun y hy => hl y (List.mem_cons_of_mem _ hy)), look_tCache_other _ _ _ _ (by omega)]
      intro h
      rcases hip with h1 | h1
      · exact h1 h.1
      · omega
    · have hp2 : isPlus cfg.file.data x = false := by simpa using hp
      simp only [pCache, hp2, Bool.false_eq_true, ↓reduceIte]
      exact ih (fun y hy => hl y (List.mem_cons_of_mem _ hy)) _

theorem pRes_good (hc : IsAr k cfg) (l : List Node) (hl : ∀ x ∈ l, goodNode k 1 x) :
    ∀ z ∈ pRes cfg.file.data k l, goodNode k 1 z := by
  intro z hz
  simp only [pRes, List.mem_flatMap] at hz
  obtain ⟨x, hx, hz⟩ := hz
  obtain ⟨g1, g2, g3, _, _⟩ := hl x hx
  by_cases hp : isPlus cfg.file.data x = true
  · have hs := hc.plus _ hp
    simp only [hp, ↓reduceIte, List.mem_map] at hz
    obtain ⟨y, hy, rfl⟩ := hz
    obtain ⟨a1, a2, a3, _, _⟩ := TNf_good hc (x.rpos + 1) (by omega) (by omega) y hy
    exact ⟨by rw [plusExt_rpos]; omega, by rw [plusExt_rpos]; exact a2, by rw [plusExt_rpos]; exact a3, trivial, rfl⟩
  · have hp2 : isPlus cfg.file.data x = false := by simpa using hp
    simp [hp2] at hz

/-- the cache entry of `E` -/
def EEnt (t : Nat) (L : List Node) : CacheEntry :=
  { idx := 0, pos := 1, ctx := (ctx0 t).filter [0, 1], cp := [0, 1], err := none, res := resOf L }

/-- **one level of the spine of `E`** at position 1 -/
theorem ar_E_step (hc : IsAr k cfg) (f : Nat) (hf : 12 * k + 22 ≤ f) (t : Nat) (ht : t ≤ 2 * k + 2) (L : List Node)
    (hL : ∀ x ∈ L, goodNode k 1 x) (c : Nat) (Kin : List CacheEntry) (hKin : TInv cfg.file.data k Kin)
    (cpin : List Nat) (hcpin : cpin = [0] ∨ cpin = [0, 1]) (e0 : Option Err)
    (inner : ∀ s : St, s.cache = [] →
      ∃ s1, run cfg (f + 2) arE (ctx0 (t + 1)) 1 s = some (⟨resOf L, cpin, e0⟩, s1) ∧ s1.calls = s.calls + c ∧
        s1.cache = Kin) :
    ∀ st : St, st.cache = [] →
      ∃ st', run cfg (f + 8) arE (ctx0 t) 1 st =
          some (⟨resOf (pRes cfg.file.data k L ++ TNf cfg.file.data k 1), [0, 1], none⟩, st') ∧
        st'.calls = st.calls + c + 3 + pCost cfg.file.data k Kin L +
          tCost cfg.file.data k (pCache cfg.file.data k Kin L) 1 ∧
        st'.cache = cacheSave (tCache cfg.file.data k (pCache cfg.file.data k Kin L) 1)
          (EEnt t (pRes cfg.file.data k L ++ TNf cfg.file.data k 1)) := by
  intro st hcache
  rw [arE, run_memo_eq' hc.max (f + 7) 0 arEBody (ctx0 t) 1 st (by rw [hcache]; rfl)
    (by rw [ar_remaining hc 1 (by omega) (by omega), ctx0_get]; omega), ctx0_inc]
  -- `E + T`
  obtain ⟨s1, i1, i2, i3⟩ := inner (memoEnter cfg 0 1 st).regCall.regCall
    (by show (memoEnter cfg 0 1 st).cache = []; rw [(memoEnter_fields _ _ _ _).2, hcache])
  have href : run cfg (f + 5) (.ref 0) (ctx0 (t + 1)) 1 (memoEnter cfg 0 1 st).regCall.regCall =
      some (⟨resOf L, cpin, e0⟩, s1) := by
    rw [run_ref hc.max (f + 4) 0 arE (by rw [hc.env]; rfl)]
    exact run_mono cfg (f + 2) (f + 4) (by omega) _ _ _ _ _ i1
  have hcp : (ssUpd true {} ⟨resOf L, cpin, e0⟩).cp = cpin := by
    rw [ssUpd_cp_true]; exact cpUnion_nil_left cpin
  have hseq : ∃ b ss' st1, seqParse (run cfg (f + 5)) arESh (f + 5) 0 [] (ctx0 (t + 1)) 1 true {}
        (memoEnter cfg 0 1 st).regCall = some (b, ss', st1) ∧
      ss'.result = resOf (pRes cfg.file.data k L) ∧ ss'.cp = cpin ∧
      st1.calls = (memoEnter cfg 0 1 st).calls + 2 + c + pCost cfg.file.data k Kin L ∧
      st1.cache = pCache cfg.file.data k Kin L := by
    by_cases hnil : L = []
    · subst hnil
      rw [seq_step_nil arESh (run cfg (f + 5)) (f + 4) 0 _ (ctx0 (t + 1)) 1 true _ _ s1 _ _ rfl href rfl rfl]
      refine ⟨_, _, _, rfl, ?_, hcp, ?_, i3⟩
      · rw [ssUpd_result]; rfl
      · rw [i2]; simp [St.regCall, pCost]
    · rw [seq_step_alts arESh (run cfg (f + 5)) (f + 4) 0 _ (ctx0 (t + 1)) 1 true _ _ s1 _ _ rfl href
        (resOf_isNil_false L hnil)]
      obtain ⟨ss', st', t1, t2, t3, t4, t5⟩ := plus_alts hc (f + 4) (f + 1) (by omega) (ctx0 (t + 1)) true L hL []
        (ssUpd true {} ⟨resOf L, cpin, e0⟩) s1 (by rw [ssUpd_result]; rfl) (by rw [i3]; exact hKin)
      rw [← resOf_alts L] at t1
      refine ⟨_, _, _, t1, t2, by rw [t3, hcp], ?_, by rw [t5, i3]⟩
      rw [t4, i2, i3]; simp [St.regCall]
  obtain ⟨b, ss', st1, q1, q2, q3, q4, q5⟩ := hseq
  obtain ⟨e1, s2, r1, r2, r3, _⟩ := run_shape_res hc.max (f + 5) arES arESh (ctx0 (t + 1)) 1 _ arES_shape rfl b ss' st1 _ q1 q2
  rw [q3] at r1
  -- `T` at position 1
  have hinv2 : TInv cfg.file.data k s2.regCall.cache := by
    show TInv cfg.file.data k s2.cache
    rw [r3, q5]
    exact TInv_pCache hc L hL Kin hKin
  obtain ⟨s3, c1, c2, c3⟩ := ar_T_call hc 1 (by omega) (by omega) (ctx0 (t + 1))
    (fun kv h => by cases t <;> simp [ctx0] at h <;> simp [h]) (f + 5) (by omega) s2.regCall hinv2
  have hrefT : run cfg (f + 5 + 1) (.ref 1) (ctx0 (t + 1)) 1 s2.regCall =
      some (⟨resOf (TNf cfg.file.data k 1), [1], none⟩, s3) := by
    rw [run_ref hc.max (f + 5) 1 arT (by rw [hc.env]; rfl)]
    exact c1
  obtain ⟨e', s4, a1, a2, a3, a4⟩ := run_any2c hc.max (f + 5) arES (.ref 1) (ctx0 (t + 1)) 1 (memoEnter cfg 0 1 st) _ _ s2 s3
    r1 hrefT
  have hres : appendNode (resOf (pRes cfg.file.data k L)) (resOf (TNf cfg.file.data k 1)) =
      resOf (pRes cfg.file.data k L ++ TNf cfg.file.data k 1) :=
    appendNode_resOf_list _ _ (fun x hx => (TNf_good hc 1 (by omega) (by omega) x hx).2.2.2.1)
  have hcp2 : cpUnion (cpUnion [] cpin) [1] = [0, 1] := by
    rcases hcpin with rfl | rfl <;> simp [cpUnion]
  simp only [hres, hcp2] at a1 a4
  have he : e' = none := a4 (resOf_isNil_false _ (by simp [TNf_ne cfg.file.data k 1 (by omega)]))
  subst he
  rw [arEBody, a1]
  have hs2c : s2.regCall.cache = pCache cfg.file.data k Kin L := by
    show s2.cache = _
    rw [r3, q5]
  rw [hs2c] at c2 c3
  refine ⟨_, rfl, ?_, ?_⟩
  · show s4.calls = _
    rw [a2, c2]
    show s2.calls + 1 + _ = _
    rw [r2, q4, (memoEnter_fields _ _ _ _).1]
    omega
  · show cacheSave s4.cache _ = _
    rw [a3, c3]
    rfl

/-- the alternatives, the cache and the calls of the level of `E` that is `j` levels above the curtailed one -/
def EN (data : Bytes) (k : Nat) : Nat → List Node
  | 0 => []
  | j + 1 => pRes data k (EN data k j) ++ TNf data k 1

def EK (data : Bytes) (k : Nat) : Nat → List CacheEntry
  | 0 => []
  | j + 1 => cacheSave (tCache data k (pCache data k (EK data k j) (EN data k j)) 1)
      (EEnt (2 * k + 3 - (j + 1)) (EN data k (j + 1)))

def EC (data : Bytes) (k : Nat) : Nat → Nat
  | 0 => 0
  | j + 1 => EC data k j + 3 + pCost data k (EK data k j) (EN data k j) +
      tCost data k (pCache data k (EK data k j) (EN data k j)) 1

theorem EN_good (hc : IsAr k cfg) : ∀ j, ∀ x ∈ EN cfg.file.data k j, goodNode k 1 x := by
  intro j
  induction j with
  | zero => intro x hx; cases hx
  | succ j ih =>
    intro x hx
    simp only [EN, List.mem_append] at hx
    rcases hx with hx | hx
    · exact pRes_good hc _ ih x hx
    · exact TNf_good hc 1 (by omega) (by omega) x hx

theorem TInv_cacheSave_E (data : Bytes) (k : Nat) (K : List CacheEntry) (e : CacheEntry) (he : e.idx = 0)
    (h : TInv data k K) : TInv data k (cacheSave K e) := by
  intro q x hx
  rw [look_cacheSave, if_neg (by rw [he]; omega)] at hx
  exact h q x hx

theorem EK_inv (hc : IsAr k cfg) : ∀ j, TInv cfg.file.data k (EK cfg.file.data k j) := by
  intro j
  induction j with
  | zero => intro q e h; cases h
  | succ j ih =>
    rw [EK]
    exact TInv_cacheSave_E _ _ _ _ rfl (TInv_tCache _ _ _ _ (by omega) (TInv_pCache hc _ (EN_good hc j) _ ih))

/-- **the spine of `E`** -/
theorem ar_E_level (hc : IsAr k cfg) : ∀ j t, j + t = 2 * k + 3 → ∀ st : St, st.cache = [] →
    ∃ st', run cfg (12 * k + 24 + 6 * j) arE (ctx0 t) 1 st =
        some (⟨resOf (EN cfg.file.data k j), if j = 0 then [0] else [0, 1], none⟩, st') ∧
      st'.calls = st.calls + EC cfg.file.data k j ∧ st'.cache = EK cfg.file.data k j := by
  intro j
  induction j with
  | zero =>
    intro t ht st hcache
    rw [arE, run_memo_curtail_eq hc.max _ 0 arEBody (ctx0 t) 1 st (by rw [hcache]; rfl)
      (by rw [ar_remaining hc 1 (by omega) (by omega), ctx0_get]; omega)]
    exact ⟨_, rfl, (logEv_fields _ _ _).2.2.1, by rw [(logEv_fields _ _ _).1, hcache]; rfl⟩
  | succ j ih =>
    intro t ht st hcache
    have inner := ih (t + 1) (by omega)
    obtain ⟨st', h1, h2, h3⟩ := ar_E_step hc (12 * k + 22 + 6 * j) (by omega) t (by omega) (EN cfg.file.data k j)
      (EN_good hc j) (EC cfg.file.data k j) (EK cfg.file.data k j) (EK_inv hc j)
      (if j = 0 then [0] else [0, 1]) (by by_cases h : j = 0 <;> simp [h]) none
      (fun s hs => by
        obtain ⟨s1, a, b, c⟩ := inner s hs
        exact ⟨s1, by rw [show 12 * k + 22 + 6 * j + 2 = 12 * k + 24 + 6 * j by omega]; exact a, b, c⟩)
      st hcache
    refine ⟨st', ?_, ?_, ?_⟩
    · rw [show 12 * k + 24 + 6 * (j + 1) = 12 * k + 22 + 6 * j + 8 by omega]
      simp only [Nat.add_one_ne_zero, ↓reduceIte]
      exact h1
    · rw [h2, EC]; omega
    · rw [h3, EK]
      have : t = 2 * k + 3 - (j + 1) := by omega
      rw [this]
      rfl
