/-
  unicode/utf8: DecodeRune and EncodeRune (AppendRune), re-implemented from the Go source
  (src/unicode/utf8/utf8.go: the `first` table and `acceptRanges`).  Bytes are `Nat` (< 256).
-/
namespace PV.Utf8

def runeError : Nat := 0xFFFD
def maxRune : Nat := 0x10FFFF

def isCont (b : Nat) : Bool := 0x80 ≤ b && b ≤ 0xBF

/-- utf8.DecodeRune(p): (rune, width).  Empty input: (RuneError, 0); invalid or short: (RuneError, 1). -/
def decodeRune : List Nat → Nat × Nat
  | [] => (runeError, 0)
  | b0 :: r =>
    if b0 < 0x80 then (b0, 1)
    else if b0 < 0xC2 then (runeError, 1)
    else if b0 ≤ 0xDF then
      match r with
      | b1 :: _ => if isCont b1 then ((b0 % 32) * 64 + b1 % 64, 2) else (runeError, 1)
      | _ => (runeError, 1)
    else if b0 ≤ 0xEF then
      match r with
      | b1 :: b2 :: _ =>
        let lo := if b0 = 0xE0 then 0xA0 else 0x80
        let hi := if b0 = 0xED then 0x9F else 0xBF
        if lo ≤ b1 && b1 ≤ hi && isCont b2 then ((b0 % 16) * 4096 + (b1 % 64) * 64 + b2 % 64, 3)
        else (runeError, 1)
      | _ => (runeError, 1)
    else if b0 ≤ 0xF4 then
      match r with
      | b1 :: b2 :: b3 :: _ =>
        let lo := if b0 = 0xF0 then 0x90 else 0x80
        let hi := if b0 = 0xF4 then 0x8F else 0xBF
        if lo ≤ b1 && b1 ≤ hi && isCont b2 && isCont b3 then
          ((b0 % 8) * 262144 + (b1 % 64) * 4096 + (b2 % 64) * 64 + b3 % 64, 4)
        else (runeError, 1)
      | _ => (runeError, 1)
    else (runeError, 1)

def isSurrogate (c : Nat) : Bool := 0xD800 ≤ c && c ≤ 0xDFFF

/-- utf8.ValidRune -/
def validRune (c : Nat) : Bool := c ≤ maxRune && !isSurrogate c

/-- utf8.AppendRune / string(rune): invalid runes are encoded as RuneError -/
def encodeRune (c : Nat) : List Nat :=
  if c < 0x80 then [c]
  else if c < 0x800 then [0xC0 + c / 64, 0x80 + c % 64]
  else if !validRune c then [0xEF, 0xBF, 0xBD]
  else if c < 0x10000 then [0xE0 + c / 4096, 0x80 + (c / 64) % 64, 0x80 + c % 64]
  else [0xF0 + c / 262144, 0x80 + (c / 4096) % 64, 0x80 + (c / 64) % 64, 0x80 + c % 64]

end PV.Utf8
