/-
  C14 — interleaving models for "a parser graph can be shared by concurrent parses".

  Three small machines, all scheduled by an arbitrary `List (Fin N)` (the list says which run makes
  the next step; any order, fair or not, finite prefix of any interleaving):

  1. `Machine`  — isolation by construction.  A read-only graph `Γ`, the construction counter, and one
     local state per run (its *parsley.Context with error, call count and result cache; its *text.Reader
     with the regexp cache; its *text.File with the lazily built line table; every `sequence` object and
     result node it allocated).  The step function of run `i` receives `Γ` and `Localᵢ` only.
  2. `HMachine` — one shared heap `Loc → Val`; a step may read and write anything.  Isolation is not
     built in: it is the *hypothesis* `Footprint` (every run reads `own i ∪ ro` only, writes `own i`
     only, the `own`s are pairwise disjoint and disjoint from `ro`).  This is the form the extracted
     facts speak about (Props/C14.lean, `c14_facts`).
  3. `CState` / `RState` — `k` constructors drawing a parser index from the shared counter, by one
     atomic fetch-add (`combinator.Memoize`: `atomic.AddInt32(&nextParserIndex, 1)`), or — the contrast —
     by a separate load and store.

  What none of them has: a memory model.  A step is atomic and its effect is visible to every later
  step (sequential consistency at step granularity).  Go promises that only for data-race-free
  programs; that a program whose runs have disjoint write footprints and a never-written shared part
  *is* data-race-free is the argument the footprint hypothesis stands for, not something proved here.
-/
namespace PV.Conc

/-! ### update of a dependent function at one index -/

def upd {N : Nat} {β : Fin N → Type} (f : (i : Fin N) → β i) (i : Fin N) (v : β i) : (j : Fin N) → β j :=
  fun j => if h : j = i then h ▸ v else f j

/-- how often run `i` is scheduled -/
def occ {N : Nat} (i : Fin N) : List (Fin N) → Nat
  | [] => 0
  | j :: rest => (if j = i then 1 else 0) + occ i rest

/-! ### 1. isolation by construction -/

structure Machine (N : Nat) where
  /-- the parser graph: built once, only ever read -/
  Graph : Type
  /-- everything run `i` owns -/
  Local : Fin N → Type
  /-- one deterministic step of run `i`; `none` = the run has finished -/
  step : (i : Fin N) → Graph → Local i → Option (Local i)

structure State {N : Nat} (M : Machine N) where
  graph : M.Graph
  /-- `combinator.nextParserIndex`: no parse step touches it -/
  counter : Nat
  locals : (i : Fin N) → M.Local i

namespace Machine
variable {N : Nat} (M : Machine N)

/-- run `i` makes a step in the global state (nothing happens when it has finished) -/
def stepRun (s : State M) (i : Fin N) : State M :=
  match M.step i s.graph (s.locals i) with
  | none => s
  | some l => { s with locals := upd s.locals i l }

/-- the interleaved execution of a schedule -/
def run (sched : List (Fin N)) (s : State M) : State M := sched.foldl M.stepRun s

/-- one step of run `i` executed alone -/
def soloStep (i : Fin N) (g : M.Graph) (l : M.Local i) : M.Local i := (M.step i g l).getD l

/-- `n` steps of run `i` executed alone -/
def solo (i : Fin N) (g : M.Graph) : Nat → M.Local i → M.Local i
  | 0, l => l
  | n + 1, l => solo i g n (M.soloStep i g l)

/-- `l'` is the state in which run `i`, executed alone from `l`, finishes -/
def SoloFinal (i : Fin N) (g : M.Graph) (l l' : M.Local i) : Prop :=
  ∃ n, M.solo i g n l = l' ∧ M.step i g l' = none

end Machine

/-! ### 2. one shared heap, isolation as a hypothesis -/

structure HMachine (N : Nat) (Loc Val : Type) where
  /-- one step of run `i` on the whole heap: it may read and write any location; `none` = finished -/
  step : Fin N → (Loc → Val) → Option (Loc → Val)

namespace HMachine
variable {N : Nat} {Loc Val : Type} (H : HMachine N Loc Val)

def stepRun (h : Loc → Val) (i : Fin N) : Loc → Val := (H.step i h).getD h

def run (sched : List (Fin N)) (h : Loc → Val) : Loc → Val := sched.foldl H.stepRun h

def solo (i : Fin N) : Nat → (Loc → Val) → (Loc → Val)
  | 0, h => h
  | n + 1, h => solo i n (H.stepRun h i)

/-- two heaps agree on what run `i` may look at -/
def Agree (own : Fin N → Loc → Prop) (ro : Loc → Prop) (i : Fin N) (h₁ h₂ : Loc → Val) : Prop :=
  ∀ l, own i l ∨ ro l → h₁ l = h₂ l

/-- The footprint discipline.  `own i` = what run `i` owns, `ro` = the shared, never written part
    (the parser graph with everything its closures captured, and the package level variables). -/
structure Footprint (own : Fin N → Loc → Prop) (ro : Loc → Prop) : Prop where
  /-- no location belongs to two runs -/
  own_disjoint : ∀ i j l, i ≠ j → own i l → ¬ own j l
  /-- nothing a run owns is part of the shared graph -/
  ro_disjoint : ∀ i l, own i l → ¬ ro l
  /-- a step of run `i` writes only what run `i` owns; in particular nobody writes `ro` -/
  writes_own : ∀ i h h' l, H.step i h = some h' → ¬ own i l → h' l = h l
  /-- whether a step of run `i` finishes depends only on `own i ∪ ro` -/
  reads_halt : ∀ i h₁ h₂, Agree own ro i h₁ h₂ → (H.step i h₁).isSome = (H.step i h₂).isSome
  /-- what a step of run `i` writes depends only on `own i ∪ ro` -/
  reads_val : ∀ i h₁ h₂ a b, Agree own ro i h₁ h₂ → H.step i h₁ = some a → H.step i h₂ = some b →
    Agree own ro i a b

end HMachine

/-! ### 3. parser indexes -/

/-- `k` constructors and the shared counter; `got i` = the index constructor `i` obtained -/
structure CState (k : Nat) where
  counter : Nat
  got : Fin k → Option Nat

/-- `atomic.AddInt32(&nextParserIndex, 1)`: increment and return the new value, in one step -/
def fetchAdd {k : Nat} (s : CState k) (i : Fin k) : CState k :=
  match s.got i with
  | some _ => s
  | none => { counter := s.counter + 1, got := fun j => if j = i then some (s.counter + 1) else s.got j }

def runAtomic {k : Nat} (sched : List (Fin k)) (s : CState k) : CState k := sched.foldl fetchAdd s

def CState.init (k c₀ : Nat) : CState k := { counter := c₀, got := fun _ => none }

/-- the contrast: `tmp := nextParserIndex` and `nextParserIndex = tmp + 1` as two steps -/
inductive PC where
  | start
  | loaded (tmp : Nat)
  | done (idx : Nat)
  deriving DecidableEq, Repr

structure RState (k : Nat) where
  counter : Nat
  pc : Fin k → PC

def racyStep {k : Nat} (s : RState k) (i : Fin k) : RState k :=
  match s.pc i with
  | .start => { s with pc := fun j => if j = i then .loaded s.counter else s.pc j }
  | .loaded t => { counter := t + 1, pc := fun j => if j = i then .done (t + 1) else s.pc j }
  | .done _ => s

def runRacy {k : Nat} (sched : List (Fin k)) (s : RState k) : RState k := sched.foldl racyStep s

def RState.init (k c₀ : Nat) : RState k := { counter := c₀, pc := fun _ => .start }

/-! ### concrete machines for the non-vacuity examples -/

/-- two runs over a shared "grammar" `g : Nat`: run 0 counts up to `g`, run 1 counts down from its
    input to 0 and records `g` when it is done -/
@[reducible] def exMachine : Machine 2 where
  Graph := Nat
  Local := fun _ => Nat × Nat
  step := fun i g l =>
    if i = 0 then (if l.1 < g then some (l.1 + 1, l.2) else none)
    else (if 0 < l.1 then some (l.1 - 1, l.2) else if l.2 = g then none else some (l.1, g))

def exState : State exMachine := { graph := (3 : Nat), counter := 7, locals := fun _ => ((2, 0) : Nat × Nat) }

/-- heap machine that keeps the discipline: location `i` belongs to run `i` (`i = 0, 1`), location 2 is
    shared and read-only; a step of run `i` adds the shared value to its own cell until it reaches 10 -/
def exHeap : HMachine 2 Nat Nat where
  step := fun i h => if h i.val < 10 then some (fun l => if l = i.val then h l + h 2 else h l) else none

def exOwn : Fin 2 → Nat → Prop := fun i l => l = i.val
def exRo : Nat → Prop := fun l => l = 2

/-- heap machine that breaks it: both runs write location 0 (run 0 adds one, run 1 doubles) -/
def racyHeap : HMachine 2 Nat Nat where
  step := fun i h => some (fun l => if l = 0 then (if i = 0 then h 0 + 1 else h 0 * 2) else h l)

end PV.Conc
